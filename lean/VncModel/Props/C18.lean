import VncModel.Clip.Lemmas
/-!
# C18 — Clipboard text is transferred intact in both directions

Property theorems only (helper lemmas: `VncModel/Clip/Lemmas.lean`).  The model
(`VncModel/Clip/Model.lean`) mirrors the ClientCutText handler, `rfbProcessExtendedServerCutTextData`,
`rfbSendServerCutText(UTF8)` and the capability / notify / provide senders of the server, and
`SendClientCutText(UTF8)`, the ServerCutText case of `HandleRFBServerMessage` and
`rfbClientProcessExtServerCutText` of LibVNCClient — with the three fixes `fixes/C18-*.diff`.
It is tied to the code by the correspondence run `harness/c18.c` ⇄ `Driver/C18.lean`; the limits,
flag bits, default capabilities and the two fixed server messages come from `VncModel.Gen.C18`,
regenerated from /repo on every run, so every theorem below is re-proved against the current values.

zlib is a parameter `Z : Zlib`; theorems that need it assume `ZLaw Z`
(`inflateAll (compress x) = ⟨x, done⟩`, `inflateAll (compressSync x) = ⟨x, more⟩`, non-empty
output).  `env : Env` is the content of uninitialised memory the code may read; all theorems hold
for every `env`.

Quantifiers: every text (any bytes: embedded NULs, invalid UTF-8), every flag word, every client
state and population, every zlib satisfying the laws, every input that follows the message
(`rest`), i.e. every continuation of the history.

What the code does with the NUL: `SendClientCutTextUTF8(t)` and `rfbSendServerCutTextUTF8(t)` both
transmit the record `t ++ [0]` (declared size `|t| + 1`); the receiving callbacks
(`setXCutTextUTF8`, `GotXCutTextUTF8`) get exactly these `|t| + 1` bytes, NUL included.  The classic
message carries `t` alone; `GotXCutText` additionally finds a NUL after the `|t|` bytes (checked by
the harness, not a model statement).

Theorems (→ meaning for the property)
  1  client_to_app_exact_classic      classic text reaches setXCutText byte-exact, any continuation
     client_to_app_exact_provide      any provide(text) message with a well-formed record → exactly that record
     client_notify_ignored            LibVNCClient's notify before each provide has no effect
     client_to_app_exact_partial      SendClientCutTextUTF8(t) → setXCutTextUTF8(t ++ [0])   [partial, see below]
     client_to_app_compressed_oversize  … and refused (sender closed) iff the compressed message exceeds the limit
     client_to_app_no_invented_bytes  every delivered text is literally a record of the inflated stream (all flags, all streams)
  2  app_to_clients_exact(_classic)   per-client output of both publish functions for EVERY population (fully connected = open ∧ NORMAL); cache updated
     app_to_clients_wire              the exact bytes of classic / provide messages
     handshake_client_receives_nothing  a client not yet in state NORMAL gets no message and no cache update
  3  caps_negotiation                 sign-encoded lengths are refused before negotiation
     caps_negotiation_enable          SetEncodings with the pseudo-encoding ⇔ enabled + capability message(s), only with the app callback
     caps_negotiation_required        invariant over all inputs: no callback installed ⇒ never enabled, never a UTF-8 callback
     caps_negotiation_update          exact effect of a client Caps message (length check, limits stored, text withdrawn)
     caps_negotiation_unsolicited     provide/notify only within the client's announced capabilities
  4  oversize_closes_classic/_extended/_record   limits exact: ≤ limit accepted, limit+1 closes, no callback
     malformed_closes_short_record/_no_flags/_truncated   malformed ⇒ closed, nothing delivered (for every `env`)
     oversize_closes_only_offender    all other clients and the configuration are untouched by any input of one client
  5  request_then_provide, peek_then_notify, request_without_publish
  6  client_roundtrip_provide/_classic/_caps, client_refuses_oversize, client_roundtrip_partial [partial]
     zId_law                          the zlib law is satisfiable (tagged identity, used by the driver)
  2' broadcast_survives_failed_client a client whose connection works is served whatever the others are (dead mid-broadcast, closed, handshake)
  7  fitsServer / fitsClient (defs)   decidable predicates on (zlib, text): record incl. NUL ≤ record limit ∧ compressed message ≤ message limit
     client_to_app_exact_iff          SendClientCutTextUTF8(t): delivered exactly iff fitsServer, sender closed without callback otherwise
     client_roundtrip_iff             provide of a publish: GotXCutTextUTF8(t ++ [0]) iff fitsClient, client gives up otherwise
     client_to_app_record_oversize    compressed message fits, record does not → closed
     extended_limit_counts_the_nul    a text of exactly 1 MiB fails both predicates (record limit counts the NUL), classic still carries it
     zero_size_record_closes          size-0 record refused in both stream styles
     vanished_sender_is_closed        a sender that closes right after writing: processed, nothing written to it, closed
     granted_viewer_delivers          a viewer that was view-only at its first update and is granted input later delivers its text (SupportedMessages lists ClientCutText unconditionally)

Partial (`_partial`): the unrestricted statement "every text of 0..1 MiB makes the extended round
trip" is false of the code in two distinct ways — (i) the record limit counts the NUL, so a text of
exactly 2^20 bytes is refused (`extended_limit_counts_the_nul`), (ii) the compressed message is
bounded by the same 1 MiB, so an incompressible text within a few hundred bytes of the limit is
refused.  The exact set is `fitsServer` / `fitsClient`, and `client_to_app_exact_iff` /
`client_roundtrip_iff` prove the full equivalence (delivered exactly ⇔ predicate; closed without
callback otherwise).  Not modelled: write/allocation failures, threads, other
message types than ClientCutText/SetEncodings (server) and ServerCutText/Bell (client).
-/
namespace VncModel.Props.C18
open VncModel.Clip VncModel.Gen.C18

/-! ## 1. client → application -/

/-- **classic ClientCutText**: `SendClientCutText(t)` followed by any further input `rest`: the
application callback `setXCutText` receives exactly `t` (length `|t|`), unless the client is
view-only; nothing is sent back, the client's state is unchanged, processing continues with `rest`. -/
theorem client_to_app_exact_classic (Z : Zlib) (env : Env) (cfg : Cfg) (cl : Cl) (t rest : Bytes)
    (ho : cl.isOpen = true) (hl : t.length ≤ srvMsgLimit) :
    feed Z env cfg cl (cliSendClassic t ++ rest) =
      ⟨(feed Z env cfg cl rest).cl,
       (if cl.viewOnly then [] else [Cb.latin1 t]) ++ (feed Z env cfg cl rest).cbs,
       (feed Z env cfg cl rest).out, (feed Z env cfg cl rest).unmodelled⟩ := by
  have hstep := stepMsg_classic Z env cfg cl t rest hl
  have hform : cliSendClassic t ++ rest =
      UInt8.ofNat msgClientCutText :: (([0, 0, 0] ++ be32 t.length ++ t) ++ rest) := by
    simp [cliSendClassic]
  rw [hform] at hstep ⊢
  have hk : 8 + t.length = ([0, 0, 0] ++ be32 t.length ++ t : Bytes).length + 1 := by
    simp [be32_length]; omega
  rw [hk] at hstep
  rw [feed_msg_append Z env cfg cl cl _ _ rest _ _ ho hstep]
  simp

/-- non-vacuity: a text with an embedded NUL and a non-UTF-8 byte, default client -/
example : (feed ⟨fun _ => ⟨[], .err⟩, id, id⟩ ⟨0⟩ ⟨true⟩ {} (cliSendClassic [104, 0, 255])).cbs
    = [Cb.latin1 [104, 0, 255]] := by
  have h := client_to_app_exact_classic ⟨fun _ => ⟨[], .err⟩, id, id⟩ ⟨0⟩ ⟨true⟩ {} [104, 0, 255] []
    rfl (by decide)
  simp only [List.append_nil, feed_nil] at h
  rw [h]; rfl

/-- **extended provide, general form**: any provide(text) message (flag word with the provide bit,
no caps/request/peek bit, text as the only format; other bits arbitrary) whose zlib payload inflates
to a record `[|d| BE32] ++ d` with `1 ≤ |d| ≤ limit` — finished or sync-flushed stream, possibly
with trailing output — makes `setXCutTextUTF8` receive exactly `d`, and nothing else happens. -/
theorem client_to_app_exact_provide (Z : Zlib) (env : Env) (cfg : Cfg) (cl : Cl) (flags : Nat)
    (z d extra rest : Bytes) (fin : Fin)
    (ho : cl.isOpen = true) (he : cl.ext = true) (hfl : flags < 4294967296)
    (hcaps : flags.testBit bCaps = false) (hreq : flags.testBit bRequest = false)
    (hpeek : flags.testBit bPeek = false) (hprov : flags.testBit bProvide = true)
    (htext : flags.testBit 0 = true) (hother : ∀ i, 1 ≤ i → i < 16 → flags.testBit i = false)
    (hz : Z.inflateAll z = ⟨record d ++ extra, fin⟩) (hne : z ≠ [])
    (hd1 : d ≠ []) (hd2 : d.length ≤ srvRecLimit) (hfin : extra = [] → fin ≠ .err)
    (hm : 4 + z.length ≤ srvMsgLimit) :
    feed Z env cfg cl ((6 : UInt8) :: 0 :: 0 :: 0 :: (be32 (neg32 (4 + z.length)) ++ ((be32 flags ++ z) ++ rest))) =
      ⟨(feed Z env cfg cl rest).cl,
       (if !cl.viewOnly && cfg.cb8 then [Cb.utf8 d] else []) ++ (feed Z env cfg cl rest).cbs,
       (feed Z env cfg cl rest).out, (feed Z env cfg cl rest).unmodelled⟩ := by
  have hbl : (be32 flags ++ z).length = 4 + z.length := by simp [be32_length]
  have hstep := stepMsg_ext Z env cfg cl (be32 flags ++ z) rest he (by omega) (by omega)
  rw [handleExt_provide_text Z env cfg cl flags hfl z d extra fin hcaps hreq hpeek hprov htext hother
    hz hne hd1 hd2 hfin] at hstep
  simp only [ho, if_true, hbl] at hstep
  have hform : (6 : UInt8) :: 0 :: 0 :: 0 :: (be32 (neg32 (4 + z.length)) ++ ((be32 flags ++ z) ++ rest)) =
      (6 : UInt8) :: (([0, 0, 0] ++ be32 (neg32 (4 + z.length)) ++ (be32 flags ++ z)) ++ rest) := by
    simp
  rw [hform] at hstep ⊢
  have hk : 8 + (4 + z.length) =
      ([0, 0, 0] ++ be32 (neg32 (4 + z.length)) ++ (be32 flags ++ z) : Bytes).length + 1 := by
    simp [be32_length]; omega
  rw [hk] at hstep
  rw [feed_msg_append Z env cfg cl cl _ _ rest _ _ ho hstep]
  simp

/-- the notify(text) message LibVNCClient sends before every provide is ignored by the server -/
theorem client_notify_ignored (Z : Zlib) (env : Env) (cfg : Cfg) (cl : Cl) (rest : Bytes)
    (ho : cl.isOpen = true) (he : cl.ext = true) :
    feed Z env cfg cl (cliNotifyMsg ++ rest) = feed Z env cfg cl rest := by
  have hnstep : stepMsg Z env cfg cl ((6 : UInt8) :: 0 :: 0 :: 0 ::
      (be32 (neg32 (be32 cliNotifyFlags).length) ++ (be32 cliNotifyFlags ++ rest))) =
      Step.next cl [] [] (8 + (be32 cliNotifyFlags).length) := by
    have h := stepMsg_ext Z env cfg cl (be32 cliNotifyFlags) rest he (by simp [be32_length])
      (by simp [be32_length, srvMsgLimit])
    have hh : handleExt Z env cfg cl (be32 cliNotifyFlags) = ⟨cl, [], []⟩ := by
      have hrd : rd32 (be32 cliNotifyFlags) = cliNotifyFlags := rd32_be32' _ (by decide)
      unfold handleExt
      simp only [hrd, be32_length, extMinLen]
      have h1 : cliNotifyFlags.testBit bCaps = false := by decide
      have h2 : cliNotifyFlags.testBit bRequest = false := by decide
      have h3 : cliNotifyFlags.testBit bPeek = false := by decide
      have h4 : cliNotifyFlags.testBit bProvide = false := by decide
      simp [h1, h2, h3, h4]
    rw [hh] at h
    simpa [ho] using h
  have hform : cliNotifyMsg ++ rest =
      (6 : UInt8) :: (([0, 0, 0] ++ be32 (neg32 4) ++ be32 cliNotifyFlags) ++ rest) := by
    simp [cliNotifyMsg, msgClientCutText]
  have hform2 : (6 : UInt8) :: 0 :: 0 :: 0 ::
      (be32 (neg32 (be32 cliNotifyFlags).length) ++ (be32 cliNotifyFlags ++ rest)) =
      (6 : UInt8) :: (([0, 0, 0] ++ be32 (neg32 4) ++ be32 cliNotifyFlags) ++ rest) := by
    simp [be32_length]
  rw [hform2] at hnstep
  have hk : 8 + (be32 cliNotifyFlags).length =
      ([0, 0, 0] ++ be32 (neg32 4) ++ be32 cliNotifyFlags : Bytes).length + 1 := by
    simp [be32_length]
  rw [hk] at hnstep
  rw [hform, feed_msg_append Z env cfg cl cl _ _ _ _ _ ho hnstep]
  simp

/- Full-strength statement of the extended direction, NOT provable because it is false of the code:

     ∀ t, t.length + 1 ≤ 2^20 → SendClientCutTextUTF8(t) makes setXCutTextUTF8 receive t ++ [0]

   The server bounds the length of the *compressed* message by the same 1 MiB, so a text that does
   not compress (random bytes) within a few hundred bytes of 1 MiB is refused and the connection
   closed (`client_to_app_compressed_oversize` below proves exactly that, for every zlib).  What
   is proved is the statement for every text whose compressed message fits — the exact
   characterisation: delivered intact iff `4 + |compressSync (record (t ++ [0]))| ≤ srvMsgLimit`. -/

/-- **extended, LibVNCClient as the sender** (composition under the zlib law): what
`SendClientCutTextUTF8(t)` writes — notify(text), then provide(text) of `t` plus NUL, sync-flushed —
is accepted by the server handler, and `setXCutTextUTF8` receives exactly `t ++ [0]`, length `|t|+1`.
Partial: hypothesis `hm` (the compressed message fits the limit), see the comment above. -/
theorem client_to_app_exact_partial (Z : Zlib) (hZ : ZLaw Z) (env : Env) (cfg : Cfg) (cl : Cl) (c : LC)
    (t rest : Bytes) (ho : cl.isOpen = true) (he : cl.ext = true) (hc : c.caps ≠ 0)
    (hsize : t.length + 1 ≤ srvRecLimit)
    (hm : 4 + (Z.compressSync (record (t ++ [0]))).length ≤ srvMsgLimit) :
    ∃ w, cliSendUtf8 Z c t = some w ∧
      feed Z env cfg cl (w ++ rest) =
        ⟨(feed Z env cfg cl rest).cl,
         (if !cl.viewOnly && cfg.cb8 then [Cb.utf8 (t ++ [0])] else []) ++ (feed Z env cfg cl rest).cbs,
         (feed Z env cfg cl rest).out, (feed Z env cfg cl rest).unmodelled⟩ := by
  refine ⟨cliNotifyMsg ++ cliProvideMsg (Z.compressSync (record (t ++ [0]))), by simp [cliSendUtf8, hc], ?_⟩
  rw [List.append_assoc, client_notify_ignored Z env cfg cl _ ho he]
  have hp := client_to_app_exact_provide Z env cfg cl cliProvideFlags
    (Z.compressSync (record (t ++ [0]))) (t ++ [0]) [] rest .more ho he (by decide)
    (by decide) (by decide) (by decide) (by decide) (by decide) (bits_of_range _ (by decide))
    (by simpa using hZ.inflate_sync (record (t ++ [0]))) (hZ.sync_ne _) (by simp) (by simpa using hsize)
    (by intro _ h; cases h) hm
  have hpf : cliProvideMsg (Z.compressSync (record (t ++ [0]))) ++ rest =
      (6 : UInt8) :: 0 :: 0 :: 0 :: (be32 (neg32 (4 + (Z.compressSync (record (t ++ [0]))).length)) ++
        ((be32 cliProvideFlags ++ Z.compressSync (record (t ++ [0]))) ++ rest)) := by
    simp [cliProvideMsg, msgClientCutText]
  rw [hpf, hp]

/-- **the excluded texts really are refused**: if the compressed provide message is longer than the
message limit, the server closes the connection of the sending client (and only that one,
`oversize_closes_only_offender`) without any callback — whatever `t` is. -/
theorem client_to_app_compressed_oversize (Z : Zlib) (env : Env) (cfg : Cfg) (cl : Cl) (c : LC)
    (t rest : Bytes) (ho : cl.isOpen = true) (he : cl.ext = true) (hc : c.caps ≠ 0)
    (hbig : 4 + (Z.compressSync (record (t ++ [0]))).length > srvMsgLimit)
    (h31 : 4 + (Z.compressSync (record (t ++ [0]))).length ≤ 2147483648) :
    ∃ w, cliSendUtf8 Z c t = some w ∧ feed Z env cfg cl (w ++ rest) = ⟨closeCl cl, [], [], false⟩ := by
  refine ⟨cliNotifyMsg ++ cliProvideMsg (Z.compressSync (record (t ++ [0]))), by simp [cliSendUtf8, hc], ?_⟩
  rw [List.append_assoc, client_notify_ignored Z env cfg cl _ ho he]
  have hpf : cliProvideMsg (Z.compressSync (record (t ++ [0]))) ++ rest =
      (6 : UInt8) :: 0 :: 0 :: 0 :: (be32 (neg32 (4 + (Z.compressSync (record (t ++ [0]))).length)) ++
        ((be32 cliProvideFlags ++ Z.compressSync (record (t ++ [0]))) ++ rest)) := by
    simp [cliProvideMsg, msgClientCutText]
  rw [hpf]
  exact feed_closedStep Z env cfg cl _ _ _ _ _ ho (stepMsg_ext_oversize Z env cfg cl 0 0 0 _ _ he hbig h31)

/-- witness for the exclusion: with the tagged-identity zlib (`compressSync x = 2 :: x`, which
satisfies `ZLaw`) every text of `2^20 - 6` bytes meets the record limit but its message does not fit -/
example (t : Bytes) (h : t.length = 1048570) :
    t.length + 1 ≤ srvRecLimit ∧ 4 + ((2 : UInt8) :: record (t ++ [0])).length > srvMsgLimit := by
  have h1 : srvRecLimit = 1048576 := rfl
  have h2 : srvMsgLimit = 1048576 := rfl
  simp only [List.length_cons, record_length, List.length_append, List.length_nil]
  omega

/-! ## 2. application → every connected client -/

/-- what one client must receive when the application publishes UTF-8 text `t` with optional
Latin-1 fallback `fb` — written as a specification, independently of `sendUtf8One` -/
def expectUtf8 (cl : Cl) (t : Bytes) (fb : Option Bytes) : List SMsg :=
  if cl.isOpen = false ∨ cl.normal = false then []
  else if cl.ext = true then
    if cl.userCap.testBit bProvide = true ∧ t.length ≤ cl.maxUnsol then [.provide (record (t ++ [0]))]
    else if cl.userCap.testBit bNotify = true then [.notify]
    else []
  else match fb with
    | some f => [.classic f]
    | none => []

/-- **`rfbSendServerCutTextUTF8` for every population** of extended, classic, not-yet-NORMAL,
closed and failing clients: each fully connected (open, state NORMAL) extended client gets exactly
one provide whose record is `t ++ [0]` with declared size `|t| + 1` (if its capabilities allow an
unsolicited provide of `|t|` bytes), else one notify (if it accepts notifies), else nothing — never
the fallback; each fully connected classic client gets exactly the Latin-1 fallback (nothing if
there is none); closed clients and clients still in the handshake get nothing and keep their
record; a client whose peer is gone gets nothing and is closed if something was due to it — and
that does not change what any other client gets; every fully connected extended client's cache
then holds `t ++ [0]` for a later request. -/
theorem app_to_clients_exact (s : Sys) (t : Bytes) (fb : Option Bytes) :
    (s.pub8 t fb).2 = s.cls.map (fun p =>
      (p.1, if p.2.peerGone = true then [] else expectUtf8 p.2 t fb)) ∧
    (s.pub8 t fb).1.cls = s.cls.map (fun p =>
      (p.1,
        let c := if p.2.isOpen = true ∧ p.2.normal = true ∧ p.2.ext = true
                 then { p.2 with data := some (t ++ [0]) } else p.2
        if p.2.peerGone = true ∧ expectUtf8 p.2 t fb ≠ [] then closeCl c else c)) := by
  constructor
  · simp only [Sys.pub8]
    apply List.map_congr_left
    intro p _
    rcases p with ⟨pid, ⟨o, n, g, v, e, u, m, d⟩⟩
    simp only [sendUtf8One, expectUtf8, writeOutcome, closeCl]
    cases g <;> cases o <;> cases n <;> cases e <;> cases fb <;>
      cases hP : u.testBit bProvide <;> cases hN : u.testBit bNotify <;>
      by_cases hle : t.length ≤ m <;> simp [hle]
  · simp only [Sys.pub8]
    apply List.map_congr_left
    intro p _
    rcases p with ⟨pid, ⟨o, n, g, v, e, u, m, d⟩⟩
    simp only [sendUtf8One, expectUtf8, writeOutcome, closeCl]
    cases g <;> cases o <;> cases n <;> cases e <;> cases fb <;>
      cases hP : u.testBit bProvide <;> cases hN : u.testBit bNotify <;>
      by_cases hle : t.length ≤ m <;> simp [hle]

/-- **`rfbSendServerCutText` (classic) for every population**: every fully connected client —
extended or not — gets exactly `t`; closed clients and clients still in the handshake nothing; a
client whose peer is gone gets nothing and is closed. -/
theorem app_to_clients_exact_classic (s : Sys) (t : Bytes) :
    (s.pub t).2 = s.cls.map (fun p =>
      (p.1, if p.2.isOpen = true ∧ p.2.normal = true ∧ p.2.peerGone = false then [SMsg.classic t] else [])) ∧
    (s.pub t).1.cls = s.cls.map (fun p =>
      (p.1, if p.2.isOpen = true ∧ p.2.normal = true ∧ p.2.peerGone = true then closeCl p.2 else p.2)) := by
  constructor <;>
  · simp only [Sys.pub, sendClassicOne, writeOutcome]
    apply List.map_congr_left
    intro p _
    rcases p with ⟨pid, ⟨o, n, g, v, e, u, m, d⟩⟩
    cases o <;> cases n <;> cases g <;> simp [closeCl]

/-- **one client's failure does not stop the broadcast**: whatever the other entries of the
population are — closed, failing mid-broadcast, still in the handshake — a client whose connection
works is served exactly as if it were alone (the `continue` arms of both publish loops). -/
theorem broadcast_survives_failed_client (s : Sys) (t : Bytes) (fb : Option Bytes) (id : Nat) (cl : Cl)
    (hmem : (id, cl) ∈ s.cls) (hok : cl.peerGone = false) :
    (id, expectUtf8 cl t fb) ∈ (s.pub8 t fb).2 ∧
    (id, if cl.isOpen = true ∧ cl.normal = true then [SMsg.classic t] else []) ∈ (s.pub t).2 := by
  constructor
  · rw [(app_to_clients_exact s t fb).1]
    exact List.mem_map.mpr ⟨(id, cl), hmem, by simp [hok]⟩
  · rw [(app_to_clients_exact_classic s t).1]
    exact List.mem_map.mpr ⟨(id, cl), hmem, by simp [hok]⟩

/-- **a client still in the handshake receives nothing** from either publish function, whatever
its other fields say, and its record (in particular its cache) is left exactly as it was: no
ServerCutText can land in the middle of a handshake (/repo 8f8266a). -/
theorem handshake_client_receives_nothing (cl : Cl) (t : Bytes) (fb : Option Bytes)
    (h : cl.normal = false) :
    sendClassicOne cl t = [] ∧ sendUtf8One cl t fb = (cl, []) := by
  simp [sendClassicOne, sendUtf8One, h]

/-- the bytes on the wire: classic = type 3, padding, `|t|` big-endian, `t`; provide = type 3,
padding, minus (4 + compressed size) as a 32-bit two's complement, the provide|text flag word, the
zlib stream of `[|t|+1 BE32] ++ t ++ [0]` -/
theorem app_to_clients_wire (Z : Zlib) (t : Bytes) :
    SMsg.wire Z (.classic t) = [3, 0, 0, 0] ++ be32 t.length ++ t ∧
    SMsg.wire Z (.provide (record (t ++ [0]))) =
      [3, 0, 0, 0] ++ be32 (neg32 (4 + (Z.compress (be32 (t.length + 1) ++ t ++ [0])).length)) ++
        be32 (2 ^ 28 + 1) ++ Z.compress (be32 (t.length + 1) ++ t ++ [0]) := by
  constructor
  · rfl
  · simp [SMsg.wire, record, msgServerCutText, srvProvideFlags, bProvide, bText]

/-- non-vacuity: a mixed population (extended with small unsolicited limit, extended default,
classic, closed, still in the handshake, peer gone, classic after the failing one) -/
example : (Sys.pub8 ⟨⟨true⟩, [(0, { ext := true, maxUnsol := 2 }), (1, { ext := true }), (2, {}),
      (3, { isOpen := false }), (4, { normal := false }), (5, { peerGone := true }), (6, {})]⟩
      [65, 66, 67] (some [63])).2 =
    [(0, [.notify]), (1, [.provide (record [65, 66, 67, 0])]), (2, [.classic [63]]), (3, []), (4, []),
     (5, []), (6, [.classic [63]])] := by
  decide

/-! ## 3. capability negotiation -/

/-- **enabling**: a SetEncodings message listing the pseudo-encoding `k > 0` times enables the
extension and sends the capability message `k` times — if and only if the application installed
`setXCutTextUTF8`; otherwise (or with `k = 0`) the clipboard state is untouched. -/
theorem caps_negotiation_enable (Z : Zlib) (env : Env) (cfg : Cfg) (cl : Cl) (pad : UInt8)
    (encs : List Nat) (rest : Bytes) (hn : encs.length < 65536) (he : ∀ e ∈ encs, e < 4294967296) :
    stepMsg Z env cfg cl ((2 : UInt8) :: pad :: UInt8.ofNat (encs.length / 256) ::
        UInt8.ofNat (encs.length % 256) :: (encs.flatMap be32 ++ rest)) =
      (if cfg.cb8 = true ∧ encs.count encExtendedClipboard > 0 then
        Step.next { cl with ext := true } [] (List.replicate (encs.count encExtendedClipboard) .caps)
          (4 + 4 * encs.length)
       else Step.next cl [] [] (4 + 4 * encs.length)) := by
  have hlen := flatMap_be32_length encs
  have hcnt := countExt_flatMap encs he
  have hnn : (UInt8.ofNat (encs.length / 256)).toNat * 256 + (UInt8.ofNat (encs.length % 256)).toNat
      = encs.length := by
    simp only [UInt8.toNat_ofNat']; omega
  simp only [stepMsg]
  rw [if_neg (by decide), if_pos (by decide)]
  simp only [stepEnc, hnn, szSetEncodingsMsg]
  have htake : (encs.flatMap be32 ++ rest).take (4 * encs.length) = encs.flatMap be32 :=
    List.take_left' hlen
  rw [htake, hcnt]
  simp [hlen]

/-- **no extended traffic without negotiation** (all histories): as long as the application has not
installed `setXCutTextUTF8`, no input whatsoever enables the extension or produces a UTF-8 callback. -/
theorem caps_negotiation_required (Z : Zlib) (env : Env) (cl : Cl) (input : Bytes)
    (he : cl.ext = false) :
    (feed Z env ⟨false⟩ cl input).cl.ext = false ∧
    ∀ b, Cb.utf8 b ∉ (feed Z env ⟨false⟩ cl input).cbs := by
  fun_induction feed Z env ⟨false⟩ cl input with
  | case1 cl => simp [he]
  | case2 cl t rest hc => simp [he]
  | case3 cl t rest hc cl' cbs out k hs r ih =>
    have hstep := stepMsg_noext Z env cl (t :: rest) he
    rw [hs] at hstep
    obtain ⟨h1, h2⟩ := ih hstep.1
    refine ⟨h1, ?_⟩
    intro b hb
    rcases List.mem_append.mp hb with hb | hb
    · exact hstep.2 b hb
    · exact h2 b hb
  | case4 cl t rest hc cl' cbs out hs =>
    have hstep := stepMsg_noext Z env cl (t :: rest) he
    rw [hs] at hstep
    exact hstep
  | case5 cl t rest hc hs => simp [he]

/-- **a client Caps message** (flag word with the caps bit; `nf` = number of format bits 0..15 set;
`body` = flag word followed by the size array), exact effect:
* `nf ≥ 1`, array length ≠ `nf`: the connection is closed;
* `nf ≥ 1`, right length, text format included: the server now remembers exactly the client's flag
  word and the text size limit the client sent (first array entry); the extension stays enabled;
* text format not offered (or no format at all): the extension is switched off again.
Nothing is sent and no callback is made in any case. -/
theorem caps_negotiation_update (Z : Zlib) (env : Env) (cfg : Cfg) (cl : Cl) (flags : Nat)
    (sizes : Bytes) (hfl : flags < 4294967296) (hcaps : flags.testBit bCaps = true) :
    handleExt Z env cfg cl (be32 flags ++ sizes) =
      (if popFormats flags ≠ 0 ∧ sizes.length ≠ popFormats flags * 4 then
         ⟨closeCl { cl with userCap := flags }, [], []⟩
       else if flags.testBit bText = true then
         ⟨{ cl with userCap := flags, maxUnsol := rd32 sizes,
                    ext := if popFormats flags = 0 then false else cl.ext }, [], []⟩
       else ⟨{ cl with userCap := flags, ext := false }, [], []⟩) := by
  have hlen : ¬ (4 + sizes.length < extMinLen) := by simp [extMinLen]
  have hrd : rd32 (be32 flags ++ sizes) = flags := rd32_be32 flags hfl sizes
  have hdrop : (be32 flags ++ sizes).drop 4 = sizes := List.drop_left' (be32_length _)
  have hl : (be32 flags ++ sizes).length = 4 + sizes.length := by simp [be32_length]
  unfold handleExt
  simp only [hl, hlen, if_false, hrd, hcaps, if_true, hdrop]
  by_cases h0 : popFormats flags = 0
  · simp [h0]
  · by_cases hs : sizes.length = popFormats flags * 4
    · simp [h0, hs]
    · have : ¬ (4 + sizes.length = 4 + popFormats flags * 4) := by omega
      simp [h0, hs]

/-- non-vacuity: text+rtf offered with two sizes, limit 10 -/
example : handleExt ⟨fun _ => ⟨[], .err⟩, id, id⟩ ⟨0⟩ ⟨true⟩ { ext := true }
    (be32 (2 ^ 24 + 2 ^ 28 + 3) ++ be32 10 ++ be32 99) =
    ⟨{ ext := true, userCap := 2 ^ 24 + 2 ^ 28 + 3, maxUnsol := 10 }, [], []⟩ := by
  decide

/-- **nothing unsolicited beyond the negotiated capabilities**: a provide leaves the server
unasked only if the client's last capability word allows provides and the text is not longer than
the client's announced limit; a notify only if the client accepts notifies; a client that did not
enable the extension never gets an extended message (only the classic fallback). -/
theorem caps_negotiation_unsolicited (cl : Cl) (t : Bytes) (fb : Option Bytes) :
    (∀ r, SMsg.provide r ∈ (sendUtf8One cl t fb).2 →
        cl.ext = true ∧ cl.userCap.testBit bProvide = true ∧ t.length ≤ cl.maxUnsol) ∧
    (SMsg.notify ∈ (sendUtf8One cl t fb).2 → cl.ext = true ∧ cl.userCap.testBit bNotify = true) ∧
    (cl.ext = false → ∀ m ∈ (sendUtf8One cl t fb).2, ∃ f, fb = some f ∧ m = .classic f) := by
  simp only [sendUtf8One]
  cases cl.isOpen <;> cases cl.normal <;> cases cl.ext <;> cases fb <;>
    cases hP : cl.userCap.testBit bProvide <;> cases hN : cl.userCap.testBit bNotify <;>
    by_cases hle : t.length ≤ cl.maxUnsol <;> simp [hle]

/-! ## 4. limits: only the offender is closed -/

/-- **classic length limit, exact**: a ClientCutText header announcing `n` bytes (not interpreted as
extended: extension off, or `n < 2^31`) is accepted iff `n ≤ srvMsgLimit`: with `n = limit` (and the
bytes present) the text is delivered; with `n = limit + 1` — or anything larger — the connection is
closed before a single body byte is read, with no callback and no reply. -/
theorem oversize_closes_classic (Z : Zlib) (env : Env) (cfg : Cfg) (cl : Cl) (p1 p2 p3 : UInt8)
    (n : Nat) (tail : Bytes) (hn : n < 4294967296)
    (hcl : cl.ext = false ∨ n < 2147483648) :
    (n ≤ srvMsgLimit → n ≤ tail.length →
      stepMsg Z env cfg cl ((6 : UInt8) :: p1 :: p2 :: p3 :: (be32 n ++ tail)) =
        .next cl (if cl.viewOnly then [] else [Cb.latin1 (tail.take n)]) [] (8 + n)) ∧
    (n > srvMsgLimit →
      stepMsg Z env cfg cl ((6 : UInt8) :: p1 :: p2 :: p3 :: (be32 n ++ tail)) =
        .closed (closeCl cl) [] []) := by
  have hx : (cl.ext && decide (n ≥ 2147483648)) = false := by
    rcases hcl with h | h
    · simp [h]
    · have : ¬ n ≥ 2147483648 := by omega
      simp [this]
  constructor
  · intro h1 h2
    simp only [stepMsg]
    rw [if_pos (by decide), stepCut_hdr Z env cfg cl 6 p1 p2 p3 n hn tail]
    simp [hx, Nat.not_lt.mpr h1, List.length_take, Nat.min_eq_left h2]
  · intro h1
    simp only [stepMsg]
    rw [if_pos (by decide), stepCut_hdr Z env cfg cl 6 p1 p2 p3 n hn tail]
    simp [hx, h1]

/-- **extended messages are accepted only after negotiation**: on a client that has not enabled the
extension (never announced the pseudo-encoding, or the application has no UTF-8 callback, or its
Caps message withdrew the text format) every sign-encoded length is just a huge classic length:
the connection is closed, nothing is delivered, nothing is sent. -/
theorem caps_negotiation (Z : Zlib) (env : Env) (cfg : Cfg) (cl : Cl) (p1 p2 p3 : UInt8) (n : Nat)
    (tail : Bytes) (he : cl.ext = false) (h1 : 2147483648 ≤ n) (h2 : n < 4294967296) :
    stepMsg Z env cfg cl ((6 : UInt8) :: p1 :: p2 :: p3 :: (be32 n ++ tail)) =
      .closed (closeCl cl) [] [] ∧
    ({} : Cl).ext = false := by
  have hlim : srvMsgLimit = 1048576 := rfl
  exact ⟨(oversize_closes_classic Z env cfg cl p1 p2 p3 n tail h2 (Or.inl he)).2 (by omega), rfl⟩

/-- the limit is exactly 1 MiB and both sides of it are inhabited -/
example : srvMsgLimit = 1048576 ∧ srvMsgLimit + 1 > srvMsgLimit ∧ srvMsgLimit + 1 < 2147483648 := by decide

/-- **extended length limit, exact**: on a client with the extension enabled a sign-encoded length
`-n` is accepted iff `n ≤ srvMsgLimit`; `n = limit + 1` (or more, up to `2^31`) closes the
connection with no callback and no reply. -/
theorem oversize_closes_extended (Z : Zlib) (env : Env) (cfg : Cfg) (cl : Cl) (p1 p2 p3 : UInt8)
    (n : Nat) (tail : Bytes) (he : cl.ext = true) (h1 : n > srvMsgLimit) (h2 : n ≤ 2147483648) :
    stepMsg Z env cfg cl ((6 : UInt8) :: p1 :: p2 :: p3 :: (be32 (neg32 n) ++ tail)) =
      .closed (closeCl cl) [] [] :=
  stepMsg_ext_oversize Z env cfg cl p1 p2 p3 n tail he h1 h2

/-- **record size limit, exact** (inside the zlib stream): a text record announcing `sz` bytes is
refused — connection closed, no callback — as soon as `sz > srvRecLimit`, whatever follows in the
stream; `sz = srvRecLimit` is accepted by `client_to_app_exact_provide`. -/
theorem oversize_closes_record (Z : Zlib) (env : Env) (cfg : Cfg) (cl : Cl) (flags sz : Nat)
    (z more : Bytes) (fin : Fin) (hfl : flags < 4294967296)
    (hcaps : flags.testBit bCaps = false) (hreq : flags.testBit bRequest = false)
    (hpeek : flags.testBit bPeek = false) (hprov : flags.testBit bProvide = true)
    (htext : flags.testBit 0 = true)
    (hz : Z.inflateAll z = ⟨be32 sz ++ more, fin⟩) (hsz : sz < 4294967296) (hbig : sz > srvRecLimit) :
    handleExt Z env cfg cl (be32 flags ++ z) = ⟨closeCl cl, [], []⟩ := by
  have hlen : ¬ (be32 flags ++ z).length < extMinLen := by simp [be32_length, extMinLen]
  have hrd : rd32 (be32 flags ++ z) = flags := rd32_be32 flags hfl z
  have hdrop : (be32 flags ++ z).drop 4 = z := List.drop_left' (be32_length _)
  have hrec := readRecord_oversize env srvRecLimit sz (ZState.init Z z) more (by simp [ZState.init, hz]) hsz hbig
  unfold handleExt
  simp only [hlen, if_false, hrd, hcaps, hreq, hpeek, hprov, if_true, hdrop, range16, Bool.false_eq_true]
  rw [provLoop]
  simp [htext, hrec]

/-- **malformed: declared size larger than the data present** (the defect fixed by
fixes/C18-provide-size-check.diff): closed, no callback — the application never sees bytes that
were not in the stream. -/
theorem malformed_closes_short_record (Z : Zlib) (env : Env) (cfg : Cfg) (cl : Cl) (flags sz : Nat)
    (z have_ : Bytes) (fin : Fin) (hfl : flags < 4294967296)
    (hcaps : flags.testBit bCaps = false) (hreq : flags.testBit bRequest = false)
    (hpeek : flags.testBit bPeek = false) (hprov : flags.testBit bProvide = true)
    (htext : flags.testBit 0 = true)
    (hz : Z.inflateAll z = ⟨be32 sz ++ have_, fin⟩) (hsz : sz < 4294967296)
    (hshort : have_.length < sz) :
    handleExt Z env cfg cl (be32 flags ++ z) = ⟨closeCl cl, [], []⟩ := by
  have hlen : ¬ (be32 flags ++ z).length < extMinLen := by simp [be32_length, extMinLen]
  have hrd : rd32 (be32 flags ++ z) = flags := rd32_be32 flags hfl z
  have hdrop : (be32 flags ++ z).drop 4 = z := List.drop_left' (be32_length _)
  have hrec := readRecord_short env srvRecLimit sz (ZState.init Z z) have_ (by simp [ZState.init, hz]) hsz hshort
  unfold handleExt
  simp only [hlen, if_false, hrd, hcaps, hreq, hpeek, hprov, if_true, hdrop, range16, Bool.false_eq_true]
  rw [provLoop]
  simp [htext, hrec]

/-- **malformed: too short for a flag word** (sign-encoded lengths −1, −2, −3 … and −0 is not
negative): closed. -/
theorem malformed_closes_no_flags (Z : Zlib) (env : Env) (cfg : Cfg) (cl : Cl) (body : Bytes)
    (h : body.length < 4) : handleExt Z env cfg cl body = ⟨closeCl cl, [], []⟩ := by
  unfold handleExt
  simp [extMinLen, h]

/-- **malformed: stream too short for a size word, or in error before it** (truncated zlib data,
garbage): closed, no callback — for every value the uninitialised `size` variable may hold. -/
theorem malformed_closes_truncated (Z : Zlib) (env : Env) (cfg : Cfg) (cl : Cl) (flags : Nat)
    (z : Bytes) (hfl : flags < 4294967296)
    (hcaps : flags.testBit bCaps = false) (hreq : flags.testBit bRequest = false)
    (hpeek : flags.testBit bPeek = false) (hprov : flags.testBit bProvide = true)
    (htext : flags.testBit 0 = true) (hz : (Z.inflateAll z).out.length < 4) :
    handleExt Z env cfg cl (be32 flags ++ z) = ⟨closeCl cl, [], []⟩ := by
  have hlen : ¬ (be32 flags ++ z).length < extMinLen := by simp [be32_length, extMinLen]
  have hrd : rd32 (be32 flags ++ z) = flags := rd32_be32 flags hfl z
  have hdrop : (be32 flags ++ z).drop 4 = z := List.drop_left' (be32_length _)
  have hrec := readRecord_tiny env srvRecLimit (ZState.init Z z) (by simpa [ZState.init] using hz)
  unfold handleExt
  simp only [hlen, if_false, hrd, hcaps, hreq, hpeek, hprov, if_true, hdrop, range16, Bool.false_eq_true]
  rw [provLoop]
  simp [htext, hrec]

/-- **only the offender**: whatever bytes arrive from client `id` — well-formed, oversized or
malformed, any number of messages — every other client's record (open/closed, capabilities, cached
text) and the screen configuration are exactly what they were; callbacks and replies of that input
belong to `id` alone (`FeedRes` carries no other client). -/
theorem oversize_closes_only_offender (Z : Zlib) (env : Env) (s : Sys) (id j : Nat) (input : Bytes)
    (hj : j ≠ id) :
    (s.feed Z env id input).1.get j = s.get j ∧ (s.feed Z env id input).1.cfg = s.cfg := by
  unfold Sys.feed
  cases hg : s.get id with
  | none => exact ⟨rfl, rfl⟩
  | some cl => exact ⟨get_set_ne s id j _ hj, rfl⟩

/-- **intact or not at all** (every flag word, every stream, every `env`): whatever a provide
message makes the handler deliver to `setXCutTextUTF8` is a record that is literally present in the
inflated stream — four bytes announcing its length, then exactly these bytes, at most
`srvRecLimit` of them.  No byte the client did not send ever reaches the application. -/
theorem client_to_app_no_invented_bytes (Z : Zlib) (env : Env) (cfg : Cfg) (cl : Cl) (flags : Nat)
    (z : Bytes) (hfl : flags < 4294967296) (hcaps : flags.testBit bCaps = false)
    (hreq : flags.testBit bRequest = false) (hpeek : flags.testBit bPeek = false) :
    (∀ b, Cb.utf8 b ∈ (handleExt Z env cfg cl (be32 flags ++ z)).cbs →
      IsRecordOf (Z.inflateAll z).out b srvRecLimit) ∧
    (∀ b, Cb.latin1 b ∉ (handleExt Z env cfg cl (be32 flags ++ z)).cbs) ∧
    ((handleExt Z env cfg cl (be32 flags ++ z)).cl = cl ∨
     (handleExt Z env cfg cl (be32 flags ++ z)).cl = closeCl cl) := by
  have hlen : ¬ (be32 flags ++ z).length < extMinLen := by simp [be32_length, extMinLen]
  have hrd : rd32 (be32 flags ++ z) = flags := rd32_be32 flags hfl z
  have hdrop : (be32 flags ++ z).drop 4 = z := List.drop_left' (be32_length _)
  unfold handleExt
  simp only [hlen, if_false, hrd, hcaps, hreq, hpeek, hdrop, Bool.false_eq_true]
  by_cases hp : flags.testBit bProvide = true
  · simp only [hp, if_true]
    refine ⟨?_, ?_, ?_⟩
    · exact provLoop_sound env cfg cl.viewOnly flags (Z.inflateAll z).out _ _ []
        (by simp) ⟨[], by simp [ZState.init]⟩
    · intro b hb
      have hnl : ∀ is st cbs, (∀ b, Cb.latin1 b ∉ cbs) →
          ∀ b, Cb.latin1 b ∉ (provLoop env cfg cl.viewOnly flags is st cbs).2 := by
        intro is
        induction is with
        | nil => intro st cbs h; simpa [provLoop] using h
        | cons i is ih =>
          intro st cbs h
          rw [provLoop]
          split
          · exact ih st cbs h
          · split
            · simpa using h
            · apply ih
              intro b
              split
              · simp [h b]
              · exact h b
      exact hnl _ _ [] (by simp) b hb
    · cases (provLoop env cfg cl.viewOnly flags (List.range nFormatBits) (ZState.init Z z) []).1 <;> simp
  · simp [hp]

/-! ## 5. request / peek after a publish -/

/-- **request → provide**: after the application published `t`, an extended client that sends a
Request (any flag word with the request bit and without the caps bit, any trailing bytes) is
answered with exactly one provide whose record is the published text plus NUL, declared size
`|t| + 1` — if and only if its capability word allows provides; its state is otherwise unchanged.
This holds whether the publish itself sent a provide, only a notify, or nothing. -/
theorem request_then_provide (Z : Zlib) (env : Env) (cfg : Cfg) (cl : Cl) (t : Bytes)
    (fb : Option Bytes) (flags : Nat) (junk : Bytes)
    (ho : cl.isOpen = true) (hn : cl.normal = true) (he : cl.ext = true) (hfl : flags < 4294967296)
    (hcaps : flags.testBit bCaps = false) (hreq : flags.testBit bRequest = true) :
    (sendUtf8One cl t fb).1 = { cl with data := some (t ++ [0]) } ∧
    handleExt Z env cfg (sendUtf8One cl t fb).1 (be32 flags ++ junk) =
      ⟨(sendUtf8One cl t fb).1, [],
       if cl.userCap.testBit bProvide = true then [.provide (record (t ++ [0]))] else []⟩ := by
  have hst : (sendUtf8One cl t fb).1 = { cl with data := some (t ++ [0]) } := by
    simp only [sendUtf8One, ho, hn, he]
    cases cl.userCap.testBit bProvide <;> cases cl.userCap.testBit bNotify <;>
      by_cases hle : t.length ≤ cl.maxUnsol <;> simp [hle]
  refine ⟨hst, ?_⟩
  have hlen : ¬ (be32 flags ++ junk).length < extMinLen := by simp [be32_length, extMinLen]
  have hrd : rd32 (be32 flags ++ junk) = flags := rd32_be32 flags hfl junk
  rw [hst]
  unfold handleExt
  simp only [hlen, if_false, hrd, hcaps, hreq, if_true, Bool.false_eq_true]
  cases cl.userCap.testBit bProvide <;> simp

/-- **peek → notify**: likewise a Peek is answered with one notify iff the client accepts notifies. -/
theorem peek_then_notify (Z : Zlib) (env : Env) (cfg : Cfg) (cl : Cl) (t : Bytes)
    (fb : Option Bytes) (flags : Nat) (junk : Bytes)
    (ho : cl.isOpen = true) (hn : cl.normal = true) (he : cl.ext = true) (hfl : flags < 4294967296)
    (hcaps : flags.testBit bCaps = false) (hreq : flags.testBit bRequest = false)
    (hpeek : flags.testBit bPeek = true) :
    handleExt Z env cfg (sendUtf8One cl t fb).1 (be32 flags ++ junk) =
      ⟨(sendUtf8One cl t fb).1, [], if cl.userCap.testBit bNotify = true then [.notify] else []⟩ := by
  have hst := (request_then_provide Z env cfg cl t fb (2 ^ 25) [] ho hn he (by decide) (by decide) (by decide)).1
  have hlen : ¬ (be32 flags ++ junk).length < extMinLen := by simp [be32_length, extMinLen]
  have hrd : rd32 (be32 flags ++ junk) = flags := rd32_be32 flags hfl junk
  rw [hst]
  unfold handleExt
  simp only [hlen, if_false, hrd, hcaps, hreq, hpeek, if_true, Bool.false_eq_true]
  cases cl.userCap.testBit bNotify <;> simp

/-- before anything was published there is nothing to provide: a Request is silently ignored -/
theorem request_without_publish (Z : Zlib) (env : Env) (cfg : Cfg) (cl : Cl) (flags : Nat)
    (junk : Bytes) (hd : cl.data = none) (hfl : flags < 4294967296)
    (hcaps : flags.testBit bCaps = false) (hreq : flags.testBit bRequest = true) :
    handleExt Z env cfg cl (be32 flags ++ junk) = ⟨cl, [], []⟩ := by
  have hlen : ¬ (be32 flags ++ junk).length < extMinLen := by simp [be32_length, extMinLen]
  have hrd : rd32 (be32 flags ++ junk) = flags := rd32_be32 flags hfl junk
  unfold handleExt
  simp only [hlen, if_false, hrd, hcaps, hreq, if_true, hd, Bool.false_eq_true]

/-- non-vacuity: notify-only publish (text longer than the client's limit), then request -/
example : (sendUtf8One { ext := true, maxUnsol := 1 } [65, 66] none).2 = [.notify] ∧
    (handleExt ⟨fun _ => ⟨[], .err⟩, id, id⟩ ⟨0⟩ ⟨true⟩
      (sendUtf8One { ext := true, maxUnsol := 1 } [65, 66] none).1 (be32 (2 ^ 25 + 1))).out =
      [.provide (record [65, 66, 0])] := by decide

/-! ## 6. LibVNCClient decodes what the server encodes (and vice versa) -/

/-- **server provide → client callback** (composition under the zlib law): the wire bytes of a
provide whose record is `d` (for a publish of `t`: `d = t ++ [0]`), followed by any further server
output `rest`, make `GotXCutTextUTF8` receive exactly `d`; the client keeps the connection. -/
theorem client_roundtrip_provide (Z : Zlib) (hZ : ZLaw Z) (env : Env) (c : LC) (d rest : Bytes)
    (hu : c.hasU8 = true) (hd1 : d ≠ []) (hd2 : d.length ≤ cliRecLimit)
    (hm : 4 + (Z.compress (record d)).length ≤ cliMsgLimit) :
    cliFeed Z env c (SMsg.wire Z (.provide (record d)) ++ rest) =
      ⟨(cliFeed Z env c rest).c, CCb.utf8 d :: (cliFeed Z env c rest).cbs,
       (cliFeed Z env c rest).dropped, (cliFeed Z env c rest).unmodelled⟩ := by
  have hlim : cliMsgLimit = 1048576 := rfl
  have hlim2 : cliRecLimit = 1048576 := rfl
  have hzl : 0 < 4 + (Z.compress (record d)).length := by omega
  have hge := neg32_ge (4 + (Z.compress (record d)).length) hzl (by omega)
  have hnn := neg32_neg32 (4 + (Z.compress (record d)).length) (by omega)
  have hbl : (be32 srvProvideFlags ++ Z.compress (record d)).length = 4 + (Z.compress (record d)).length := by
    simp [be32_length]
  -- the extended handler on this body
  have hext : cliExt Z env c (be32 srvProvideFlags ++ Z.compress (record d)) = some (c, [CCb.utf8 d]) := by
    have hrd : rd32 (be32 srvProvideFlags ++ Z.compress (record d)) = srvProvideFlags :=
      rd32_be32 _ (by decide) _
    have hdrop : (be32 srvProvideFlags ++ Z.compress (record d)).drop 4 = Z.compress (record d) :=
      List.drop_left' (be32_length _)
    have hinit : ZState.init Z (Z.compress (record d)) = ⟨be32 d.length ++ d ++ [], .done, true, false⟩ := by
      have hne := hZ.compress_ne (record d)
      have he : (Z.compress (record d)).isEmpty = false := by
        cases h : Z.compress (record d) <;> simp_all
      have hr : record d = be32 d.length ++ d ++ [] := by simp [record]
      simp only [ZState.init, hZ.inflate_compress, he]
      rw [hr]
    have hrec := readRecord_ok env cliRecLimit d [] .done true hd1 hd2 (by omega) (by intro _ h; cases h)
    have h1 : srvProvideFlags.testBit bText = true := by decide
    have h2 : srvProvideFlags.testBit bProvide = true := by decide
    have h3 : srvProvideFlags.testBit bCaps = false := by decide
    unfold cliExt
    simp only [hbl, hrd, h1, h2, h3, hdrop, hinit, hrec]
    simp
  have hstep : cliStepMsg Z env c ((3 : UInt8) :: (([0, 0, 0] ++
      be32 (neg32 (4 + (Z.compress (record d)).length)) ++
      (be32 srvProvideFlags ++ Z.compress (record d))) ++ rest)) =
      CStep.next c [CCb.utf8 d] (8 + (4 + (Z.compress (record d)).length)) := by
    have hform : (3 : UInt8) :: (([0, 0, 0] ++ be32 (neg32 (4 + (Z.compress (record d)).length)) ++
        (be32 srvProvideFlags ++ Z.compress (record d))) ++ rest) =
        (3 : UInt8) :: 0 :: 0 :: 0 :: (be32 (neg32 (4 + (Z.compress (record d)).length)) ++
          ((be32 srvProvideFlags ++ Z.compress (record d)) ++ rest)) := by simp
    rw [hform]
    simp only [cliStepMsg]
    rw [if_pos (by decide), cliStepCut_hdr Z env c 3 0 0 0 _ (neg32_lt _) _]
    simp only [hge, decide_true, if_true, hnn, Nat.not_lt.mpr hm, if_false, Bool.true_and, hu]
    rw [← hbl, List.take_left' rfl]
    simp [cliExtStep, hext, hbl]
  have hk : 8 + (4 + (Z.compress (record d)).length) =
      ([0, 0, 0] ++ be32 (neg32 (4 + (Z.compress (record d)).length)) ++
        (be32 srvProvideFlags ++ Z.compress (record d)) : Bytes).length + 1 := by
    simp [be32_length]; omega
  rw [hk] at hstep
  have hw : SMsg.wire Z (.provide (record d)) ++ rest = (3 : UInt8) :: (([0, 0, 0] ++
      be32 (neg32 (4 + (Z.compress (record d)).length)) ++
      (be32 srvProvideFlags ++ Z.compress (record d))) ++ rest) := by
    simp [SMsg.wire, msgServerCutText]
  rw [hw, cliFeed_msg_append Z env c c _ _ rest _ hstep]
  simp

/-- **classic ServerCutText → `GotXCutText`**: exactly the `|t| ≤ 1 MiB` bytes the server put in. -/
theorem client_roundtrip_classic (Z : Zlib) (env : Env) (c : LC) (t rest : Bytes)
    (hl1 : c.hasL1 = true) (hl : t.length ≤ cliMsgLimit) :
    cliFeed Z env c (SMsg.wire Z (.classic t) ++ rest) =
      ⟨(cliFeed Z env c rest).c, CCb.latin1 t :: (cliFeed Z env c rest).cbs,
       (cliFeed Z env c rest).dropped, (cliFeed Z env c rest).unmodelled⟩ := by
  have hlim : cliMsgLimit = 1048576 := rfl
  have hstep : cliStepMsg Z env c ((3 : UInt8) :: (([0, 0, 0] ++ be32 t.length ++ t) ++ rest)) =
      CStep.next c [CCb.latin1 t] (8 + t.length) := by
    have hform : (3 : UInt8) :: (([0, 0, 0] ++ be32 t.length ++ t) ++ rest) =
        (3 : UInt8) :: 0 :: 0 :: 0 :: (be32 t.length ++ (t ++ rest)) := by simp
    rw [hform]
    simp only [cliStepMsg]
    rw [if_pos (by decide), cliStepCut_hdr Z env c 3 0 0 0 _ (by omega) _]
    have hge : ¬ t.length ≥ 2147483648 := by omega
    simp [hge, List.take_left' rfl, Nat.not_lt.mpr hl, hl1]
  have hk : 8 + t.length = ([0, 0, 0] ++ be32 t.length ++ t : Bytes).length + 1 := by
    simp [be32_length]; omega
  rw [hk] at hstep
  have hw : SMsg.wire Z (.classic t) ++ rest = (3 : UInt8) :: (([0, 0, 0] ++ be32 t.length ++ t) ++ rest) := by
    simp [SMsg.wire, msgServerCutText]
  rw [hw, cliFeed_msg_append Z env c c _ _ rest _ hstep]
  simp

/-- **the server's capability message enables `SendClientCutTextUTF8`**: after it the client's
capability word is non-zero (text), no callback is made, the connection is kept. -/
theorem client_roundtrip_caps (Z : Zlib) (env : Env) (c : LC) (rest : Bytes) (hu : c.hasU8 = true) :
    cliFeed Z env c (SMsg.wire Z .caps ++ rest) =
      ⟨(cliFeed Z env { c with caps := c.caps ||| 1 } rest).c,
       (cliFeed Z env { c with caps := c.caps ||| 1 } rest).cbs,
       (cliFeed Z env { c with caps := c.caps ||| 1 } rest).dropped,
       (cliFeed Z env { c with caps := c.caps ||| 1 } rest).unmodelled⟩ ∧
    (c.caps ||| 1) ≠ 0 := by
  constructor
  · have hw : SMsg.wire Z .caps ++ rest =
        (3 : UInt8) :: (([0, 0, 0] ++ be32 (neg32 8) ++ [23, 0, 0, 1, 0, 16, 0, 0]) ++ rest) := by
      simp [SMsg.wire, natsToBytes, srvCapsMsg, be32, neg32]
    have hstep : cliStepMsg Z env c ((3 : UInt8) :: (([0, 0, 0] ++ be32 (neg32 8) ++
        [23, 0, 0, 1, 0, 16, 0, 0]) ++ rest)) =
        CStep.next { c with caps := c.caps ||| 1 } [] (8 + 8) := by
      have hform : (3 : UInt8) :: (([0, 0, 0] ++ be32 (neg32 8) ++ [23, 0, 0, 1, 0, 16, 0, 0]) ++ rest) =
          (3 : UInt8) :: 0 :: 0 :: 0 :: (be32 (neg32 8) ++ ([23, 0, 0, 1, 0, 16, 0, 0] ++ rest)) := by simp
      rw [hform]
      simp only [cliStepMsg]
      rw [if_pos (by decide), cliStepCut_hdr Z env c 3 0 0 0 _ (neg32_lt _) _]
      have hge : neg32 8 ≥ 2147483648 := by decide
      have hnn : neg32 (neg32 8) = 8 := by decide
      have h8 : ¬ 8 > cliMsgLimit := by decide
      have htk : (([23, 0, 0, 1, 0, 16, 0, 0] : Bytes) ++ rest).take 8 = [23, 0, 0, 1, 0, 16, 0, 0] :=
        List.take_left' rfl
      simp only [hge, decide_true, if_true, hnn, h8, if_false, htk, Bool.true_and, hu]
      have hext : cliExt Z env c [23, 0, 0, 1, 0, 16, 0, 0] = some ({ c with caps := c.caps ||| 1 }, []) := by
        have hrd : rd32 ([23, 0, 0, 1, 0, 16, 0, 0] : Bytes) = 385875969 := by decide
        have h1 : (385875969 : Nat).testBit bText = true := by decide
        have h2 : (385875969 : Nat).testBit bProvide = true := by decide
        have h3 : (385875969 : Nat).testBit bCaps = true := by decide
        unfold cliExt
        simp [hrd, h2, h3, bText]
      simp [cliExtStep, hext, hu]
    have hk : 8 + 8 = ([0, 0, 0] ++ be32 (neg32 8) ++ [23, 0, 0, 1, 0, 16, 0, 0] : Bytes).length + 1 := by
      simp [be32_length]
    rw [hk] at hstep
    rw [hw, cliFeed_msg_append Z env c _ _ _ rest _ hstep]
    simp
  · intro h
    have : (c.caps ||| 1).testBit 0 = true := by simp
    rw [h] at this
    simp at this

/-- **over-limit text is refused by the client alone**: a classic ServerCutText announcing more
than `cliMsgLimit` bytes makes the client give up its own connection (the server model is not
involved: other connections are untouched by construction). -/
theorem client_refuses_oversize (Z : Zlib) (env : Env) (c : LC) (p1 p2 p3 : UInt8) (n : Nat)
    (tail : Bytes) (hn : n < 2147483648) (hbig : n > cliMsgLimit) :
    cliFeed Z env c ((3 : UInt8) :: p1 :: p2 :: p3 :: (be32 n ++ tail)) = ⟨c, [], true, false⟩ := by
  apply cliFeed_drop
  simp only [cliStepMsg]
  rw [if_pos (by decide), cliStepCut_hdr Z env c 3 p1 p2 p3 n (by omega) tail]
  have hge : ¬ n ≥ 2147483648 := by omega
  simp [hge, hbig]

/- Full-strength statement (false of the code for incompressible texts near 1 MiB, as in section 1):
     every open extended client whose capabilities allow it receives `t ++ [0]` for every
     `t.length + 1 ≤ 2^20`.  Proved: for every text whose compressed provide message fits the
     client's message limit (`4 + |compress (record (t ++ [0]))| ≤ cliMsgLimit`); longer messages
     make the client give up its connection (`client_refuses_oversize`, same step for the
     sign-encoded length). -/

/-- **round trip for a whole population**: publish `t` (fallback `f`) on any screen; a LibVNCClient
sitting on the connection of an open extended client whose capabilities allow the unsolicited
provide gets `GotXCutTextUTF8 (t ++ [0])`; one on an open classic connection gets `GotXCutText f`.
Partial: the compressed-size hypothesis of the extended half. -/
theorem client_roundtrip_partial (Z : Zlib) (hZ : ZLaw Z) (env : Env) (cl : Cl) (c : LC) (t f : Bytes)
    (ho : cl.isOpen = true) (hn : cl.normal = true) :
    (cl.ext = true → cl.userCap.testBit bProvide = true → t.length ≤ cl.maxUnsol → c.hasU8 = true →
      t.length + 1 ≤ cliRecLimit → 4 + (Z.compress (record (t ++ [0]))).length ≤ cliMsgLimit →
      cliFeed Z env c ((expectUtf8 cl t (some f)).flatMap (SMsg.wire Z)) =
        ⟨c, [CCb.utf8 (t ++ [0])], false, false⟩) ∧
    (cl.ext = false → c.hasL1 = true → f.length ≤ cliMsgLimit →
      cliFeed Z env c ((expectUtf8 cl t (some f)).flatMap (SMsg.wire Z)) =
        ⟨c, [CCb.latin1 f], false, false⟩) := by
  constructor
  · intro he hp hle hu hs hm
    have : expectUtf8 cl t (some f) = [.provide (record (t ++ [0]))] := by
      simp [expectUtf8, ho, hn, he, hp, hle]
    rw [this]
    have h := client_roundtrip_provide Z hZ env c (t ++ [0]) [] hu (by simp) (by simpa using hs) hm
    simpa [cliFeed_nil] using h
  · intro he hl1 hl
    have : expectUtf8 cl t (some f) = [.classic f] := by
      simp [expectUtf8, ho, hn, he]
    rw [this]
    have h := client_roundtrip_classic Z env c f [] hl1 hl
    simpa [cliFeed_nil] using h


/-! ## 7. the exact set of texts that make the extended round trip (round 2) -/

/-- **the texts the server accepts from `SendClientCutTextUTF8`** — a decidable predicate on
(zlib, text): the record (text plus NUL) is within the record limit AND the sync-flushed compressed
message is within the message limit.  For a text of exactly 1 MiB the first conjunct fails: the
1 MiB bound of both receive paths counts the terminating NUL, so the largest extended text is
`2^20 − 1` bytes (the classic message carries `2^20`). -/
def fitsServer (Z : Zlib) (t : Bytes) : Bool :=
  decide (t.length + 1 ≤ srvRecLimit) &&
  decide (4 + (Z.compressSync (record (t ++ [0]))).length ≤ srvMsgLimit)

/-- the texts LibVNCClient accepts from `rfbSendServerCutTextUTF8` -/
def fitsClient (Z : Zlib) (t : Bytes) : Bool :=
  decide (t.length + 1 ≤ cliRecLimit) &&
  decide (4 + (Z.compress (record (t ++ [0]))).length ≤ cliMsgLimit)

/-- the record limit seen from the sender: compressed message fits, record does not → closed -/
theorem client_to_app_record_oversize (Z : Zlib) (hZ : ZLaw Z) (env : Env) (cfg : Cfg) (cl : Cl) (c : LC)
    (t rest : Bytes) (ho : cl.isOpen = true) (he : cl.ext = true) (hc : c.caps ≠ 0)
    (hint : t.length < 2147483647) (hbig : t.length + 1 > srvRecLimit)
    (hm : 4 + (Z.compressSync (record (t ++ [0]))).length ≤ srvMsgLimit) :
    ∃ w, cliSendUtf8 Z c t = some w ∧ feed Z env cfg cl (w ++ rest) = ⟨closeCl cl, [], [], false⟩ := by
  refine ⟨cliNotifyMsg ++ cliProvideMsg (Z.compressSync (record (t ++ [0]))), by simp [cliSendUtf8, hc], ?_⟩
  rw [List.append_assoc, client_notify_ignored Z env cfg cl _ ho he]
  have hpf : cliProvideMsg (Z.compressSync (record (t ++ [0]))) ++ rest =
      (6 : UInt8) :: 0 :: 0 :: 0 :: (be32 (neg32 (be32 cliProvideFlags ++ Z.compressSync (record (t ++ [0]))).length) ++
        ((be32 cliProvideFlags ++ Z.compressSync (record (t ++ [0]))) ++ rest)) := by
    simp [cliProvideMsg, msgClientCutText, be32_length]
  have hbl : (be32 cliProvideFlags ++ Z.compressSync (record (t ++ [0]))).length =
      4 + (Z.compressSync (record (t ++ [0]))).length := by simp [be32_length]
  have hh : handleExt Z env cfg cl (be32 cliProvideFlags ++ Z.compressSync (record (t ++ [0]))) =
      ⟨closeCl cl, [], []⟩ :=
    oversize_closes_record Z env cfg cl cliProvideFlags (t.length + 1) _ (t ++ [0]) .more (by decide)
      (by decide) (by decide) (by decide) (by decide) (by decide)
      (by rw [hZ.inflate_sync (record (t ++ [0]))]
          simp [record]) (by omega) hbig
  have hstep := stepMsg_ext Z env cfg cl (be32 cliProvideFlags ++ Z.compressSync (record (t ++ [0]))) rest he
    (by omega) (by omega)
  rw [hh] at hstep
  simp only [closeCl, Bool.false_eq_true, if_false] at hstep
  rw [hpf]
  exact feed_closedStep Z env cfg cl _ _ _ _ _ ho hstep

/-- **client → application, the full characterisation**: for every zlib satisfying the law and
every text (length below `INT_MAX`, compressed message representable as a sign-encoded length),
what `SendClientCutTextUTF8(t)` writes is
* delivered — `setXCutTextUTF8` gets exactly `t ++ [0]`, nothing else happens — if `fitsServer Z t`,
* answered by closing the sender with no callback at all otherwise;
in particular (fully connected extended client, callback installed, not view-only) the text arrives
intact **iff** `fitsServer Z t`. -/
theorem client_to_app_exact_iff (Z : Zlib) (hZ : ZLaw Z) (env : Env) (cfg : Cfg) (cl : Cl) (c : LC)
    (t : Bytes) (ho : cl.isOpen = true) (he : cl.ext = true) (hc : c.caps ≠ 0)
    (hint : t.length < 2147483647)
    (h31 : 4 + (Z.compressSync (record (t ++ [0]))).length ≤ 2147483648) :
    ∃ w, cliSendUtf8 Z c t = some w ∧
      feed Z env cfg cl w =
        (if fitsServer Z t = true then
          ⟨cl, if !cl.viewOnly && cfg.cb8 then [Cb.utf8 (t ++ [0])] else [], [], false⟩
         else ⟨closeCl cl, [], [], false⟩) ∧
      (cl.viewOnly = false → cfg.cb8 = true →
        (((feed Z env cfg cl w).cbs = [Cb.utf8 (t ++ [0])] ∧ (feed Z env cfg cl w).cl = cl) ↔
          fitsServer Z t = true)) := by
  have key : ∃ w, cliSendUtf8 Z c t = some w ∧
      feed Z env cfg cl w =
        (if fitsServer Z t = true then
          ⟨cl, if !cl.viewOnly && cfg.cb8 then [Cb.utf8 (t ++ [0])] else [], [], false⟩
         else ⟨closeCl cl, [], [], false⟩) := by
    by_cases hrec : t.length + 1 ≤ srvRecLimit
    · by_cases hm : 4 + (Z.compressSync (record (t ++ [0]))).length ≤ srvMsgLimit
      · obtain ⟨w, h1, h2⟩ := client_to_app_exact_partial Z hZ env cfg cl c t [] ho he hc hrec hm
        refine ⟨w, h1, ?_⟩
        rw [List.append_nil] at h2
        simp [fitsServer, hrec, hm, h2, feed_nil]
      · obtain ⟨w, h1, h2⟩ := client_to_app_compressed_oversize Z env cfg cl c t [] ho he hc (by omega) h31
        refine ⟨w, h1, ?_⟩
        rw [List.append_nil] at h2
        simp [fitsServer, hm, h2]
    · by_cases hm : 4 + (Z.compressSync (record (t ++ [0]))).length ≤ srvMsgLimit
      · obtain ⟨w, h1, h2⟩ := client_to_app_record_oversize Z hZ env cfg cl c t [] ho he hc hint (by omega) hm
        refine ⟨w, h1, ?_⟩
        rw [List.append_nil] at h2
        simp [fitsServer, hrec, h2]
      · obtain ⟨w, h1, h2⟩ := client_to_app_compressed_oversize Z env cfg cl c t [] ho he hc (by omega) h31
        refine ⟨w, h1, ?_⟩
        rw [List.append_nil] at h2
        simp [fitsServer, hrec, h2]
  obtain ⟨w, h1, h2⟩ := key
  refine ⟨w, h1, h2, ?_⟩
  intro hv hcb
  rw [h2]
  by_cases hf : fitsServer Z t = true
  · simp [hf, hv, hcb]
  · simp only [hf, Bool.false_eq_true, if_false]
    constructor
    · intro ⟨_, hcl⟩
      have := congrArg Cl.isOpen hcl
      simp [closeCl, ho] at this
    · intro h; cases h

/-- **server → LibVNCClient, the full characterisation**: the provide message of a publish of `t`
is delivered to `GotXCutTextUTF8` as exactly `t ++ [0]` if `fitsClient Z t`, and makes the client
give up its connection without any callback otherwise — so it arrives intact **iff** `fitsClient Z t`. -/
theorem client_roundtrip_iff (Z : Zlib) (hZ : ZLaw Z) (env : Env) (c : LC) (t : Bytes)
    (hu : c.hasU8 = true) (hint : t.length < 2147483647)
    (h31 : 4 + (Z.compress (record (t ++ [0]))).length ≤ 2147483648) :
    cliFeed Z env c (SMsg.wire Z (.provide (record (t ++ [0])))) =
      (if fitsClient Z t = true then ⟨c, [CCb.utf8 (t ++ [0])], false, false⟩ else ⟨c, [], true, false⟩) ∧
    (((cliFeed Z env c (SMsg.wire Z (.provide (record (t ++ [0]))))).cbs = [CCb.utf8 (t ++ [0])] ∧
      (cliFeed Z env c (SMsg.wire Z (.provide (record (t ++ [0]))))).dropped = false) ↔
        fitsClient Z t = true) := by
  have hw : SMsg.wire Z (.provide (record (t ++ [0]))) = (3 : UInt8) :: 0 :: 0 :: 0 ::
      (be32 (neg32 (4 + (Z.compress (record (t ++ [0]))).length)) ++
        (be32 srvProvideFlags ++ Z.compress (record (t ++ [0])))) := by
    simp [SMsg.wire, msgServerCutText]
  have key : cliFeed Z env c (SMsg.wire Z (.provide (record (t ++ [0])))) =
      (if fitsClient Z t = true then ⟨c, [CCb.utf8 (t ++ [0])], false, false⟩ else ⟨c, [], true, false⟩) := by
    by_cases hm : 4 + (Z.compress (record (t ++ [0]))).length ≤ cliMsgLimit
    · by_cases hrec : t.length + 1 ≤ cliRecLimit
      · have h := client_roundtrip_provide Z hZ env c (t ++ [0]) [] hu (by simp) (by simpa using hrec) hm
        rw [List.append_nil] at h
        simp [fitsClient, hrec, hm, h, cliFeed_nil]
      · -- message accepted, record over the limit
        have hlim : cliMsgLimit = 1048576 := rfl
        have hge := neg32_ge (4 + (Z.compress (record (t ++ [0]))).length) (by omega) (by omega)
        have hnn := neg32_neg32 (4 + (Z.compress (record (t ++ [0]))).length) (by omega)
        have hbl : (be32 srvProvideFlags ++ Z.compress (record (t ++ [0]))).length =
            4 + (Z.compress (record (t ++ [0]))).length := by simp [be32_length]
        have hext : cliExt Z env c (be32 srvProvideFlags ++ Z.compress (record (t ++ [0]))) = none := by
          have hrd : rd32 (be32 srvProvideFlags ++ Z.compress (record (t ++ [0]))) = srvProvideFlags :=
            rd32_be32 _ (by decide) _
          have hdrop : (be32 srvProvideFlags ++ Z.compress (record (t ++ [0]))).drop 4 =
              Z.compress (record (t ++ [0])) := List.drop_left' (be32_length _)
          have hrecd := readRecord_oversize env cliRecLimit (t.length + 1)
            (ZState.init Z (Z.compress (record (t ++ [0])))) (t ++ [0])
            (by simp [ZState.init, hZ.inflate_compress, record]) (by omega) (by omega)
          have h1 : srvProvideFlags.testBit bText = true := by decide
          have h2 : srvProvideFlags.testBit bProvide = true := by decide
          have h3 : srvProvideFlags.testBit bCaps = false := by decide
          unfold cliExt
          simp only [hbl, hrd, h1, h2, h3, hdrop, hrecd]
          simp
        rw [hw]
        have hstep : cliStepMsg Z env c ((3 : UInt8) :: 0 :: 0 :: 0 ::
            (be32 (neg32 (4 + (Z.compress (record (t ++ [0]))).length)) ++
              (be32 srvProvideFlags ++ Z.compress (record (t ++ [0]))))) = .drop := by
          have hform : (be32 srvProvideFlags ++ Z.compress (record (t ++ [0]))) =
              (be32 srvProvideFlags ++ Z.compress (record (t ++ [0]))) ++ [] := by simp
          simp only [cliStepMsg]
          rw [if_pos (by decide), cliStepCut_hdr Z env c 3 0 0 0 _ (neg32_lt _) _]
          simp only [hge, decide_true, if_true, hnn, Nat.not_lt.mpr hm, if_false, Bool.true_and, hu]
          rw [← hbl, List.take_length]
          simp [cliExtStep, hext]
        rw [cliFeed_drop Z env c _ _ hstep]
        simp [fitsClient, hrec]
    · rw [hw, cliFeed_drop Z env c _ _
        (cliStepMsg_ext_oversize Z env c 0 0 0 _ _ (by omega) h31)]
      simp [fitsClient, hm]
  refine ⟨key, ?_⟩
  rw [key]
  by_cases hf : fitsClient Z t = true <;> simp [hf]

/-- **a text of exactly 1 MiB does not make the extended trip** (distinct from the compressed-size
bound: an off-by-one of the record limit, which counts the NUL): `fitsServer` and `fitsClient` are
false for every zlib, while the classic message of the same text is delivered
(`client_to_app_exact_classic` with `|t| = srvMsgLimit`).  The largest extended text is `2^20 − 1`. -/
theorem extended_limit_counts_the_nul (Z : Zlib) (t : Bytes) (h : t.length = srvRecLimit) :
    fitsServer Z t = false ∧ fitsClient Z t = false ∧ t.length ≤ srvMsgLimit := by
  have h1 : srvRecLimit = 1048576 := rfl
  have h2 : cliRecLimit = 1048576 := rfl
  have h3 : srvMsgLimit = 1048576 := rfl
  simp [fitsServer, fitsClient]
  omega

/-- **zero-size record**: a provide whose text record announces 0 bytes (an empty text without the
mandatory NUL) is refused whatever the stream style — `compress()`-style (the first `inflate`
already returns `Z_STREAM_END`, which the size read does not accept) or sync-flushed (the second
call has no output space) — connection closed, no callback.  The protocol requires the NUL, so
the smallest legal record has size 1 (`client_to_app_exact_provide` with `d = [0]`). -/
theorem zero_size_record_closes (Z : Zlib) (env : Env) (cfg : Cfg) (cl : Cl) (flags : Nat)
    (z more : Bytes) (fin : Fin) (hfl : flags < 4294967296)
    (hcaps : flags.testBit bCaps = false) (hreq : flags.testBit bRequest = false)
    (hpeek : flags.testBit bPeek = false) (hprov : flags.testBit bProvide = true)
    (htext : flags.testBit 0 = true) (hz : Z.inflateAll z = ⟨be32 0 ++ more, fin⟩) :
    handleExt Z env cfg cl (be32 flags ++ z) = ⟨closeCl cl, [], []⟩ := by
  have hlen : ¬ (be32 flags ++ z).length < extMinLen := by simp [be32_length, extMinLen]
  have hrd : rd32 (be32 flags ++ z) = flags := rd32_be32 flags hfl z
  have hdrop : (be32 flags ++ z).drop 4 = z := List.drop_left' (be32_length _)
  have hrec := readRecord_zero env srvRecLimit (ZState.init Z z) more (by simp [ZState.init, hz])
  unfold handleExt
  simp only [hlen, if_false, hrd, hcaps, hreq, hpeek, hprov, if_true, hdrop, range16, Bool.false_eq_true]
  rw [provLoop]
  simp [htext, hrec]

/-- **a sender that vanishes**: input from a client that closed its end right after writing is
processed (callbacks are made for the texts it sent), nothing is written to it, and it ends up
closed — at the first reply that cannot be written (capability message, requested provide, notify)
or at the end of its data. -/
theorem vanished_sender_is_closed (Z : Zlib) (env : Env) (cfg : Cfg) (cl : Cl) (input : Bytes)
    (ho : cl.isOpen = true) :
    (feedGone Z env cfg cl input).out = [] ∧
    ((feedGone Z env cfg cl input).unmodelled = false → (feedGone Z env cfg cl input).cl.isOpen = false) := by
  fun_induction feedGone Z env cfg cl input with
  | case1 cl => simp [closeCl]
  | case2 cl t rest hc => simp [ho] at hc
  | case3 cl t rest hc cl' cbs out k hs hout => simp [closeCl]
  | case4 cl t rest hc cl' cbs out k hs hout r ih =>
    have hopen : cl'.isOpen = true := by
      -- a `next` step leaves the client open
      have := stepMsg_next_open Z env cfg cl (t :: rest) cl' cbs out k ho hs
      exact this
    exact ⟨rfl, (ih hopen).2⟩
  | case5 cl t rest hc cl' cbs out hs =>
    have := stepMsg_closed_closed Z env cfg cl (t :: rest) cl' cbs out ho hs
    simp [this]
  | case6 cl t rest hc hs => simp

/-- **a viewer that was view-only and is granted input later still delivers its clipboard**: the
server's SupportedMessages list contains ClientCutText unconditionally (T0 `srvListsCutText`, and
the harness reads the list back from LibVNCClient: `sup…:11:same`), so `SendClientCutText` writes
the message, and once `viewOnly` is cleared the handler delivers exactly `t`. -/
theorem granted_viewer_delivers (Z : Zlib) (env : Env) (cfg : Cfg) (cl : Cl) (c : LC) (t : Bytes)
    (hs : srvListsCutText = true → c.supportsCut = true)
    (ho : cl.isOpen = true) (hl : t.length ≤ srvMsgLimit) :
    ∃ w, cliSendClassicIf c t = some w ∧
      (feed Z env cfg { cl with viewOnly := false } w).cbs = [Cb.latin1 t] ∧
      (feed Z env cfg { cl with viewOnly := true } w).cbs = [] := by
  have hc : c.supportsCut = true := hs rfl
  refine ⟨cliSendClassic t, by simp [cliSendClassicIf, hc], ?_, ?_⟩
  · have h := client_to_app_exact_classic Z env cfg { cl with viewOnly := false } t [] ho hl
    rw [List.append_nil] at h
    rw [h, feed_nil]; simp
  · have h := client_to_app_exact_classic Z env cfg { cl with viewOnly := true } t [] ho hl
    rw [List.append_nil] at h
    rw [h, feed_nil]; simp

/-! ## non-vacuity: the theorems instantiated with the tagged-identity zlib -/

/-- the "compression" the driver uses for streams the two libraries exchange: a tag byte, then the
data; it satisfies `ZLaw` -/
def zId : Zlib :=
  ⟨fun z => match z with | 1 :: x => ⟨x, .done⟩ | 2 :: x => ⟨x, .more⟩ | _ => ⟨[], .err⟩,
   fun x => 1 :: x, fun x => 2 :: x⟩

theorem zId_law : ZLaw zId := ⟨fun _ => rfl, fun _ => rfl, fun _ => by simp [zId], fun _ => by simp [zId]⟩

/-- client → application, extended: "hi" with the library client as sender arrives as "hi\0" -/
example : ∃ w, cliSendUtf8 zId ⟨true, true, 1, true⟩ [104, 105] = some w ∧
    (feed zId ⟨0⟩ ⟨true⟩ { ext := true } w).cbs = [Cb.utf8 [104, 105, 0]] := by
  obtain ⟨w, h1, h2⟩ := client_to_app_exact_partial zId zId_law ⟨0⟩ ⟨true⟩ { ext := true }
    ⟨true, true, 1, true⟩ [104, 105] [] rfl rfl (by decide) (by decide) (by decide)
  refine ⟨w, h1, ?_⟩
  rw [List.append_nil] at h2
  rw [h2, feed_nil]; rfl

/-- a flag word with unknown bits (16..23, 27, 29) still counts as provide(text) -/
example : ((2 ^ 28 + 2 ^ 29 + 2 ^ 27 + 2 ^ 20 + 1 : Nat).testBit bCaps = false) ∧
    ((2 ^ 28 + 2 ^ 29 + 2 ^ 27 + 2 ^ 20 + 1 : Nat).testBit bProvide = true) ∧
    (∀ i, 1 ≤ i → i < 16 → (2 ^ 28 + 2 ^ 29 + 2 ^ 27 + 2 ^ 20 + 1 : Nat).testBit i = false) :=
  ⟨by decide, by decide, bits_of_range _ (by decide)⟩

/-- enabling: three encodings, the pseudo-encoding twice -/
example : stepMsg zId ⟨0⟩ ⟨true⟩ {} ((2 : UInt8) :: 0 ::
      UInt8.ofNat ([encExtendedClipboard, 0, encExtendedClipboard].length / 256) ::
      UInt8.ofNat ([encExtendedClipboard, 0, encExtendedClipboard].length % 256) ::
      ([encExtendedClipboard, 0, encExtendedClipboard].flatMap be32 ++ [])) =
    Step.next { ext := true } [] [.caps, .caps] 16 := by
  rw [caps_negotiation_enable zId ⟨0⟩ ⟨true⟩ {} 0 [encExtendedClipboard, 0, encExtendedClipboard] []
    (by decide) (by decide)]
  rfl

/-- record limit: the hypotheses of `oversize_closes_record` are met by size `limit + 1` -/
example : zId.inflateAll (1 :: (be32 (srvRecLimit + 1) ++ [1, 2, 3])) = ⟨be32 (srvRecLimit + 1) ++ [1, 2, 3], .done⟩ ∧
    srvRecLimit + 1 < 4294967296 ∧ srvRecLimit + 1 > srvRecLimit := ⟨rfl, by decide, by decide⟩

/-- short record: declared 100, present 3 -/
example : handleExt zId ⟨7⟩ ⟨true⟩ { ext := true } (be32 (2 ^ 28 + 1) ++ (1 :: (be32 100 ++ [1, 2, 3]))) =
    ⟨closeCl { ext := true }, [], []⟩ :=
  malformed_closes_short_record zId ⟨7⟩ ⟨true⟩ { ext := true } (2 ^ 28 + 1) 100 _ [1, 2, 3] .done
    (by decide) (by decide) (by decide) (by decide) (by decide) (by decide) rfl (by decide) (by decide)

/-- server → client: a provide of "ok\0" decodes to the same three bytes -/
example : (cliFeed zId ⟨0⟩ ⟨true, true, 0, true⟩ (SMsg.wire zId (.provide (record [111, 107, 0])))).cbs =
    [CCb.utf8 [111, 107, 0]] := by
  have h := client_roundtrip_provide zId zId_law ⟨0⟩ ⟨true, true, 0, true⟩ [111, 107, 0] [] rfl (by simp)
    (by decide) (by decide)
  rw [List.append_nil] at h
  rw [h, cliFeed_nil]


end VncModel.Props.C18
