import VncModel.Life.Model
/-! placeholder while the proofs are being written -/
namespace VncModel.Props.C12
open VncModel.Life
theorem placeholder : (run Variant.fixed World.init []).list = [] := rfl
end VncModel.Props.C12
