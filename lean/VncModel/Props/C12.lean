import VncModel.Life.Progress
/-!
# C12 — Every connection is torn down exactly once and releases all it acquired

Property theorems only.  Model: `VncModel/Life/Model.lean` (application-driven event loop:
`rfbNewTCPOrUDPClient` with every exit, `rfbCloseClient`, `rfbClientConnectionGone`, message
processing with I/O failures at any point, `rfbProcessEvents` (rfbCheckFds + reaping loop), the
non-shared policy block, application callbacks that close clients, on-hold start/refuse,
`rfbShutdownServer`, `rfbScreenCleanup`).  Helper lemmas: `Life/{Inv,Teardown,Steps,Scale,Loop,
Progress}.lean`.  Tie to the code: `harness/c12.c` ⇄ `Driver/C12.lean` (exact comparison of all
events and records after every operation, with a fault injected at every server I/O call in turn).

Quantifiers: every finite history `ops : List Op` — any number of connections, every hook decision,
every WebSocket/plain start, every early exit, every message, every I/O failure annotation
(`Fail.rd` / `Fail.wr` on any connection at any message: EOF, reset and timeout all reach the code
as "the read/write failed"), every set of acquired resources (`Res` is arbitrary), callbacks closing
any client, shutdown and cleanup at any point — and every `Variant` of the code (which of the eight
known defects are fixed).

What the theorems say
* `exactly_once`            (code with all fixes) every connection that is no longer reachable
                            through the client list has: socket closed exactly once, gone callback
                            run exactly once if the application ever saw it (never otherwise), record
                            freed, no compression state / buffer / wsctx / wspath / file-transfer
                            descriptor / extension node / screen reference left; nothing is lost.
* `at_most_once`            (ANY variant, so also the code as found) no double close, no double
                            gone callback, a gone client is closed, unlisted and holds nothing;
                            a listed client's record says "open" iff close() was never called.
* `each_fix_suffices`       (any variant) each kind of loss is impossible as soon as the one fix
                            that addresses it is present — the precise `_partial` statement for
                            partially fixed code.
* `refcounts_exact`         (any variant) every screen's reference count equals the number of
                            records referencing it; with the fixes: the number of listed clients.
* `refused_scale_changes_nothing`  an unsatisfiable SetScale leaves screen, reference and counts alone.
* `extension_data_released`  an enabled extension's per-client data is gone as soon as the socket is closed.
* `pointer_owner_listed`     `screen->pointerClient` is always a listed client.
* `reaping_complete`, `shutdown_leaves_nobody`, `cleanup_leaves_nobody`   progress.
* `isolation_*`             a step of connection `i` (teardown, message, failed message, accept)
                            leaves every other record untouched, except the two intended effects
                            (non-shared replacement, an application gone-hook that closes a client),
                            which close the other record exactly once and change nothing else.
* `defect_*`                counter-examples: for `Variant.current` (the code as found) `exactly_once`
                            is FALSE; six concrete histories, each replayed on the real code by the
                            check (corpus/C12/*.ops).

Partial (`_partial`): the full-strength statement for the code as found,
   theorem exactly_once_current (ops) : … same as `exactly_once` with `Variant.current` …
is false (see `defect_*`); what holds for it is `at_most_once` + `each_fix_suffices` +
`refcounts_exact`, stated below as `exactly_once_partial`.
Not covered by the model: the byte streams (the "stream of any other connection" half of the
isolation claim is tested by the witness comparison of the fault enumeration), threads (C13), TLS.
-/
namespace VncModel.Props.C12
open VncModel.Life

/-- the world after a history, starting with no connection -/
def after (v : Variant) (ops : List Op) : World := run v World.init ops

theorem inv_after (v : Variant) (ops : List Op) : Inv v (after v ops) := inv_run (inv_init v) ops

/-- **exactly once, everything released** (code with all fixes) -/
theorem exactly_once (ops : List Op) (i : Nat) (c : Conn)
    (hc : (after Variant.fixed ops).conns[i]? = some c) (hended : i ∉ (after Variant.fixed ops).list) :
    c.closeCalls = 1 ∧ c.goneCalls = (if c.hooked then 1 else 0) ∧ c.sockOpen = false ∧
    c.freed = true ∧ c.refHeld = false ∧ c.res = {} ∧ c.wsctx = false ∧ c.wspath = false ∧
    c.ftFd = false ∧ c.exts = 0 ∧ c.extData = false := by
  have hd := (inv_after Variant.fixed ops).dead i c hc hended
  rcases hd.2.2 with ht | hn
  · exact ⟨hd.1, ht.1, hd.2.1, ht.2.1, ht.2.2.1, ht.2.2.2.1, ht.2.2.2.2.1, ht.2.2.2.2.2.1,
      ht.2.2.2.2.2.2.1, ht.2.2.2.2.2.2.2.1, ht.2.2.2.2.2.2.2.2⟩
  · exact absurd hn.1 (by decide)

/-- … and nothing at all is lost for good (no record, wspath, extension node or descriptor) -/
theorem nothing_lost (ops : List Op) :
    let w := after Variant.fixed ops
    w.nbLost = 0 ∧ w.recLost = 0 ∧ w.shutLeft = 0 ∧ w.wsLostGone = 0 ∧ w.wsLostHs = 0 ∧
    w.stray = 0 ∧ w.extLost = 0 ∧ w.extDataLost = 0 ∧ w.extNodeLost = 0 := by
  obtain ⟨k1, k2, k3, k4, k5, k6, k7, k8⟩ := (inv_after Variant.fixed ops).counters
  exact ⟨k1 rfl, (k2 rfl).1, (k2 rfl).2, k3 rfl, k4 rfl, k5 rfl, k6 rfl, k7 rfl, k8 rfl⟩

/-- **at most once** — for every variant of the code, in particular the code as found -/
theorem at_most_once (v : Variant) (ops : List Op) (i : Nat) (c : Conn)
    (hc : (after v ops).conns[i]? = some c) :
    c.goneCalls ≤ 1 ∧ c.closeCalls ≤ 1 ∧
    (c.goneCalls = 1 → c.closeCalls = 1 ∧ i ∉ (after v ops).list ∧ c.sockOpen = false ∧
       c.res = {} ∧ c.refHeld = false ∧ c.wsctx = false ∧ c.wspath = false ∧ c.ftFd = false ∧ c.exts = 0 ∧
       c.extData = false) ∧
    (i ∈ (after v ops).list → c.goneCalls = 0 ∧ (c.sockOpen = true ↔ c.closeCalls = 0)) ∧
    (i ∉ (after v ops).list → c.sockOpen = false ∧ c.closeCalls = 1) := by
  have hinv := inv_after v ops
  by_cases hi : i ∈ (after v ops).list
  · have hl := hinv.live i c hc hi
    have hcl : c.closeCalls ≤ 1 ∧ (c.sockOpen = true ↔ c.closeCalls = 0) := by
      cases hs : c.sockOpen
      · have := (hl.2.2.2.2 hs).1; simp [this]
      · have := hl.2.2.2.1 hs; simp [this]
    refine ⟨by rw [hl.1]; omega, hcl.1, ?_, ?_, ?_⟩
    · intro hg; rw [hl.1] at hg; cases hg
    · intro _; exact ⟨hl.1, hcl.2⟩
    · intro hn; exact absurd hi hn
  · have hd := hinv.dead i c hc hi
    have hg : c.goneCalls ≤ 1 := by
      rcases hd.2.2 with ht | hn
      · rw [ht.1]; split <;> omega
      · rw [hn.2.2.2.1]; omega
    refine ⟨hg, by rw [hd.1]; omega, ?_, ?_, ?_⟩
    · intro hone
      rcases hd.2.2 with ht | hn
      · exact ⟨hd.1, hi, hd.2.1, ht.2.2.2.1, ht.2.2.1, ht.2.2.2.2.1, ht.2.2.2.2.2.1,
          ht.2.2.2.2.2.2.1, ht.2.2.2.2.2.2.2.1, ht.2.2.2.2.2.2.2.2⟩
      · rw [hn.2.2.2.1] at hone; cases hone
    · intro h; exact absurd h hi
    · intro _; exact ⟨hd.2.1, hd.1⟩

/-- **each loss is excluded by the one fix that addresses it** (any combination of fixes) -/
theorem each_fix_suffices (v : Variant) (ops : List Op) :
    let w := after v ops
    (v.nbFree = true → w.nbLost = 0 ∧
        ∀ i c, w.conns[i]? = some c → i ∉ w.list → c.freed = true ∧ c.refHeld = false) ∧
    (v.closedToo = true → w.recLost = 0 ∧ w.shutLeft = 0) ∧
    (v.goneWspath = true → w.wsLostGone = 0) ∧
    (v.wsOnePath = true → w.wsLostHs = 0) ∧
    (v.ftClose = true → w.stray = 0) ∧
    (v.extFree = true → w.extLost = 0) ∧
    (v.goneExtClose = true → w.extDataLost = 0) ∧
    (v.disableFree = true → w.extNodeLost = 0) := by
  have hinv := inv_after v ops
  obtain ⟨k1, k2, k3, k4, k5, k6, k7, k8⟩ := hinv.counters
  refine ⟨?_, k2, k3, k4, k5, k6, k7, k8⟩
  intro hv
  refine ⟨k1 hv, ?_⟩
  intro i c hc hi
  rcases (hinv.dead i c hc hi).2.2 with ht | hn
  · exact ⟨ht.2.1, ht.2.2.1⟩
  · rw [hv] at hn; exact absurd hn.1 (by decide)

/-- what is proved about the code as found (`Variant.current`), where `exactly_once` is false -/
theorem exactly_once_partial (ops : List Op) (i : Nat) (c : Conn)
    (hc : (after Variant.current ops).conns[i]? = some c) :
    c.goneCalls ≤ 1 ∧ c.closeCalls ≤ 1 ∧
    (c.goneCalls = 1 → c.closeCalls = 1 ∧ i ∉ (after Variant.current ops).list ∧ c.res = {} ∧
       c.refHeld = false) ∧
    (i ∉ (after Variant.current ops).list → c.closeCalls = 1 ∧ c.sockOpen = false) := by
  obtain ⟨h1, h2, h3, _, h5⟩ := at_most_once Variant.current ops i c hc
  refine ⟨h1, h2, ?_, ?_⟩
  · intro hg; obtain ⟨a, b, _, d, e, _⟩ := h3 hg; exact ⟨a, b, d, e⟩
  · intro hn; exact ⟨(h5 hn).2, (h5 hn).1⟩

/-- **scaled-screen reference counts are exact** (any variant): the count of every screen is the
number of records that reference it … -/
theorem refcounts_exact (v : Variant) (ops : List Op) (s : Screen)
    (hs : s ∈ (after v ops).screens) : s.refs = owners (after v ops) (s.w, s.h) :=
  (inv_after v ops).refs s hs

/-- … and with the fixes every such record is a listed client: once a connection has ended its
reference is gone ("reference counts restored") -/
theorem refcounts_restored (ops : List Op) (i : Nat) (c : Conn) (d : Nat × Nat)
    (hc : (after Variant.fixed ops).conns[i]? = some c) (ho : owns d c = true) :
    i ∈ (after Variant.fixed ops).list := by
  by_cases hi : i ∈ (after Variant.fixed ops).list
  · exact hi
  · have := (exactly_once ops i c hc hi).2.2.2.2.1
    simp [owns, this] at ho

/-- a scale factor that reduces a dimension to 0 is refused ("leaving things alone"): the client
keeps its screen and, with it, its reference — nothing in the world changes -/
theorem refused_scale_changes_nothing (w : World) (i k : Nat) (h : 128 / k = 0 ∨ 96 / k = 0) :
    setScale w i k = w := by
  unfold setScale scaleDims
  rcases h with h | h <;> simp [h]

/-- **extension data is handed to the extension's close hook exactly once**: an enabled extension
owns per-client data only while the client's socket is open; a closed or ended client has none left
(and `nothing_lost` says none was dropped without the hook: `extDataLost = 0`) -/
theorem extension_data_released (ops : List Op) (i : Nat) (c : Conn)
    (hc : (after Variant.fixed ops).conns[i]? = some c) (hclosed : c.sockOpen = false) :
    c.extData = false := by
  have hinv := inv_after Variant.fixed ops
  by_cases hi : i ∈ (after Variant.fixed ops).list
  · exact ((hinv.live i c hc hi).2.2.2.2 hclosed).2.2
  · exact (exactly_once ops i c hc hi).2.2.2.2.2.2.2.2.2.2

/-- **the pointer never stays with a dead client** (any variant): `screen->pointerClient` is always a
listed client, so the other clients' pointer events are not locked out by a connection that ended
with a button down -/
theorem pointer_owner_listed (v : Variant) (ops : List Op) (i : Nat)
    (h : (after v ops).ptrOwner = some i) : i ∈ (after v ops).list :=
  (inv_after v ops).ptr i h

/-- **progress 1**: one pass of the reaping loop of `rfbProcessEvents` hands every listed client
whose socket is closed to `rfbClientConnectionGone` (any variant, any reachable world) -/
theorem reaping_complete (v : Variant) (ops : List Op) (i : Nat)
    (hi : i ∈ (after v ops).list) (hclosed : isOpen (after v ops) i = false) :
    i ∉ (reap v (after v ops) (after v ops).list).list :=
  reap_complete (inv_after v ops) _ i hi hclosed

/-- **progress 2**: `rfbShutdownServer` leaves no client in the list (needs the `closedToo` fix) -/
theorem shutdown_leaves_nobody (v : Variant) (hv : v.closedToo = true) (ops : List Op) :
    (after v (ops ++ [.shutdown])).list = [] := by
  simp only [after, run, List.foldl_append, List.foldl_cons, List.foldl_nil, step]
  exact shutdown_list_nil hv (inv_after v ops)

/-- **progress 3**: so does `rfbScreenCleanup` alone -/
theorem cleanup_leaves_nobody (v : Variant) (hv : v.closedToo = true) (ops : List Op) :
    (after v (ops ++ [.cleanup])).list = [] := by
  simp only [after, run, List.foldl_append, List.foldl_cons, List.foldl_nil, step]
  exact cleanup_list_nil hv (inv_after v ops)

/-- hence after shutdown + cleanup every connection ever made satisfies `exactly_once` -/
theorem all_torn_down_after_shutdown (ops : List Op) (i : Nat) (c : Conn)
    (hc : (after Variant.fixed (ops ++ [.shutdown])).conns[i]? = some c) :
    c.closeCalls = 1 ∧ c.goneCalls = (if c.hooked then 1 else 0) ∧ c.freed = true ∧ c.res = {} := by
  have hnil := shutdown_leaves_nobody Variant.fixed rfl ops
  have := exactly_once (ops ++ [.shutdown]) i c hc (by rw [hnil]; simp)
  exact ⟨this.1, this.2.1, this.2.2.2.1, this.2.2.2.2.2.1⟩

/-! ### isolation -/

/-- `rfbCloseClient(i)` touches no other record -/
theorem isolation_close (w : World) (i j : Nat) (h : i ≠ j) :
    (closeClient w i).conns[j]? = w.conns[j]? := closeClient_isolated w i j h

/-- `rfbClientConnectionGone(i)` touches no other record, unless the application's own gone hook
closes one — then that record is closed exactly once and nothing else in it changes -/
theorem isolation_gone (v : Variant) (w : World) (i j : Nat) (h : i ≠ j) :
    Undisturbed w (gone v w i) j ∧
    (∀ c, w.conns[i]? = some c → c.goneKick = none → (gone v w i).conns[j]? = w.conns[j]?) :=
  ⟨gone_undisturbed v w i j h, fun c hc hk => gone_isolated v w i j h c hc hk⟩

/-- a message of connection `i`, with any outcome of its I/O, touches no other record — except the
intended replacement by a non-shared ClientInit, which closes the other record exactly once -/
theorem isolation_message (v : Variant) (w : World) (i j : Nat) (x : Fail) (r : Res) (h : i ≠ j) :
    Undisturbed w (procMsg v w i x r) j := procMsg_undisturbed v w i j x r h

/-- a connection whose I/O fails takes nobody with it -/
theorem isolation_failure (v : Variant) (w : World) (i j : Nat) (x : Fail) (r : Res) (h : i ≠ j)
    (hx : x ≠ .none) : (procMsg v w i x r).conns[j]? = w.conns[j]? :=
  procMsg_failed_isolated v w i j x r h hx

/-- accepting a connection — or failing to, on any of the early exits — disturbs no existing one -/
theorem isolation_accept (v : Variant) (w : World) (hk : Hook) (ws : Nat) (nb : Bool) (x : Fail)
    (j : Nat) (hj : j < w.conns.length) : Undisturbed w (accept v w hk ws nb x) j :=
  accept_undisturbed v w hk ws nb x j hj

/-! ### the code as found does NOT satisfy `exactly_once`: six counter-examples
(each is corpus/C12/<name>.ops and is replayed on the real code by every run of the check) -/

/-- nb.ops — `rfbSetNonBlocking` fails: the record is neither listed nor freed, its screen
reference is never dropped -/
def nbTrace : List Op := [.conn .accept 0 true .none, .shutdown, .cleanup]
theorem defect_nonblock_fail_leak :
    (after Variant.current nbTrace).nbLost = 1 ∧
    (after Variant.current nbTrace).conns.map (fun c => (c.freed, c.refHeld)) = [(false, true)] ∧
    (after Variant.current nbTrace).screens.map (·.refs) = [1] ∧
    (after Variant.fixed nbTrace).nbLost = 0 ∧
    (after Variant.fixed nbTrace).screens.map (·.refs) = [0] := by decide

/-- shut.ops — a client closed by the application but not yet reaped is skipped by
`rfbShutdownServer` and by `rfbScreenCleanup`: gone callback never runs, record lost -/
def shutTrace : List Op :=
  [.conn .accept 0 false .none, .send 0 .ver [] [], .appClose 0, .shutdown, .cleanup]
theorem defect_closed_unreaped_shutdown_leak :
    (after Variant.current shutTrace).conns.map (fun c => (c.hooked, c.goneCalls, c.freed)) = [(true, 0, false)] ∧
    (after Variant.current shutTrace).recLost = 1 ∧
    (after Variant.fixed shutTrace).conns.map (fun c => (c.hooked, c.goneCalls, c.freed)) = [(true, 1, true)] ∧
    (after Variant.fixed shutTrace).recLost = 0 := by decide

/-- gonews.ops — `rfbScreenCleanup` without `rfbShutdownServer` on a WebSocket client: wspath lost -/
def gonewsTrace : List Op :=
  [.conn .accept 1 false .none, .send 0 .ver [] [], .send 0 .sec [] [], .send 0 (.init true) [] [],
   .send 0 .req [] [], .cleanup]
theorem defect_cleanup_wspath_leak :
    (after Variant.current gonewsTrace).wsLostGone = 1 ∧ (after Variant.fixed gonewsTrace).wsLostGone = 0 := by
  decide

/-- wsone.ops — three "GET" lines in one WebSocket handshake: two path copies lost -/
def wsoneTrace : List Op :=
  [.conn .accept 3 false .none, .send 0 .ver [] [], .closePeer 0 [] [], .shutdown, .cleanup]
theorem defect_ws_multi_get_leak :
    (after Variant.current wsoneTrace).wsLostHs = 2 ∧ (after Variant.fixed wsoneTrace).wsLostHs = 0 := by
  decide

/-- ft.ops — a file-transfer request opens a descriptor, the peer goes away: never closed -/
def ftTrace : List Op :=
  [.conn .accept 0 false .none, .send 0 .ver [] [], .send 0 .sec [] [], .send 0 (.init true) [] [],
   .send 0 .ft [] [], .closePeer 0 [] [], .shutdown, .cleanup]
theorem defect_ft_fd_leak :
    (after Variant.current ftTrace).stray = 1 ∧ (after Variant.fixed ftTrace).stray = 0 := by decide

/-- ext.ops — a protocol extension enabled for the client: its list node is never freed -/
def extTrace : List Op :=
  [.ext, .conn .accept 0 false .none, .send 0 .ver [] [], .closePeer 0 [] [], .shutdown, .cleanup]
theorem defect_extension_node_leak :
    (after Variant.current extTrace).extLost = 2 ∧ (after Variant.fixed extTrace).extLost = 0 := by decide

/-- extclose.ops — `rfbScreenCleanup` without `rfbShutdownServer` on a client with an enabled
extension: the extension's close hook never runs, its per-client data is lost (found in round 2) -/
def extcloseTrace : List Op :=
  [.ext, .conn .accept 0 false .none, .send 0 .ver [] [], .send 0 .sec [] [], .send 0 (.init true) [] [],
   .cleanup]
theorem defect_cleanup_extension_close_skipped :
    (after Variant.current extcloseTrace).extDataLost = 1 ∧
    (after Variant.fixed extcloseTrace).extDataLost = 0 ∧
    (after Variant.fixed extcloseTrace).log.filter (· == .xclose 0 true) = [.xclose 0 true] := by decide

/-- extdis.ops — an extension whose init hook answers "remove me" at ClientInit (or that the
application disables with `rfbDisableExtension`): the data is freed, the list node is unlinked and
never freed (found in round 2 by a seeder, confirmed here) -/
def extdisTrace : List Op :=
  [.ext, .conn .accept 0 false .none, .extRefuse 0, .send 0 .ver [] [], .send 0 .sec [] [],
   .send 0 (.init true) [] [], .closePeer 0 [] [], .shutdown, .cleanup]
theorem defect_disable_extension_node_leak :
    (after Variant.current extdisTrace).extNodeLost = 1 ∧
    (after Variant.fixed extdisTrace).extNodeLost = 0 ∧
    (after Variant.fixed extdisTrace).conns.map (fun c => (c.exts, c.extData, c.freed)) = [(0, false, true)] := by
  decide

/-- enabling and disabling an extension any number of times during a client's life loses nothing and
leaves nothing behind (instance of `nothing_lost` / `exactly_once`, spelled out for the API pair) -/
theorem extension_toggle_clean (ops : List Op) (i : Nat) (n : Nat) :
    let w := after Variant.fixed (ops ++ (List.replicate n [Op.extDrop i, Op.extAdd i]).flatten)
    w.extNodeLost = 0 ∧ w.extDataLost = 0 ∧ w.extLost = 0 := by
  have := nothing_lost (ops ++ (List.replicate n [Op.extDrop i, Op.extAdd i]).flatten)
  exact ⟨this.2.2.2.2.2.2.2.2, this.2.2.2.2.2.2.2.1, this.2.2.2.2.2.2.1⟩

/-- hence the full-strength statement is false for the code as found -/
theorem exactly_once_false_for_current :
    ¬ (∀ (ops : List Op) (i : Nat) (c : Conn),
        (after Variant.current ops).conns[i]? = some c → i ∉ (after Variant.current ops).list →
        c.freed = true ∧ c.refHeld = false) := by
  intro h
  have := h nbTrace 0 _ (by decide : (after Variant.current nbTrace).conns[0]? =
    some { sockOpen := false, closeCalls := 1 }) (by decide)
  exact absurd this.1 (by decide)

/-! ## Non-vacuity -/

/-- a history with three connections: one served with resources on a scaled screen and then dropped
by its peer, one refused by the application, one replacing the first as non-shared client whose
ServerInit write fails -/
def exOps : List Op :=
  [.conn .accept 0 false .none, .send 0 .ver [] [], .send 0 .sec [] [], .send 0 (.init true) [] [],
   .send 0 (.scale 2) [] [], .send 0 .req [] [(0, { z := 1, b := 2 })],
   .conn .refuse 0 false .none,
   .conn .accept 1 false .none, .send 2 .ver [] [], .send 2 .sec [] [],
   .send 2 (.init false) [(2, .wr)] [],
   .closePeer 0 [] []]

/-- hypotheses of `exactly_once` are met three times over, by records with non-trivial history -/
example : (after Variant.fixed exOps).list = [] ∧
    (after Variant.fixed exOps).conns.map (fun c => (c.hooked, c.goneCalls, c.closeCalls, c.freed)) =
      [(true, 1, 1, true), (true, 1, 1, true), (true, 1, 1, true)] ∧
    (after Variant.fixed exOps).screens.map (fun s => (s.w, s.h, s.refs)) = [(128, 96, 0), (64, 48, 0)] := by
  decide

/-- … while in the middle of the same history the first client really holds resources and a
reference on the scaled screen (so `refcounts_exact` and `at_most_once` talk about live state) -/
example : (after Variant.fixed (exOps.take 6)).list = [0] ∧
    (after Variant.fixed (exOps.take 6)).conns.map (fun c => (c.sockOpen, c.res.z, c.res.b, c.scr)) =
      [(true, 1, 2, (64, 48))] ∧
    (after Variant.fixed (exOps.take 6)).screens.map (·.refs) = [0, 1] := by decide

/-- `reaping_complete`: a listed client with a closed socket exists (closed by the application) -/
example : (after Variant.fixed [.conn .accept 0 false .none, .appClose 0]).list = [0] ∧
    isOpen (after Variant.fixed [.conn .accept 0 false .none, .appClose 0]) 0 = false := by decide

/-- `isolation_message` with a real replacement: a non-shared ClientInit of client 1 closes client 0
exactly once and changes nothing else in its record -/
example :
    let w := after Variant.fixed [.conn .accept 0 false .none, .send 0 .ver [] [], .send 0 .sec [] [],
      .send 0 (.init true) [] [], .conn .accept 0 false .none, .send 1 .ver [] [], .send 1 .sec [] []]
    let w' := procMsg Variant.fixed (enqueue w 1 (.init false)) 1 .none {}
    (w.conns.map (·.sockOpen), w'.conns.map (·.sockOpen), w'.conns.map (·.closeCalls)) =
      ([true, true], [false, true], [1, 0]) := by decide

end VncModel.Props.C12
