import VncModel.Cursor.Session
namespace VncModel.Props.C15
end VncModel.Props.C15
