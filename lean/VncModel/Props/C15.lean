import VncModel.Cursor.ShapeLemmas
import VncModel.Cursor.Invariant
import VncModel.Cursor.BitLaws
import VncModel.Cursor.Scaled
/-!
# C15 — Cursor handling never damages the framebuffer and shows the right cursor

Property theorems only.  Model: `VncModel/Cursor/{Basic,Model,Session}.lean` (helper lemmas:
`Lemmas`, `ShowHide`, `SessionLemmas`, `ShapeLemmas`, `Invariant`).  Tie: correspondence run
`harness/c15.c` ⇄ `Driver/C15.lean` (exact, every run) + T0 constants `VncModel/Gen/C15.lean`.

What is modelled: rfbShowCursor / rfbHideCursor with the exact clipping arithmetic and the
save / paint (mask and alpha path) / restore loops, every buffer access checked (an access outside
`frameBuffer` or `underCursorBuffer` makes the operation `none`); `underCursorBuffer` (re)allocation;
rfbRedrawAfterHideCursor via sraClipRect2; the bracket show – encode – hide of
rfbSendFramebufferUpdate including the `updateFailed` path; rfbSendCursorShape / rfbSendCursorPos;
rfbDefaultPtrAddEvent; rfbSetCursor; FramebufferUpdateRequest; the conversions between X and rich
cursors.  Regions are pixel sets (C11), pixels are opaque values of `bpp` bytes.

**The model is the REPAIRED code** (`Variant.fixed`): the code as received violated the property in
three places (`fixes/C15-cursor-clip.diff`, `fixes/C15-xcursor-colour.diff`,
`fixes/C15-setenc-soft-cursor.diff`); the original behaviour is `Variant.orig`, kept executable, and
refuted below (`orig_clip_drops_last_column`, `orig_xcursor_colour_unscaled`; the SetEncodings
defect is witnessed by corpus/C15/setenc-soft-cursor.ops).  Theorems that hold for both are stated for every `v : Variant`.

Quantifiers: every screen size, every cursor (any size incl. 0×0 and 1×1, any mask / rich / alpha
data, any hot-spot, also outside the bitmap), every pointer position (all naturals, so all of
0..65535, cursor on / partly / wholly off-screen), every history of operations.

Also modelled since round 2: the library's built-in default cursor (T0: tools/consts/c15.py), a
second SetEncodings that switches the cursor capability, client pixel formats (`Wire`), 24-bit
server pixels, the "does not fit → empty cursor" rule of rfbSendCursorShape.
Sections 8 and 9 give the alpha path and the bitmap conversions statements of their own (channel
formula with the code's rounding, result within the format, dithering threshold; bit order, row
stride, mask ⊇ source, rich→X→rich).  Still partial (docs/C15.md): premultiplied alpha sources are
only characterised by `blend` itself; rfbMakeMaskFromAlphaSource has threshold / all-clear /
all-set laws, not a full specification of the error diffusion; big-endian server formats are not
modelled.
-/
namespace VncModel.Props.C15
open VncModel.Cursor VncModel.Gen.C15

/-! ## 1. show ; hide is the identity, without out-of-bounds accesses -/

/-- **hide_show_id**: for every screen, cursor, hot-spot and position, rfbShowCursor followed by
rfbHideCursor (same client position) succeeds — i.e. performs no access outside the framebuffer or
underCursorBuffer — and leaves the framebuffer exactly as it was.  Holds for the original and the
repaired clipping. -/
theorem hide_show_id (v : Variant) (s : Screen) (hs : s.WF) (cx cy : Nat) :
    ∃ s1 s2, showCursor v s cx cy = some s1 ∧ hideCursor v s1 cx cy = some s2 ∧ s2.fb = s.fb := by
  obtain ⟨s1, h1⟩ := show_ok v hs cx cy
  obtain ⟨s2, h2, e⟩ := hide_after_show hs h1
  exact ⟨s1, s2, h1, h2, by rw [e]⟩

/-- **no_oob**: every index touched by show and by the following hide is inside its buffer (all
accesses of the model are checked; `some` = none was out of bounds); the pixel buffer the model
checks against has exactly the C buffer's extent (`pixel_range_iff_byte_range`). -/
theorem no_oob (v : Variant) (s : Screen) (hs : s.WF) (cx cy : Nat) :
    ∃ s1, showCursor v s cx cy = some s1 ∧ ∃ s2, hideCursor v s1 cx cy = some s2 := by
  obtain ⟨s1, s2, h1, h2, _⟩ := hide_show_id v s hs cx cy
  exact ⟨s1, h1, s2, h2⟩

/-- a range of `n` pixels starting at pixel `p` lies inside a buffer of `size` pixels iff the byte
range `[p*bpp, p*bpp + n*bpp)` lies inside the `size*bpp` bytes of the C buffer -/
theorem pixel_range_iff_byte_range (bpp size p n : Nat) (hb : 0 < bpp) :
    p + n ≤ size ↔ p * bpp + n * bpp ≤ size * bpp := by
  rw [← Nat.add_mul]
  exact (Nat.mul_le_mul_right_iff hb).symm

/-- the save buffer is (re)allocated large enough for the whole cursor before it is used -/
theorem under_buffer_large_enough (s : Screen) (c : Cursor) (hb : 0 < s.bpp) :
    c.w * c.h * s.bpp ≤ (growUnder s c).underLen := by
  unfold Screen.underLen
  have := growUnder_size s c hb
  rw [(growUnder_fields s c).2.2.1]
  exact Nat.mul_le_mul_right _ this

example : ∃ s : Screen, s.WF ∧ s.cursor.isSome ∧ 0 < s.w :=
  ⟨{ w := 3, h := 2, bpp := 4, fmt := ⟨255, 255, 255, 0, 8, 16⟩, fb := #[0, 0, 0, 0, 0, 0], under := #[],
     cursor := some { w := 1, h := 1, xhot := 0, yhot := 0, mask := #[0x80], source := none,
                      rich := some #[9], alpha := none, premult := false, foreR := 0, foreG := 0,
                      foreB := 0, backR := 0, backG := 0, backB := 0 },
     curX := 0, curY := 0 },
   ⟨rfl, by decide, by
      intro c hc
      simp only [Option.some.injEq] at hc
      subst hc
      exact ⟨rfl, by intro r h; simp at h; subst h; rfl, by intro r h; simp at h,
             by intro r h; simp at h, Or.inl (by simp)⟩⟩,
   rfl, by decide⟩

/-! ## 2. the bracket in rfbSendFramebufferUpdate, including failure -/

/-- **update_restores_framebuffer**: after rfbUpdateClient / rfbSendFramebufferUpdate for any
client — whether an update was sent, nothing had to be sent, or the write failed after the cursor
had been painted — the application's framebuffer is bit-identical to what it was before. -/
theorem update_restores_framebuffer (v : Variant) (s s' : Sess) (c : Client) (o : Option UpdObs)
    (hs : s.scr.WF) (h : sendUpdate v s c = some (s', o)) : s'.scr.fb = s.scr.fb :=
  sendUpdate_fb hs h

/-- the failure case spelled out: the write to this client fails; the update reports failure, the
client is dropped — and the framebuffer is restored all the same -/
theorem update_failed_restores_framebuffer (v : Variant) (s s' : Sess) (c : Client) (obs : UpdObs)
    (hs : s.scr.WF) (hfail : s.failArmed = some c.id) (h : sendUpdate v s c = some (s', some obs)) :
    obs.res = false ∧ s'.scr.fb = s.scr.fb ∧ obs.after = obs.before ∧
    s'.clients = s.clients.filter (fun d => d.id != c.id) := by
  rcases sendUpdate_cases h with ⟨_, _, e⟩ | ⟨_, _, e, _⟩ |
    ⟨_, scr2, scr3, m, obs', hb, hscr, e, _, _, hbef, haft, _, hres, _, _, hcl⟩
  · simp at e
  · simp at e
  · simp only [Option.some.injEq] at e; subst e
    have hfb := (bracket_restores hs hb).1
    refine ⟨by rw [hres, hfail]; simp, by rw [hscr]; exact hfb, by rw [haft, hbef, hfb], ?_⟩
    rw [hcl, hfail]; simp

/-- for soft-cursor clients the whole update (show, hide) is free of out-of-bounds accesses -/
theorem update_no_oob (v : Variant) (s : Sess) (c : Client) (hs : s.scr.WF) (hsh : c.shape = false) :
    ∃ r, sendUpdate v s c = some r :=
  sendUpdate_soft_ok v hs hsh

/-- whole event-loop rounds over whole histories: `SessInv` (Invariant.lean) is preserved by every
operation, and it contains well-formedness; so after any history of operations every update
restores the framebuffer.  See `history_invariant` below. -/
theorem pump_restores_framebuffer (v : Variant) (s s' : Sess) (obs : List UpdObs)
    (hs : SessWF s) (h : pump v s = some (s', obs)) : s'.scr.fb = s.scr.fb ∧ SessWF s' :=
  pump_fb hs h

/-! ## 3. what is painted -/

/-- **painted_eq_overlay** (repaired clipping): after rfbShowCursor every screen pixel `(x,y)` is
the old pixel if it is not under the cursor bitmap (hot-spot at the client's pointer position), and
otherwise the cursor's pixel laid over it — mask bit set: the cursor's pixel, clear: the old pixel;
alpha cursors: `blend`.  "Clipped to the screen" is all the clipping there is. -/
theorem painted_eq_overlay (s s1 : Screen) (hs : s.WF) (cx cy : Nat)
    (h : showCursor Variant.fixed s cx cy = some s1) (c : Cursor) (hc : s.cursor = some c)
    (rich : Array Px) (hr : richOf Variant.fixed s.fmt s.bpp c = some rich)
    (x y : Nat) (hx : x < s.w) (hy : y < s.h) :
    ∃ old, s.fb[y * s.w + x]? = some old ∧
      s1.fb[y * s.w + x]? =
        (if inCursorBox c cx cy x y then
           cursorPixel s.fmt s.bpp c rich ((x:Int) - ((cx:Int) - c.xhot)).toNat ((y:Int) - ((cy:Int) - c.yhot)).toNat old
         else some old) := by
  have hlt : y * s.w + x < s.fb.size := by rw [hs.fbSz, Nat.mul_comm s.w s.h]; exact lin_lt hy hx
  refine ⟨s.fb[y * s.w + x], Array.getElem?_eq_getElem hlt, ?_⟩
  rw [show_overlay hs h hc hr hx hy, Array.getElem?_eq_getElem hlt, Option.bind_some]
  unfold overlayAt effLimit
  simp only [Variant.fixed, if_true]
  by_cases hin : inCursorBox c cx cy x y
  · rw [if_pos hin]
    obtain ⟨h1, h2, h3, h4⟩ := hin
    rw [if_pos ⟨h1, h2, by omega, h3, h4, by omega⟩]
  · rw [if_neg hin, if_neg (fun h' => hin ⟨h'.1, h'.2.1, h'.2.2.2.1, h'.2.2.2.2.1⟩)]

/-- **painted_eq_overlay_reduced_clip** (any variant): the same with the variant's limits — for
the ORIGINAL clipping the overlay is restricted to `x < width-1`, `y < height-1`: the last
column and the last row are never painted (§11-f). -/
theorem painted_eq_overlay_reduced_clip (v : Variant) (s s1 : Screen) (hs : s.WF) (cx cy : Nat)
    (h : showCursor v s cx cy = some s1) (c : Cursor) (hc : s.cursor = some c)
    (rich : Array Px) (hr : richOf v s.fmt s.bpp c = some rich)
    (x y : Nat) (hx : x < s.w) (hy : y < s.h) :
    s1.fb[y * s.w + x]? = (s.fb[y * s.w + x]?).bind
      (overlayAt s.fmt s.bpp c rich (effLimit v.clipFixed s.w) (effLimit v.clipFixed s.h) cx cy x y) :=
  show_overlay hs h hc hr hx hy

/-- without a cursor nothing is painted -/
theorem painted_nothing_without_cursor (v : Variant) (s s1 : Screen) (cx cy : Nat)
    (h : showCursor v s cx cy = some s1) (hc : s.cursor = none) : s1 = s :=
  show_noCursor h hc

/-- **the original clipping violates the property**: with the pointer at `(2,0)` the cursor lies
entirely on the screen (in the last column); the original code paints nothing, the repaired code
paints the pixel.  (Replayed on the real code: corpus/C15/clip-last-column.ops.) -/
theorem orig_clip_drops_last_column :
    (showCursor Variant.orig witnessScreen 2 0).map (·.fb) = some #[0, 0, 0, 0, 0, 0] ∧
    (showCursor Variant.fixed witnessScreen 2 0).map (·.fb) = some #[0, 0, 9, 0, 0, 0] := by
  constructor <;> rfl

/-- **the original X-cursor colour conversion violates the property**: a pure red foreground
(0xffff,0,0) on the 32-bit format (shifts 0/8/16, max 255) becomes 0x00ffff — red *and* green —
in the original rfbMakeRichCursorFromXCursor; the repaired code yields 0x0000ff.
(Replayed on the real code: corpus/C15/xcursor-colour.ops.) -/
theorem orig_xcursor_colour_unscaled :
    xColour Variant.orig ⟨255, 255, 255, 0, 8, 16⟩ 4 0xffff 0 0 = 0xffff ∧
    xColour Variant.fixed ⟨255, 255, 255, 0, 8, 16⟩ 4 0xffff 0 0 = 0xff := by
  constructor <;> rfl

/-! ## 4. the region marked for redraw -/

/-- **dirty_covers_old_and_new**: when the pointer has moved since a soft-cursor client's last
update, the update that is sent covers every screen pixel under the cursor bitmap at the old
position and at the new one (and all modified pixels that were requested). -/
theorem dirty_covers_old_and_new (v : Variant) (s s' : Sess) (c : Client) (obs : UpdObs) (cur : Cursor)
    (h : sendUpdate v s c = some (s', some obs)) (hcur : s.scr.cursor = some cur)
    (hm : softMoved s c = true) (x y : Nat) (hx : x < s.scr.w) (hy : y < s.scr.h) :
    ((inCursorBox cur c.curX c.curY x y ∨ inCursorBox cur s.scr.curX s.scr.curY x y) →
        obs.upd.mem s.scr.w x y = true) ∧
    (c.modified.mem s.scr.w x y = true → c.requested.mem s.scr.w x y = true →
        obs.upd.mem s.scr.w x y = true) := by
  rcases sendUpdate_cases h with ⟨_, _, e⟩ | ⟨_, _, e, _⟩ | ⟨_, _, _, _, obs', _, _, e, hupd, _⟩
  · simp at e
  · simp at e
  · simp only [Option.some.injEq] at e; subst e
    rw [hupd]
    exact ⟨updRegion_covers_boxes hcur hm hx hy, updRegion_covers_modified hx hy⟩

/-- the pointer of a soft-cursor client that lags behind makes an update pending and, with a
request outstanding, that update is really sent -/
theorem moved_pointer_is_sent (s : Sess) (c : Client) (hm : softMoved s c = true)
    (hreq : c.requested.nonempty = true) : willSend s c = true := by
  unfold softMoved at hm
  unfold willSend updCalled updProceeds pending
  cases hsh : c.shape <;> simp_all

/-! ## 5. cursor pseudo-rectangles -/

/-- **shape_msg_exact**: the rectangle rfbSendCursorShape emits for an installed cursor `c0`:
the cursor `c` actually sent has `c0`'s size, hot-spot and mask (conversion only adds the missing
representation); it is either the "no cursor" rectangle (all-zero header: for a 1×1 cursor with empty mask, and —
the rule of f43cbce — for a cursor whose rectangle does not fit `UPDATE_BUF_SIZE`, `shapeFits`) or
header `x=xhot y=yhot w h encoding` followed by exactly — RichCursor: the `w*h` pixels in row-major
order, pixel `k` of the payload being `richSource` pixel `k` translated to the client's format
(`w.tr`, `w.bpp` bytes each; this is what the input row stride `width*bpp1` of the call to
`cl->translateFn` means), then the `⌈w/8⌉*h` mask bytes; XCursor: 6 colour bytes (high bytes of fore R,G,B and
back R,G,B), the `⌈w/8⌉*h` bitmap bytes, the mask bytes. -/
theorem shape_msg_exact (v : Variant) (s s' : Screen) (w : Wire) (useRich : Bool) (m : List UInt8) (c0 : Cursor)
    (hc0 : s.cursor = some c0) (hwf : c0.WF) (h : cursorShapeRect v s w useRich = some (s', m)) :
    ∃ c, s'.cursor = some c ∧ c.w = c0.w ∧ c.h = c0.h ∧ c.xhot = c0.xhot ∧ c.yhot = c0.yhot ∧
      c.mask = c0.mask ∧
      (((isEmptyCursor c = some true ∨ shapeFits w useRich c = false) ∧
          m = rectHeader 0 0 0 0 (if useRich then encRichCursor else encXCursor)) ∨
       (isEmptyCursor c = some false ∧ shapeFits w useRich c = true ∧ ∃ pl,
          m = rectHeader c.xhot c.yhot c.w c.h (if useRich then encRichCursor else encXCursor) ++ pl ∧
          (useRich = true → ∃ rich, c.rich = some rich ∧ richOf v s.fmt s.bpp c0 = some rich ∧
              pl = (rich.toList.map w.tr).flatMap (pxBytes w.bpp) ++ c.mask.toList ∧
              pl.length = c.w * c.h * w.bpp + rowBytes c.w * c.h) ∧
          (useRich = false → ∃ src, c.source = some src ∧
              pl = [UInt8.ofNat (c.foreR / 256), UInt8.ofNat (c.foreG / 256), UInt8.ofNat (c.foreB / 256),
                    UInt8.ofNat (c.backR / 256), UInt8.ofNat (c.backG / 256), UInt8.ofNat (c.backB / 256)]
                   ++ src.toList ++ c.mask.toList ∧
              pl.length = sz_rfbXCursorColors + 2 * (rowBytes c.w * c.h)))) := by
  unfold cursorShapeRect at h
  obtain ⟨⟨c', m'⟩, hcore, e⟩ := Option.map_eq_some_iff.mp h
  simp only [Prod.mk.injEq] at e
  obtain ⟨rfl, rfl⟩ := e
  rw [hc0] at hcore
  obtain ⟨c, rfl, hconv, hcase⟩ := shapeCore_some hcore
  obtain ⟨g1, g2, g3, g4, g5, _, _, g8, _⟩ := convertFor_geom hconv
  have hcwf := convertFor_wf hwf hconv
  refine ⟨c, rfl, g1, g2, g3, g4, g5, ?_⟩
  rcases hcase with ⟨he, hm⟩ | ⟨he, hfit, pl, hpl, hm⟩
  · exact Or.inl ⟨he, hm⟩
  · obtain ⟨p1, p2⟩ := shapePayload_exact hcwf hpl
    refine Or.inr ⟨he, hfit, pl, hm, fun hr => ?_, p2⟩
    obtain ⟨rich, hrich, hpl', hlen⟩ := p1 hr
    exact ⟨rich, hrich, by rw [← (g8 hr).1]; exact hrich, hpl', hlen⟩

/-- without an installed cursor the all-zero cursor rectangle is sent -/
theorem shape_msg_no_cursor (v : Variant) (s : Screen) (w : Wire) (useRich : Bool) (hc : s.cursor = none) :
    cursorShapeRect v s w useRich =
      some ({ s with cursor := none }, rectHeader 0 0 0 0 (if useRich then encRichCursor else encXCursor)) := by
  unfold cursorShapeRect
  rw [hc, shapeCore_none]; rfl

/-- **shape_fits**: the rule and its range.  A cursor rectangle is sent in full iff
`sz_rfbFramebufferUpdateRectHeader + sz_rfbXCursorColors + maskBytes + dataBytes ≤ UPDATE_BUF_SIZE`
(`shapeFits`; otherwise the empty cursor is sent, `shape_too_big_sends_empty`).  Cursors up to
64×64 at up to 4 bytes per client pixel — the property's range — always fit, and are assembled
without the preliminary flush (T0: regenerated `UPDATE_BUF_SIZE` and header sizes). -/
theorem shape_fits (w : Wire) (useRich : Bool) (c : Cursor) (hw : c.w ≤ 64) (hh : c.h ≤ 64) (hb : w.bpp ≤ 4) :
    shapeFits w useRich c = true ∧ shapeFlushesFirst w useRich c = false :=
  ⟨shapeFits_of_le hw hh hb, shapeNoFlush_of_le hw hh hb⟩

/-- **shape_too_big_sends_empty**: a cursor that does not fit is announced as the empty cursor —
the rectangle counted in the update header is always delivered, never half a cursor -/
theorem shape_too_big_sends_empty (v : Variant) (s s' : Screen) (w : Wire) (useRich : Bool) (m : List UInt8)
    (c0 : Cursor) (hc0 : s.cursor = some c0) (hwf : c0.WF)
    (hbig : ∀ c, convertFor v s.fmt s.bpp useRich c0 = some c → shapeFits w useRich c = false)
    (h : cursorShapeRect v s w useRich = some (s', m)) :
    m = rectHeader 0 0 0 0 (if useRich then encRichCursor else encXCursor) ∧ m.length = 12 := by
  unfold cursorShapeRect at h
  obtain ⟨⟨c', m'⟩, hcore, e⟩ := Option.map_eq_some_iff.mp h
  simp only [Prod.mk.injEq] at e
  obtain ⟨rfl, rfl⟩ := e
  rw [hc0] at hcore
  obtain ⟨c, _, hconv, hcase⟩ := shapeCore_some hcore
  rcases hcase with ⟨_, hm⟩ | ⟨_, hfit, _⟩
  · exact ⟨hm, by rw [hm]; exact rectHeader_length _ _ _ _ _⟩
  · rw [hbig c hconv] at hfit; simp at hfit

/-- the flush tests of the rectangles emitted with an (almost) empty buffer — rfbSendCursorPos and
the empty-cursor branch of rfbSendCursorShape — can never fire: `ublen` is at most
`sz_rfbFramebufferUpdateMsg` there -/
theorem small_rects_need_no_flush :
    sz_rfbFramebufferUpdateMsg + sz_rfbFramebufferUpdateRectHeader ≤ UPDATE_BUF_SIZE :=
  header_always_fits

/-- the rectangle header is 12 bytes; rfbSendCursorPos sends the *screen's* pointer position with
zero size and the PointerPos pseudo-encoding -/
theorem pos_msg_exact (s : Screen) :
    cursorPosRect s = rectHeader s.curX s.curY 0 0 encPointerPos ∧ (cursorPosRect s).length = 12 :=
  ⟨rfl, rectHeader_length _ _ _ _ _⟩

/-! ## 6. pointer movement and the other clients -/

/-- **pos_update_to_others** (flags): an accepted PointerEvent that changes the position sets the
screen's pointer to the new position, flags every *other* client with PointerPos support and
clears the flag of the sender. -/
theorem pos_update_to_others (s : Sess) (id x y b : Nat)
    (hacc : s.pointerClient = none ∨ s.pointerClient = some id)
    (hmv : x ≠ s.scr.curX ∨ y ≠ s.scr.curY) :
    (ptrEvent s id x y b).scr.curX = x ∧ (ptrEvent s id x y b).scr.curY = y ∧
    ∀ c ∈ (ptrEvent s id x y b).clients, c.posUpd = true → c.wasMoved = (c.id != id) := by
  obtain ⟨h1, h2, h3⟩ := ptrEvent_moves (b := b) hacc hmv
  refine ⟨h1, h2, fun c hc hp => ?_⟩
  rw [h3] at hc
  obtain ⟨d, _, rfl⟩ := List.mem_map.mp hc
  by_cases hid : d.id = id
  · simp only [hid, beq_self_eq_true, if_true] at hp ⊢
    by_cases hd : d.posUpd = true
    · simp [hd]
    · simp [hd] at hp
  · have hne : (d.id == id) = false := by simp [hid]
    simp only [hne, Bool.false_eq_true, if_false] at hp ⊢
    by_cases hd : d.posUpd = true
    · simp [hd, hid]
    · simp [hd] at hp

/-- **pos_update_to_others** (message): a flagged client with an outstanding request gets, in its
next update, a PointerPos rectangle carrying the screen's current pointer position; the flag is
cleared. -/
theorem pos_update_sent (v : Variant) (s s' : Sess) (c : Client) (o : Option UpdObs) (hs : s.scr.WF)
    (hp : c.posUpd = true) (hmv : c.wasMoved = true) (hreq : c.requested.nonempty = true)
    (hlive : s.failArmed ≠ some c.id) (h : sendUpdate v s c = some (s', o)) :
    ∃ obs, o = some obs ∧ obs.pos = some (rectHeader s.scr.curX s.scr.curY 0 0 encPointerPos) ∧
      ∀ d ∈ s'.clients, d.id = c.id → d.wasMoved = false := by
  have hw1 : updCalled s c = true := by
    unfold updCalled pending; simp [hp, hmv, hreq]
  have hw2 : updProceeds s c = true := by
    unfold updProceeds; simp [hp, hmv]
  rcases sendUpdate_cases h with ⟨hw', _, _⟩ | ⟨_, hw', _, _⟩ |
    ⟨_, scr2, scr3, m, obs, hb, _, e, _, _, _, _, _, _, hpos, _, hcl⟩
  · rw [hw1] at hw'; simp at hw'
  · rw [hw2] at hw'; simp at hw'
  · obtain ⟨_, _, g3, g4⟩ := bracket_scr2 hs hb
    refine ⟨obs, e, ?_, ?_⟩
    · rw [hpos]; simp [hp, hmv, cursorPosRect, g3, g4]
    · intro d hd hid
      have : (s.failArmed == some c.id) = false := by simp [hlive]
      rw [hcl, this] at hd
      simp only [Bool.false_eq_true, if_false] at hd
      obtain ⟨d0, _, rfl⟩ := List.mem_map.mp hd
      by_cases h0 : d0.id = c.id
      · simp [h0, clientAfter, hp, hmv]
      · simp [h0] at hid

/-- a PointerEvent from a client other than the one holding a button is ignored altogether -/
theorem ptr_event_ignored_while_other_holds_button (s : Sess) (id p x y b : Nat)
    (h : s.pointerClient = some p) (hne : p ≠ id) : ptrEvent s id x y b = s :=
  ptrEvent_ignored h hne

/-! ## 7. the client's picture, over whole histories -/

/-- **history_invariant**: start from any well-formed screen with no clients and apply any
history of operations — clients connecting with any SetEncodings list in any order and any pixel
format, SetEncodings sent again, pointer events of any client at any position, update requests,
application drawing, cursor replacement (any well-formed cursor or none), event-loop rounds with or
without an injected write failure (no rfbDoCopyRect/rfbScheduleCopyRect: see
`copy_never_drags_cursor` and property C02 for those).  Then (as long as no
cursor conversion for a cursor-shape client fails) the session invariant `SessInv` holds at the
end: the screen is well-formed and for every client and every screen pixel, EITHER the pixel is in
the client's pending `modifiedRegion` (it will be sent with the next covering request) OR the
client's picture shows there, translated into the client's pixel format (`transPx`): the framebuffer
with the cursor's masked pixels laid over it at the client's pointer position (soft-cursor clients)
/ the plain framebuffer (cursor-shape clients).
Together with `dirty_covers_old_and_new` (the client's pointer position catches up with the
screen's in every update, old and new box being resent) this is "the client's picture equals the
framebuffer with the cursor laid over it, following the pointer when it moves". -/
theorem history_invariant (s0 : Sess) (hs0 : s0.scr.WF) (hc0 : s0.clients = []) (ops : List Op)
    (s : Sess) (h : runOps Variant.fixed s0 ops = some s) : SessInv Variant.fixed s :=
  (runOps_inv rfl (sessInv_init hs0 hc0) (by rw [SessNoCopy, hc0]; intro c hc; simp at hc) h).1

example : ∃ ops : List Op, ops.length = 6 ∧
    (runOps Variant.fixed ⟨witnessScreen, [], none, none⟩ ops).isSome := by
  refine ⟨[.client 0 [.copyRect, .raw] none, .client 1 [.pointerPos, .raw, .richCursor] (some (⟨31, 63, 31, 11, 5, 0⟩, 2)), .ptr 0 2 0 0, .req 0 true ⟨0, 0, 3, 2⟩, .req 1 false ⟨0, 0, 3, 2⟩, .pump],
    rfl, ?_⟩
  decide +kernel

/-! ## 8. the alpha path: independent statement -/

/-- **alpha_blend_spec**: for every packed true-colour server format (red in the low `kr` bits,
green in the next `kg`, blue in the next `kb`, all inside the pixel — the formats rfbInitServerFormat
produces: 3/3/2, 5/5/5, 8/8/8) and a non-premultiplied alpha cursor, the pixel the blending loop of
rfbShowCursor stores has in every channel `a*src/255 + (255-a)*dst/255` (the code's two truncating
divisions), every channel within its maximum, and no bit outside the format's bits. -/
theorem alpha_blend_spec (f : Format) (kr kg kb bpp : Nat) (hp : f.Packed kr kg kb)
    (hbits : kr + kg + kb ≤ 8 * bpp) (hbpp : bpp ≤ 4) (d s a : Nat) (ha : a ≤ 255) :
    let out := blend f bpp false d s a
    chanOf f.redMax f.redShift out = blendChan a (chanOf f.redMax f.redShift s) (chanOf f.redMax f.redShift d) ∧
    chanOf f.greenMax f.greenShift out = blendChan a (chanOf f.greenMax f.greenShift s) (chanOf f.greenMax f.greenShift d) ∧
    chanOf f.blueMax f.blueShift out = blendChan a (chanOf f.blueMax f.blueShift s) (chanOf f.blueMax f.blueShift d) ∧
    chanOf f.redMax f.redShift out ≤ f.redMax ∧ chanOf f.greenMax f.greenShift out ≤ f.greenMax ∧
    chanOf f.blueMax f.blueShift out ≤ f.blueMax ∧ out < 2 ^ (kr + kg + kb) :=
  blend_spec hp hbits hbpp d s a ha

/-- how the painted pixel of an alpha cursor comes about (`painted_eq_overlay` + this + the
blend law): alpha 0 leaves the framebuffer pixel, any other alpha stores `blend` of the framebuffer
pixel and the cursor pixel; the mask bits play no role -/
theorem alpha_pixel_rule (f : Format) (bpp : Nat) (c : Cursor) (rich : Array Px) (al : Array UInt8)
    (u v : Nat) (old : Px) (a : UInt8) (sv : Px) (hal : c.alpha = some al)
    (ha : al[v * c.w + u]? = some a) (hs : rich[v * c.w + u]? = some sv) :
    cursorPixel f bpp c rich u v old =
      some (if a.toNat = 0 then old else blend f bpp c.premult old sv a.toNat) := by
  unfold cursorPixel
  simp only [hal, ha, hs, Option.bind_some, Option.map_some]
  split <;> rfl

/-- **alpha_mask_threshold / clear / full**: the mask rfbMakeMaskFromAlphaSource dithers from the
alpha source: its first pixel is set exactly when alpha ≥ 0x80 (the threshold; no later step
touches it); a fully transparent source gives the empty mask, a fully opaque one the full mask -/
theorem alpha_mask_threshold (width height : Nat) (alpha mask : Array UInt8) (hw : 0 < width) (hh : 0 < height)
    (h : makeMaskFromAlpha width height alpha = some mask) :
    ∃ a0, alpha[0]? = some a0 ∧ maskBit mask width 0 0 = some (decide (a0.toNat ≥ 0x80)) :=
  alpha_threshold hw hh h

theorem alpha_mask_transparent (width height : Nat) (alpha mask : Array UInt8)
    (hall : ∀ t, t < width * height → alpha[t]? = some 0)
    (h : makeMaskFromAlpha width height alpha = some mask) :
    mask = Array.replicate (rowBytes width * height) 0 :=
  alpha_mask_clear hall h

theorem alpha_mask_opaque (width height : Nat) (alpha mask : Array UInt8)
    (hall : ∀ t, t < width * height → alpha[t]? = some 255)
    (h : makeMaskFromAlpha width height alpha = some mask) (u v : Nat) (hu : u < width) (hv : v < height) :
    maskBit mask width u v = some true :=
  alpha_mask_full hall h hu hv

/-! ## 9. bitmap laws of the cursor conversions -/

/-- **xcursor_colour_scaled** (231917e): in a packed server format the pixel standing for a 16-bit
X-cursor colour has every channel scaled to the channel maximum, `max*c/0xffff`, nothing outside -/
theorem xcursor_colour_scaled (f : Format) (kr kg kb bpp : Nat) (hp : f.Packed kr kg kb)
    (hbits : kr + kg + kb ≤ 8 * bpp) (hbpp : bpp ≤ 4) (r g b : Nat) (hr : r ≤ 0xffff) (hg : g ≤ 0xffff) (hb : b ≤ 0xffff) :
    let p := xColour Variant.fixed f bpp r g b
    chanOf f.redMax f.redShift p = f.redMax * r / 0xffff ∧
    chanOf f.greenMax f.greenShift p = f.greenMax * g / 0xffff ∧
    chanOf f.blueMax f.blueShift p = f.blueMax * b / 0xffff ∧ p < 2 ^ (kr + kg + kb) :=
  xcolour_spec hp hbits hbpp hr hg hb

/-- **make_rich_from_x_law**: rfbMakeRichCursorFromXCursor — pixel `(u,v)` is the foreground colour
where the source bit (row stride `(w+7)/8`, MSB first) is set, the background colour elsewhere -/
theorem make_rich_from_x_law (v : Variant) (f : Format) (bpp : Nat) (c : Cursor) (src : Array UInt8)
    (rich : Array Px) (hsrc : c.source = some src) (h : makeRichPixels v f bpp c = some rich)
    (u w : Nat) (hu : u < c.w) (hw : w < c.h) :
    ∃ bit, maskBit src c.w u w = some bit ∧
      rich[w * c.w + u]? = some (if bit then xColour v f bpp c.foreR c.foreG c.foreB
                                  else xColour v f bpp c.backR c.backG c.backB) :=
  make_rich_law hsrc h hu hw

/-- **make_xcursor_bits_law**: rfbMakeXCursor — the bitmap has the string's bit at every cursor
pixel and zero in every padding position (bit order MSB first, row stride `(w+7)/8`) -/
theorem make_xcursor_bits_law (width height : Nat) (bits : Array UInt8) (hsz : bits.size = rowBytes width * height)
    (u v : Nat) (hv : v < height) (hu : u < rowBytes width * 8) :
    maskBit (clearPadding width height bits) width u v =
      (maskBit bits width u v).map fun b => b && decide (u < width) :=
  make_xcursor_bits hsz hv hu

/-- **mask_for_xcursor_covers_source**: the mask rfbMakeMaskForXCursor derives contains the source -/
theorem mask_for_xcursor_covers_source (width height : Nat) (src mask : Array UInt8)
    (h : makeMaskForXCursor width height src = some mask) (u v : Nat) (hu : u < width) (hv : v < height)
    (hbit : maskBit src width u v = some true) : maskBit mask width u v = some true :=
  mask_covers_source h hu hv hbit

/-- **x_from_rich_bits_law**: rfbMakeXCursorFromRichCursor — bit `(u,v)` of the new bitmap is set
exactly when rich pixel `(u,v)` differs from the (scaled) background colour / in the all-zero-colours
mode when its grey level is ≥ 128 -/
theorem x_from_rich_bits_law (f : Format) (bpp : Nat) (c c' : Cursor) (rich : Array Px)
    (hr : c.rich = some rich) (h : makeXFromRich f bpp c = some c') :
    ∃ src, c'.source = some src ∧ src.size = rowBytes c.w * c.h ∧
      ∀ u, u < c.w → ∀ v, v < c.h → maskBit src c.w u v = some (xSetAt f bpp c rich v u) :=
  x_from_rich_bits hr h

/-- **rich_x_rich_roundtrip**: rich → X → rich is the identity on two-colour cursors (every pixel
the scaled foreground or background colour, the two different, colours not all zero) -/
theorem rich_x_rich_roundtrip (f : Format) (bpp : Nat) (c c' : Cursor) (rich rich' : Array Px)
    (hr : c.rich = some rich) (hsz : rich.size = c.w * c.h) (hni : xInterp bpp c = false)
    (hne : xColour Variant.fixed f bpp c.foreR c.foreG c.foreB ≠ xColour Variant.fixed f bpp c.backR c.backG c.backB)
    (h2 : ∀ t, t < c.w * c.h → rich[t]? = some (xColour Variant.fixed f bpp c.foreR c.foreG c.foreB) ∨
                                 rich[t]? = some (xColour Variant.fixed f bpp c.backR c.backG c.backB))
    (hx : makeXFromRich f bpp c = some c')
    (hback : makeRichPixels Variant.fixed f bpp { c' with rich := none } = some rich') : rich' = rich :=
  rich_x_rich hr hsz hni hne h2 hx hback

example : (⟨255, 255, 255, 0, 8, 16⟩ : Format).Packed 8 8 8 ∧ 8 + 8 + 8 ≤ 8 * 3 := ⟨⟨rfl, rfl, rfl, rfl, rfl, rfl⟩, by decide⟩

/-! ## 10. SetEncodings: order independence; CopyRect and the painted cursor -/

/-- **setenc_flags_closed_form**: after a SetEncodings message the cursor flags are: cursor-shape
updates iff XCursor or RichCursor is listed; rich iff RichCursor is listed; position updates iff
PointerPos is listed together with a cursor-shape encoding; shape due iff shape updates are on;
position due if PointerPos is listed — wherever in the list each encoding stands -/
theorem setenc_flags_closed_form (w0 : Bool) (l : List Enc) :
    encFlags w0 l =
      { shape := hasShape l, useRich := l.contains .richCursor,
        posUpd := l.contains .pointerPos && hasShape l,
        wasMoved := w0 || l.contains .pointerPos, wasChanged := hasShape l,
        useCopyRect := l.contains .copyRect, marked := hasShape l } :=
  encFlags_closed w0 l

/-- **setenc_order_independent**: two SetEncodings lists that are permutations of each other have
exactly the same effect on the session (flags, marked regions, everything) -/
theorem setenc_order_independent (v : Variant) (s : Sess) (id : Nat) (l l' : List Enc) (h : l.Perm l') :
    setEncodings v s id l = setEncodings v s id l' :=
  setEncodings_perm h v s id

/-- in particular: PointerPos listed before or after the cursor-shape encoding — position updates
are enabled and a position update is due either way -/
theorem pointerpos_before_shape_enabled (w0 : Bool) :
    (encFlags w0 [.raw, .pointerPos, .richCursor, .xCursor]).posUpd = true ∧
    (encFlags w0 [.raw, .pointerPos, .richCursor, .xCursor]).wasMoved = true ∧
    encFlags w0 [.raw, .pointerPos, .richCursor, .xCursor] = encFlags w0 [.raw, .richCursor, .xCursor, .pointerPos] := by
  cases w0 <;> decide

/-- **copy_never_drags_cursor**: rfbScheduleCopyRegion for a soft-cursor client that accepts
CopyRect marks as modified every pixel of the scheduled copy whose destination or whose SOURCE lies
under the cursor painted in the client's picture (any cursor size, mask, hot-spot; any displacement);
and what rfbSendFramebufferUpdate then sends as CopyRect lies inside the scheduled copy and outside
the modified region — so a CopyRect neither overwrites nor drags along the painted cursor -/
theorem copy_never_drags_cursor (s : Sess) (c : Client) (dst : Rgn) (dx dy : Int) (cur : Cursor)
    (hcr : c.useCopyRect = true) (hsh : c.shape = false) (hcur : s.scr.cursor = some cur)
    (x y : Nat) (hx : x < s.scr.w) (hy : y < s.scr.h)
    (hbox : rawBox cur c.curX c.curY x y = true ∨
            rawBox cur c.curX c.curY ((x : Int) - dx) ((y : Int) - dy) = true) :
    (updCopyRegion s (clientScheduleCopy s.scr c dst dx dy)).mem s.scr.w x y = false := by
  cases h : (updCopyRegion s (clientScheduleCopy s.scr c dst dx dy)).mem s.scr.w x y with
  | false => rfl
  | true =>
    obtain ⟨h1, h2⟩ := updCopyRegion_subset hx hy h
    rw [scheduleCopy_marks_cursor hcr hsh hcur hx hy h1 hbox] at h2
    simp at h2

/-! ## 11. the scaled copies of the framebuffer -/

/-- **scaled_copies_restored**: rfbShowCursor and rfbHideCursor both re-render the cursor box in
EVERY server-side scaled copy of the framebuffer (`rfbScaledScreenUpdate`).  For any scaling filter
(`Renderer`: re-rendering a box overwrites it from the source alone — the filter itself is C17's) and
any list of scaled copies that are in sync with the framebuffer on the box: after show ; hide every
copy is exactly what it was — the painted cursor is left behind in no client's scaled view. -/
theorem scaled_copies_restored {α : Type} (r : Renderer α) (v : Variant) (s : Screen) (hs : s.WF) (cx cy : Nat)
    (b : Rect) (copies : List α) (hsync : ∀ c ∈ copies, r.render s.fb b c = c) :
    ∃ s1 s2, showCursor v s cx cy = some s1 ∧ hideCursor v s1 cx cy = some s2 ∧
      renderAll r s2.fb b (renderAll r s1.fb b copies) = copies := by
  obtain ⟨s1, s2, h1, h2, hfb⟩ := hide_show_id v s hs cx cy
  refine ⟨s1, s2, h1, h2, ?_⟩
  rw [hfb]
  exact renderAll_restores r s.fb s1.fb b copies hsync

/-- re-rendering only the updating client's own copy on hide (the change seeded as C15-7) does
leave the painted cursor behind in the other copies -/
theorem render_own_leaves_ghost :
    ∃ (r : Renderer Nat) (fb fbPainted : Array Px) (b : Rect) (copies : List Nat),
      (∀ c ∈ copies, r.render fb b c = c) ∧
      renderOwn r fb b 0 (renderAll r fbPainted b copies) ≠ copies :=
  ⟨⟨fun fb _ _ => fb.size, fun _ _ _ _ => rfl⟩, #[], #[1], ⟨0, 0, 1, 1⟩, [0, 0],
    by intro c hc; simp at hc; subst hc; rfl, by decide⟩

end VncModel.Props.C15
