import VncModel.Scale.State
namespace VncModel.Props.C17
open VncModel.Scale

theorem told_reduced_size_stub (W n : Nat) : scaleN 1 1 (W / n) = W / n := by
  simp [scaleN]

end VncModel.Props.C17
