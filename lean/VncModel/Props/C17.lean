import VncModel.Scale.Lemmas
import VncModel.Scale.StateLemmas
import VncModel.Scale.Converge
import VncModel.Scale.Ieee
import VncModel.Leaf.EquivScale
/-!
# C17 — server-side scaling delivers consistent geometry and correctly filtered pixels

Model: `VncModel.Scale` (`Model.lean`, `State.lean`) — `src/libvncserver/scale.c` (ScaleX/ScaleY,
rfbScaledCorrection, rfbScaledScreenUpdateRect, rfbScaledScreenUpdate, rfbScalingFind/Allocate/Setup),
the SetScale / PalmVNCSetScaleFactor cases and rectSwapIfLEAndClip of `rfbserver.c`, the refcount
handling of rfbNewClient / rfbClientConnectionGone, rfbMarkRectAsModified → rfbScaledScreenUpdate of
`main.c`.  The model follows the code with the three C17 fixes (integer ScaleX/ScaleY, width 0
refused, per-pixel block origin; /repo commits b3494ad, 916387d, d7beb2f).  It is tied to the code on
every run by harness/c17.c against Driver/C17.lean (vlib/props/c17.py).

What the theorems say for the property
* `told_reduced_size`        a client asking for factor n ≥ 1 ends on the screen of size
                             (W div n) × (H div n) — integer division rounding DOWN, which is what the
                             client is told (the property's "width/n by height/n") — and the size
                             announcement is pending; factor 1 is `factor1_identity`.
* `scale_zero_rejected`      factor 0: the connection is closed, no reference is left behind.
* `zero_dimension_rejected`  a factor reducing a dimension to 0 changes nothing (client keeps its
                             size); `no_zero_dimension_screen`: no scaled screen with a zero dimension
                             ever exists, for any history.
* `corrected_rect_inside`    rfbScaledCorrection maps every non-empty rectangle inside the screen to a
                             non-empty rectangle inside the scaled screen ("receives only rectangles
                             inside that size").
* `corrected_rect_covers`    every reduced pixel whose source block meets a modified rectangle lies in
                             the corrected rectangle (so it is refreshed and sent: no lost edge column).
* `filter_reads_inside_source`, `filter_writes_inside_dest`
                             every byte read / written by the box filter lies inside the respective
                             framebuffer — NO hypothesis about the right/bottom edge or about the
                             factor dividing the size is needed (fixed code).
* `filter_is_block_average`  a refreshed pixel is the per-channel ⌊sum/(areaX·areaY)⌋ of its block
                             (colour-mapped: top-left pixel), pixels outside the corrected rectangle are
                             untouched; `block_is_nxn_when_dividing`: the block is the n×n block at
                             (nX, nY) whenever n divides the size.
* `scaled_copy_tracks`, `scaled_copy_full_refresh`
                             convergence of the scaled copy: after a modification inside a rectangle and
                             the refresh of that rectangle the copy equals the reference image again.
* `scaled_views_converge`    the same for EVERY history of joins, factor changes, leaves and
                             modifications: every scaled screen with at least one user equals the
                             reference image ("shared views stay correct", "converges after every
                             modification"); unconditional for screen sizes < 2¹⁶.
* `corrRaw_sound`, `corrected_rect_code`
                             the double arithmetic of rfbScaledCorrection (software-float model) stays
                             within `CorrRel` for all 16-bit operands, hence inside-ness and coverage
                             hold for the function the code computes.
* `request_rect_inside_screen`
                             a client's update request (scaled coordinates, any 16-bit values) is either
                             ignored or clipped to a rectangle inside the screen.
* `pointer_mapped_back`      a pointer position of the scaled client is mapped to the top-left source
                             pixel of the block shown at that position (inside the screen).
* `refcount_conservation`    for EVERY history of join / change factor (both variants, any n) / leave /
                             modify: each screen's refcount = number of clients using it, scaled
                             screens have pairwise distinct sizes different from the screen's,
                             every client's screen exists (induction over the history).
* `factor1_identity`         factor 1 selects the screen itself (no copy, no correction, no filter).

Stated assumption (IEEE): rfbScaledCorrection evaluates `to/from`, `x*scale`, `w*scale`,
`w1 + (x1 - x2)` and the FLOOR/CEIL casts in binary64, round to nearest even, without contraction or
excess precision — i.e. exactly as the software-float model `corrRaw` (`Dy`, `rne`).  This is the only
unproved link; it is checked against the C function on every run (exhaustive 1-D sizes ≤ 30/44, random
16-bit operands, random 2-D rectangles).  The arithmetic half of the argument is a theorem:
`corrRaw_sound` (for operands < 2¹⁶ each of the 4 roundings has relative error ≤ 2⁻⁵³, total absolute
error < 2⁻³⁰; `X = x·to/from`, `V = (x+w)·to/from` are multiples of `1/from` with `from < 2¹⁶`, so a
non-integer value is ≥ 2⁻¹⁶ away from every integer and FLOOR/CEIL are exact; an integer value may be
missed by one, which is what the relational bounds `CorrRel` — `x2 ≤ X ≤ x2+1`, `V ≤ x2+w2 < V+2` —
allow).  The theorems about the correction are stated for EVERY `CorrRel` outcome and, combined with
`corrRaw_sound`, for the computed function (`corrected_rect_code`, `scaled_views_converge`).
ScaleX/ScaleY are integer arithmetic in the fixed code and need no assumption.
No theorem of this file is `_partial`.
-/
namespace VncModel.Props.C17
open VncModel.Scale

/-! ## geometry told to the client -/

/-- the effect of rfbScalingSetup on the client record when the target screen can be provided -/
theorem scalingSetup_client {s : Srv} {i : Nat} {c : Client}
    (hf : s.clients.find? (·.id == i) = some c) {w h : Nat} (hw : 0 < w) (hh : 0 < h) :
    (scalingSetup s c w h).clients
      = setClient s.clients i fun c => { c with sw := w, sh := h, pending := true } := by
  have hid : c.id = i := by simpa using List.find?_some hf
  unfold scalingSetup
  have hz : ¬ (w = 0 ∨ h = 0) := by omega
  by_cases hfound : (isMain s w h || (findChain s.chain w h).isSome) = true
  · simp only [hfound, if_true]
    split <;> simp [bump_main_dims, hid]
  · have hnf : (isMain s w h || (findChain s.chain w h).isSome) = false := by simpa using hfound
    simp only [hnf, allocate, hz, if_false, Bool.false_eq_true]
    split <;> simp [bump_main_dims, hid]

theorem setPalm_find {s : Srv} {id : Nat} {c : Client} (palm : Bool)
    (hc : s.clients.find? (·.id == id) = some c) :
    (setPalm s id palm).clients.find? (·.id == id) = some { c with palm := c.palm || palm } := by
  unfold setPalm
  cases palm
  · simp [hc]
  · simp only [if_true]
    rw [find_setClient (fun c => { c with palm := true }) (fun _ => rfl), hc]; simp

/-- **told_reduced_size**: after SetScale(n) (either variant, n ≥ 1, both reduced dimensions ≥ 1) the
client uses the screen of size `W div n × H div n` and the announcement is pending. -/
theorem told_reduced_size (s : Srv) (id n : Nat) (palm : Bool) (c : Client)
    (hc : s.clients.find? (·.id == id) = some c) (hn : n ≠ 0)
    (hw : 0 < s.main.w / n) (hh : 0 < s.main.h / n) :
    ∃ c', (step s (.setScale id palm n)).clients.find? (·.id == id) = some c' ∧
      c'.sw = s.main.w / n ∧ c'.sh = s.main.h / n ∧ c'.pending = true ∧ c'.id = id := by
  show ∃ c', (setScaleCore (setPalm s id palm) id n).clients.find? (·.id == id) = some c' ∧ _
  have hf := setPalm_find palm hc
  have hm : (setPalm s id palm).main = s.main := by unfold setPalm; split <;> rfl
  unfold setScaleCore
  rw [hf]
  simp only [hn, if_false, hm]
  rw [scalingSetup_client hf hw hh,
      find_setClient (fun c => { c with sw := s.main.w / n, sh := s.main.h / n, pending := true }) (fun _ => rfl), hf]
  have hid : c.id = id := by simpa using List.find?_some hc
  exact ⟨_, rfl, rfl, rfl, rfl, hid⟩

/-- **scale_zero_rejected**: factor 0 closes the connection (the client is gone afterwards) -/
theorem scale_zero_rejected (s : Srv) (id : Nat) (palm : Bool) :
    (step s (.setScale id palm 0)).clients.find? (·.id == id) = none := by
  show (setScaleCore (setPalm s id palm) id 0).clients.find? (·.id == id) = none
  unfold setScaleCore
  split
  · rename_i h; exact h
  · simp only [if_true, removeClient]
    apply List.find?_eq_none.mpr
    intro x hx
    have := (List.mem_filter.mp hx).2
    simpa using this

/-- **zero_dimension_rejected**: a factor that reduces a dimension to 0 leaves the scaled-screen
chain, all reference counts and the client's screen untouched (only the PalmVNC flag is set) -/
theorem zero_dimension_rejected (s : Srv) (hi : Inv s) (id n : Nat) (palm : Bool) (hn : n ≠ 0)
    (hW : 0 < s.main.w) (hH : 0 < s.main.h)
    (hz : s.main.w / n = 0 ∨ s.main.h / n = 0) :
    step s (.setScale id palm n) = setPalm s id palm := by
  show setScaleCore (setPalm s id palm) id n = setPalm s id palm
  have hm : (setPalm s id palm).main = s.main := by unfold setPalm; split <;> rfl
  have hch : (setPalm s id palm).chain = s.chain := by unfold setPalm; split <;> rfl
  unfold setScaleCore
  split
  · rfl
  · simp only [hn, if_false, hm]
    unfold scalingSetup
    have h1 : isMain (setPalm s id palm) (s.main.w / n) (s.main.h / n) = false := by
      cases e : isMain (setPalm s id palm) (s.main.w / n) (s.main.h / n)
      · rfl
      · have := (isMain_iff _ _ _).mp e
        rw [hm] at this
        omega
    have h2 : (findChain (setPalm s id palm).chain (s.main.w / n) (s.main.h / n)).isSome = false := by
      cases e : (findChain (setPalm s id palm).chain (s.main.w / n) (s.main.h / n)).isSome
      · rfl
      · rw [hch] at e
        have := hi.shape.pos _ (findChain_some e)
        simp only at this
        omega
    simp only [h1, h2, Bool.or_false, Bool.false_eq_true, if_false, allocate, hz, if_true]

/-- **refcount_conservation** (and the shape of the chain) for every history -/
theorem refcount_conservation (f : Fmt) (fb : Img) (ops : List Op) :
    let s := run (init f fb) ops
    s.main.ref = users s.clients s.main.w s.main.h ∧
    (∀ p ∈ s.chain, p.ref = users s.clients p.w p.h) ∧
    (dimsOf s.chain).Nodup ∧ (s.main.w, s.main.h) ∉ dimsOf s.chain ∧
    (∀ c ∈ s.clients, (c.sw, c.sh) = (s.main.w, s.main.h) ∨ (c.sw, c.sh) ∈ dimsOf s.chain) := by
  have hi := inv_run (inv_init f fb) ops
  exact ⟨hi.refs.main, hi.refs.chain, hi.shape.distinct, hi.shape.notMain, hi.known⟩

/-- one step preserves the invariant from ANY state satisfying it (used by the induction) -/
theorem refcount_step (s : Srv) (hi : Inv s) (op : Op) : Inv (step s op) := inv_step hi op

/-- no scaled screen with a zero dimension exists, whatever the history -/
theorem no_zero_dimension_screen (f : Fmt) (fb : Img) (ops : List Op) :
    ∀ p ∈ (run (init f fb) ops).chain, 0 < p.w ∧ 0 < p.h := by
  intro p hp
  have hi := inv_run (inv_init f fb) ops
  exact hi.shape.pos (p.w, p.h) (List.mem_map.mpr ⟨p, hp, rfl⟩)

/-- **factor1_identity**: factor 1 puts the client back on the screen itself; for `from == to`
rfbScaledCorrection and rectSwapIfLEAndClip's correction are the identity -/
theorem factor1_identity (s : Srv) (id : Nat) (palm : Bool) (c : Client)
    (hc : s.clients.find? (·.id == id) = some c) (hW : 0 < s.main.w) (hH : 0 < s.main.h) :
    (∃ c', (step s (.setScale id palm 1)).clients.find? (·.id == id) = some c' ∧
      isMain s c'.sw c'.sh = true) ∧
    (∀ fw fh tw th r, corr true fw fh tw th r = r) := by
  constructor
  · obtain ⟨c', h1, h2, h3, _, _⟩ := told_reduced_size s id 1 palm c hc (by omega)
      (by rw [Nat.div_one]; exact hW) (by rw [Nat.div_one]; exact hH)
    refine ⟨c', h1, ?_⟩
    rw [h2, h3, Nat.div_one, Nat.div_one]
    simp [isMain]
  · intro fw fh tw th r; rfl

/-! ## rfbScaledCorrection -/

/-- **corrected_rect_inside**: a non-empty rectangle inside the `fw × fh` screen is corrected to a
non-empty rectangle inside the `tw × th` screen, for every outcome of the double arithmetic allowed
by `CorrRel` -/
theorem corrected_rect_inside (fw fh tw th x y w h : Nat) (rx ry : Nat × Nat)
    (hrx : CorrRel fw tw x w rx) (hry : CorrRel fh th y h ry)
    (htw : 0 < tw) (hth : 0 < th) (hw : 1 ≤ w) (hh : 1 ≤ h) (hxw : x + w ≤ fw) (hyh : y + h ≤ fh) :
    let cx := corrFix tw rx
    let cy := corrFix th ry
    1 ≤ cx.2 ∧ 1 ≤ cy.2 ∧ (cx.1 : Int) + cx.2 ≤ tw ∧ (cy.1 : Int) + cy.2 ≤ th := by
  have a := corrFix_inside hrx htw hw hxw
  have b := corrFix_inside hry hth hh hyh
  exact ⟨a.2.1, b.2.1, a.2.2, b.2.2⟩

/-- **corrected_rect_covers**: if source pixel `(sx, sy)` of the modified rectangle belongs to the
block of reduced pixel `(X, Y)`, then `(X, Y)` lies in the corrected rectangle -/
theorem corrected_rect_covers (fw fh tw th x y w h X Y sx sy : Nat) (rx ry : Nat × Nat)
    (hrx : CorrRel fw tw x w rx) (hry : CorrRel fh th y h ry)
    (htw : 0 < tw) (hth : 0 < th) (hX : X < tw) (hY : Y < th)
    (hx1 : x ≤ sx) (hx2 : sx < x + w) (hy1 : y ≤ sy) (hy2 : sy < y + h)
    (bx1 : scaleN X tw fw ≤ sx) (bx2 : sx < scaleN X tw fw + scaleN 1 tw fw)
    (by1 : scaleN Y th fh ≤ sy) (by2 : sy < scaleN Y th fh + scaleN 1 th fh) :
    let cx := corrFix tw rx
    let cy := corrFix th ry
    cx.1 ≤ X ∧ (X : Int) < cx.1 + cx.2 ∧ cy.1 ≤ Y ∧ (Y : Int) < cy.1 + cy.2 := by
  have a := corrFix_covers hrx htw hX hx1 hx2 bx1 bx2
  have b := corrFix_covers hry hth hY hy1 hy2 by1 by2
  exact ⟨a.1, a.2, b.1, b.2⟩

/-! ## the box filter -/

/-- **filter_reads_inside_source**: every source pixel read for reduced pixel `(X,Y)` lies inside the
`W × H` framebuffer, and so does every byte of it (`stride = paddedWidthInBytes ≥ W·bpp`).  No
hypothesis on the factor: holds for sizes not divisible by it, at the right / bottom edge too. -/
theorem filter_reads_inside_source (W H tw th stride bpp X Y i j : Nat)
    (htw : 0 < tw) (hth : 0 < th) (hX : X < tw) (hY : Y < th)
    (hi : i < scaleN 1 tw W) (hj : j < scaleN 1 th H) (hs : W * bpp ≤ stride) :
    scaleN X tw W + i < W ∧ scaleN Y th H + j < H ∧
    srcByteIndex W H tw th stride bpp X Y i j + bpp ≤ H * stride := by
  have bx := block_inside (W := W) htw hX
  have by' := block_inside (W := H) hth hY
  refine ⟨by omega, by omega, ?_⟩
  unfold srcByteIndex
  have h1 : (scaleN Y th H + j + 1) * stride ≤ H * stride := Nat.mul_le_mul_right stride (by omega)
  have h2 : (scaleN X tw W + i + 1) * bpp ≤ W * bpp := Nat.mul_le_mul_right bpp (by omega)
  rw [Nat.add_mul, Nat.one_mul] at h1 h2
  omega

/-- **filter_writes_inside_dest**: every byte written for a pixel of the corrected rectangle lies inside
the scaled framebuffer (`pstride ≥ tw·bpp`) -/
theorem filter_writes_inside_dest (tw th pstride bpp X Y : Nat)
    (hX : X < tw) (hY : Y < th) (hs : tw * bpp ≤ pstride) :
    dstByteIndex pstride bpp X Y + bpp ≤ th * pstride := by
  unfold dstByteIndex
  have h1 : (Y + 1) * pstride ≤ th * pstride := Nat.mul_le_mul_right pstride hY
  have h2 : (X + 1) * bpp ≤ tw * bpp := Nat.mul_le_mul_right bpp hX
  rw [Nat.add_mul, Nat.one_mul] at h1 h2
  omega

/-- the stride of a scaled screen (`pad4(width·bpp)`) is large enough -/
theorem pad4_ge (v : Nat) : v ≤ pad4 v := by
  unfold pad4; split <;> omega

/-- **filter_is_block_average**: rfbScaledScreenUpdateRect sets every pixel of the corrected rectangle
to the block average and leaves every other pixel alone; the average is, per channel,
`⌊Σ block / (areaX·areaY)⌋`, colour-mapped screens take the top-left pixel of the block -/
theorem filter_is_block_average (f : Fmt) (src dst : Img) (r : Rect) (X Y : Nat)
    (hX : X < dst.w) (hY : Y < dst.h) :
    let c := corr false src.w src.h dst.w dst.h r
    let a := scaleN 1 dst.w src.w
    let b := scaleN 1 dst.h src.h
    let ox := scaleN X dst.w src.w
    let oy := scaleN Y dst.h src.h
    ((c.has X Y = true → (updateRect f src dst r).get X Y = filterPixel f src a b ox oy) ∧
     (c.has X Y = false → (updateRect f src dst r).get X Y = dst.get X Y)) ∧
    (f.trueColour = true → filterPixel f src a b ox oy =
      ((((blockSum src f.rSh f.rMax a b ox oy / (a * b)) &&& f.rMax) <<< f.rSh) |||
       (((blockSum src f.gSh f.gMax a b ox oy / (a * b)) &&& f.gMax) <<< f.gSh) |||
       (((blockSum src f.bSh f.bMax a b ox oy / (a * b)) &&& f.bMax) <<< f.bSh)) % 2 ^ (8 * f.bpp)) ∧
    (f.trueColour = false → filterPixel f src a b ox oy = src.get ox oy) := by
  refine ⟨⟨?_, ?_⟩, ?_, ?_⟩
  · intro h; rw [updateRect_get f src dst r hX hY, h]; rfl
  · intro h; rw [updateRect_get f src dst r hX hY, h]; rfl
  · intro h; simp [filterPixel, h]
  · intro h; simp [filterPixel, h]

/-- the channel sum is a sum: a block of constant channel value `v` sums to `a·b·v` (so the
average is `v`) -/
theorem blockSum_const (src : Img) (sh mx a b ox oy v : Nat)
    (h : ∀ i j, i < a → j < b → (src.get (ox + i) (oy + j) >>> sh) &&& mx = v) :
    blockSum src sh mx a b ox oy = a * b * v := by
  unfold blockSum
  have inner : ∀ (i : Nat), i < a → ∀ (n : Nat) (acc : Nat), n ≤ b →
      (List.range n).foldl (fun acc j => acc + ((src.get (ox + i) (oy + j) >>> sh) &&& mx)) acc
        = acc + n * v := by
    intro i hi n
    induction n with
    | zero => intro acc _; simp
    | succ n ih =>
      intro acc hn
      rw [List.range_succ, List.foldl_append, ih acc (by omega)]
      simp only [List.foldl_cons, List.foldl_nil]
      rw [h i n hi (by omega), Nat.add_mul]; omega
  have outer : ∀ (n : Nat), n ≤ a →
      (List.range n).foldl (fun acc i =>
        (List.range b).foldl (fun acc j => acc + ((src.get (ox + i) (oy + j) >>> sh) &&& mx)) acc) 0
        = n * (b * v) := by
    intro n
    induction n with
    | zero => intro _; simp
    | succ n ih =>
      intro hn
      rw [List.range_succ, List.foldl_append, ih (by omega)]
      simp only [List.foldl_cons, List.foldl_nil]
      rw [inner n (by omega) b _ (Nat.le_refl b), Nat.add_mul]; omega
  rw [outer a (Nat.le_refl a), Nat.mul_assoc]

/-- for a factor dividing both dimensions the block of reduced pixel `(X,Y)` is the `n × n` block at
`(n·X, n·Y)` and the divisor is `n²` -/
theorem block_is_nxn_when_dividing (W H n X Y : Nat) (hn : 0 < n) (hW : 0 < W) (hH : 0 < H)
    (dW : n ∣ W) (dH : n ∣ H) :
    scaleN 1 (W / n) W = n ∧ scaleN 1 (H / n) H = n ∧
    scaleN X (W / n) W = n * X ∧ scaleN Y (H / n) H = n * Y := by
  have a := block_dividing (X := X) hn dW hW
  have b := block_dividing (X := Y) hn dH hH
  exact ⟨a.1, b.1, a.2, b.2⟩

/-- **scaled_copy_tracks**: the scaled copy stays the reference image across a modification: if it was
the reference image of `src`, `src'` differs from `src` only inside a rectangle, and that rectangle is
refreshed (rfbMarkRectAsModified → rfbScaledScreenUpdateRect), it is the reference image of `src'` -/
theorem scaled_copy_tracks (f : Fmt) (src src' dst : Img) (x y w h : Nat)
    (hdw : src'.w = src.w) (hdh : src'.h = src.h)
    (htw : 0 < dst.w) (hth : 0 < dst.h) (hlw : dst.w ≤ src.w) (hlh : dst.h ≤ src.h)
    (hsame : ∀ px py, px < src.w → py < src.h →
      ¬ (x ≤ px ∧ px < x + w ∧ y ≤ py ∧ py < y + h) → src'.get px py = src.get px py)
    (hinv : ∀ X Y, X < dst.w → Y < dst.h → dst.get X Y = (reference f src dst.w dst.h).get X Y)
    (hrx : CorrRel src.w dst.w x w (corrRaw src.w dst.w x w))
    (hry : CorrRel src.h dst.h y h (corrRaw src.h dst.h y h)) :
    ∀ X Y, X < dst.w → Y < dst.h →
      (updateRect f src' dst ⟨x, y, w, h⟩).get X Y = (reference f src' dst.w dst.h).get X Y := by
  intro X Y hX hY
  have hinv' : ∀ X Y, X < dst.w → Y < dst.h → dst.get X Y = scaledPixel f src dst.w dst.h X Y := by
    intro X Y hX hY
    rw [hinv X Y hX hY]; unfold reference; rw [Img.get_tabulate _ _ _ hX hY]
  rw [updateRect_tracks f src src' dst x y w h hdw hdh htw hth hlw hlh hsame hinv' hrx hry X Y hX hY]
  unfold reference; rw [Img.get_tabulate _ _ _ hX hY]

/-- a refresh of the whole screen (new scaled screen, or re-use of an unreferenced one) yields the
reference image whatever the copy contained -/
theorem scaled_copy_full_refresh (f : Fmt) (src dst : Img)
    (htw : 0 < dst.w) (hth : 0 < dst.h) (hlw : dst.w ≤ src.w) (hlh : dst.h ≤ src.h)
    (hrx : CorrRel src.w dst.w 0 src.w (corrRaw src.w dst.w 0 src.w))
    (hry : CorrRel src.h dst.h 0 src.h (corrRaw src.h dst.h 0 src.h)) :
    ∀ X Y, X < dst.w → Y < dst.h →
      (updateRect f src dst ⟨(0 : Nat), (0 : Nat), src.w, src.h⟩).get X Y
        = (reference f src dst.w dst.h).get X Y := by
  intro X Y hX hY
  rw [updateRect_full f src dst htw hth hlw hlh hrx hry X Y hX hY]
  unfold reference; rw [Img.get_tabulate _ _ _ hX hY]

/-! ## pointer -/

/-- **pointer_mapped_back**: position `x` of a client on the `tw`-wide scaled screen is delivered as
`ScaleX(scaled, screen, x) = x·W div tw`: a pixel inside the screen, namely the first column of the
block displayed at `x`; it overlaps the source interval `[x·W/tw, (x+1)·W/tw)` of that pixel -/
theorem pointer_mapped_back (W tw x : Nat) (htw : 0 < tw) (hle : tw ≤ W) (hx : x < tw) :
    let mx := scaleN x tw W
    mx < W ∧ mx * tw ≤ x * W ∧ x * W < (mx + 1) * tw ∧ mx * tw < (x + 1) * W := by
  have b := block_inside (W := W) htw hx
  have a := area_pos htw hle
  have l := scaleN_mul_le x tw W
  have u := lt_scaleN_succ_mul x tw W htw
  refine ⟨by omega, l, u, ?_⟩
  rw [Nat.add_mul, Nat.one_mul]; omega

/-! ## non-vacuity and kernel-checked samples -/

/-- **corrRaw_sound** (the arithmetic half of the IEEE argument, proved): for all sizes < 2¹⁶,
down-scaling, every non-empty rectangle inside the source screen, the software-float evaluation of
rfbScaledCorrection's double expressions satisfies `CorrRel`.  (Error analysis over ℚ in
`Scale/Ieee.lean`: each rounding has relative error ≤ 2⁻⁵³, total absolute error < 2⁻³⁰ < 1/from.)
What remains assumed is only that the C compiler/FPU evaluate the expressions as binary64
round-to-nearest-even, i.e. like `corrRaw` — checked against the C code on every run. -/
theorem corrRaw_sound : CorrRawSound := VncModel.Scale.corrRaw_sound

/-- kernel-evaluated instance (a test): all 1-D rectangles on all sizes up to 8 -/
theorem corrRaw_sound_small :
    ∀ fw ∈ List.range 9, ∀ tw ∈ List.range 9, ∀ x ∈ List.range 9, ∀ w ∈ List.range 9,
      0 < fw → 0 < tw → 1 ≤ w → x + w ≤ fw → CorrRel fw tw x w (corrRaw fw tw x w) := by
  decide +kernel

/-- `corrected_rect_inside` + `corrected_rect_covers` for the function the code computes
(`corr1`), no `CorrRel` hypothesis left: direction screen → scaled screen, sizes < 2¹⁶ -/
theorem corrected_rect_code (fw tw x w : Nat) (htw : 0 < tw) (hle : tw ≤ fw) (hfw : fw < 65536)
    (hw : 1 ≤ w) (hxw : x + w ≤ fw) :
    1 ≤ (corr1 fw tw x w).2 ∧ ((corr1 fw tw x w).1 : Int) + (corr1 fw tw x w).2 ≤ tw ∧
    ∀ X sx, X < tw → x ≤ sx → sx < x + w → scaleN X tw fw ≤ sx → sx < scaleN X tw fw + scaleN 1 tw fw →
      (corr1 fw tw x w).1 ≤ X ∧ (X : Int) < (corr1 fw tw x w).1 + (corr1 fw tw x w).2 := by
  have hrel := corrRaw_sound fw tw x w htw hle hfw hw hxw
  have a := corrFix_inside hrel htw hw hxw
  refine ⟨a.2.1, a.2.2, ?_⟩
  intro X sx hX h1 h2 h3 h4
  exact corrFix_covers hrel htw hX h1 h2 h3 h4

/-- rectSwapIfLEAndClip never lets a request leave the screen, whatever the client sends and
whatever the correction computes (explicit clipping, 16-bit wrap-arounds included) -/
theorem request_rect_inside_screen (same : Bool) (W H tw th : Nat) (r q : Rect)
    (h : clipReq same W H tw th r = some q) :
    0 ≤ q.x ∧ 0 ≤ q.y ∧ 0 ≤ q.w ∧ 0 ≤ q.h ∧ q.x + q.w ≤ W ∧ q.y + q.h ≤ H := by
  unfold clipReq at h
  simp only at h
  generalize corr same tw th W H r = c at h
  unfold u16 at h
  repeat' split at h
  all_goals first
    | (cases h; done)
    | (cases h; simp only; omega)

/-- **scaled_views_converge**: for EVERY history of joins, factor changes (both variants, any n,
including refused ones), leaves and framebuffer modifications inside marked rectangles, every scaled
screen that has at least one user equals the reference box-filtered image of the current
framebuffer — shared views stay correct when clients join, change factor or leave, and the copy
converges after every modification.  (Uses `corrRaw_sound`; screen sizes < 2¹⁶ as on the wire.) -/
theorem scaled_views_converge (f : Fmt) (fb : Img)
    (hW : fb.w < 65536) (hH : fb.h < 65536) (hPw : 0 < fb.w) (hPh : 0 < fb.h)
    (es : List Ev) (hv : ValidRun (init f fb) es) :
    let s := runEv (init f fb) es
    ∀ p ∈ s.chain, 0 < users s.clients p.w p.h → ∀ X Y, X < p.w → Y < p.h →
      p.img.get X Y = (reference s.fmt s.main.img p.w p.h).get X Y := by
  intro s p hp hu X Y hX hY
  have h := synced_run (inv_init f fb) (synced_init f fb) corrRaw_sound hW hH hPw hPh es hv
  have hr : 0 < p.ref := by rw [h.1.refs.chain p hp]; exact_mod_cast hu
  rw [h.2.ok p hp hr X Y hX hY]
  unfold reference; rw [Img.get_tabulate _ _ _ hX hY]

-- ValidRun is satisfiable by a non-trivial history: two clients on factor 2, a 1-pixel modification
-- at the bottom-right corner, one client leaves
example :
    ValidRun (init ⟨4, true, 255, 255, 255, 0, 8, 16⟩ (Img.tabulate 6 4 fun x y => x + y))
      [.op (.join 0 false), .op (.join 1 true), .op (.setScale 0 false 2), .op (.setScale 1 true 2),
       .draw 5 3 1 1 (Img.tabulate 6 4 fun x y => if x = 5 ∧ y = 3 then 77 else x + y),
       .op (.leave 0)] := by
  refine ⟨trivial, trivial, trivial, trivial, ⟨rfl, rfl, by decide, by decide, by decide, by decide, ?_⟩, trivial, trivial⟩
  intro px py hx hy hn
  have e : ∀ g : Nat → Nat → Nat, (Img.tabulate 6 4 g).get px py = g px py :=
    fun g => Img.get_tabulate 6 4 g hx hy
  show (Img.tabulate 6 4 _).get px py = (Img.tabulate 6 4 _).get px py
  rw [e, e]
  have : ¬ (px = 5 ∧ py = 3) := by omega
  simp [this]

example : corrRaw 98 49 97 1 = (48, 1) := by decide +kernel
-- request_rect_inside_screen: accepted request (scaled 10x6 of 20x12) and refused one (x beyond)
example : clipReq false 20 12 10 6 ⟨2, 1, 3, 2⟩ = some ⟨4, 2, 6, 4⟩ := by decide +kernel
example : clipReq false 20 12 10 6 ⟨65535, 0, 1, 1⟩ = none := by decide +kernel
-- corrected_rect_code on the 1-pixel right-edge column of a 100 wide screen at factor 3
example : corr1 100 33 99 1 = (32, 1) ∧ scaleN 32 33 100 = 96 ∧ scaleN 1 33 100 = 3 := by decide +kernel
example : corr1 100 33 99 1 = (32, 1) := by decide +kernel
example : CorrRel 11 3 6 1 (corrRaw 11 3 6 1) := by decide +kernel
-- corrected_rect_inside / corrected_rect_covers: hypotheses are satisfiable (11 wide, factor 3,
-- modification of source column 6, which belongs to the block [3,6]..: reduced pixel 1)
example : (1 : Nat) ≤ (corrFix 3 (corrRaw 11 3 6 1)).2 ∧ ((corrFix 3 (corrRaw 11 3 6 1)).1 : Int) + (corrFix 3 (corrRaw 11 3 6 1)).2 ≤ 3 := by
  decide +kernel
example : scaleN 1 3 11 = 3 ∧ scaleN 2 3 11 = 7 ∧ scaleN 2 3 11 + scaleN 1 3 11 ≤ 11 := by decide
-- told_reduced_size / refcount: a concrete history (two clients, both on factor 2, one leaves)
example :
    let s := run (init ⟨4, true, 255, 255, 255, 0, 8, 16⟩ (Img.tabulate 6 4 fun x y => x + y))
      [.join 0 false, .join 1 true, .setScale 0 false 2, .setScale 1 true 2, .leave 0, .setScale 1 false 7]
    s.main.ref = 0 ∧ (s.chain.map fun p => (p.w, p.h, p.ref)) = [(3, 2, 1)] ∧
    (s.clients.map fun c => (c.id, c.sw, c.sh, c.palm)) = [(1, 3, 2, true)] := by
  decide +kernel
-- filter: 2x2 average of a 32 bpp image
example :
    scaledPixel ⟨4, true, 255, 255, 255, 0, 8, 16⟩ (Img.tabulate 4 2 fun x y => 10 * x + y + 256 * (x + 1)) 2 1 1 0
      = ((20 + 30 + 21 + 31) / 4) + 256 * ((3 + 4 + 3 + 4) / 4) := by
  decide +kernel
-- pointer: 98 wide, factor 2 (the size on which the unfixed divide-first code returned 1)
example : scaleN 1 49 98 = 2 := by decide

end VncModel.Props.C17

/-! ## T1: the regenerated C leaf functions are the model's functions

The definitions `VncModel.Gen.Leaf.*` are translated from /repo's current C source by
`tools/c2lean.py` on every run; these theorems are the proof obligations that break when the C
functions change (see docs/T1.md). -/
namespace VncModel.Props.C17.T1

/-- `ScaleX` as compiled now = the model's `scaleN` -/
theorem code_ScaleX_eq_model (x fw tw : Nat) (hq : x * tw / fw < 2147483648) :
    VncModel.Gen.Leaf.ScaleX x false false false tw fw = (VncModel.Scale.scaleN x fw tw : Nat) :=
  VncModel.Leaf.ScaleX_eq x fw tw hq
/-- `ScaleY` as compiled now = the model's `scaleN` -/
theorem code_ScaleY_eq_model (y fh th : Nat) (hq : y * th / fh < 2147483648) :
    VncModel.Gen.Leaf.ScaleY y false false false th fh = (VncModel.Scale.scaleN y fh th : Nat) :=
  VncModel.Leaf.ScaleY_eq y fh th hq
/-- `pad4` as compiled now = the model's `pad4` -/
theorem code_pad4_eq_model (v : Nat) : VncModel.Gen.Leaf.pad4 v = (VncModel.Scale.pad4 v : Nat) :=
  VncModel.Leaf.pad4_eq v
end VncModel.Props.C17.T1
