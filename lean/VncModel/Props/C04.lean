import VncModel.Robust.Lemmas
import VncModel.Robust.Wait
import VncModel.Robust.UpdateBuf
/-!
# C04 — No client input can corrupt memory, crash, exhaust or wedge the server

A theorem cannot speak about C memory.  What is modelled (lean/VncModel/Robust/) and proven here is
every *guard and size computation* on the path of client-controlled input, and the blocking
structure; the tie to the code is the sanitizer-instrumented correspondence run
(harness/c04.c ⇄ Driver/C04.lean, virtual time, allocation recorder, witness client) and the T0
constants in `VncModel.Gen.C04`, regenerated from the tree on every run.

Quantifiers: every configuration, every connection state, every input byte list (so: every message
type byte 0..255, every length/count field value, every truncation point), every fuel, both peer
modes (gone / stopped reading).

* `alloc_bound_per_message`, `alloc_bound_no_file_transfer`, `stream_alloc_bound`: the allocation
  request a single `rfbProcessClientMessage` round makes is bounded by an explicit constant built
  from T0 values — 1 MiB when file transfer is not permitted (and the screen is smaller than that),
  INT_MAX+18 when it is (the UltraVNC file-transfer length has NO guard other than INT_MAX; the
  bound is what the wire format allows).  Per-message guards: `cut_text_*`, `text_chat_guard`,
  `desktop_size_alloc`, `file_transfer_*`, `scale_zero_refused`, `scale_alloc`, `pixel_format_table`.
* `request_rect_clipped`, `request_rect_accept_iff`: `rectSwapIfLEAndClip` (unscaled client).
* `translate_rejects_bad_bpp`, `accepted_format_channels_fit`: pixel formats that reach the table
  initialisers / encoders have shifts < bpp ≤ 32 (FIXED code, fixes/C04-pixfmt-validate.diff;
  `tree_has_pixfmt_check` breaks on a tree without the fix).
* `ublen_invariant_pseudo_rects`, `copy_region_ublen_invariant` (FIXED code,
  fixes/C04-copyregion-flush.diff; `tree_copy_region_flushes`), `copy_region_unchecked_overflows`
  (the unfixed arithmetic does overflow: 2048 rectangles).
* `one_wait_after_silence`, `read_returns_one_wait_after_silence`, `write_wait_bound`,
  `slow_trickle_bound`: blocking structure with virtual time.
* `rounds_bounded`, `fuel_suffices`: termination of the per-client message loop.
* `others_unaffected`: a step for client i does not touch client j's model state.

`_partial`: none of the statements is weakened; what is NOT proven (and only sampled by the run):
memory safety of all code outside these guards (encoders, region code, zlib, file-system calls),
the scaled-client variant of `request_rect_clipped` (floating point, C17), WebSocket/HTTP entry
(C09/C20), and that the C code is the model (tie = correspondence run).
-/
namespace VncModel.Props.C04
open VncModel.Robust VncModel.Gen.C04

/-! ## (1) allocation on behalf of one message -/

/-- **every** round of `rfbProcessClientMessage`, in every protocol phase, for every input: the
largest allocation request (both variants) is at most `msgMaxFt cfg`, and a round that goes on has
consumed at least one byte. -/
theorem alloc_bound_per_message (cfg : Cfg) (c : Conn) (inp : List UInt8) :
    (handle cfg c inp).alloc ≤ (handle cfg c inp).allocAlt ∧
    (handle cfg c inp).allocAlt ≤ msgMaxFt cfg ∧
    ((handle cfg c inp).out = .cont → (handle cfg c inp).rest.length < inp.length) :=
  handle_round cfg c inp

/-- without file-transfer permission the bound has no file-transfer term -/
theorem alloc_bound_no_file_transfer (cfg : Cfg) (c : Conn) (inp : List UInt8) (h : cfg.ft = false) :
    (handle cfg c inp).allocAlt ≤ msgMax cfg :=
  handle_round_noft cfg c inp h

/-- the bounds in numbers (T0 constants): 1 MiB or the framebuffer size; with file transfer
INT_MAX + 18 -/
theorem msgMax_value (cfg : Cfg) :
    msgMax cfg = max 1048576 (fbBytes cfg.w cfg.h cfg.bytespp) ∧
    msgMaxFt cfg = max (max 1048576 (fbBytes cfg.w cfg.h cfg.bytespp)) 2147483665 := by
  have h1 : cutMax = 1048576 := by decide
  have h2 : tableMax = 262145 := by decide
  have h3 : sdsMax = 4080 := by decide
  have h4 : tightMax = 65536 := by decide
  have h5 : rfbTextMaxSize = 4096 := by decide
  have h6 : sizeofScreenInfo ≤ 1048576 := by decide
  have h7 : ftMax = 2147483665 := by decide
  simp only [msgMaxFt, msgMax, scaleMax, h1, h2, h3, h4, h5, h7]
  omega

example : msgMax ⟨64, 48, 4, false, false, false, false, false, false, 20000, false⟩ = 1048576 := by decide

/-- a whole byte stream (any number of messages, any mode): the largest request is bounded by the
per-message bound -/
theorem stream_alloc_bound (cfg : Cfg) (m : Mode) (c : Conn) (inp : List UInt8) :
    (runSend cfg m c inp).2.amaxAlt ≤ msgMaxFt cfg := by
  have := run_alloc cfg m (msgMaxFt cfg) (fun c inp => (handle_round cfg c inp).2.1)
    (inp.length + 1) c inp {}
  simpa [runSend] using this

/-- ClientCutText (classic AND extended format): a length above the limit closes the client
before anything is allocated or read -/
theorem cut_text_guard (c : Conn) (ext view : Bool) (length : Nat) (rest : List UInt8)
    (h : length > cutTextMax) :
    (cutBody c ext length rest view).out = .closed ∧ (cutBody c ext length rest view).allocAlt = 0 := by
  simp [cutBody, h, mkClosed]

/-- … and a length within the limit allocates at most the limit (1 for length 0), whatever
follows -/
theorem cut_text_alloc (c : Conn) (inp : List UInt8) (view : Bool) :
    (hCutText c inp view).allocAlt ≤ max cutTextMax extClipMax :=
  (good_hCutText c inp view).2.1

example : (hCutText {} [0, 0, 0, 0, 0x10, 0, 0]).alloc = 1048576 := by decide   -- limit itself: accepted
example : (hCutText {} [0, 0, 0, 0, 0x10, 0, 1]).out = .closed := by decide    -- limit + 1: refused
/-- the negative (extended) length −(2^20+1) is refused as well -/
example : (hCutText { extClip := true } [0, 0, 0, 0xFF, 0xEF, 0xFF, 0xFF]).out = .closed := by decide

/-- TextChat: a handler that goes on either saw one of the three command lengths or
0 < length < rfbTextMaxSize; the allocation is below rfbTextMaxSize -/
theorem text_chat_guard (c : Conn) (p1 p2 p3 l3 l2 l1 l0 : UInt8) (rest : List UInt8)
    (h : (hTextChat c (p1 :: p2 :: p3 :: l3 :: l2 :: l1 :: l0 :: rest)).out = .cont) :
    let len := be32 l3 l2 l1 l0
    (len = rfbTextChatOpen ∨ len = rfbTextChatClose ∨ len = rfbTextChatFinished ∨
      (0 < len ∧ len < rfbTextMaxSize)) ∧
    (hTextChat c (p1 :: p2 :: p3 :: l3 :: l2 :: l1 :: l0 :: rest)).allocAlt < rfbTextMaxSize := by
  have hg := (good_hTextChat c (p1 :: p2 :: p3 :: l3 :: l2 :: l1 :: l0 :: rest)).2.1
  refine ⟨?_, by have : rfbTextMaxSize = 4096 := rfl; omega⟩
  simp only [hTextChat] at h
  split at h
  · rename_i hs; omega
  · split at h
    · rename_i hr; omega
    · simp [mkClosed] at h

example : (hTextChat {} [0, 0, 0, 0, 0, 0x10, 0]).out = .closed := by decide          -- 4096: refused
example : (hTextChat {} ([0, 0, 0, 0, 0, 0x0f, 0xff])).out = .starved := by decide    -- 4095: accepted, then reads

/-- SetDesktopSize: numberOfScreens · 16 ≤ 255 · 16 -/
theorem desktop_size_alloc (c : Conn) (inp : List UInt8) (hook : Bool) :
    (hSetDesktopSize c inp hook).allocAlt ≤ 255 * sz_rfbExtDesktopScreen :=
  (good_hSetDesktopSize c inp hook).2.1

/-- file transfer not permitted: the 12-byte header is read, the client is closed, the length
field is never used -/
theorem file_transfer_denied (cfg : Cfg) (c : Conn) (inp : List UInt8) (h : cfg.ft = false) :
    (hFileTransfer cfg c inp).allocAlt = 0 ∧ (hFileTransfer cfg c inp).out ≠ .cont :=
  ⟨(hFileTransfer_denied cfg c inp h).2.1, (hFileTransfer_denied cfg c inp h).2.2⟩

/-- file transfer permitted: the only guard is `length ≤ INT_MAX`; the request is `length + 1`
(`+ 18` for the realloc of the request branch) -/
theorem file_transfer_length_guard (length : Nat) (inp : List UInt8) :
    (length > intMax → ftReadBuffer length inp = .closed) ∧
    (hFileTransfer ⟨1, 1, 1, false, true, false, false, false, false, 0, false⟩ {} inp).allocAlt ≤ intMax + ftTimespecExtra := by
  refine ⟨fun h => by simp [ftReadBuffer, h], (good_hFileTransfer _ _ inp).2.1⟩

/-- scale factor 0 is refused before any division -/
theorem scale_zero_refused (cfg : Cfg) (c : Conn) (p1 p2 : UInt8) (rest : List UInt8) :
    (hSetScale cfg c (0 :: p1 :: p2 :: rest)).out = .closed :=
  hSetScale_zero cfg c p1 p2 rest

/-- a scale request allocates at most a copy of the framebuffer (or the screen record) -/
theorem scale_alloc (cfg : Cfg) (c : Conn) (inp : List UInt8) :
    (hSetScale cfg c inp).allocAlt ≤ max (fbBytes cfg.w cfg.h cfg.bytespp) sizeofScreenInfo :=
  (good_hSetScale cfg c inp).2.1

/-- the tree refuses scaled screens with a zero dimension (fixes/C04-scale-zero-width.diff) -/
theorem tree_scale_rejects_zero_width : scaleRejectsZeroWidth = true := by decide

/-- SetPixelFormat: the lookup tables are sized by the SERVER's format, never by client values -/
theorem pixel_format_table (cfg : Cfg) (c : Conn) (inp : List UInt8) :
    (hSetPixelFormat cfg c inp).allocAlt ≤ 65536 * 4 + 1 :=
  (good_hSetPixelFormat cfg c inp).2.1

/-! ## (2) FramebufferUpdateRequest rectangle -/

/-- `rectSwapIfLEAndClip` for an unscaled client, all 16-bit operands, any screen size: an accepted
rectangle lies inside the screen (and inside the requested one) -/
theorem request_rect_clipped (W H x y w h x' y' w' h' : Int) (hx : 0 ≤ x) (hy : 0 ≤ y)
    (hw : 0 ≤ w) (hh : 0 ≤ h) (hr : clipRequest W H x y w h = some (x', y', w', h')) :
    x' = x ∧ y' = y ∧ 0 ≤ w' ∧ 0 ≤ h' ∧ x' + w' ≤ W ∧ y' + h' ≤ H ∧ w' ≤ w ∧ h' ≤ h ∧ 0 ≤ x' ∧ 0 ≤ y' := by
  unfold clipRequest at hr
  cases h1 : clipAxis W x w with
  | none => simp [h1] at hr
  | some w1 =>
    cases h2 : clipAxis H y h with
    | none => simp [h1, h2] at hr
    | some h1' =>
      simp only [h1, h2, Option.some.injEq, Prod.mk.injEq] at hr
      obtain ⟨rfl, rfl, rfl, rfl⟩ := hr
      have a := clipAxis_some hw h1
      have b := clipAxis_some hh h2
      omega

/-- on a screen of at most 65535×65535 the request is ignored exactly when its origin lies beyond
the screen, otherwise the rectangle is cut at the edges (the "possible underflow" re-check is what
rejects `x > width`) -/
theorem request_rect_accept_iff (W H x y w h : Int) (hW : 0 ≤ W ∧ W < 65536) (hH : 0 ≤ H ∧ H < 65536)
    (hx : 0 ≤ x ∧ x < 65536) (hy : 0 ≤ y ∧ y < 65536) (hw : 0 ≤ w ∧ w < 65536) (hh : 0 ≤ h ∧ h < 65536) :
    clipRequest W H x y w h =
      if x > W ∨ y > H then none else some (x, y, min w (W - x), min h (H - y)) := by
  unfold clipRequest
  rw [clipAxis_16 hW hx hw, clipAxis_16 hH hy hh]
  by_cases h1 : x > W
  · simp [h1]
  · by_cases h2 : y > H
    · simp [h1, h2]
    · simp [h1, h2]

example : clipRequest 64 48 60 40 10 10 = some (60, 40, 4, 8) := by decide
example : clipRequest 64 48 65 0 1 1 = none := by decide          -- underflow re-check
example : clipRequest 64 48 64 48 65535 65535 = some (64, 48, 0, 0) := by decide

/-! ## (3) pixel formats -/

/-- only 8, 16, 24 and 32 bits per pixel get past `rfbSetTranslateFunction`; a colour-map client
must be 8 bpp -/
theorem translate_rejects_bad_bpp (srv f f' : PixFmt) (t : Nat) (w : Bool)
    (h : setTranslate srv f = .accepted f' t w) :
    (f.bpp = 8 ∨ f.bpp = 16 ∨ f.bpp = 24 ∨ f.bpp = 32) ∧ (f.tc = false → f.bpp = 8) := by
  unfold setTranslate at h
  split at h
  · rename_i hok
    simp only [formatOk, Bool.and_eq_true, validBpp, Bool.or_eq_true, beq_iff_eq] at hok
    refine ⟨by omega, fun htc => ?_⟩
    have := hok.1.2
    simp [htc] at this
    exact this
  · cases h

/-- every format the table initialisers and encoders get to see has each channel inside the
pixel: shift < bpp ≤ 32 and max·2^shift < 2^bpp (so no shift by ≥ 32, and tight's `24 - shift`
is not negative for depth-24/max-255 clients).  FIXED code. -/
theorem accepted_format_channels_fit (srv f f' : PixFmt) (t : Nat) (w : Bool)
    (h : setTranslate srv f = .accepted f' t w) :
    f'.bpp ≤ 32 ∧ f'.rs < f'.bpp ∧ f'.gs < f'.bpp ∧ f'.bs < f'.bpp ∧
    f'.rmax * 2 ^ f'.rs < 2 ^ f'.bpp ∧ f'.gmax * 2 ^ f'.gs < 2 ^ f'.bpp ∧ f'.bmax * 2 ^ f'.bs < 2 ^ f'.bpp := by
  unfold setTranslate at h
  split at h
  · rename_i hok
    simp only [XlateResult.accepted.injEq] at h
    obtain ⟨rfl, _, _⟩ := h
    have hb := effFormat_bpp hok
    unfold effFormat
    split
    · rename_i htc
      simp only [formatOk, htc, Bool.true_or, Bool.and_true, Bool.not_true, Bool.false_or,
        Bool.and_eq_true, channelFits, decide_eq_true_eq] at hok
      unfold effFormat at hb
      simp only [htc, if_true] at hb
      omega
    · simp only [bgr233Format]
      decide
  · cases h

/-- depth-24 / max-255 clients (tight's Pack24): shifts are at most 24 -/
theorem pack24_shifts (srv f f' : PixFmt) (t : Nat) (w : Bool)
    (h : setTranslate srv f = .accepted f' t w) (hm : f'.rmax = 255 ∧ f'.gmax = 255 ∧ f'.bmax = 255) :
    f'.rs ≤ 24 ∧ f'.gs ≤ 24 ∧ f'.bs ≤ 24 := by
  obtain ⟨hb, _, _, _, h1, h2, h3⟩ := accepted_format_channels_fit srv f f' t w h
  have key : ∀ s : Nat, 255 * 2 ^ s < 2 ^ f'.bpp → s ≤ 24 := by
    intro s hs
    by_cases hle : s ≤ 24
    · exact hle
    · exfalso
      have h25 : 2 ^ 25 ≤ 2 ^ s := Nat.pow_le_pow_right (by decide) (by omega)
      have h32 : 2 ^ f'.bpp ≤ 2 ^ 32 := Nat.pow_le_pow_right (by decide) hb
      have : (2 : Nat) ^ 25 = 33554432 := by decide
      have : (2 : Nat) ^ 32 = 4294967296 := by decide
      omega
  rw [hm.1] at h1; rw [hm.2.1] at h2; rw [hm.2.2] at h3
  exact ⟨key _ h1, key _ h2, key _ h3⟩

/-- the tree has the channel check (fixes/C04-pixfmt-validate.diff) -/
theorem tree_has_pixfmt_check : pixfmtChannelsChecked = true := by decide

example : setTranslate (serverFormat 4) ⟨32, 24, false, true, 255, 255, 255, 32, 8, 0⟩ = .rejected := by decide
example : setTranslate (serverFormat 4) ⟨32, 24, true, true, 255, 255, 255, 30, 8, 0⟩ = .rejected := by decide
example : setTranslate (serverFormat 4) ⟨32, 24, false, true, 255, 255, 255, 16, 8, 0⟩ =
    .accepted ⟨32, 24, false, true, 255, 255, 255, 16, 8, 0⟩ 3072 false := by decide

/-! ## (4) update buffer -/

/-- any sequence of flush-checked appends of pieces that fit the buffer keeps
`ublen ≤ UPDATE_BUF_SIZE` (pseudo-rectangle senders) -/
theorem ublen_invariant_pseudo_rects (pieces : List Nat) (ublen : Nat) (hu : ublen ≤ UPDATE_BUF_SIZE)
    (hp : ∀ n ∈ pieces, n ≤ UPDATE_BUF_SIZE) : appendAll ublen pieces ≤ UPDATE_BUF_SIZE :=
  appendAll_le pieces ublen hu hp

/-- the pseudo-rectangles of one update (LastRect, NewFBSize, cursor position, keyboard LED state:
one 12-byte header each; copy rectangles 16 bytes each) all fit -/
example : appendAll 4 [12, 12, 12, 12, 16, 16] ≤ UPDATE_BUF_SIZE := by decide

/-- `rfbSendCursorShape`: for every cursor size, client pixel size and encoding the shape (or the
empty cursor sent instead of one that is too large) leaves `ublen ≤ UPDATE_BUF_SIZE`; the estimate
is taken in the CLIENT's pixel size, which is what the image is written in -/
theorem cursor_shape_ublen_invariant (ublen w h cbpp : Nat) (rich : Bool) (hu : ublen ≤ UPDATE_BUF_SIZE) :
    cursorEmit ublen w h cbpp rich ≤ UPDATE_BUF_SIZE :=
  cursorEmit_le ublen w h cbpp rich hu

example : cursorEstimate 88 88 4 true ≤ UPDATE_BUF_SIZE ∧ cursorEstimate 89 89 4 true > UPDATE_BUF_SIZE := by decide
/-- the seeded variant (estimate with the server's 2 bytes, image written with the client's 4) overflows -/
example : cursorEstimate 124 124 2 true ≤ UPDATE_BUF_SIZE ∧ cursorWritten 124 124 4 true > UPDATE_BUF_SIZE := by decide

/-- `rfbSendCopyRegion` with the flush check: any number of rectangles, `ublen` stays in range -/
theorem copy_region_ublen_invariant (k ublen : Nat) (hu : ublen ≤ UPDATE_BUF_SIZE) :
    copyRegionChecked k ublen ≤ UPDATE_BUF_SIZE :=
  copyRegionChecked_le k ublen hu

/-- the tree's `rfbSendCopyRegion` flushes (fixes/C04-copyregion-flush.diff) -/
theorem tree_copy_region_flushes : copyRegionFlushes = true := by decide

/-- without the check the arithmetic overflows: an update header (4 bytes) and 2048 copy
rectangles write past `updateBuf` (§11-h; witness corpus/C04/copyregion-overflow.ops) -/
theorem copy_region_unchecked_overflows :
    copyRegionUnchecked 2048 sz_rfbFramebufferUpdateMsg > UPDATE_BUF_SIZE := by
  rw [copyRegionUnchecked_eq]; decide

/-! ## (5) blocking structure -/

/-- a byte stream against one connection: at most ONE read wait; if there is one the connection is
closed and exactly one client-wait of virtual time has passed; a write wait likewise ends with the
connection closed after `writeRounds` retry intervals, and excludes a read wait; in every case the
virtual time is at most max(wait, writeRounds·retry). -/
theorem one_wait_after_silence (cfg : Cfg) (m : Mode) (c : Conn) (inp : List UInt8) :
    let res := runSend cfg m c inp
    res.2.rw ≤ 1 ∧
    (res.2.rw = 1 → res.1.isClosed = true ∧ res.2.ww = 0 ∧ res.2.vt = clientWait cfg) ∧
    (res.2.ww ≠ 0 → res.1.isClosed = true ∧ res.2.ww = writeRounds cfg ∧ res.2.rw = 0 ∧
                     res.2.vt = writeRounds cfg * writeRetryMs) ∧
    res.2.vt ≤ max (clientWait cfg) (writeRounds cfg * writeRetryMs) := by
  have := run_waits cfg m (inp.length + 1) c inp {}
  simpa [runSend] using this

/-- `rfbReadExactTimeout`: once the peer is silent the call fails after exactly one timeout -/
theorem read_returns_one_wait_after_silence (timeout len el : Nat) (h : len > 0) :
    readExact timeout len [] el = (.timedOut, el + timeout) :=
  readExact_silence timeout len el h

/-- slow-trickle peers: one wait per arrival, plus one (this is the stated limit of the property:
proven is the bound for peers that stop or reset) -/
theorem slow_trickle_bound (timeout len : Nat) (evs : List PeerEv) (el : Nat) :
    (readExact timeout len evs el).2 ≤ el + (evs.length + 1) * timeout :=
  readExact_elapsed_le timeout len evs el

/-- `rfbWriteExact` against a peer that never drains: the retry loop runs `writeRounds` times, the
blocked time is at least the configured wait and less than one retry interval (5 s) more -/
theorem write_wait_bound (cfg : Cfg) :
    writeStuck (clientWait cfg) writeRetryMs (clientWait cfg) 0 = writeRounds cfg ∧
    clientWait cfg ≤ writeRounds cfg * writeRetryMs ∧
    writeRounds cfg * writeRetryMs < clientWait cfg + writeRetryMs :=
  ⟨writeStuck_is_writeRounds cfg, (writeRounds_bounds cfg).1, (writeRounds_bounds cfg).2⟩

example : writeRounds ⟨1, 1, 4, false, false, false, false, false, false, 7000, false⟩ = 2 := by decide
example : (runSend ⟨64, 48, 4, false, false, false, false, false, false, 20000, false⟩ {} { phase := .normal }
    [6, 0, 0, 0, 0, 0, 0, 5]).2.rw = 1 := by decide      -- cut text of 5 bytes, none sent: one wait

/-- `rfbReadExactTimeout`'s error arms: when `select` reports an error (EBADF, EINTR, …) or the
peer is gone, the read fails at once — no wait is spent; the handler closes the client as for a
timeout (`run` treats the round as starved) -/
theorem select_error_costs_no_wait (cfg : Cfg) (m : Mode) (hm : (m.eof || m.selErr) = true) (c : Conn)
    (inp : List UInt8) : (runSend cfg m c inp).2.rw = 0 := by
  have := run_no_wait cfg m hm (inp.length + 1) c inp {}
  simpa [runSend] using this

/-- slow-trickle peer at stream level (the formula the driver predicts and the harness measures):
a peer that delivers one byte every `d < wait` ms keeps the server busy for `d` per byte that is not
the first of its round, plus one full wait if it finally stops: in total less than one wait per
byte.  (`n` rounds, `rw ≤ 1` final waits, `len` bytes.) -/
theorem trickle_stream_bound (d wait len n rw : Nat) (hd : d ≤ wait) (hn : n ≤ len) (hrw : rw ≤ n) :
    d * (len - n) + rw * wait ≤ len * wait := by
  have h1 : d * (len - n) ≤ wait * (len - n) := Nat.mul_le_mul_right _ hd
  have h2 : rw * wait ≤ n * wait := Nat.mul_le_mul_right _ hrw
  have h3 : wait * (len - n) + n * wait = len * wait := by
    rw [Nat.mul_comm wait (len - n), ← Nat.add_mul]
    congr 1
    omega
  omega

/-! ## (6) termination of the message loop -/

/-- rounds ≤ bytes + 1 (the `+ 1` is the end-of-file round) -/
theorem rounds_bounded (cfg : Cfg) (m : Mode) (c : Conn) (inp : List UInt8) :
    (runSend cfg m c inp).2.n ≤ inp.length + 1 := by
  have := run_rounds cfg m (inp.length + 1) c inp {}
  simpa [runSend] using this

/-- the fuel of `runSend` is enough: one more unit of fuel gives the same result -/
theorem fuel_suffices (cfg : Cfg) (m : Mode) (c : Conn) (inp : List UInt8) :
    run cfg m (inp.length + 2) c inp {} = runSend cfg m c inp :=
  run_fuel cfg m (inp.length + 1) c inp {} (by omega)

/-! ## (7) other clients -/

/-- delivering any bytes to connection `i` leaves every other connection's state as it was -/
theorem others_unaffected (cfg : Cfg) (m : Mode) (s : AList Status) (i j : Nat) (bytes : List UInt8)
    (h : j ≠ i) : (deliver cfg m s i bytes).get j = s.get j := by
  unfold deliver
  split
  · exact AList.get_set_ne s i j _ h
  · rfl

example : ((deliver ⟨64, 48, 4, false, false, false, false, false, false, 20000, false⟩ {}
    [(0, .isOpen { phase := .normal }), (1, .isOpen { phase := .normal })] 1 [1, 0, 0, 0, 0, 0]).get 1).isSome = true := by
  decide

end VncModel.Props.C04
