import VncModel.Enc.HextileProofs
import VncModel.Enc.Containers
import VncModel.Enc.ChoiceTiles
import VncModel.Enc.PackLaw
import VncModel.Gen.C01
/-!
# C01 — Lossless encodings reproduce the server framebuffer pixel-exactly

Property theorems only; models and lemmas live in `VncModel/Enc/*`.

* **Specification side** (`Enc/Spec.lean`): decoders written from the RFB rules alone (Raw, RRE,
  CoRRE, Hextile, ZRLE/TRLE tiles, Zlib/ZRLE/Ultra containers, Tight).  A pixel is the natural
  number of its `bytespp` wire bytes; a rectangle is its row-major pixel list.
* **Reference encoders** (`Enc/Choice*.lean`): `encodeWith choices P` for RRE, CoRRE, Hextile and
  ZRLE tiles — theorems `decode_encodeWith_*` below hold for ALL choices, pixel arrays, geometries.
* **Faithful server models** (`Enc/Server.lean`, `Enc/UpdateBuf.lean`): `rfbSendRectEncodingRaw`
  with the `updateBuf` batching, `subrectEncode##bpp` of rre.c/corre.c/hextile.c (both candidate
  rectangles, tie-break, size test, in-place marking), `getBgColour`, `testColours`, the Hextile
  tile loop with `validBg/validFg`, raw-tile fallback and flag byte, `ZRLE_ENCODE_TILE` (run
  statistics, palette with its size-127 quirk, mode choice, RLE / packed / raw emission, CPIXEL).
  Every run the models are compared byte for byte with the real encoders (vlib/props/c01.py).
  Theorems `server_*_decodes`: what the model emits decodes, by the specification decoder, to
  exactly the input pixels — for every pixel array and geometry.
* zlib is a parameter (`ZLaw`: assumed law of a deflate/inflate stream pair in sync);
  `zlib_sequence_decodes` composes any number of rectangles/updates on one connection.

No theorem of this file is `_partial` any more (the bit packing of packed-palette rows, formerly
assumed as `PackLaw`, is proved in `Enc/PackProofs.lean` + `Enc/PackLaw.lean`).

NOT covered by any theorem (validated per run only, see `partial` in the evidence):
* Tight (all sub-encodings), TightPng, Ultra (LZO), and the lossy variants (Tight-JPEG, ZYWRLE)
  have NO encoder model: the real output of every run is decoded by an independent decoder and by
  the Lean Tight/Ultra container decoder and compared with the pre-encode snapshot.
* CoRRE/Zlib/Ultra rectangle *splitting* is modelled and compared per run; that the pieces tile the
  rectangle is checked per run, not proved.
* ZRLE's CPIXEL rule: the models use the rule of the code (`serverCPix`, no depth test); the RFC's
  rule is `Spec.PixFmt.cpix` (known finding `cpixel-depth`).
-/
namespace VncModel.Props.C01
open VncModel.Enc VncModel.Enc.Spec VncModel.Enc.Server

/-! ## constants of the C code the models hard-wire (regenerated from /repo on every run) -/

theorem consts_match_code :
    VncModel.Gen.C01.hextileTile = 16 ∧
    VncModel.Gen.C01.rfbZRLETileWidth = 64 ∧ VncModel.Gen.C01.rfbZRLETileHeight = 64 ∧
    VncModel.Gen.C01.ZRLE_PALETTE_MAX_SIZE = 127 ∧
    VncModel.Gen.C01.bitsPerPackedPixelTable = [0, 1, 2, 2, 4, 4, 4, 4, 4, 4, 4, 4, 4, 4, 4, 4] ∧
    VncModel.Gen.C01.TIGHT_MIN_TO_COMPRESS = tightMinToCompress ∧
    12 ≤ VncModel.Gen.C01.UPDATE_BUF_SIZE := by decide

theorem consts_match_code_sizes :
    VncModel.Gen.C01.sz_rfbFramebufferUpdateRectHeader = 12 ∧
    VncModel.Gen.C01.sz_rfbRectangle = 8 ∧ VncModel.Gen.C01.sz_rfbCoRRERectangle = 4 ∧
    VncModel.Gen.C01.sz_rfbRREHeader = 4 ∧ VncModel.Gen.C01.sz_rfbZlibHeader = 4 ∧
    VncModel.Gen.C01.sz_rfbZRLEHeader = 4 ∧
    VncModel.Gen.C01.rfbHextileRaw = 1 ∧ VncModel.Gen.C01.rfbHextileBackgroundSpecified = 2 ∧
    VncModel.Gen.C01.rfbHextileForegroundSpecified = 4 ∧ VncModel.Gen.C01.rfbHextileAnySubrects = 8 ∧
    VncModel.Gen.C01.rfbHextileSubrectsColoured = 16 ∧
    VncModel.Gen.C01.hextilePackXY_3_5 = 3 * 16 + 5 ∧ VncModel.Gen.C01.hextilePackWH_3_5 = 2 * 16 + 4 := by
  decide

theorem consts_match_code_encodings :
    VncModel.Gen.C01.rfbEncodingRaw = encRaw ∧ VncModel.Gen.C01.rfbEncodingRRE = encRRE ∧
    VncModel.Gen.C01.rfbEncodingCoRRE = encCoRRE ∧ VncModel.Gen.C01.rfbEncodingHextile = encHextile ∧
    VncModel.Gen.C01.rfbEncodingZlib = encZlib ∧ VncModel.Gen.C01.rfbEncodingTight = encTight ∧
    VncModel.Gen.C01.rfbEncodingUltra = encUltra ∧ VncModel.Gen.C01.rfbEncodingZRLE = encZRLE ∧
    VncModel.Gen.C01.rfbEncodingTightPng = encTightPng ∧
    VncModel.Gen.C01.rfbEncodingLastRect = encLastRect := by decide

/-! ## Raw and the `updateBuf` flush discipline -/

/-- Raw: the translated pixel bytes decode to the pixels. -/
theorem raw_decodes (g : Geometry) (bpp : Nat) (px : List Pixel) (rest : Bytes)
    (hlen : px.length = g.w * g.h) (hpx : ∀ p ∈ px, PixOK bpp p) :
    decodeRaw g bpp (pixelsBytes bpp px ++ rest) = some (px, rest) := by
  unfold decodeRaw; rw [← hlen]; exact readPixels_pixelsBytes bpp px rest hpx

/-- `flush_transparent`, Raw: model of `rfbSendRectEncodingRaw`'s line batching.  Whatever is pending
in `updateBuf`, the peer receives header ++ all lines in order; `ublen ≤ UPDATE_BUF_SIZE` throughout.
The hypothesis `bpl ≤ UPDATE_BUF_SIZE` is a real guard of the code (otherwise the client is closed). -/
theorem raw_flush_transparent (hdr : Bytes) (bpl : Nat) (rows : List Bytes) (u : UB)
    (hh : hdr.length = 12) (hb : 0 < bpl) (hbl : bpl ≤ UBS)
    (hrows : ∀ r ∈ rows, r.length = bpl) (hne : rows ≠ []) (hu : u.ublen ≤ UBS) :
    ∃ u', sendRaw hdr bpl rows u = some u' ∧ u'.stream = u.stream ++ hdr ++ rows.flatten ∧
      u'.ublen ≤ UBS :=
  sendRaw_spec hdr bpl rows u hh hb hbl hrows hne hu

/-- `flush_transparent`, the `afterEncBuf` copy loop of rre.c / corre.c / zlib.c / zrle.c / ultra.c:
the stream grows by exactly the data, wherever the buffer happens to fill up. -/
theorem copy_flush_transparent (data : Bytes) (u : UB) (hu : u.ublen ≤ UBS) :
    (copyLoop (data.length + 1) data u).stream = u.stream ++ data ∧
      (copyLoop (data.length + 1) data u).ublen ≤ UBS :=
  copyLoop_spec (data.length + 1) data u hu (by split <;> omega)

/-! ## faithful server models decode to the input -/

/-- RRE: whenever the model of `rfbSendRectEncodingRRE` emits RRE (it returns `none` exactly when the
code falls back to Raw, covered by `raw_decodes`), the payload decodes to the rectangle. -/
theorem server_rre_decodes (bpp : Nat) (g : Geometry) (px : List Pixel) (rest bytes : Bytes)
    (hb : 1 ≤ bpp) (hlen : px.length = g.w * g.h) (hpx : ∀ p ∈ px, PixOK bpp p)
    (hw : g.w < 65536) (hh : g.h < 65536) (hres : serverRRE bpp g px = some bytes) :
    decodeRRE g bpp (bytes ++ rest) = some (px, rest) :=
  serverRRE_decodes bpp g px rest bytes hb hlen hpx hw hh hres

/-- CoRRE (one piece of at most 255 × 255 after `rfbSendRectEncodingCoRRE`'s splitting). -/
theorem server_corre_decodes (bpp : Nat) (g : Geometry) (px : List Pixel) (rest bytes : Bytes)
    (hb : 1 ≤ bpp) (hlen : px.length = g.w * g.h) (hpx : ∀ p ∈ px, PixOK bpp p)
    (hw : g.w < 256) (hh : g.h < 256) (hres : serverCoRRE bpp g px = some bytes) :
    decodeCoRRE g bpp (bytes ++ rest) = some (px, rest) :=
  serverCoRRE_decodes bpp g px rest bytes hb hlen hpx hw hh hres

/-- the pieces `rfbSendRectEncodingCoRRE` produces are at most `correMaxWidth × correMaxHeight`, so
with the library's limits (≤ 255) `server_corre_decodes` applies to each of them -/
theorem corre_pieces_small (mw mh f x y w h : Nat) :
    ∀ r ∈ correSplit mw mh f x y w h, r.w ≤ mw ∧ r.h ≤ mh :=
  correSplit_small mw mh f x y w h

/-- the engine room of RRE/CoRRE/Hextile: `subrectEncode` of the C code, for every array, size,
background: painting what it emits over the background gives back the input; every sub-rectangle is
inside, non-empty, coloured with an input colour ≠ background; fewer than `w*h` of them when the
background occurs in the input; the reported length passed the size test. -/
theorem subrectEncode_correct (w h : Nat) (bg : Pixel) (ssz limit len0 : Nat) (d : Array Pixel)
    (hs : d.size = w * h) (rs : List Subrect) (len : Nat)
    (hres : subrectEncode w h bg ssz limit len0 d = some (rs, len)) :
    LoopPost w h bg (fun i => d.getD i 0) rs ∧ len = len0 + ssz * rs.length ∧
      (0 < rs.length → len ≤ limit) :=
  subrectEncode_spec w h bg ssz limit len0 d hs rs len hres

/-- Hextile: the model of `sendHextiles##bpp` (tile loop, `testColours`, background/foreground
persistence and invalidation, `AnySubrects`/`SubrectsColoured`, raw-tile fallback, one-byte
sub-rectangle count) always decodes to the rectangle. -/
theorem server_hextile_decodes (bpp : Nat) (g : Geometry) (px : List Pixel) (rest : Bytes)
    (hlen : px.length = g.w * g.h) (hpx : ∀ p ∈ px, PixOK bpp p) :
    decodeHextile g bpp (serverHextile bpp g px ++ rest) = some (px, rest) :=
  serverHextile_decodes bpp g px rest hlen hpx

/-- ZRLE tile data (what `zrleEncode…` hands to zlib): the model of `ZRLE_ENCODE_TILE` — run
statistics, palette (with the size-127 quirk), choice between raw / solid / packed palette / plain
RLE / palette RLE, CPIXEL writer — over all 64×64 tiles decodes to the rectangle. -/
theorem server_zrle_decodes (cp : CPix) (g : Geometry) (px : List Pixel)
    (rest : Bytes) (hlen : px.length = g.w * g.h) (hpx : ∀ p ∈ px, CPixOK cp p) :
    decodeZRLEData g cp (serverZRLEData cp g px ++ rest) = some (px, rest) :=
  serverZRLEData_decodes packLaw cp g px rest hlen hpx

/-- one ZRLE tile, every sub-encoding the model can choose -/
theorem server_zrle_tile_decodes (cp : CPix) (tw th : Nat) (px : List Pixel) (rest : Bytes)
    (hlen : px.length = tw * th) (hpos : 0 < tw * th) (hok : ∀ p ∈ px, CPixOK cp p) :
    decodeZRLETile cp tw th (zrleTile cp tw th px ++ rest) = some (px, rest) :=
  zrleTile_decodes packLaw cp tw th px rest hlen hpos hok

/-- bit packing of packed-palette rows (1, 2 or 4 bits per index, rows padded to bytes):
unpacking what `ZRLE_ENCODE_TILE`'s row loop packs gives back the indices -/
theorem packed_rows_roundtrip (b : Nat) (hb : b = 1 ∨ b = 2 ∨ b = 4) (idxs : List Nat) (s : Nat)
    (hx : ∀ x ∈ idxs, x < 2 ^ b) :
    unpackRow b idxs.length (packRow b idxs s 0) = idxs ∧
      (packRow b idxs s 0).length = (idxs.length * b + 7) / 8 :=
  ⟨unpackRow_packRow b hb idxs s hx, pack_length b hb idxs s⟩

/-- RLE sub-encodings for arbitrary (not only maximal) run lists -/
theorem zrle_rle_modes_decode (cp : CPix) (pal : List Pixel) (hpal : pal.length ≤ 127)
    (rl : List (Pixel × Nat)) (n : Nat) (t : Bytes)
    (h1 : ∀ r ∈ rl, 1 ≤ r.2 ∧ CPixOK cp r.1) (h2 : ∀ r ∈ rl, r.1 ∈ pal) (hn : (expand rl).length = n) :
    decodePlainRLE cp n n (zrleRleBytes cp false pal rl ++ t) = some (expand rl, t) ∧
    decodePaletteRLE pal n n (zrleRleBytes cp true pal rl ++ t) = some (expand rl, t) :=
  ⟨decodePlainRLE_runs cp pal rl n n t h1 hn (Nat.le_refl _),
   decodePaletteRLE_runs cp pal hpal rl n n t (fun r hr => ⟨(h1 r hr).1, h2 r hr⟩) hn (Nat.le_refl _)⟩

/-! ## zlib containers and sequences of updates on one connection -/

/-- Zlib encoding, one rectangle, given the zlib law. -/
theorem zlib_rect_decodes {σ τ : Type} (Z : ZLaw σ τ) (s : σ) (t : τ) (hs : Z.Sync s t)
    (g : Geometry) (bpp : Nat) (px : List Pixel) (rest : Bytes)
    (hlen : px.length = g.w * g.h) (hpx : ∀ p ∈ px, PixOK bpp p) :
    ∃ t', decodeZlib (fun z => (Z.inflate t z).map (·.1)) g bpp
        ((chunkPayload Z s (pixelsBytes bpp px)).1 ++ rest) = some (px, rest) ∧
      Z.Sync (chunkPayload Z s (pixelsBytes bpp px)).2 t' := by
  obtain ⟨t', h1, _, h3⟩ := zlibRect_decodes Z s t hs g bpp px rest hlen hpx
  exact ⟨t', h1, h3⟩

/-- ZRLE encoding, one rectangle, given the zlib law. -/
theorem zrle_rect_decodes {σ τ : Type} (Z : ZLaw σ τ) (s : σ) (t : τ)
    (hs : Z.Sync s t) (g : Geometry) (cp : CPix) (px : List Pixel) (rest : Bytes)
    (hlen : px.length = g.w * g.h) (hpx : ∀ p ∈ px, CPixOK cp p) :
    ∃ t', decodeZRLE (fun z => (Z.inflate t z).map (·.1)) g cp
        ((chunkPayload Z s (serverZRLEData cp g px)).1 ++ rest) = some (px, rest) ∧
      Z.Sync (chunkPayload Z s (serverZRLEData cp g px)).2 t' :=
  zrleRect_decodes packLaw Z s t hs g cp px rest hlen hpx

/-- histories: any number of Zlib rectangles over any number of updates on one connection —
compressor and decompressor state persist — decode in order. -/
theorem zlib_sequence_decodes {σ τ : Type} (Z : ZLaw σ τ) (bpp : Nat)
    (rects : List (Geometry × List Pixel)) (s : σ) (t : τ) (hs : Z.Sync s t)
    (h : ∀ r ∈ rects, r.2.length = r.1.w * r.1.h ∧ ∀ p ∈ r.2, PixOK bpp p) :
    clientZlibSeq Z bpp t ((rects.map (·.1)).zip (serverZlibSeq Z bpp s rects)) = some (rects.map (·.2)) :=
  zlibSeq_decodes Z bpp rects s t hs h

/-- a whole update: if each rectangle's payload decodes on its own, the concatenated stream (which
by the flush lemmas is what the peer receives) decodes rectangle by rectangle. -/
theorem update_decodes_rect_by_rect (dec : RectHdr → Dec (List Pixel))
    (rs : List (RectHdr × Bytes × List Pixel)) (rest : Bytes)
    (h : ∀ r ∈ rs, (r.1.x < 65536 ∧ r.1.y < 65536 ∧ r.1.w < 65536 ∧ r.1.h < 65536 ∧
        r.1.enc < 4294967296) ∧ ∀ t, dec r.1 (r.2.1 ++ t) = some (r.2.2, t)) :
    decodeRectSeq dec rs.length ((rs.flatMap fun r => rectHdrBytes r.1 ++ r.2.1) ++ rest) =
      some (rs.map (fun r => (r.1, r.2.2)), rest) :=
  decodeRectSeq_concat dec rs rest h

/-! ## reference encoders: `decode (encodeWith choices P) = P` for ALL choices -/

theorem decode_encodeWith_rre (c : RREChoice) (bpp : Nat) (g : Geometry) (px : List Pixel) (rest : Bytes)
    (hlen : px.length = g.w * g.h) (hpx : ∀ p ∈ px, PixOK bpp p)
    (hw : g.w < 65536) (hh : g.h < 65536) (hn : (c.final bpp g px).length < 4294967296) :
    decodeRRE g bpp (encodeWithRRE geom16 c bpp g px ++ rest) = some (px, rest) :=
  decode_encodeWithRRE c bpp g px rest hlen hpx hw hh hn

theorem decode_encodeWith_corre (c : RREChoice) (bpp : Nat) (g : Geometry) (px : List Pixel) (rest : Bytes)
    (hlen : px.length = g.w * g.h) (hpx : ∀ p ∈ px, PixOK bpp p)
    (hw : g.w < 256) (hh : g.h < 256) (hn : (c.final bpp g px).length < 4294967296) :
    decodeCoRRE g bpp (encodeWithRRE geom8 c bpp g px ++ rest) = some (px, rest) :=
  decode_encodeWithCoRRE c bpp g px rest hlen hpx hw hh hn

/-- and every valid RRE/CoRRE encoding of `P` is produced by some choice, unchanged -/
theorem encodeWith_rre_complete (gb : Nat × Nat × Nat × Nat → Bytes) (c : RREChoice) (bpp : Nat)
    (g : Geometry) (px : List Pixel) (hbg : c.bg < 256 ^ bpp)
    (hsane : ∀ r ∈ c.rs, r.x + r.w ≤ g.w ∧ r.y + r.h ≤ g.h ∧ r.c < 256 ^ bpp)
    (hpaint : ∀ i, i < g.w * g.h → (paintRects g.w g.h c.bg c.rs).getD i 0 = px.getD i 0) :
    encodeWithRRE gb c bpp g px = serializeRRE gb bpp c.bg c.rs :=
  encodeWithRRE_complete gb c bpp g px hbg hsane hpaint

theorem decode_encodeWith_hextile (cs : List HexChoice) (bpp : Nat) (g : Geometry) (px : List Pixel)
    (rest : Bytes) (hlen : px.length = g.w * g.h) (hpx : ∀ p ∈ px, PixOK bpp p) :
    decodeHextile g bpp (encodeWithHextile cs bpp g px ++ rest) = some (px, rest) :=
  decode_encodeWithHextile cs bpp g px rest hlen hpx

theorem decode_encodeWith_zrle_tile (cp : CPix) (tw th : Nat) (c : ZChoice) (px : List Pixel)
    (rest : Bytes) (hlen : px.length = tw * th) (hpx : ∀ p ∈ px, CPixOK cp p) :
    decodeZRLETile cp tw th (encodeZTile cp tw th c px ++ rest) = some (px, rest) :=
  encodeZTile_decodes cp tw th c px rest hlen hpx

theorem decode_encodeWith_zrle (cs : List ZChoice) (cp : CPix) (g : Geometry) (px : List Pixel)
    (rest : Bytes) (hlen : px.length = g.w * g.h) (hpx : ∀ p ∈ px, CPixOK cp p) :
    decodeZRLEData g cp (encodeWithZRLEData cs cp g px ++ rest) = some (px, rest) :=
  decode_encodeWithZRLEData cs cp g px rest hlen hpx

/-! ## non-vacuity: the hypotheses are met by concrete non-trivial values -/

/-- a 4×4 two-colour rectangle at 1 byte/pixel: the RRE model succeeds (so `hres` is satisfiable)
and its output is the expected one: nSubrects = 1, background 7, one sub-rectangle of colour 9 -/
example : serverRRE 1 ⟨4, 4⟩ [7, 9, 9, 7, 7, 7, 7, 7, 7, 7, 7, 7, 7, 7, 7, 7] =
    some [0, 0, 0, 1, 7, 9, 0, 1, 0, 0, 0, 2, 0, 1] := by decide +kernel

example : (∀ p ∈ [7, 9, 9, 7, 7, 7, 7, 7, 7, 7, 7, 7, 7, 7, 7, 7], PixOK 1 p) := by unfold PixOK; decide

/-- the raw fallback of RRE is reachable: six different pixels do not pay off -/
example : serverRRE 1 ⟨3, 2⟩ [1, 2, 3, 4, 5, 6] = none := by decide +kernel

/-- Hextile on a 2×2 tile with two colours: mono tile, background and foreground specified -/
example : serverHextile 1 ⟨2, 2⟩ [5, 5, 5, 6] = [2 + 8 + 4, 5, 6, 1, 0x11, 0x00] := by decide +kernel

/-- a ZRLE tile with three colours: packed palette, 2 bits per index, rows padded -/
example : zrleTile (.full 1) 3 2 [4, 5, 6, 4, 4, 5] = [3, 4, 5, 6, 0x18, 0x04] := by decide +kernel

/-- the zlib law is satisfiable (the identity "compressor") -/
example : ZLaw Unit Unit :=
  { deflate := fun _ x => (x.take 4294967295, ()), inflate := fun _ z => some (z, ()),
    Sync := fun _ _ => False, law := by intro _ _ _ h; exact absurd h id,
    small := by intro _ x; simp [List.length_take]; omega }

end VncModel.Props.C01
