import VncModel.Enc.HextileProofs
import VncModel.Enc.Containers
import VncModel.Enc.ChoiceTiles
import VncModel.Enc.PackLaw
import VncModel.Enc.SplitProofs
import VncModel.Enc.HextileBuf
import VncModel.Enc.Pack24
import VncModel.Enc.TightSearch
import VncModel.Enc.Session
import VncModel.Gen.C01
/-!
# C01 — Lossless encodings reproduce the server framebuffer pixel-exactly

Property theorems only; models and lemmas live in `VncModel/Enc/*`.

* **Specification side** (`Enc/Spec.lean`): decoders written from the RFB rules alone (Raw, RRE,
  CoRRE, Hextile, ZRLE/TRLE tiles, Zlib/ZRLE/Ultra containers, Tight).  A pixel is the natural
  number of its `bytespp` wire bytes; a rectangle is its row-major pixel list.
* **Reference encoders** (`Enc/Choice*.lean`): `encodeWith choices P` for RRE, CoRRE, Hextile and
  ZRLE tiles — theorems `decode_encodeWith_*` below hold for ALL choices, pixel arrays, geometries.
* **Faithful server models** (`Enc/Server.lean`, `Enc/UpdateBuf.lean`): `rfbSendRectEncodingRaw`
  with the `updateBuf` batching, `subrectEncode##bpp` of rre.c/corre.c/hextile.c (both candidate
  rectangles, tie-break, size test, in-place marking), `getBgColour`, `testColours`, the Hextile
  tile loop with `validBg/validFg`, raw-tile fallback and flag byte, `ZRLE_ENCODE_TILE` (run
  statistics, palette with its size-127 quirk, mode choice, RLE / packed / raw emission, CPIXEL).
  Every run the models are compared byte for byte with the real encoders (vlib/props/c01.py).
  Theorems `server_*_decodes`: what the model emits decodes, by the specification decoder, to
  exactly the input pixels — for every pixel array and geometry.
* zlib is a parameter (`ZLaw`: assumed law of a deflate/inflate stream pair in sync);
  `zlib_sequence_decodes` composes any number of rectangles/updates on one connection.

No theorem of this file is `_partial` any more (the bit packing of packed-palette rows, formerly
assumed as `PackLaw`, is proved in `Enc/PackProofs.lean` + `Enc/PackLaw.lean`).

Tight without JPEG (`Enc/Tight.lean`, `TightProofs`, `TightDecode`, `Pack24`, `TightSplit`,
`TightSearch`): faithful model of `SendSubrect` (`FillPalette`/`PaletteInsert`, solid / mono / indexed /
full colour, `Pack24`, `CompressData` with the < 12 bytes rule and the level-0 "no zlib" control value,
compact length, stream ids), of `SendRectSimple`, and of the solid-area search; theorems
`server_tight_subrect_decodes`, `tpixel_law_plain`, `tpixel_law_pack24`, `tight_simple_split_tiles`,
`tight_plan_tiles`, `tight_plan_fills_are_solid`, `tight_fill_piece_decodes`.

NOT covered by any theorem (validated per run only, see `partial` in the evidence):
* TightPng's PNG rectangles, Tight-JPEG, ZYWRLE, and the LZO / zlib / JPEG / PNG codecs themselves
  (parameters with explicit laws `ZLaw`, `LzoLaw`).
* The faithful solid-area search (`tightRect`) is compared with the wire on every run; it is not
  proved to be an instance of `planPieces` — instead `tight_plan_tiles` / `tight_plan_fills_are_solid`
  hold for EVERY outcome such a search can have.
* ZRLE's CPIXEL rule: the models use the rule of the code (`serverCPix`, no depth test); the RFC's
  rule is `Spec.PixFmt.cpix` (known finding `cpixel-depth`).
-/
namespace VncModel.Props.C01
open VncModel.Enc VncModel.Enc.Spec VncModel.Enc.Server

/-! ## constants of the C code the models hard-wire (regenerated from /repo on every run) -/

theorem consts_match_code :
    VncModel.Gen.C01.hextileTile = 16 ∧
    VncModel.Gen.C01.rfbZRLETileWidth = 64 ∧ VncModel.Gen.C01.rfbZRLETileHeight = 64 ∧
    VncModel.Gen.C01.ZRLE_PALETTE_MAX_SIZE = 127 ∧
    VncModel.Gen.C01.bitsPerPackedPixelTable = [0, 1, 2, 2, 4, 4, 4, 4, 4, 4, 4, 4, 4, 4, 4, 4] ∧
    VncModel.Gen.C01.TIGHT_MIN_TO_COMPRESS = tightMinToCompress ∧
    12 ≤ VncModel.Gen.C01.UPDATE_BUF_SIZE := by decide

theorem consts_match_code_sizes :
    VncModel.Gen.C01.sz_rfbFramebufferUpdateRectHeader = 12 ∧
    VncModel.Gen.C01.sz_rfbRectangle = 8 ∧ VncModel.Gen.C01.sz_rfbCoRRERectangle = 4 ∧
    VncModel.Gen.C01.sz_rfbRREHeader = 4 ∧ VncModel.Gen.C01.sz_rfbZlibHeader = 4 ∧
    VncModel.Gen.C01.sz_rfbZRLEHeader = 4 ∧
    VncModel.Gen.C01.rfbHextileRaw = 1 ∧ VncModel.Gen.C01.rfbHextileBackgroundSpecified = 2 ∧
    VncModel.Gen.C01.rfbHextileForegroundSpecified = 4 ∧ VncModel.Gen.C01.rfbHextileAnySubrects = 8 ∧
    VncModel.Gen.C01.rfbHextileSubrectsColoured = 16 ∧
    VncModel.Gen.C01.hextilePackXY_3_5 = 3 * 16 + 5 ∧ VncModel.Gen.C01.hextilePackWH_3_5 = 2 * 16 + 4 := by
  decide

theorem consts_match_code_encodings :
    VncModel.Gen.C01.rfbEncodingRaw = encRaw ∧ VncModel.Gen.C01.rfbEncodingRRE = encRRE ∧
    VncModel.Gen.C01.rfbEncodingCoRRE = encCoRRE ∧ VncModel.Gen.C01.rfbEncodingHextile = encHextile ∧
    VncModel.Gen.C01.rfbEncodingZlib = encZlib ∧ VncModel.Gen.C01.rfbEncodingTight = encTight ∧
    VncModel.Gen.C01.rfbEncodingUltra = encUltra ∧ VncModel.Gen.C01.rfbEncodingZRLE = encZRLE ∧
    VncModel.Gen.C01.rfbEncodingTightPng = encTightPng ∧
    VncModel.Gen.C01.rfbEncodingLastRect = encLastRect := by decide

theorem consts_match_code_tight :
    VncModel.Gen.C01.TIGHT_MAX_RECT_SIZE = tightMaxSize ∧ VncModel.Gen.C01.TIGHT_MAX_RECT_WIDTH = tightMaxW ∧
    VncModel.Gen.C01.MIN_SPLIT_RECT_SIZE = 4096 ∧ VncModel.Gen.C01.MIN_SOLID_SUBRECT_SIZE = 2048 ∧
    VncModel.Gen.C01.MAX_SPLIT_TILE_SIZE = 16 ∧
    VncModel.Gen.C01.tightConfRows = [[6, 0, 0, 0, 4, 24], [32, 1, 1, 1, 96, 24]] ∧
    tightConfOf true = ⟨6, 0, 0, 0, 4⟩ ∧ tightConfOf false = ⟨32, 1, 1, 1, 96⟩ ∧
    VncModel.Gen.C01.rfbTightFill = 8 ∧ VncModel.Gen.C01.rfbTightNoZlib = 10 ∧
    VncModel.Gen.C01.rfbTightExplicitFilter = 4 ∧ VncModel.Gen.C01.rfbTightFilterPalette = 1 := by decide

/-! ## Raw and the `updateBuf` flush discipline -/

/-- Raw: the translated pixel bytes decode to the pixels. -/
theorem raw_decodes (g : Geometry) (bpp : Nat) (px : List Pixel) (rest : Bytes)
    (hlen : px.length = g.w * g.h) (hpx : ∀ p ∈ px, PixOK bpp p) :
    decodeRaw g bpp (pixelsBytes bpp px ++ rest) = some (px, rest) := by
  unfold decodeRaw; rw [← hlen]; exact readPixels_pixelsBytes bpp px rest hpx

/-- `flush_transparent`, Raw: model of `rfbSendRectEncodingRaw`'s line batching.  Whatever is pending
in `updateBuf`, the peer receives header ++ all lines in order; `ublen ≤ UPDATE_BUF_SIZE` throughout.
The hypothesis `bpl ≤ UPDATE_BUF_SIZE` is a real guard of the code (otherwise the client is closed). -/
theorem raw_flush_transparent (hdr : Bytes) (bpl : Nat) (rows : List Bytes) (u : UB)
    (hh : hdr.length = 12) (hb : 0 < bpl) (hbl : bpl ≤ UBS)
    (hrows : ∀ r ∈ rows, r.length = bpl) (hne : rows ≠ []) (hu : u.ublen ≤ UBS) :
    ∃ u', sendRaw hdr bpl rows u = some u' ∧ u'.stream = u.stream ++ hdr ++ rows.flatten ∧
      u'.ublen ≤ UBS :=
  sendRaw_spec hdr bpl rows u hh hb hbl hrows hne hu

/-- `flush_transparent`, the `afterEncBuf` copy loop of rre.c / corre.c / zlib.c / zrle.c / ultra.c:
the stream grows by exactly the data, wherever the buffer happens to fill up. -/
theorem copy_flush_transparent (data : Bytes) (u : UB) (hu : u.ublen ≤ UBS) :
    (copyLoop (data.length + 1) data u).stream = u.stream ++ data ∧
      (copyLoop (data.length + 1) data u).ublen ≤ UBS :=
  copyLoop_spec (data.length + 1) data u hu (by split <;> omega)

/-! ## faithful server models decode to the input -/

/-- RRE: whenever the model of `rfbSendRectEncodingRRE` emits RRE (it returns `none` exactly when the
code falls back to Raw, covered by `raw_decodes`), the payload decodes to the rectangle. -/
theorem server_rre_decodes (bpp : Nat) (g : Geometry) (px : List Pixel) (rest bytes : Bytes)
    (hb : 1 ≤ bpp) (hlen : px.length = g.w * g.h) (hpx : ∀ p ∈ px, PixOK bpp p)
    (hw : g.w < 65536) (hh : g.h < 65536) (hres : serverRRE bpp g px = some bytes) :
    decodeRRE g bpp (bytes ++ rest) = some (px, rest) :=
  serverRRE_decodes bpp g px rest bytes hb hlen hpx hw hh hres

/-- CoRRE (one piece of at most 255 × 255 after `rfbSendRectEncodingCoRRE`'s splitting). -/
theorem server_corre_decodes (bpp : Nat) (g : Geometry) (px : List Pixel) (rest bytes : Bytes)
    (hb : 1 ≤ bpp) (hlen : px.length = g.w * g.h) (hpx : ∀ p ∈ px, PixOK bpp p)
    (hw : g.w < 256) (hh : g.h < 256) (hres : serverCoRRE bpp g px = some bytes) :
    decodeCoRRE g bpp (bytes ++ rest) = some (px, rest) :=
  serverCoRRE_decodes bpp g px rest bytes hb hlen hpx hw hh hres

/-- the pieces `rfbSendRectEncodingCoRRE` produces are at most `correMaxWidth × correMaxHeight`, so
with the library's limits (≤ 255) `server_corre_decodes` applies to each of them -/
theorem corre_pieces_small (mw mh f x y w h : Nat) :
    ∀ r ∈ correSplit mw mh f x y w h, r.w ≤ mw ∧ r.h ≤ mh :=
  correSplit_small mw mh f x y w h

/-- the engine room of RRE/CoRRE/Hextile: `subrectEncode` of the C code, for every array, size,
background: painting what it emits over the background gives back the input; every sub-rectangle is
inside, non-empty, coloured with an input colour ≠ background; fewer than `w*h` of them when the
background occurs in the input; the reported length passed the size test. -/
theorem subrectEncode_correct (w h : Nat) (bg : Pixel) (ssz limit len0 : Nat) (d : Array Pixel)
    (hs : d.size = w * h) (rs : List Subrect) (len : Nat)
    (hres : subrectEncode w h bg ssz limit len0 d = some (rs, len)) :
    LoopPost w h bg (fun i => d.getD i 0) rs ∧ len = len0 + ssz * rs.length ∧
      (0 < rs.length → len ≤ limit) :=
  subrectEncode_spec w h bg ssz limit len0 d hs rs len hres

/-- Hextile: the model of `sendHextiles##bpp` (tile loop, `testColours`, background/foreground
persistence and invalidation, `AnySubrects`/`SubrectsColoured`, raw-tile fallback, one-byte
sub-rectangle count) always decodes to the rectangle. -/
theorem server_hextile_decodes (bpp : Nat) (g : Geometry) (px : List Pixel) (rest : Bytes)
    (hlen : px.length = g.w * g.h) (hpx : ∀ p ∈ px, PixOK bpp p) :
    decodeHextile g bpp (serverHextile bpp g px ++ rest) = some (px, rest) :=
  serverHextile_decodes bpp g px rest hlen hpx

/-- ZRLE tile data (what `zrleEncode…` hands to zlib): the model of `ZRLE_ENCODE_TILE` — run
statistics, palette (with the size-127 quirk), choice between raw / solid / packed palette / plain
RLE / palette RLE, CPIXEL writer — over all 64×64 tiles decodes to the rectangle. -/
theorem server_zrle_decodes (cp : CPix) (g : Geometry) (px : List Pixel)
    (rest : Bytes) (hlen : px.length = g.w * g.h) (hpx : ∀ p ∈ px, CPixOK cp p) :
    decodeZRLEData g cp (serverZRLEData cp g px ++ rest) = some (px, rest) :=
  serverZRLEData_decodes packLaw cp g px rest hlen hpx

/-- one ZRLE tile, every sub-encoding the model can choose -/
theorem server_zrle_tile_decodes (cp : CPix) (tw th : Nat) (px : List Pixel) (rest : Bytes)
    (hlen : px.length = tw * th) (hpos : 0 < tw * th) (hok : ∀ p ∈ px, CPixOK cp p) :
    decodeZRLETile cp tw th (zrleTile cp tw th px ++ rest) = some (px, rest) :=
  zrleTile_decodes packLaw cp tw th px rest hlen hpos hok

/-- bit packing of packed-palette rows (1, 2 or 4 bits per index, rows padded to bytes):
unpacking what `ZRLE_ENCODE_TILE`'s row loop packs gives back the indices -/
theorem packed_rows_roundtrip (b : Nat) (hb : b = 1 ∨ b = 2 ∨ b = 4) (idxs : List Nat) (s : Nat)
    (hx : ∀ x ∈ idxs, x < 2 ^ b) :
    unpackRow b idxs.length (packRow b idxs s 0) = idxs ∧
      (packRow b idxs s 0).length = (idxs.length * b + 7) / 8 :=
  ⟨unpackRow_packRow b hb idxs s hx, pack_length b hb idxs s⟩

/-- RLE sub-encodings for arbitrary (not only maximal) run lists -/
theorem zrle_rle_modes_decode (cp : CPix) (pal : List Pixel) (hpal : pal.length ≤ 127)
    (rl : List (Pixel × Nat)) (n : Nat) (t : Bytes)
    (h1 : ∀ r ∈ rl, 1 ≤ r.2 ∧ CPixOK cp r.1) (h2 : ∀ r ∈ rl, r.1 ∈ pal) (hn : (expand rl).length = n) :
    decodePlainRLE cp n n (zrleRleBytes cp false pal rl ++ t) = some (expand rl, t) ∧
    decodePaletteRLE pal n n (zrleRleBytes cp true pal rl ++ t) = some (expand rl, t) :=
  ⟨decodePlainRLE_runs cp pal rl n n t h1 hn (Nat.le_refl _),
   decodePaletteRLE_runs cp pal hpal rl n n t (fun r hr => ⟨(h1 r hr).1, h2 r hr⟩) hn (Nat.le_refl _)⟩

/-! ## zlib containers and sequences of updates on one connection -/

/-- Zlib encoding, one rectangle, given the zlib law. -/
theorem zlib_rect_decodes {σ τ : Type} (Z : ZLaw σ τ) (s : σ) (t : τ) (hs : Z.Sync s t)
    (g : Geometry) (bpp : Nat) (px : List Pixel) (rest : Bytes)
    (hlen : px.length = g.w * g.h) (hpx : ∀ p ∈ px, PixOK bpp p) :
    ∃ t', decodeZlib (fun z => (Z.inflate t z).map (·.1)) g bpp
        ((chunkPayload Z s (pixelsBytes bpp px)).1 ++ rest) = some (px, rest) ∧
      Z.Sync (chunkPayload Z s (pixelsBytes bpp px)).2 t' := by
  obtain ⟨t', h1, _, h3⟩ := zlibRect_decodes Z s t hs g bpp px rest hlen hpx
  exact ⟨t', h1, h3⟩

/-- ZRLE encoding, one rectangle, given the zlib law. -/
theorem zrle_rect_decodes {σ τ : Type} (Z : ZLaw σ τ) (s : σ) (t : τ)
    (hs : Z.Sync s t) (g : Geometry) (cp : CPix) (px : List Pixel) (rest : Bytes)
    (hlen : px.length = g.w * g.h) (hpx : ∀ p ∈ px, CPixOK cp p) :
    ∃ t', decodeZRLE (fun z => (Z.inflate t z).map (·.1)) g cp
        ((chunkPayload Z s (serverZRLEData cp g px)).1 ++ rest) = some (px, rest) ∧
      Z.Sync (chunkPayload Z s (serverZRLEData cp g px)).2 t' :=
  zrleRect_decodes packLaw Z s t hs g cp px rest hlen hpx

/-- histories: any number of Zlib rectangles over any number of updates on one connection —
compressor and decompressor state persist — decode in order. -/
theorem zlib_sequence_decodes {σ τ : Type} (Z : ZLaw σ τ) (bpp : Nat)
    (rects : List (Geometry × List Pixel)) (s : σ) (t : τ) (hs : Z.Sync s t)
    (h : ∀ r ∈ rects, r.2.length = r.1.w * r.1.h ∧ ∀ p ∈ r.2, PixOK bpp p) :
    clientZlibSeq Z bpp t ((rects.map (·.1)).zip (serverZlibSeq Z bpp s rects)) = some (rects.map (·.2)) :=
  zlibSeq_decodes Z bpp rects s t hs h

/-- the decoder keeps ONE inflate state per stream for the whole connection (Zlib 1, ZRLE 1, Tight 4):
for every interleaving of chunks on the streams it recovers every chunk — its state for a stream is
determined by all bytes sent on that stream so far, so an encoder may never restart a stream on its own -/
theorem streams_persist_for_connection {σ τ : Type} (Z : ZLaw σ τ) (evs : List (Nat × Bytes))
    (ss : Nat → σ) (ts : Nat → τ) (h : ∀ i, Z.Sync (ss i) (ts i)) :
    cliRun Z ts (srvRun Z ss evs) = some (evs.map (·.2)) :=
  streams_persist Z evs ss ts h

/-- model of the Zlib encoder's connection state (`compStreamInited`, `compStream`,
`zlibCompressLevel`: SetEncodings only stores the level, the stream is created lazily once): for EVERY
sequence of SetEncodings (any levels, other encodings in between) and rectangles, one persistent
decoder stream decodes every Zlib rectangle -/
theorem zlib_session_persistent_stream {σ τ : Type} (Z : ZInit σ τ) (bpp : Nat) (evs : List ZlibEv) (lvl0 : Nat)
    (h : ∀ r ∈ rectsOf evs, r.2.length = r.1.w * r.1.h ∧ ∀ p ∈ r.2, PixOK bpp p) :
    clientZlibSeq Z.toZLaw bpp Z.tinit (zlibSession Z bpp ⟨none, lvl0⟩ evs) = some ((rectsOf evs).map (·.2)) :=
  zlib_session_decodes Z bpp evs lvl0 h

/-- a whole update: if each rectangle's payload decodes on its own, the concatenated stream (which
by the flush lemmas is what the peer receives) decodes rectangle by rectangle. -/
theorem update_decodes_rect_by_rect (dec : RectHdr → Dec (List Pixel))
    (rs : List (RectHdr × Bytes × List Pixel)) (rest : Bytes)
    (h : ∀ r ∈ rs, (r.1.x < 65536 ∧ r.1.y < 65536 ∧ r.1.w < 65536 ∧ r.1.h < 65536 ∧
        r.1.enc < 4294967296) ∧ ∀ t, dec r.1 (r.2.1 ++ t) = some (r.2.2, t)) :
    decodeRectSeq dec rs.length ((rs.flatMap fun r => rectHdrBytes r.1 ++ r.2.1) ++ rest) =
      some (rs.map (fun r => (r.1, r.2.2)), rest) :=
  decodeRectSeq_concat dec rs rest h

/-! ## rectangle splitting: the pieces tile the rectangle -/

/-- CoRRE: `cover pieces p` (number of pieces containing point `p`) is 1 inside the rectangle and 0
outside — the pieces are inside, disjoint and cover it -/
theorem corre_pieces_tile (mw mh : Nat) (hmw : 1 ≤ mw) (hmh : 1 ≤ mh) (f x y w h px py : Nat)
    (hf : w + h < f) :
    cover (correSplit mw mh f x y w h) px py = if InTile ⟨x, y, w, h⟩ px py then 1 else 0 :=
  correSplit_cover mw mh hmw hmh f x y w h px py hf

/-- Zlib and Ultra (same row loop): the row pieces tile the rectangle, and the loop always advances -/
theorem zlib_ultra_pieces_tile (x w : Nat) (hw : 0 < w) (f y h px py : Nat) (hf : h ≤ f) :
    cover (zlibSplit x w (zlibMaxSize w / w) f y h) px py = if InTile ⟨x, y, w, h⟩ px py then 1 else 0 :=
  zlibSplit_cover x w (zlibMaxSize w / w) (zlibMaxLines_pos w hw) f y h px py hf

/-- Tight `SendRectSimple`: grid pieces tile the rectangle and respect the 2048 / 65536 limits -/
theorem tight_simple_split_tiles (x y w h px py : Nat) (hw : 0 < w) (hh : 0 < h) :
    cover (simpleSplit x y w h) px py = (if InTile ⟨x, y, w, h⟩ px py then 1 else 0) ∧
    ∀ t ∈ simpleSplit x y w h, 1 ≤ t.w ∧ 1 ≤ t.h ∧ t.w ≤ tightMaxW ∧ t.w * t.h ≤ tightMaxSize :=
  ⟨simpleSplit_cover x y w h px py hw hh, simpleSplit_small x y w h hw hh⟩

/-- Tight with LastRect: for EVERY outcome of the solid-area search (any choice tree) the pieces tile
the rectangle -/
theorem tight_plan_tiles (img : Nat → Nat → Pixel) (p : TPlan) (x y w h px py : Nat) (hw : 0 < w) (hh : 0 < h) :
    pcover (planPieces img p x y w h) px py = ind x y w h px py :=
  planPieces_cover img p x y w h px py hw hh

/-- … and every piece sent as a solid fill really is of one colour, the one `SendSolidRect` transmits -/
theorem tight_plan_fills_are_solid (img : Nat → Nat → Pixel) (p : TPlan) (x y w h : Nat) (r : TileRect)
    (hr : TPiece.fill r ∈ planPieces img p x y w h) (px py : Nat) (hin : InTile r px py) :
    img px py = img r.x r.y :=
  planPieces_fill_solid img p x y w h r hr px py hin

/-! ## Hextile `updateBuf` bound, Ultra container -/

/-- the Hextile tile loop on the `updateBuf` model: the stream is the concatenation of the tiles
(the bytes `server_hextile_decodes` is about) wherever the flushes fall, and `ublen` never exceeds
`UPDATE_BUF_SIZE` — a tile never needs more than the reserve `1 + (2 + 16*16)*bpp` the code tests -/
theorem hextile_updatebuf_bound (bpp W : Nat) (px : Array Pixel) (hb : 1 ≤ bpp)
    (hres : hextileReserve bpp ≤ UBS) (tiles : List TileRect) (st : HexSrv) (u : UB) (hu : u.ublen ≤ UBS)
    (hd : ∀ t ∈ tiles, t.w ≤ 16 ∧ t.h ≤ 16) :
    (hexLoopUB bpp W px tiles st u).stream = u.stream ++ hextileTiles bpp W px tiles st ∧
      (hexLoopUB bpp W px tiles st u).ublen ≤ UBS :=
  hexLoopUB_spec bpp W px hb hres tiles st u hu hd

/-- Ultra encoding: one piece, LZO as a parameter with the law `decompress (compress x) = x` -/
theorem ultra_rect_decodes (L : LzoLaw) (g : Geometry) (bpp : Nat) (px : List Pixel) (rest : Bytes)
    (hlen : px.length = g.w * g.h) (hpx : ∀ p ∈ px, PixOK bpp p) :
    decodeUltra L.decompress g bpp (ultraPayload L bpp px ++ rest) = some (px, rest) :=
  ultraRect_decodes L g bpp px rest hlen hpx

/-! ## Tight without JPEG -/

/-- **`server_tight_decodes`, one sub-rectangle**: the model of `SendSubrect` (palette analysis, the four
senders, `CompressData` in its three forms, compact length, stream ids) decodes by `Spec.decodeTight`
to the pixels; the zlib stream it used stays in sync.  `TPixLaw` is discharged by `tpixel_law_plain`
and `tpixel_law_pack24`. -/
theorem server_tight_subrect_decodes {σ τ : Type} (Z : ZLaw σ τ) (f : PixFmt) (lvl0 : Bool) (g : Geometry)
    (px : List Pixel) (rest : Bytes) (ss : Nat → σ) (ts : Nat → τ)
    (hsync : ∀ i, Z.Sync (ss i) (ts i))
    (hlen : px.length = g.w * g.h) (hpos : 0 < g.w * g.h) (harea : g.w * g.h ≤ 65536)
    (htp : ∀ p ∈ px, TPixLaw f p) (hts : f.tpix.size ≤ 4)
    (hz : ∀ s d, (Z.deflate s d).1.length < 4194304) :
    ∃ t', decodeTight tightCd (fun i z => (Z.inflate (ts i) z).map (·.1)) f g
        (((tightSubrect f lvl0 g.w g.h px).wire Z (ss (tightSubrect f lvl0 g.w g.h px).stream)).1 ++ rest) =
          some (px, rest) ∧
      Z.Sync ((tightSubrect f lvl0 g.w g.h px).wire Z (ss (tightSubrect f lvl0 g.w g.h px).stream)).2 t' :=
  tightSubrect_decodes Z f lvl0 g px rest ss ts hsync hlen hpos harea htp hts hz

/-- TPIXEL law without `Pack24` (8/16 bpp, 32 bpp unless depth 24 with 8-8-8 maxima) -/
theorem tpixel_law_plain (f : PixFmt) (p : Pixel) (hno : usePF24 f = false) (hp : PixOK f.bytespp p) :
    TPixLaw f p := tpixLaw_plain f p hno hp

/-- TPIXEL law with `Pack24`: 32 bpp, depth 24, 8-8-8, byte-aligned distinct shifts, either byte order -/
theorem tpixel_law_pack24 (f : PixFmt) (hbpp : f.bpp = 32) (hd : f.depth = 24)
    (hrm : f.rMax = 255) (hgm : f.gMax = 255) (hbm : f.bMax = 255)
    (hrs : Sh8 f.rShift) (hgs : Sh8 f.gShift) (hbs : Sh8 f.bShift)
    (h12 : f.rShift ≠ f.gShift) (h13 : f.rShift ≠ f.bShift) (h23 : f.gShift ≠ f.bShift)
    (r g b : Nat) (hr : r < 256) (hg : g < 256) (hb : b < 256) :
    TPixLaw f (pack24Pixel f r g b) :=
  tpixLaw_pack24 f hbpp hd hrm hgm hbm hrs hgs hbs h12 h13 h23 r g b hr hg hb

/-- a solid-fill piece of any plan decodes to the pixels of its area -/
theorem tight_fill_piece_decodes (infl : Nat → Bytes → Option Bytes) (f : PixFmt) (img : Nat → Nat → Pixel)
    (p : TPlan) (x y w h : Nat) (r : TileRect) (hr : TPiece.fill r ∈ planPieces img p x y w h)
    (rest : Bytes) (hp : TPixLaw f (img r.x r.y)) :
    decodeTight tightCd infl f ⟨r.w, r.h⟩ (u8 0x80 ++ tpixBytes f (img r.x r.y) ++ rest) =
        some (List.replicate (r.w * r.h) (img r.x r.y), rest) ∧
      ∀ px py, InTile r px py → img px py = img r.x r.y :=
  ⟨decodeTight_fill infl f ⟨r.w, r.h⟩ (img r.x r.y) rest hp, planPieces_fill_solid img p x y w h r hr⟩

/-! ## reference encoders: `decode (encodeWith choices P) = P` for ALL choices -/

theorem decode_encodeWith_rre (c : RREChoice) (bpp : Nat) (g : Geometry) (px : List Pixel) (rest : Bytes)
    (hlen : px.length = g.w * g.h) (hpx : ∀ p ∈ px, PixOK bpp p)
    (hw : g.w < 65536) (hh : g.h < 65536) (hn : (c.final bpp g px).length < 4294967296) :
    decodeRRE g bpp (encodeWithRRE geom16 c bpp g px ++ rest) = some (px, rest) :=
  decode_encodeWithRRE c bpp g px rest hlen hpx hw hh hn

theorem decode_encodeWith_corre (c : RREChoice) (bpp : Nat) (g : Geometry) (px : List Pixel) (rest : Bytes)
    (hlen : px.length = g.w * g.h) (hpx : ∀ p ∈ px, PixOK bpp p)
    (hw : g.w < 256) (hh : g.h < 256) (hn : (c.final bpp g px).length < 4294967296) :
    decodeCoRRE g bpp (encodeWithRRE geom8 c bpp g px ++ rest) = some (px, rest) :=
  decode_encodeWithCoRRE c bpp g px rest hlen hpx hw hh hn

/-- and every valid RRE/CoRRE encoding of `P` is produced by some choice, unchanged -/
theorem encodeWith_rre_complete (gb : Nat × Nat × Nat × Nat → Bytes) (c : RREChoice) (bpp : Nat)
    (g : Geometry) (px : List Pixel) (hbg : c.bg < 256 ^ bpp)
    (hsane : ∀ r ∈ c.rs, r.x + r.w ≤ g.w ∧ r.y + r.h ≤ g.h ∧ r.c < 256 ^ bpp)
    (hpaint : ∀ i, i < g.w * g.h → (paintRects g.w g.h c.bg c.rs).getD i 0 = px.getD i 0) :
    encodeWithRRE gb c bpp g px = serializeRRE gb bpp c.bg c.rs :=
  encodeWithRRE_complete gb c bpp g px hbg hsane hpaint

theorem decode_encodeWith_hextile (cs : List HexChoice) (bpp : Nat) (g : Geometry) (px : List Pixel)
    (rest : Bytes) (hlen : px.length = g.w * g.h) (hpx : ∀ p ∈ px, PixOK bpp p) :
    decodeHextile g bpp (encodeWithHextile cs bpp g px ++ rest) = some (px, rest) :=
  decode_encodeWithHextile cs bpp g px rest hlen hpx

theorem decode_encodeWith_zrle_tile (cp : CPix) (tw th : Nat) (c : ZChoice) (px : List Pixel)
    (rest : Bytes) (hlen : px.length = tw * th) (hpx : ∀ p ∈ px, CPixOK cp p) :
    decodeZRLETile cp tw th (encodeZTile cp tw th c px ++ rest) = some (px, rest) :=
  encodeZTile_decodes cp tw th c px rest hlen hpx

theorem decode_encodeWith_zrle (cs : List ZChoice) (cp : CPix) (g : Geometry) (px : List Pixel)
    (rest : Bytes) (hlen : px.length = g.w * g.h) (hpx : ∀ p ∈ px, CPixOK cp p) :
    decodeZRLEData g cp (encodeWithZRLEData cs cp g px ++ rest) = some (px, rest) :=
  decode_encodeWithZRLEData cs cp g px rest hlen hpx

/-! ## non-vacuity: the hypotheses are met by concrete non-trivial values -/

/-- a 4×4 two-colour rectangle at 1 byte/pixel: the RRE model succeeds (so `hres` is satisfiable)
and its output is the expected one: nSubrects = 1, background 7, one sub-rectangle of colour 9 -/
example : serverRRE 1 ⟨4, 4⟩ [7, 9, 9, 7, 7, 7, 7, 7, 7, 7, 7, 7, 7, 7, 7, 7] =
    some [0, 0, 0, 1, 7, 9, 0, 1, 0, 0, 0, 2, 0, 1] := by decide +kernel

example : (∀ p ∈ [7, 9, 9, 7, 7, 7, 7, 7, 7, 7, 7, 7, 7, 7, 7, 7], PixOK 1 p) := by unfold PixOK; decide

/-- the raw fallback of RRE is reachable: six different pixels do not pay off -/
example : serverRRE 1 ⟨3, 2⟩ [1, 2, 3, 4, 5, 6] = none := by decide +kernel

/-- Hextile on a 2×2 tile with two colours: mono tile, background and foreground specified -/
example : serverHextile 1 ⟨2, 2⟩ [5, 5, 5, 6] = [2 + 8 + 4, 5, 6, 1, 0x11, 0x00] := by decide +kernel

/-- a ZRLE tile with three colours: packed palette, 2 bits per index, rows padded -/
example : zrleTile (.full 1) 3 2 [4, 5, 6, 4, 4, 5] = [3, 4, 5, 6, 0x18, 0x04] := by decide +kernel

/-- Tight: an 8×4 two-colour rectangle at level 1 is a mono rectangle on stream 1 (control 0x50, palette
filter, 2 colours, background first, 1 bit per pixel, 4 data bytes < 12 hence sent bare) -/
example : (tightSubrect ⟨8, 8, false, true, 7, 7, 3, 0, 3, 6⟩ false 8 4
      ([5, 5, 9, 5, 5, 5, 5, 5] ++ List.replicate 24 5)).inflated =
    [0x50, 1, 1, 5, 9, 0x20, 0, 0, 0] := by decide +kernel

/-- the `Pack24` law's hypotheses are met by the usual little- and big-endian 8-8-8 formats -/
example : Sh8 16 ∧ Sh8 8 ∧ Sh8 0 ∧ Sh8 24 := by unfold Sh8; decide

/-- the zlib law is satisfiable (the identity "compressor") -/
example : ZLaw Unit Unit :=
  { deflate := fun _ x => (x.take 4294967295, ()), inflate := fun _ z => some (z, ()),
    Sync := fun _ _ => False, law := by intro _ _ _ h; exact absurd h id,
    small := by intro _ x; simp [List.length_take]; omega }

end VncModel.Props.C01
