import VncModel.Enc.Spec
namespace VncModel.Props.C01
open VncModel.Enc.Spec

theorem takeN_append (xs r : Bytes) : takeN xs.length (xs ++ r) = some (xs, r) := by
  induction xs with
  | nil => simp [takeN]
  | cons x xs ih => simp [takeN, ih]

end VncModel.Props.C01
