import VncModel.Httpd.Model
namespace VncModel.Props.C20
open VncModel.Httpd VncModel.Gen.C20

theorem proxy_only_if_enabled (cfg : Cfg) (b : Bytes) (h : decideReq cfg b = .proxyOk) : cfg.proxy = true := by
  unfold decideReq decideV decideW at h
  cases hp : cfg.proxy
  · simp only [hp, Bool.false_eq_true, ↓reduceIte] at h
    unfold getBranch at h
    simp only [] at h
    repeat' split at h
    all_goals simp_all
  · rfl

end VncModel.Props.C20
