import VncModel.Httpd.Lemmas
/-!
# C20 — the built-in HTTP server only serves files below its directory and survives any request

Property theorems only; helper lemmas are in `VncModel/Httpd/Lemmas.lean`, the executable model in
`VncModel/Httpd/Model.lean` (mirrors `httpProcessInput`, `parseParams`, `validateString` of
`src/libvncserver/httpd.c`; all literals and buffer sizes are the regenerated `VncModel.Gen.C20`).
The model is tied to the code by the correspondence run `harness/c20.c` ⇄ `Driver/C20.lean`.

What is modelled: one call of `httpProcessInput` = directory-length guard, the accumulation loop
(`accumulate`: arbitrary pieces handed out by `read`, then EAGAIN or EOF; `buf[32768]`), the proxy
branch, the GET-line parse (`strcspn`, length test, `sscanf "%s"`), '?' split + `parseParams` +
`validateString`, the ".." test, the index rule, the `.vnc` flag; then `respond` (status, content
type, `$`-substitution per `fread` chunk).  Every function returns the extents of its writes into
the fixed-size buffers.  `fixed = true` is the code with `fixes/C20-proxy-null.diff` and
`fixes/C20-params-uninit.diff`; `fixed = false` is the code as found (NULL dereference = `crash`).

Quantifiers: every configuration (`dir`, proxy flag, port), every list of pieces (= every request
byte string under every segmentation by `read`), both ways a burst can end (EAGAIN / EOF = early
close).  Bytes that arrive in a *later* call are a new `processCallW`: the code resets
`buf_filled` at the start of every call, nothing is carried over (that is the code's behaviour,
not a modelling shortcut, and it is compared on the real server).

Round 2 added: dead too-long guard, over-long requests, split requests, substitution vs. fread chunks (sections 9-11).

Not proved here (stated in docs/C20.md): bounds on the time `rfbWriteExact` may block when the peer
does not read (per write, C04); behaviour of the RFB layer after a proxy hand-over.
-/
namespace VncModel.Props.C20
open VncModel.Httpd VncModel.Gen.C20

/-! ## 1. confinement -/

/-- **serves_only_under_dir**: whatever bytes arrive in whatever pieces, if the call opens a file
then its name is `httpDir ++ f` where `f` starts with '/', does not contain "..", contains no NUL
(so the C string handed to `fopen` is exactly this list) and fits `fullFname[512]` with its NUL. -/
theorem serves_only_under_dir (fixed : Bool) (cfg : Cfg) (chunks : List Bytes) (e : SockEnd)
    (path params : Bytes) (subst : Bool)
    (h : (processCallW fixed cfg chunks e).1 = .serve path params subst) :
    ∃ f, path = cfg.dir ++ f ∧ f.head? = some 47 ∧ hasSub litDotDot f = false ∧ (∀ x ∈ f, x ≠ 0) ∧
      path.length + 1 ≤ fullFnameSize := by
  rw [processCallW_fst] at h
  split at h
  · simp at h
  · rename_i hd
    split at h
    · simp at h
    · simp at h
    · rename_i b rest hb
      rw [decideW_fst] at h
      split at h
      · rename_i o ho
        split at ho
        · rcases proxyBranch_cases _ _ _ _ ho with h' | h' | h' <;> simp [h'] at h
        · simp at ho
      · obtain ⟨tok, f, _, _, _, _, _, _, hp, hg, _, _⟩ :=
          getBranch_serve cfg (cstr b) path params subst (cstr_no_nul b) (by omega) h
        exact ⟨f, hp, hg.head, hg.nodd, hg.nonul, by rw [hp, List.length_append]; exact hg.fits⟩

/-- **lexical confinement**: a name without the substring ".." has no ".." component, so walking
its components below the directory never goes up: the walk succeeds (`resolve` ≠ none means "never
tried to leave the root") and ends at or below the root.  In a tree without symbolic links this
is where the kernel ends up, too (assumption, stated in the evidence). -/
theorem served_path_confined (fixed : Bool) (cfg : Cfg) (chunks : List Bytes) (e : SockEnd)
    (path params : Bytes) (subst : Bool)
    (h : (processCallW fixed cfg chunks e).1 = .serve path params subst) :
    ∃ f st, path = cfg.dir ++ f ∧ (∀ c ∈ splitSlash f, c ≠ [46, 46]) ∧ resolve [] (splitSlash f) = some st := by
  obtain ⟨f, hp, _, hdd, _, _⟩ := serves_only_under_dir fixed cfg chunks e path params subst h
  rw [litDotDot_eq] at hdd
  have hc := no_dotdot_component f hdd
  obtain ⟨st, hst, _⟩ := resolve_no_dotdot (splitSlash f) [] hc
  exact ⟨f, st, hp, hc, hst⟩

/-- only a `serve` outcome touches the file system, and only through that one path -/
theorem opens_only_served_path (o : Outcome) (p : Bytes) (h : opened o = some p) :
    ∃ params subst, o = .serve p params subst := by
  cases o <;> simp [opened] at h
  exact ⟨_, _, by rw [h]⟩

/-- the response does not depend on the file system unless the outcome is `serve` -/
theorem respond_ignores_fs (env : Env) (cfg : Cfg) (fs fs' : Bytes → FsRes) (o : Outcome)
    (h : opened o = none) : respond env cfg fs o = respond env cfg fs' o := by
  cases o <;> first | rfl | (simp [opened] at h)
  all_goals (rename_i code; unfold respond; split <;> simp_all)

/-! ## 2. query parameters -/

/-- **params_harmless_alphabet**: the `params[]` buffer that `$PARAMS` expands to is empty or a
sequence of `<PARAM NAME="n" VALUE="v">\n` with `n`, `v` over the harmless alphabet
(`isalnum`, `_ . : [ ]`, and ' ' for '+'), `v` non-empty; and it fits `params[1024]`. -/
theorem params_harmless_alphabet (fixed : Bool) (cfg : Cfg) (chunks : List Bytes) (e : SockEnd)
    (path params : Bytes) (subst : Bool)
    (h : (processCallW fixed cfg chunks e).1 = .serve path params subst) :
    (params = [] ∨ ParamLang params) ∧ params.length + 1 ≤ paramsSize := by
  rw [processCallW_fst] at h
  split at h
  · simp at h
  · rename_i hd
    split at h
    · simp at h
    · simp at h
    · rename_i b rest hb
      rw [decideW_fst] at h
      split at h
      · rename_i o ho
        split at ho
        · rcases proxyBranch_cases _ _ _ _ ho with h' | h' | h' <;> simp [h'] at h
        · simp at ho
      · obtain ⟨tok, f, _, _, _, _, _, _, _, _, _, hpar⟩ :=
          getBranch_serve cfg (cstr b) path params subst (cstr_no_nul b) (by omega) h
        rw [hpar]; exact queryParams_spec tok

/-- what "harmless" excludes: every byte outside printable ASCII (so no NUL, no control byte,
nothing ≥ 0x7f) and the bytes that could end the quoted HTML attribute or start markup
(`" ' < > & \\` and the back-tick) — checked for all 256 byte values against the regenerated
`alphaExtra`/`alphaTo` -/
theorem harmless_excludes (b : UInt8) (h : harmless b = true) :
    32 ≤ b.toNat ∧ b.toNat < 127 ∧ b.toNat ≠ 34 ∧ b.toNat ≠ 39 ∧ b.toNat ≠ 60 ∧ b.toNat ≠ 62 ∧ b.toNat ≠ 38 ∧
      b.toNat ≠ 92 ∧ b.toNat ≠ 96 := by
  have hb : UInt8.ofNat b.toNat = b := by simp
  exact harmless_table b.toNat b.toNat_lt (by rw [hb]; exact h)

/-! ## 3. buffers -/

/-- **buffers_in_bounds**: every write the call performs into `buf`, `fullFname`, `params`,
`param_request`, `param_formatted` ends inside the array (extents include the terminating NUL),
for every configuration, every request, every segmentation, fixed or not. -/
theorem buffers_in_bounds (fixed : Bool) (cfg : Cfg) (chunks : List Bytes) (e : SockEnd) :
    ∀ w ∈ (processCallW fixed cfg chunks e).2.2, w.hi ≤ bufSize w.id := by
  intro w hw
  obtain ⟨hd, hw⟩ := processCallW_writes fixed cfg chunks e w hw
  obtain ⟨_, _, ff3⟩ := fname_fits
  rcases hw with hw | hw | ⟨b, rest, hb, hw⟩
  · subst hw; simp only [bufSize]; omega
  · obtain ⟨h1, h2⟩ := accumulate_bounds chunks [] e w hw
    rw [h1]; exact h2
  · obtain ⟨_, _, hlen, _⟩ := accumulate_complete chunks [] e b rest hb
    have := cstr_length_le b
    exact getBranch_bounds cfg (cstr b) hd (by omega) w (decideW_snd fixed cfg b w hw)

/-- the `read` never gets more room than the buffer has left (and one byte stays for the NUL):
the count passed to `read` plus the fill level is below `sizeof buf` -/
theorem read_count_in_bounds (acc : Bytes) (h : acc.length + readSlack ≤ sizeofBuf) :
    acc.length + room acc + 1 ≤ sizeofBuf := by
  have := readSlack_pos
  simp only [room]; omega

/-- `str[256+32]` takes every `sprintf` of the substitution loop, for 32-bit `int` geometry/port and
any host name that fits `thisHost[255]` -/
theorem str_in_bounds (env : Env) (cfg : Cfg)
    (hw : env.width.natAbs ≤ 2147483648) (hh : env.height.natAbs ≤ 2147483648)
    (hp : cfg.port.natAbs ≤ 2147483648) (hhost : env.thisHost.length + 1 ≤ thisHostSize) :
    ∀ w ∈ strWrites env cfg, w.hi ≤ bufSize w.id := by
  have c1 : thisHostSize + 1 + 11 ≤ strSize := by decide
  have c2 : appletHeightExtra ≤ 1000 ∧ displayBase ≤ 100000 := by decide
  have d1 := decimal_length env.width (by omega)
  have d2 := decimal_length env.height (by omega)
  have d3 := decimal_length (env.height + appletHeightExtra) (by omega)
  have d4 := decimal_length cfg.port (by omega)
  have d5 := decimal_length (cfg.port - displayBase) (by omega)
  intro w hw
  simp only [strWrites, List.mem_cons, List.not_mem_nil, or_false] at hw
  rcases hw with hw | hw | hw | hw | hw <;> subst hw <;>
    simp only [bufSize, List.length_append, List.length_singleton] <;> omega

/-- the substitution loop's `buf[n] = 0` is inside `buf`: `fread` chunks are at most
`BUF_SIZE - 1` bytes, and the chunks are exactly the file -/
theorem fread_chunks_in_bounds (content : Bytes) :
    (∀ c ∈ chunksOf (BUF_SIZE - freadSlack) content.length content, c.length + 1 ≤ sizeofBuf) ∧
    (chunksOf (BUF_SIZE - freadSlack) content.length content).flatten = content := by
  have hc : BUF_SIZE - freadSlack + 1 ≤ sizeofBuf ∧ 0 < BUF_SIZE - freadSlack := by decide
  refine ⟨fun c h => ?_, chunksOf_flatten _ hc.2 _ _ (Nat.le_refl _)⟩
  have := chunksOf_length _ _ _ c h
  omega

/-! ## 4. proxy requests -/

/-- **proxy_only_if_enabled** -/
theorem proxy_only_if_enabled (fixed : Bool) (cfg : Cfg) (chunks : List Bytes) (e : SockEnd)
    (h : (processCallW fixed cfg chunks e).1 = .proxyOk) : cfg.proxy = true := by
  rw [processCallW_fst] at h
  split at h
  · simp at h
  · split at h
    · simp at h
    · simp at h
    · rename_i b rest hb
      cases hp : cfg.proxy
      · rw [decideW_noproxy fixed cfg b hp] at h
        unfold getBranch at h
        simp only [] at h
        repeat' split at h
        all_goals simp at h
      · rfl

/-- and when it is enabled, exactly the two documented forms are honoured: `CONNECT …:<port>` with
the screen's port after the first ':' of the buffer, or a `GET ` request whose first '/' starts
`/proxied.connection HTTP/1.` -/
theorem proxy_forms (cfg : Cfg) (b : Bytes) (h : decideReq cfg b = .proxyOk) :
    cfg.proxy = true ∧
    ((litConnect.isPrefixOf (cstr b) = true ∧ ∃ r, strchr 58 (cstr b) = some r ∧ atoi (r.drop 1) = cfg.port) ∨
     (litGet.isPrefixOf (cstr b) = true ∧ ∃ r, strchr 47 (cstr b) = some r ∧ litProxied.isPrefixOf r = true)) := by
  unfold decideReq decideV at h
  rw [decideW_fst] at h
  cases hp : cfg.proxy
  · simp only [hp, Bool.false_eq_true, ↓reduceIte] at h
    unfold getBranch at h
    simp only [] at h
    repeat' split at h
    all_goals simp at h
  · refine ⟨rfl, ?_⟩
    simp only [hp, ↓reduceIte] at h
    split at h
    · rename_i o ho
      subst h
      unfold proxyBranch at ho
      split at ho
      · rename_i hc
        split at ho
        · simp at ho
        · rename_i r hr
          split at ho
          · simp at ho
          · rename_i hport
            exact Or.inl ⟨hc, r, hr, by simpa using hport⟩
      · split at ho
        · rename_i hg
          split at ho
          · simp at ho
          · rename_i r hr
            split at ho
            · rename_i hpx
              exact Or.inr ⟨hg, r, hr, hpx⟩
            · simp at ho
        · simp at ho
    · unfold getBranch at h
      simp only [] at h
      repeat' split at h
      all_goals simp at h

/-! ## 5. every other request: error or close, never a file -/

/-- **every_other_request_errors_or_closes** (shape of the outcome): the fixed code never crashes;
an outcome is `pending` only while the peer is still connected and has sent no blank line (EAGAIN);
otherwise it is a silent close, a 400/404 error response followed by a close, the proxy hand-over,
or `serve`.  Nothing else exists. -/
theorem every_request_is_answered_or_closed (cfg : Cfg) (chunks : List Bytes) (e : SockEnd)
    (o : Outcome) (ho : o = (processCallW true cfg chunks e).1) :
    o ≠ .crash ∧ (o = .pending → e = .eagain) ∧ (∀ code, o = .error code → code = 400 ∨ code = 404) := by
  rw [processCallW_fst] at ho
  split at ho
  · subst ho; simp
  · split at ho
    · rename_i hacc
      subst ho
      refine ⟨by simp, fun _ => ?_, by simp⟩
      cases chunks with
      | nil =>
        rw [acc_nil] at hacc
        split at hacc
        · simp at hacc
        · cases e <;> simp_all
      | cons c cs =>
        -- pending can only come out of the final EAGAIN
        have : ∀ (cs : List Bytes) (acc : Bytes), (accumulate acc cs e).1 = .pending → e = .eagain := by
          intro cs
          induction cs with
          | nil =>
            intro acc h
            rw [acc_nil] at h
            split at h
            · simp at h
            · cases e <;> simp_all
          | cons c cs ih =>
            intro acc h
            rw [acc_cons] at h
            repeat' split at h
            all_goals first | (simp at h; done) | exact ih _ h
        exact this _ _ hacc
    · subst ho; simp
    · rename_i b rest hb
      rw [decideW_fst] at ho
      obtain ⟨g1, g2, g3, g4⟩ := getBranch_no_crash_no_pending cfg (cstr b)
      split at ho
      · rename_i o' ho'
        subst ho
        split at ho'
        · rcases proxyBranch_cases _ _ _ _ ho' with h | h | h
          · subst h; simp
          · subst h; simp
          · simp at h
        · simp at ho'
      · subst ho
        exact ⟨g1, fun h => absurd h g2, fun code h => Or.inr (g4 code h)⟩

/-- a request that is not a `GET ` never reaches the file system: with proxy support off it is
closed without a response, with proxy support on it may only be a 400 or a proxy hand-over -/
theorem non_get_never_served (fixed : Bool) (cfg : Cfg) (b : Bytes) (h : litGet.isPrefixOf (cstr b) = false) :
    opened (decideV fixed cfg b) = none ∧ (cfg.proxy = false → decideV fixed cfg b = .close .noGet) := by
  have hg : (getBranch cfg (cstr b)).1 = .close .noGet := by
    unfold getBranch; simp [h]
  unfold decideV
  rw [decideW_fst]
  constructor
  · split
    · rename_i o ho
      split at ho
      · rcases proxyBranch_cases _ _ _ _ ho with h' | h' | h' <;> simp [h', opened]
      · simp at ho
    · rw [hg]; rfl
  · intro hp; simp [hp, hg]

/-- what a served request must have looked like: a blank line was seen, the buffer starts with
`GET `, its first line fits `maxFnameLen`, `sscanf` found a name, the name starts with '/' and its
path part has no ".."; the file name is that path part (or `/index.vnc` for "/") -/
theorem served_only_for_valid_get (fixed : Bool) (cfg : Cfg) (chunks : List Bytes) (e : SockEnd)
    (path params : Bytes) (subst : Bool)
    (h : (processCallW fixed cfg chunks e).1 = .serve path params subst) :
    ∃ b rest tok, (accumulate [] chunks e).1 = .complete b rest ∧ hasTerminator (cstr b) = true ∧
      litGet.isPrefixOf (cstr b) = true ∧ (firstLine (cstr b)).length ≤ maxFnameLen cfg ∧
      scanGet (firstLine (cstr b)) = some tok ∧ tok.head? = some 47 ∧
      hasSub litDotDot (tok.takeWhile (· != 63)) = false ∧
      path = cfg.dir ++ (indexRule cfg (tok.takeWhile (· != 63))).1 := by
  rw [processCallW_fst] at h
  split at h
  · simp at h
  · rename_i hd
    split at h
    · simp at h
    · simp at h
    · rename_i b rest hb
      rw [decideW_fst] at h
      split at h
      · rename_i o ho
        split at ho
        · rcases proxyBranch_cases _ _ _ _ ho with h' | h' | h' <;> simp [h'] at h
        · simp at ho
      · obtain ⟨tok, f, h1, h2, h3, h4, h5, h6, h7, _, _, _⟩ :=
          getBranch_serve cfg (cstr b) path params subst (cstr_no_nul b) (by omega) h
        exact ⟨b, rest, tok, hb, (accumulate_complete chunks [] e b rest hb).1, h1, h2, h3, h4, h5, by rw [h7, h6]⟩

/-- over-long request lines are closed without a response (proxy support off) -/
theorem overlong_line_closes (cfg : Cfg) (b : Bytes) (hp : cfg.proxy = false)
    (hg : litGet.isPrefixOf (cstr b) = true) (hl : (firstLine (cstr b)).length > maxFnameLen cfg) :
    decideReq cfg b = .close .lineTooLong := by
  unfold decideReq decideV
  rw [decideW_noproxy true cfg b hp]
  unfold getBranch
  simp [hg, hl]

/-! ## 6. segmentation -/

/-- **segmentation independence, proxy support off**: how `read` cuts the bytes of one burst into
pieces does not change the outcome of the call (same file, same error, same close, same "still
waiting") — including the bursts that fill the buffer. -/
theorem segmentation_independent (fixed : Bool) (cfg : Cfg) (hp : cfg.proxy = false)
    (chunks : List Bytes) (e : SockEnd) :
    (processCallW fixed cfg chunks e).1 = (processCallW fixed cfg [chunks.flatten] e).1 := by
  rw [processCallW_fst, processCallW_fst]
  split
  · rfl
  · have h := accumulate_flatten chunks [] e
    cases h1 : (accumulate [] chunks e).1 <;> cases h2 : (accumulate [] [chunks.flatten] e).1 <;>
      rw [h1, h2] at h <;> simp only [AccEquiv] at h <;> try contradiction
    · rename_i b r b' r'
      simp only []
      rw [decideW_noproxy fixed cfg b hp, decideW_noproxy fixed cfg b' hp]
      exact getBranch_firstLine cfg _ _ h.2.2.2
    all_goals first | rfl | (subst h; rfl)

/-- **segmentation, any configuration**: a call that decides anything decides it on a prefix of the
burst that contains a blank line (what was received when the blank line first became visible at a
`read` boundary); with proxy support on, the proxy tests look at the whole of that prefix, which is
the only way segmentation can matter (example below). -/
theorem decides_on_prefix_with_blank_line (fixed : Bool) (cfg : Cfg) (chunks : List Bytes) (e : SockEnd)
    (hd : cfg.dir.length ≤ dirMax) :
    (∃ b rest, b ++ rest = chunks.flatten ∧ hasTerminator (cstr b) = true ∧
        (processCallW fixed cfg chunks e).1 = decideV fixed cfg b) ∨
    (processCallW fixed cfg chunks e).1 = .pending ∨ ∃ why, (processCallW fixed cfg chunks e).1 = .close why := by
  rw [processCallW_fst]
  have : ¬ cfg.dir.length > dirMax := by omega
  simp only [this, ↓reduceIte]
  cases h : (accumulate [] chunks e).1 with
  | complete b rest =>
    obtain ⟨h1, h2, _, _⟩ := accumulate_complete chunks [] e b rest h
    exact Or.inl ⟨b, rest, by simpa using h2, h1, rfl⟩
  | pending => exact Or.inr (Or.inl rfl)
  | closed why => exact Or.inr (Or.inr ⟨why, rfl⟩)

/-- "GET x\n\n/proxied.connection HTTP/1." -/
def reqSplit : Bytes :=
  [71,69,84,32,120,10,10,47,112,114,111,120,105,101,100,46,99,111,110,110,101,99,116,105,111,110,32,72,84,84,80,47,49,46]

/-- with proxy support on the outcome *can* depend on the segmentation: in one piece the bytes
after the blank line satisfy the `/proxied.connection` test, cut after the blank line they are
never looked at -/
theorem segmentation_matters_with_proxy :
    (processCallW true ⟨[47, 119], true, 5900⟩ [reqSplit] .eagain).1 = .proxyOk ∧
    (processCallW true ⟨[47, 119], true, 5900⟩ [reqSplit.take 7, reqSplit.drop 7] .eagain).1 = .error 404 := by
  decide

/-! ## 7. the code as found (`fixed = false`) -/

/-- "CONNECT x\n\n" and "GET x\n\n" -/
def reqConnectNoColon : Bytes := [67,79,78,78,69,67,84,32,120,10,10]
def reqGetNoSlash : Bytes := [71,69,84,32,120,10,10]

/-- counter-example for the code as found: with proxy support on, `CONNECT` without ':' and `GET`
without '/' dereference NULL (replayed on the implementation: corpus/C20/proxy-null-*.ops) -/
theorem unfixed_crashes :
    (processCallW false ⟨[47, 119], true, 5900⟩ [reqConnectNoColon] .eagain).1 = .crash ∧
    (processCallW false ⟨[47, 119], true, 5900⟩ [reqGetNoSlash] .eagain).1 = .crash ∧
    (processCallW true ⟨[47, 119], true, 5900⟩ [reqConnectNoColon] .eagain).1 = .error 400 ∧
    (processCallW true ⟨[47, 119], true, 5900⟩ [reqGetNoSlash] .eagain).1 = .error 404 := by
  decide

/-- exactly these requests crash the code as found … -/
theorem unfixed_crash_iff (cfg : Cfg) (b : Bytes) :
    decideV false cfg b = .crash ↔
      cfg.proxy = true ∧
      ((litConnect.isPrefixOf (cstr b) = true ∧ strchr 58 (cstr b) = none) ∨
       (litConnect.isPrefixOf (cstr b) = false ∧ litGet.isPrefixOf (cstr b) = true ∧ strchr 47 (cstr b) = none)) := by
  obtain ⟨g1, _, _, _⟩ := getBranch_no_crash_no_pending cfg (cstr b)
  unfold decideV
  rw [decideW_fst]
  cases hp : cfg.proxy
  · simp [g1]
  · simp only [↓reduceIte, true_and]
    unfold proxyBranch
    cases hc : litConnect.isPrefixOf (cstr b)
    · cases hg : litGet.isPrefixOf (cstr b)
      · simp [g1]
      · cases hs : strchr 47 (cstr b) with
        | none => simp
        | some r => by_cases hx : litProxied.isPrefixOf r = true <;> simp [hx, g1]
    · cases hs : strchr 58 (cstr b) with
      | none => simp
      | some r => by_cases hx : atoi r.tail = cfg.port <;> simp [hx]

/-- … and on every other request the fix changes nothing -/
theorem fix_changes_nothing_else (cfg : Cfg) (b : Bytes) (h : decideV false cfg b ≠ .crash) :
    decideV true cfg b = decideV false cfg b := by
  unfold decideV at h ⊢
  rw [decideW_fst] at h ⊢
  rw [decideW_fst]
  cases hp : cfg.proxy
  · simp
  · simp only [hp, ↓reduceIte] at h ⊢
    unfold proxyBranch at h ⊢
    cases hc : litConnect.isPrefixOf (cstr b)
    · cases hg : litGet.isPrefixOf (cstr b)
      · simp
      · cases hs : strchr 47 (cstr b) with
        | none => simp [hc, hg, hs] at h
        | some r => simp
    · cases hs : strchr 58 (cstr b) with
      | none => simp [hc, hs] at h
      | some r => simp

/-! ## 8. substitution -/

/-- a file without '$' is sent unchanged even when it is a `.vnc` file, whatever the parameters -/
theorem body_identity_without_dollar (env : Env) (cfg : Cfg) (params content : Bytes) (subst : Bool)
    (h : (36 : UInt8) ∉ content) : body env cfg params subst content = content := by
  unfold body
  split
  · have hc : 0 < BUF_SIZE - freadSlack := by decide
    have hfl := chunksOf_flatten (BUF_SIZE - freadSlack) hc content.length content (Nat.le_refl _)
    have : ∀ c ∈ chunksOf (BUF_SIZE - freadSlack) content.length content, (36 : UInt8) ∉ c := by
      intro c hc' h36
      apply h
      rw [← hfl]
      exact List.mem_flatten.2 ⟨c, hc', h36⟩
    rw [List.map_congr_left (fun c hc' => substChunk_id _ c (this c hc')), List.map_id', hfl]
  · rfl

/-! ## 9. over-long requests (round 2) -/

/-- **the `buf_filled > sizeof (buf)` guard at the head of the read loop is dead code**: after
every `read` the fill level plus the NUL is inside `buf` (`w.hi = buf_filled + 1`), so the guard's
condition is false at every loop head, for every segmentation of every request.  (The coverage
listing shows its body as never executed; no input can execute it.) -/
theorem request_too_long_guard_unreachable (acc : Bytes) (chunks : List Bytes) (e : SockEnd) :
    ∀ w ∈ (accumulate acc chunks e).2, ¬ (w.hi - 1 > sizeofBuf) := by
  intro w hw
  have := (accumulate_bounds chunks acc e w hw).2
  omega

/-- what really happens to a request that fills the window (`sizeof buf - 1` bytes) without a
blank line, however it is segmented and whether or not more bytes follow: `read` is asked for 0
bytes, returns 0, and the connection is closed without a response ("premature close" path). -/
theorem overlong_request_closes (fixed : Bool) (cfg : Cfg) (chunks : List Bytes) (e : SockEnd)
    (hd : cfg.dir.length ≤ dirMax) (hlen : chunks.flatten.length ≥ sizeofBuf - readSlack)
    (hnt : hasTerminator (cstr (chunks.flatten.take (sizeofBuf - readSlack))) = false) :
    (processCallW fixed cfg chunks e).1 = .close .bufferFull := by
  rw [processCallW_fst]
  have : ¬ cfg.dir.length > dirMax := by omega
  simp only [this, ↓reduceIte]
  have h1 := single_overlong chunks.flatten e (by rw [room_nil]; exact hlen) (by rw [room_nil]; exact hnt)
  have h2 := accumulate_flatten chunks [] e
  rw [h1] at h2
  rw [AccEquiv_closed_right h2]

/-! ## 10. a request split across two bursts (round 2) -/

/-- **split_request_unanswered**: the read loop starts every call with `buf_filled = 0`
(`processCallW` has no carried state: that *is* the code's behaviour, compared on the real server
by the two-burst cases).  So if a request arrives in two bursts with an EAGAIN in between, neither
of which contains a blank line on its own, both calls end `pending`: no response, no close, nothing
opened — even when the concatenation is a valid GET (example below).  The connection stays open
until the peer sends a complete request in one burst, closes, or a new client connects.
C20 is not violated by this (no file outside the directory, no overrun, the RFB service is not
stalled: the call returns at once); it is a functional defect of the HTTP service, documented. -/
theorem split_request_unanswered (fixed : Bool) (cfg : Cfg) (b1 b2 : Bytes)
    (hd : cfg.dir.length ≤ dirMax) (n1 : b1 ≠ []) (n2 : b2 ≠ [])
    (l1 : b1.length < sizeofBuf - readSlack) (l2 : b2.length < sizeofBuf - readSlack)
    (t1 : hasTerminator (cstr b1) = false) (t2 : hasTerminator (cstr b2) = false) :
    (processCallW fixed cfg [b1] .eagain).1 = .pending ∧ (processCallW fixed cfg [b2] .eagain).1 = .pending ∧
    opened (processCallW fixed cfg [b1] .eagain).1 = none ∧ opened (processCallW fixed cfg [b2] .eagain).1 = none := by
  have hd' : ¬ cfg.dir.length > dirMax := by omega
  have p1 : (processCallW fixed cfg [b1] .eagain).1 = .pending := by
    rw [processCallW_fst]; simp only [hd', ↓reduceIte]
    rw [single_pending b1 n1 (by rw [room_nil]; exact l1) t1]
  have p2 : (processCallW fixed cfg [b2] .eagain).1 = .pending := by
    rw [processCallW_fst]; simp only [hd', ↓reduceIte]
    rw [single_pending b2 n2 (by rw [room_nil]; exact l2) t2]
  exact ⟨p1, p2, by rw [p1]; rfl, by rw [p2]; rfl⟩

/-! ## 11. substitution and `fread` chunks (round 2) -/

/-- a `.vnc` file of at most one `fread` chunk (`BUF_SIZE - 1` bytes) is substituted as a whole -/
theorem body_single_chunk (env : Env) (cfg : Cfg) (params content : Bytes) (hne : content ≠ [])
    (hlen : content.length ≤ BUF_SIZE - freadSlack) :
    body env cfg params true content = substChunk (varValues env cfg params) content := by
  unfold body
  simp only [↓reduceIte]
  cases hc : content.length with
  | zero => exact absurd (List.eq_nil_of_length_eq_zero hc) hne
  | succ k =>
    have hb : content.isEmpty = false := by simpa using hne
    have ht : content.take (BUF_SIZE - freadSlack) = content := List.take_of_length_le hlen
    have hdr : content.drop (BUF_SIZE - freadSlack) = [] := List.drop_of_length_le hlen
    simp only [chunksOf, hb, Bool.false_eq_true, ↓reduceIte, ht, hdr]
    have hnil : chunksOf (BUF_SIZE - freadSlack) k [] = [] := by cases k <;> simp [chunksOf]
    simp [hnil]

/-- **substitution is NOT independent of the `fread` chunking** (the source says so itself: "This
won't quite work properly if the .vnc file is longer than BUF_SIZE").  Counterexample for every
value list: a file of `BUF_SIZE - 1 - 3` plain bytes followed by `$WIDTH` puts `$WI` at the end of
the first chunk and `DTH` into the second; the chunked expansion sends the file unchanged, the
expansion of the same bytes in one piece replaces the variable.  (Tie: `ex32768.vnc`, `big.vnc`,
`straddle2.vnc` in the sandbox are compared byte-exactly with the real server.) -/
theorem body_substitution_chunk_dependent (env : Env) (cfg : Cfg) (params : Bytes) (k : Nat)
    (hk : k + 3 = BUF_SIZE - freadSlack) :
    let content := List.replicate k (97 : UInt8) ++ [36, 87, 73, 68, 84, 72]
    body env cfg params true content = content ∧
    substChunk (varValues env cfg params) content = List.replicate k 97 ++ decimal env.width := by
  intro content
  have hrep36 : (36 : UInt8) ∉ List.replicate k (97 : UInt8) := by
    intro h; have := List.eq_of_mem_replicate h; revert this; decide
  have hrep0 : ∀ x ∈ List.replicate k (97 : UInt8), x ≠ 0 := by
    intro x h; rw [List.eq_of_mem_replicate h]; decide
  have hlenr : (List.replicate k (97 : UInt8)).length = k := List.length_replicate
  have nn3 : ∀ x ∈ ([36, 87, 73] : Bytes), x ≠ 0 := by decide
  have nn6 : ∀ x ∈ ([36, 87, 73, 68, 84, 72] : Bytes), x ≠ 0 := by decide
  constructor
  · unfold body
    simp only [↓reduceIte]
    have hcl : content.length = (k + 3) + 3 := by simp [content]
    have hb : content.isEmpty = false := by simp [content]
    have htake : content.take (BUF_SIZE - freadSlack) = List.replicate k 97 ++ [36, 87, 73] := by
      rw [← hk]
      have := take_append_length (List.replicate k (97 : UInt8)) [36, 87, 73, 68, 84, 72] 3
      rw [hlenr] at this
      exact this
    have hdrop : content.drop (BUF_SIZE - freadSlack) = [68, 84, 72] := by
      rw [← hk]
      have := drop_append_length (List.replicate k (97 : UInt8)) [36, 87, 73, 68, 84, 72] 3
      rw [hlenr] at this
      exact this
    rw [hcl]
    simp only [chunksOf, hb, Bool.false_eq_true, ↓reduceIte, htake, hdrop, List.isEmpty_cons,
      List.map_cons]
    have hd3 : List.drop (BUF_SIZE - freadSlack) ([68, 84, 72] : Bytes) = [] := by decide
    simp only [hd3, List.isEmpty_nil, ↓reduceIte, List.map_nil]
    have ht3 : List.take (BUF_SIZE - freadSlack) ([68, 84, 72] : Bytes) = [68, 84, 72] := by decide
    rw [ht3]
    have c1 : substChunk (varValues env cfg params) (List.replicate k 97 ++ [36, 87, 73]) =
        List.replicate k 97 ++ [36, 87, 73] := by
      rw [substChunk_no_nul _ _ (by
        intro x hx; rcases List.mem_append.1 hx with h | h
        · exact hrep0 x h
        · exact nn3 x h)]
      rw [substGo_plain_prefix _ _ _ hrep36]
      simp [substGo, matchVar, matchVar.go, substVars, varValues, List.isPrefixOf]
    have c2 : substChunk (varValues env cfg params) [68, 84, 72] = [68, 84, 72] :=
      substChunk_id _ _ (by decide)
    rw [c1, c2]
    simp [content]
  · rw [substChunk_no_nul _ _ (by
      intro x hx; rcases List.mem_append.1 hx with h | h
      · exact hrep0 x h
      · exact nn6 x h)]
    rw [substGo_plain_prefix _ _ _ hrep36]
    simp [substGo, matchVar, matchVar.go, substVars, varValues, List.isPrefixOf]

example : ∃ k, k + 3 = BUF_SIZE - freadSlack := ⟨32764, by decide⟩

/-! ## non-vacuity -/

def cfgA : Cfg := { dir := [47, 119], proxy := false, port := 5900 }
/-- "GET /a.txt HTTP/1.0\r\n\r\n" -/
def reqA : Bytes := [71,69,84,32,47,97,46,116,120,116,32,72,84,84,80,47,49,46,48,13,10,13,10]
/-- "GET /?a=b+c HTTP/1.0\n\n" -/
def reqQ : Bytes := [71,69,84,32,47,63,97,61,98,43,99,32,72,84,84,80,47,49,46,48,10,10]
/-- "GET /../secret\n\n" -/
def reqT : Bytes := [71,69,84,32,47,46,46,47,115,101,99,114,101,116,10,10]

-- serves_only_under_dir / served_only_for_valid_get / segmentation: hypotheses are satisfiable
example : (processCallW true cfgA [reqA] .eagain).1 = .serve [47,119,47,97,46,116,120,116] [] false := by decide
example : (processCallW true cfgA [reqA.take 7, reqA.drop 7] .eof).1 =
    .serve [47,119,47,97,46,116,120,116] [] false := by decide
-- params_harmless_alphabet: a non-empty accepted parameter string ('+' became ' '), index rule, .vnc flag
example : (processCallW true cfgA [reqQ] .eagain).1 =
    .serve [47,119,47,105,110,100,101,120,46,118,110,99]
      (paramFmtA ++ [97] ++ paramFmtB ++ [98, 32, 99] ++ paramFmtC) true := by decide
-- traversal attempt: 404, nothing opened
example : (processCallW true cfgA [reqT] .eagain).1 = .error 404 := by decide
-- pending / early close / proxy
example : (processCallW true cfgA [reqA.take 7] .eagain).1 = .pending := by decide
example : (processCallW true cfgA [reqA.take 7] .eof).1 = .close .eof := by decide
-- split_request_unanswered: both halves of a request that is served in one burst stay unanswered
example : (processCallW true cfgA [reqA.take 21] .eagain).1 = .pending ∧
    (processCallW true cfgA [reqA.drop 21] .eagain).1 = .pending := by decide
example : (processCallW true ⟨[47, 119], true, 5900⟩
    [[67,79,78,78,69,67,84,32,104,58,53,57,48,48,10,10]] .eagain).1 = .proxyOk := by decide
example : (processCallW true cfgA [[67,79,78,78,69,67,84,32,104,58,53,57,48,48,10,10]] .eagain).1 =
    .close .noGet := by decide
-- buffers_in_bounds quantifies over a non-empty list of writes
example : (processCallW true cfgA [reqQ] .eagain).2.2.length = 11 := by decide

end VncModel.Props.C20
