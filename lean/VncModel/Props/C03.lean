import VncModel.Wire.CountLemmas
import VncModel.Wire.EncLemmas
import VncModel.Wire.SessionLemmas
import VncModel.Leaf.EquivWire
/-!
# C03 — Server output is a well-formed RFB stream within negotiated capabilities

Property theorems only (helper lemmas: `VncModel/Wire/*Lemmas.lean`).

## What is modelled (hand-written, core Lean, tied to the code by the correspondence run
`harness/c03.c` ⇄ `Driver/C03.lean` and by the T0 constants `VncModel.Gen.C03`)

* `Wire/Parse.lean`   the STRICT PARSER of the server → client stream: the specification of
  "well-formed".  The compiled driver runs exactly this function on the bytes the real server wrote.
* `Wire/Plan.lean`    the planning half of `rfbSendFramebufferUpdate`: per-encoding count expressions,
  the emission splitters of corre.c / zlib.c / ultra.c / tight.c, the 16-bit `nRects` field, the
  LastRect rule.
* `Wire/Caps.lean`    the SetEncodings capability state machine.
* `Wire/Session.lean` which pseudo-rectangles an update carries, the predicted rectangle headers,
  handshake expectations, ServerInit.

## What each theorem means for the property

* `count_eq_emitted_*`         "each FramebufferUpdate announces exactly the number of rectangles that
                               follow": the planning count of one region rectangle equals the number of
                               rectangles the encoder emits, for every w, h ≥ 1.
* `tight_unknown_iff_search`, `tight_exact_count_never_searches`
                               Tight: the count is 0 exactly when the emitter searches for solid areas; an exact
                               count is never followed by a content-dependent split.
* `announced_eq_following`     the announced total equals the rectangles that follow, below 65535.
* `announced_open_form`        otherwise (Tight, unknown count) 65535 is announced, a LastRect marker
                               terminates the update and the client did enable LastRect.
* `nrects_wraps_counterexample`, `sentinel_collision_counterexample`
                               the excluded region (≥ 65535 rectangles) really fails — finding
                               `c03-nrects-16bit`, replayed on the real code (corpus/C03/known-nrects-*).
* `lengths_match*`             "every length field matches the bytes that follow": parse ∘ serialise = id.
* `compact_length_roundtrip`   Tight's 1–3 byte compact length: writer (thresholds from the C text) and strict
                               parser agree for every length < 2^22.
* `rects_inside_*`             emitted rectangles lie inside the region rectangle they come from, hence
                               inside the (announced) framebuffer when the region does.
* `only_advertised_current`    every capability flag set after any SetEncodings history is justified by the
                               LAST message's list; the two carry-overs (sticky preferred encoding,
                               enableExtendedClipboard) are explicit.
* `only_advertised*`           every encoding / pseudo-encoding of a predicted update is Raw or was listed by
                               the client (history form of the invariant, over all SetEncodings histories).
* `serverinit_real`            the ServerInit the model demands carries the real size, pixel format and
                               name, with a name length equal to the bytes that follow.

## Partial (`…_partial`) and why
* `rects_inside_scaled_partial`: for scaled clients the clamp of `rfbScaledCorrection` is proved on
  its integer tail only; the floating-point head is executed (Lean `Float` = IEEE double, opaque to
  the kernel) and compared with the real code on every run.
* Tight with solid-area search (client enabled LastRect and w·h ≥ 4096): number and geometry of the
  rectangles depend on the pixels; covered by `announced_open_form` (count unknown by design) and by
  the strict parser at run time.
* Hextile / Tight payload grammars: `lengths_match` holds for them through the generic `RectWF`
  (the parser's own walk); explicit constructor lemmas exist for Raw, CopyRect, RRE, CoRRE, Zlib,
  ZRLE, ZYWRLE, Ultra, cursors, all payload-free pseudo-encodings and Tight-fill.
-/
namespace VncModel.Props.C03
open VncModel.Wire VncModel.Gen.C03

/-! ## count = emission -/

/-- CoRRE: the recursion of `rfbSendRectEncodingCoRRE` emits `((w-1)/mw+1)*((h-1)/mh+1)` rectangles,
for every tile size ≥ 1 (the C recursion would not terminate for 0). -/
theorem count_eq_emitted_corre (mw mh x y w h : Nat) (hmw : 1 ≤ mw) (hmh : 1 ≤ mh)
    (hw : 1 ≤ w) (hh : 1 ≤ h) :
    (correSplit mw mh (correFuel w h) x y w h).length = correCount mw mh w h :=
  correSplit_length mw mh hmw hmh _ x y w h hw hh (by unfold correFuel; omega)

example : (correSplit 48 48 (correFuel 96 97) 0 0 96 97).length = correCount 48 48 96 97 :=
  count_eq_emitted_corre 48 48 0 0 96 97 (by decide) (by decide) (by decide) (by decide)
example : correCount 48 48 96 97 = 6 := by decide

/-- the guard of the Zlib/Ultra count expression and loop: `MAX_SIZE(w) / w` is never 0 (it is ≥ 2)
for a non-empty rectangle, however wide — no division by zero, the loop terminates -/
theorem maxLines_never_zero (R w : Nat) (hw : 1 ≤ w) : 2 ≤ maxLines R w := maxLines_ge_two R w hw

example : maxLines ZLIB_MAX_RECT_SIZE 20000 = 2 := by decide

/-- Zlib: `(h-1)/(ZLIB_MAX_SIZE(w)/w)+1` equals the number of iterations of the splitting loop -/
theorem count_eq_emitted_zlib (x y w h : Nat) (hw : 1 ≤ w) (hh : 1 ≤ h) :
    (zlibSplit x y w h).length = linesCount ZLIB_MAX_RECT_SIZE w h :=
  countFor_eq_emitted rfbEncodingZlib false ⟨x, y, w, h⟩ _ ⟨hw, hh⟩ (by
    simp [emitFor, rfbEncodingZlib, rfbEncodingCoRRE, rfbEncodingUltra]) |>.trans (by
    simp [countFor, rfbEncodingZlib, rfbEncodingCoRRE, rfbEncodingUltra])

example : (zlibSplit 0 0 256 128).length = 1 ∧ (zlibSplit 0 0 256 129).length = 2 := by decide

/-- Ultra: same shape with `ULTRA_MAX_SIZE` -/
theorem count_eq_emitted_ultra (x y w h : Nat) (hw : 1 ≤ w) (hh : 1 ≤ h) :
    (ultraSplit x y w h).length = linesCount ULTRA_MAX_RECT_SIZE w h :=
  countFor_eq_emitted rfbEncodingUltra false ⟨x, y, w, h⟩ _ ⟨hw, hh⟩ (by
    simp [emitFor, rfbEncodingCoRRE, rfbEncodingUltra]) |>.trans (by
    simp [countFor, rfbEncodingCoRRE, rfbEncodingUltra])

example : (ultraSplit 3 5 16385 5).length = 3 := by decide

/-- Tight / TightPng without solid-area search (client has no LastRect, or w·h < MIN_SPLIT_RECT_SIZE):
`rfbNumCodedRectsTight` equals the number of sub-rectangles of SendRectSimple's two loops -/
theorem count_eq_emitted_tight (lastRect : Bool) (x y w h : Nat) (hw : 1 ≤ w) (hh : 1 ≤ h)
    (hs : tightIsSimple lastRect w h = true) :
    (tightSimpleSplit x y w h).length = tightCount lastRect w h := by
  rw [tightSimpleSplit_length x y w h hw hh, tightCount_of_simple lastRect w h hs]

example : tightIsSimple true 4095 1 = true ∧ (tightSimpleSplit 0 0 4095 1).length = 2 := by decide
example : (tightSimpleSplit 0 0 2049 33).length = 4 := by decide

/-- **Tight: the count is exact precisely when the emitter cannot split by content.**
`rfbNumCodedRectsTight` returns 0 ("unknown") exactly when `SendRectEncodingTight` enters its
solid-area search (`enableLastRectEncoding && w*h ≥ MIN_SPLIT_RECT_SIZE`; the emitter's guard is the
complement — checked on the C text by T0, `tightSearchGuardChecked`; the counter's side by T1). -/
theorem tight_unknown_iff_search (lastRect : Bool) (w h : Nat) :
    tightCount lastRect w h = 0 ↔ tightIsSimple lastRect w h = false := by
  constructor
  · intro h0
    obtain ⟨hl, hs⟩ := tightCount_zero lastRect w h h0
    unfold tightIsSimple
    simp only [hl, Bool.not_true, Bool.false_or, decide_eq_false_iff_not]
    omega
  · intro hs
    cases hc : tightCount lastRect w h with
    | zero => rfl
    | succ n =>
      exfalso
      unfold tightIsSimple at hs
      cases lastRect with
      | false => simp at hs
      | true =>
        simp only [Bool.not_true, Bool.false_or, decide_eq_false_iff_not] at hs
        unfold tightCount at hc
        rw [if_pos ⟨rfl, by omega⟩] at hc
        cases hc

/-- hence: whenever the announced Tight count is exact (≠ 0) the emitter goes straight to
SendRectSimple — it cannot split further by content — and emits exactly that many rectangles;
whenever it may search for solid areas the count was 0, i.e. the update is announced as 0xFFFF and
closed by LastRect (`announced_open_form`). -/
theorem tight_exact_count_never_searches (lastRect : Bool) (x y w h : Nat) (hw : 1 ≤ w) (hh : 1 ≤ h)
    (hc : tightCount lastRect w h ≠ 0) :
    tightIsSimple lastRect w h = true ∧ (tightSimpleSplit x y w h).length = tightCount lastRect w h := by
  have hs : tightIsSimple lastRect w h = true := by
    cases hq : tightIsSimple lastRect w h with
    | true => rfl
    | false => exact absurd ((tight_unknown_iff_search lastRect w h).mpr hq) hc
  exact ⟨hs, count_eq_emitted_tight lastRect x y w h hw hh hs⟩

example : tightCount true 64 64 = 0 ∧ tightIsSimple true 64 64 = false := by decide
example : tightCount true 63 65 = 1 ∧ tightIsSimple true 63 65 = true := by decide
example : VncModel.Gen.C03.tightSearchGuardChecked = true := rfl

/-- all encodings at once: whenever the split is a function of the geometry, count = emission -/
theorem count_eq_emitted (enc : Nat) (lastRect : Bool) (g : Geo) (l : List Geo) (hp : g.pos)
    (he : emitFor enc lastRect g = some l) : l.length = countFor enc lastRect g :=
  countFor_eq_emitted enc lastRect g l hp he

example : ∃ l, emitFor rfbEncodingCoRRE false ⟨1, 2, 49, 48⟩ = some l ∧ l.length = 2 := ⟨_, rfl, by decide⟩

/-! ## announced count = rectangles that follow -/

/-- **Below 65535 rectangles the announced number is exactly the number of rectangles that follow**
(pseudo-rectangles + CopyRect rectangles + encoded rectangles), no LastRect marker is sent, for
every encoding, every region whose splits are determined by the geometry, every number of
CopyRect and pseudo-rectangles. -/
theorem announced_eq_following (enc : Nat) (lastRect : Bool) (gs : List Geo) (copyN pseudoN : Nat)
    (hk : AllKnown enc lastRect gs)
    (hsmall : copyN + sumCounts enc lastRect gs + pseudoN < nRectsSentinel) :
    emittedCount enc lastRect copyN pseudoN gs =
        some (nRectsField copyN (regionCount enc lastRect gs 0) pseudoN) ∧
    sendsLastRect (regionCount enc lastRect gs 0) = false := by
  have hr := regionCount_known enc lastRect gs hk 0
  have hg := emittedCount_go_known enc lastRect gs hk 0
  simp only [Nat.zero_add] at hr hg
  have h65 : nRectsSentinel = 65535 := rfl
  have hne : sumCounts enc lastRect gs ≠ nRectsSentinel := by omega
  have hsl : sendsLastRect (sumCounts enc lastRect gs) = false := by
    unfold sendsLastRect
    exact beq_false_of_ne hne
  rw [hr]
  refine ⟨?_, hsl⟩
  unfold emittedCount nRectsField
  rw [hg, hr]
  simp only [hsl, Bool.false_eq_true, if_false]
  rw [if_pos hne, Nat.mod_eq_of_lt (by omega)]
  congr 1
  omega

example : AllKnown rfbEncodingZlib false [⟨0, 0, 256, 129⟩, ⟨0, 200, 10, 10⟩] ∧
    sumCounts rfbEncodingZlib false [⟨0, 0, 256, 129⟩, ⟨0, 200, 10, 10⟩] = 3 := by
  refine ⟨?_, by decide⟩
  intro g hg
  simp only [List.mem_cons, List.not_mem_nil, or_false] at hg
  rcases hg with rfl | rfl <;> exact ⟨⟨by decide, by decide⟩, _, rfl⟩

/-- **The open form**: when the Tight planning loop meets a rectangle whose count is unknown, 65535
is announced, the LastRect marker is appended, and this happens only for a client that enabled
LastRect. -/
theorem announced_open_form (enc : Nat) (lastRect : Bool) (gs : List Geo) (copyN pseudoN : Nat)
    (ht : enc = rfbEncodingTight ∨ enc = rfbEncodingTightPng)
    (hex : ∃ g ∈ gs, countFor enc lastRect g = 0) :
    nRectsField copyN (regionCount enc lastRect gs 0) pseudoN = nRectsSentinel ∧
    sendsLastRect (regionCount enc lastRect gs 0) = true ∧ lastRect = true := by
  have hr := regionCount_sentinel enc lastRect gs ht hex 0
  refine ⟨by simp [nRectsField, hr], by simp [sendsLastRect, hr], ?_⟩
  obtain ⟨g, _, h0⟩ := hex
  unfold countFor at h0
  have e1 : enc ≠ rfbEncodingCoRRE := by rcases ht with rfl | rfl <;> decide
  have e2 : enc ≠ rfbEncodingUltra := by rcases ht with rfl | rfl <;> decide
  have e3 : enc ≠ rfbEncodingZlib := by rcases ht with rfl | rfl <;> decide
  rw [if_neg e1, if_neg e2, if_neg e3, if_pos ht] at h0
  exact (tightCount_zero lastRect g.w g.h h0).1

example : countFor rfbEncodingTight true ⟨0, 0, 64, 64⟩ = 0 := by decide

/-- **Excluded point, part 1 (finding `c03-nrects-16bit`)**: with 66048 Raw rectangles the field
announces 512 — the `(uint16_t)` cast wraps. -/
theorem nrects_wraps_counterexample (gs : List Geo) (hl : gs.length = 66048) :
    nRectsField 0 (regionCount rfbEncodingRaw false gs 0) 0 = 512 ∧
    emittedCount rfbEncodingRaw false 0 0 gs ≠ some 512 := by
  have hr := regionCount_raw false gs 0
  rw [hl] at hr
  refine ⟨by rw [hr]; decide, ?_⟩
  have hk : AllKnown rfbEncodingRaw false gs → False ∨ True := fun _ => Or.inr trivial
  clear hk
  -- emittedCount counts one rectangle per region rectangle
  have hgo : ∀ (l : List Geo) (acc : Nat),
      emittedCount.go rfbEncodingRaw false l acc = some (acc + l.length) := by
    intro l
    induction l with
    | nil => intro acc; simp [emittedCount.go]
    | cons g t ih =>
      intro acc
      have he : emitFor rfbEncodingRaw false g = some [g] := by
        simp [emitFor, rfbEncodingRaw, rfbEncodingCoRRE, rfbEncodingUltra, rfbEncodingZlib,
          rfbEncodingTight, rfbEncodingTightPng]
      simp only [emittedCount.go, he, List.length_cons, List.length_nil]
      rw [ih]
      congr 1
      omega
  unfold emittedCount
  rw [hgo gs 0, hr, hl]
  decide

/-- **Excluded point, part 2**: with exactly 65535 rectangles a client that never enabled LastRect
is sent 0xFFFF *and* a LastRect marker. -/
theorem sentinel_collision_counterexample (gs : List Geo) (hl : gs.length = 65535) :
    nRectsField 0 (regionCount rfbEncodingRaw false gs 0) 0 = nRectsSentinel ∧
    sendsLastRect (regionCount rfbEncodingRaw false gs 0) = true := by
  have hr := regionCount_raw false gs 0
  rw [hl] at hr
  rw [hr]
  exact ⟨by decide, by decide⟩

example : (List.replicate 65535 (⟨0, 0, 1, 1⟩ : Geo)).length = 65535 := List.length_replicate

/-! ## every length field matches the bytes that follow -/

/-- **parse ∘ serialise = id** on whole streams: the strict parser accepts exactly the serialised
bytes of well-formed messages and reconstructs them; in particular it consumes, for every
rectangle, exactly the bytes of that rectangle. -/
theorem lengths_match (c : PCtx) (ms : List ServerMsg) (hwf : ∀ m ∈ ms, MsgWF c m) :
    parseServer c (serMsgs ms) = some ms :=
  parseServer_serMsgs c ms hwf

/-- one message, followed by anything -/
theorem lengths_match_msg (c : PCtx) (m : ServerMsg) (wf : MsgWF c m) (rest : Bytes) :
    parseMsg c (serMsg m ++ rest) = some (m, rest) :=
  parseMsg_serMsg c m wf rest

/-- one rectangle, followed by anything -/
theorem lengths_match_rect (c : PCtx) (r : Rect) (wf : RectWF c r) (rest : Bytes) :
    parseRect c (serRect r ++ rest) = some (r, rest) :=
  parseRect_serRect c r wf rest

/-- non-vacuity: a FramebufferUpdate of one Raw, one CopyRect and one Zlib rectangle plus a
ServerCutText message is well-formed for a 16-bit client, hence round-trips -/
example : ∃ ms : List ServerMsg, ms.length = 2 ∧ ∀ m ∈ ms, MsgWF ⟨2, false, false⟩ m := by
  let c : PCtx := ⟨2, false, false⟩
  let r1 : Rect := ⟨⟨1, 2, 3, 1, rfbEncodingRaw⟩, [1, 2, 3, 4, 5, 6]⟩
  let r2 : Rect := ⟨⟨0, 0, 4, 4, rfbEncodingCopyRect⟩, be16 9 ++ be16 7⟩
  let r3 : Rect := ⟨⟨5, 5, 8, 8, rfbEncodingZlib⟩, be32 3 ++ [9, 9, 9]⟩
  have w1 : RectWF c r1 := rectWF_raw c 1 2 3 1 (by decide) (by decide) (by decide) (by decide) _ (by decide)
  have w2 : RectWF c r2 := rectWF_copyRect c 0 0 4 4 (by decide) (by decide) (by decide) (by decide) 9 7
  have w3 : RectWF c r3 := rectWF_lenPrefixed c 5 5 8 8 (by decide) (by decide) (by decide) (by decide)
    rfbEncodingZlib (Or.inl rfl) 3 (by decide) [9, 9, 9] rfl
  refine ⟨[.fbu 0 3 [r1, r2, r3], .cutText [0, 0, 0] 2 [104, 105]], rfl, ?_⟩
  intro m hm
  simp only [List.mem_cons, List.not_mem_nil, or_false] at hm
  rcases hm with rfl | rfl
  · refine MsgWF.fbuCounted 0 3 _ (by decide) (by decide) rfl (by decide) ?_
    intro r hr
    simp only [List.mem_cons, List.not_mem_nil, or_false] at hr
    rcases hr with rfl | rfl | rfl
    · exact ⟨w1, by decide⟩
    · exact ⟨w2, by decide⟩
    · exact ⟨w3, by decide⟩
  · exact MsgWF.cutText _ _ _ rfl (by decide) (by decide)

/-- **Tight compact length round trip** over every length the writer can produce (< 2^22): what
`rfbSendCompressedDataTight` writes (1–3 bytes; thresholds and masks read from the C text by T0) is read
back by the strict parser as the same length and the same number of length bytes — in particular at
127/128 and 16383/16384. -/
theorem compact_length_roundtrip (n : Nat) (hn : n < 4194304) (rest : Bytes) :
    compactLen (encCompact n ++ rest) = some (n, (encCompact n).length) :=
  compactLen_encCompact n hn rest

example : encCompact 16384 = [128, 128, 1] ∧ encCompact 16383 = [255, 127] ∧ encCompact 127 = [127] ∧
    encCompact 128 = [128, 1] := by decide

/-! ## rectangles stay inside -/

/-- every rectangle the encoders emit for a region rectangle lies inside that region rectangle
(CoRRE recursion, Zlib/Ultra bands, Tight's simple split, one-to-one encodings) -/
theorem rects_inside_region_rect (enc : Nat) (lastRect : Bool) (g : Geo) (l : List Geo)
    (he : emitFor enc lastRect g = some l) (q : Geo) (hq : q ∈ l) : q.inside g :=
  emitFor_inside enc lastRect g l he q hq

/-- hence inside the framebuffer announced to an unscaled client whenever the region rectangle is
(the update region is a subset of the requested region, which the server clips to its screen) -/
theorem rects_inside_announced_size (enc : Nat) (lastRect : Bool) (g : Geo) (l : List Geo) (W H : Nat)
    (hg : g.x + g.w ≤ W ∧ g.y + g.h ≤ H) (he : emitFor enc lastRect g = some l) (q : Geo) (hq : q ∈ l) :
    q.x + q.w ≤ W ∧ q.y + q.h ≤ H := by
  have := emitFor_inside enc lastRect g l he q hq
  unfold Geo.inside at this
  omega

example : ∃ l, emitFor rfbEncodingUltra false ⟨0, 0, 300, 200⟩ = some l ∧ l.length = 2 := ⟨_, rfl, by decide⟩

/-- scaled clients, integer tail of `rfbScaledCorrection` only: after
`if (x+w > to->width) w = to->width - x` the rectangle ends inside the scaled screen provided the
scaled origin does.  PARTIAL: that the floating-point head yields `x ≤ to->width` is not proved
(Lean's `Float` is opaque to the kernel); it is executed and compared with the real code. -/
theorem rects_inside_scaled_partial (x w tw : Nat) (hx : x ≤ tw) :
    x + (if x + w > tw then ((tw : Int) - x).toNat else w) ≤ tw := by
  split <;> omega

/-! ## only advertised encodings, pseudo-encodings -/

/-- capability state after a whole history of SetEncodings messages -/
def capsAfter (g : SrvCfg) : List (List Nat) → Caps
  | [] => {}
  | encs :: older => (setEncodings g (capsAfter g older) encs).1

/-- everything listed in any message of the history (newest first) -/
def histOf : List (List Nat) → List Nat
  | [] => []
  | encs :: older => histOf older ++ encs

/-- **Capability invariant over all SetEncodings histories**: whatever flag is set after any
sequence of SetEncodings messages (any subsets, any order, any repetition) is justified by a number
the client listed; the preferred encoding is Raw or was listed. -/
theorem only_advertised_caps (g : SrvCfg) (hist : List (List Nat)) :
    Adv (histOf hist) (capsAfter g hist) := by
  induction hist with
  | nil => exact adv_initial _
  | cons encs older ih => exact adv_setEncodings g ih encs

example : (capsAfter {} [[rfbEncodingCopyRect], [rfbEncodingHextile, rfbEncodingLastRect]]).preferred
    = some rfbEncodingHextile := by decide

theorem prefPixel_capsAfter (g : SrvCfg) (hist : List (List Nat)) : PrefPixel (capsAfter g hist) := by
  induction hist with
  | nil => intro p hp; simp [capsAfter] at hp
  | cons encs older ih => exact prefPixel_setEncodings g _ encs ih

/-- **The CURRENT list decides**: after any history of SetEncodings messages, every capability flag
that is set is justified by the LAST message's list (each message resets the flags).  The two
documented carry-overs are explicit: the preferred encoding may be the one in use before the message
(only when it is not in the list, i.e. the list names no pixel encoding — `lastPreferredEncoding`),
and `enableExtendedClipboard` is not covered (the handler never resets it). -/
theorem only_advertised_current (g : SrvCfg) (older : List (List Nat)) (encs : List Nat) :
    let k := capsAfter g (encs :: older)
    (k.useCopyRect = true → rfbEncodingCopyRect ∈ encs) ∧
    (k.useNewFBSize = true → rfbEncodingNewFBSize ∈ encs ∨ rfbEncodingExtDesktopSize ∈ encs) ∧
    (k.useExtDesktopSize = true → rfbEncodingExtDesktopSize ∈ encs) ∧
    (k.cursorShape = true → rfbEncodingXCursor ∈ encs ∨ rfbEncodingRichCursor ∈ encs) ∧
    (k.cursorShape = true → k.richCursor = false → rfbEncodingXCursor ∈ encs) ∧
    (k.richCursor = true → rfbEncodingRichCursor ∈ encs) ∧
    (k.cursorPos = true → rfbEncodingPointerPos ∈ encs) ∧
    (k.lastRect = true → rfbEncodingLastRect ∈ encs) ∧
    (k.led = true → rfbEncodingKeyboardLedState ∈ encs) ∧
    (k.supMsgs = true → rfbEncodingSupportedMessages ∈ encs) ∧
    (k.supEncs = true → rfbEncodingSupportedEncodings ∈ encs) ∧
    (k.identity = true → rfbEncodingServerIdentity ∈ encs) ∧
    (∀ p, k.preferred = some p →
      p ∈ encs ∨ p = rfbEncodingRaw ∨ (capsAfter g older).preferred = some p) := by
  intro k
  have hpp := prefPixel_capsAfter g older
  have a : Adv (encs ++ carry (capsAfter g older)) k := adv_setEncodings_current g _ encs
  have strip : ∀ e, e ≠ rfbEncodingExtendedClipboard → isPixelEncoding e = false →
      e ∈ encs ++ carry (capsAfter g older) → e ∈ encs := by
    intro e h1 h2 he
    rcases List.mem_append.mp he with h | h
    · exact h
    · exact absurd h (not_mem_carry _ hpp e h1 h2)
  refine ⟨fun h => strip _ (by decide) (by decide) (a.copyRect h),
    fun h => (a.newFBSize h).imp (strip _ (by decide) (by decide)) (strip _ (by decide) (by decide)),
    fun h => strip _ (by decide) (by decide) (a.extDesktop h),
    fun h => (a.cursorShape h).imp (strip _ (by decide) (by decide)) (strip _ (by decide) (by decide)),
    fun h h2 => strip _ (by decide) (by decide) (a.xCursor h h2),
    fun h => strip _ (by decide) (by decide) (a.richCursor h),
    fun h => strip _ (by decide) (by decide) (a.cursorPos h),
    fun h => strip _ (by decide) (by decide) (a.lastRect h),
    fun h => strip _ (by decide) (by decide) (a.led h),
    fun h => strip _ (by decide) (by decide) (a.supMsgs h),
    fun h => strip _ (by decide) (by decide) (a.supEncs h),
    fun h => strip _ (by decide) (by decide) (a.identity h), ?_⟩
  intro p hp
  rcases a.preferred p hp with h | h
  · exact Or.inr (Or.inl h)
  · rcases List.mem_append.mp h with h | h
    · exact Or.inl h
    · -- carried: the previous preferred encoding (the extended-clipboard number is no pixel encoding)
      have hpix := prefPixel_capsAfter g (encs :: older) p hp
      unfold carry at h
      simp only [List.mem_append, Option.mem_toList] at h
      rcases h with h | h
      · split at h
        · simp only [List.mem_singleton] at h
          rw [h] at hpix
          exact absurd hpix (by decide)
        · simp at h
      · exact Or.inr (Or.inr h)

example : (capsAfter {} [[rfbEncodingNewFBSize, rfbEncodingRaw], [rfbEncodingExtDesktopSize]]).useExtDesktopSize
    = false := by decide
example : (capsAfter {} [[rfbEncodingCopyRect], [rfbEncodingHextile]]).preferred = some rfbEncodingHextile := by
  decide

/-- **Only advertised encodings are used**: every encoding number of every rectangle the model
predicts for an update is Raw or occurs in the client's SetEncodings history — pseudo-rectangles,
CopyRect, encoded rectangles (including the Raw fall-backs of RRE / CoRRE / Zlib) and the LastRect
marker.  Hypotheses: the capability invariant (`only_advertised_caps`), CopyRect rectangles exist
only for a client that listed CopyRect (the copy region is only filled for `useCopyRect` clients,
C02), and the marker is not forced by the 16-bit collision (`announced_eq_following` /
`announced_open_form` show when that holds). -/
theorem only_advertised (s : Screen) (c : Conn) (o : HookObs) (H : List Nat) (a : Adv H c.caps)
    (hcopy : o.cpy ≠ [] → rfbEncodingCopyRect ∈ H)
    (hmark : sendsLastRect (regionCount c.enc c.caps.lastRect (viewRegion s c o) 0) = true →
      c.caps.lastRect = true) :
    ∀ p ∈ (planUpdate s c o).2.pats, ∀ e ∈ p.encs, e = rfbEncodingRaw ∨ e ∈ H := by
  intro p hp e he
  unfold planUpdate at hp
  simp only [List.mem_append] at hp
  rcases hp with ((hp | hp) | hp) | hp
  · exact Or.inr (pseudoPats_adv s c H a p hp e he)
  · -- CopyRect
    unfold copyPats at hp
    simp only [List.mem_map] at hp
    obtain ⟨g0, hg0, rfl⟩ := hp
    simp only [RPat.encs, List.mem_singleton] at he
    exact Or.inr (he ▸ hcopy (List.ne_nil_of_mem hg0))
  · rcases pixPats_adv _ _ _ p hp e he with h | h
    · -- the preferred encoding
      unfold Conn.enc at h
      cases hpref : c.caps.preferred with
      | none => rw [hpref] at h; exact Or.inl h
      | some v =>
        rw [hpref] at h
        simp only [Option.getD_some] at h
        exact h ▸ a.preferred v hpref
    · exact Or.inl h
  · unfold tailPats at hp
    split at hp
    · rename_i hs
      simp only [List.mem_singleton] at hp
      subst hp
      simp only [RPat.encs, List.mem_singleton] at he
      exact Or.inr (he ▸ a.lastRect (hmark hs))
    · simp at hp

/-! ## ServerInit -/

/-- **ServerInit reports the real screen**: the message the model demands (and the driver compares
the wire bytes with) parses back to the real width, height, pixel format and name, and its name
length field equals the number of name bytes that follow.  (The code cuts the name to 127 bytes —
`strncpy(…, 127)` — so does `realServerInit`.) -/
theorem serverinit_real (s : Screen) (hw : s.w < 65536) (hh : s.h < 65536)
    (hpf : s.pf.length = sz_rfbPixelFormat) (rest : Bytes) :
    parseServerInit (serverInitBytes s ++ rest) = some (realServerInit s, rest) ∧
    (realServerInit s).w = s.w ∧ (realServerInit s).h = s.h ∧ (realServerInit s).pf = s.pf ∧
    (realServerInit s).name = s.name.take 127 := by
  refine ⟨?_, rfl, rfl, rfl, rfl⟩
  apply parseServerInit_ser (realServerInit s) hw hh hpf
  show (s.name.take 127).length < 4294967296
  have := List.length_take_le 127 s.name
  omega

example : ∃ s : Screen, s.w = 800 ∧ s.pf.length = sz_rfbPixelFormat ∧ s.name.length = 200 :=
  ⟨{ w := 800, h := 600, pf := List.replicate 16 0, name := List.replicate 200 65 }, rfl, by decide,
   List.length_replicate⟩

end VncModel.Props.C03

/-! ## T1: the regenerated C count expressions are the model's count expressions

`VncModel.Gen.Leaf.{rectCount_CoRRE, rectCount_Ultra, rectCount_Zlib, rfbNumCodedRectsTight}` are
translated from /repo's current C source by `tools/c2lean.py` on every run (docs/T1.md): the bodies of
the per-encoding counting loops of `rfbSendFramebufferUpdate` and `rfbNumCodedRectsTight` (tight.c).
These wrappers are the proof obligations that break when the C expressions change; together with
`count_eq_emitted_*` they tie the *C text* of the planning half to the emission model. -/
namespace VncModel.Props.C03.T1
open VncModel.Wire VncModel.Gen.C03

/-- the CoRRE counting loop body as compiled now adds `correCount` -/
theorem code_rectCount_CoRRE_eq_model (n w h mw mh : Nat) (hw : 1 ≤ w) (hh : 1 ≤ h) :
    VncModel.Gen.Leaf.rectCount_CoRRE n w h mw mh = ((n + correCount mw mh w h : Nat) : Int) :=
  VncModel.Leaf.rectCount_CoRRE_eq n w h mw mh hw hh

/-- the Ultra counting loop body as compiled now adds `linesCount ULTRA_MAX_RECT_SIZE` -/
theorem code_rectCount_Ultra_eq_model (n w h : Nat) (hh : 1 ≤ h) :
    VncModel.Gen.Leaf.rectCount_Ultra n w h = ((n + linesCount ULTRA_MAX_RECT_SIZE w h : Nat) : Int) :=
  VncModel.Leaf.rectCount_Ultra_eq n w h hh

/-- the Zlib counting loop body as compiled now adds `linesCount ZLIB_MAX_RECT_SIZE` -/
theorem code_rectCount_Zlib_eq_model (n w h : Nat) (hh : 1 ≤ h) :
    VncModel.Gen.Leaf.rectCount_Zlib n w h = ((n + linesCount ZLIB_MAX_RECT_SIZE w h : Nat) : Int) :=
  VncModel.Leaf.rectCount_Zlib_eq n w h hh

/-- `rfbNumCodedRectsTight` as compiled now = `tightCount` -/
theorem code_rfbNumCodedRectsTight_eq_model (x y : Int) (w h : Nat) (hw : 1 ≤ w) (hh : 1 ≤ h)
    (lastRect : Bool) :
    VncModel.Gen.Leaf.rfbNumCodedRectsTight x y w h lastRect = ((tightCount lastRect w h : Nat) : Int) :=
  VncModel.Leaf.rfbNumCodedRectsTight_eq x y w h hw hh lastRect

example : VncModel.Gen.Leaf.rectCount_Zlib 3 100 400 = 3 + 2 := by decide

end VncModel.Props.C03.T1
