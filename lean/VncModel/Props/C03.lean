import VncModel.Wire.Session
namespace VncModel.Props.C03
open VncModel.Wire

theorem placeholder_rd16 (n : Nat) (h : n < 65536) (r : Bytes) : rd16 (be16 n ++ r) = some (n, r) :=
  rd16_be16 n h r

end VncModel.Props.C03
