import VncModel.Threads.Model
/-! C13 (work in progress): theorems are added below as they are proved. -/
namespace VncModel.Props.C13
open VncModel.Threads

theorem init_reach : Reach State.init := Reach.init

end VncModel.Props.C13
