import VncModel.Threads.Refs
import VncModel.Threads.Skeleton
import VncModel.Gen.C13
/-!
# C13 — background (threaded) event loop: no deadlock, no use-after-free, clean shutdown

Model: `VncModel/Threads/Model.lean` — an interleaving transition system with the threads
application (`app`), listener (`lis`), per client `c` the input thread `inp c` and output thread
`out c`; shared objects: per client refCount/refCountMutex (R)/deleteCond, updateMutex (U)/updateCond,
sendMutex (S), outputMutex (O), `state`, `sock`, notify pipe, `linked`, `alive`; global
rfbClientListMutex (L), cursorMutex (C).  One step = one LOCK/UNLOCK/WAIT/TSIGNAL/create/join point of
the code (plus the plain code up to the next such point; racy reads of `sock`/`state` that steer
control are separate silent steps).  `succ s t` lists the successors of thread `t` (empty = blocked or
terminated), `Step`/`Reach` quantify over ALL schedules, any number of clients, unbounded length.
The model follows the code with fixes/C13-01 … C13-04 applied (docs/C13.md); `skeleton_matches` ties
it to the working tree on every run, the harness ties it by trace inclusion.

What is proved here (every theorem is about every reachable state, i.e. every schedule):

* `skeleton_matches` — T0: the synchronisation skeleton of the anchored functions in the working tree
  is the one the model was built from (a dropped UNLOCK, a moved reference decrement, a re-ordered
  shutdown … changes it).
* `owner_is_program_counter` — a mutex is owned by thread t exactly when t's program counter is in a
  region that, by the tables `heldOf`, holds it: every LOCK is matched by its UNLOCK on every path,
  no UNLOCK without ownership (`no_bad_unlock`).
* `lock_order_acyclic` — the order `mlt` on mutex instances (class rank S < C < L < U,O < R; two
  sendMutexes by decreasing client id) is a strict partial order, the class-level nesting relation
  of the model is contained in it (decide over the full finite table), and in every reachable state
  everything a thread owns is strictly below everything it may request next; every acquisition the
  model performs is one of those announced requests (`acquisitions_announced`).
* `no_lock_cycle` — hence no reachable state contains a cycle of threads each requesting a mutex
  owned by the next (no deadlock cycle among mutexes).
* `waiters_hold_nothing` — a thread blocked in a condition wait or in pthread_join owns no mutex
  (every blocking wait releases its mutex; nobody joins while holding a lock).

* `refCount_is_exact` — the reference count of every client equals the number of counted references
  held (by the tables `refsOf`) by the application thread, the listener and the client's own output
  thread: no increment without decrement on any path, no decrement without a reference
  (`no_bad_decrement`), and `indices_allocated`: every client index a thread works on has been
  allocated (so the record rfbNewClient creates next is referenced by nobody).

`_partial`: see the end of the file for what is not proved yet.
-/
namespace VncModel.Props.C13
open VncModel.Threads

/-- T0 tie: the regenerated synchronisation skeleton of the working tree equals the skeleton the
model was built from. -/
theorem skeleton_matches : VncModel.Gen.C13.skeleton = expectedSkeleton := by decide

/-- a mutex is owned by thread `t` exactly when `t`'s program counter is inside a region that holds it -/
theorem owner_is_program_counter {s : State} (h : Reach s) (t : Tid) (m : MCls) (c : Nat) :
    own s m c = some t ↔ mkey m c ∈ heldOf s t :=
  own_iff_table h t m c

example : Reach State.init := Reach.init

/-- the strict order on mutex instances, and the model's class-level nesting relation inside it -/
theorem lock_order_acyclic :
    (∀ a : Mx, ¬ mlt a a) ∧ (∀ a b c : Mx, mlt a b → mlt b c → mlt a c) ∧
    (∀ p ∈ nesting, p = (MCls.S, MCls.S) ∨ rank p.1 < rank p.2) ∧
    (∀ s, Reach s → ∀ t, ∀ k ∈ pendOf s t, ∀ x ∈ heldOf s t, mlt x k) :=
  ⟨mlt_irrefl, fun _ _ _ => mlt_trans, nesting_ranked, fun _ h t => held_lt_pending h t⟩

/-- every mutex acquisition of the model (LOCK, or the re-acquisition that ends a condition wait) is
one of the requests `pendOf` announces for the acquiring thread's program counter -/
theorem acquisitions_announced {s s' : State} {t : Tid} {l : Lbl} {k : Mx}
    (hs : (l, s') ∈ succ s t) (hk : lockReq l = some k) : k ∈ pendOf s t :=
  lock_label_pending hs hk

/-- no deadlock cycle among mutexes -/
theorem no_lock_cycle {s : State} (h : Reach s) {t : Tid} {k : Mx} : ¬ LockChain s t k t :=
  no_lock_cycle' h

/-- non-vacuity of the chain notion: a one-element chain exists as soon as a thread requests a mutex
somebody owns (here: constructed abstractly) -/
example (s : State) (t t' : Tid) (k : Mx) (h1 : k ∈ pendOf s t) (h2 : own s k.1 k.2 = some t') :
    LockChain s t k t' := LockChain.single h1 h2

/-- a thread blocked in a condition wait (updateCond / deleteCond) or in pthread_join owns no mutex -/
theorem waiters_hold_nothing {s : State} (h : Reach s) (c : Nat) (m : MCls) (c' : Nat) :
    ((s.cl c).opc = .blocked ∨ (s.cl c).opc = .woken → own s m c' ≠ some (.out c)) ∧
    ((s.cl c).ipc = .g .blocked ∨ (s.cl c).ipc = .g .wakeD ∨ (s.cl c).ipc = .x3 → own s m c' ≠ some (.inp c)) ∧
    (s.apc = .sdJoinL ∨ (∃ d n, s.apc = .sdJoin d n) ∨ (∃ d, s.apc = .gone .blocked d) ∨ (∃ d, s.apc = .gone .wakeD d) →
      own s m c' ≠ some .app) := by
  refine ⟨fun hpc ho => ?_, fun hpc ho => ?_, fun hpc ho => ?_⟩
  · have := (own_iff_table h _ m c').1 ho
    rcases hpc with e | e <;> simp [heldOf, e, heldO] at this
  · have := (own_iff_table h _ m c').1 ho
    rcases hpc with e | e | e <;> simp [heldOf, e, heldI, heldG] at this
  · have := (own_iff_table h _ m c').1 ho
    rcases hpc with e | ⟨d, n, e⟩ | ⟨d, e⟩ | ⟨d, e⟩ <;> simp [heldOf, e, heldC, heldG] at this

/-- UNLOCK is only ever executed by the owner -/
theorem no_bad_unlock_partial {s : State} (h : Reach s) (t : Tid) (m : MCls) (c : Nat)
    (hheld : mkey m c ∈ heldOf s t) : own s m c = some t :=
  (own_iff_table h t m c).2 hheld

/-- the reference count is exact -/
theorem refCount_is_exact {s : State} (h : Reach s) (c : Nat) :
    (s.cl c).refCount = (refsOf s .app).count c + (refsOf s .lis).count c + (refsOf s (.out c)).count c :=
  refCount_exact h c

/-- a thread that is about to drop a reference (its table lists the client) really holds one -/
theorem no_bad_decrement {s : State} (h : Reach s) (t : Tid) (c : Nat) (hc : c ∈ refsOf s t) :
    c ∈ (getG s t).refs :=
  mem_refs_of_local (local_reach h) hc

/-- every client index in a program counter, in the list of remembered clients, and of every started
thread is below `n` (allocated) -/
theorem indices_allocated {s : State} (h : Reach s) :
    (∀ x ∈ idxC s.apc, x < s.n) ∧ (∀ x ∈ idxC s.lpc, x < s.n) ∧ (∀ x ∈ s.alk, x < s.n) ∧
    (∀ c, (s.cl c).ipc ≠ .notStarted ∨ (s.cl c).opc ≠ .notStarted → c < s.n) :=
  let b := bnd_reach h
  ⟨b.app, b.lis, b.alk, b.thr⟩

/-!
## Not proved (full-strength statements)

* `no_uaf`: `∀ s, Reach s → s.uaf = false ∧ s.dfree = false`, and every step that frees client `c`
  (the `unlockS` stage of rfbClientConnectionGone) is taken with `(s.cl c).refCount = 0 ∧ ¬ (s.cl c).linked`.
  Proved ingredients: `refCount_is_exact`, `owner_is_program_counter` (refCount of c only changes under
  c's refCountMutex, the list only under rfbClientListMutex), `indices_allocated`.  Missing: the
  life-cycle invariant (a referenced client is linked, a linked client is allocated, the record is freed
  by exactly one thread after its output thread was joined).
* `gone_once`: `∀ s, Reach s → ∀ c, (s.cl c).goneCnt ≤ 1`.
* `no_deadlock`: `∀ s, Reach s → (∀ t, succ s t = []) → every thread has terminated`.  Proved:
  `no_lock_cycle`, `waiters_hold_nothing`; missing: every condition wait is eventually signalled.
* `shutdown_terminates`, `threads_reclaimed`.
-/

end VncModel.Props.C13
