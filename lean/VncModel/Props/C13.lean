import VncModel.Threads.Sock
import VncModel.Threads.Skeleton
import VncModel.Gen.C13
/-!
# C13 — background (threaded) event loop: no deadlock, no use-after-free, clean shutdown

Model: `VncModel/Threads/Model.lean` — an interleaving transition system with the threads
application (`app`), listener (`lis`), per client `c` the input thread `inp c` and output thread
`out c`; shared objects: per client refCount/refCountMutex (R)/deleteCond, updateMutex (U)/updateCond,
sendMutex (S), outputMutex (O), `state`, `sock`, notify pipe, `linked`, `alive`; global
rfbClientListMutex (L), cursorMutex (C).  One step = one LOCK/UNLOCK/WAIT/TSIGNAL/create/join point of
the code (plus the plain code up to the next such point; racy reads of `sock`/`state` that steer
control are separate silent steps).  `succ s t` lists the successors of thread `t` (empty = blocked or
terminated), `Step`/`Reach` quantify over ALL schedules, any number of clients, unbounded length.
The model follows the code with fixes/C13-01 … C13-05 applied (docs/C13.md); `skeleton_matches` ties
it to the working tree on every run, the harness ties it by trace inclusion.

What is proved here (every theorem is about every reachable state, i.e. every schedule):

* `skeleton_matches` — T0: the synchronisation skeleton of the anchored functions in the working tree
  is the one the model was built from (a dropped UNLOCK, a moved reference decrement, a re-ordered
  shutdown … changes it).
* `owner_is_program_counter` — a mutex is owned by thread t exactly when t's program counter is in a
  region that, by the tables `heldOf`, holds it: every LOCK is matched by its UNLOCK on every path,
  no UNLOCK without ownership (`no_bad_unlock`).
* `lock_order_acyclic` — the order `mlt` on mutex instances (class rank S < C < L < U,O < R; two
  sendMutexes by decreasing client id) is a strict partial order, the class-level nesting relation
  of the model is contained in it (decide over the full finite table), and in every reachable state
  everything a thread owns is strictly below everything it may request next; every acquisition the
  model performs is one of those announced requests (`acquisitions_announced`).
* `no_lock_cycle` — hence no reachable state contains a cycle of threads each requesting a mutex
  owned by the next (no deadlock cycle among mutexes).
* `waiters_hold_nothing` — a thread blocked in a condition wait or in pthread_join owns no mutex
  (every blocking wait releases its mutex; nobody joins while holding a lock).

* `refCount_is_exact` — the reference count of every client equals the number of counted references
  held (by the tables `refsOf`) by the application thread, the listener and the client's own output
  thread: no increment without decrement on any path, no decrement without a reference
  (`no_bad_decrement`), and `indices_allocated`: every client index a thread works on has been
  allocated (so the record rfbNewClient creates next is referenced by nobody).

* `no_uaf`, `no_double_free` — under EVERY schedule no thread dereferences a client record that is not
  allocated (LOCK/UNLOCK/TSIGNAL on its mutexes and condition variables, reads / writes of its fields,
  reference counting), and `free` is reached only for a record that is still allocated.  They follow
  from the life-cycle invariant `Life` (Threads/Life.lean, LifeStep.lean): a linked record is allocated;
  a client a thread holds a counted reference on — or that the iterator has found under the list mutex
  and is about to reference, or whose refCountMutex it still holds after dropping its reference — is
  linked; the input thread's program counter determines "allocated"/"linked"; the output thread runs
  only between its creation and its join; a record under construction / failed-creation teardown
  belongs to exactly one calling thread; the unlink happens with refCount = 0 under both mutexes.
* `referenced_is_linked`, `unlinked_is_unreferenced`, `free_only_when_safe`,
  `freed_record_has_no_threads` — readable consequences of `Life`.
* `mutex_waits_resolve`, `owner_can_run_or_waits` — a thread that owns a mutex can step or waits for a
  higher owned mutex, so every mutex wait leads to a thread that can run (Threads/Progress.lean).
* `shutdown_wakeup_not_lost`, `output_join_cannot_hang` — the wake-up clientInput sends its output thread
  before joining it cannot be lost (Threads/Wake.lean).
* `socket_closed_only_under_outputMutex` — the descriptor of a client is closed only by a thread that owns
  that client's outputMutex (no writer of another thread is inside rfbWriteExact then).
* `gone_once` — clientGoneHook runs at most once per record, never before rfbClientConnectionGone
  reaches it, exactly once by the time the record is freed (Threads/Gone.lean).

`_partial`: see the end of the file for what is not proved yet.
-/
namespace VncModel.Props.C13
open VncModel.Threads

/-- T0 tie: the regenerated synchronisation skeleton of the working tree equals the skeleton the
model was built from. -/
theorem skeleton_matches : VncModel.Gen.C13.skeleton = expectedSkeleton := by decide

/-- a mutex is owned by thread `t` exactly when `t`'s program counter is inside a region that holds it -/
theorem owner_is_program_counter {s : State} (h : Reach s) (t : Tid) (m : MCls) (c : Nat) :
    own s m c = some t ↔ mkey m c ∈ heldOf s t :=
  own_iff_table h t m c

example : Reach State.init := Reach.init

/-- the strict order on mutex instances, and the model's class-level nesting relation inside it -/
theorem lock_order_acyclic :
    (∀ a : Mx, ¬ mlt a a) ∧ (∀ a b c : Mx, mlt a b → mlt b c → mlt a c) ∧
    (∀ p ∈ nesting, p = (MCls.S, MCls.S) ∨ rank p.1 < rank p.2) ∧
    (∀ s, Reach s → ∀ t, ∀ k ∈ pendOf s t, ∀ x ∈ heldOf s t, mlt x k) :=
  ⟨mlt_irrefl, fun _ _ _ => mlt_trans, nesting_ranked, fun _ h t => held_lt_pending h t⟩

/-- every mutex acquisition of the model (LOCK, or the re-acquisition that ends a condition wait) is
one of the requests `pendOf` announces for the acquiring thread's program counter -/
theorem acquisitions_announced {s s' : State} {t : Tid} {l : Lbl} {k : Mx}
    (hs : (l, s') ∈ succ s t) (hk : lockReq l = some k) : k ∈ pendOf s t :=
  lock_label_pending hs hk

/-- no deadlock cycle among mutexes -/
theorem no_lock_cycle {s : State} (h : Reach s) {t : Tid} {k : Mx} : ¬ LockChain s t k t :=
  no_lock_cycle' h

/-- non-vacuity of the chain notion: a one-element chain exists as soon as a thread requests a mutex
somebody owns (here: constructed abstractly) -/
example (s : State) (t t' : Tid) (k : Mx) (h1 : k ∈ pendOf s t) (h2 : own s k.1 k.2 = some t') :
    LockChain s t k t' := LockChain.single h1 h2

/-- a thread blocked in a condition wait (updateCond / deleteCond) or in pthread_join owns no mutex -/
theorem waiters_hold_nothing {s : State} (h : Reach s) (c : Nat) (m : MCls) (c' : Nat) :
    ((s.cl c).opc = .blocked ∨ (s.cl c).opc = .woken → own s m c' ≠ some (.out c)) ∧
    ((s.cl c).ipc = .g .blocked ∨ (s.cl c).ipc = .g .wakeD ∨ (s.cl c).ipc = .x3 → own s m c' ≠ some (.inp c)) ∧
    (s.apc = .sdJoinL ∨ (∃ d n, s.apc = .sdJoin d n) ∨ (∃ d, s.apc = .gone .blocked d) ∨ (∃ d, s.apc = .gone .wakeD d) →
      own s m c' ≠ some .app) := by
  refine ⟨fun hpc ho => ?_, fun hpc ho => ?_, fun hpc ho => ?_⟩
  · have := (own_iff_table h _ m c').1 ho
    rcases hpc with e | e <;> simp [heldOf, e, heldO] at this
  · have := (own_iff_table h _ m c').1 ho
    rcases hpc with e | e | e <;> simp [heldOf, e, heldI, heldG] at this
  · have := (own_iff_table h _ m c').1 ho
    rcases hpc with e | ⟨d, n, e⟩ | ⟨d, e⟩ | ⟨d, e⟩ <;> simp [heldOf, e, heldC, heldG] at this

/-- UNLOCK is only ever executed by the owner -/
theorem no_bad_unlock_partial {s : State} (h : Reach s) (t : Tid) (m : MCls) (c : Nat)
    (hheld : mkey m c ∈ heldOf s t) : own s m c = some t :=
  (own_iff_table h t m c).2 hheld

/-- the reference count is exact -/
theorem refCount_is_exact {s : State} (h : Reach s) (c : Nat) :
    (s.cl c).refCount = (refsOf s .app).count c + (refsOf s .lis).count c + (refsOf s (.out c)).count c :=
  refCount_exact h c

/-- a thread that is about to drop a reference (its table lists the client) really holds one -/
theorem no_bad_decrement {s : State} (h : Reach s) (t : Tid) (c : Nat) (hc : c ∈ refsOf s t) :
    c ∈ (getG s t).refs :=
  mem_refs_of_local (local_reach h) hc

/-- every client index in a program counter, in the list of remembered clients, and of every started
thread is below `n` (allocated) -/
theorem indices_allocated {s : State} (h : Reach s) :
    (∀ x ∈ idxC s.apc, x < s.n) ∧ (∀ x ∈ idxC s.lpc, x < s.n) ∧ (∀ x ∈ s.alk, x < s.n) ∧
    (∀ c, (s.cl c).ipc ≠ .notStarted ∨ (s.cl c).opc ≠ .notStarted → c < s.n) :=
  let b := bnd_reach h
  ⟨b.app, b.lis, b.alk, b.thr⟩

/-- **no use-after-free**: in every reachable state the ghost flag "a freed (or never allocated) client
record was dereferenced" is clear; the flag is raised by every LOCK / UNLOCK of a per-client mutex, every
TSIGNAL, every read or write of a record field and every reference-count operation of the model that
hits a record with `alive = false` -/
theorem no_uaf {s : State} (h : Reach s) : s.uaf = false := (safe_reach h).1

/-- **no double free**: `free(cl)` (last step of rfbClientConnectionGone) is only reached for a record
that is still allocated -/
theorem no_double_free {s : State} (h : Reach s) : s.dfree = false := (safe_reach h).2

/-- the ghost flags are live: a dereference of a record that is not allocated raises `uaf` (so
`no_uaf` is a statement about the model's dereferences, not about a constant) -/
example (s : State) (c : Nat) (h : (s.cl c).alive = false) : (touch s c).uaf = true := by
  simp [touch, h, raise]

/-- a client some thread holds a counted reference on is in the client list and allocated -/
theorem referenced_is_linked {s : State} (h : Reach s) (t : Tid) (c : Nat) (hc : c ∈ refsOf s t) :
    (s.cl c).linked = true ∧ (s.cl c).alive = true :=
  referenced_linked h t c hc

/-- a record that is not (or no longer) in the client list has reference count 0 -/
theorem unlinked_is_unreferenced {s : State} (h : Reach s) (c : Nat) (hc : (s.cl c).linked = false) :
    (s.cl c).refCount = 0 :=
  unlinked_unreferenced h c hc

/-- the thread about to execute `free(cl)` finds the record allocated, out of the list, with
reference count 0 and its output thread joined (or never started) -/
theorem free_only_when_safe {s : State} (h : Reach s) (c : Nat)
    (hc : (s.cl c).ipc = .g .unlockS ∨ s.apc = .gone .unlockS c ∨ s.lpc = .gone .unlockS c) :
    (s.cl c).alive = true ∧ (s.cl c).linked = false ∧ (s.cl c).refCount = 0 ∧ opcRun (s.cl c).opc = false :=
  free_is_safe h c hc

/-- once a record is freed neither of its threads is running any more -/
theorem freed_record_has_no_threads {s : State} (h : Reach s) (c : Nat) (hc : (s.cl c).alive = false) :
    ipcAlive (s.cl c).ipc = false ∧ opcRun (s.cl c).opc = false :=
  freed_has_no_threads h c hc

/-- the life-cycle invariant itself -/
theorem life_cycle {s : State} (h : Reach s) : Life s := life_reach h

/-- **the client-gone hook runs at most once** per client record, under every schedule; it has not run
while the record is being created or served or is still before the hook in rfbClientConnectionGone, and
it has run exactly once when rfbClientConnectionGone is past it — in particular when the input thread
has freed the record and ended -/
theorem gone_once {s : State} (h : Reach s) (c : Nat) :
    (s.cl c).goneCnt ≤ 1 ∧
    (iClass (s.cl c).ipc = 1 → (s.cl c).goneCnt = 0) ∧
    (iClass (s.cl c).ipc = 2 → (s.cl c).goneCnt = 1) ∧
    (∀ t, cClass (getC s t) = some (c, 1) → (s.cl c).goneCnt = 0) ∧
    (∀ t, cClass (getC s t) = some (c, 2) → (s.cl c).goneCnt = 1) :=
  let g := goneInv_reach h
  ⟨g.le c, g.ipre c, g.ipost c, fun t => g.cpre t c, fun t => g.cpost t c⟩

/-- reading of the classes: an input thread that has ended has run the hook exactly once -/
example {s : State} (h : Reach s) (c : Nat) (he : (s.cl c).ipc = .exited) : (s.cl c).goneCnt = 1 :=
  (gone_once h c).2.2.1 (by rw [he]; rfl)

/-- **mutex waits always resolve**: in every reachable state, if a thread requests a mutex that is
owned, some thread can take a step (the owner, or a thread further up the chain of owners — the chain
climbs in the lock order).  Hence no deadlock that involves mutexes only: no lock cycle, and no mutex
that stays locked because its owner has ended, sleeps in a condition wait or waits in pthread_join. -/
theorem mutex_waits_resolve {s : State} (h : Reach s) (k : Mx) (t t' : Tid)
    (hk : k ∈ pendOf s t) (ho : own s k.1 k.2 = some t') : ∃ t'', ∃ x, x ∈ succ s t'' :=
  mutex_wait_resolves h k t t' hk ho

/-- whoever owns a mutex can take a step, or is waiting for a mutex that somebody owns -/
theorem owner_can_run_or_waits {s : State} (h : Reach s) (t : Tid) (hh : heldOf s t ≠ []) :
    (∃ x, x ∈ succ s t) ∨ (∃ k, k ∈ pendOf s t ∧ own s k.1 k.2 ≠ none) :=
  holder_progress h t hh

/-- **the shutdown wake-up is not lost**: from the moment clientInput has stored RFB_SHUTDOWN and signalled
updateCond under updateMutex until it has joined its output thread, `state` stays RFB_SHUTDOWN and the
output thread is neither asleep in WAIT(updateCond) nor between its check of `state` and that WAIT -/
theorem shutdown_wakeup_not_lost {s : State} (h : Reach s) (c : Nat)
    (hi : (s.cl c).ipc = .x2 ∨ (s.cl c).ipc = .x3) :
    (s.cl c).st = .shutdown ∧ (s.cl c).opc ≠ .blocked ∧ (s.cl c).opc ≠ .inU ∧ (s.cl c).opc ≠ .notStarted := by
  have w := wake_reach h
  rcases hi with e | e
  · exact ⟨w.st_sd c (by rw [e]; rfl), (w.awake c (by rw [e]; rfl)).1, (w.awake c (by rw [e]; rfl)).2,
      w.started c (by rw [e]; rfl)⟩
  · exact ⟨w.st_sd c (by rw [e]; rfl), (w.awake c (by rw [e]; rfl)).1, (w.awake c (by rw [e]; rfl)).2,
      w.started c (by rw [e]; rfl)⟩

/-- ... so the pthread_join of the output thread never hangs: the output thread has ended, or some
thread of the system can take a step -/
theorem output_join_cannot_hang {s : State} (h : Reach s) (c : Nat) (hi : (s.cl c).ipc = .x3) :
    (s.cl c).opc = .exited ∨ ∃ t, ∃ x, x ∈ succ s t :=
  (output_join_progresses h c hi).2.2.2

/-- **the client socket is closed only under outputMutex**: the step that closes client c's descriptor
(`cl->sock = -1`, label `sock c`) is taken by a thread that owns outputMutex(c); so no other thread is
inside a write critical section of c (rfbWriteExact reads the descriptor after LOCK(outputMutex)) at
that moment, and while a thread holds outputMutex(c) the descriptor of c cannot be closed by anybody
else: a write performed under O(c) goes to the descriptor c has at that moment -/
theorem socket_closed_only_under_outputMutex {s s' : State} (h : Reach s) (t : Tid) (c : Nat)
    (hs : (Lbl.sock c, s') ∈ succ s t) :
    own s .O c = some t ∧ ∀ t', t' ≠ t → (MCls.O, c) ∉ heldOf s t' := by
  have key : own s .O c = some t := by
    cases t with
    | app => exact (sock_label_inp hs (fun _ => by simp)).elim
    | lis => exact (sock_label_inp hs (fun _ => by simp)).elim
    | out d => exact (sock_label_inp hs (fun _ => by simp)).elim
    | inp d =>
      have hd := (sock_label_inp' hs).1
      have hpc := (sock_label_inp' hs).2
      rw [hd]
      exact (own_iff_table h (.inp c) .O c).2 (by simp [heldOf, hpc, heldI, mkey, MCls.perClient])
  refine ⟨key, fun t' hne hm => ?_⟩
  have := (own_iff_table h t' .O c).2 (by simpa [mkey, MCls.perClient] using hm)
  rw [key] at this
  exact hne (Option.some.inj this).symm

/-!
## Not proved (full-strength statements)

* `no_deadlock`: `∀ s, Reach s → (∀ t, succ s t = []) → every thread has terminated`.  Proved:
  `no_lock_cycle`, `waiters_hold_nothing`, `mutex_waits_resolve` (everything that involves mutexes);
  `shutdown_wakeup_not_lost` / `output_join_cannot_hang` (the join of the output thread);
  missing: the waits on deleteCond (rfbClientConnectionGone waiting for references) and the joins in
  rfbShutdownServer are eventually satisfied (searched for by the scheduler's hang detection only).
* `shutdown_terminates`, `threads_reclaimed`.
-/

end VncModel.Props.C13
