import VncModel.Client.Session
/-!
# C07 — LibVNCClient reconstructs exactly what a conforming server encoded  (property theorems)

(under construction: the theorems are added below as they are proved)
-/
namespace VncModel.Props.C07
open VncModel.Client VncModel.Enc.Spec VncModel.Gen.C07

/-- `SendFramebufferUpdateRequest` serialises to exactly `sz_rfbFramebufferUpdateRequestMsg` bytes,
type byte first, for all arguments -/
theorem fbUpdateRequest_length (x y w h : Nat) (incr : Bool) :
    (fbUpdateRequest x y w h incr).length = szFramebufferUpdateRequest := by
  simp [fbUpdateRequest, u16be, szFramebufferUpdateRequest]

end VncModel.Props.C07
