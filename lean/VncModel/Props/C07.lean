import VncModel.Client.Requests
import VncModel.Client.RefineHex2
import VncModel.Client.Copy
import VncModel.Client.Reader
import VncModel.Client.RefineTrle
import VncModel.Client.RefineTight
import VncModel.Client.CPixSel
/-!
# C07 — LibVNCClient reconstructs exactly what a conforming server encoded  (property theorems)

## What is modelled (`VncModel/Client/*.lean`, tied to the code by `./check C07` on every run)
* `Basic.lean`  — `client->frameBuffer` (one `Pixel` per cell) and the three write primitives of
  vncviewer.c with their loop orders: `fillRectangle`, `copyRectangle`, `copyFromRect`.
* `Decode.lean` — the decoders as the C code does them: Raw (row batching through `client->buffer`),
  CopyRect, RRE, CoRRE (sub-rectangles buffered in one read, count guard), Hextile (bg/fg variables,
  coloured sub-rectangles clobber fg), TRLE (palette reuse, last_type), the ZRLE tile decoder
  (length checks, packed-palette shift loop, run-length accumulation).
* `Session.lean` — Zlib/ZRLE/Ultra/Tight containers (external codecs = oracle parameters), cursor
  shape, pseudo-encodings, message loop, handshake, the request builders.
* `Reader.lean` — `ReadFromRFBServer` over an arbitrarily segmented stream.
The *specification* is `VncModel.Enc.Spec` (C01) plus `Client/SpecExtra.lean` (strict Hextile).

## Theorems (for ALL inputs; `blit fb x y w h px` = framebuffer with the rectangle replaced by `px`)
* `client_decoder_refines_spec_{raw,rre,corre,hextile}`: if the specification decodes the
  rectangle payload to `px` then the client decoder returns TRUE, leaves the same rest of the
  stream and the framebuffer is `blit fb … px`.  With C01's `decode_encodeWith` this is "the
  client reconstructs exactly what any valid encoder produced".
* `client_decoder_refines_spec_zrle_tile` / `…_zrle_tiles`: the same for every ZRLE tile
  sub-encoding (raw, solid, packed palette 1/2/4 bit with row padding, plain RLE, palette RLE)
  and for the tile loop over the inflated data.
* `client_decoder_refines_spec_copyrect` + `copyrect_memmove`: CopyRect parses as specified and
  `CopyRectangleFromRectangle` is the simultaneous copy for all 8 directions of overlap.
* `read_buffering_invariant`, `read_segmentation_independent`.
* `client_requests_wellformed`.

## Also proved in round 2 (nothing is `_partial` any more)
* `client_decoder_refines_spec_trle_tile` / `…_trle`: every TRLE tile sub-encoding incl. palette
  reuse 127/129 with the `last_type` bookkeeping, the tile loop, the assembled rectangle.  Valid
  streams = accepted by the strict TRLE decoder (palette forgotten after a solid tile,
  SpecExtra.lean), on which `Spec.decodeTRLE` yields the same pixels.
* `client_decoder_refines_spec_tight` / `…_tight_session`: fill, copy, palette (2 colours: 1-bit
  padded rows; 3‥256: bytes), gradient; compact length; 12-byte rule; stream selection `t % 4`;
  `inflate` is a parameter on both sides (stream resets = low 4 control bits are the
  decompressor's business in `Spec.decodeTight` (`tightResetMask`) and in the model; that the C
  code resets exactly those streams, also on Fill/JPEG rectangles, is checked by the deterministic
  sessions of every run).
* `client_cpixel_selection`: `clientCPix f = f.cpix` for all 32-bpp true-colour formats with
  channel maxima `2^k-1` inside 32 bits, under `depth ≤ 24 ∨ ¬ (fitsLS ∨ fitsMS)`; for the
  complementary case the code deviates from the RFC (known finding `cpixel-depth`, example below).
* `client_decoder_refines_spec_zrle_data`: the ZRLE tile loop against `Spec.decodeZRLEData`
  without any side condition on tile lengths.

## Stated limits of the library (hypotheses of the theorems; RFC-valid but perverse streams)
* CoRRE: sub-rectangle count ≤ `RFB_BUFFER_SIZE/(4+bytespp)`; ZRLE: inflated tile data ≤
  `2·w·h·cpixel` bytes (container level, `handleZRLE`); Tight: rows fit the decompression window
  (`hrow`), gradient rows ≤ 2048 pixels, no one-colour palette.
* Hextile/TRLE: "strict" streams (see above) — where the RFC is silent the field behaviour is used.
* Zlib/Ultra/ZRLE/Tight: `inflate`/LZO/JPEG are parameters (trusted codecs).
* `SetColourMapEntries` is not consumed by the library; padding bits of pixels are masked in all
  comparisons.
-/
namespace VncModel.Props.C07
open VncModel.Client
open VncModel.Enc.Spec hiding encRaw encCopyRect encRRE encCoRRE encHextile encZlib encTight encUltra encTRLE encZRLE encZYWRLE encLastRect tightMinToCompress
open VncModel.Gen.C07

/-! ## client_decoder_refines_spec -/

theorem client_decoder_refines_spec_raw (bpp : Nat) (fb : FB) (x y w h : Nat) (bs : Bytes)
    (px : List Pixel) (rest : Bytes) (hbpp : 1 ≤ bpp) (hfit : w * bpp ≤ rfbBufferSize)
    (hW : x + w ≤ fb.w) (hH : y + h ≤ fb.h)
    (hsp : decodeRaw ⟨w, h⟩ bpp bs = some (px, rest)) :
    clientRaw bpp fb x y w h bs = some (blit fb x y w h px, rest) :=
  clientRaw_refines bpp fb x y w h bs px rest hbpp hfit hW hH hsp

theorem client_decoder_refines_spec_rre (bpp : Nat) (fb : FB) (rx ry rw rh : Nat) (bs : Bytes)
    (px : List Pixel) (rest : Bytes) (hW : rx + rw ≤ fb.w) (hH : ry + rh ≤ fb.h)
    (hsp : decodeRRE ⟨rw, rh⟩ bpp bs = some (px, rest)) :
    clientRRE bpp fb rx ry rw rh bs = some (blit fb rx ry rw rh px, rest) :=
  clientRRE_refines bpp fb rx ry rw rh bs px rest hW hH hsp

/-- CoRRE; `hguard`: the sub-rectangle count passes the guard of corre.c:49 (a count above
`RFB_BUFFER_SIZE/(4+bytespp)` — more bytes than Raw would need — is rejected by the library) -/
theorem client_decoder_refines_spec_corre (bpp : Nat) (fb : FB) (rx ry rw rh : Nat) (bs : Bytes)
    (px : List Pixel) (rest : Bytes) (hW : rx + rw ≤ fb.w) (hH : ry + rh ≤ fb.h)
    (hsp : decodeCoRRE ⟨rw, rh⟩ bpp bs = some (px, rest))
    (hguard : ∀ n r, readU32 bs = some (n, r) → correGuard bpp n = true) :
    clientCoRRE bpp fb rx ry rw rh bs = some (blit fb rx ry rw rh px, rest) :=
  clientCoRRE_refines bpp fb rx ry rw rh bs px rest hW hH hsp hguard

/-- Hextile, all flag combinations, bg/fg persistence over the tiles of the rectangle.
Valid streams = accepted by the strict decoder (foreground unspecified after a tile with coloured
sub-rectangles, see SpecExtra.lean); on those `Spec.decodeHextile` yields the same pixels. -/
theorem client_decoder_refines_spec_hextile (bpp : Nat) (fb : FB) (rx ry rw rh : Nat) (bs : Bytes)
    (px : List Pixel) (rest : Bytes) (hW : rx + rw ≤ fb.w) (hH : ry + rh ≤ fb.h)
    (hsp : decodeHextileStrict ⟨rw, rh⟩ bpp bs = some (px, rest)) :
    clientHextile bpp fb rx ry rw rh bs = some (blit fb rx ry rw rh px, rest) ∧
    decodeHextile ⟨rw, rh⟩ bpp bs = some (px, rest) :=
  clientHextile_refines_spec bpp fb rx ry rw rh bs px rest hW hH hsp

/-- every ZRLE tile sub-encoding (the tile is non-empty, as all tiles of `tileGrid` are) -/
theorem client_decoder_refines_spec_zrle_tile (cp : CPix) (tw th : Nat) (buf : Bytes) (px : List Pixel)
    (rest : Bytes) (hne : 1 ≤ tw * th) (hsp : decodeZRLETile cp tw th buf = some (px, rest)) :
    zrleTile cp tw th buf = some (px, rest) :=
  zrleTile_refines cp tw th buf px rest hne hsp

/-- the tile loop of `HandleZRLE` over the inflated data paints exactly the specification's tiles,
which is the rectangle `Spec.assemble` describes (`hlen`: every decoded tile has `w·h` pixels) -/
theorem client_decoder_refines_spec_zrle_tiles (cp : CPix) (fb : FB) (rx ry rw rh : Nat) (data : Bytes)
    (pxs : List (List Pixel)) (rest : Bytes) (hW : rx + rw ≤ fb.w)
    (hsp : decodeZRLETiles cp (tileGrid 64 ⟨rw, rh⟩) data = some (pxs, rest))
    (hlen : pxs.length = (tileGrid 64 ⟨rw, rh⟩).length ∧
      ∀ j (h1 : j < (tileGrid 64 ⟨rw, rh⟩).length) (h2 : j < pxs.length),
        (pxs[j]).length = ((tileGrid 64 ⟨rw, rh⟩)[j]).w * ((tileGrid 64 ⟨rw, rh⟩)[j]).h) :
    zrleTiles cp rx ry (tileGrid 64 ⟨rw, rh⟩) fb data =
      (blit fb rx ry rw rh (assemble 64 ⟨rw, rh⟩ pxs), true) := by
  rw [zrleTiles_refines cp rx ry _ fb data pxs rest (tileGrid_nonempty (by decide) _) hsp,
    blitTiles_eq_blit_assemble (by decide) ⟨rw, rh⟩ fb rx ry pxs hW hlen.1 hlen.2]

/-- CopyRect: the payload is parsed as specified; the effect is `copyFromRect` -/
theorem client_decoder_refines_spec_copyrect (fb : FB) (x y w h : Nat) (bs : Bytes) :
    clientCopyRect fb x y w h bs =
      (decodeCopyRect bs).map fun ((sx, sy), r) => (copyFromRect fb sx sy w h x y, r) := by
  simp only [clientCopyRect, decodeCopyRect]
  cases readU16 bs with
  | none => rfl
  | some p =>
    obtain ⟨sx, bs1⟩ := p
    simp only
    cases readU16 bs1 with
    | none => rfl
    | some q => obtain ⟨sy, r⟩ := q; rfl

/-- the tile loop of `HandleZRLE` against `Spec.decodeZRLEData` (no side conditions) -/
theorem client_decoder_refines_spec_zrle_data (cp : CPix) (fb : FB) (rx ry rw rh : Nat) (data : Bytes)
    (px : List Pixel) (rest : Bytes) (hW : rx + rw ≤ fb.w)
    (hsp : decodeZRLEData ⟨rw, rh⟩ cp data = some (px, rest)) :
    zrleTiles cp rx ry (tileGrid 64 ⟨rw, rh⟩) fb data = (blit fb rx ry rw rh px, true) := by
  simp only [decodeZRLEData] at hsp
  cases ht : decodeZRLETiles cp (tileGrid 64 ⟨rw, rh⟩) data with
  | none => simp [ht] at hsp
  | some q =>
    obtain ⟨pxs, r⟩ := q
    simp only [ht, Option.map_some, Option.some.injEq, Prod.mk.injEq] at hsp
    rw [← hsp.1]
    exact client_decoder_refines_spec_zrle_tiles cp fb rx ry rw rh data pxs r hW ht (zrleTiles_lengths cp _ _ _ _ ht)

/-- TRLE, one tile, every sub-encoding (raw, solid, packed 2‥16, plain RLE, palette RLE, reuse of
the previous palette packed / RLE) -/
theorem client_decoder_refines_spec_trle_tile (cp : CPix) (rawBuf : Nat) (fb : FB) (st : TrleSt) (x y tw th : Nat)
    (prev : List Pixel) (bs : Bytes) (px prev' : List Pixel) (rest : Bytes)
    (hrel : TrleRel prev st) (hW : x + tw ≤ fb.w) (hH : y + th ≤ fb.h)
    (hpalsz : st.pal.size = trlePaletteCells) (hbud : tw * th / 255 + cp.size + 2 ≤ rawBuf)
    (hsp : decodeTRLETile cp tw th prev bs = some ((px, prev'), rest)) :
    ∃ st', trleTile cp rawBuf fb st x y tw th bs = some ((blit fb x y tw th px, st'), rest) ∧
      TrleRel (trleStrictAfter (bs.headD 0).toNat prev') st' ∧ st'.pal.size = trlePaletteCells :=
  trleTile_refines cp rawBuf fb st x y tw th prev bs px prev' rest hrel hW hH hpalsz hbud hsp

/-- TRLE, whole rectangle -/
theorem client_decoder_refines_spec_trle (cp : CPix) (rawBuf : Nat) (fb : FB) (rx ry rw rh : Nat) (bs : Bytes)
    (px : List Pixel) (rest : Bytes) (hraw : cp.size + 3 ≤ rawBuf) (hW : rx + rw ≤ fb.w) (hH : ry + rh ≤ fb.h)
    (hsp : decodeTRLEStrict ⟨rw, rh⟩ cp bs = some (px, rest)) :
    clientTRLE cp rawBuf fb rx ry rw rh bs = some (blit fb rx ry rw rh px, rest) ∧
    decodeTRLE ⟨rw, rh⟩ cp bs = some (px, rest) :=
  clientTRLE_refines_spec cp rawBuf fb rx ry rw rh bs px rest hraw hW hH hsp

/-- Tight: `HandleTightBPP` obtains exactly the pixels of `Spec.decodeTight`, for every `inflate` -/
theorem client_decoder_refines_spec_tight (f : PixFmt) (infl : Nat → Bytes → Option Bytes) (w h : Nat) (bs : Bytes)
    (px : List Pixel) (rest : Bytes) (hbpp : f.bpp = 8 * f.bytespp)
    (hrow : ∀ bits, bits = 1 ∨ bits = 8 ∨ bits = 24 ∨ bits = f.bpp →
      (w * bits + 7) / 8 ≤ rfbBufferSize * bits / (bits + f.bpp) / 4 * 4)
    (hgrad : tightIsGradient bs = true → w * 3 ≤ tightThisRowCells)
    (hpal1 : tightOneColourPalette bs = false)
    (hinfl0 : ∀ id dd, infl id [] = some dd → dd.length < 12)
    (hsp : decodeTight {} infl f ⟨w, h⟩ bs = some (px, rest)) :
    ∃ used, tightDecode f infl w h bs = .ok (px, used, rest) :=
  tightDecode_refines f infl w h bs px rest hbpp hrow hgrad hpal1 hinfl0 hsp

/-- … and in a session: the framebuffer holds those pixels in the rectangle -/
theorem client_decoder_refines_spec_tight_session (s : St) (x y w h : Nat) (bs : Bytes) (px : List Pixel) (rest : Bytes)
    (hW : x + w ≤ s.fb.w) (hH : y + h ≤ s.fb.h) (hbpp : s.fmt.bpp = 8 * s.fmt.bytespp)
    (hrow : ∀ bits, bits = 1 ∨ bits = 8 ∨ bits = 24 ∨ bits = s.fmt.bpp →
      (w * bits + 7) / 8 ≤ rfbBufferSize * bits / (bits + s.fmt.bpp) / 4 * 4)
    (hgrad : tightIsGradient bs = true → w * 3 ≤ tightThisRowCells)
    (hpal1 : tightOneColourPalette bs = false)
    (hinfl0 : ∀ id dd, s.tightOracle id [] = some dd → dd.length < 12)
    (hsp : decodeTight {} s.tightOracle s.fmt ⟨w, h⟩ bs = some (px, rest)) :
    ∃ s', handleTight s x y w h bs = .ok (s', rest) ∧ s'.fb = blit s.fb x y w h px :=
  handleTight_refines s x y w h bs px rest hW hH hbpp hrow hgrad hpal1 hinfl0 hsp

/-- the CPIXEL layout chosen by the ZRLE/TRLE dispatch is the RFC's, under `depth ≤ 24 ∨ ¬fits3` -/
theorem client_cpixel_selection (f : PixFmt) (htc : f.trueColour = true)
    (hr : ChanOK f.rMax f.rShift) (hg : ChanOK f.gMax f.gShift) (hb : ChanOK f.bMax f.bShift)
    (hdepth : f.depth ≤ 24 ∨ ¬ (fitsLS f ∨ fitsMS f)) : clientCPix f = f.cpix :=
  clientCPix_eq_spec f htc hr hg hb hdepth

/-! ## copyrect_memmove -/

/-- for every relative position of source and destination (8 directions of overlap, no overlap,
identical) `CopyRectangleFromRectangle` leaves in every destination cell the ORIGINAL content of
the corresponding source cell and changes nothing else -/
theorem copyrect_memmove (fb : FB) (hwf : fb.WF) (sx sy w h dx dy : Nat)
    (hs : checkRect fb sx sy w h = true) (hd : checkRect fb dx dy w h = true) :
    copyFromRect fb sx sy w h dx dy = simCopy fb sx sy w h dx dy :=
  copyFromRect_eq_simCopy fb hwf sx sy w h dx dy hs hd

/-! ## read_buffering_invariant -/

theorem read_buffering_invariant (s : RdSt) (n : Nat) (hne : NonEmptyChunks s.chunks) :
    if n ≤ s.stream.length then
      ∃ s', readFrom s n = some (s.stream.take n, s') ∧ s'.stream = s.stream.drop n ∧ NonEmptyChunks s'.chunks
    else readFrom s n = none :=
  readFrom_spec s n hne

/-- two segmentations of the same remaining stream give the same bytes to the caller -/
theorem read_segmentation_independent (s t : RdSt) (n : Nat) (hs : NonEmptyChunks s.chunks)
    (ht : NonEmptyChunks t.chunks) (heq : s.stream = t.stream) :
    (readFrom s n).map (·.1) = (readFrom t n).map (·.1) := by
  have a := readFrom_spec s n hs
  have b := readFrom_spec t n ht
  rw [heq] at a
  by_cases hn : n ≤ t.stream.length
  · simp only [hn, if_true] at a b
    obtain ⟨s', h1, _⟩ := a
    obtain ⟨t', h2, _⟩ := b
    simp [h1, h2]
  · simp only [hn, if_false] at a b
    simp [a, b]

/-! ## client_requests_wellformed -/

/-- the three requests the library sends on its own have exactly the sizes of the protocol
structures (T0: `sz_rfb…Msg`), SetEncodings announces what it carries and at most
`MAX_ENCODINGS`, and an update request parses back to the arguments -/
theorem client_requests_wellformed (f : PixFmt) (encs : List String) (cursor newFB : Bool)
    (henc : encs.length ≤ 31) (x y w h : Nat) (incr : Bool)
    (hx : x < 65536) (hy : y < 65536) (hw : w < 65536) (hh : h < 65536) :
    (setPixelFormatMsg f).length = szSetPixelFormat ∧
    (setEncodingsMsg (encodingList encs cursor newFB)).length =
      szSetEncodings + 4 * (encodingList encs cursor newFB).length ∧
    (encodingList encs cursor newFB).length ≤ maxEncodings ∧
    readU16 ((setEncodingsMsg (encodingList encs cursor newFB)).drop 2) =
      some ((encodingList encs cursor newFB).length, (encodingList encs cursor newFB).flatMap u32be) ∧
    (fbUpdateRequest x y w h incr).length = szFramebufferUpdateRequest ∧
    parseFBUR (fbUpdateRequest x y w h incr) =
      some (msgFramebufferUpdateRequest, if incr then 1 else 0, x, y, w, h) := by
  have hle := encodingList_le encs cursor newFB henc
  refine ⟨setPixelFormatMsg_length f, setEncodingsMsg_length _, hle, ?_, fbUpdateRequest_length x y w h incr,
    parseFBUR_fbUpdateRequest incr hx hy hw hh⟩
  have : (encodingList encs cursor newFB).length < 65536 := by
    simp only [maxEncodings] at hle; omega
  simp only [setEncodingsMsg, List.cons_append, List.nil_append, List.drop_succ_cons, List.drop_zero]
  exact readU16_u16be this _

/-! ## non-vacuity: the hypotheses are met by concrete non-trivial values -/

/-- an RRE rectangle 3×2 at 8 bpp with one sub-rectangle decodes by the specification -/
example : decodeRRE ⟨3, 2⟩ 1 [0, 0, 0, 1, 7, 9, 0, 1, 0, 0, 0, 2, 0, 1, 0xAA] =
    some ([7, 9, 9, 7, 7, 7], [0xAA]) := by decide

example : decodeRaw ⟨2, 2⟩ 2 [1, 0, 2, 0, 3, 0, 4, 0, 5] = some ([1, 2, 3, 4], [5]) := by decide

/-- a ZRLE packed-palette tile 3×2 with two colours (1-bit rows, 5 padding bits each) -/
example : decodeZRLETile (.full 1) 3 2 [2, 10, 20, 0b10100000, 0b01000000, 0xEE] =
    some ([20, 10, 20, 10, 20, 10], [0xEE]) := by decide

/-- a ZRLE palette-RLE tile with a run whose length byte sequence crosses 255 is accepted -/
example : (decodeZRLETile (.full 1) 64 5 ([130, 1, 2, 128, 255, 44, 1, 129, 18])).isSome = true := by decide

/-- a TRLE stream: packed tile then reuse of its palette, accepted by the strict decoder -/
example : (decodeTRLEStrict ⟨20, 3⟩ (.full 1)
    ([2, 10, 20, 0xAA, 0xAA, 0x55, 0x55, 0xFF, 0x00, 127, 0xA0, 0x50, 0xF0])).isSome = true := by decide

/-- Tight hypotheses are satisfiable: rgb888 at 32 bpp, a 100-pixel wide rectangle -/
example : ∀ bits, bits = 1 ∨ bits = 8 ∨ bits = 24 ∨ bits = 32 →
    (100 * bits + 7) / 8 ≤ rfbBufferSize * bits / (bits + 32) / 4 * 4 := by
  intro bits h; rcases h with rfl | rfl | rfl | rfl <;> decide

/-- a Tight fill rectangle and a 2-colour palette rectangle below the 12-byte limit decode by the spec -/
example : decodeTight {} (fun _ _ => none) ⟨8, 8, false, true, 7, 7, 3, 0, 3, 6⟩ ⟨3, 2⟩ [0x80, 0x5A, 1] =
    some ([0x5A, 0x5A, 0x5A, 0x5A, 0x5A, 0x5A], [1]) := by decide
example : decodeTight {} (fun _ _ => none) ⟨8, 8, false, true, 7, 7, 3, 0, 3, 6⟩ ⟨3, 2⟩
    [0x40, 1, 1, 10, 20, 0b10100000, 0b01000000, 9] = some ([20, 10, 20, 10, 20, 10], [9]) := by decide

/-- channel hypotheses of `client_cpixel_selection` for rgb888 (shifts 16/8/0) -/
example : ChanOK 255 16 ∧ ChanOK 255 8 ∧ ChanOK 255 0 := ⟨⟨by decide, by decide⟩, ⟨by decide, by decide⟩, ⟨by decide, by decide⟩⟩

/-- overlapping copy down-right on a 4×4 framebuffer: the guards of `copyrect_memmove` hold -/
example : checkRect (FB.blank 4 4) 0 0 3 3 = true ∧ checkRect (FB.blank 4 4) 1 1 3 3 = true ∧
    (FB.blank 4 4).WF := by
  refine ⟨by decide, by decide, ?_⟩
  simp [FB.WF, FB.blank]

/-- a reader state with a part-filled buffer and three pieces -/
example : NonEmptyChunks [[1, 2], [3], [4, 5, 6]] := by
  intro c hc; simp at hc; rcases hc with h | h | h <;> simp [h]

/-- CPIXEL selection of the client = the specification's on the format catalogue of the check
(a test over a finite list, not the general theorem) … -/
example : (([⟨32, 24, false, true, 255, 255, 255, 16, 8, 0⟩, ⟨32, 24, false, true, 255, 255, 255, 0, 8, 16⟩,
    ⟨32, 24, true, true, 255, 255, 255, 16, 8, 0⟩, ⟨32, 24, false, true, 255, 255, 255, 24, 16, 8⟩,
    ⟨32, 24, true, true, 255, 255, 255, 24, 16, 8⟩, ⟨32, 30, false, true, 1023, 1023, 1023, 20, 10, 0⟩,
    ⟨32, 18, false, true, 63, 63, 63, 12, 6, 0⟩, ⟨16, 16, false, true, 31, 63, 31, 11, 5, 0⟩,
    ⟨8, 8, false, true, 7, 7, 3, 0, 3, 6⟩] : List PixFmt).all fun f => clientCPix f == f.cpix) = true := by decide

/-- … and the known finding `cpixel-depth`: at depth 32 the code still uses 3 bytes, the RFC 4 -/
example : clientCPix ⟨32, 32, false, true, 255, 255, 255, 16, 8, 0⟩ = .lo3 ∧
    (⟨32, 32, false, true, 255, 255, 255, 16, 8, 0⟩ : PixFmt).cpix = .full 4 := by decide

end VncModel.Props.C07
