import VncModel.Update.USpecProofs
import VncModel.Update.CopyOrder
/-!
# C02 — Clients converge to the framebuffer: no lost, stale or spurious updates

Property theorems (helper lemmas in `VncModel/Update/*`).

* `USpec` is the set-level specification of the update scheduling of one client (pixel sets
  `M` modified, `C` copy pending with offset `d`, `R` requested; `fb` server framebuffer, `pic` the
  client's picture).  Its transitions have every application / client / timing choice as a
  universally quantified parameter, so `Reach` ranges over all interleavings of draws, copies in
  any direction with equal or different offsets, incremental / non-incremental requests, updates
  with or without progressive slicing / coalescing.
* The executable region-level model `VncModel/Update/Model.lean` performs the same steps with the
  transliterated region operations of C11 and is compared exactly with the implementation on
  every run (`harness/c02.c` ⇄ `Driver/C02.lean`).
-/
namespace VncModel.Props.C02
open VncModel.USpec

variable {V : Type}

/-- **No lost or stale update, for all interleavings**: starting from a fresh connection (whole
screen scheduled as modified) every reachable state satisfies the convergence invariant: a screen
pixel that is not scheduled as modified equals the client's picture there (or, while a copy is
pending for it, the client's picture at the copy source). -/
theorem converge_invariant (S : PSet) (s0 s : SState V) (h0 : ∀ p, S p → s0.M p)
    (hr : Reach S s0 s) : Inv S s :=
  Inv_reach S s0 s (Inv_init S s0 h0) hr

/-- **Whenever the server has nothing more to send, the client's copy equals the framebuffer** on
every screen pixel (in particular on every requested one). -/
theorem idle_converged (S : PSet) (s0 s : SState V) (h0 : ∀ p, S p → s0.M p)
    (hr : Reach S s0 s) (hM : ∀ p, S p → ¬ s.M p) (hC : ∀ p, ¬ s.C p) :
    ∀ p, S p → s.pic p = s.fb p := by
  intro p hS
  exact ((converge_invariant S s0 s h0 hr p hS (hM p hS)).2 (hC p)).symm

/-- more generally, at any time every pixel outside the (still) modified and copy regions is
already correct in the client's picture -/
theorem unmodified_pixels_current (S : PSet) (s0 s : SState V) (h0 : ∀ p, S p → s0.M p)
    (hr : Reach S s0 s) (p : Pix) (hS : S p) (hM : ¬ s.M p) (hC : ¬ s.C p) :
    s.pic p = s.fb p :=
  ((converge_invariant S s0 s h0 hr p hS hM).2 hC).symm

/-- the invariant is inductive: each single transition preserves it (this is the statement that
is re-used for N clients: every client has its own `SState` over the shared `fb`, and a transition
of the screen is a transition of each of them) -/
theorem invariant_step (S : PSet) (s t : SState V) (hI : Inv S s) (hst : Step S s t) : Inv S t :=
  Inv_step S s t hI hst

/-- **CopyRect rectangles are ordered safely**: for every well-formed copy region and every
offset (all eight directions and zero), in the order in which `rfbSendCopyRegion` emits the
rectangles (`reverseX = dx > 0`, `reverseY = dy > 0`) no rectangle's source area intersects the
destination of an earlier rectangle. -/
theorem copyrect_order_safe (r : VncModel.Rgn.Region) (hwf : r.WF) (dx dy : Int) :
    (r.rects (decide (dx > 0)) (decide (dy > 0))).Pairwise
      (VncModel.Update.CopyOrder.Safe (dx, dy)) :=
  VncModel.Update.CopyOrder.rects_safe r hwf dx dy

/-- consequently a client that applies the CopyRects one after the other obtains exactly the
simultaneous copy the server-side bookkeeping (`Step.send`) assumes -/
theorem copyrect_sequential_eq_simultaneous (r : VncModel.Rgn.Region) (hwf : r.WF) (dx dy : Int)
    (pic : Pix → V) :
    VncModel.Update.CopyOrder.applySeq (dx, dy) pic
        (r.rects (decide (dx > 0)) (decide (dy > 0))) =
      VncModel.Update.CopyOrder.applySim (dx, dy) pic
        (r.rects (decide (dx > 0)) (decide (dy > 0))) :=
  VncModel.Update.CopyOrder.copy_sequential_eq_simultaneous r hwf dx dy pic

/-- the order matters: with the iteration order the unfixed `rfbDoCopyRegion` used
(`reverseY = dy < 0`) the two-band region of corpus/C02/docopy-order.ops is NOT safe -/
theorem copyrect_wrong_order_unsafe :
    ¬ ((VncModel.Rgn.Region.rects [⟨1, 2, [⟨0, 2, ()⟩]⟩, ⟨2, 4, [⟨0, 4, ()⟩]⟩]
        (decide ((0:Int) < 0)) (decide ((1:Int) < 0))).Pairwise
        (VncModel.Update.CopyOrder.Safe (0, 1))) := by
  intro h
  simp [VncModel.Rgn.Region.rects] at h
  have := h (0, 2)
  simp [VncModel.Update.CopyOrder.mem, psub] at this

/-! ## Non-vacuity -/

example : VncModel.Rgn.Region.WF [⟨1, 2, [⟨0, 2, ()⟩]⟩, ⟨2, 4, [⟨0, 4, ()⟩]⟩] := by
  simp [VncModel.Rgn.Region.WF, VncModel.Rgn.Sorted, VncModel.Rgn.SortedFrom,
        VncModel.Rgn.XList.WF]


/-- a fresh 2×2 connection satisfies the hypothesis of the theorems -/
example : ∀ p : Pix, (fun q : Pix => 0 ≤ q.1 ∧ q.1 < 2 ∧ 0 ≤ q.2 ∧ q.2 < 2) p →
    ({ fb := fun _ => (1 : Nat), pic := fun _ => 0, M := fun _ => True, C := fun _ => False,
       R := fun _ => False, d := (0, 0) } : SState Nat).M p := fun _ _ => trivial

/-- and a request followed by a full send reaches an idle state in which `pic = fb` is forced to
hold non-trivially (pic was 0 everywhere, fb is 1) -/
example : ∃ s : SState Nat,
    Reach (fun _ => True)
      { fb := fun _ => 1, pic := fun _ => 0, M := fun _ => True, C := fun _ => False,
        R := fun _ => False, d := (0, 0) } s ∧ (∀ p, ¬ s.M p) ∧ (∀ p, s.pic p = 1) := by
  refine ⟨_, Reach.tail (Reach.tail (Reach.refl _) (Step.request _ false (fun _ => True)))
    (Step.send _ (fun _ => True) (fun _ => False)), ?_, ?_⟩
  · intro p; simp [sendU0, sendUC, sendC1]
  · intro p; simp [sendU0, sendUC, sendC1]

end VncModel.Props.C02
