import VncModel.Update.USpecProofs
import VncModel.Update.CopyOrder
import VncModel.Update.Defer
import VncModel.Update.Refine
import VncModel.Update.RefineEnv
import VncModel.Update.RefineMulti
import VncModel.Leaf.EquivUpdate
/-!
# C02 — Clients converge to the framebuffer: no lost, stale or spurious updates

Property theorems (helper lemmas in `VncModel/Update/*`).

* `USpec` is the set-level specification of the update scheduling of one client (pixel sets
  `M` modified, `C` copy pending with offset `d`, `R` requested; `fb` server framebuffer, `pic` the
  client's picture).  Its transitions have every application / client / timing choice as a
  universally quantified parameter, so `Reach` ranges over all interleavings of draws, copies in
  any direction with equal or different offsets, incremental / non-incremental requests, updates
  with or without progressive slicing / coalescing.
* The executable region-level model `VncModel/Update/Model.lean` performs the same steps with the
  transliterated region operations of C11 and is compared exactly with the implementation on
  every run (`harness/c02.c` ⇄ `Driver/C02.lean`).
-/
namespace VncModel.Props.C02
open VncModel.USpec

variable {V : Type}

/-- **No lost or stale update, for all interleavings**: starting from a fresh connection (whole
screen scheduled as modified) every reachable state satisfies the convergence invariant: a screen
pixel that is not scheduled as modified equals the client's picture there (or, while a copy is
pending for it, the client's picture at the copy source). -/
theorem converge_invariant (S : PSet) (s0 s : SState V) (h0 : ∀ p, S p → s0.M p)
    (hr : Reach S s0 s) : Inv S s :=
  Inv_reach S s0 s (Inv_init S s0 h0) hr

/-- **Whenever the server has nothing more to send, the client's copy equals the framebuffer** on
every screen pixel (in particular on every requested one). -/
theorem idle_converged (S : PSet) (s0 s : SState V) (h0 : ∀ p, S p → s0.M p)
    (hr : Reach S s0 s) (hM : ∀ p, S p → ¬ s.M p) (hC : ∀ p, ¬ s.C p) :
    ∀ p, S p → s.pic p = s.fb p := by
  intro p hS
  exact ((converge_invariant S s0 s h0 hr p hS (hM p hS)).2 (hC p)).symm

/-- more generally, at any time every pixel outside the (still) modified and copy regions is
already correct in the client's picture -/
theorem unmodified_pixels_current (S : PSet) (s0 s : SState V) (h0 : ∀ p, S p → s0.M p)
    (hr : Reach S s0 s) (p : Pix) (hS : S p) (hM : ¬ s.M p) (hC : ¬ s.C p) :
    s.pic p = s.fb p :=
  ((converge_invariant S s0 s h0 hr p hS hM).2 hC).symm

/-- the invariant is inductive: each single transition preserves it (this is the statement that
is re-used for N clients: every client has its own `SState` over the shared `fb`, and a transition
of the screen is a transition of each of them) -/
theorem invariant_step (S : PSet) (s t : SState V) (hI : Inv S s) (hst : Step S s t) : Inv S t :=
  Inv_step S s t hI hst

/-- **CopyRect rectangles are ordered safely**: for every well-formed copy region and every
offset (all eight directions and zero), in the order in which `rfbSendCopyRegion` emits the
rectangles (`reverseX = dx > 0`, `reverseY = dy > 0`) no rectangle's source area intersects the
destination of an earlier rectangle. -/
theorem copyrect_order_safe (r : VncModel.Rgn.Region) (hwf : r.WF) (dx dy : Int) :
    (r.rects (decide (dx > 0)) (decide (dy > 0))).Pairwise
      (VncModel.Update.CopyOrder.Safe (dx, dy)) :=
  VncModel.Update.CopyOrder.rects_safe r hwf dx dy

/-- consequently a client that applies the CopyRects one after the other obtains exactly the
simultaneous copy the server-side bookkeeping (`Step.send`) assumes -/
theorem copyrect_sequential_eq_simultaneous (r : VncModel.Rgn.Region) (hwf : r.WF) (dx dy : Int)
    (pic : Pix → V) :
    VncModel.Update.CopyOrder.applySeq (dx, dy) pic
        (r.rects (decide (dx > 0)) (decide (dy > 0))) =
      VncModel.Update.CopyOrder.applySim (dx, dy) pic
        (r.rects (decide (dx > 0)) (decide (dy > 0))) :=
  VncModel.Update.CopyOrder.copy_sequential_eq_simultaneous r hwf dx dy pic

/-- the order matters: with the iteration order the unfixed `rfbDoCopyRegion` used
(`reverseY = dy < 0`) the two-band region of corpus/C02/docopy-order.ops is NOT safe -/
theorem copyrect_wrong_order_unsafe :
    ¬ ((VncModel.Rgn.Region.rects [⟨1, 2, [⟨0, 2, ()⟩]⟩, ⟨2, 4, [⟨0, 4, ()⟩]⟩]
        (decide ((0:Int) < 0)) (decide ((1:Int) < 0))).Pairwise
        (VncModel.Update.CopyOrder.Safe (0, 1))) := by
  intro h
  simp [VncModel.Rgn.Region.rects] at h
  have := h (0, 2)
  simp [VncModel.Update.CopyOrder.mem, psub] at this

/-! ## Non-vacuity -/

example : VncModel.Rgn.Region.WF [⟨1, 2, [⟨0, 2, ()⟩]⟩, ⟨2, 4, [⟨0, 4, ()⟩]⟩] := by
  simp [VncModel.Rgn.Region.WF, VncModel.Rgn.Sorted, VncModel.Rgn.SortedFrom,
        VncModel.Rgn.XList.WF]


/-- a fresh 2×2 connection satisfies the hypothesis of the theorems -/
example : ∀ p : Pix, (fun q : Pix => 0 ≤ q.1 ∧ q.1 < 2 ∧ 0 ≤ q.2 ∧ q.2 < 2) p →
    ({ fb := fun _ => (1 : Nat), pic := fun _ => 0, M := fun _ => True, C := fun _ => False,
       R := fun _ => False, d := (0, 0) } : SState Nat).M p := fun _ _ => trivial

/-- and a request followed by a full send reaches an idle state in which `pic = fb` is forced to
hold non-trivially (pic was 0 everywhere, fb is 1) -/
example : ∃ s : SState Nat,
    Reach (fun _ => True)
      { fb := fun _ => 1, pic := fun _ => 0, M := fun _ => True, C := fun _ => False,
        R := fun _ => False, d := (0, 0) } s ∧ (∀ p, ¬ s.M p) ∧ (∀ p, s.pic p = 1) := by
  refine ⟨_, Reach.tail (Reach.tail (Reach.refl _) (Step.request _ false (fun _ => True)))
    (Step.send _ (fun _ => True) (fun _ => False)), ?_, ?_⟩
  · intro p; simp [sendU0, sendUC, sendC1]
  · intro p; simp [sendU0, sendUC, sendC1]

/-! ## The executable model refines the specification

`VncModel/Update/Refine.lean`.  Abstraction `absS c fb pic`: the pixel sets (`dset`) of the model's
three regions, `d = (dx, dy)`, together with a framebuffer and a client picture.  `WFc c`: the three
regions are well-formed (C11).  `S scr`: the pixels of the screen.  For every operation of the
executable model — the functions the driver runs against the C code — well-formedness is
preserved and the abstract states are related by the corresponding `Step` of the specification;
hence the convergence theorems above hold for the executable model itself (`model_converges`,
`model_idle_converged`), for ALL sequences of operations, all region shapes, offsets, screen and
cursor geometries, progressive-slice heights and maxRectsPerUpdate values.  Nothing is `_partial`.
-/
section Refinement
open VncModel.Rgn VncModel.Update VncModel.Update.Refine
open Classical

/-- rfbMarkRegionAsModified after the application drew (anything) inside `r`: `Step.draw`. -/
theorem refines_mark (scr : Screen) (c : Client) (r : Region) (hc : WFc c) (hr : r.WF)
    (fb fb' pic : Pix → V) (hfb : ∀ p, S scr p → ¬ dset r p → fb' p = fb p) :
    WFc (markRegion c r) ∧ Step (S scr) (absS c fb pic) (absS (markRegion c r) fb' pic) :=
  ⟨markRegion_wf c r hc hr, markRegion_step (S scr) c r hc hr fb fb' pic hfb⟩

/-- the rectangle rfbMarkRectAsModified marks is the normalised argument rectangle intersected
with the screen (non-empty), so it lies inside the screen -/
theorem mark_clip_inside (scr : Screen) (x1 y1 x2 y2 a b c d : Int)
    (h : markClip scr x1 y1 x2 y2 = some (a, b, c, d)) :
    (a = max (min x1 x2) 0 ∧ c = min (max x1 x2) scr.width ∧ a < c ∧
     b = max (min y1 y2) 0 ∧ d = min (max y1 y2) scr.height ∧ b < d) ∧
    ∀ p, dset (Region.rect a b c d) p → S scr p :=
  ⟨markClip_some scr x1 y1 x2 y2 a b c d h, markClip_inside scr x1 y1 x2 y2 a b c d h⟩

/-- SetEncodings (CopyRect flag, cursor-shape enabling with its cursor-box redraw): a `Step.draw`
that changes no pixel -/
theorem refines_setEncodings (scr : Screen) (c : Client) (cr cs : Bool) (hc : WFc c)
    (fb pic : Pix → V) :
    WFc (setEncodings scr c cr cs) ∧
    Reach (S scr) (absS c fb pic) (absS (setEncodings scr c cr cs) fb pic) :=
  ⟨setEncodings_wf scr c cr cs hc, setEncodings_reach (S scr) scr c cr cs hc fb pic⟩

/-- rfbDoCopyRegion + rfbScheduleCopyRegion for a well-formed destination region whose source lies
on the screen: one of `Step.copyNoCR` / `copyNew` / `copySame` (which one is decided exactly as the
code decides: useCopyRect, pending copy empty, offsets equal), with the soft-cursor additions as
`extra`. -/
theorem refines_copy (scr : Screen) (c : Client) (D : Region) (dx dy : Int) (hc : WFc c)
    (hD : D.WF) (hsrc : ∀ p, dset D p → S scr (psub p (dx, dy))) (fb pic : Pix → V) :
    WFc (scheduleCopy scr c D dx dy) ∧
    Step (S scr) (absS c fb pic)
      (absS (scheduleCopy scr c D dx dy)
        (fun p => if dset D p then fb (psub p (dx, dy)) else fb p) pic) :=
  ⟨scheduleCopy_wf scr c D dx dy hc hD, scheduleCopy_step scr c D dx dy hc hD hsrc fb pic⟩

/-- the FramebufferUpdateRequest handler, for ALL field values: no step when the rectangle is
rejected, else `Step.request` with the clipped rectangle; and an accepted rectangle lies inside
the screen (for all `x, y ≥ 0`, in particular all uint16 values). -/
theorem refines_request (scr : Screen) (c : Client) (incr : Bool) (x y w h : Int) (hc : WFc c)
    (fb pic : Pix → V) :
    WFc (request scr c incr x y w h) ∧
    Reach (S scr) (absS c fb pic) (absS (request scr c incr x y w h) fb pic) ∧
    (∀ x' y' w' h', 0 ≤ x → 0 ≤ y → requestClip scr x y w h = some (x', y', w', h') →
      ∀ p, dset (Region.rect x' y' (x' + w') (y' + h')) p → S scr p) :=
  ⟨request_wf scr c incr x y w h hc, request_reach (S scr) scr c incr x y w h hc fb pic,
   fun x' y' w' h' hx hy hq => (requestClip_inside scr x y w h x' y' w' h' hx hy hq).2.2.2.2⟩

/-- rfbSendFramebufferUpdate: returning early is `Step.sendNothing`; sending is `Step.send`, the
client's new picture being `sendPic` = the picture `Step.send` prescribes for
`slice := slicePred scr c` (the progressive slice actually used; everything when slicing is off or
the bounding box is empty) and `extra := dset (suUpd6 scr c)` (the region finally emitted as pixel
data, after the soft-cursor boxes and the maxRectsPerUpdate bounding-box rule). -/
theorem refines_send (scr : Screen) (c : Client) (hc : WFc c) (fb pic : Pix → V) :
    WFc (sendUpdate scr c).1 ∧
    ((sendUpdate scr c).2 = none →
      Step (S scr) (absS c fb pic) (absS (sendUpdate scr c).1 fb pic)) ∧
    (∀ sent, (sendUpdate scr c).2 = some sent →
      Step (S scr) (absS c fb pic) (absS (sendUpdate scr c).1 fb (sendPic scr c fb pic)) ∧
      sent.raws = (suUpd6 scr c).rects false false ∧
      (∀ p, sendU0 (absS c fb pic) (slicePred scr c) p → dset (suUpd6 scr c) p)) :=
  ⟨sendUpdate_wf scr c hc, sendUpdate_step_none (S scr) scr c hc fb pic,
   fun sent hs => ⟨sendUpdate_step_some (S scr) scr c hc fb pic sent hs,
     (sendUpdate_sent scr c sent hs).2, sendU0_sub_raw scr c hc fb pic⟩⟩

/-- **The client really obtains that picture**: applying the emitted CopyRect messages one after
the other in the emitted order (each copies `[x,x+w)×[y,y+h)` from `(srcX, srcY)`, like
`memmove`) and then the emitted pixel rectangles (read from the framebuffer) yields `sendPic`. -/
theorem client_applies_update (scr : Screen) (c : Client) (hc : WFc c) (fb pic : Pix → V)
    (sent : Sent) (hs : (sendUpdate scr c).2 = some sent) :
    clientApply fb pic sent = sendPic scr c fb pic :=
  client_applies scr c hc fb pic sent hs

/-- **The executable model converges**: after ANY sequence of model operations (`MStep`: draw+mark,
SetEncodings, copy, request with arbitrary fields, rfbSendFramebufferUpdate, rfbUpdateClient — the
client applying each update as emitted) from a fresh client, the regions are well-formed and the
convergence invariant holds. -/
theorem model_converges (scr : Screen) (fb0 pic0 : Pix → V) (t : MState V)
    (h : MReach scr ⟨newClient scr, fb0, pic0⟩ t) :
    WFc t.c ∧ Inv (S scr) (absS t.c t.fb t.pic) :=
  model_inv scr fb0 pic0 t h

/-- **… and whenever its modifiedRegion and copyRegion are empty, the client's picture equals the
framebuffer on the whole screen.** -/
theorem model_idle_converged (scr : Screen) (fb0 pic0 : Pix → V) (t : MState V)
    (h : MReach scr ⟨newClient scr, fb0, pic0⟩ t)
    (hM : t.c.M.isEmpty = true) (hC : t.c.C.isEmpty = true) :
    ∀ p, S scr p → t.pic p = t.fb p :=
  VncModel.Update.Refine.model_idle_converged scr fb0 pic0 t h hM hC

/-- **… also while the pointer moves and the knobs change**: the same for any interleaving of model
operations with changes of the screen's pointer position, cursor shape / hot spot, progressive
slice height and maxRectsPerUpdate (`EStep.env`: anything but the framebuffer size) -/
theorem model_converges_env (scr0 : Screen) (fb0 pic0 : Pix → V) (y : Screen × MState V)
    (h : EReach (scr0, ⟨newClient scr0, fb0, pic0⟩) y) :
    WFc y.2.c ∧ Inv (S y.1) (absS y.2.c y.2.fb y.2.pic) :=
  model_inv_env scr0 fb0 pic0 y h

theorem model_idle_converged_env (scr0 : Screen) (fb0 pic0 : Pix → V) (y : Screen × MState V)
    (h : EReach (scr0, ⟨newClient scr0, fb0, pic0⟩) y)
    (hM : y.2.c.M.isEmpty = true) (hC : y.2.c.C.isEmpty = true) :
    ∀ p, S y.1 p → y.2.pic p = y.2.fb p :=
  VncModel.Update.Refine.model_idle_converged_env scr0 fb0 pic0 y h hM hC

/-- **1..N simultaneous clients**: draws and copies reach every client's bookkeeping and change the
one shared framebuffer, requests / SetEncodings / updates are per client, clients connect and
leave, the pointer and the knobs change in between (`NStep`).  In every reachable state every
connected client's regions are well-formed and its convergence invariant holds. -/
theorem clients_converge (scr0 : Screen) (fb0 : Pix → V) (st : NState V)
    (h : NReach ⟨scr0, fb0, []⟩ st) :
    ∀ cp ∈ st.cls, WFc cp.1 ∧ Inv (S st.scr) (absS cp.1 st.fb cp.2) :=
  multi_inv scr0 fb0 st h

/-- … and a client with nothing pending shows exactly the shared framebuffer -/
theorem clients_idle_converged (scr0 : Screen) (fb0 : Pix → V) (st : NState V)
    (h : NReach ⟨scr0, fb0, []⟩ st) (cp : Client × (Pix → V)) (hcp : cp ∈ st.cls)
    (hM : cp.1.M.isEmpty = true) (hC : cp.1.C.isEmpty = true) :
    ∀ p, S st.scr p → cp.2 p = st.fb p :=
  multi_idle_converged scr0 fb0 st h cp hcp hM hC

/-! ### Non-vacuity of the refinement theorems -/

/-- a 4×3 screen with a 2×2 cursor, slicing and coalescing switched on -/
def scrEx : Screen :=
  { width := 4, height := 3, cursor := ⟨2, 2, 0, 0⟩, cursorX := 1, cursorY := 1,
    progSlice := 2, maxRects := 1 }

example : WFc (newClient scrEx) := newClient_wf scrEx

/-- two clients of one screen; the application copies a region while both are connected
(hypothesis of `clients_converge`) -/
example (fb pic1 pic2 : Pix → Nat) :
    ∃ st : NState Nat, NReach ⟨scrEx, fb, []⟩ st ∧ st.cls.length = 2 :=
  ⟨_, NReach.tail
        (NReach.tail (NReach.tail (NReach.refl _) (NStep.connect _ pic1)) (NStep.connect _ pic2))
        (NStep.copy _ (Region.rect 1 1 3 3) 1 1 (rect_wf _ _ _ _) (by
          intro p hp
          have := (dset_rect 1 1 3 3 p).mp hp
          simp only [S, psub, scrEx]
          omega)),
   by simp⟩

/-- a history with a pointer move between a request and the update (hypothesis of `model_converges_env`) -/
example (fb pic : Pix → Nat) :
    EReach (scrEx, ⟨newClient scrEx, fb, pic⟩)
      ({ scrEx with cursorX := 3, cursorY := 2 },
       ⟨(sendUpdate { scrEx with cursorX := 3, cursorY := 2 }
          (request scrEx (newClient scrEx) false 0 0 4 3)).1, fb,
        afterSend fb pic (sendUpdate { scrEx with cursorX := 3, cursorY := 2 }
          (request scrEx (newClient scrEx) false 0 0 4 3)).2⟩) :=
  EReach.tail
    (EReach.tail
      (EReach.tail (EReach.refl _) (EStep.op _ _ _ (MStep.request _ fb pic false 0 0 4 3)))
      (EStep.env scrEx { scrEx with cursorX := 3, cursorY := 2 } _ rfl rfl))
    (EStep.op _ _ _ (MStep.send _ fb pic))

/-- a copy whose source lies on the screen (hypotheses of `refines_copy`) -/
example : (Region.rect 1 1 3 3).WF ∧
    ∀ p, dset (Region.rect 1 1 3 3) p → S scrEx (psub p (1, 1)) := by
  refine ⟨rect_wf _ _ _ _, fun p hp => ?_⟩
  rw [dset_rect] at hp
  simp only [S, psub, scrEx]
  omega

/-- an accepted request (hypothesis of the inside-the-screen clause of `refines_request`) with
clipping at work -/
example : requestClip scrEx 1 1 65535 65535 = some (1, 1, 3, 2) := by decide

/-- the hypotheses of `model_idle_converged` are satisfiable non-trivially: from a fresh client
whose picture (all 0) differs from the framebuffer (all 1), a full non-incremental request, a
sliced update (rows 0–1), an incremental request and a second sliced update (row 2) lead to an
idle state -/
example : ∃ t : MState Nat,
    MReach scrEx ⟨newClient scrEx, fun _ => 1, fun _ => 0⟩ t ∧
    t.c.M.isEmpty = true ∧ t.c.C.isEmpty = true := by
  refine ⟨_, MReach.tail (MReach.tail (MReach.tail (MReach.tail (MReach.refl _)
    (MStep.request _ _ _ false 0 0 4 3)) (MStep.send _ _ _))
    (MStep.request _ _ _ true 0 0 4 3)) (MStep.send _ _ _), ?_, ?_⟩ <;> decide

/-- a CopyRect client that is idle, then a copy is scheduled and an incremental request arrives:
the next update consists of one CopyRect (hypotheses of `refines_send` / `client_applies_update`
with a non-empty copy list) -/
def cEx : Client :=
  let idle := (sendUpdate scrEx (request scrEx (sendUpdate scrEx (request scrEx
    (setEncodings scrEx (newClient scrEx) true true) false 0 0 4 3)).1 true 0 0 4 3)).1
  request scrEx (scheduleCopy scrEx idle (Region.rect 1 1 3 3) 1 1) true 0 0 4 3

example : (sendUpdate scrEx cEx).2.map (·.copies) = some [⟨1, 1, 2, 2, 0, 0⟩] := by decide

example : WFc cEx := by
  have e : (cEx.M, cEx.C, cEx.R) =
      ([], [⟨1, 3, [⟨1, 3, ()⟩]⟩], [⟨0, 3, [⟨0, 4, ()⟩]⟩]) := by decide
  simp only [Prod.mk.injEq] at e
  simp [WFc, e.1, e.2.1, e.2.2, Region.WF, XList.WF, Sorted, SortedFrom]

end Refinement

end VncModel.Props.C02

/-! ## T1: the regenerated C leaf functions are the model's functions

The definitions `VncModel.Gen.Leaf.*` are translated from /repo's current C source by
`tools/c2lean.py` on every run; these theorems are the proof obligations that break when the C
functions change (see docs/T1.md). -/
namespace VncModel.Props.C02.T1

/-- the clip prologue of `rfbMarkRectAsModified` as compiled now = `Update.markClip` -/
theorem code_markClip_eq_model (s : VncModel.Update.Screen) (x1 y1 x2 y2 : Int) :
    VncModel.Gen.Leaf.rfbMarkRectAsModified_clip x1 y1 x2 y2 s.width s.height = VncModel.Update.markClip s x1 y1 x2 y2 :=
  VncModel.Leaf.rfbMarkRectAsModified_clip_eq s x1 y1 x2 y2
/-- the clipping tail of `rectSwapIfLEAndClip` as compiled now = `Update.requestClip` (16-bit wire values) -/
theorem code_requestClip_eq_model (s : VncModel.Update.Screen) (x y w h : Int)
    (hx : 0 ≤ x ∧ x < 65536) (hy : 0 ≤ y ∧ y < 65536) (hw : 0 ≤ w ∧ w < 65536) (hh : 0 ≤ h ∧ h < 65536) :
    VncModel.Leaf.optOfClip (VncModel.Gen.Leaf.rectSwapIfLEAndClip_tail x y w h s.width s.height) = VncModel.Update.requestClip s x y w h :=
  VncModel.Leaf.rectSwapIfLEAndClip_tail_eq s x y w h hx hy hw hh
/-- the rectangle `rfbRedrawAfterHideCursor` creates as compiled now = `Update.cursorBox` -/
theorem code_cursorBox_eq_model (s : VncModel.Update.Screen) (cx cy : Int) :
    (VncModel.Gen.Leaf.rfbRedrawAfterHideCursor_rect cx cy s.cursor.xhot s.cursor.yhot s.cursor.w s.cursor.h s.width s.height).map
      (fun r => VncModel.Rgn.Region.rect r.1 r.2.1 r.2.2.1 r.2.2.2) = VncModel.Update.cursorBox s cx cy :=
  VncModel.Leaf.rfbRedrawAfterHideCursor_rect_eq s cx cy
/-- `sraRgnCreateRect`'s guard as compiled now: degenerate rectangles give the empty region -/
theorem code_createRect_guard (x1 y1 x2 y2 : Int) :
    VncModel.Gen.Leaf.sraRgnCreateRect_guard x1 y1 x2 y2 = (if x1 ≥ x2 ∨ y1 ≥ y2 then none else some (x1, y1, x2, y2)) := rfl
end VncModel.Props.C02.T1

/-! ## Update deferral (`deferUpdateTime > 0`) -/
namespace VncModel.Props.C02.Defer
open VncModel.Update

/-- **Deferral only delays**: for every clock reading and every timer state a call of
`rfbUpdateClient` with `deferUpdateTime > 0` either leaves the client's regions untouched and sends
nothing, or does exactly what the undeferred call does — so every safety statement above (the
refinement to the set-level spec, hence the convergence invariant) carries over unchanged. -/
theorem deferral_only_delays (s : Screen) (defer : Int) (now : Int × Int) (t : Timed) :
    ((updateClientTimed s defer now t).1.c = t.c ∧ (updateClientTimed s defer now t).2 = none) ∨
    ((updateClientTimed s defer now t).1.c = (updateClient s t.c).1 ∧
     (updateClientTimed s defer now t).2 = (updateClient s t.c).2) :=
  updateClientTimed_cases s defer now t

/-- with `deferUpdateTime = 0` nothing is deferred -/
theorem no_deferral_when_zero (s : Screen) (now : Int × Int) (t : Timed) :
    (updateClientTimed s 0 now t).1.c = (updateClient s t.c).1 ∧
    (updateClientTimed s 0 now t).2 = (updateClient s t.c).2 :=
  updateClientTimed_zero s now t

/-- **Liveness under a fair clock**: once an update is pending and the deferral timer runs, any
call made more than `deferUpdateTime` ms after the timer started sends the update. -/
theorem deferral_fires (s : Screen) (defer : Int) (now : Int × Int) (t : Timed)
    (hp : updatePending s t.c = true) (hd : defer ≠ 0) (hs : t.startUsec ≠ 0)
    (hlate : (now.1 - t.startSec) * 1000 + Int.tdiv (now.2 - t.startUsec) 1000 > defer) :
    (updateClientTimed s defer now t).2 = (sendUpdate s t.c).2 :=
  updateClientTimed_fires s defer now t hp hd hs hlate

end VncModel.Props.C02.Defer
