import VncModel.Policy.Lemmas
import VncModel.Policy.ArgsLemmas
/-!
# C14 — Shared / non-shared session policy is enforced

Property theorems only (helper lemmas: `VncModel/Policy/Lemmas.lean`).  The model
(`VncModel/Policy/Model.lean`) mirrors the tail of `rfbProcessClientInitMessage`; it is tied to the
code by the correspondence run `harness/c14.c` ⇄ `Driver/C14.lean`.

Quantifiers: every client list, every configuration (all 8 flag combinations), every shared flag,
every history of connect / ClientInit / peer-close / reap events (unbounded).
-/
namespace VncModel.Props.C14
open VncModel.Policy

/-- A ClientInit of a client that is present, open and mid-handshake. -/
def Ready (cs : List Client) (i : Nat) (me : Client) : Prop :=
  cs.find? (fun c => c.id == i) = some me ∧ me.isOpen = true ∧ me.st = .handshake

/-- **(1) shared access never disconnects anybody**: if the newcomer is not exclusive, only the
newcomer's state changes (to NORMAL) and every client's open/closed status is unchanged. -/
theorem shared_never_disconnects (cfg : Cfg) (cs : List Client) (i : Nat) (shared : Bool)
    (me : Client) (hr : Ready cs i me) (hne : exclusive cfg me shared = false) :
    clientInit cfg cs i shared =
      cs.map (fun c => if c.id == i then { c with st := .normal } else c) ∧
    (clientInit cfg cs i shared).map (·.isOpen) = cs.map (·.isOpen) := by
  obtain ⟨hf, ho, hs⟩ := hr
  have h1 : clientInit cfg cs i shared =
      cs.map (fun c => if c.id == i then { c with st := .normal } else c) := by
    simp [clientInit, hf, ho, hs, hne]
  refine ⟨h1, ?_⟩
  rw [h1, List.map_map]
  apply List.map_congr_left
  intro c _
  by_cases h : c.id = i <;> simp [h]

/-- the ways a client is "not exclusive" named in the property statement: it asked for shared
access, or the screen is always-shared (in both cases on a screen not configured never-shared, which
takes precedence in the code), or it is a reverse connection. -/
theorem not_exclusive_cases (cfg : Cfg) (me : Client) (shared : Bool)
    (h : me.reverse = true ∨ (cfg.never = false ∧ (shared = true ∨ cfg.always = true))) :
    exclusive cfg me shared = false := by
  rcases h with h | ⟨hn, h | h⟩ <;> simp [exclusive, *]

/-- and conversely an inbound client is exclusive exactly when the screen is never-shared or it
asked for exclusive access on a screen that is not always-shared -/
theorem exclusive_iff (cfg : Cfg) (me : Client) (shared : Bool) :
    exclusive cfg me shared = true ↔
      me.reverse = false ∧ (cfg.never = true ∨ (cfg.always = false ∧ shared = false)) := by
  cases hr : me.reverse <;> cases hn : cfg.never <;> cases ha : cfg.always <;> cases shared <;>
    simp [exclusive, *]

/-- **(2) exclusive access on a disconnecting screen**: exact result — the newcomer becomes NORMAL,
every other open NORMAL client is closed, everything else (clients mid-handshake, already closed
ones) is untouched. -/
theorem exclusive_disconnects_others (cfg : Cfg) (cs : List Client) (i : Nat) (shared : Bool)
    (me : Client) (hr : Ready cs i me) (hex : exclusive cfg me shared = true)
    (hd : cfg.dont = false) :
    clientInit cfg cs i shared = cs.map (fun c =>
      if c.id == i then { c with st := .normal }
      else if c.isOpen && c.st == .normal then closeClient c else c) := by
  obtain ⟨hf, ho, hs⟩ := hr
  simp only [clientInit, hf, ho, hs, hex, hd]
  simp only [List.map_map]
  apply List.map_congr_left
  intro c _
  by_cases h : c.id = i
  · simp [h, isOtherNormal]
  · simp [h, isOtherNormal]

/-- (2) in the words of the property: the newcomer stays and is
served; no other client is both open and NORMAL afterwards; mid-handshake bystanders keep their
exact record. -/
theorem exclusive_disconnects_others_spec (cfg : Cfg) (cs : List Client) (i : Nat) (shared : Bool)
    (me : Client) (hr : Ready cs i me)
    (hex : exclusive cfg me shared = true) (hd : cfg.dont = false) :
    ({ me with st := .normal } ∈ clientInit cfg cs i shared) ∧
    (∀ c ∈ clientInit cfg cs i shared, c.id ≠ i → ¬ (c.isOpen = true ∧ c.st = .normal)) ∧
    (∀ c ∈ cs, c.id ≠ i → c.st = .handshake → c ∈ clientInit cfg cs i shared) := by
  rw [exclusive_disconnects_others cfg cs i shared me hr hex hd]
  obtain ⟨hf, ho, hs⟩ := hr
  obtain ⟨hmem, hid⟩ := find_mem cs i me hf
  refine ⟨?_, ?_, ?_⟩
  · exact List.mem_map.mpr ⟨me, hmem, by simp [hid]⟩
  · intro c hc hci
    obtain ⟨d, _, rfl⟩ := List.mem_map.mp hc
    by_cases h : d.id = i
    · simp [h] at hci
    · simp only [beq_iff_eq, h, if_false]
      by_cases h2 : (d.isOpen && d.st == .normal) = true
      · simp [h2, closeClient]
      · simp only [h2]
        intro hh
        simp at hh
        exact h2 (by simp [hh.1, hh.2])
  · intro c hc hci hst
    exact List.mem_map.mpr ⟨c, hc, by simp [hci, hst]⟩

/-- **(3) exclusive access on a screen configured not to disconnect**: exact result — if some other
client is fully connected the newcomer is closed and nobody else changes; otherwise the newcomer
simply becomes NORMAL.  Either way no other client's record changes. -/
theorem exclusive_refused_or_alone (cfg : Cfg) (cs : List Client) (i : Nat) (shared : Bool)
    (me : Client) (hr : Ready cs i me) (hex : exclusive cfg me shared = true)
    (hd : cfg.dont = true) :
    clientInit cfg cs i shared = cs.map (fun c =>
      if c.id == i then
        (if cs.any (isOtherNormal i) then closeClient { c with st := .normal }
         else { c with st := .normal })
      else c) := by
  obtain ⟨hf, ho, hs⟩ := hr
  have hany : (cs.map (fun c => if c.id == i then { c with st := .normal } else c)).any
      (isOtherNormal i) = cs.any (isOtherNormal i) := by
    rw [List.any_map]
    congr 1
    funext c
    by_cases h : c.id = i <;> simp [h, isOtherNormal]
  simp only [clientInit, hf, ho, hs, hex, hd, hany]
  by_cases ha : cs.any (isOtherNormal i) = true
  · simp only [ha, if_true, List.map_map]
    apply List.map_congr_left
    intro c _
    by_cases h : c.id = i <;> simp [h]
  · simp [ha]

/-- **(4) a never-shared screen never serves two fully connected inbound clients at once** — for
every configuration of the other two switches and every finite history of events. -/
theorem never_shared_at_most_one (cfg : Cfg) (hn : cfg.never = true) (ops : List Op) :
    (servedInbound (run cfg [] ops)).length ≤ 1 := by
  suffices h : ∀ (ops : List Op) (cs : List Client),
      ((ids cs).Nodup ∧ cs.countP served ≤ 1) →
      ((ids (run cfg cs ops)).Nodup ∧ (run cfg cs ops).countP served ≤ 1) by
    have := (h ops [] (by simp [ids])).2
    rw [servedInbound_eq, ← List.countP_eq_length_filter]
    exact this
  intro ops
  induction ops with
  | nil => intro cs h; simpa [run] using h
  | cons op ops ih =>
    intro cs h
    have hstep : (ids (step cfg cs op)).Nodup ∧ (step cfg cs op).countP served ≤ 1 := by
      obtain ⟨hnd, hcnt⟩ := h
      cases op with
      | connect id rev =>
        simp only [step]
        by_cases hex : cs.any (fun c => c.id == id) = true
        · simp [hex, hnd, hcnt]
        · rw [if_neg hex]
          refine ⟨?_, ?_⟩
          · simp only [ids, List.map_cons, List.nodup_cons]
            refine ⟨?_, hnd⟩
            intro hmem
            obtain ⟨c, hc, hci⟩ := List.mem_map.mp hmem
            exact hex (List.any_eq_true.mpr ⟨c, hc, by simp [hci]⟩)
          · simpa [List.countP_cons, served] using hcnt
      | peerClose id =>
        simp only [step]
        refine ⟨by rw [ids_map_keep]; exact hnd; intro c; by_cases h : c.id == id <;> simp [h, closeClient], ?_⟩
        rw [List.countP_map]
        refine Nat.le_trans (List.countP_mono_left ?_) hcnt
        intro c _ hc
        by_cases h : c.id == id
        · simp [Function.comp, h, closeClient, served] at hc
        · simpa [Function.comp, h] using hc
      | reap =>
        simp only [step]
        refine ⟨?_, ?_⟩
        · exact List.Nodup.sublist (List.Sublist.map _ List.filter_sublist) hnd
        · exact Nat.le_trans (List.Sublist.countP_le List.filter_sublist) hcnt
      | init i shared =>
        simp only [step]
        cases hf : cs.find? (fun c => c.id == i) with
        | none => simpa [clientInit, hf] using ⟨hnd, hcnt⟩
        | some me =>
          by_cases hrdy : (me.isOpen && me.st == .handshake) = true
          · have hr : Ready cs i me := ⟨hf, by simp_all, by simp_all⟩
            have hidle : cs.countP (fun c => c.id == i) ≤ 1 := countP_id_le_one cs i hnd
            by_cases hex : exclusive cfg me shared = true
            · -- inbound newcomer on a never-shared screen
              by_cases hd : cfg.dont = true
              · rw [exclusive_refused_or_alone cfg cs i shared me hr hex hd]
                refine ⟨by
                  rw [ids_map_keep]; exact hnd
                  intro c; by_cases h : c.id == i <;> simp [h, closeClient]
                  split <;> rfl, ?_⟩
                rw [List.countP_map]
                by_cases ha : cs.any (isOtherNormal i) = true
                · refine Nat.le_trans (List.countP_mono_left ?_) hcnt
                  intro c _ hc
                  by_cases h : c.id == i
                  · simp [Function.comp, h, ha, closeClient, served] at hc
                  · simpa [Function.comp, h] using hc
                · refine Nat.le_trans (List.countP_mono_left ?_) hidle
                  intro c hcm hc
                  by_cases h : c.id == i
                  · exact h
                  · exfalso
                    simp only [Function.comp, h] at hc
                    apply ha
                    refine List.any_eq_true.mpr ⟨c, hcm, ?_⟩
                    simp only [served, Bool.and_eq_true] at hc
                    simp only [isOtherNormal, Bool.and_eq_true]
                    exact ⟨⟨by simpa using h, hc.1.1⟩, hc.1.2⟩
              · have hd' : cfg.dont = false := by simpa using hd
                rw [exclusive_disconnects_others cfg cs i shared me hr hex hd']
                refine ⟨by
                  rw [ids_map_keep]; exact hnd
                  intro c; by_cases h : c.id == i <;> simp [h]
                  split <;> simp [closeClient], ?_⟩
                rw [List.countP_map]
                refine Nat.le_trans (List.countP_mono_left ?_) hidle
                intro c _ hc
                by_cases h : c.id == i
                · exact h
                · exfalso
                  simp only [Function.comp, h] at hc
                  by_cases h2 : (c.isOpen && c.st == .normal) = true
                  · simp [h2, closeClient, served] at hc
                  · simp only [h2] at hc
                    simp [served] at hc
                    exact h2 (by simp [hc.1.1, hc.1.2])
            · -- not exclusive although never-shared: must be a reverse connection
              have hex' : exclusive cfg me shared = false := by simpa using hex
              have hrev : me.reverse = true := by
                cases hrv : me.reverse
                · simp [exclusive, hn, hrv] at hex'
                · rfl
              rw [(shared_never_disconnects cfg cs i shared me hr hex').1]
              refine ⟨by
                rw [ids_map_keep]; exact hnd
                intro c; by_cases h : c.id == i <;> simp [h], ?_⟩
              rw [List.countP_map]
              refine Nat.le_trans (List.countP_mono_left ?_) hcnt
              intro c hcm hc
              by_cases h : c.id == i
              · have hcme : c = me := eq_of_find_nodup cs i me hnd hf c hcm (by simpa using h)
                have hmi : me.id = i := (find_mem cs i me hf).2
                subst hcme
                simp [Function.comp, hmi, served, hrev] at hc
              · simpa [Function.comp, h] using hc
          · simpa [clientInit, hf, hrdy] using ⟨hnd, hcnt⟩
    exact ih (step cfg cs op) hstep

/-! ## Non-vacuity: the hypotheses are met by concrete, non-trivial states -/

/-- two served clients and one mid-handshake bystander; client 3 arrives asking exclusive access -/
def exCs : List Client :=
  [ { id := 3, st := .handshake, reverse := false, isOpen := true },
    { id := 2, st := .handshake, reverse := false, isOpen := true },
    { id := 1, st := .normal, reverse := false, isOpen := true },
    { id := 0, st := .normal, reverse := true, isOpen := true } ]

example : Ready exCs 3 { id := 3, st := .handshake, reverse := false, isOpen := true } ∧
    (ids exCs).Nodup ∧
    exclusive ⟨false, false, false⟩ { id := 3, st := .handshake, reverse := false, isOpen := true }
      false = true := by
  refine ⟨⟨by decide, by decide, by decide⟩, by decide, by decide⟩

example : (clientInit ⟨false, false, false⟩ exCs 3 false).map (fun c => (c.id, c.isOpen, c.st)) =
    [(3, true, .normal), (2, true, .handshake), (1, false, .normal), (0, false, .normal)] := by
  decide

example : (clientInit ⟨false, false, true⟩ exCs 3 false).map (fun c => (c.id, c.isOpen, c.st)) =
    [(3, false, .normal), (2, true, .handshake), (1, true, .normal), (0, true, .normal)] := by
  decide

/-- the at-most-one bound is attained (so the theorem is not vacuous) -/
example : (servedInbound (run ⟨false, true, false⟩ []
    [.connect 0 false, .init 0 true, .connect 1 false, .init 1 true])).length = 1 := by decide

end VncModel.Props.C14

namespace VncModel.Props.C14
open VncModel.Policy

/-- the command-line switches configure exactly the three policy fields: after
`rfbProcessArguments` a field is set iff it was set before or its flag occurs -/
theorem parseArgs_spec (cfg : Cfg) (args : List String) :
    (parseArgs cfg args).always = (cfg.always || args.contains "-alwaysshared") ∧
    (parseArgs cfg args).never = (cfg.never || args.contains "-nevershared") ∧
    (parseArgs cfg args).dont = (cfg.dont || args.contains "-dontdisconnect") := by
  induction args generalizing cfg with
  | nil => simp [parseArgs]
  | cons a rest ih =>
    simp only [parseArgs]
    by_cases h1 : a = "-alwaysshared"
    · subst h1; have := ih { cfg with always := true }; simp_all [List.contains_cons]
    · by_cases h2 : a = "-nevershared"
      · subst h2; have := ih { cfg with never := true }; simp_all [List.contains_cons]
      · by_cases h3 : a = "-dontdisconnect"
        · subst h3; have := ih { cfg with dont := true }; simp_all [List.contains_cons]
        · have := ih cfg
          simp only [h1, h2, h3, if_false]
          simp_all [List.contains_cons, eq_comm]

end VncModel.Props.C14

namespace VncModel.Props.C14
open VncModel.Policy VncModel.Gen.C14

/-! ## The command-line path, faithfully: `rfbProcessArguments` with its whole option table

`processArgs` (Policy/Args.lean) follows the C loop token by token; its option table is
regenerated from cargs.c on every run.  The theorem below is its functional specification for
every command line that is a sequence of well-formed segments, for every set of registered
extensions (`ext` arbitrary): flags take effect wherever they stand, an option's value and an
extension's parameters are never mistaken for options, nothing else is, and exactly the unknown
tokens are left for the application. -/

theorem processArgs_segments (ext : Ext) (segs : List Seg) (h : AllOk ext segs)
    (cfg : Cfg) (kept : List String) :
    processArgs ext cfg kept (flatten segs) =
      ⟨segs.foldl applySeg cfg, kept.reverse ++ leftOf segs, true⟩ := by
  induction segs generalizing cfg kept with
  | nil => simp [flatten, processArgs, leftOf]
  | cons s ss ih =>
    obtain ⟨hs, hss⟩ := h
    cases s with
    | flag a =>
      obtain ⟨h1, h2, h3⟩ := hs
      simp only [flatten, Seg.toks, List.cons_append, List.nil_append]
      rw [processArgs.eq_def]
      simp only [h1, h2, h3, if_false, if_true]
      rw [ih hss]
      simp [applySeg, leftOf]
    | value a v =>
      obtain ⟨h1, h2⟩ := hs
      simp only [flatten, Seg.toks, List.cons_append, List.nil_append]
      rw [processArgs.eq_def]
      simp only [h1, h2, if_false, if_true]
      rw [ih hss]
      simp [applySeg, leftOf]
    | ext a more =>
      obtain ⟨hk, he⟩ := hs
      have h1 : a ∉ argHelp := fun h => hk (Or.inl h)
      have h2 : a ∉ argValue := fun h => hk (Or.inr (Or.inl h))
      have h3 : a ∉ argFlag := fun h => hk (Or.inr (Or.inr h))
      simp only [flatten, Seg.toks, List.cons_append]
      rw [processArgs.eq_def]
      have hne : ext (a :: (more ++ flatten ss)) ≠ 0 := by rw [he]; omega
      simp only [h1, h2, h3, hne, if_false]
      rw [he]
      have hd : (a :: (more ++ flatten ss)).drop (more.length + 1) = flatten ss := by
        simp [List.drop_append]
      rw [hd, ih hss]
      simp [applySeg, leftOf]
    | other a =>
      obtain ⟨hk, he⟩ := hs
      have h1 : a ∉ argHelp := fun h => hk (Or.inl h)
      have h2 : a ∉ argValue := fun h => hk (Or.inr (Or.inl h))
      have h3 : a ∉ argFlag := fun h => hk (Or.inr (Or.inr h))
      simp only [flatten, Seg.toks, List.cons_append, List.nil_append]
      rw [processArgs.eq_def]
      simp only [h1, h2, h3, he, if_false, if_true]
      rw [ih hss]
      simp [applySeg, leftOf]

/-- **the three sharing switches after a well-formed command line**: each is set iff it was set
before or its flag stands at an option position — also directly behind an extension's option. -/
theorem args_sharing_switches (ext : Ext) (segs : List Seg) (h : AllOk ext segs) (cfg : Cfg) :
    let r := processArgs ext cfg [] (flatten segs)
    r.ok = true ∧
    r.cfg.always = (cfg.always || segs.any (isFlag argAlwaysShared)) ∧
    r.cfg.never = (cfg.never || segs.any (isFlag argNeverShared)) ∧
    r.cfg.dont = (cfg.dont || segs.any (isFlag argDontDisconnect)) := by
  simp only [processArgs_segments ext segs h]
  exact ⟨trivial, foldl_applySeg_always segs cfg, foldl_applySeg_never segs cfg,
    foldl_applySeg_dont segs cfg⟩

/-- non-vacuity, on the extension the harness registers: `-chan 7 -nevershared -desktop -alwaysshared x`
is well formed; `-nevershared` behind the extension's option counts, `-alwaysshared` as the value
of `-desktop` does not -/
example : AllOk demoExt [.ext "-chan" ["7"], .flag "-nevershared", .value "-desktop" "-alwaysshared",
    .other "x"] := by
  simp [AllOk, SegOk, known, flatten, Seg.toks, demoExt, argHelp, argValue, argFlag]

/-! ## Where a client record comes from: the reverse-connection flag is history, not input -/

/-- in every history of arrivals — inbound connections, successful and FAILED reverse connections
(connect error, or the new-client hook refusing), ClientInits, closes, reaping — a record is
flagged `reverseConnection` only if a successful reverse connection created a record with its id,
and unflagged only if an inbound connection did -/
theorem origin_of_flag (cfg : Cfg) (evs : List Ev) :
    ∀ c ∈ run cfg [] (opsOf evs),
      (c.reverse = true → c.id ∈ reverseIds evs) ∧ (c.reverse = false → c.id ∈ inboundIds evs) := by
  suffices h : ∀ (evs0 evs : List Ev) (cs : List Client),
      (∀ c ∈ cs, (c.reverse = true → c.id ∈ reverseIds evs0) ∧
                 (c.reverse = false → c.id ∈ inboundIds evs0)) →
      ∀ c ∈ run cfg cs (opsOf evs),
        (c.reverse = true → c.id ∈ reverseIds (evs0 ++ evs)) ∧
        (c.reverse = false → c.id ∈ inboundIds (evs0 ++ evs)) by
    simpa using h [] evs [] (by simp)
  intro evs0 evs
  induction evs generalizing evs0 with
  | nil => intro cs h; simpa [opsOf, run] using h
  | cons e es ih =>
    intro cs h
    -- one event first
    have hstep : ∀ c ∈ run cfg cs e.ops,
        (c.reverse = true → c.id ∈ reverseIds (evs0 ++ [e])) ∧
        (c.reverse = false → c.id ∈ inboundIds (evs0 ++ [e])) := by
      have hmono_r : ∀ i, i ∈ reverseIds evs0 → i ∈ reverseIds (evs0 ++ [e]) := by
        intro i hi; exact reverseIds_append_left evs0 [e] i hi
      have hmono_i : ∀ i, i ∈ inboundIds evs0 → i ∈ inboundIds (evs0 ++ [e]) := by
        intro i hi; exact inboundIds_append_left evs0 [e] i hi
      cases e with
      | reverseFailed id =>
        intro c hc
        have := h c (by simpa [Ev.ops, run] using hc)
        exact ⟨fun hr => hmono_r _ (this.1 hr), fun hr => hmono_i _ (this.2 hr)⟩
      | inbound id =>
        intro c hc
        simp only [Ev.ops, run, List.foldl_cons, List.foldl_nil] at hc
        rcases step_origin cfg cs _ c hc with ⟨c0, h0, hid, hrv⟩ | heq
        · have := h c0 h0
          rw [hid, hrv] at this
          exact ⟨fun hr => hmono_r _ (this.1 hr), fun hr => hmono_i _ (this.2 hr)⟩
        · injection heq with h1 h2
          refine ⟨fun hr => (by rw [← h2] at hr; cases hr), fun _ => ?_⟩
          rw [← h1]; exact inboundIds_append_right evs0 [.inbound id] id (by simp [inboundIds])
      | reverseOk id =>
        intro c hc
        simp only [Ev.ops, run, List.foldl_cons, List.foldl_nil] at hc
        rcases step_origin cfg cs _ c hc with ⟨c0, h0, hid, hrv⟩ | heq
        · have := h c0 h0
          rw [hid, hrv] at this
          exact ⟨fun hr => hmono_r _ (this.1 hr), fun hr => hmono_i _ (this.2 hr)⟩
        · injection heq with h1 h2
          refine ⟨fun _ => ?_, fun hr => (by rw [← h2] at hr; cases hr)⟩
          rw [← h1]; exact reverseIds_append_right evs0 [.reverseOk id] id (by simp [reverseIds])
      | init i sh =>
        intro c hc
        simp only [Ev.ops, run, List.foldl_cons, List.foldl_nil] at hc
        rcases step_origin cfg cs _ c hc with ⟨c0, h0, hid, hrv⟩ | heq
        · have := h c0 h0
          rw [hid, hrv] at this
          exact ⟨fun hr => hmono_r _ (this.1 hr), fun hr => hmono_i _ (this.2 hr)⟩
        · cases heq
      | peerClose i =>
        intro c hc
        simp only [Ev.ops, run, List.foldl_cons, List.foldl_nil] at hc
        rcases step_origin cfg cs _ c hc with ⟨c0, h0, hid, hrv⟩ | heq
        · have := h c0 h0
          rw [hid, hrv] at this
          exact ⟨fun hr => hmono_r _ (this.1 hr), fun hr => hmono_i _ (this.2 hr)⟩
        · cases heq
      | reap =>
        intro c hc
        simp only [Ev.ops, run, List.foldl_cons, List.foldl_nil] at hc
        rcases step_origin cfg cs _ c hc with ⟨c0, h0, hid, hrv⟩ | heq
        · have := h c0 h0
          rw [hid, hrv] at this
          exact ⟨fun hr => hmono_r _ (this.1 hr), fun hr => hmono_i _ (this.2 hr)⟩
        · cases heq
    have := ih (evs0 ++ [e]) (run cfg cs e.ops) hstep
    have hrun : run cfg cs (opsOf (e :: es)) = run cfg (run cfg cs e.ops) (opsOf es) := by
      simp [opsOf, run, List.foldl_append]
    rw [hrun]
    simpa using this

/-- **(4′) never-shared, by origin**: on a never-shared screen, among the clients that came in
through the listening socket at most one is fully connected — whatever reverse connections were
attempted, failed or succeeded in between (ids of inbound and reverse arrivals distinct) -/
theorem never_shared_at_most_one_inbound (cfg : Cfg) (hn : cfg.never = true) (evs : List Ev)
    (hdis : ∀ i ∈ inboundIds evs, i ∉ reverseIds evs) :
    ((run cfg [] (opsOf evs)).filter
      (fun c => c.isOpen && c.st == .normal && (inboundIds evs).contains c.id)).length ≤ 1 := by
  refine Nat.le_trans ?_ (never_shared_at_most_one cfg hn (opsOf evs))
  rw [servedInbound_eq, ← List.countP_eq_length_filter, ← List.countP_eq_length_filter]
  apply List.countP_mono_left
  intro c hc hp
  simp only [Bool.and_eq_true, List.contains_iff_mem] at hp
  have ho := origin_of_flag cfg evs c hc
  have hrev : c.reverse = false := by
    cases hr : c.reverse
    · rfl
    · exact absurd (ho.1 hr) (hdis _ (by simpa using hp.2))
  simp [served, hp.1.1, hp.1.2, hrev]

/-- non-vacuity: after a failed reverse connection two inbound clients arrive on a never-shared
screen; the second takes over (it also displaces the reverse connection), one is served -/
example : ((run ⟨false, true, false⟩ [] (opsOf
    [.reverseFailed 9, .inbound 0, .init 0 true, .reverseOk 5, .init 5 true, .inbound 1, .init 1 true])).filter
      (fun c => c.isOpen && c.st == .normal)).map (fun c => (c.id, c.reverse)) = [(1, false)] := by
  decide

/-! ## The model's conditions are the source's conditions

`exclusiveGen`, `otherRefuseGen`, `otherCloseGen` are translated from the text of the policy block
of rfbProcessClientInitMessage on every run (tools/consts/c14.py, which also compares the rest of
the block literally).  A change of any of the three conditions in the C source changes these
definitions and breaks the equalities below, whether or not a generated history reaches it. -/

theorem exclusive_matches_source (cfg : Cfg) (c : Client) (shared : Bool) :
    exclusive cfg c shared = exclusiveGen c.reverse cfg.never cfg.always shared := by
  cases c with | mk id st rev o => cases cfg with | mk a n d =>
  cases rev <;> cases n <;> cases a <;> cases shared <;> rfl

/-- the iterator yields only open clients; among those both loops pick by the translated condition -/
theorem other_matches_source (i : Nat) (c : Client) :
    isOtherNormal i c = (c.isOpen && otherRefuseGen (c.id != i) (c.st == .normal)) ∧
    isOtherNormal i c = (c.isOpen && otherCloseGen (c.id != i) (c.st == .normal)) := by
  simp only [isOtherNormal, otherRefuseGen, otherCloseGen]
  constructor <;> cases (c.id != i) <;> cases c.isOpen <;> cases (c.st == St.normal) <;> rfl

end VncModel.Props.C14
