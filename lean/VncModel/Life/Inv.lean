import VncModel.Life.Model
/-!
The inductive invariant of the life-cycle model and its preservation by the two teardown
primitives, by record updates, and by `accept`.  One invariant for every `Variant`: each guarantee
is stated under exactly the fix it needs (`Counters`, `DeadOk`), so that the statement for the fixed
code and the "at most once" statement for the code as found are both corollaries.
-/
namespace VncModel.Life

/-! ### projections through `emit` / `modConn` -/

@[simp] theorem emit_conns (w : World) (e : Event) : (emit w e).conns = w.conns := rfl
@[simp] theorem emit_list (w : World) (e : Event) : (emit w e).list = w.list := rfl
@[simp] theorem emit_screens (w : World) (e : Event) : (emit w e).screens = w.screens := rfl
@[simp] theorem emit_nbLost (w : World) (e : Event) : (emit w e).nbLost = w.nbLost := rfl
@[simp] theorem emit_recLost (w : World) (e : Event) : (emit w e).recLost = w.recLost := rfl
@[simp] theorem emit_shutLeft (w : World) (e : Event) : (emit w e).shutLeft = w.shutLeft := rfl
@[simp] theorem emit_wsLostHs (w : World) (e : Event) : (emit w e).wsLostHs = w.wsLostHs := rfl
@[simp] theorem emit_wsLostGone (w : World) (e : Event) : (emit w e).wsLostGone = w.wsLostGone := rfl
@[simp] theorem emit_extLost (w : World) (e : Event) : (emit w e).extLost = w.extLost := rfl
@[simp] theorem emit_stray (w : World) (e : Event) : (emit w e).stray = w.stray := rfl
@[simp] theorem emit_extOn (w : World) (e : Event) : (emit w e).extOn = w.extOn := rfl
@[simp] theorem emit_extDataLost (w : World) (e : Event) : (emit w e).extDataLost = w.extDataLost := rfl
@[simp] theorem emit_extNodeLost (w : World) (e : Event) : (emit w e).extNodeLost = w.extNodeLost := rfl
@[simp] theorem emit_ptrOwner (w : World) (e : Event) : (emit w e).ptrOwner = w.ptrOwner := rfl
@[simp] theorem emit_pwOn (w : World) (e : Event) : (emit w e).pwOn = w.pwOn := rfl

@[simp] theorem modConn_list (w : World) (i : Nat) (f : Conn → Conn) : (modConn w i f).list = w.list := rfl
@[simp] theorem modConn_screens (w : World) (i : Nat) (f : Conn → Conn) : (modConn w i f).screens = w.screens := rfl
@[simp] theorem modConn_nbLost (w : World) (i : Nat) (f : Conn → Conn) : (modConn w i f).nbLost = w.nbLost := rfl
@[simp] theorem modConn_recLost (w : World) (i : Nat) (f : Conn → Conn) : (modConn w i f).recLost = w.recLost := rfl
@[simp] theorem modConn_shutLeft (w : World) (i : Nat) (f : Conn → Conn) : (modConn w i f).shutLeft = w.shutLeft := rfl
@[simp] theorem modConn_wsLostHs (w : World) (i : Nat) (f : Conn → Conn) : (modConn w i f).wsLostHs = w.wsLostHs := rfl
@[simp] theorem modConn_wsLostGone (w : World) (i : Nat) (f : Conn → Conn) : (modConn w i f).wsLostGone = w.wsLostGone := rfl
@[simp] theorem modConn_extLost (w : World) (i : Nat) (f : Conn → Conn) : (modConn w i f).extLost = w.extLost := rfl
@[simp] theorem modConn_stray (w : World) (i : Nat) (f : Conn → Conn) : (modConn w i f).stray = w.stray := rfl
@[simp] theorem modConn_extOn (w : World) (i : Nat) (f : Conn → Conn) : (modConn w i f).extOn = w.extOn := rfl
@[simp] theorem modConn_extDataLost (w : World) (i : Nat) (f : Conn → Conn) : (modConn w i f).extDataLost = w.extDataLost := rfl
@[simp] theorem modConn_extNodeLost (w : World) (i : Nat) (f : Conn → Conn) : (modConn w i f).extNodeLost = w.extNodeLost := rfl
@[simp] theorem modConn_ptrOwner (w : World) (i : Nat) (f : Conn → Conn) : (modConn w i f).ptrOwner = w.ptrOwner := rfl
@[simp] theorem modConn_pwOn (w : World) (i : Nat) (f : Conn → Conn) : (modConn w i f).pwOn = w.pwOn := rfl
@[simp] theorem modConn_length (w : World) (i : Nat) (f : Conn → Conn) :
    (modConn w i f).conns.length = w.conns.length := by simp [modConn]

theorem modConn_get (w : World) (i : Nat) (f : Conn → Conn) (j : Nat) :
    (modConn w i f).conns[j]? = (fun a => if i = j then f a else a) <$> w.conns[j]? := by
  simp [modConn, List.getElem?_modify]

theorem modConn_get_self (w : World) (i : Nat) (f : Conn → Conn) (c : Conn) (h : w.conns[i]? = some c) :
    (modConn w i f).conns[i]? = some (f c) := by simp [modConn_get, h]

theorem modConn_get_ne (w : World) (i j : Nat) (f : Conn → Conn) (h : i ≠ j) :
    (modConn w i f).conns[j]? = w.conns[j]? := by
  rw [modConn_get]; cases w.conns[j]? <;> simp [h]

/-! ### counting owners of a screen reference -/

theorem countP_modify {α} (p : α → Bool) (l : List α) (i : Nat) (f : α → α) (c : α)
    (h : l[i]? = some c) :
    (l.modify i f).countP p + (if p c then 1 else 0) = l.countP p + (if p (f c) then 1 else 0) := by
  induction l generalizing i with
  | nil => simp at h
  | cons a t ih =>
    cases i with
    | zero =>
      simp at h; subst h
      simp [List.countP_cons]; omega
    | succ i =>
      simp at h
      have := ih i h
      simp [List.countP_cons]; omega

theorem modify_none {α} (l : List α) (i : Nat) (f : α → α) (h : l[i]? = none) : l.modify i f = l := by
  induction l generalizing i with
  | nil => simp
  | cons a t ih =>
    cases i with
    | zero => simp at h
    | succ i => simp at h; simp [ih i (by simpa using h)]

/-- does the record hold a reference on the screen of dimensions `d`? -/
def owns (d : Nat × Nat) (c : Conn) : Bool := c.refHeld && c.scr == d

def owners (w : World) (d : Nat × Nat) : Nat := w.conns.countP (owns d)

theorem owners_modConn (w : World) (i : Nat) (f : Conn → Conn) (c : Conn) (d : Nat × Nat)
    (h : w.conns[i]? = some c) :
    owners (modConn w i f) d + (if owns d c then 1 else 0) = owners w d + (if owns d (f c) then 1 else 0) := by
  simpa [owners, modConn] using countP_modify (owns d) w.conns i f c h

theorem owners_modConn_same (w : World) (i : Nat) (f : Conn → Conn) (d : Nat × Nat)
    (hf : ∀ c, w.conns[i]? = some c → (f c).refHeld = c.refHeld ∧ (f c).scr = c.scr) :
    owners (modConn w i f) d = owners w d := by
  cases h : w.conns[i]? with
  | none => simp [owners, modConn, modify_none _ _ _ h]
  | some c =>
    have := owners_modConn w i f c d h
    have h2 : owns d (f c) = owns d c := by simp [owns, (hf c h).1, (hf c h).2]
    rw [h2] at this
    omega

/-! ### the invariant -/

/-- a record reachable through the client list -/
def LiveOk (c : Conn) : Prop :=
  c.goneCalls = 0 ∧ c.freed = false ∧ c.refHeld = true ∧
  (c.sockOpen = true → c.closeCalls = 0) ∧
  (c.sockOpen = false → c.closeCalls = 1 ∧ c.wspath = false ∧ c.extData = false)

/-- completely torn down: the gone callback ran once (if the application ever saw the client),
the record is freed, nothing it acquired is left -/
def TornDown (c : Conn) : Prop :=
  c.goneCalls = (if c.hooked then 1 else 0) ∧ c.freed = true ∧ c.refHeld = false ∧ c.res = {} ∧
  c.wsctx = false ∧ c.wspath = false ∧ c.ftFd = false ∧ c.exts = 0 ∧ c.extData = false

/-- a record no longer (or never) reachable through the client list: its socket has been closed
exactly once; it is either completely torn down or — only without the `nbFree` fix — the dropped
record of the `rfbSetNonBlocking` failure path -/
def DeadOk (v : Variant) (c : Conn) : Prop :=
  c.closeCalls = 1 ∧ c.sockOpen = false ∧
  (TornDown c ∨ (v.nbFree = false ∧ c.freed = false ∧ c.hooked = false ∧ c.goneCalls = 0 ∧
     c.refHeld = true ∧ c.scr = (128, 96) ∧ c.res = {} ∧ c.wsctx = false ∧ c.wspath = false ∧
     c.ftFd = false ∧ c.exts = 0 ∧ c.extData = false))

/-- nothing is lost for good, each counter under the fix that guarantees it -/
def Counters (v : Variant) (w : World) : Prop :=
  (v.nbFree = true → w.nbLost = 0) ∧
  (v.closedToo = true → w.recLost = 0 ∧ w.shutLeft = 0) ∧
  (v.goneWspath = true → w.wsLostGone = 0) ∧
  (v.wsOnePath = true → w.wsLostHs = 0) ∧
  (v.ftClose = true → w.stray = 0) ∧
  (v.extFree = true → w.extLost = 0) ∧
  (v.goneExtClose = true → w.extDataLost = 0) ∧
  (v.disableFree = true → w.extNodeLost = 0)

structure Inv (v : Variant) (w : World) : Prop where
  nodup : w.list.Nodup
  bound : ∀ i, i ∈ w.list → i < w.conns.length
  live : ∀ (i : Nat) (c : Conn), w.conns[i]? = some c → i ∈ w.list → LiveOk c
  dead : ∀ (i : Nat) (c : Conn), w.conns[i]? = some c → i ∉ w.list → DeadOk v c
  counters : Counters v w
  refs : ∀ s, s ∈ w.screens → s.refs = owners w (s.w, s.h)
  scr : ∀ (i : Nat) (c : Conn), w.conns[i]? = some c → c.refHeld = true → hasScreen w.screens c.scr = true
  main : hasScreen w.screens (128, 96) = true
  ptr : ∀ (i : Nat), w.ptrOwner = some i → i ∈ w.list

theorem inv_init (v : Variant) : Inv v World.init := by
  refine ⟨by simp [World.init], by simp [World.init], ?_, ?_, ?_, ?_, ?_, by simp [World.init, hasScreen], by simp [World.init]⟩
  · intro i c h; simp [World.init] at h
  · intro i c h; simp [World.init] at h
  · simp [Counters, World.init]
  · intro s hs; simp [World.init] at hs; subst hs; simp [owners, World.init]
  · intro i c h; simp [World.init] at h

theorem inv_emit {v : Variant} {w : World} (h : Inv v w) (e : Event) : Inv v (emit w e) :=
  ⟨h.nodup, h.bound, h.live, h.dead, h.counters, h.refs, h.scr, h.main, h.ptr⟩

/-- a record update that keeps the record's place in the life cycle -/
theorem inv_modConn {v : Variant} {w : World} (h : Inv v w) (i : Nat) (f : Conn → Conn)
    (hl : ∀ c, w.conns[i]? = some c → i ∈ w.list → LiveOk c → LiveOk (f c))
    (hd : ∀ c, w.conns[i]? = some c → i ∉ w.list → DeadOk v c → DeadOk v (f c))
    (hr : ∀ c, w.conns[i]? = some c → (f c).refHeld = c.refHeld ∧ (f c).scr = c.scr) :
    Inv v (modConn w i f) := by
  refine ⟨h.nodup, ?_, ?_, ?_, h.counters, ?_, ?_, h.main, h.ptr⟩
  · intro j hj; simpa using h.bound j hj
  · intro j c hc hj
    rw [modConn_get] at hc
    cases hw : w.conns[j]? with
    | none => simp [hw] at hc
    | some c0 =>
      simp [hw] at hc
      by_cases hij : i = j
      · subst hij; simp at hc; subst hc; exact hl c0 hw hj (h.live i c0 hw hj)
      · simp [hij] at hc; subst hc; exact h.live j c0 hw hj
  · intro j c hc hj
    rw [modConn_get] at hc
    cases hw : w.conns[j]? with
    | none => simp [hw] at hc
    | some c0 =>
      simp [hw] at hc
      by_cases hij : i = j
      · subst hij; simp at hc; subst hc; exact hd c0 hw hj (h.dead i c0 hw hj)
      · simp [hij] at hc; subst hc; exact h.dead j c0 hw hj
  · intro s hs
    rw [owners_modConn_same w i f _ hr]
    exact h.refs s hs
  · intro j c hc href
    rw [modConn_get] at hc
    cases hw : w.conns[j]? with
    | none => simp [hw] at hc
    | some c0 =>
      simp [hw] at hc
      by_cases hij : i = j
      · subst hij; simp at hc; subst hc
        have := hr c0 hw
        rw [this.2]; exact h.scr i c0 hw (by rw [← this.1]; exact href)
      · simp [hij] at hc; subst hc; exact h.scr j c0 hw href

/-- updates of fields the invariant does not talk about (protocol state, scheduling, callbacks) -/
def ProtoOnly (f : Conn → Conn) : Prop :=
  ∀ c, (f c).hooked = c.hooked ∧ (f c).sockOpen = c.sockOpen ∧ (f c).closeCalls = c.closeCalls ∧
    (f c).goneCalls = c.goneCalls ∧ (f c).freed = c.freed ∧ (f c).refHeld = c.refHeld ∧
    (f c).scr = c.scr ∧ (f c).res = c.res ∧ (f c).wsctx = c.wsctx ∧ (f c).wspath = c.wspath ∧
    (f c).ftFd = c.ftFd ∧ (f c).exts = c.exts ∧ (f c).extData = c.extData

theorem inv_modConn_proto {v : Variant} {w : World} (h : Inv v w) (i : Nat) (f : Conn → Conn)
    (hf : ProtoOnly f) : Inv v (modConn w i f) := by
  apply inv_modConn h i f
  · intro c _ _ hc
    obtain ⟨_, h2, h3, h4, h5, h6, _, _, _, h10, _, _, h13⟩ := hf c
    simpa [LiveOk, h2, h3, h4, h5, h6, h10, h13] using hc
  · intro c _ _ hc
    obtain ⟨h1, h2, h3, h4, h5, h6, h7, h8, h9, h10, h11, h12, h13⟩ := hf c
    simpa [DeadOk, TornDown, h1, h2, h3, h4, h5, h6, h7, h8, h9, h10, h11, h12, h13] using hc
  · intro c _
    exact ⟨(hf c).2.2.2.2.2.1, (hf c).2.2.2.2.2.2.1⟩

/-- updates of what a live client holds (compression state, buffers, wsctx, descriptor, extension
list, the `hooked` mark): allowed on listed, open clients only -/
def HoldingsOnly (f : Conn → Conn) : Prop :=
  ∀ c, (f c).sockOpen = c.sockOpen ∧ (f c).closeCalls = c.closeCalls ∧
    (f c).goneCalls = c.goneCalls ∧ (f c).freed = c.freed ∧ (f c).refHeld = c.refHeld ∧
    (f c).scr = c.scr ∧ (c.sockOpen = false → (f c).wspath = c.wspath ∧ (f c).extData = c.extData)

theorem inv_modConn_live {v : Variant} {w : World} (h : Inv v w) (i : Nat) (f : Conn → Conn)
    (hi : i ∈ w.list) (hf : HoldingsOnly f) : Inv v (modConn w i f) := by
  apply inv_modConn h i f
  · intro c _ _ hc
    obtain ⟨h1, h2, h3, h4, h5, _, h7⟩ := hf c
    unfold LiveOk at hc ⊢
    rw [h1, h2, h3, h4, h5]
    refine ⟨hc.1, hc.2.1, hc.2.2.1, hc.2.2.2.1, ?_⟩
    intro hs
    exact ⟨(hc.2.2.2.2 hs).1, by rw [(h7 hs).1]; exact (hc.2.2.2.2 hs).2.1, by rw [(h7 hs).2]; exact (hc.2.2.2.2 hs).2.2⟩
  · intro c _ hn; exact absurd hi hn
  · intro c _; exact ⟨(hf c).2.2.2.2.1, (hf c).2.2.2.2.2.1⟩

end VncModel.Life
