import VncModel.Life.Steps
/-! `rfbScalingSetup` (find or allocate the scaled screen, move the client's reference) preserves
the invariant, in particular `refcount = number of clients referencing the screen`. -/
namespace VncModel.Life

theorem mem_addScreen (ss : List Screen) (d : Nat × Nat) (s : Screen) :
    s ∈ addScreen ss d ↔ s ∈ ss ∨ s = ⟨d.1, d.2, 0⟩ := by
  cases ss with
  | nil => simp [addScreen]
  | cons m rest =>
    simp only [addScreen, List.mem_cons]
    constructor
    · rintro (h | h | h)
      · exact Or.inl (Or.inl h)
      · exact Or.inr h
      · exact Or.inl (Or.inr h)
    · rintro ((h | h) | h)
      · exact Or.inl h
      · exact Or.inr (Or.inr h)
      · exact Or.inr (Or.inl h)

theorem hasScreen_iff (ss : List Screen) (e : Nat × Nat) :
    hasScreen ss e = true ↔ ∃ s, s ∈ ss ∧ s.w = e.1 ∧ s.h = e.2 := by
  simp [hasScreen, List.any_eq_true]

theorem hasScreen_addScreen_mono (ss : List Screen) (d e : Nat × Nat)
    (h : hasScreen ss e = true) : hasScreen (addScreen ss d) e = true := by
  rw [hasScreen_iff] at h ⊢
  obtain ⟨s, hs, h1⟩ := h
  exact ⟨s, (mem_addScreen ss d s).mpr (Or.inl hs), h1⟩

theorem hasScreen_addScreen_self (ss : List Screen) (d : Nat × Nat) :
    hasScreen (addScreen ss d) d = true := by
  rw [hasScreen_iff]
  exact ⟨⟨d.1, d.2, 0⟩, (mem_addScreen ss d _).mpr (Or.inr rfl), rfl, rfl⟩

/-- nobody references a screen that does not exist -/
theorem owners_zero {v : Variant} {w : World} (h : Inv v w) (d : Nat × Nat)
    (hd : hasScreen w.screens d = false) : owners w d = 0 := by
  unfold owners
  rw [List.countP_eq_zero]
  intro c hc
  obtain ⟨j, hj⟩ := List.mem_iff_getElem?.mp hc
  intro ho
  simp only [owns, Bool.and_eq_true, beq_iff_eq] at ho
  have := h.scr j c hj ho.1
  rw [ho.2, hd] at this
  cases this

theorem inv_addScreen {v : Variant} {w : World} (h : Inv v w) (d : Nat × Nat)
    (hd : hasScreen w.screens d = false) :
    Inv v { w with screens := addScreen w.screens d } := by
  refine ⟨h.nodup, h.bound, h.live, h.dead, h.counters, ?_, ?_, ?_, h.ptr⟩
  · intro s hs
    rcases (mem_addScreen _ _ _).mp hs with hs | rfl
    · exact h.refs s hs
    · exact (owners_zero h d hd).symm
  · intro j c hc href
    exact hasScreen_addScreen_mono _ _ _ (h.scr j c hc href)
  · exact hasScreen_addScreen_mono _ _ _ h.main

theorem owners_pos (w : World) (i : Nat) (c : Conn) (d : Nat × Nat) (hc : w.conns[i]? = some c)
    (ho : owns d c = true) : 0 < owners w d := by
  unfold owners
  rw [List.countP_pos_iff]
  exact ⟨c, List.mem_iff_getElem?.mpr ⟨i, hc⟩, ho⟩

theorem moved_screen (s : Screen) (o d : Nat × Nat) (u : Screen)
    (hu : u = (if ((if s.w == o.1 && s.h == o.2 then { s with refs := s.refs - 1 } else s).w == d.1 &&
                (if s.w == o.1 && s.h == o.2 then { s with refs := s.refs - 1 } else s).h == d.2)
              then { (if s.w == o.1 && s.h == o.2 then { s with refs := s.refs - 1 } else s) with
                     refs := (if s.w == o.1 && s.h == o.2 then { s with refs := s.refs - 1 } else s).refs + 1 }
              else (if s.w == o.1 && s.h == o.2 then { s with refs := s.refs - 1 } else s))) :
    u.w = s.w ∧ u.h = s.h ∧
    u.refs = (s.refs - (if (s.w == o.1 && s.h == o.2) = true then 1 else 0)) +
      (if (s.w == d.1 && s.h == d.2) = true then 1 else 0) := by
  subst hu
  by_cases h1 : (s.w == o.1 && s.h == o.2) = true <;> by_cases h2 : (s.w == d.1 && s.h == d.2) = true <;>
    simp [h1, h2]

/-- the client's reference moves from the screen it is on to the (existing) screen `d` -/
theorem inv_moveRef {v : Variant} {w : World} (h : Inv v w) (i : Nat) (c : Conn) (d : Nat × Nat)
    (hc : w.conns[i]? = some c) (hi : i ∈ w.list) (hd : hasScreen w.screens d = true) :
    Inv v (modConn { w with screens := incRef (decRef w.screens c.scr) d } i
      (fun c => { c with scr := d })) := by
  have hl := h.live i c hc hi
  have hrefc : c.refHeld = true := hl.2.2.1
  refine ⟨h.nodup, ?_, ?_, ?_, h.counters, ?_, ?_, ?_, h.ptr⟩
  · intro j hj; simpa using h.bound j hj
  · intro j cj hcj hj
    rw [modConn_get] at hcj
    cases hw : w.conns[j]? with
    | none => simp [hw] at hcj
    | some c0 =>
      simp only [hw, Option.map_eq_map, Option.map_some, Option.some.injEq] at hcj
      by_cases hij : i = j
      · subst hij; simp at hcj; subst hcj
        have := h.live i c0 hw hj
        simpa [LiveOk] using this
      · simp [hij] at hcj; subst hcj; exact h.live j c0 hw hj
  · intro j cj hcj hj
    rw [modConn_get] at hcj
    cases hw : w.conns[j]? with
    | none => simp [hw] at hcj
    | some c0 =>
      simp only [hw, Option.map_eq_map, Option.map_some, Option.some.injEq] at hcj
      by_cases hij : i = j
      · subst hij; exact absurd hi hj
      · simp [hij] at hcj; subst hcj; exact h.dead j c0 hw hj
  · intro s'' hs''
    simp only [modConn_screens] at hs''
    obtain ⟨s', hs', rfl⟩ := (mem_incRef _ _ _).mp hs''
    unfold decRef at hs'
    obtain ⟨s, hs, rfl⟩ := List.mem_map.mp hs'
    have hr := h.refs s hs
    obtain ⟨hw', hh', hrefs'⟩ := moved_screen s c.scr d _ rfl
    rw [hw', hh', hrefs']
    have hcount := owners_modConn { w with screens := incRef (decRef w.screens c.scr) d } i
      (fun c => { c with scr := d }) c (s.w, s.h) hc
    have hold : owns (s.w, s.h) c = (s.w == c.scr.1 && s.h == c.scr.2) := owns_dims s c hrefc
    have hnew : owns (s.w, s.h) { c with scr := d } = (s.w == d.1 && s.h == d.2) :=
      owns_dims s { c with scr := d } hrefc
    rw [hold, hnew] at hcount
    have hown : owners { w with screens := incRef (decRef w.screens c.scr) d } (s.w, s.h)
        = owners w (s.w, s.h) := rfl
    rw [hown] at hcount
    have hpos : (s.w == c.scr.1 && s.h == c.scr.2) = true → 0 < owners w (s.w, s.h) := by
      intro hm; exact owners_pos w i c _ hc (by rw [hold]; exact hm)
    rw [hr]
    by_cases hm1 : (s.w == c.scr.1 && s.h == c.scr.2) = true
    · have := hpos hm1
      rw [if_pos hm1] at hcount ⊢
      omega
    · rw [if_neg hm1] at hcount ⊢
      omega
  · intro j cj hcj href
    simp only [modConn_screens, hasScreen_incRef, hasScreen_decRef]
    rw [modConn_get] at hcj
    cases hw : w.conns[j]? with
    | none => simp [hw] at hcj
    | some c0 =>
      simp only [hw, Option.map_eq_map, Option.map_some, Option.some.injEq] at hcj
      by_cases hij : i = j
      · subst hij; simp at hcj; subst hcj; exact hd
      · simp [hij] at hcj; subst hcj; exact h.scr j c0 hw href
  · simp only [modConn_screens, hasScreen_incRef, hasScreen_decRef]; exact h.main

theorem inv_setScale {v : Variant} {w : World} (h : Inv v w) (i k : Nat) (hi : i ∈ w.list) :
    Inv v (setScale w i k) := by
  unfold setScale
  simp only
  split
  · exact h
  cases hc : w.conns[i]? with
  | none => exact h
  | some c =>
    have hl := h.live i c hc hi
    simp only [hl.2.2.1, if_true]
    by_cases hs : hasScreen w.screens (scaleDims k) = true
    · simp only [hs, if_true]
      exact inv_moveRef h i c _ hc hi hs
    · have hs' : hasScreen w.screens (scaleDims k) = false := by simpa using hs
      simp only [hs', Bool.false_eq_true, if_false]
      have h1 := inv_addScreen h (scaleDims k) hs'
      exact inv_moveRef h1 i c _ hc hi (hasScreen_addScreen_self _ _)

@[simp] theorem setScale_list (w : World) (i k : Nat) : (setScale w i k).list = w.list := by
  unfold setScale; simp only; split
  · rfl
  · cases w.conns[i]? <;> simp

end VncModel.Life
