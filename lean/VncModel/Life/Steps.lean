import VncModel.Life.Teardown
/-! Every operation of the model preserves the invariant (`inv_step`, `inv_run`). -/
namespace VncModel.Life

/-- the invariant only reads `conns`, `list`, `screens` and the counters -/
theorem inv_of_same {v : Variant} {w w' : World} (h : Inv v w) (hc : w'.conns = w.conns)
    (hl : w'.list = w.list) (hs : w'.screens = w.screens) (hk : Counters v w')
    (hp : w'.ptrOwner = w.ptrOwner := by rfl) : Inv v w' := by
  refine ⟨by rw [hl]; exact h.nodup, by rw [hl, hc]; exact h.bound, ?_, ?_, hk, ?_, ?_, by rw [hs]; exact h.main,
    by rw [hp, hl]; exact h.ptr⟩
  · intro i c; rw [hc, hl]; exact h.live i c
  · intro i c; rw [hc, hl]; exact h.dead i c
  · intro s; rw [hs]; intro hm; simp only [owners, hc]; exact h.refs s hm
  · intro i c; rw [hc, hs]; exact h.scr i c

/-- a listed client whose socket is open -/
def LiveOpen (v : Variant) (w : World) (i : Nat) : Prop :=
  Inv v w ∧ i ∈ w.list ∧ isOpen w i = true

/-- changing what an open, listed client holds (anything but its life-cycle fields) -/
def OpenHoldings (f : Conn → Conn) : Prop :=
  ∀ c, (f c).sockOpen = c.sockOpen ∧ (f c).closeCalls = c.closeCalls ∧
    (f c).goneCalls = c.goneCalls ∧ (f c).freed = c.freed ∧ (f c).refHeld = c.refHeld ∧
    (f c).scr = c.scr

theorem liveOpen_modConn {v : Variant} {w : World} {i : Nat} (h : LiveOpen v w i)
    (f : Conn → Conn) (hf : OpenHoldings f) : LiveOpen v (modConn w i f) i := by
  obtain ⟨hinv, hi, ho⟩ := h
  obtain ⟨c0, hc0, hs0⟩ := (isOpen_iff w i).mp ho
  refine ⟨?_, by simpa using hi, ?_⟩
  · apply inv_modConn hinv
    · intro c hc _ hl
      rw [hc0] at hc; cases hc
      obtain ⟨h1, h2, h3, h4, h5, _⟩ := hf c0
      unfold LiveOk at hl ⊢
      rw [h1, h2, h3, h4, h5]
      refine ⟨hl.1, hl.2.1, hl.2.2.1, hl.2.2.2.1, ?_⟩
      intro hx; rw [hs0] at hx; cases hx
    · intro c _ hn; exact absurd hi hn
    · intro c _; exact ⟨(hf c).2.2.2.2.1, (hf c).2.2.2.2.2⟩
  · rw [isOpen_iff]
    exact ⟨f c0, modConn_get_self w i f c0 hc0, by rw [(hf c0).1]; exact hs0⟩

theorem liveOpen_emit {v : Variant} {w : World} {i : Nat} (h : LiveOpen v w i) (e : Event) :
    LiveOpen v (emit w e) i :=
  ⟨inv_emit h.1 e, h.2.1, h.2.2⟩

/-! ### accept -/

theorem mem_incRef (ss : List Screen) (d : Nat × Nat) (s' : Screen) :
    s' ∈ incRef ss d ↔ ∃ s, s ∈ ss ∧
      s' = if s.w == d.1 && s.h == d.2 then { s with refs := s.refs + 1 } else s := by
  unfold incRef
  rw [List.mem_map]
  constructor
  · rintro ⟨s, hs, rfl⟩; exact ⟨s, hs, rfl⟩
  · rintro ⟨s, hs, rfl⟩; exact ⟨s, hs, rfl⟩

theorem getElem?_append_new {α} (l : List α) (a : α) (j : Nat) (c : α)
    (h : (l ++ [a])[j]? = some c) : (j < l.length ∧ l[j]? = some c) ∨ (j = l.length ∧ c = a) := by
  rw [List.getElem?_append] at h
  by_cases hj : j < l.length
  · rw [if_pos hj] at h; exact Or.inl ⟨hj, h⟩
  · simp [hj] at h
    have : j - l.length = 0 := by
      by_cases h0 : j - l.length = 0
      · exact h0
      · rw [List.getElem?_eq_none_iff.mpr (by simp; omega)] at h; cases h
    rw [this] at h; simp at h
    exact Or.inr ⟨by omega, h.symm⟩

theorem owns_other_false (s : Screen) (c : Conn) (hc : c.scr = (128, 96))
    (hd : ¬ (s.w = 128 ∧ s.h = 96)) : owns (s.w, s.h) c = false := by
  simp only [owns, Bool.and_eq_false_iff]
  right
  rw [hc]
  simp only [beq_eq_false_iff_ne, ne_eq, Prod.mk.injEq]
  intro hh; exact hd ⟨hh.1.symm, hh.2.symm⟩

theorem inv_spawn {v : Variant} {w : World} (h : Inv v w) : LiveOpen v (spawn w) w.conns.length := by
  have hnew : w.conns.length ∉ w.list := fun hm => Nat.lt_irrefl _ (h.bound _ hm)
  refine ⟨⟨?_, ?_, ?_, ?_, h.counters, ?_, ?_, ?_, ?_⟩, by simp [spawn], ?_⟩
  · simp only [spawn]; exact List.nodup_cons.mpr ⟨hnew, h.nodup⟩
  · intro j hj
    simp only [spawn, List.mem_cons, List.length_append, List.length_singleton] at hj ⊢
    rcases hj with rfl | hj
    · omega
    · have := h.bound j hj; omega
  · intro j c hc hj
    simp only [spawn] at hc hj
    rcases getElem?_append_new _ _ _ _ hc with ⟨hlt, hold⟩ | ⟨_, rfl⟩
    · have : j ∈ w.list := by
        rcases List.mem_cons.mp hj with rfl | hm
        · omega
        · exact hm
      exact h.live j c hold this
    · simp [LiveOk]
  · intro j c hc hj
    simp only [spawn] at hc hj
    rcases getElem?_append_new _ _ _ _ hc with ⟨_, hold⟩ | ⟨rfl, _⟩
    · exact h.dead j c hold (fun hm => hj (List.mem_cons_of_mem _ hm))
    · exact absurd (List.mem_cons_self) hj
  · intro s' hs'
    simp only [spawn] at hs'
    obtain ⟨s, hs, rfl⟩ := (mem_incRef _ _ _).mp hs'
    have hr := h.refs s hs
    simp only [owners, spawn, List.countP_append, List.countP_singleton]
    by_cases hm : (s.w == (128, 96).1 && s.h == (128, 96).2) = true
    · have hd : s.w = 128 ∧ s.h = 96 := by simpa using hm
      simp only [hm, if_true]
      simp [owns, hd.1, hd.2, hr, owners]
    · simp only [hm]
      have hd : ¬ (s.w = 128 ∧ s.h = 96) := by simpa using hm
      have := owns_other_false s ({} : Conn) rfl hd
      simp [this, hr, owners]
  · intro j c hc href
    simp only [spawn] at hc ⊢
    rw [hasScreen_incRef]
    rcases getElem?_append_new _ _ _ _ hc with ⟨_, hold⟩ | ⟨_, rfl⟩
    · exact h.scr j c hold href
    · exact h.main
  · simp only [spawn]; rw [hasScreen_incRef]; exact h.main
  · intro j hj; simp only [spawn] at hj ⊢; exact List.mem_cons_of_mem _ (h.ptr j hj)
  · rw [isOpen_iff]
    exact ⟨{}, by simp [spawn], rfl⟩

theorem inv_nbFail {v : Variant} {w : World} (h : Inv v w) : Inv v (nbFail v w) := by
  unfold nbFail
  apply inv_emit; apply inv_emit
  have hnew : w.conns.length ∉ w.list := fun hm => Nat.lt_irrefl _ (h.bound _ hm)
  refine ⟨h.nodup, ?_, ?_, ?_, ?_, ?_, ?_, ?_, h.ptr⟩
  · intro j hj; have := h.bound j hj; simp; omega
  · intro j c hc hj
    simp only at hc hj
    rcases getElem?_append_new _ _ _ _ hc with ⟨_, hold⟩ | ⟨rfl, _⟩
    · exact h.live j c hold hj
    · exact absurd hj hnew
  · intro j c hc hj
    simp only at hc hj
    rcases getElem?_append_new _ _ _ _ hc with ⟨_, hold⟩ | ⟨_, rfl⟩
    · exact h.dead j c hold hj
    · refine ⟨rfl, rfl, ?_⟩
      cases hv : v.nbFree
      · right; simp
      · left; simp [TornDown]
  · obtain ⟨k1, k2, k3, k4, k5, k6, k7, k8⟩ := h.counters
    refine ⟨?_, k2, k3, k4, k5, k6, k7, k8⟩
    intro hv; simp [hv, k1 hv]
  · intro s' hs'
    simp only at hs'
    cases hv : v.nbFree
    · simp only [hv, Bool.false_eq_true, if_false] at hs'
      obtain ⟨s, hs, rfl⟩ := (mem_incRef _ _ _).mp hs'
      have hr := h.refs s hs
      simp only [owners, List.countP_append, List.countP_singleton, hv]
      by_cases hm : (s.w == (128, 96).1 && s.h == (128, 96).2) = true
      · have hd : s.w = 128 ∧ s.h = 96 := by simpa using hm
        simp only [hm, if_true]
        simp [owns, hd.1, hd.2, hr, owners]
      · simp only [hm]
        have hd : ¬ (s.w = 128 ∧ s.h = 96) := by simpa using hm
        have := owns_other_false s ({ sockOpen := false, closeCalls := 1 } : Conn) rfl hd
        simp [this, hr, owners]
    · simp only [hv, if_true] at hs'
      have hr := h.refs s' hs'
      simp [owners, List.countP_append, owns, hv, hr]
  · intro j c hc href
    simp only at hc ⊢
    have hsc : ∀ e, hasScreen (if v.nbFree = true then w.screens else incRef w.screens (128, 96)) e
        = hasScreen w.screens e := by
      intro e; split
      · rfl
      · exact hasScreen_incRef _ _ _
    rw [hsc]
    rcases getElem?_append_new _ _ _ _ hc with ⟨_, hold⟩ | ⟨_, rfl⟩
    · exact h.scr j c hold href
    · exact h.main
  · simp only
    split
    · exact h.main
    · rw [hasScreen_incRef]; exact h.main

theorem liveOpen_wsStage {v : Variant} {w : World} {i : Nat} (h : LiveOpen v w i) (ws : Nat) :
    LiveOpen v (wsStage v w i ws) i := by
  unfold wsStage
  split
  · have h1 := liveOpen_modConn h (fun c => { c with wspath := true }) (by intro c; simp)
    obtain ⟨hinv, hi, ho⟩ := h1
    refine ⟨inv_of_same hinv rfl rfl rfl ?_, hi, ho⟩
    obtain ⟨k1, k2, k3, k4, k5, k6, k7, k8⟩ := hinv.counters
    refine ⟨k1, k2, k3, ?_, k5, k6, k7, k8⟩
    intro hv
    have := k4 hv
    simp at this
    simp [hv, this]
  · exact h

theorem inv_bail {v : Variant} {w : World} {i : Nat} (h : Inv v w) (hi : i ∈ w.list) :
    Inv v (bail v w i) := by
  unfold bail
  apply inv_emit
  exact inv_gone (inv_closeClient h i) i (by simpa using hi)

theorem inv_hookStage {v : Variant} {w : World} {i : Nat} (h : LiveOpen v w i) (hk : Hook) :
    Inv v (hookStage v w i hk) := by
  unfold hookStage
  have h1 := liveOpen_emit (liveOpen_modConn h (fun c => { c with hooked := true }) (by intro c; simp))
    (.hook i hk)
  cases hk with
  | accept => exact inv_emit h1.1 _
  | hold =>
    apply inv_emit
    exact inv_modConn_proto h1.1 i _ (by intro c; simp)
  | refuse => exact inv_bail h1.1 h1.2.1

theorem inv_acceptHook {v : Variant} {w : World} {i : Nat} (h : LiveOpen v w i) (hk : Hook) :
    Inv v (acceptHook v w i hk) := by
  unfold acceptHook
  apply inv_hookStage
  split
  · exact liveOpen_emit (liveOpen_modConn h _ (by intro c; simp)) _
  · exact h

theorem inv_acceptVersion {v : Variant} {w : World} {i : Nat} (h : LiveOpen v w i) (hk : Hook)
    (ws : Nat) (x : Fail) : Inv v (acceptVersion v w i hk ws x) := by
  unfold acceptVersion
  have h2 : LiveOpen v (if ws > 0 then modConn w i (fun c => { c with wsctx := true }) else w) i := by
    split
    · exact liveOpen_modConn h _ (by intro c; simp)
    · exact h
  simp only
  split
  · exact inv_bail h2.1 h2.2.1
  · exact inv_acceptHook h2 hk

theorem inv_accept {v : Variant} {w : World} (h : Inv v w) (hk : Hook) (ws : Nat) (nb : Bool)
    (x : Fail) : Inv v (accept v w hk ws nb x) := by
  unfold accept
  simp only
  have h0 : Inv v (emit w (.new w.conns.length)) := inv_emit h _
  split
  · exact inv_nbFail h0
  · have h1 : LiveOpen v (wsStage v (spawn (emit w (.new w.conns.length))) w.conns.length ws)
        w.conns.length := liveOpen_wsStage (inv_spawn h0) ws
    split
    · exact inv_bail h1.1 h1.2.1
    · exact inv_acceptVersion h1 hk ws x

end VncModel.Life
