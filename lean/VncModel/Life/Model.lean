/-
Life cycle of server connections in the application-driven (non-threaded) event loop.

C ↔ model
  rfbClientRec                                  ↔ `Conn` (index in `World.conns` = connection number)
  screen->clientHead list (head first)          ↔ `World.list`
  cl->sock != RFB_INVALID_SOCKET                ↔ `sockOpen`
  close() on the connection's descriptor        ↔ `closeCalls`
  application's clientGoneHook                  ↔ `goneCalls` (counted only when the application's
                                                   newClientHook ran and installed it: `hooked`)
  free(cl)                                      ↔ `freed`
  cl->scaledScreen / scaledScreenRefCount       ↔ `scr` (dimensions) + `refHeld`, `World.screens`
  compStream, zsStruct[], zrleData, tightTJ,
  before/afterEncBuf, lzoWrkMem, translateLookupTable ↔ `res`
  cl->wsctx, cl->wspath, cl->fileTransfer.fd, cl->extensions ↔ `wsctx`, `wspath`, `ftFd`, `exts`
  rfbNewTCPOrUDPClient (every exit)             ↔ `accept`
  rfbCloseClient                                ↔ `closeClient`
  rfbClientConnectionGone                       ↔ `gone`
  rfbProcessClientMessage (per state)           ↔ `procMsg`
  rfbProcessEvents (rfbCheckFds + reaping loop) ↔ `processEvents`
  rfbShutdownServer / rfbScreenCleanup          ↔ `shutdown` / `cleanup`
  rfbRefuseOnHoldClient / rfbStartOnHoldClient  ↔ `Op.refuse` / `Op.start`

The code had seven known life-cycle defects (all fixed in /repo by now except where the probe says otherwise).  The model is parametrised by a `Variant` saying, for
each of them, whether the code under test has the fix (`true`) or not; the correspondence run
measures the variant of the code on every run (corpus witnesses) and compares against exactly that
variant.  `Variant.current` is the code as found, `Variant.fixed` the code with fixes/C12-*.diff
(and fixes/C19-ft-fd-leak.diff).

Failures of I/O calls are not decided by the model: an op carries, per connection, the observed
failure (`Fail.rd`: the message could not be read, `Fail.wr`: the answer could not be written) —
every theorem quantifies over all such annotations.  Likewise the compression/buffer resources a
message makes the server acquire are a parameter (`Res`), universally quantified in the theorems.
-/
namespace VncModel.Life

structure Variant where
  nbFree : Bool      -- rfbSetNonBlocking failure path frees the record and drops the screen reference
  closedToo : Bool   -- rfbShutdownServer/rfbScreenCleanup also visit closed, not yet reaped clients
  goneWspath : Bool  -- rfbClientConnectionGone frees cl->wspath
  wsOnePath : Bool   -- a second "GET" line in the WebSocket handshake frees the first path
  ftClose : Bool     -- rfbClientConnectionGone closes cl->fileTransfer.fd
  extFree : Bool     -- rfbClientConnectionGone frees the cl->extensions list
  goneExtClose : Bool -- rfbClientConnectionGone runs the close hook of extensions that still own data
  disableFree : Bool  -- rfbDisableExtension frees the list node it unlinks
  deriving DecidableEq, Repr

def Variant.current : Variant := ⟨false, false, false, false, false, false, false, false⟩
def Variant.fixed : Variant := ⟨true, true, true, true, true, true, true, true⟩

inductive St where
  | ver | sec | auth | init | normal
  deriving DecidableEq, Repr

/-- compression state and buffers held by a client record (counts as the harness prints them) -/
structure Res where
  z : Nat := 0   -- compStreamInited
  t : Nat := 0   -- active tight zlib streams
  j : Nat := 0   -- tightTJ
  r : Nat := 0   -- zrleData
  b : Nat := 0   -- beforeEncBuf + afterEncBuf
  u : Nat := 0   -- lzoWrkMem
  x : Nat := 0   -- translateLookupTable
  deriving DecidableEq, Repr

def Res.empty : Res := {}

inductive Msg where
  | ver | sec | auth (ok : Bool) | init (shared : Bool) | enc | req | scale (k : Nat) | pf | key
  | ptr (down : Bool) | junk | part | ft | ftgo
  | eof        -- not a message: the peer has closed / reset the connection
  deriving DecidableEq, Repr

inductive Fail where
  | none | rd | wr
  deriving DecidableEq, Repr

inductive Hook where
  | accept | hold | refuse
  deriving DecidableEq, Repr

structure Conn where
  -- life cycle
  hooked : Bool := false
  sockOpen : Bool := true
  closeCalls : Nat := 0
  goneCalls : Nat := 0
  freed : Bool := false
  refHeld : Bool := true
  scr : Nat × Nat := (128, 96)
  res : Res := {}
  wsctx : Bool := false
  wspath : Bool := false
  ftFd : Bool := false
  exts : Nat := 0
  extData : Bool := false   -- an enabled extension still owns per-client data (released by its close hook)
  ext1On : Bool := false    -- the harness' extension with data and hooks is enabled for this client
  extInitRefuse : Bool := false -- its init hook will answer "remove me" (=> rfbDisableExtension)
  ftSending : Bool := false -- a download is in progress: rfbCheckFds sends a chunk every round
  -- protocol and scheduling
  onHold : Bool := false
  st : St := .ver
  inbox : List Msg := []
  peerOpen : Bool := true
  kbdClose : Bool := false
  goneKick : Option Nat := none
  deriving DecidableEq, Repr

inductive Event where
  | new (i : Nat) | hook (i : Nat) (h : Hook) | ret (i : Nat) (ok : Bool)
  | close (i : Nat) | gone (i : Nat) | kbd (i : Nat)
  | xnew (i : Nat) | xinit (i : Nat) | xclose (i : Nat) (withData : Bool)   -- extension hooks
  | xdrop (i : Nat)                            -- the extension's data goes to rfbDisableExtension
  deriving DecidableEq, Repr

structure Screen where
  w : Nat
  h : Nat
  refs : Nat
  deriving DecidableEq, Repr

structure World where
  conns : List Conn := []
  list : List Nat := []                       -- clientHead list, head first
  screens : List Screen := [⟨128, 96, 0⟩]      -- main screen first, then scaled screens (newest first)
  -- what has been lost for good (one counter per way of losing it)
  nbLost : Nat := 0                           -- records dropped by the rfbSetNonBlocking failure path
  recLost : Nat := 0                          -- records still listed when the screen was freed
  shutLeft : Nat := 0                         -- clients still listed after rfbShutdownServer
  wsLostHs : Nat := 0                         -- wspath blocks overwritten during the handshake
  wsLostGone : Nat := 0                       -- wspath blocks dropped by rfbClientConnectionGone
  extLost : Nat := 0                          -- extension list nodes dropped with the record
  extDataLost : Nat := 0                      -- extension data whose close hook never ran
  extNodeLost : Nat := 0                      -- list nodes unlinked by rfbDisableExtension and not freed
  stray : Nat := 0                            -- file-transfer descriptors nobody owns any more
  extOn : Bool := false
  pwOn : Bool := false                        -- new clients must authenticate (VNC authentication)
  ptrOwner : Option Nat := none               -- screen->pointerClient
  cleaned : Bool := false
  log : List Event := []
  deriving DecidableEq, Repr

def World.init : World := {}

def emit (w : World) (e : Event) : World := { w with log := w.log ++ [e] }

def modConn (w : World) (i : Nat) (f : Conn → Conn) : World :=
  { w with conns := w.conns.modify i f }

def isOpen (w : World) (i : Nat) : Bool :=
  match w.conns[i]? with
  | some c => c.sockOpen
  | none => false

/-- the application still has a pointer to the record: its hook ran, its gone hook did not -/
def appKnows (w : World) (i : Nat) : Bool :=
  match w.conns[i]? with
  | some c => c.hooked && c.goneCalls == 0
  | none => false

/-! ### screens and reference counts -/

def incRef (ss : List Screen) (d : Nat × Nat) : List Screen :=
  ss.map fun s => if s.w == d.1 && s.h == d.2 then { s with refs := s.refs + 1 } else s

def decRef (ss : List Screen) (d : Nat × Nat) : List Screen :=
  ss.map fun s => if s.w == d.1 && s.h == d.2 then { s with refs := s.refs - 1 } else s

def hasScreen (ss : List Screen) (d : Nat × Nat) : Bool :=
  ss.any fun s => s.w == d.1 && s.h == d.2

/-- `rfbScaledScreenAllocate` links the new screen right behind the main one -/
def addScreen (ss : List Screen) (d : Nat × Nat) : List Screen :=
  match ss with
  | [] => [⟨d.1, d.2, 0⟩]
  | m :: rest => m :: ⟨d.1, d.2, 0⟩ :: rest

def screenIndex (ss : List Screen) (d : Nat × Nat) : Nat :=
  ss.findIdx fun s => s.w == d.1 && s.h == d.2

/-! ### the two teardown primitives -/

/-- what `rfbCloseClient` (non-threaded) does to the record.  On EVERY call: the `close` hook of each
enabled extension gets the extension's data (`extension->data = NULL` afterwards).  Guarded by
`sock != -1`: FD_CLR, free(wspath), close the socket, sock := -1. -/
def closeRec (c : Conn) : Conn :=
  if c.sockOpen then
    { c with sockOpen := false, closeCalls := c.closeCalls + 1, wspath := false, extData := false }
  else { c with extData := false }

/-- `rfbCloseClient` (non-threaded).  A second call changes nothing in the model's state; the
extensions' close hooks are told again (without data). -/
def closeClient (w : World) (i : Nat) : World :=
  match w.conns[i]? with
  | none => w
  | some c =>
    let w1 := if c.ext1On then emit w (.xclose i c.extData) else w
    let w2 := modConn w1 i closeRec
    if c.sockOpen then emit w2 (.close i) else w2

/-- `rfbClientConnectionGone`: unlink, close the socket if it is still open, drop the screen
reference, free compression state and buffers, call the gone hook, free wsctx, (variant: wspath,
file-transfer descriptor, extension list), free the record. -/
def goneRec (c : Conn) : Conn :=
  { c with
    sockOpen := false
    closeCalls := c.closeCalls + (if c.sockOpen then 1 else 0)
    refHeld := false
    res := {}
    goneCalls := c.goneCalls + (if c.hooked then 1 else 0)
    wsctx := false
    wspath := false
    ftFd := false
    exts := 0
    extData := false
    ext1On := false
    ftSending := false
    freed := true }

def goneCore (v : Variant) (w : World) (i : Nat) (c : Conn) : World :=
  let w1 : World := { w with
    list := w.list.erase i
    screens := if c.refHeld then decRef w.screens c.scr else w.screens
    wsLostGone := w.wsLostGone + (if c.wspath && !v.goneWspath then 1 else 0)
    stray := w.stray + (if c.ftFd && !v.ftClose then 1 else 0)
    extLost := w.extLost + (if v.extFree then 0 else c.exts)
    extDataLost := w.extDataLost + (if c.extData && !v.goneExtClose then 1 else 0)
    ptrOwner := if w.ptrOwner == some i then none else w.ptrOwner }
  let w2 := if c.sockOpen then emit w1 (.close i) else w1
  let w3 := modConn w2 i goneRec
  if c.hooked then emit w3 (.gone i) else w3

def gone (v : Variant) (w : World) (i : Nat) : World :=
  match w.conns[i]? with
  | none => w
  | some c =>
    let w4 := goneCore v w i c
    -- the application's gone hook may close another client it knows
    let w5 := match c.goneKick with
      | some k => if c.hooked && appKnows w4 k then closeClient w4 k else w4
      | none => w4
    -- (variant) extensions that still own data get their close hook while the node list is freed
    if c.extData && v.goneExtClose then emit w5 (.xclose i true) else w5

/-! ### accepting a connection: `rfbNewTCPOrUDPClient` -/

/-- `ws`: number of "GET" lines of a WebSocket upgrade request the peer has already sent (0: plain
RFB client). `nb`: `rfbSetNonBlocking` fails. `x`: an I/O failure during the WebSocket check /
handshake (`rd`, or `wr` of the handshake answer) or when writing the server's version (`wr`). -/
def nbFail (v : Variant) (w : World) : World :=
  -- calloc, refcount++, rfbCloseSocket(sock), return NULL  (variant: refcount--, free(cl))
  let i := w.conns.length
  let lost : Conn := { sockOpen := false, closeCalls := 1, refHeld := !v.nbFree, freed := v.nbFree }
  let w : World := { w with
    conns := w.conns ++ [lost]
    screens := if v.nbFree then w.screens else incRef w.screens (128, 96)
    nbLost := w.nbLost + (if v.nbFree then 0 else 1) }
  emit (emit w (.close i)) (.ret i false)

/-- calloc, scaledScreen = screen, refcount++, linked at the head of the client list -/
def spawn (w : World) : World :=
  { w with conns := w.conns ++ [{}], screens := incRef w.screens (128, 96), list := w.conns.length :: w.list }

/-- the WebSocket handshake stores a copy of the path of every "GET" line in `cl->wspath` -/
def wsStage (v : Variant) (w : World) (i ws : Nat) : World :=
  if ws > 0 then
    { (modConn w i fun c => { c with wspath := true }) with
      wsLostHs := w.wsLostHs + (if v.wsOnePath then 0 else ws - 1) }
  else w

/-- `rfbCloseClient(cl); rfbClientConnectionGone(cl); return NULL;` -/
def bail (v : Variant) (w : World) (i : Nat) : World :=
  emit (gone v (closeClient w i) i) (.ret i false)

/-- the application's newClientHook decides -/
def hookStage (v : Variant) (w : World) (i : Nat) (h : Hook) : World :=
  let w := emit (modConn w i fun c => { c with hooked := true }) (.hook i h)
  match h with
  | .accept => emit w (.ret i true)
  | .hold => emit (modConn w i fun c => { c with onHold := true }) (.ret i true)
  | .refuse => bail v w i

/-- extensions' newClient (the harness registers two: one with per-client data and init/close hooks,
one with nothing; each enabled extension gets a list node), then the newClientHook -/
def acceptHook (v : Variant) (w : World) (i : Nat) (h : Hook) : World :=
  hookStage v (if w.extOn then emit (modConn w i fun c => { c with exts := 2, extData := true, ext1On := true }) (.xnew i) else w) i h

/-- after a successful WebSocket check: wsctx exists for WebSocket clients; the server's protocol
version is written -/
def acceptVersion (v : Variant) (w : World) (i : Nat) (h : Hook) (ws : Nat) (x : Fail) : World :=
  let w := if ws > 0 then modConn w i fun c => { c with wsctx := true } else w
  if x == .wr then bail v w i else acceptHook v w i h

def accept (v : Variant) (w : World) (h : Hook) (ws : Nat) (nb : Bool) (x : Fail) : World :=
  let i := w.conns.length
  let w := emit w (.new i)
  if nb then nbFail v w
  else
    -- webSocketsCheck
    let w := wsStage v (spawn w) i ws
    if x == .rd || (x == .wr && ws > 0) then bail v w i
    else acceptVersion v w i h ws x

/-! ### one client message: `rfbProcessClientMessage` -/

def scaleDims (k : Nat) : Nat × Nat := (128 / k, 96 / k)

/-- `rfbScalingSetup`: find or allocate the screen, move the reference -/
def setScale (w : World) (i : Nat) (k : Nat) : World :=
  let d := scaleDims k
  -- a factor that reduces a dimension to 0 finds no screen and `rfbScaledScreenAllocate` refuses:
  -- "leaving things alone" — the client keeps its screen AND its reference
  if d.1 == 0 || d.2 == 0 then w else
  match w.conns[i]? with
  | none => w
  | some c =>
    let ss := if hasScreen w.screens d then w.screens else addScreen w.screens d
    let ss := if c.refHeld then incRef (decRef ss c.scr) d else ss
    modConn { w with screens := ss } i fun c => { c with scr := d }

/-- the policy block of `rfbProcessClientInitMessage` for an exclusive newcomer `i`
(`dontDisconnect` is off in the harness): every other open client in state NORMAL is closed. -/
def closeOthers (w : World) (i : Nat) : List Nat → World
  | [] => w
  | j :: rest =>
    let w' := match w.conns[j]? with
      | some c => if j != i && c.sockOpen && c.st == .normal then closeClient w j else w
      | none => w
    closeOthers w' i rest

/-- `rfbDisableExtension(cl, ext)` for the extension with data: `free(data)`, unlink the node
(variant: and free it) -/
def disableExt (v : Variant) (w : World) (i : Nat) : World :=
  match w.conns[i]? with
  | some c =>
    if c.ext1On then
      { (modConn w i fun c => { c with exts := c.exts - 1, extData := false, ext1On := false }) with
        extNodeLost := w.extNodeLost + (if v.disableFree then 0 else 1) }
    else w
  | none => w

def ext1Enabled (w : World) (i : Nat) : Bool :=
  match w.conns[i]? with
  | some c => c.ext1On
  | none => false

/-- `rfbEnableExtension(cl, ext, data)` by the application: refused if already enabled -/
def enableExt (w : World) (i : Nat) : World :=
  match w.conns[i]? with
  | some c =>
    if c.ext1On then w
    else emit (modConn w i fun c => { c with exts := c.exts + 1, extData := true, ext1On := true }) (.xnew i)
  | none => w

/-- the extensions' init hooks at the end of `rfbProcessClientInitMessage`: an init hook that returns
FALSE has its extension disabled on the spot -/
def extInit (v : Variant) (w : World) (i : Nat) : World :=
  match w.conns[i]? with
  | some c =>
    if c.ext1On then
      if c.extInitRefuse then disableExt v (emit (emit w (.xinit i)) (.xdrop i)) i else emit w (.xinit i)
    else w
  | none => w

/-- `rfbFileTransferRequest` for an existing file: `cl->fileTransfer.fd = open(...)`; a descriptor
that is still open is overwritten (variant: closed first) -/
def openFt (v : Variant) (w : World) (i : Nat) : World :=
  match w.conns[i]? with
  | none => w
  | some c =>
    let w : World := if c.ftFd && !v.ftClose then { w with stray := w.stray + 1 } else w
    modConn w i fun c => { c with ftFd := true }

/-- effects of a successfully processed message (beyond consuming it) -/
def msgEffect (v : Variant) (w : World) (i : Nat) (m : Msg) : World :=
  match m with
  | .ver => modConn w i fun c => { c with st := .sec }
  | .sec => modConn w i fun c => { c with st := if w.pwOn then .auth else .init }
  | .auth ok => if ok then modConn w i fun c => { c with st := .init } else closeClient w i
  | .init sh =>
    -- ServerInit written; the extensions' init hooks; state NORMAL; the policy block
    let w := extInit v w i
    let w := modConn w i fun c => { c with st := .normal }
    if sh then w else closeOthers w i w.list
  | .enc => w
  | .req => w
  | .scale k => if k == 0 then closeClient w i else setScale w i k
  | .pf => w
  | .key =>
    let w := emit w (.kbd i)
    match w.conns[i]? with
    | some c => if c.kbdClose then closeClient w i else w
    | none => w
  | .ptr down =>
    -- another client holds the pointer: ignored; else taken (button down) or released
    match w.ptrOwner with
    | some j => if j != i then w else { w with ptrOwner := if down then some i else none }
    | none => { w with ptrOwner := if down then some i else none }
  | .junk => closeClient w i
  | .part => closeClient w i
  | .ft => openFt v w i
  | .ftgo => modConn w i fun c => { c with ftSending := c.ftFd }
  | .eof => closeClient w i

/-- is `m` a message the protocol allows in state `st`?  (Everything else is outside the model;
the driver answers `unmodelled` and the generators never produce it.) -/
def msgOk (st : St) (m : Msg) : Bool :=
  match st, m with
  | _, .eof => true
  | .ver, .ver => true
  | .sec, .sec => true
  | .auth, .auth _ => true
  | .init, .init _ => true
  | .ver, .part | .auth, .part => true
  | .normal, .ptr _ | .normal, .ftgo => true
  | .normal, .scale k => k ≤ 255
  | .normal, .enc | .normal, .req | .normal, .pf | .normal, .key
  | .normal, .junk | .normal, .part | .normal, .ft => true
  | _, _ => false

/-- does the server answer this message (or send an update for it)?  Once the peer has closed, the
first such write fails (EPIPE). -/
def msgWrites : Msg → Bool
  | .ver | .sec | .auth _ | .init _ | .req | .ft | .ftgo => true
  | .scale k => k != 0
  | _ => false

/-- process the first message in the inbox of `i` (precondition: open, not on hold, inbox ≠ []).
`x`: observed I/O failure while doing so. `.rd`: nothing but `rfbCloseClient`.  `.wr`: the part of
the message's effect that precedes the failing write (scale: the reference has moved; ft: the
file is open) and then `rfbCloseClient`. -/
def procMsg (v : Variant) (w : World) (i : Nat) (x : Fail) (r : Res) : World :=
  match w.conns[i]? with
  | none => w
  | some c =>
    match c.inbox with
    | [] => w
    | m :: rest =>
      let w := modConn w i fun c => { c with inbox := rest }
      let x := if x == .none && !c.peerOpen && msgWrites m then Fail.wr else x
      match x with
      | .rd => closeClient w i
      | .wr =>
        let w := match m with
          | .scale k => if k == 0 then w else setScale w i k
          | .ft => openFt v w i
          | _ => w
        closeClient w i
      | .none =>
        -- whatever compression state / buffers the message made the server acquire
        msgEffect v (modConn w i fun c => { c with res := r }) i m

/-! ### the event loop -/

abbrev Ann := List (Nat × Fail)
abbrev ResAnn := List (Nat × Res)

def annFail (xs : Ann) (i : Nat) : Fail :=
  match xs.find? (fun p => p.1 == i) with
  | some p => p.2
  | none => .none

def annRes (rs : ResAnn) (w : World) (i : Nat) : Res :=
  match rs.find? (fun p => p.1 == i) with
  | some p => p.2
  | none => match w.conns[i]? with
    | some c => c.res
    | none => {}

def ready (w : World) (i : Nat) : Bool :=
  match w.conns[i]? with
  | some c => c.sockOpen && !c.onHold && !c.inbox.isEmpty
  | none => false

/-- a download is in progress on an open, not held client and the observed failure hits its chunk -/
def chunkFails (w : World) (xs : Ann) (i : Nat) : Bool :=
  match w.conns[i]? with
  | some c => c.sockOpen && !c.onHold && c.ftSending && annFail xs i != .none
  | none => false

/-- `rfbCheckFds`: the client iterator skips closed clients (checked when it advances, i.e. with the
world as it is then); on-hold clients are skipped; one message per readable client.
The failure annotation of a connection is consumed by the first message it processes. -/
def checkFds (v : Variant) (w : World) (xs : Ann) (rs : ResAnn) : List Nat → World × Ann
  | [] => (w, xs)
  | i :: rest =>
    if ready w i then
      checkFds v (procMsg v w i (annFail xs i) (annRes rs w i)) (xs.filter fun p => p.1 != i) rs rest
    else if chunkFails w xs i then
      -- nothing to read: `rfbSendFileTransferChunk`, whose write fails
      checkFds v (closeClient w i) (xs.filter fun p => p.1 != i) rs rest
    else checkFds v w xs rs rest

/-- the reaping loop of `rfbProcessEvents` (iterator "with closed"): every listed client whose
socket is closed is handed to `rfbClientConnectionGone`. -/
def reap (v : Variant) (w : World) : List Nat → World
  | [] => w
  | i :: rest =>
    if w.list.contains i && !isOpen w i then reap v (gone v w i) rest else reap v w rest

def processEvents (v : Variant) (w : World) (xs : Ann) (rs : ResAnn) : World × Ann :=
  let (w1, xs1) := checkFds v w xs rs w.list
  (reap v w1 w1.list, xs1)

def hasWork (w : World) (xs : Ann) : Bool :=
  w.list.any fun i => ready w i || !isOpen w i || chunkFails w xs i

/-- run the loop until it is at rest (the harness does the same) -/
def pump (v : Variant) (xs : Ann) (rs : ResAnn) : Nat → World → World
  | 0, w => w
  | n + 1, w =>
    if hasWork w xs then
      let (w1, xs1) := processEvents v w xs rs
      pump v xs1 rs n w1
    else w

def pumpFuel (w : World) : Nat :=
  2 + w.conns.length + (w.conns.map fun c => c.inbox.length).sum

/-! ### shutdown and cleanup -/

/-- iteration with `rfbGetClientIterator` where the successor is fetched BEFORE the current client
is processed: whether a client is skipped as "closed" is decided with the world `wDec` as it was
before the previously selected client was processed. -/
def sweep (v : Variant) (f : World → Nat → World) (w wDec : World) : List Nat → World
  | [] => w
  | i :: rest =>
    if !v.closedToo && !isOpen wDec i then sweep v f w wDec rest
    else sweep v f (f w i) w rest

/-- one client of `rfbShutdownServer`: `rfbCloseClient` if still open, `rfbClientConnectionGone` -/
def shutOne (v : Variant) (w : World) (i : Nat) : World :=
  if w.list.contains i then gone v (if isOpen w i then closeClient w i else w) i else w

/-- one client of `rfbScreenCleanup`: `rfbClientConnectionGone` -/
def cleanOne (v : Variant) (w : World) (i : Nat) : World :=
  if w.list.contains i then gone v w i else w

/-- `rfbShutdownServer(screen, TRUE)`, non-threaded -/
def shutdown (v : Variant) (w : World) : World :=
  let w1 := sweep v (shutOne v) w w w.list
  { w1 with shutLeft := w1.shutLeft + w1.list.length }

/-- `rfbScreenCleanup`: `rfbClientConnectionGone` for every client the iterator yields, then the
screen itself is freed: whatever is still listed is lost. -/
def cleanup (v : Variant) (w : World) : World :=
  let w1 := sweep v (cleanOne v) w w w.list
  { w1 with cleaned := true, recLost := w1.recLost + w1.list.length }

/-! ### operations of the application / the peers -/

inductive Op where
  | conn (h : Hook) (ws : Nat) (nb : Bool) (x : Fail)
  | send (i : Nat) (m : Msg) (xs : Ann) (rs : ResAnn)     -- peer writes a message, loop runs to rest
  | closePeer (i : Nat) (xs : Ann) (rs : ResAnn)          -- peer closes / resets, loop runs to rest
  | pump (xs : Ann) (rs : ResAnn)
  | appClose (i : Nat) | start (i : Nat) | refuse (i : Nat)
  | kbdClose (i : Nat) | goneKick (i k : Nat)
  | ext | pw
  | extRefuse (i : Nat) | extDrop (i : Nat) | extAdd (i : Nat)
  | shutdown | cleanup
  deriving Repr

def enqueue (w : World) (i : Nat) (m : Msg) : World :=
  modConn w i fun c => if c.peerOpen then { c with inbox := c.inbox ++ [m] } else c

def step (v : Variant) (w : World) : Op → World
  | .conn h ws nb x => accept v w h ws nb x
  | .send i m xs rs => let w1 := enqueue w i m; pump v xs rs (pumpFuel w1) w1
  | .closePeer i xs rs =>
    let w1 := modConn (enqueue w i .eof) i fun c => { c with peerOpen := false }
    pump v xs rs (pumpFuel w1) w1
  | .pump xs rs => pump v xs rs (pumpFuel w) w
  | .appClose i => if appKnows w i then closeClient w i else w
  | .start i => if appKnows w i then modConn w i fun c => { c with onHold := false } else w
  | .refuse i => if appKnows w i then gone v (closeClient w i) i else w
  | .kbdClose i => modConn w i fun c => { c with kbdClose := true }
  | .goneKick i k => modConn w i fun c => { c with goneKick := some k }
  | .ext => { w with extOn := true }
  | .pw => { w with pwOn := true }
  | .extRefuse i => modConn w i fun c => { c with extInitRefuse := true }
  | .extDrop i =>
    if appKnows w i && isOpen w i && ext1Enabled w i then disableExt v (emit w (.xdrop i)) i else w
  | .extAdd i => if appKnows w i && isOpen w i then enableExt w i else w
  | .shutdown => shutdown v w
  | .cleanup => cleanup v w

def run (v : Variant) (w : World) (ops : List Op) : World := ops.foldl (step v) w

end VncModel.Life
