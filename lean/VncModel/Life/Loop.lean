import VncModel.Life.Scale
/-! Message processing, the event loop, shutdown and cleanup preserve the invariant; `inv_run`. -/
namespace VncModel.Life

/-- an open record is a listed record -/
theorem listed_of_open {v : Variant} {w : World} (h : Inv v w) (i : Nat) (ho : isOpen w i = true) :
    i ∈ w.list := by
  obtain ⟨c, hc, hs⟩ := (isOpen_iff w i).mp ho
  by_cases hi : i ∈ w.list
  · exact hi
  · have := (h.dead i c hc hi).2.1
    rw [this] at hs; cases hs

theorem inv_openFt {v : Variant} {w : World} (h : Inv v w) (i : Nat) (hi : i ∈ w.list) :
    Inv v (openFt v w i) := by
  unfold openFt
  cases hc : w.conns[i]? with
  | none => exact h
  | some c =>
    simp only
    have h1 : Inv v (if (c.ftFd && !v.ftClose) = true then { w with stray := w.stray + 1 } else w) := by
      split
      · rename_i hcond
        refine inv_of_same h rfl rfl rfl ?_
        obtain ⟨k1, k2, k3, k4, k5, k6, k7, k8⟩ := h.counters
        refine ⟨k1, k2, k3, k4, ?_, k6, k7, k8⟩
        intro hv; simp [hv] at hcond
      · exact h
    apply inv_modConn_live h1 i _ (by split <;> exact hi)
    intro c; simp

theorem inv_closeOthers {v : Variant} {w : World} (h : Inv v w) (i : Nat) (l : List Nat) :
    Inv v (closeOthers w i l) := by
  induction l generalizing w with
  | nil => exact h
  | cons j rest ih =>
    unfold closeOthers
    apply ih
    cases w.conns[j]? with
    | none => exact h
    | some c =>
      simp only
      split
      · exact inv_closeClient h j
      · exact h

@[simp] theorem closeOthers_list (w : World) (i : Nat) (l : List Nat) :
    (closeOthers w i l).list = w.list := by
  induction l generalizing w with
  | nil => rfl
  | cons j rest ih =>
    unfold closeOthers
    rw [ih]
    cases w.conns[j]? with
    | none => rfl
    | some c => simp only; split <;> simp

@[simp] theorem openFt_list (v : Variant) (w : World) (i : Nat) : (openFt v w i).list = w.list := by
  unfold openFt
  cases w.conns[i]? with
  | none => rfl
  | some c => simp only [modConn_list]; split <;> rfl

theorem liveOpen_of {v : Variant} {w : World} (h : Inv v w) (i : Nat) (ho : isOpen w i = true) :
    LiveOpen v w i := ⟨h, listed_of_open h i ho, ho⟩

/-- `rfbDisableExtension` on a listed client: the data is freed, the node unlinked (and, with the
fix, freed) -/
theorem inv_disableExt {v : Variant} {w : World} (h : Inv v w) (i : Nat) (hi : i ∈ w.list) :
    Inv v (disableExt v w i) := by
  unfold disableExt
  cases hc : w.conns[i]? with
  | none => exact h
  | some c =>
    simp only
    split
    · have h1 : Inv v (modConn w i fun c => { c with exts := c.exts - 1, extData := false, ext1On := false }) := by
        apply inv_modConn h
        · intro c _ _ hl
          exact ⟨hl.1, hl.2.1, hl.2.2.1, hl.2.2.2.1, fun hs => ⟨(hl.2.2.2.2 hs).1, (hl.2.2.2.2 hs).2.1, rfl⟩⟩
        · intro c _ hn; exact absurd hi hn
        · intro c _; simp
      refine inv_of_same h1 rfl rfl rfl ?_
      obtain ⟨k1, k2, k3, k4, k5, k6, k7, k8⟩ := h.counters
      refine ⟨k1, k2, k3, k4, k5, k6, k7, ?_⟩
      intro hv; simp [hv, k8 hv]
    · exact h

theorem inv_extInit {v : Variant} {w : World} (h : Inv v w) (i : Nat) (hi : i ∈ w.list) :
    Inv v (extInit v w i) := by
  unfold extInit
  cases w.conns[i]? with
  | none => exact h
  | some c =>
    simp only
    split
    · split
      · exact inv_disableExt (inv_emit (inv_emit h _) _) i hi
      · exact inv_emit h _
    · exact h

theorem inv_enableExt {v : Variant} {w : World} (h : Inv v w) (i : Nat) (ho : isOpen w i = true) :
    Inv v (enableExt w i) := by
  unfold enableExt
  cases hc : w.conns[i]? with
  | none => exact h
  | some c =>
    simp only
    split
    · exact h
    · exact inv_emit (liveOpen_modConn (liveOpen_of h i ho) _ (by intro c; simp)).1 _

@[simp] theorem disableExt_list (v : Variant) (w : World) (i : Nat) : (disableExt v w i).list = w.list := by
  unfold disableExt
  cases w.conns[i]? with
  | none => rfl
  | some c => simp only; split <;> rfl

@[simp] theorem extInit_list (v : Variant) (w : World) (i : Nat) : (extInit v w i).list = w.list := by
  unfold extInit
  cases w.conns[i]? with
  | none => rfl
  | some c =>
    simp only
    split
    · split <;> simp
    · rfl

theorem inv_setPtr {v : Variant} {w : World} (h : Inv v w) (o : Option Nat)
    (ho : ∀ j, o = some j → j ∈ w.list) : Inv v { w with ptrOwner := o } :=
  ⟨h.nodup, h.bound, h.live, h.dead, h.counters, h.refs, h.scr, h.main, ho⟩

theorem inv_msgEffect {v : Variant} {w : World} (h : Inv v w) (i : Nat) (m : Msg) (hi : i ∈ w.list) :
    Inv v (msgEffect v w i m) := by
  cases m with
  | ver => exact inv_modConn_proto h i _ (by intro c; simp)
  | sec => exact inv_modConn_proto h i _ (by intro c; simp)
  | auth ok =>
    simp only [msgEffect]
    split
    · exact inv_modConn_proto h i _ (by intro c; simp)
    · exact inv_closeClient h i
  | init sh =>
    simp only [msgEffect]
    have h0 : Inv v (extInit v w i) := inv_extInit h i hi
    have h1 := inv_modConn_proto h0 i (fun c => { c with st := .normal }) (by intro c; simp)
    split
    · exact h1
    · exact inv_closeOthers h1 i _
  | enc => exact h
  | req => exact h
  | scale k =>
    simp only [msgEffect]
    split
    · exact inv_closeClient h i
    · exact inv_setScale h i k hi
  | pf => exact h
  | key =>
    simp only [msgEffect]
    have h1 := inv_emit h (.kbd i)
    cases hc : (emit w (.kbd i)).conns[i]? with
    | none => simpa [hc] using h1
    | some c =>
      simp only
      split
      · exact inv_closeClient h1 i
      · exact h1
  | ptr down =>
    simp only [msgEffect]
    have hset : Inv v { w with ptrOwner := if down = true then some i else none } := by
      apply inv_setPtr h
      intro j hj
      split at hj
      · cases hj; exact hi
      · cases hj
    cases w.ptrOwner with
    | none => exact hset
    | some j => simp only; split; exact h; exact hset
  | junk => exact inv_closeClient h i
  | part => exact inv_closeClient h i
  | ft => exact inv_openFt h i hi
  | ftgo => exact inv_modConn_live h i _ hi (by intro c; simp)
  | eof => exact inv_closeClient h i

theorem msgEffect_list (v : Variant) (w : World) (i : Nat) (m : Msg) :
    (msgEffect v w i m).list = w.list := by
  cases m with
  | auth ok => simp only [msgEffect]; split <;> simp
  | init sh =>
    simp only [msgEffect]
    have h0 : (extInit v w i).list = w.list := extInit_list v w i
    split
    · rw [modConn_list]; exact h0
    · rw [closeOthers_list, modConn_list]; exact h0
  | scale k => simp only [msgEffect]; split <;> simp
  | key =>
    simp only [msgEffect]
    cases (emit w (.kbd i)).conns[i]? with
    | none => rfl
    | some c => simp only; split <;> simp
  | ptr down =>
    simp only [msgEffect]
    cases w.ptrOwner with
    | none => rfl
    | some j => simp only; split <;> rfl
  | ver => simp [msgEffect]
  | sec => simp [msgEffect]
  | enc => rfl
  | req => rfl
  | pf => rfl
  | junk => simp [msgEffect]
  | part => simp [msgEffect]
  | ft => simp [msgEffect]
  | ftgo => simp [msgEffect]
  | eof => simp [msgEffect]

theorem inv_procMsg {v : Variant} {w : World} (h : Inv v w) (i : Nat) (x : Fail) (r : Res)
    (hi : i ∈ w.list) : Inv v (procMsg v w i x r) := by
  unfold procMsg
  cases hc : w.conns[i]? with
  | none => exact h
  | some c =>
    simp only
    cases hin : c.inbox with
    | nil => exact h
    | cons m rest =>
      simp only
      have h1 := inv_modConn_proto h i (fun c => { c with inbox := rest }) (by intro c; simp)
      have hi1 : i ∈ (modConn w i fun c => { c with inbox := rest }).list := by simpa using hi
      generalize (if (x == Fail.none && !c.peerOpen && msgWrites m) = true then Fail.wr else x) = x'
      cases x' with
      | rd => exact inv_closeClient h1 i
      | wr =>
        simp only
        apply inv_closeClient
        cases m with
        | scale k =>
          simp only
          split
          · exact h1
          · exact inv_setScale h1 i k hi1
        | ft => exact inv_openFt h1 i hi1
        | _ => exact h1
      | none =>
        simp only
        apply inv_msgEffect
        · exact inv_modConn_live h1 i _ hi1 (by intro c; simp)
        · simpa using hi

theorem procMsg_list (v : Variant) (w : World) (i : Nat) (x : Fail) (r : Res) :
    (procMsg v w i x r).list = w.list := by
  unfold procMsg
  cases w.conns[i]? with
  | none => rfl
  | some c =>
    simp only
    cases c.inbox with
    | nil => rfl
    | cons m rest =>
      simp only
      generalize (if (x == Fail.none && !c.peerOpen && msgWrites m) = true then Fail.wr else x) = x'
      cases x' with
      | rd => simp
      | wr =>
        simp only [closeClient_list]
        cases m <;> simp
        split <;> simp
      | none => simp [msgEffect_list]

theorem ready_open (w : World) (i : Nat) (h : ready w i = true) : isOpen w i = true := by
  unfold ready at h
  unfold isOpen
  cases hc : w.conns[i]? with
  | none => simp [hc] at h
  | some c => simp [hc] at h; simp [h.1.1]

theorem inv_checkFds {v : Variant} {w : World} (h : Inv v w) (xs : Ann) (rs : ResAnn) (l : List Nat) :
    Inv v (checkFds v w xs rs l).1 := by
  induction l generalizing w xs with
  | nil => exact h
  | cons i rest ih =>
    unfold checkFds
    split
    · rename_i hr
      apply ih
      exact inv_procMsg h i _ _ (listed_of_open h i (ready_open w i hr))
    · split
      · exact ih (inv_closeClient h i) _
      · exact ih h xs

theorem inv_reap {v : Variant} {w : World} (h : Inv v w) (l : List Nat) : Inv v (reap v w l) := by
  induction l generalizing w with
  | nil => exact h
  | cons i rest ih =>
    unfold reap
    split
    · rename_i hc
      apply ih
      simp only [Bool.and_eq_true, List.contains_iff_mem] at hc
      exact inv_gone h i hc.1
    · exact ih h

theorem inv_processEvents {v : Variant} {w : World} (h : Inv v w) (xs : Ann) (rs : ResAnn) :
    Inv v (processEvents v w xs rs).1 := by
  unfold processEvents
  exact inv_reap (inv_checkFds h xs rs w.list) _

theorem inv_pump {v : Variant} (xs : Ann) (rs : ResAnn) (n : Nat) {w : World} (h : Inv v w) :
    Inv v (pump v xs rs n w) := by
  induction n generalizing w xs with
  | zero => exact h
  | succ n ih =>
    unfold pump
    split
    · exact ih _ (inv_processEvents h xs rs)
    · exact h

/-! ### shutdown and cleanup -/

theorem inv_sweep {v : Variant} (f : World → Nat → World)
    (hf : ∀ w i, Inv v w → Inv v (f w i)) {w : World} (wDec : World) (h : Inv v w) (l : List Nat) :
    Inv v (sweep v f w wDec l) := by
  induction l generalizing w wDec with
  | nil => exact h
  | cons i rest ih =>
    unfold sweep
    split
    · exact ih wDec h
    · exact ih w (hf w i h)

theorem inv_shutOne {v : Variant} (w : World) (i : Nat) (h : Inv v w) : Inv v (shutOne v w i) := by
  unfold shutOne
  split
  · rename_i hc
    have h1 : Inv v (if isOpen w i = true then closeClient w i else w) := by
      split
      · exact inv_closeClient h i
      · exact h
    exact inv_gone h1 i (by split <;> simpa using hc)
  · exact h

theorem inv_cleanOne {v : Variant} (w : World) (i : Nat) (h : Inv v w) : Inv v (cleanOne v w i) := by
  unfold cleanOne
  split
  · rename_i hc
    exact inv_gone h i (by simpa using hc)
  · exact h

theorem shutOne_list {v : Variant} (w : World) (i : Nat) (h : Inv v w) :
    (shutOne v w i).list = w.list.erase i := by
  unfold shutOne
  split
  · rename_i hc
    have hi : i ∈ w.list := by simpa using hc
    rw [gone_list v _ i (by split <;> simpa using h.bound i hi)]
    split <;> simp
  · rename_i hc
    have hi : i ∉ w.list := by simpa using hc
    exact (List.erase_of_not_mem hi).symm

theorem cleanOne_list {v : Variant} (w : World) (i : Nat) (h : Inv v w) :
    (cleanOne v w i).list = w.list.erase i := by
  unfold cleanOne
  split
  · rename_i hc
    have hi : i ∈ w.list := by simpa using hc
    exact gone_list v _ i (h.bound i hi)
  · rename_i hc
    have hi : i ∉ w.list := by simpa using hc
    exact (List.erase_of_not_mem hi).symm

/-- with the `closedToo` fix the sweep visits every client of the snapshot -/
theorem sweep_removes {v : Variant} (hv : v.closedToo = true) (f : World → Nat → World)
    (hf : ∀ w i, Inv v w → Inv v (f w i))
    (hl : ∀ w i, Inv v w → (f w i).list = w.list.erase i)
    {w : World} (wDec : World) (h : Inv v w) (l : List Nat) :
    ∀ x, x ∈ (sweep v f w wDec l).list → x ∈ w.list ∧ x ∉ l := by
  induction l generalizing w wDec with
  | nil => intro x hx; exact ⟨hx, by simp⟩
  | cons i rest ih =>
    intro x hx
    unfold sweep at hx
    simp only [hv, Bool.not_true, Bool.false_and, Bool.false_eq_true, if_false] at hx
    have := ih w (hf w i h) x hx
    rw [hl w i h] at this
    have hm := (h.nodup.mem_erase_iff).mp this.1
    exact ⟨hm.2, by simp [hm.1, this.2]⟩

theorem sweep_all_gone {v : Variant} (hv : v.closedToo = true) (f : World → Nat → World)
    (hf : ∀ w i, Inv v w → Inv v (f w i))
    (hl : ∀ w i, Inv v w → (f w i).list = w.list.erase i)
    {w : World} (h : Inv v w) : (sweep v f w w w.list).list = [] := by
  rw [List.eq_nil_iff_forall_not_mem]
  intro x hx
  have := sweep_removes hv f hf hl w h w.list x hx
  exact this.2 this.1

theorem shutdown_eq (v : Variant) (w : World) :
    shutdown v w = { sweep v (shutOne v) w w w.list with
      shutLeft := (sweep v (shutOne v) w w w.list).shutLeft + (sweep v (shutOne v) w w w.list).list.length } := rfl

theorem cleanup_eq (v : Variant) (w : World) :
    cleanup v w = { sweep v (cleanOne v) w w w.list with
      cleaned := true
      recLost := (sweep v (cleanOne v) w w w.list).recLost + (sweep v (cleanOne v) w w w.list).list.length } := rfl

theorem inv_shutdown {v : Variant} {w : World} (h : Inv v w) : Inv v (shutdown v w) := by
  rw [shutdown_eq]
  have h1 := inv_sweep (shutOne v) (fun w i => inv_shutOne w i) w h w.list
  refine inv_of_same h1 rfl rfl rfl ?_
  obtain ⟨k1, k2, k3, k4, k5, k6, k7, k8⟩ := h1.counters
  refine ⟨k1, ?_, k3, k4, k5, k6, k7, k8⟩
  intro hv
  have := sweep_all_gone hv (shutOne v) (fun w i => inv_shutOne w i) (fun w i => shutOne_list w i) h
  simp [this, k2 hv]

theorem inv_cleanup {v : Variant} {w : World} (h : Inv v w) : Inv v (cleanup v w) := by
  rw [cleanup_eq]
  have h1 := inv_sweep (cleanOne v) (fun w i => inv_cleanOne w i) w h w.list
  refine inv_of_same h1 rfl rfl rfl ?_
  obtain ⟨k1, k2, k3, k4, k5, k6, k7, k8⟩ := h1.counters
  refine ⟨k1, ?_, k3, k4, k5, k6, k7, k8⟩
  intro hv
  have := sweep_all_gone hv (cleanOne v) (fun w i => inv_cleanOne w i) (fun w i => cleanOne_list w i) h
  simp [this, k2 hv]

/-! ### every operation -/

theorem inv_enqueue {v : Variant} {w : World} (h : Inv v w) (i : Nat) (m : Msg) :
    Inv v (enqueue w i m) := by
  unfold enqueue
  apply inv_modConn_proto h
  intro c; by_cases hp : c.peerOpen = true <;> simp [hp]

theorem inv_step {v : Variant} {w : World} (h : Inv v w) (op : Op) : Inv v (step v w op) := by
  cases op with
  | conn hk ws nb x => exact inv_accept h hk ws nb x
  | send i m xs rs => exact inv_pump xs rs _ (inv_enqueue h i m)
  | closePeer i xs rs =>
    exact inv_pump xs rs _ (inv_modConn_proto (inv_enqueue h i .eof) i _ (by intro c; simp))
  | pump xs rs => exact inv_pump xs rs _ h
  | appClose i => simp only [step]; split; exact inv_closeClient h i; exact h
  | start i =>
    simp only [step]; split
    · exact inv_modConn_proto h i _ (by intro c; simp)
    · exact h
  | refuse i =>
    simp only [step]; split
    · rename_i hk
      have hopen : i ∈ w.list := by
        unfold appKnows at hk
        cases hc : w.conns[i]? with
        | none => simp [hc] at hk
        | some c =>
          simp [hc] at hk
          by_cases hi : i ∈ w.list
          · exact hi
          · have hd := h.dead i c hc hi
            rcases hd.2.2 with ht | hn
            · have := ht.1; rw [hk.1, hk.2] at this; cases this
            · rw [hn.2.2.1] at hk; cases hk.1
      exact inv_gone (inv_closeClient h i) i (by simpa using hopen)
    · exact h
  | kbdClose i => exact inv_modConn_proto h i _ (by intro c; simp)
  | goneKick i k => exact inv_modConn_proto h i _ (by intro c; simp)
  | ext => exact inv_of_same h rfl rfl rfl h.counters
  | pw => exact inv_of_same h rfl rfl rfl h.counters
  | extRefuse i => exact inv_modConn_proto h i _ (by intro c; simp)
  | extDrop i =>
    simp only [step]; split
    · rename_i hk
      simp only [Bool.and_eq_true] at hk
      exact inv_disableExt (inv_emit h _) i (listed_of_open h i hk.1.2)
    · exact h
  | extAdd i =>
    simp only [step]; split
    · rename_i hk
      simp only [Bool.and_eq_true] at hk
      exact inv_enableExt h i hk.2
    · exact h
  | shutdown => exact inv_shutdown h
  | cleanup => exact inv_cleanup h

theorem inv_run {v : Variant} {w : World} (h : Inv v w) (ops : List Op) : Inv v (run v w ops) := by
  induction ops generalizing w with
  | nil => exact h
  | cons op rest ih => exact ih (inv_step h op)

end VncModel.Life
