import VncModel.Life.Loop
/-! Progress (closed clients are reaped; shutdown / cleanup leave nobody behind) and isolation
(a step of one connection leaves every other record alone, or closes it exactly once). -/
namespace VncModel.Life

/-! ### isolation -/

/-- untouched, or what `rfbCloseClient` makes of it (`closeRec`: closed once if its socket was open —
a record that is already closed only loses extension data it could not have any more) -/
def SameOrClosed (c c' : Conn) : Prop := c' = c ∨ c' = closeRec c

/-- record `j` of `w'` is record `j` of `w`, possibly closed once -/
def Undisturbed (w w' : World) (j : Nat) : Prop :=
  ∀ c, w.conns[j]? = some c → ∃ c', w'.conns[j]? = some c' ∧ SameOrClosed c c'

theorem SameOrClosed.refl (c : Conn) : SameOrClosed c c := Or.inl rfl

theorem closeRec_idem (c : Conn) : closeRec (closeRec c) = closeRec c := by
  unfold closeRec
  cases hs : c.sockOpen <;> simp

/-- closing is counted at most once however often the record is handed to `rfbCloseClient` -/
theorem closeRec_calls (c : Conn) :
    (closeRec c).closeCalls = c.closeCalls + (if c.sockOpen then 1 else 0) ∧ (closeRec c).sockOpen = false ∨
    (closeRec c).closeCalls = c.closeCalls ∧ c.sockOpen = false := by
  unfold closeRec
  cases hs : c.sockOpen <;> simp

theorem SameOrClosed.trans {a b c : Conn} (h1 : SameOrClosed a b) (h2 : SameOrClosed b c) :
    SameOrClosed a c := by
  rcases h1 with rfl | rfl
  · exact h2
  · rcases h2 with rfl | rfl
    · exact Or.inr rfl
    · exact Or.inr (closeRec_idem a)

theorem Undisturbed.refl (w : World) (j : Nat) : Undisturbed w w j :=
  fun c hc => ⟨c, hc, SameOrClosed.refl c⟩

theorem Undisturbed.trans {w1 w2 w3 : World} {j : Nat} (h1 : Undisturbed w1 w2 j)
    (h2 : Undisturbed w2 w3 j) : Undisturbed w1 w3 j := by
  intro c hc
  obtain ⟨c', hc', hs⟩ := h1 c hc
  obtain ⟨c'', hc'', hs'⟩ := h2 c' hc'
  exact ⟨c'', hc'', hs.trans hs'⟩

theorem undisturbed_of_eq {w w' : World} {j : Nat} (h : w'.conns[j]? = w.conns[j]?) :
    Undisturbed w w' j := fun c hc => ⟨c, by rw [h]; exact hc, SameOrClosed.refl c⟩

/-- `rfbCloseClient(i)`: every other record is untouched; record `i` itself is `SameOrClosed` -/
theorem closeClient_undisturbed (w : World) (i j : Nat) : Undisturbed w (closeClient w i) j := by
  by_cases hij : i = j
  · subst hij
    intro c hc
    exact ⟨closeRec c, closeClient_get_self w i c hc, Or.inr rfl⟩
  · exact undisturbed_of_eq (closeClient_get_ne w i j hij)

theorem closeClient_isolated (w : World) (i j : Nat) (h : i ≠ j) :
    (closeClient w i).conns[j]? = w.conns[j]? := closeClient_get_ne w i j h

/-- `rfbClientConnectionGone(i)`: another record is untouched, unless the application's gone hook of
`i` closes it (then it is closed exactly once) -/
theorem gone_undisturbed (v : Variant) (w : World) (i j : Nat) (h : i ≠ j) :
    Undisturbed w (gone v w i) j := by
  unfold gone
  cases hc : w.conns[i]? with
  | none => exact Undisturbed.refl w j
  | some c =>
    simp only
    have h1 : Undisturbed w (goneCore v w i c) j := by
      apply undisturbed_of_eq
      rw [goneCore_get]
      cases w.conns[j]? <;> simp [h]
    have hk : Undisturbed w (match c.goneKick with
        | some k => if (c.hooked && appKnows (goneCore v w i c) k) = true then closeClient (goneCore v w i c) k
                    else goneCore v w i c
        | none => goneCore v w i c) j := by
      cases c.goneKick with
      | none => exact h1
      | some k =>
        simp only
        split
        · exact h1.trans (closeClient_undisturbed _ k j)
        · exact h1
    split
    · exact hk.trans (undisturbed_of_eq rfl)
    · exact hk

/-- without a kick armed on `i`, `rfbClientConnectionGone(i)` touches no other record at all -/
theorem gone_isolated (v : Variant) (w : World) (i j : Nat) (h : i ≠ j) (c : Conn)
    (hc : w.conns[i]? = some c) (hk : c.goneKick = none) :
    (gone v w i).conns[j]? = w.conns[j]? := by
  unfold gone
  simp only [hc, hk]
  have : (goneCore v w i c).conns[j]? = w.conns[j]? := by
    rw [goneCore_get]
    cases w.conns[j]? <;> simp [h]
  split
  · simpa using this
  · exact this

theorem closeOthers_undisturbed (w : World) (i j : Nat) (l : List Nat) :
    Undisturbed w (closeOthers w i l) j := by
  induction l generalizing w with
  | nil => exact Undisturbed.refl w j
  | cons k rest ih =>
    unfold closeOthers
    refine Undisturbed.trans ?_ (ih _)
    cases w.conns[k]? with
    | none => exact Undisturbed.refl w j
    | some c =>
      simp only
      split
      · exact closeClient_undisturbed w k j
      · exact Undisturbed.refl w j

theorem setScale_isolated (w : World) (i k j : Nat) (h : i ≠ j) :
    (setScale w i k).conns[j]? = w.conns[j]? := by
  unfold setScale
  simp only
  split
  · rfl
  · cases w.conns[i]? with
    | none => rfl
    | some c => simp only; rw [modConn_get_ne _ _ _ _ h]

theorem openFt_isolated (v : Variant) (w : World) (i j : Nat) (h : i ≠ j) :
    (openFt v w i).conns[j]? = w.conns[j]? := by
  unfold openFt
  cases w.conns[i]? with
  | none => rfl
  | some c => simp only; rw [modConn_get_ne _ _ _ _ h]; split <;> rfl

theorem disableExt_isolated (v : Variant) (w : World) (i j : Nat) (h : i ≠ j) :
    (disableExt v w i).conns[j]? = w.conns[j]? := by
  unfold disableExt
  cases w.conns[i]? with
  | none => rfl
  | some c =>
    simp only
    split
    · exact modConn_get_ne _ _ _ _ h
    · rfl

theorem extInit_isolated (v : Variant) (w : World) (i j : Nat) (h : i ≠ j) :
    (extInit v w i).conns[j]? = w.conns[j]? := by
  unfold extInit
  cases w.conns[i]? with
  | none => rfl
  | some c =>
    simp only
    split
    · split
      · exact disableExt_isolated v _ i j h
      · rfl
    · rfl

/-- a message of connection `i` (any message, any I/O failure) leaves every other record
untouched — except for the intended non-shared replacement, which closes it exactly once -/
theorem msgEffect_undisturbed (v : Variant) (w : World) (i j : Nat) (m : Msg) (h : i ≠ j) :
    Undisturbed w (msgEffect v w i m) j := by
  cases m with
  | init sh =>
    simp only [msgEffect]
    have h1 : Undisturbed w (modConn (extInit v w i) i fun c => { c with st := .normal }) j :=
      undisturbed_of_eq (by rw [modConn_get_ne _ _ _ _ h, extInit_isolated v w i j h])
    split
    · exact h1
    · exact h1.trans (closeOthers_undisturbed _ i j _)
  | scale k =>
    simp only [msgEffect]
    split
    · exact closeClient_undisturbed w i j
    · exact undisturbed_of_eq (setScale_isolated w i k j h)
  | key =>
    simp only [msgEffect]
    have he : Undisturbed w (emit w (.kbd i)) j := undisturbed_of_eq rfl
    cases (emit w (.kbd i)).conns[i]? with
    | none => exact he
    | some c =>
      simp only
      split
      · exact he.trans (closeClient_undisturbed _ i j)
      · exact he
  | ft => exact undisturbed_of_eq (openFt_isolated v w i j h)
  | ftgo => exact undisturbed_of_eq (modConn_get_ne _ _ _ _ h)
  | auth ok =>
    simp only [msgEffect]
    split
    · exact undisturbed_of_eq (modConn_get_ne _ _ _ _ h)
    · exact closeClient_undisturbed w i j
  | ptr down =>
    simp only [msgEffect]
    cases w.ptrOwner with
    | none => exact undisturbed_of_eq rfl
    | some k => simp only; split; exact Undisturbed.refl w j; exact undisturbed_of_eq rfl
  | ver => exact undisturbed_of_eq (modConn_get_ne _ _ _ _ h)
  | sec => exact undisturbed_of_eq (modConn_get_ne _ _ _ _ h)
  | enc => exact Undisturbed.refl w j
  | req => exact Undisturbed.refl w j
  | pf => exact Undisturbed.refl w j
  | junk => exact closeClient_undisturbed w i j
  | part => exact closeClient_undisturbed w i j
  | eof => exact closeClient_undisturbed w i j

/-- … and apart from a non-shared ClientInit it does not touch any other record at all -/
theorem msgEffect_isolated (v : Variant) (w : World) (i j : Nat) (m : Msg) (h : i ≠ j)
    (hm : ∀ sh, m = .init sh → sh = true) :
    (msgEffect v w i m).conns[j]? = w.conns[j]? := by
  cases m with
  | init sh =>
    have := hm sh rfl; subst this
    simp only [msgEffect, if_true]
    rw [modConn_get_ne _ _ _ _ h, extInit_isolated v w i j h]
  | scale k =>
    simp only [msgEffect]
    split
    · exact closeClient_get_ne w i j h
    · exact setScale_isolated w i k j h
  | key =>
    simp only [msgEffect]
    cases (emit w (.kbd i)).conns[i]? with
    | none => rfl
    | some c =>
      simp only
      split
      · exact closeClient_get_ne _ i j h
      · rfl
  | ft => exact openFt_isolated v w i j h
  | ftgo => exact modConn_get_ne _ _ _ _ h
  | auth ok =>
    simp only [msgEffect]
    split
    · exact modConn_get_ne _ _ _ _ h
    · exact closeClient_get_ne w i j h
  | ptr down =>
    simp only [msgEffect]
    cases w.ptrOwner with
    | none => rfl
    | some k => simp only; split <;> rfl
  | ver => exact modConn_get_ne _ _ _ _ h
  | sec => exact modConn_get_ne _ _ _ _ h
  | enc => rfl
  | req => rfl
  | pf => rfl
  | junk => exact closeClient_get_ne w i j h
  | part => exact closeClient_get_ne w i j h
  | eof => exact closeClient_get_ne w i j h

theorem procMsg_undisturbed (v : Variant) (w : World) (i j : Nat) (x : Fail) (r : Res) (h : i ≠ j) :
    Undisturbed w (procMsg v w i x r) j := by
  unfold procMsg
  cases hc : w.conns[i]? with
  | none => exact Undisturbed.refl w j
  | some c =>
    simp only
    cases c.inbox with
    | nil => exact Undisturbed.refl w j
    | cons m rest =>
      simp only
      have h1 : Undisturbed w (modConn w i fun c => { c with inbox := rest }) j :=
        undisturbed_of_eq (modConn_get_ne _ _ _ _ h)
      generalize (if (x == Fail.none && !c.peerOpen && msgWrites m) = true then Fail.wr else x) = x'
      cases x' with
      | rd => exact h1.trans (closeClient_undisturbed _ i j)
      | wr =>
        simp only
        refine Undisturbed.trans ?_ (closeClient_undisturbed _ i j)
        cases m with
        | scale k =>
          simp only
          split
          · exact h1
          · exact h1.trans (undisturbed_of_eq (setScale_isolated _ i k j h))
        | ft => exact h1.trans (undisturbed_of_eq (openFt_isolated v _ i j h))
        | _ => exact h1
      | none =>
        simp only
        refine h1.trans (Undisturbed.trans ?_ (msgEffect_undisturbed v _ i j m h))
        exact undisturbed_of_eq (modConn_get_ne _ _ _ _ h)

/-- a message whose I/O fails (`x ≠ none`) never touches another record: a failing connection
cannot take anybody else with it -/
theorem procMsg_failed_isolated (v : Variant) (w : World) (i j : Nat) (x : Fail) (r : Res)
    (h : i ≠ j) (hx : x ≠ .none) : (procMsg v w i x r).conns[j]? = w.conns[j]? := by
  unfold procMsg
  cases hc : w.conns[i]? with
  | none => rfl
  | some c =>
    simp only
    cases c.inbox with
    | nil => rfl
    | cons m rest =>
      simp only
      have hx' : (if (x == Fail.none && !c.peerOpen && msgWrites m) = true then Fail.wr else x) ≠ .none := by
        split
        · simp
        · exact hx
      generalize (if (x == Fail.none && !c.peerOpen && msgWrites m) = true then Fail.wr else x) = x' at hx'
      cases x' with
      | none => exact absurd rfl hx'
      | rd => rw [closeClient_get_ne _ i j h, modConn_get_ne _ _ _ _ h]
      | wr =>
        simp only
        rw [closeClient_get_ne _ i j h]
        cases m with
        | scale k =>
          simp only
          split
          · exact modConn_get_ne _ _ _ _ h
          · rw [setScale_isolated _ i k j h, modConn_get_ne _ _ _ _ h]
        | ft => simp only; rw [openFt_isolated v _ i j h, modConn_get_ne _ _ _ _ h]
        | _ => exact modConn_get_ne _ _ _ _ h

theorem bail_undisturbed (v : Variant) (w0 w : World) (i j : Nat) (hne : i ≠ j)
    (h : Undisturbed w0 w j) : Undisturbed w0 (bail v w i) j := by
  unfold bail
  exact h.trans ((closeClient_undisturbed w _ j).trans (gone_undisturbed v _ _ j hne))

theorem modConn_undisturbed (w0 w : World) (i j : Nat) (f : Conn → Conn) (hne : i ≠ j)
    (h : Undisturbed w0 w j) : Undisturbed w0 (modConn w i f) j :=
  h.trans (undisturbed_of_eq (modConn_get_ne _ _ _ _ hne))

theorem hookStage_undisturbed (v : Variant) (w0 w : World) (i j : Nat) (hk : Hook) (hne : i ≠ j)
    (h : Undisturbed w0 w j) : Undisturbed w0 (hookStage v w i hk) j := by
  unfold hookStage
  have h1 : Undisturbed w0 (emit (modConn w i fun c => { c with hooked := true }) (.hook i hk)) j :=
    modConn_undisturbed w0 w i j _ hne h
  cases hk with
  | accept => exact h1
  | hold => exact modConn_undisturbed w0 _ i j _ hne h1
  | refuse => exact bail_undisturbed v w0 _ i j hne h1

theorem acceptHook_undisturbed (v : Variant) (w0 w : World) (i j : Nat) (hk : Hook) (hne : i ≠ j)
    (h : Undisturbed w0 w j) : Undisturbed w0 (acceptHook v w i hk) j := by
  unfold acceptHook
  apply hookStage_undisturbed v w0 _ i j hk hne
  split
  · exact modConn_undisturbed w0 w i j _ hne h
  · exact h

theorem acceptVersion_undisturbed (v : Variant) (w0 w : World) (i j : Nat) (hk : Hook) (ws : Nat)
    (x : Fail) (hne : i ≠ j) (h : Undisturbed w0 w j) :
    Undisturbed w0 (acceptVersion v w i hk ws x) j := by
  unfold acceptVersion
  have h2 : Undisturbed w0 (if ws > 0 then modConn w i (fun c => { c with wsctx := true }) else w) j := by
    split
    · exact modConn_undisturbed w0 w i j _ hne h
    · exact h
  simp only
  split
  · exact bail_undisturbed v w0 _ i j hne h2
  · exact acceptHook_undisturbed v w0 _ i j hk hne h2

/-- accepting (or failing to accept) a new connection touches no existing record -/
theorem accept_undisturbed (v : Variant) (w : World) (hk : Hook) (ws : Nat) (nb : Bool) (x : Fail)
    (j : Nat) (hj : j < w.conns.length) :
    Undisturbed w (accept v w hk ws nb x) j := by
  have hne : w.conns.length ≠ j := by omega
  have happ : ∀ (c0 : Conn) (w' : World), w'.conns = w.conns ++ [c0] → Undisturbed w w' j := by
    intro c0 w' hw'
    apply undisturbed_of_eq
    rw [hw', List.getElem?_append_left hj]
  unfold accept
  simp only
  split
  · unfold nbFail; exact happ _ _ rfl
  · have h1 : Undisturbed w (wsStage v (spawn (emit w (.new w.conns.length))) w.conns.length ws) j := by
      have hs : Undisturbed w (spawn (emit w (.new w.conns.length))) j := happ {} _ rfl
      unfold wsStage
      split
      · exact modConn_undisturbed w _ _ j _ hne hs
      · exact hs
    split
    · exact bail_undisturbed v w _ _ j hne h1
    · exact acceptVersion_undisturbed v w _ _ j hk ws x hne h1

/-! ### progress -/

theorem isOpen_closeClient_le (w : World) (k i : Nat) (h : isOpen (closeClient w k) i = true) :
    isOpen w i = true := by
  obtain ⟨c', hc', hs'⟩ := (isOpen_iff _ i).mp h
  by_cases hc : w.conns[i]? = none
  · have : (closeClient w k).conns.length = w.conns.length := closeClient_length w k
    rw [List.getElem?_eq_none_iff] at hc
    have := List.getElem?_eq_none_iff.mpr (by omega : (closeClient w k).conns.length ≤ i)
    rw [this] at hc'; cases hc'
  · obtain ⟨c, hcc⟩ := Option.ne_none_iff_exists'.mp hc
    obtain ⟨c'', hc'', hs⟩ := closeClient_undisturbed w k i c hcc
    rw [hc'] at hc''; cases hc''
    rcases hs with rfl | rfl
    · exact (isOpen_iff w i).mpr ⟨c', hcc, hs'⟩
    · unfold closeRec at hs'
      cases hso : c.sockOpen
      · simp [hso] at hs'
      · simp [hso] at hs'

theorem isOpen_gone_le (v : Variant) (w : World) (j i : Nat) (h : isOpen (gone v w j) i = true) :
    isOpen w i = true := by
  unfold gone at h
  cases hc : w.conns[j]? with
  | none => simpa [hc] using h
  | some c =>
    simp only [hc] at h
    have hcore : ∀ i, isOpen (goneCore v w j c) i = true → isOpen w i = true := by
      intro i hi
      obtain ⟨c', hc', hs'⟩ := (isOpen_iff _ i).mp hi
      rw [goneCore_get] at hc'
      cases hw : w.conns[i]? with
      | none => simp [hw] at hc'
      | some c0 =>
        simp only [hw, Option.map_eq_map, Option.map_some, Option.some.injEq] at hc'
        by_cases hji : j = i
        · subst hji; simp at hc'; subst hc'; simp [goneRec] at hs'
        · simp [hji] at hc'; subst hc'; exact (isOpen_iff w i).mpr ⟨c0, hw, hs'⟩
    have hkick : isOpen (match c.goneKick with
        | some k => if (c.hooked && appKnows (goneCore v w j c) k) = true then closeClient (goneCore v w j c) k
                    else goneCore v w j c
        | none => goneCore v w j c) i = true → isOpen w i = true := by
      intro hk
      cases hgk : c.goneKick with
      | none => simp only [hgk] at hk; exact hcore i hk
      | some k =>
        simp only [hgk] at hk
        split at hk
        · exact hcore i (isOpen_closeClient_le _ k i hk)
        · exact hcore i hk
    split at h
    · exact hkick h
    · exact hkick h

theorem reap_list_sub {v : Variant} {w : World} (h : Inv v w) (l : List Nat) :
    ∀ x, x ∈ (reap v w l).list → x ∈ w.list := by
  induction l generalizing w with
  | nil => intro x hx; exact hx
  | cons i rest ih =>
    intro x hx
    unfold reap at hx
    split at hx
    · rename_i hc
      simp only [Bool.and_eq_true, List.contains_iff_mem] at hc
      have := ih (inv_gone h i hc.1) x hx
      rw [gone_list v w i (h.bound i hc.1)] at this
      exact List.mem_of_mem_erase this
    · exact ih h x hx

/-- the reaping loop of `rfbProcessEvents` hands every listed client whose socket is closed to
`rfbClientConnectionGone` -/
theorem reap_complete {v : Variant} {w : World} (h : Inv v w) (l : List Nat) (i : Nat)
    (hi : i ∈ l) (hc : isOpen w i = false) : i ∉ (reap v w l).list := by
  induction l generalizing w with
  | nil => cases hi
  | cons j rest ih =>
    unfold reap
    split
    · rename_i hg
      simp only [Bool.and_eq_true, List.contains_iff_mem] at hg
      have hinv := inv_gone h j hg.1
      by_cases hji : j = i
      · subst hji
        intro hm
        have := reap_list_sub hinv rest _ hm
        rw [gone_list v w j (h.bound j hg.1)] at this
        exact (h.nodup.mem_erase_iff.mp this).1 rfl
      · have hir : i ∈ rest := by
          rcases List.mem_cons.mp hi with rfl | hm
          · exact absurd rfl hji
          · exact hm
        apply ih hinv hir
        cases ho : isOpen (gone v w j) i with
        | false => rfl
        | true => rw [isOpen_gone_le v w j i ho] at hc; cases hc
    · rename_i hg
      by_cases hji : j = i
      · subst hji
        intro hm
        have hml := reap_list_sub h rest _ hm
        apply hg
        simp [hml, hc]
      · have hir : i ∈ rest := by
          rcases List.mem_cons.mp hi with rfl | hm
          · exact absurd rfl hji
          · exact hm
        exact ih h hir hc

/-- after `rfbShutdownServer` (with the `closedToo` fix) no client is left in the list -/
theorem shutdown_list_nil {v : Variant} (hv : v.closedToo = true) {w : World} (h : Inv v w) :
    (shutdown v w).list = [] := by
  rw [shutdown_eq]
  exact sweep_all_gone hv (shutOne v) (fun w i => inv_shutOne w i) (fun w i => shutOne_list w i) h

/-- after `rfbScreenCleanup` (with the `closedToo` fix) no client is left in the list -/
theorem cleanup_list_nil {v : Variant} (hv : v.closedToo = true) {w : World} (h : Inv v w) :
    (cleanup v w).list = [] := by
  rw [cleanup_eq]
  exact sweep_all_gone hv (cleanOne v) (fun w i => inv_cleanOne w i) (fun w i => cleanOne_list w i) h

end VncModel.Life
