import VncModel.Life.Inv
/-! `rfbCloseClient`, `rfbClientConnectionGone` and `rfbNewTCPOrUDPClient` preserve the invariant. -/
namespace VncModel.Life

theorem isOpen_iff (w : World) (i : Nat) :
    isOpen w i = true ↔ ∃ c, w.conns[i]? = some c ∧ c.sockOpen = true := by
  unfold isOpen
  cases w.conns[i]? <;> simp

theorem isOpen_false_of (w : World) (i : Nat) (c : Conn) (h : w.conns[i]? = some c)
    (hc : c.sockOpen = false) : isOpen w i = false := by
  simp [isOpen, h, hc]

/-! ### rfbCloseClient -/

@[simp] theorem closeClient_list (w : World) (i : Nat) : (closeClient w i).list = w.list := by
  unfold closeClient
  cases w.conns[i]? with
  | none => rfl
  | some c => simp only; split <;> split <;> simp

@[simp] theorem closeClient_length (w : World) (i : Nat) :
    (closeClient w i).conns.length = w.conns.length := by
  unfold closeClient
  cases w.conns[i]? with
  | none => rfl
  | some c => simp only; split <;> split <;> simp

theorem closeClient_conns (w : World) (i : Nat) (c : Conn) (hc : w.conns[i]? = some c) :
    (closeClient w i).conns = (modConn w i closeRec).conns := by
  unfold closeClient
  simp only [hc]
  split <;> split <;> simp [modConn]

theorem closeClient_get_ne (w : World) (i j : Nat) (h : i ≠ j) :
    (closeClient w i).conns[j]? = w.conns[j]? := by
  cases hc : w.conns[i]? with
  | none => simp [closeClient, hc]
  | some c => rw [closeClient_conns w i c hc]; exact modConn_get_ne _ _ _ _ h

theorem closeClient_get_self (w : World) (i : Nat) (c : Conn) (hc : w.conns[i]? = some c) :
    (closeClient w i).conns[i]? = some (closeRec c) := by
  rw [closeClient_conns w i c hc]; exact modConn_get_self w i closeRec c hc

theorem closeClient_same (w : World) (i : Nat) :
    (closeClient w i).screens = w.screens ∧ (closeClient w i).ptrOwner = w.ptrOwner ∧
    (closeClient w i).nbLost = w.nbLost ∧ (closeClient w i).recLost = w.recLost ∧
    (closeClient w i).shutLeft = w.shutLeft ∧ (closeClient w i).wsLostHs = w.wsLostHs ∧
    (closeClient w i).wsLostGone = w.wsLostGone ∧ (closeClient w i).extLost = w.extLost ∧
    (closeClient w i).stray = w.stray ∧ (closeClient w i).extDataLost = w.extDataLost ∧
    (closeClient w i).extNodeLost = w.extNodeLost := by
  unfold closeClient
  cases w.conns[i]? with
  | none => simp
  | some c => simp only; split <;> split <;> simp

theorem liveOk_closeRec (c : Conn) (h : LiveOk c) : LiveOk (closeRec c) := by
  unfold closeRec LiveOk
  cases hs : c.sockOpen
  · have := h.2.2.2.2 hs
    simp [h.1, h.2.1, h.2.2.1, this.1, this.2.1]
  · have := h.2.2.2.1 hs
    simp [h.1, h.2.1, h.2.2.1, this]

theorem closeRec_dead (c : Conn) (hs : c.sockOpen = false) (hx : c.extData = false) :
    closeRec c = c := by
  unfold closeRec
  rw [hs]
  simp only [Bool.false_eq_true, if_false]
  cases c
  simp only at hx hs
  subst hx; subst hs
  rfl

theorem deadOk_closeRec (v : Variant) (c : Conn) (h : DeadOk v c) : DeadOk v (closeRec c) := by
  have hx : c.extData = false := by
    rcases h.2.2 with ht | hn
    · exact ht.2.2.2.2.2.2.2.2
    · exact hn.2.2.2.2.2.2.2.2.2.2.2
  rw [closeRec_dead c h.2.1 hx]; exact h

theorem inv_closeClient {v : Variant} {w : World} (h : Inv v w) (i : Nat) :
    Inv v (closeClient w i) := by
  cases hc : w.conns[i]? with
  | none => simpa [closeClient, hc] using h
  | some c0 =>
    have hm : Inv v (modConn w i closeRec) := by
      apply inv_modConn h
      · intro c _ _ hl; exact liveOk_closeRec c hl
      · intro c _ _ hd; exact deadOk_closeRec v c hd
      · intro c _; unfold closeRec; split <;> simp
    obtain ⟨s1, s2, s3, s4, s5, s6, s7, s8, s9, s10, s11⟩ := closeClient_same w i
    have hcn := closeClient_conns w i c0 hc
    refine ⟨by simpa using hm.nodup, ?_, ?_, ?_, ?_, ?_, ?_, by rw [s1]; exact h.main, by rw [s2]; simpa using h.ptr⟩
    · intro j hj; rw [closeClient_length]; exact h.bound j (by simpa using hj)
    · intro j c hcj hj; rw [hcn] at hcj; exact hm.live j c hcj (by simpa using hj)
    · intro j c hcj hj; rw [hcn] at hcj; exact hm.dead j c hcj (by simpa using hj)
    · unfold Counters; rw [s3, s4, s5, s6, s7, s8, s9, s10, s11]; exact h.counters
    · intro s hs; rw [s1] at hs
      have := hm.refs s (by simpa using hs)
      simpa [owners, hcn] using this
    · intro j c hcj href; rw [hcn] at hcj; rw [s1]; exact hm.scr j c hcj href

/-! ### screens -/

theorem hasScreen_decRef (ss : List Screen) (d e : Nat × Nat) :
    hasScreen (decRef ss d) e = hasScreen ss e := by
  unfold hasScreen decRef
  rw [List.any_map]
  congr 1
  funext s
  by_cases hm : s.w = d.1 ∧ s.h = d.2 <;> simp [hm]

theorem hasScreen_incRef (ss : List Screen) (d e : Nat × Nat) :
    hasScreen (incRef ss d) e = hasScreen ss e := by
  unfold hasScreen incRef
  rw [List.any_map]
  congr 1
  funext s
  by_cases hm : s.w = d.1 ∧ s.h = d.2 <;> simp [hm]

theorem owns_dims (s : Screen) (c : Conn) (hr : c.refHeld = true) :
    owns (s.w, s.h) c = (s.w == c.scr.1 && s.h == c.scr.2) := by
  unfold owns
  rw [hr]
  rw [Bool.eq_iff_iff]
  cases hs : c.scr with
  | mk a b =>
    simp only [Bool.true_and, beq_iff_eq, Bool.and_eq_true, Prod.mk.injEq]
    constructor
    · rintro ⟨h1, h2⟩; exact ⟨h1.symm, h2.symm⟩
    · rintro ⟨h1, h2⟩; exact ⟨h1.symm, h2.symm⟩

/-! ### rfbClientConnectionGone -/

theorem goneCore_list (v : Variant) (w : World) (i : Nat) (c : Conn) :
    (goneCore v w i c).list = w.list.erase i := by
  unfold goneCore
  by_cases h1 : c.sockOpen = true <;> by_cases h2 : c.hooked = true <;> simp [h1, h2]

theorem goneCore_length (v : Variant) (w : World) (i : Nat) (c : Conn) :
    (goneCore v w i c).conns.length = w.conns.length := by
  unfold goneCore
  by_cases h1 : c.sockOpen = true <;> by_cases h2 : c.hooked = true <;> simp [h1, h2]

theorem goneCore_get (v : Variant) (w : World) (i : Nat) (c : Conn) (j : Nat) :
    (goneCore v w i c).conns[j]? = (fun a => if i = j then goneRec a else a) <$> w.conns[j]? := by
  unfold goneCore
  by_cases h1 : c.sockOpen = true <;> by_cases h2 : c.hooked = true <;>
    simp [h1, h2, modConn_get]

theorem goneCore_screens (v : Variant) (w : World) (i : Nat) (c : Conn) :
    (goneCore v w i c).screens = if c.refHeld then decRef w.screens c.scr else w.screens := by
  unfold goneCore
  by_cases h1 : c.sockOpen = true <;> by_cases h2 : c.hooked = true <;> simp [h1, h2]

theorem goneCore_counters (v : Variant) (w : World) (i : Nat) (c : Conn) :
    (goneCore v w i c).nbLost = w.nbLost ∧ (goneCore v w i c).recLost = w.recLost ∧
    (goneCore v w i c).shutLeft = w.shutLeft ∧ (goneCore v w i c).wsLostHs = w.wsLostHs ∧
    (goneCore v w i c).wsLostGone = w.wsLostGone + (if c.wspath && !v.goneWspath then 1 else 0) ∧
    (goneCore v w i c).stray = w.stray + (if c.ftFd && !v.ftClose then 1 else 0) ∧
    (goneCore v w i c).extLost = w.extLost + (if v.extFree then 0 else c.exts) ∧
    (goneCore v w i c).extDataLost = w.extDataLost + (if c.extData && !v.goneExtClose then 1 else 0) ∧
    (goneCore v w i c).ptrOwner = (if w.ptrOwner == some i then none else w.ptrOwner) ∧
    (goneCore v w i c).extNodeLost = w.extNodeLost := by
  unfold goneCore
  by_cases h1 : c.sockOpen = true <;> by_cases h2 : c.hooked = true <;> simp [h1, h2]

theorem owners_goneCore (v : Variant) (w : World) (i : Nat) (c : Conn) (d : Nat × Nat)
    (hc : w.conns[i]? = some c) :
    owners (goneCore v w i c) d + (if owns d c then 1 else 0) = owners w d := by
  have h1 : (goneCore v w i c).conns = w.conns.modify i goneRec := by
    unfold goneCore
    by_cases h1 : c.sockOpen = true <;> by_cases h2 : c.hooked = true <;> simp [h1, h2, modConn]
  have := countP_modify (owns d) w.conns i goneRec c hc
  simp only [owners, h1]
  have h2 : owns d (goneRec c) = false := by simp [owns, goneRec]
  rw [h2] at this
  simpa using this

theorem inv_goneCore {v : Variant} {w : World} (h : Inv v w) (i : Nat) (c : Conn)
    (hc : w.conns[i]? = some c) (hi : i ∈ w.list) : Inv v (goneCore v w i c) := by
  have hl := h.live i c hc hi
  have hmem : ∀ j, j ∈ (goneCore v w i c).list ↔ j ≠ i ∧ j ∈ w.list := by
    intro j; rw [goneCore_list]; exact h.nodup.mem_erase_iff
  refine ⟨?_, ?_, ?_, ?_, ?_, ?_, ?_, ?_, ?_⟩
  · rw [goneCore_list]; exact h.nodup.erase i
  · intro j hj; rw [goneCore_length]; exact h.bound j ((hmem j).mp hj).2
  · intro j cj hcj hj
    obtain ⟨hne, hjl⟩ := (hmem j).mp hj
    rw [goneCore_get] at hcj
    cases hw : w.conns[j]? with
    | none => simp [hw] at hcj
    | some c0 =>
      simp [hw, Ne.symm hne] at hcj; subst hcj
      exact h.live j c0 hw hjl
  · intro j cj hcj hj
    rw [goneCore_get] at hcj
    cases hw : w.conns[j]? with
    | none => simp [hw] at hcj
    | some c0 =>
      by_cases hij : i = j
      · subst hij
        rw [hc] at hw; cases hw
        simp [hc] at hcj; subst hcj
        refine ⟨?_, by simp [goneRec], Or.inl ?_⟩
        · by_cases hs : c.sockOpen = true
          · simp [goneRec, hs, hl.2.2.2.1 hs]
          · have hs' : c.sockOpen = false := by simpa using hs
            simp [goneRec, hs', (hl.2.2.2.2 hs').1]
        · simp [TornDown, goneRec, hl.1]
      · simp [hw, hij] at hcj; subst hcj
        have : j ∉ w.list := fun hjl => hj ((hmem j).mpr ⟨Ne.symm hij, hjl⟩)
        exact h.dead j c0 hw this
  · obtain ⟨c1, c2, c3, c4, c5, c6, c7, c8, _, c10⟩ := goneCore_counters v w i c
    obtain ⟨k1, k2, k3, k4, k5, k6, k7, k8⟩ := h.counters
    refine ⟨by rw [c1]; exact k1, by rw [c2, c3]; exact k2, ?_, by rw [c4]; exact k4, ?_, ?_, ?_, by rw [c10]; exact k8⟩
    · intro hv; rw [c5, k3 hv]; simp [hv]
    · intro hv; rw [c6, k5 hv]; simp [hv]
    · intro hv; rw [c7, k6 hv]; simp [hv]
    · intro hv; rw [c8, k7 hv]; simp [hv]
  · intro s hs
    rw [goneCore_screens, hl.2.2.1] at hs
    simp only [if_true] at hs
    unfold decRef at hs
    obtain ⟨s0, hs0, rfl⟩ := List.mem_map.mp hs
    have hcount := owners_goneCore v w i c (s0.w, s0.h) hc
    have hr := h.refs s0 hs0
    rw [owns_dims s0 c hl.2.2.1] at hcount
    by_cases hm : (s0.w == c.scr.1 && s0.h == c.scr.2) = true
    · simp only [hm, if_true] at hcount ⊢
      simp only [hr]; omega
    · simp only [hm] at hcount ⊢
      simp at hcount
      simp only [Bool.false_eq_true, if_false, hr]; omega
  · intro j cj hcj href
    rw [goneCore_get] at hcj
    rw [goneCore_screens, hl.2.2.1]
    simp only [if_true, hasScreen_decRef]
    cases hw : w.conns[j]? with
    | none => simp [hw] at hcj
    | some c0 =>
      by_cases hij : i = j
      · subst hij; simp [hw] at hcj; subst hcj; simp [goneRec] at href
      · simp [hw, hij] at hcj; subst hcj; exact h.scr j c0 hw href
  · rw [goneCore_screens, hl.2.2.1]; simp only [if_true, hasScreen_decRef]; exact h.main
  · intro j hj
    rw [(goneCore_counters v w i c).2.2.2.2.2.2.2.2.1] at hj
    by_cases hp : w.ptrOwner = some i
    · simp [hp] at hj
    · have hne : (w.ptrOwner == some i) = false := by simpa using hp
      rw [hne] at hj
      simp only [Bool.false_eq_true, if_false] at hj
      have hjl := h.ptr j hj
      refine (hmem j).mpr ⟨?_, hjl⟩
      intro hji; subst hji; exact hp hj

theorem inv_gone {v : Variant} {w : World} (h : Inv v w) (i : Nat) (hi : i ∈ w.list) :
    Inv v (gone v w i) := by
  unfold gone
  cases hc : w.conns[i]? with
  | none => exact h
  | some c =>
    have hg := inv_goneCore h i c hc hi
    simp only
    have hk : Inv v (match c.goneKick with
        | some k => if (c.hooked && appKnows (goneCore v w i c) k) = true then closeClient (goneCore v w i c) k
                    else goneCore v w i c
        | none => goneCore v w i c) := by
      cases c.goneKick with
      | none => exact hg
      | some k =>
        simp only
        split
        · exact inv_closeClient hg k
        · exact hg
    split
    · exact inv_emit hk _
    · exact hk

theorem gone_kick_list (v : Variant) (w : World) (i : Nat) (c : Conn) :
    (match c.goneKick with
      | some k => if (c.hooked && appKnows (goneCore v w i c) k) = true then closeClient (goneCore v w i c) k
                  else goneCore v w i c
      | none => goneCore v w i c).list = w.list.erase i ∧
    (match c.goneKick with
      | some k => if (c.hooked && appKnows (goneCore v w i c) k) = true then closeClient (goneCore v w i c) k
                  else goneCore v w i c
      | none => goneCore v w i c).conns.length = w.conns.length := by
  cases c.goneKick with
  | none => exact ⟨goneCore_list v w i c, goneCore_length v w i c⟩
  | some k =>
    simp only
    split
    · exact ⟨by rw [closeClient_list]; exact goneCore_list v w i c, by rw [closeClient_length]; exact goneCore_length v w i c⟩
    · exact ⟨goneCore_list v w i c, goneCore_length v w i c⟩

theorem gone_list (v : Variant) (w : World) (i : Nat) (hb : i < w.conns.length) :
    (gone v w i).list = w.list.erase i := by
  unfold gone
  cases hc : w.conns[i]? with
  | none => rw [List.getElem?_eq_none_iff] at hc; omega
  | some c =>
    simp only
    split
    · exact (gone_kick_list v w i c).1
    · exact (gone_kick_list v w i c).1

theorem gone_length (v : Variant) (w : World) (i : Nat) :
    (gone v w i).conns.length = w.conns.length := by
  unfold gone
  cases hc : w.conns[i]? with
  | none => rfl
  | some c =>
    simp only
    split
    · exact (gone_kick_list v w i c).2
    · exact (gone_kick_list v w i c).2

end VncModel.Life
