import VncModel.Enc.RREProofs
import VncModel.Enc.Tiling
/-! `decodeZRLETile (zrleTile P) = P` for the faithful model of `ZRLE_ENCODE_TILE`. -/
namespace VncModel.Enc.Server
open VncModel.Enc VncModel.Enc.Spec

/-- a pixel is representable as a CPIXEL: the byte that is not transmitted is zero -/
def CPixOK : CPix → Pixel → Prop
  | .full n, p => PixOK n p
  | .lo3, p => p < 16777216
  | .hi3, p => p % 256 = 0 ∧ p < 4294967296

theorem readCPixel_cpixBytes (cp : CPix) (p : Pixel) (t : Bytes) (h : CPixOK cp p) :
    readCPixel cp (cpixBytes cp p ++ t) = some (p, t) := by
  cases cp with
  | full n => exact readPixel_pixBytes n p t h
  | lo3 =>
    have e : (256 : Nat) ^ 3 = 16777216 := by decide
    exact readPixel_pixBytes 3 p t (by unfold PixOK; rw [e]; exact h)
  | hi3 =>
    simp only [CPixOK] at h
    obtain ⟨h1, h2⟩ := h
    have e : (256 : Nat) ^ 3 = 16777216 := by decide
    simp only [readCPixel, cpixBytes]
    rw [readPixel_pixBytes 3 (p / 256) t (by unfold PixOK; rw [e]; delta Pixel at *; omega)]
    simp only [Option.map_some, Option.some.injEq, Prod.mk.injEq, and_true]
    delta Pixel at *
    omega

theorem cpixBytes_length (cp : CPix) (p : Pixel) : (cpixBytes cp p).length = cp.size := by
  cases cp <;> simp [cpixBytes, CPix.size, pixBytes_length]

theorem readCPixels_flatMap (cp : CPix) (ps : List Pixel) (t : Bytes) (h : ∀ p ∈ ps, CPixOK cp p) :
    readCPixels cp ps.length (ps.flatMap (cpixBytes cp) ++ t) = some (ps, t) := by
  induction ps with
  | nil => simp [readCPixels]
  | cons p ps ih =>
    simp only [List.flatMap_cons, List.length_cons, readCPixels, List.append_assoc]
    rw [readCPixel_cpixBytes cp p _ (h p (by simp))]
    simp only
    rw [ih (fun q hq => h q (by simp [hq]))]
    rfl

/-! ### run lengths -/

theorem readRunLen_runLenBytes : ∀ (f n : Nat) (t : Bytes), n ≤ f * 255 + 254 →
    readRunLen (runLenBytes f n ++ t) = some (n + 1, t) := by
  intro f
  induction f with
  | zero =>
    intro n t h
    have hn : n < 256 := by omega
    simp only [runLenBytes, List.cons_append, List.nil_append, readRunLen]
    have hne : UInt8.ofNat n ≠ 255 := by
      intro e
      have := congrArg UInt8.toNat e
      rw [toNat_ofNat_lt hn] at this
      simp at this; omega
    simp [hne, toNat_ofNat_lt hn]
  | succ f ih =>
    intro n t h
    simp only [runLenBytes]
    by_cases hge : n ≥ 255
    · simp only [hge, if_true, List.cons_append, readRunLen]
      rw [ih (n - 255) t (by omega)]
      simp; omega
    · simp only [hge, if_false, List.cons_append, List.nil_append, readRunLen]
      have hn : n < 256 := by omega
      have hne : UInt8.ofNat n ≠ 255 := by
        intro e
        have := congrArg UInt8.toNat e
        rw [toNat_ofNat_lt hn] at this
        simp at this; omega
      simp [hne, toNat_ofNat_lt hn]

/-- expansion of a run list -/
def expand (rl : List (Pixel × Nat)) : List Pixel := rl.flatMap fun r => List.replicate r.2 r.1

theorem runsOf_spec (px : List Pixel) :
    expand (runsOf px) = px ∧ (∀ r ∈ runsOf px, 1 ≤ r.2 ∧ r.1 ∈ px) := by
  induction px with
  | nil => simp [runsOf, expand]
  | cons p ps ih =>
    obtain ⟨ih1, ih2⟩ := ih
    simp only [runsOf]
    cases hr : runsOf ps with
    | nil =>
      rw [hr] at ih1
      simp only [expand, List.flatMap_nil] at ih1
      subst ih1
      simp [expand]
    | cons q rest =>
      obtain ⟨qc, qn⟩ := q
      rw [hr] at ih1 ih2
      simp only
      by_cases hpq : p = qc
      · subst hpq
        simp only [if_true]
        constructor
        · simp only [expand, List.flatMap_cons] at ih1 ⊢
          rw [← ih1]; simp [List.replicate_succ]
        · intro r hr'
          rcases List.mem_cons.mp hr' with e | e
          · subst e; simp
          · have := ih2 r (by simp [e]); exact ⟨this.1, by simp [this.2]⟩
      · simp only [hpq, if_false]
        constructor
        · simp only [expand, List.flatMap_cons] at ih1 ⊢
          rw [← ih1]; simp
        · intro r hr'
          rcases List.mem_cons.mp hr' with e | e
          · subst e; simp
          · have := ih2 r e; exact ⟨this.1, by simp [this.2]⟩

theorem expand_length_cons (r : Pixel × Nat) (rl : List (Pixel × Nat)) :
    (expand (r :: rl)).length = r.2 + (expand rl).length := by
  simp [expand]

/-! ### plain RLE -/

theorem decodePlainRLE_runs (cp : CPix) (pal : List Pixel) :
    ∀ (rl : List (Pixel × Nat)) (f rem : Nat) (t : Bytes),
    (∀ r ∈ rl, 1 ≤ r.2 ∧ CPixOK cp r.1) → (expand rl).length = rem → rem ≤ f →
    decodePlainRLE cp f rem (zrleRleBytes cp false pal rl ++ t) = some (expand rl, t) := by
  intro rl
  induction rl with
  | nil =>
    intro f rem t _ hlen _
    simp only [expand, List.flatMap_nil, List.length_nil] at hlen
    subst hlen
    cases f <;> simp [decodePlainRLE, zrleRleBytes, expand]
  | cons r rl ih =>
    intro f rem t h hlen hf
    obtain ⟨p, len⟩ := r
    obtain ⟨h1, h2⟩ := h (p, len) (by simp)
    simp only at h1 h2
    rw [expand_length_cons] at hlen
    simp only at hlen
    cases f with
    | zero => omega
    | succ f =>
      cases rem with
      | zero => omega
      | succ rem =>
        simp only [zrleRleBytes, Bool.false_eq_true, and_false, if_false, List.append_assoc,
          decodePlainRLE]
        rw [readCPixel_cpixBytes cp p _ h2]
        simp only
        rw [readRunLen_runLenBytes (len - 1) (len - 1) _ (by omega)]
        simp only
        have e1 : len - 1 + 1 = len := by omega
        rw [e1]
        have hgt : ¬ (len > rem + 1) := by omega
        simp only [hgt, if_false]
        rw [ih f (rem + 1 - len) t (fun q hq => h q (by simp [hq])) (by omega) (by omega)]
        simp [expand]

/-! ### palette RLE -/

theorem decodePaletteRLE_runs (cp : CPix) (pal : List Pixel) (hpal : pal.length ≤ 127) :
    ∀ (rl : List (Pixel × Nat)) (f rem : Nat) (t : Bytes),
    (∀ r ∈ rl, 1 ≤ r.2 ∧ r.1 ∈ pal) → (expand rl).length = rem → rem ≤ f →
    decodePaletteRLE pal f rem (zrleRleBytes cp true pal rl ++ t) = some (expand rl, t) := by
  intro rl
  induction rl with
  | nil =>
    intro f rem t _ hlen _
    simp only [expand, List.flatMap_nil, List.length_nil] at hlen
    subst hlen
    cases f <;> simp [decodePaletteRLE, zrleRleBytes, expand]
  | cons r rl ih =>
    intro f rem t h hlen hf
    obtain ⟨p, len⟩ := r
    obtain ⟨h1, h2⟩ := h (p, len) (by simp)
    simp only at h1 h2
    rw [expand_length_cons] at hlen
    simp only at hlen
    have hidx : paletteIndex pal p < pal.length := List.idxOf_lt_length_of_mem h2
    have hget : pal[paletteIndex pal p]? = some p := by
      have hidx' : List.idxOf p pal < pal.length := hidx
      show pal[List.idxOf p pal]? = some p
      rw [List.getElem?_eq_getElem hidx']; simp
    have hi127 : paletteIndex pal p < 128 := by omega
    have hrest := ih
    cases f with
    | zero => omega
    | succ f =>
      cases rem with
      | zero => omega
      | succ rem =>
        simp only [zrleRleBytes, and_true]
        by_cases hle : len ≤ 2
        · simp only [hle, if_true, List.append_assoc]
          by_cases h2' : len = 2
          · subst h2'
            simp only [if_true, List.cons_append, List.nil_append, decodePaletteRLE,
              toNat_ofNat_lt (show paletteIndex pal p < 256 by omega), hi127, hget]
            cases f with
            | zero => omega
            | succ f =>
              cases rem with
              | zero => omega
              | succ rem =>
                simp only [decodePaletteRLE, toNat_ofNat_lt (show paletteIndex pal p < 256 by omega),
                  hi127, if_true, hget]
                rw [ih f rem t (fun q hq => h q (by simp [hq])) (by omega) (by omega)]
                simp [expand, List.replicate_succ]
          · have h1' : len = 1 := by omega
            subst h1'
            simp only [h2', if_false, List.nil_append, List.cons_append, decodePaletteRLE,
              toNat_ofNat_lt (show paletteIndex pal p < 256 by omega), hi127, if_true, hget]
            rw [ih f rem t (fun q hq => h q (by simp [hq])) (by omega) (by omega)]
            simp [expand]
        · simp only [hle, if_false, if_true, List.append_assoc, List.cons_append, List.nil_append,
            decodePaletteRLE]
          have hb : (UInt8.ofNat (paletteIndex pal p + 128)).toNat = paletteIndex pal p + 128 :=
            toNat_ofNat_lt (by omega)
          have hnl : ¬ (paletteIndex pal p + 128 < 128) := by omega
          simp only [hb, hnl, if_false, Nat.add_sub_cancel, hget]
          rw [readRunLen_runLenBytes (len - 1) (len - 1) _ (by omega)]
          simp only
          have e1 : len - 1 + 1 = len := by omega
          rw [e1]
          have hgt : ¬ (len > rem + 1) := by omega
          simp only [hgt, if_false]
          rw [ih f (rem + 1 - len) t (fun q hq => h q (by simp [hq])) (by omega) (by omega)]
          simp [expand]


/-! ### raw tile -/

theorem readCPixels_raw (cp : CPix) (ps : List Pixel) (n : Nat) (t : Bytes) (hn : ps.length = n)
    (h : ∀ p ∈ ps, CPixOK cp p) :
    readCPixels cp n (ps.flatMap (cpixBytes cp) ++ t) = some (ps, t) := by
  subst hn; exact readCPixels_flatMap cp ps t h

/-! ### the palette built by the first pass -/

structure PalInv (seen pal : List Pixel) (size : Nat) : Prop where
  len_le : pal.length ≤ size
  len_eq : size ≤ 127 → pal.length = size
  all_in : size ≤ 127 → ∀ p ∈ seen, p ∈ pal
  sub : ∀ q ∈ pal, q ∈ seen
  pos : seen ≠ [] → 1 ≤ size

theorem paletteInsert_inv (seen pal : List Pixel) (size : Nat) (p : Pixel)
    (h : PalInv seen pal size) :
    PalInv (seen ++ [p]) (paletteInsert (pal, size) p).1 (paletteInsert (pal, size) p).2 := by
  unfold paletteInsert
  simp only
  by_cases hs : size < 127
  · simp only [hs, if_true]
    by_cases hc : pal.contains p = true
    · simp only [hc, if_true]
      have hm : p ∈ pal := by simpa using hc
      refine ⟨h.len_le, h.len_eq, ?_, ?_, ?_⟩
      · intro hsz q hq
        rcases List.mem_append.mp hq with e | e
        · exact h.all_in hsz q e
        · simp at e; rw [e]; exact hm
      · intro q hq; exact List.mem_append_left _ (h.sub q hq)
      · intro _
        have := h.len_eq (by omega)
        cases pal with
        | nil => simp at hm
        | cons a l => simp at this; omega
    · simp only [hc, Bool.false_eq_true, if_false]
      have hl := h.len_eq (by omega)
      refine ⟨by simp; omega, fun _ => by simp; omega, ?_, ?_, fun _ => by omega⟩
      · intro hsz q hq
        rcases List.mem_append.mp hq with e | e
        · exact List.mem_append_left _ (h.all_in (by omega) q e)
        · exact List.mem_append_right _ e
      · intro q hq
        rcases List.mem_append.mp hq with e | e
        · exact List.mem_append_left _ (h.sub q e)
        · exact List.mem_append_right _ e
  · simp only [hs, if_false]
    refine ⟨by have := h.len_le; omega, fun hh => by omega, fun hh => by omega, ?_, fun _ => by omega⟩
    intro q hq; exact List.mem_append_left _ (h.sub q hq)

theorem zrleStats_inv (rl : List (Pixel × Nat)) :
    PalInv (rl.map (·.1)) (zrleStats rl).2.2.1 (zrleStats rl).2.2.2 := by
  unfold zrleStats
  suffices H : ∀ (l : List (Pixel × Nat)) (st : Nat × Nat × List Pixel × Nat) (seen : List Pixel),
      PalInv seen st.2.2.1 st.2.2.2 →
      PalInv (seen ++ l.map (·.1))
        (l.foldl (fun st r =>
          let ps := paletteInsert (st.2.2.1, st.2.2.2) r.1
          if r.2 = 1 then (st.1, st.2.1 + 1, ps.1, ps.2) else (st.1 + 1, st.2.1, ps.1, ps.2)) st).2.2.1
        (l.foldl (fun st r =>
          let ps := paletteInsert (st.2.2.1, st.2.2.2) r.1
          if r.2 = 1 then (st.1, st.2.1 + 1, ps.1, ps.2) else (st.1 + 1, st.2.1, ps.1, ps.2)) st).2.2.2 by
    have := H rl (0, 0, [], 0) [] ⟨by simp, by simp, by simp, by simp, by simp⟩
    simpa using this
  intro l
  induction l with
  | nil => intro st seen h; simpa using h
  | cons r l ih =>
    intro st seen h
    simp only [List.foldl_cons, List.map_cons]
    have hins := paletteInsert_inv seen st.2.2.1 st.2.2.2 r.1 h
    have e : seen ++ r.1 :: l.map (·.1) = (seen ++ [r.1]) ++ l.map (·.1) := by simp
    rw [e]
    apply ih
    split <;> exact hins

/-- the packed-palette rows law: `decodePackedRows ∘ packRows = id` (bit packing) -/
def PackLaw : Prop :=
  ∀ (size tw th : Nat) (pal px : List Pixel) (rest : Bytes), 2 ≤ size → size ≤ 16 →
    pal.length = size → px.length = tw * th → (∀ p ∈ px, p ∈ pal) →
    decodePackedRows (packedBits size) tw pal th
      (packRows (bitsPerPackedPixel size) tw pal th px ++ rest) = some (px, rest)

theorem mem_runs_of_mem (px : List Pixel) (p : Pixel) (hp : p ∈ px) : p ∈ (runsOf px).map (·.1) := by
  have h := (runsOf_spec px).1
  rw [← h] at hp
  simp only [expand, List.mem_flatMap] at hp
  obtain ⟨r, hr, hpr⟩ := hp
  have := List.eq_of_mem_replicate hpr
  rw [this]; exact List.mem_map_of_mem hr

theorem toNat_u8 {n : Nat} (h : n < 256) : (UInt8.ofNat n).toNat = n := toNat_ofNat_lt h

/-- **one ZRLE tile**: whatever sub-encoding the model of `ZRLE_ENCODE_TILE` chooses, the tile
decodes to its pixels (the packed-palette case relies on `PackLaw`) -/
theorem zrleTile_decodes (hpack : PackLaw) (cp : CPix) (tw th : Nat) (px : List Pixel) (rest : Bytes)
    (hlen : px.length = tw * th) (hpos : 0 < tw * th) (hok : ∀ p ∈ px, CPixOK cp p) :
    decodeZRLETile cp tw th (zrleTile cp tw th px ++ rest) = some (px, rest) := by
  have hinv := zrleStats_inv (runsOf px)
  obtain ⟨hexp, hruns⟩ := runsOf_spec px
  have hne : px ≠ [] := by intro e; rw [e] at hlen; simp at hlen; omega
  have hseen_ne : (runsOf px).map (·.1) ≠ [] := by
    cases px with
    | nil => exact absurd rfl hne
    | cons a l =>
      have := mem_runs_of_mem (a :: l) a (by simp)
      intro e; rw [e] at this; simp at this
  unfold zrleTile
  obtain ⟨st, hst⟩ : ∃ st, zrleStats (runsOf px) = st := ⟨_, rfl⟩
  simp only [] at hinv ⊢
  rw [hst] at hinv ⊢
  obtain ⟨runs, singles, pal, size⟩ := st
  simp only at hinv ⊢
  have hsz1 : 1 ≤ size := hinv.pos hseen_ne
  have hpalmem : size ≤ 127 → ∀ p ∈ px, p ∈ pal := fun hs p hp =>
    hinv.all_in hs p (mem_runs_of_mem px p hp)
  have hpalok : ∀ q ∈ pal, CPixOK cp q := by
    intro q hq
    have := hinv.sub q hq
    simp only [List.mem_map] at this
    obtain ⟨r, hr, e⟩ := this
    rw [← e]; exact hok _ (hruns r hr).2
  by_cases hs1 : size = 1
  · -- solid
    simp only [hs1, if_true]
    have hl := hinv.len_eq (by omega)
    cases pal with
    | nil => simp [hs1] at hl
    | cons c l =>
      have hl0 : l = [] := by simp [hs1] at hl; exact hl
      subst hl0
      have hall : ∀ p ∈ px, p = c := by
        intro p hp; have := hpalmem (by omega) p hp; simpa using this
      have hrep : px = List.replicate (tw * th) c := by
        rw [List.eq_replicate_iff]; exact ⟨hlen, hall⟩
      simp only [u8, List.headD_cons, List.cons_append, List.nil_append, decodeZRLETile]
      have e1 : (UInt8.ofNat 1).toNat = 1 := by decide
      simp only [e1]
      rw [readCPixel_cpixBytes cp c rest (hpalok c (by simp))]
      simp [← hrep]
  · simp only [hs1, if_false]
    have hsz2 : 2 ≤ size := by omega
    -- name the three decisions
    generalize (decide ((cp.size + 1) * (runs + singles) < tw * th * cp.size)) = useRle0
    generalize hc2 : decide (size < 128 ∧ cp.size * size + 2 * runs + singles <
      (if (cp.size + 1) * (runs + singles) < tw * th * cp.size then (cp.size + 1) * (runs + singles)
       else tw * th * cp.size)) = c2
    generalize hc3 : decide (size < 17 ∧ cp.size * size + tw * th * bitsPerPackedPixel size / 8 <
      (if c2 = true then cp.size * size + 2 * runs + singles
       else (if (cp.size + 1) * (runs + singles) < tw * th * cp.size then (cp.size + 1) * (runs + singles)
       else tw * th * cp.size))) = c3
    have h128 : c2 = true → size < 128 := by
      intro h; rw [h] at hc2; simp at hc2; exact hc2.1
    have h17 : c3 = true → size < 17 := by
      intro h; rw [h] at hc3; simp at hc3; exact hc3.1
    cases c3 with
    | true =>
      -- packed palette
      have hs17 := h17 rfl
      have hl := hinv.len_eq (by omega)
      simp only [if_true, Bool.true_or, Bool.false_eq_true, if_false, Nat.zero_add,
        List.append_assoc, u8, List.cons_append, List.nil_append, decodeZRLETile]
      rw [toNat_u8 (show size < 256 by omega)]
      have e0 : ¬ size = 0 := by omega
      have e16 : size ≤ 16 := by omega
      simp only [e0, hs1, e16, if_false, if_true]
      rw [readCPixels_raw cp pal size _ hl hpalok]
      simp only
      exact hpack size tw th pal px rest hsz2 e16 hl hlen (hpalmem (by omega))
    | false =>
      cases c2 with
      | true =>
        -- palette RLE
        have hs128 := h128 rfl
        have hl := hinv.len_eq (by omega)
        simp only [Bool.false_eq_true, if_false, if_true, Bool.false_or,
          List.append_assoc, u8, List.cons_append, List.nil_append, decodeZRLETile]
        rw [toNat_u8 (show 128 + size < 256 by omega)]
        have e0 : ¬ 128 + size = 0 := by omega
        have e1 : ¬ 128 + size = 1 := by omega
        have e16 : ¬ 128 + size ≤ 16 := by omega
        have e128 : ¬ 128 + size = 128 := by omega
        have e130 : 128 + size ≥ 130 := by omega
        simp only [e0, e1, e16, e128, e130, if_false, if_true, Nat.add_sub_cancel_left]
        rw [readCPixels_raw cp pal size _ hl hpalok]
        simp only
        rw [decodePaletteRLE_runs cp pal (by omega) (runsOf px) (tw * th) (tw * th) rest
          (fun r hr => ⟨(hruns r hr).1, hpalmem (by omega) _ (hruns r hr).2⟩)
          (by rw [hexp]; exact hlen) (Nat.le_refl _)]
        rw [hexp]
      | false =>
        simp only [Bool.false_eq_true, if_false, Bool.or_self, Nat.add_zero,
          List.flatMap_nil, List.append_nil]
        cases useRle0 with
        | true =>
          simp only [if_true, u8, List.cons_append, List.nil_append, decodeZRLETile]
          have e128 : (UInt8.ofNat 128).toNat = 128 := by decide
          simp only [e128]
          have : ¬ (128 = 0) := by decide
          simp only [this, if_false]
          have e1 : ¬ ((128 : Nat) = 1) := by decide
          have e16 : ¬ ((128 : Nat) ≤ 16) := by decide
          simp only [e1, e16, if_false, if_true]
          rw [decodePlainRLE_runs cp pal (runsOf px) (tw * th) (tw * th) rest
            (fun r hr => ⟨(hruns r hr).1, hok _ (hruns r hr).2⟩)
            (by rw [hexp]; exact hlen) (Nat.le_refl _)]
          rw [hexp]
        | false =>
          simp only [Bool.false_eq_true, if_false, u8, List.cons_append, List.nil_append,
            decodeZRLETile]
          have e0 : (UInt8.ofNat 0).toNat = 0 := by decide
          simp only [e0, if_true]
          exact readCPixels_raw cp px (tw * th) rest hlen hok


theorem extractTile_cpixok (cp : CPix) (px : List Pixel) (W : Nat) (t : TileRect)
    (hpx : ∀ p ∈ px, CPixOK cp p) (h0 : CPixOK cp 0) :
    ∀ p ∈ extractTile px.toArray W t, CPixOK cp p := by
  intro p hp
  simp only [extractTile, List.mem_map, List.mem_range] at hp
  obtain ⟨j, _, rfl⟩ := hp
  simp only [Array.getD_eq_getD_getElem?, List.getElem?_toArray]
  cases h : px[(t.y + j / t.w) * W + (t.x + j % t.w)]? with
  | none => simpa using h0
  | some v => simp; exact hpx v (List.mem_of_getElem? h)

theorem cpixok_zero (cp : CPix) : CPixOK cp 0 := by
  cases cp with
  | full n => exact pixOK_zero n
  | lo3 => simp [CPixOK]
  | hi3 => simp [CPixOK]

theorem zrleTiles_decodes (hpack : PackLaw) (cp : CPix) (W : Nat) (px : List Pixel)
    (hpx : ∀ p ∈ px, CPixOK cp p) :
    ∀ (tiles : List TileRect) (rest : Bytes), (∀ t ∈ tiles, 1 ≤ t.w ∧ 1 ≤ t.h) →
      decodeZRLETiles cp tiles (zrleTiles cp W px.toArray tiles ++ rest) =
        some (tiles.map (extractTile px.toArray W), rest) := by
  intro tiles
  induction tiles with
  | nil => intro rest _; simp [decodeZRLETiles, zrleTiles]
  | cons t ts ih =>
    intro rest hd
    obtain ⟨h1, h2⟩ := hd t (by simp)
    simp only [zrleTiles, decodeZRLETiles, List.append_assoc, List.map_cons]
    rw [zrleTile_decodes hpack cp t.w t.h (extractTile px.toArray W t) _ (extractTile_length _ _ _)
      (Nat.mul_pos h1 h2) (extractTile_cpixok cp px W t hpx (cpixok_zero cp))]
    simp only
    rw [ih rest (fun q hq => hd q (by simp [hq]))]
    rfl

/-- the tile data of a rectangle (what zlib gets) decodes to the rectangle -/
theorem serverZRLEData_decodes (hpack : PackLaw) (cp : CPix) (g : Geometry) (px : List Pixel)
    (rest : Bytes) (hlen : px.length = g.w * g.h) (hpx : ∀ p ∈ px, CPixOK cp p) :
    decodeZRLEData g cp (serverZRLEData cp g px ++ rest) = some (px, rest) := by
  unfold decodeZRLEData serverZRLEData
  rw [zrleTiles_decodes hpack cp g.w px hpx (tileGrid 64 g) rest
    (fun t ht => by have := tileGrid_dims 64 (by decide) g t ht; exact ⟨this.1, this.2.2.1⟩)]
  simp only [Option.map_some]
  rw [assemble_extract 64 (by decide) g px hlen]

end VncModel.Enc.Server
