import VncModel.Enc.Server
/-!
# Faithful model of the Tight encoder without JPEG (`tight.c`), pure-logic part

One sub-rectangle (`SendSubrect`): palette analysis (`FillPalette##bpp`, `PaletteInsert` with its
count-ordered entry table), the decision solid / mono / indexed / full colour, the four senders
(`SendSolidRect`, `SendMonoRect`, `SendIndexedRect`, `SendFullColorRect`), `Pack24`, `CompressData`
(the < 12 bytes rule, the level-0 "no zlib" control value, stream ids) and the compact length of
`rfbSendCompressedDataTight`.  zlib is a parameter.  Rectangle splitting (`SendRectSimple`) and the
solid-area search (`SendRectEncodingTight` with LastRect) are in `TightSplit.lean`.

Only `rfbEncodingTight` with `turboQualityLevel == -1` (no JPEG); TightPng's PNG path is not
modelled.  Host and server format are little-endian (as in the harness).
-/
namespace VncModel.Enc.Server
open VncModel.Enc VncModel.Enc.Spec

/-- `tightConf[]` row: monoMinRectSize, idxZlibLevel, monoZlibLevel, rawZlibLevel, idxMaxColorsDivisor -/
structure TightConf where
  monoMinRectSize : Nat
  idxZlibLevel : Nat
  monoZlibLevel : Nat
  rawZlibLevel : Nat
  idxMaxColorsDivisor : Nat
deriving Repr, DecidableEq

/-- without JPEG the code clamps the client's level to 0 or 1 (`> 1 → 1`), so only rows 0 and 1 of
`tightConf` are reachable -/
def tightConfOf (lvl0 : Bool) : TightConf :=
  if lvl0 then ⟨6, 0, 0, 0, 4⟩ else ⟨32, 1, 1, 1, 96⟩

/-- `cl->tightUsePixelFormat24` (no test of bitsPerPixel in the C code) -/
def usePF24 (f : PixFmt) : Bool := f.depth = 24 ∧ f.rMax = 255 ∧ f.gMax = 255 ∧ f.bMax = 255

/-- `Pack24` for one pixel on a little-endian server: shifts are mirrored for a big-endian client -/
def pack24 (f : PixFmt) (p : Pixel) : Bytes :=
  let sh := fun s => if f.bigEndian then 24 - s else s
  [UInt8.ofNat (p >>> sh f.rShift), UInt8.ofNat (p >>> sh f.gShift), UInt8.ofNat (p >>> sh f.bShift)]

/-- the bytes of one TPIXEL as the server writes it -/
def tpixBytes (f : PixFmt) (p : Pixel) : Bytes :=
  if usePF24 f then pack24 f p else pixBytes f.bytespp p

/-! ### palette -/

/-- `PALETTE`: `entry[]` in table order, each (colour, numPixels); the index of a colour is its
position (the C code keeps `listNode->idx` equal to the position) -/
abbrev TPal := List (Pixel × Nat)

/-- split `l` into (prefix, maximal suffix all of whose counts are `< n`) — the block of entries the
insertion loop `for (idx = …; idx > 0 && entry[idx-1].numPixels < numPixels; idx--)` shifts -/
def splitLess (n : Nat) (l : TPal) : TPal × TPal :=
  ((l.reverse.dropWhile fun e => decide (e.2 < n)).reverse,
   (l.reverse.takeWhile fun e => decide (e.2 < n)).reverse)

/-- `PaletteInsert`; `none` = palette full (numColors set to 0) -/
def palInsert (maxColors : Nat) (pal : TPal) (rgb : Pixel) (n : Nat) : Option TPal :=
  match pal.findIdx? (fun e => e.1 == rgb) with
  | some i =>
    let cnt := (pal.getD i (0, 0)).2 + n
    let pre := pal.take i
    let post := pal.drop (i + 1)
    let sp := splitLess cnt pre
    some (sp.1 ++ [(rgb, cnt)] ++ sp.2 ++ post)
  | none =>
    if pal.length = 256 ∨ pal.length = maxColors then none
    else
      let sp := splitLess n pal
      some (sp.1 ++ [(rgb, n)] ++ sp.2)

inductive TightKind where
  | full                                   -- numColors = 0
  | solid                                  -- 1
  | mono (bg fg : Pixel)                   -- 2
  | indexed (pal : TPal)                   -- 3..256
deriving Repr, DecidableEq

/-- the counting loop `for (i++; i < count; i++) { if c0 n0++ else if c1 n1++ else break }`:
returns n0, n1 and the rest starting at the first third colour -/
def monoScan (c0 c1 : Pixel) : List Pixel → Nat → Nat → Nat × Nat × List Pixel
  | [], n0, n1 => (n0, n1, [])
  | p :: ps, n0, n1 =>
    if p = c0 then monoScan c0 c1 ps (n0 + 1) n1
    else if p = c1 then monoScan c0 c1 ps n0 (n1 + 1)
    else (n0, n1, p :: ps)

/-- the run loop of `FillPalette##bpp` after the first two colours: current colour `ci` with run
length `ni`; `none` = palette overflow -/
def palRuns (maxColors : Nat) : List Pixel → Pixel → Nat → TPal → Option TPal
  | [], ci, ni, pal => palInsert maxColors pal ci ni
  | p :: ps, ci, ni, pal =>
    if p = ci then palRuns maxColors ps ci (ni + 1) pal
    else
      match palInsert maxColors pal ci ni with
      | none => none
      | some pal' => palRuns maxColors ps p 1 pal'

/-- `FillPalette8/16/32` (and, on the translated pixels, `FastFillPalette`) -/
def fillPalette (bpp8 : Bool) (maxColors : Nat) (px : List Pixel) : TightKind :=
  match px with
  | [] => .full
  | c0 :: rest =>
    let tail := rest.dropWhile (· == c0)
    match tail with
    | [] => .solid
    | c1 :: more =>
      if maxColors < 2 then .full else
      let n0 := rest.length - tail.length + 1
      match monoScan c0 c1 more n0 0 with
      | (n0, n1, []) => if n0 > n1 then .mono c0 c1 else .mono c1 c0
      | (n0, n1, ci :: after) =>
        if bpp8 then .full else
        match palInsert maxColors [] c0 n0 with
        | none => .full
        | some p1 =>
          match palInsert maxColors p1 c1 n1 with
          | none => .full
          | some p2 =>
            match palRuns maxColors after ci 1 p2 with
            | none => .full
            | some pal => .indexed pal

/-- `palette.maxColors` of `SendSubrect` without JPEG -/
def tightMaxColors (c : TightConf) (w h : Nat) : Nat :=
  let m := w * h / c.idxMaxColorsDivisor
  if m < 2 ∧ w * h ≥ c.monoMinRectSize then 2 else m

/-! ### compact length and data block -/

/-- `rfbSendCompressedDataTight`'s length prefix -/
def compactLen (n : Nat) : Bytes :=
  if n ≤ 0x7F then [UInt8.ofNat n]
  else if n ≤ 0x3FFF then [UInt8.ofNat (n % 128 + 128), UInt8.ofNat (n / 128 % 128)]
  else [UInt8.ofNat (n % 128 + 128), UInt8.ofNat (n / 128 % 128 + 128), UInt8.ofNat (n / 16384 % 256)]

/-- output of one sub-rectangle, structured so that both the real wire bytes (given a zlib) and the
"inflated wire" used by the per-run comparison can be derived -/
structure TightOut where
  header : Bytes                   -- control byte, filter id, palette
  data : Bytes                     -- what `CompressData` is given (`beforeEncBuf`)
  stream : Nat                     -- zlib stream id
  zlevel : Nat                     -- zlib level of `tightConf` (0 = never deflated)
  hasData : Bool                   -- false for a solid rectangle (fill)
deriving Repr, DecidableEq

/-- the wire bytes with every deflated block replaced by its input (what the tie compares after
Python has inflated the real bytes) -/
def TightOut.inflated (o : TightOut) : Bytes :=
  if !o.hasData then o.header
  else if o.data.length < 12 then o.header ++ o.data
  else o.header ++ compactLen o.data.length ++ o.data

/-- 1 bit per pixel, most significant first, rows padded — `EncodeMonoRect##bpp` -/
def monoData (w : Nat) (bg : Pixel) : Nat → List Pixel → Bytes
  | 0, _ => []
  | h + 1, px =>
    packRow 1 ((px.take w).map fun p => if p = bg then 0 else 1) 0 0 ++ monoData w bg h (px.drop w)

def tpalIndex (pal : TPal) (p : Pixel) : Nat := (pal.map (·.1)).idxOf p

/-- `SendSubrect` for `rfbEncodingTight` without JPEG, after the rectangle header -/
def tightSubrect (f : PixFmt) (lvl0 : Bool) (w h : Nat) (px : List Pixel) : TightOut :=
  let c := tightConfOf lvl0
  match fillPalette (f.bpp == 8) (tightMaxColors c w h) px with
  | .solid => ⟨u8 0x80 ++ tpixBytes f (px.headD 0), [], 0, 0, false⟩
  | .mono bg fg =>
    ⟨u8 (if c.monoZlibLevel = 0 then 0xE0 else 0x50) ++ u8 1 ++ u8 1 ++ tpixBytes f bg ++ tpixBytes f fg,
      monoData w bg h px, 1, c.monoZlibLevel, true⟩
  | .indexed pal =>
    ⟨u8 (if c.idxZlibLevel = 0 then 0xE0 else 0x60) ++ u8 1 ++ u8 (pal.length - 1) ++
        pal.flatMap (fun e => tpixBytes f e.1),
      px.map (fun p => UInt8.ofNat (tpalIndex pal p)), 2, c.idxZlibLevel, true⟩
  | .full =>
    ⟨u8 (if c.rawZlibLevel = 0 then 0xA0 else 0x00), px.flatMap (tpixBytes f), 0, c.rawZlibLevel, true⟩

end VncModel.Enc.Server
