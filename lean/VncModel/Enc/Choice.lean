import VncModel.Enc.Ref
/-!
# Choice-parametrised reference encoders (`encodeWith`)

`encodeWith c P` produces, for EVERY choice `c`, a byte string that the specification decoder maps
back to `P` (`decode_encodeWith…`): when the choice describes `P` (`denote c = P`) it is serialised
as it is — so every valid encoding of `P` is in the image — otherwise a canonical always-correct
encoding of `P` is used.  These encoders are the "decodes by the rules of the specification alone"
half of C01 that does not depend on any particular encoder, and the stream generator for C07.
-/
namespace VncModel.Enc
open VncModel.Enc.Spec

/-! ### RRE / CoRRE -/

/-- one 1×1 sub-rectangle per listed position -/
def dots (W : Nat) (px : List Pixel) (L : List Nat) : List Subrect :=
  L.map fun i => ⟨px.getD i 0, i % W, i / W, 1, 1⟩

theorem inRect_dot {W i j : Nat} (hW : 0 < W) : InRect W (j % W) (j / W) 1 1 i ↔ i = j := by
  unfold InRect
  constructor
  · intro h
    have h1 : i / W = j / W := by omega
    have h2 : i % W = j % W := by omega
    have := Nat.div_add_mod i W
    have := Nat.div_add_mod j W
    rw [h1, h2] at *
    omega
  · intro h; subst h; omega

/-- painting dots over a canvas: listed cells take the pixel of `px`, the others keep theirs -/
theorem getD_paint_dots (W H : Nat) (hW : 0 < W) (px : List Pixel) (L : List Nat)
    (hL : ∀ j ∈ L, j < W * H) (cv : Array Pixel) (hs : cv.size = W * H) (i : Nat) (hi : i < W * H) :
    ((dots W px L).foldl (fun cv r => fillRect cv W r.x r.y r.w r.h r.c) cv).getD i 0 =
      if i ∈ L then px.getD i 0 else cv.getD i 0 := by
  induction L generalizing cv with
  | nil => simp [dots]
  | cons j L ih =>
    simp only [dots, List.map_cons, List.foldl_cons]
    have hj := hL j (by simp)
    have hx : j % W + 1 ≤ W := Nat.mod_lt _ hW
    have := ih (fun q hq => hL q (by simp [hq])) (fillRect cv W (j % W) (j / W) 1 1 (px.getD j 0))
      (by rw [size_fillRect]; exact hs)
    simp only [dots] at this
    rw [this, getD_fillRect _ _ _ _ _ _ _ _ _ hx, hs]
    by_cases hiL : i ∈ L
    · simp [hiL]
    · by_cases hij : i = j
      · subst hij
        have : InRect W (i % W) (i / W) 1 1 i := (inRect_dot hW).mpr rfl
        simp [hiL, this, hi]
      · have : ¬ InRect W (j % W) (j / W) 1 1 i := fun h => hij ((inRect_dot hW).mp h)
        simp [hiL, hij, this]

/-- a choice for RRE/CoRRE: background and sub-rectangles (any values) -/
structure RREChoice where
  bg : Pixel
  rs : List Subrect
deriving Repr

/-- keep only the sub-rectangles that are representable: inside the rectangle, colour fits -/
def RREChoice.sane (c : RREChoice) (bpp : Nat) (g : Geometry) : List Subrect :=
  c.rs.filter fun r => decide (r.x + r.w ≤ g.w ∧ r.y + r.h ≤ g.h ∧ r.c < 256 ^ bpp)

/-- positions where painting the (sane) choice does not give `px` -/
def RREChoice.misses (c : RREChoice) (bpp : Nat) (g : Geometry) (px : List Pixel) : List Nat :=
  let cv := paintRects g.w g.h (if c.bg < 256 ^ bpp then c.bg else 0) (c.sane bpp g)
  (List.range (g.w * g.h)).filter fun i => cv.getD i 0 != px.getD i 0

/-- the sub-rectangle list actually sent: the sane part of the choice, then one dot per miss -/
def RREChoice.final (c : RREChoice) (bpp : Nat) (g : Geometry) (px : List Pixel) : List Subrect :=
  c.sane bpp g ++ dots g.w px (c.misses bpp g px)

def encodeWithRRE (gb : Nat × Nat × Nat × Nat → Bytes) (c : RREChoice) (bpp : Nat) (g : Geometry)
    (px : List Pixel) : Bytes :=
  serializeRRE gb bpp (if c.bg < 256 ^ bpp then c.bg else 0) (c.final bpp g px)

theorem paint_final (c : RREChoice) (bpp : Nat) (g : Geometry) (px : List Pixel)
    (hlen : px.length = g.w * g.h) :
    (paintRects g.w g.h (if c.bg < 256 ^ bpp then c.bg else 0) (c.final bpp g px)).toList = px := by
  apply toList_eq_of_getD
  · rw [size_paintRects, hlen]
  · intro i hi
    rw [hlen] at hi
    have hW : 0 < g.w := by
      rcases Nat.eq_zero_or_pos g.w with h0 | h0
      · rw [h0] at hi; simp at hi
      · exact h0
    unfold RREChoice.final paintRects
    rw [List.foldl_append]
    have := getD_paint_dots g.w g.h hW px (c.misses bpp g px)
      (by intro j hj; simp only [RREChoice.misses, List.mem_filter, List.mem_range] at hj; exact hj.1)
      (paintRects g.w g.h (if c.bg < 256 ^ bpp then c.bg else 0) (c.sane bpp g))
      (size_paintRects _ _ _ _) i hi
    unfold paintRects at this
    rw [this]
    by_cases hm : i ∈ c.misses bpp g px
    · simp [hm]
    · simp only [hm, if_false]
      simp only [RREChoice.misses, List.mem_filter, List.mem_range, hi, true_and, bne_iff_ne, ne_eq,
        Decidable.not_not] at hm
      exact hm

theorem bgOK (bg bpp : Nat) : PixOK bpp (if bg < 256 ^ bpp then bg else 0) := by
  unfold PixOK
  split
  · assumption
  · exact Nat.pow_pos (by decide)

/-- **`decode (encodeWith c P) = P` for RRE**, all choices, all pixel arrays -/
theorem decode_encodeWithRRE (c : RREChoice) (bpp : Nat) (g : Geometry) (px : List Pixel) (rest : Bytes)
    (hlen : px.length = g.w * g.h) (hpx : ∀ p ∈ px, PixOK bpp p)
    (hw : g.w < 65536) (hh : g.h < 65536) (hn : (c.final bpp g px).length < 4294967296) :
    decodeRRE g bpp (encodeWithRRE geom16 c bpp g px ++ rest) = some (px, rest) := by
  unfold decodeRRE encodeWithRRE
  rw [decodeRREWith_serialize g bpp _ _ rest hn
    (bgOK c.bg bpp) ?_]
  · rw [paint_final c bpp g px hlen]
  · intro r hr
    simp only [RREChoice.final, List.mem_append] at hr
    rcases hr with h | h
    · simp only [RREChoice.sane, List.mem_filter, decide_eq_true_eq] at h
      obtain ⟨_, h1, h2, h3⟩ := h
      exact ⟨fun t => readPixel_pixBytes _ _ _ h3, fun t => readGeom16_geom16 _ _ (by simp only; omega),
        ⟨h1, h2⟩⟩
    · simp only [dots, List.mem_map] at h
      obtain ⟨j, hj, rfl⟩ := h
      simp only [RREChoice.misses, List.mem_filter, List.mem_range] at hj
      have hj1 := hj.1
      have hW : 0 < g.w := by
        rcases Nat.eq_zero_or_pos g.w with h0 | h0
        · rw [h0] at hj1; simp at hj1
        · exact h0
      have hx : j % g.w < g.w := Nat.mod_lt _ hW
      have hy : j / g.w < g.h := Nat.div_lt_of_lt_mul hj1
      refine ⟨fun t => readPixel_pixBytes _ _ _ ?_, fun t => readGeom16_geom16 _ _ (by simp only; omega),
        ⟨by simp only; omega, by simp only; omega⟩⟩
      simp only [List.getD_eq_getElem?_getD]
      rw [List.getElem?_eq_getElem (by omega)]
      simp only [Option.getD_some]
      exact hpx _ (List.getElem_mem _)

theorem decode_encodeWithCoRRE (c : RREChoice) (bpp : Nat) (g : Geometry) (px : List Pixel) (rest : Bytes)
    (hlen : px.length = g.w * g.h) (hpx : ∀ p ∈ px, PixOK bpp p)
    (hw : g.w < 256) (hh : g.h < 256) (hn : (c.final bpp g px).length < 4294967296) :
    decodeCoRRE g bpp (encodeWithRRE geom8 c bpp g px ++ rest) = some (px, rest) := by
  unfold decodeCoRRE encodeWithRRE
  rw [decodeRREWith_serialize g bpp _ _ rest hn
    (bgOK c.bg bpp) ?_]
  · rw [paint_final c bpp g px hlen]
  · intro r hr
    simp only [RREChoice.final, List.mem_append] at hr
    rcases hr with h | h
    · simp only [RREChoice.sane, List.mem_filter, decide_eq_true_eq] at h
      obtain ⟨_, h1, h2, h3⟩ := h
      exact ⟨fun t => readPixel_pixBytes _ _ _ h3, fun t => readGeom8_geom8 _ _ (by simp only; omega),
        ⟨h1, h2⟩⟩
    · simp only [dots, List.mem_map] at h
      obtain ⟨j, hj, rfl⟩ := h
      simp only [RREChoice.misses, List.mem_filter, List.mem_range] at hj
      have hj1 := hj.1
      have hW : 0 < g.w := by
        rcases Nat.eq_zero_or_pos g.w with h0 | h0
        · rw [h0] at hj1; simp at hj1
        · exact h0
      have hx : j % g.w < g.w := Nat.mod_lt _ hW
      have hy : j / g.w < g.h := Nat.div_lt_of_lt_mul hj1
      refine ⟨fun t => readPixel_pixBytes _ _ _ ?_, fun t => readGeom8_geom8 _ _ (by simp only; omega),
        ⟨by simp only; omega, by simp only; omega⟩⟩
      simp only [List.getD_eq_getElem?_getD]
      rw [List.getElem?_eq_getElem (by omega)]
      simp only [Option.getD_some]
      exact hpx _ (List.getElem_mem _)

/-- every valid RRE encoding of `P` is an `encodeWith`: a sane choice that paints `P` is sent
unchanged -/
theorem encodeWithRRE_complete (gb : Nat × Nat × Nat × Nat → Bytes) (c : RREChoice) (bpp : Nat)
    (g : Geometry) (px : List Pixel) (hbg : c.bg < 256 ^ bpp)
    (hsane : ∀ r ∈ c.rs, r.x + r.w ≤ g.w ∧ r.y + r.h ≤ g.h ∧ r.c < 256 ^ bpp)
    (hpaint : ∀ i, i < g.w * g.h → (paintRects g.w g.h c.bg c.rs).getD i 0 = px.getD i 0) :
    encodeWithRRE gb c bpp g px = serializeRRE gb bpp c.bg c.rs := by
  have hs : c.sane bpp g = c.rs := by
    unfold RREChoice.sane
    rw [List.filter_eq_self]
    intro r hr; simpa using hsane r hr
  have hm : c.misses bpp g px = [] := by
    unfold RREChoice.misses
    rw [List.filter_eq_nil_iff]
    intro i hi
    simp only [List.mem_range] at hi
    simp [hbg, hs, hpaint i hi]
  unfold encodeWithRRE RREChoice.final
  simp [hbg, hs, hm, dots]

end VncModel.Enc
