import VncModel.Enc.TightDecode
/-!
# `Pack24` (tight.c): the TPIXEL reader/writer law for 32-bpp, depth-24, 8-8-8 formats whose channels
are byte-aligned ("Color components assumed to be byte-aligned", tight.c) — either byte order.
-/
namespace VncModel.Enc.Server
open VncModel.Enc VncModel.Enc.Spec

theorem ofNat_eq_of_mod {a b : Nat} (h : a % 256 = b) (hb : b < 256) : UInt8.ofNat a = UInt8.ofNat b := by
  apply UInt8.toNat_inj.mp
  simp [UInt8.toNat_ofNat']; try omega

theorem pow_sep {c b : Nat} (h : c + 8 ≤ b) : 256 * 2 ^ c ≤ 2 ^ b := by
  have : 2 ^ (c + 8) ≤ 2 ^ b := Nat.pow_le_pow_right (by decide) h
  rw [Nat.pow_add] at this
  have e : (2 : Nat) ^ 8 = 256 := by decide
  rw [e, Nat.mul_comm] at this
  exact this

/-- three bytes OR-ed at separated positions, highest first -/
theorem or3_sorted (X Y Z a b c : Nat) (hX : X < 256) (hY : Y < 256) (hZ : Z < 256)
    (hab : b + 8 ≤ a) (hbc : c + 8 ≤ b) :
    X <<< a ||| (Y <<< b ||| Z <<< c) = X * 2 ^ a + Y * 2 ^ b + Z * 2 ^ c := by
  have hc := pow_sep hbc
  have hb := pow_sep hab
  have hpc : 0 < 2 ^ c := Nat.pow_pos (by decide)
  have hpb : 0 < 2 ^ b := Nat.pow_pos (by decide)
  have hz : Z * 2 ^ c < 2 ^ b := by
    have : Z * 2 ^ c < 256 * 2 ^ c := Nat.mul_lt_mul_of_pos_right hZ hpc
    omega
  have hy : Y * 2 ^ b + Z * 2 ^ c < 2 ^ a := by
    have : Y * 2 ^ b ≤ 255 * 2 ^ b := Nat.mul_le_mul_right _ (by omega)
    omega
  have h1 : Y <<< b ||| Z <<< c = Y * 2 ^ b + Z * 2 ^ c := by
    rw [Nat.shiftLeft_eq Z c, ← Nat.shiftLeft_add_eq_or_of_lt hz, Nat.shiftLeft_eq]
  rw [h1, ← Nat.shiftLeft_add_eq_or_of_lt hy, Nat.shiftLeft_eq]
  omega

/-- the same for any order of the three positions -/
theorem or3_bytes (r g b a1 a2 a3 : Nat) (hr : r < 256) (hg : g < 256) (hb : b < 256)
    (h12 : a1 + 8 ≤ a2 ∨ a2 + 8 ≤ a1) (h13 : a1 + 8 ≤ a3 ∨ a3 + 8 ≤ a1) (h23 : a2 + 8 ≤ a3 ∨ a3 + 8 ≤ a2) :
    r <<< a1 ||| g <<< a2 ||| b <<< a3 = r * 2 ^ a1 + g * 2 ^ a2 + b * 2 ^ a3 := by
  rcases h12 with h12 | h12 <;> rcases h13 with h13 | h13 <;> rcases h23 with h23 | h23
  · -- a1 < a2 < a3
    rw [show r <<< a1 ||| g <<< a2 ||| b <<< a3 = b <<< a3 ||| (g <<< a2 ||| r <<< a1) by ac_rfl,
      or3_sorted b g r a3 a2 a1 hb hg hr h23 h12]; try omega
  · -- a1 < a2, a1 < a3, a3 < a2
    rw [show r <<< a1 ||| g <<< a2 ||| b <<< a3 = g <<< a2 ||| (b <<< a3 ||| r <<< a1) by ac_rfl,
      or3_sorted g b r a2 a3 a1 hg hb hr h23 h13]; try omega
  · omega
  · -- a1 < a2, a3 < a1
    rw [show r <<< a1 ||| g <<< a2 ||| b <<< a3 = g <<< a2 ||| (r <<< a1 ||| b <<< a3) by ac_rfl,
      or3_sorted g r b a2 a1 a3 hg hr hb h12 h13]; try omega
  · -- a2 < a1 < a3
    rw [show r <<< a1 ||| g <<< a2 ||| b <<< a3 = b <<< a3 ||| (r <<< a1 ||| g <<< a2) by ac_rfl,
      or3_sorted b r g a3 a1 a2 hb hr hg h13 h12]; try omega
  · omega
  · -- a2 < a1, a3 < a1, a2 < a3
    rw [show r <<< a1 ||| g <<< a2 ||| b <<< a3 = r <<< a1 ||| (b <<< a3 ||| g <<< a2) by ac_rfl,
      or3_sorted r b g a1 a3 a2 hr hb hg h13 h23]; try omega
  · -- a3 < a2 < a1
    rw [show r <<< a1 ||| g <<< a2 ||| b <<< a3 = r <<< a1 ||| (g <<< a2 ||| b <<< a3) by ac_rfl,
      or3_sorted r g b a1 a2 a3 hr hg hb h12 h23]; try omega


/-- the pixel (as the server's little-endian host reads it from the client-format buffer) whose
channels are `r g b`: channel shift `s` sits at `s` for a little-endian client and at `24 - s` for a
big-endian one -/
def pack24Pixel (f : PixFmt) (r g b : Nat) : Pixel :=
  r * 2 ^ (if f.bigEndian then 24 - f.rShift else f.rShift) +
  g * 2 ^ (if f.bigEndian then 24 - f.gShift else f.gShift) +
  b * 2 ^ (if f.bigEndian then 24 - f.bShift else f.bShift)

theorem bswap4_bytes (d0 d1 d2 d3 : Nat) (h0 : d0 < 256) (h1 : d1 < 256) (h2 : d2 < 256) (h3 : d3 < 256) :
    bswap 4 (d0 + 256 * d1 + 65536 * d2 + 16777216 * d3) = d3 + 256 * d2 + 65536 * d1 + 16777216 * d0 := by
  simp only [bswap, pixBytes, List.reverse_cons, List.reverse_nil, List.nil_append, List.cons_append,
    pixOfBytes, UInt8.toNat_ofNat']
  omega

/-- LE client: decoder value = pixel -/
theorem pack24_le (rs gs bs r g b : Nat) (hr : r < 256) (hg : g < 256) (hb : b < 256)
    (h12 : rs + 8 ≤ gs ∨ gs + 8 ≤ rs) (h13 : rs + 8 ≤ bs ∨ bs + 8 ≤ rs) (h23 : gs + 8 ≤ bs ∨ bs + 8 ≤ gs) :
    r <<< rs ||| g <<< gs ||| b <<< bs = r * 2 ^ rs + g * 2 ^ gs + b * 2 ^ bs :=
  or3_bytes r g b rs gs bs hr hg hb h12 h13 h23


/-- byte-aligned shift -/
def Sh8 (a : Nat) : Prop := a = 0 ∨ a = 8 ∨ a = 16 ∨ a = 24

/-- `Pack24` extracts the channels -/
theorem pack24_extract (a1 a2 a3 r g b : Nat) (h1 : Sh8 a1) (h2 : Sh8 a2) (h3 : Sh8 a3)
    (h12 : a1 ≠ a2) (h13 : a1 ≠ a3) (h23 : a2 ≠ a3) (hr : r < 256) (hg : g < 256) (hb : b < 256) :
    ((r * 2 ^ a1 + g * 2 ^ a2 + b * 2 ^ a3) >>> a1) % 256 = r ∧
    ((r * 2 ^ a1 + g * 2 ^ a2 + b * 2 ^ a3) >>> a2) % 256 = g ∧
    ((r * 2 ^ a1 + g * 2 ^ a2 + b * 2 ^ a3) >>> a3) % 256 = b := by
  unfold Sh8 at h1 h2 h3
  rcases h1 with rfl | rfl | rfl | rfl <;> rcases h2 with rfl | rfl | rfl | rfl <;>
    rcases h3 with rfl | rfl | rfl | rfl <;>
    first
      | exact absurd rfl h12
      | exact absurd rfl h13
      | exact absurd rfl h23
      | (simp only [Nat.shiftRight_eq_div_pow]; omega)

/-- byte swap of a value with three byte-aligned channels mirrors the shifts -/
theorem bswap_channels (a1 a2 a3 r g b : Nat) (h1 : Sh8 a1) (h2 : Sh8 a2) (h3 : Sh8 a3)
    (h12 : a1 ≠ a2) (h13 : a1 ≠ a3) (h23 : a2 ≠ a3) (hr : r < 256) (hg : g < 256) (hb : b < 256) :
    bswap 4 (r * 2 ^ a1 + g * 2 ^ a2 + b * 2 ^ a3) =
      r * 2 ^ (24 - a1) + g * 2 ^ (24 - a2) + b * 2 ^ (24 - a3) := by
  unfold Sh8 at h1 h2 h3
  rcases h1 with rfl | rfl | rfl | rfl <;> rcases h2 with rfl | rfl | rfl | rfl <;>
    rcases h3 with rfl | rfl | rfl | rfl <;>
    first
      | exact absurd rfl h12
      | exact absurd rfl h13
      | exact absurd rfl h23
      | (simp only [bswap, pixBytes, List.reverse_cons, List.reverse_nil, List.nil_append, List.cons_append,
          pixOfBytes, UInt8.toNat_ofNat']; omega)

theorem sh8_sep {a b : Nat} (ha : Sh8 a) (hb : Sh8 b) (h : a ≠ b) : a + 8 ≤ b ∨ b + 8 ≤ a := by
  unfold Sh8 at ha hb; omega

theorem sh8_mirror {a : Nat} (ha : Sh8 a) : Sh8 (24 - a) := by unfold Sh8 at *; omega


/-- **`Pack24` law**: for a 32-bpp, depth-24, 8-8-8 client format with byte-aligned, distinct channel
shifts (either byte order), the three bytes `Pack24` writes for a pixel with channels `r g b` are read
back by the specification's TPIXEL rule as exactly that pixel. -/
theorem tpixLaw_pack24 (f : PixFmt) (hbpp : f.bpp = 32) (hd : f.depth = 24)
    (hrm : f.rMax = 255) (hgm : f.gMax = 255) (hbm : f.bMax = 255)
    (hrs : Sh8 f.rShift) (hgs : Sh8 f.gShift) (hbs : Sh8 f.bShift)
    (h12 : f.rShift ≠ f.gShift) (h13 : f.rShift ≠ f.bShift) (h23 : f.gShift ≠ f.bShift)
    (r g b : Nat) (hr : r < 256) (hg : g < 256) (hb : b < 256) :
    TPixLaw f (pack24Pixel f r g b) := by
  have htp : f.tpix = .rgb f := by simp [PixFmt.tpix, hbpp, hd, hrm, hgm, hbm]
  have hu : usePF24 f = true := by simp [usePF24, hd, hrm, hgm, hbm]
  refine ⟨?_, by simp [tpixBytes, hu, pack24, htp, TPix.size]⟩
  intro t
  simp only [tpixBytes, hu, if_true, pack24, htp, readTPixel, List.cons_append, List.nil_append]
  cases hbe : f.bigEndian with
  | false =>
    simp only [pack24Pixel, hbe, Bool.false_eq_true, if_false]
    obtain ⟨e1, e2, e3⟩ := pack24_extract f.rShift f.gShift f.bShift r g b hrs hgs hbs h12 h13 h23 hr hg hb
    rw [ofNat_eq_of_mod e1 hr, ofNat_eq_of_mod e2 hg, ofNat_eq_of_mod e3 hb]
    simp only [toNat_ofNat_lt hr, toNat_ofNat_lt hg, toNat_ofNat_lt hb, PixFmt.ofValue, hbe,
      Bool.false_eq_true, if_false]
    rw [pack24_le f.rShift f.gShift f.bShift r g b hr hg hb (sh8_sep hrs hgs h12) (sh8_sep hrs hbs h13)
      (sh8_sep hgs hbs h23)]
  | true =>
    simp only [pack24Pixel, hbe, if_true]
    have m12 : 24 - f.rShift ≠ 24 - f.gShift := by unfold Sh8 at hrs hgs; omega
    have m13 : 24 - f.rShift ≠ 24 - f.bShift := by unfold Sh8 at hrs hbs; omega
    have m23 : 24 - f.gShift ≠ 24 - f.bShift := by unfold Sh8 at hgs hbs; omega
    obtain ⟨e1, e2, e3⟩ := pack24_extract (24 - f.rShift) (24 - f.gShift) (24 - f.bShift) r g b
      (sh8_mirror hrs) (sh8_mirror hgs) (sh8_mirror hbs) m12 m13 m23 hr hg hb
    rw [ofNat_eq_of_mod e1 hr, ofNat_eq_of_mod e2 hg, ofNat_eq_of_mod e3 hb]
    simp only [toNat_ofNat_lt hr, toNat_ofNat_lt hg, toNat_ofNat_lt hb, PixFmt.ofValue, hbe, if_true]
    rw [pack24_le f.rShift f.gShift f.bShift r g b hr hg hb (sh8_sep hrs hgs h12) (sh8_sep hrs hbs h13)
      (sh8_sep hgs hbs h23)]
    have hbytes : f.bytespp = 4 := by simp [PixFmt.bytespp, hbpp]
    rw [hbytes, bswap_channels f.rShift f.gShift f.bShift r g b hrs hgs hbs h12 h13 h23 hr hg hb]

end VncModel.Enc.Server
