import VncModel.Enc.Tight
import VncModel.Enc.PackLaw
import VncModel.Enc.Containers
/-! `Spec.decodeTight (model of SendSubrect) = pixels` — the Tight encoder without JPEG. -/
namespace VncModel.Enc.Server
open VncModel.Enc VncModel.Enc.Spec

/-! ### compact length -/

theorem readCompactLen_compactLen (n : Nat) (t : Bytes) (h : n < 4194304) :
    readCompactLen (compactLen n ++ t) = some (n, t) := by
  unfold compactLen
  by_cases h1 : n ≤ 0x7F
  · simp only [h1, if_true, List.cons_append, List.nil_append, readCompactLen]
    rw [toNat_ofNat_lt (by omega)]
    simp; omega
  · simp only [h1, if_false]
    by_cases h2 : n ≤ 0x3FFF
    · simp only [h2, if_true, List.cons_append, List.nil_append, readCompactLen]
      rw [toNat_ofNat_lt (show n % 128 + 128 < 256 by omega), toNat_ofNat_lt (show n / 128 % 128 < 256 by omega)]
      have a1 : ¬ (n % 128 + 128 < 128) := by omega
      have a2 : n / 128 % 128 < 128 := by omega
      simp only [a1, a2, if_false, if_true]
      simp; omega
    · simp only [h2, if_false, List.cons_append, List.nil_append, readCompactLen]
      rw [toNat_ofNat_lt (show n % 128 + 128 < 256 by omega),
        toNat_ofNat_lt (show n / 128 % 128 + 128 < 256 by omega),
        toNat_ofNat_lt (show n / 16384 % 256 < 256 by omega)]
      have a1 : ¬ (n % 128 + 128 < 128) := by omega
      have a2 : ¬ (n / 128 % 128 + 128 < 128) := by omega
      simp only [a1, a2, if_false]
      simp; omega

/-! ### palette -/

theorem splitLess_append (n : Nat) (l : TPal) : (splitLess n l).1 ++ (splitLess n l).2 = l := by
  unfold splitLess
  simp only
  rw [← List.reverse_append, List.takeWhile_append_dropWhile, List.reverse_reverse]

/-- colours of a palette -/
def tcolours (pal : TPal) : List Pixel := pal.map (·.1)

theorem tcolours_append (a b : TPal) : tcolours (a ++ b) = tcolours a ++ tcolours b := by
  simp [tcolours]

theorem mem_tc_append (c : Pixel) (a b : TPal) : c ∈ tcolours (a ++ b) ↔ c ∈ tcolours a ∨ c ∈ tcolours b := by
  simp [tcolours]

theorem mem_tc_single (c r : Pixel) (k : Nat) : c ∈ tcolours [(r, k)] ↔ c = r := by simp [tcolours]

theorem palInsert_spec (m : Nat) (pal pal' : TPal) (rgb : Pixel) (n : Nat)
    (h : palInsert m pal rgb n = some pal') (hl : pal.length ≤ 256) :
    (∀ c, c ∈ tcolours pal' ↔ (c ∈ tcolours pal ∨ c = rgb)) ∧ pal'.length ≤ 256 ∧
      pal.length ≤ pal'.length := by
  unfold palInsert at h
  cases hf : pal.findIdx? (fun e => e.1 == rgb) with
  | some i =>
    simp only [hf, Option.some.injEq] at h
    have hi : i < pal.length := (List.findIdx?_eq_some_iff_findIdx_eq.mp hf).1
    have hpi : (pal[i]).1 = rgb := by
      have := List.findIdx?_eq_some_iff_getElem.mp hf
      obtain ⟨hh, hp, _⟩ := this
      simpa using hp
    have hsplit : pal = pal.take i ++ [(rgb, (pal[i]).2)] ++ pal.drop (i + 1) := by
      have e : (rgb, (pal[i]).2) = pal[i] := by rw [← hpi]
      rw [e, List.append_assoc]; simp
    generalize hcnt : (pal.getD i (0, 0)).2 + n = cnt at h
    have hsp := splitLess_append cnt (pal.take i)
    generalize splitLess cnt (pal.take i) = sp at h hsp
    subst h
    have hlen : (sp.1 ++ [(rgb, cnt)] ++ sp.2 ++ pal.drop (i + 1)).length = pal.length := by
      have h1 := congrArg List.length hsp
      simp only [List.length_append, List.length_cons, List.length_nil, List.length_take,
        List.length_drop] at h1 ⊢
      omega
    refine ⟨?_, by omega, by omega⟩
    intro c
    have h1 : c ∈ tcolours (pal.take i) ↔ (c ∈ tcolours sp.1 ∨ c ∈ tcolours sp.2) := by
      rw [← mem_tc_append, hsp]
    have h2 : c ∈ tcolours pal ↔ ((c ∈ tcolours (pal.take i) ∨ c = rgb) ∨ c ∈ tcolours (pal.drop (i + 1))) := by
      conv => lhs; rw [hsplit]
      rw [mem_tc_append, mem_tc_append, mem_tc_single]
    rw [mem_tc_append, mem_tc_append, mem_tc_append, mem_tc_single, h2, h1]
    by_cases ha : c ∈ tcolours sp.1 <;> by_cases hb : c ∈ tcolours sp.2 <;>
      by_cases hd : c ∈ tcolours (pal.drop (i + 1)) <;> by_cases he : c = rgb <;> simp [ha, hb, hd, he]
  | none =>
    simp only [hf] at h
    split at h
    · simp at h
    · rename_i hfull
      simp only [Option.some.injEq] at h
      have hsp := splitLess_append n pal
      generalize splitLess n pal = sp at h hsp
      subst h
      have hlen : (sp.1 ++ [(rgb, n)] ++ sp.2).length = pal.length + 1 := by
        have h1 := congrArg List.length hsp
        simp only [List.length_append, List.length_cons, List.length_nil] at h1 ⊢
        omega
      refine ⟨?_, by omega, by omega⟩
      intro c
      have h1 : c ∈ tcolours pal ↔ (c ∈ tcolours sp.1 ∨ c ∈ tcolours sp.2) := by
        rw [← mem_tc_append, hsp]
      rw [mem_tc_append, mem_tc_append, mem_tc_single, h1]
      by_cases ha : c ∈ tcolours sp.1 <;> by_cases hb : c ∈ tcolours sp.2 <;> by_cases he : c = rgb <;> simp [ha, hb, he]


theorem three_mem_length (l : List Pixel) (a b c : Pixel) (ha : a ∈ l) (hb : b ∈ l) (hc : c ∈ l)
    (hab : a ≠ b) (hac : a ≠ c) (hbc : b ≠ c) : 3 ≤ l.length := by
  match l with
  | [] => simp at ha
  | [x] => simp at ha hb; exact absurd (ha.trans hb.symm) hab
  | [x, y] =>
    simp at ha hb hc
    rcases ha with rfl | rfl <;> rcases hb with rfl | rfl <;> rcases hc with rfl | rfl <;> simp_all
  | _ :: _ :: _ :: _ => simp

theorem takeWhile_all (q : Pixel → Bool) : ∀ (l : List Pixel), ∀ x ∈ l.takeWhile q, q x = true := by
  intro l
  induction l with
  | nil => intro x hx; simp at hx
  | cons a l ih =>
    intro x hx
    simp only [List.takeWhile_cons] at hx
    split at hx
    · rcases List.mem_cons.mp hx with e | e
      · rw [e]; assumption
      · exact ih x e
    · simp at hx

theorem dropWhile_head (q : Pixel → Bool) : ∀ (l : List Pixel) (a : Pixel) (t : List Pixel),
    l.dropWhile q = a :: t → q a = false := by
  intro l
  induction l with
  | nil => intro a t h; simp at h
  | cons b l ih =>
    intro a t h
    simp only [List.dropWhile_cons] at h
    split at h
    · exact ih a t h
    · rename_i hb
      simp only [List.cons.injEq] at h
      rw [← h.1]; simpa using hb

theorem monoScan_spec (c0 c1 : Pixel) : ∀ (ps : List Pixel) (n0 n1 a b : Nat) (rest : List Pixel),
    monoScan c0 c1 ps n0 n1 = (a, b, rest) →
    ∃ pre, ps = pre ++ rest ∧ (∀ p ∈ pre, p = c0 ∨ p = c1) ∧
      (∀ q more, rest = q :: more → q ≠ c0 ∧ q ≠ c1) := by
  intro ps
  induction ps with
  | nil =>
    intro n0 n1 a b rest h
    simp only [monoScan, Prod.mk.injEq] at h
    obtain ⟨_, _, h3⟩ := h
    subst h3
    exact ⟨[], rfl, by simp, by intro q more hq; simp at hq⟩
  | cons p ps ih =>
    intro n0 n1 a b rest h
    simp only [monoScan] at h
    by_cases h0 : p = c0
    · simp only [h0, if_true] at h
      obtain ⟨pre, e, hp, hr⟩ := ih _ _ _ _ _ h
      refine ⟨p :: pre, by simp [e], ?_, hr⟩
      intro q hq
      rcases List.mem_cons.mp hq with e' | e'
      · left; rw [e']; exact h0
      · exact hp q e'
    · simp only [h0, if_false] at h
      by_cases h1 : p = c1
      · simp only [h1, if_true] at h
        obtain ⟨pre, e, hp, hr⟩ := ih _ _ _ _ _ h
        refine ⟨p :: pre, by simp [e], ?_, hr⟩
        intro q hq
        rcases List.mem_cons.mp hq with e' | e'
        · right; rw [e']; exact h1
        · exact hp q e'
      · simp only [h1, if_false, Prod.mk.injEq] at h
        obtain ⟨_, _, h3⟩ := h
        subst h3
        exact ⟨[], rfl, by simp, by intro q more hq; simp at hq; obtain ⟨e1, _⟩ := hq; subst e1; exact ⟨h0, h1⟩⟩

theorem palRuns_spec (m : Nat) : ∀ (ps : List Pixel) (ci : Pixel) (ni : Nat) (pal pal' : TPal),
    palRuns m ps ci ni pal = some pal' → pal.length ≤ 256 →
    (∀ c, c ∈ tcolours pal' ↔ (c ∈ tcolours pal ∨ c = ci ∨ c ∈ ps)) ∧ pal'.length ≤ 256 ∧
      pal.length ≤ pal'.length := by
  intro ps
  induction ps with
  | nil =>
    intro ci ni pal pal' h hl
    simp only [palRuns] at h
    obtain ⟨h1, h2, h3⟩ := palInsert_spec m pal pal' ci ni h hl
    exact ⟨by intro c; rw [h1 c]; simp, h2, h3⟩
  | cons p ps ih =>
    intro ci ni pal pal' h hl
    simp only [palRuns] at h
    by_cases hp : p = ci
    · simp only [hp, if_true] at h
      obtain ⟨h1, h2, h3⟩ := ih ci (ni + 1) pal pal' h hl
      refine ⟨?_, h2, h3⟩
      intro c; rw [h1 c, hp]
      by_cases a : c ∈ tcolours pal <;> by_cases b : c = ci <;> by_cases d : c ∈ ps <;> simp [a, b, d]
    · simp only [hp, if_false] at h
      cases hins : palInsert m pal ci ni with
      | none => simp [hins] at h
      | some pal1 =>
        simp only [hins] at h
        obtain ⟨i1, i2, i3⟩ := palInsert_spec m pal pal1 ci ni hins hl
        obtain ⟨h1, h2, h3⟩ := ih p 1 pal1 pal' h i2
        refine ⟨?_, h2, by omega⟩
        intro c; rw [h1 c, i1 c]
        by_cases a : c ∈ tcolours pal <;> by_cases b : c = ci <;> by_cases d : c ∈ ps <;>
          by_cases e : c = p <;> simp [a, b, d, e]

/-- what `SendSubrect` relies on after `FillPalette` -/
theorem fillPalette_spec (bpp8 : Bool) (m : Nat) (px : List Pixel) :
    (fillPalette bpp8 m px = .solid → ∀ p ∈ px, p = px.headD 0) ∧
    (∀ bg fg, fillPalette bpp8 m px = .mono bg fg →
      bg ≠ fg ∧ (∀ p ∈ px, p = bg ∨ p = fg) ∧ bg ∈ px ∧ fg ∈ px) ∧
    (∀ pal, fillPalette bpp8 m px = .indexed pal →
      pal.length ≤ 256 ∧ 3 ≤ pal.length ∧ (∀ c, c ∈ tcolours pal ↔ c ∈ px)) := by
  cases px with
  | nil => simp [fillPalette]
  | cons c0 rest =>
    simp only [fillPalette, List.headD_cons]
    have hsplit : rest = rest.takeWhile (· == c0) ++ rest.dropWhile (· == c0) :=
      (List.takeWhile_append_dropWhile).symm
    have htw : ∀ p ∈ rest.takeWhile (· == c0), p = c0 := by
      intro p hp; have := takeWhile_all (· == c0) rest p hp; simpa using this
    cases htail : rest.dropWhile (· == c0) with
    | nil =>
      simp only
      refine ⟨?_, by intro bg fg h; simp at h, by intro pal h; simp at h⟩
      intro _ p hp
      rcases List.mem_cons.mp hp with e | e
      · exact e
      · rw [hsplit, htail, List.append_nil] at e; exact htw p e
    | cons c1 more =>
      simp only
      have hc1 : c1 ≠ c0 := by
        have := dropWhile_head (· == c0) rest c1 more htail
        simpa using this
      have hmemc1 : c1 ∈ rest := by rw [hsplit, htail]; simp
      by_cases hm : m < 2
      · simp [hm]
      · simp only [hm, if_false]
        generalize hms : monoScan c0 c1 more (rest.length - (c1 :: more).length + 1) 0 = r
        obtain ⟨a, b, rr⟩ := r
        obtain ⟨pre, epre, hpre, hrest⟩ := monoScan_spec c0 c1 more _ _ a b rr hms
        have hall : ∀ p ∈ c0 :: rest, p = c0 ∨ p = c1 ∨ p ∈ rr := by
          intro p hp
          rcases List.mem_cons.mp hp with e | e
          · exact Or.inl e
          · rw [hsplit, htail, epre] at e
            simp only [List.mem_append, List.mem_cons] at e
            rcases e with e | e | e | e
            · exact Or.inl (htw p e)
            · exact Or.inr (Or.inl e)
            · rcases hpre p e with e' | e'
              · exact Or.inl e'
              · exact Or.inr (Or.inl e')
            · exact Or.inr (Or.inr e)
        cases rr with
        | nil =>
          simp only
          refine ⟨by split <;> simp, ?_, by intro pal h; split at h <;> simp at h⟩
          intro bg fg h
          have hall' : ∀ p ∈ c0 :: rest, p = c0 ∨ p = c1 := by
            intro p hp; rcases hall p hp with e | e | e
            · exact Or.inl e
            · exact Or.inr e
            · simp at e
          split at h
          · simp only [TightKind.mono.injEq] at h
            obtain ⟨e1, e2⟩ := h; subst e1; subst e2
            exact ⟨fun e => hc1 e.symm, hall', by simp, by simp [hmemc1]⟩
          · simp only [TightKind.mono.injEq] at h
            obtain ⟨e1, e2⟩ := h; subst e1; subst e2
            exact ⟨hc1, fun p hp => (hall' p hp).symm, by simp [hmemc1], by simp⟩
        | cons ci after =>
          simp only
          by_cases h8 : bpp8 = true
          · simp [h8]
          · simp only [h8, Bool.false_eq_true, if_false]
            refine ⟨by repeat (first | split | simp), by intro bg fg h; repeat (first | split at h | simp at h), ?_⟩
            intro pal h
            cases hi1 : palInsert m [] c0 a with
            | none => simp [hi1] at h
            | some p1 =>
              simp only [hi1] at h
              cases hi2 : palInsert m p1 c1 b with
              | none => simp [hi2] at h
              | some p2 =>
                simp only [hi2] at h
                cases hi3 : palRuns m after ci 1 p2 with
                | none => simp [hi3] at h
                | some p3 =>
                  simp only [hi3, TightKind.indexed.injEq] at h
                  subst h
                  obtain ⟨s1, l1, g1⟩ := palInsert_spec m [] p1 c0 a hi1 (by simp)
                  obtain ⟨s2, l2, g2⟩ := palInsert_spec m p1 p2 c1 b hi2 l1
                  obtain ⟨s3, l3, g3⟩ := palRuns_spec m after ci 1 p2 p3 hi3 l2
                  have hci := hrest ci after rfl
                  have m0 : c0 ∈ tcolours p3 := by rw [s3, s2, s1]; simp
                  have m1 : c1 ∈ tcolours p3 := by rw [s3, s2, s1]; simp
                  have m2 : ci ∈ tcolours p3 := by rw [s3]; simp
                  have hlen3 : 3 ≤ p3.length := by
                    have := three_mem_length (tcolours p3) c0 c1 ci m0 m1 m2 (fun e => hc1 e.symm)
                      (fun e => hci.1 e.symm) (fun e => hci.2 e.symm)
                    simpa [tcolours] using this
                  refine ⟨l3, hlen3, ?_⟩
                  intro c
                  rw [s3 c, s2 c, s1 c]
                  constructor
                  · intro hc
                    rcases hc with ((hc | hc) | hc) | hc | hc
                    · simp [tcolours] at hc
                    · subst hc; exact List.mem_cons_self
                    · subst hc; exact List.mem_cons_of_mem _ hmemc1
                    · subst hc; apply List.mem_cons_of_mem; rw [hsplit, htail, epre]; simp
                    · apply List.mem_cons_of_mem; rw [hsplit, htail, epre]; simp [hc]
                  · intro hc
                    rcases hall c hc with e | e | e
                    · exact Or.inl (Or.inl (Or.inr e))
                    · exact Or.inl (Or.inr e)
                    · rcases List.mem_cons.mp e with e' | e'
                      · exact Or.inr (Or.inl e')
                      · exact Or.inr (Or.inr e')

end VncModel.Enc.Server
