import VncModel.Enc.HextileProofs
import VncModel.Enc.UpdateBuf
/-!
# `updateBuf` discipline of the Hextile tile loop

`sendHextiles##bpp` flushes before a tile when `ublen + 1 + (2 + 16*16)*(bpp/8) > UPDATE_BUF_SIZE` and
then writes the tile straight into `updateBuf`.  Here: a tile never needs more than that reserve, so
`ublen ≤ UPDATE_BUF_SIZE` throughout, and the stream is the concatenation of the tiles wherever the
flushes fall.
-/
namespace VncModel.Enc.Server
open VncModel.Enc VncModel.Enc.Spec

theorem subrectsBytes_length (pc : Pixel → Bytes) (gb : Nat × Nat × Nat × Nat → Bytes) (k g : Nat)
    (hpc : ∀ c, (pc c).length = k) (hgb : ∀ q, (gb q).length = g) (rs : List Subrect) :
    (subrectsBytes pc gb rs).length = rs.length * (k + g) := by
  induction rs with
  | nil => simp [subrectsBytes]
  | cons r rs ih =>
    simp only [subrectsBytes, List.flatMap_cons, List.length_append, List.length_cons] at ih ⊢
    rw [ih, hpc, hgb, Nat.succ_mul]; omega

/-- the reserve the C code tests for: flag byte + background + foreground + 256 pixels -/
def hextileReserve (bpp : Nat) : Nat := 1 + (2 + 16 * 16) * bpp

/-- a Hextile tile never needs more than the reserve -/
theorem hextileTile_length_le (bpp tw th : Nat) (px : List Pixel) (st : HexSrv)
    (hb : 1 ≤ bpp) (htw : tw ≤ 16) (hth : th ≤ 16) (hlen : px.length = tw * th) :
    (hextileTile bpp tw th px st).1.length ≤ hextileReserve bpp := by
  have harea : tw * th ≤ 256 := by
    calc tw * th ≤ 16 * 16 := Nat.mul_le_mul htw hth
      _ = 256 := by decide
  have hab : tw * th * bpp ≤ 256 * bpp := Nat.mul_le_mul_right _ harea
  unfold hextileReserve
  simp only [hextileTile]
  generalize testColours px = tc
  generalize hnb : (!st.validBg || tc.bg != st.bg) = nb
  have hbgl : (if nb = true then pixBytes bpp tc.bg else []).length ≤ bpp := by
    split <;> simp [pixBytes_length]
  by_cases hs : tc.solid = true
  · simp only [hs, if_true, List.length_append, u8, List.length_cons, List.length_nil]
    omega
  · simp only [hs, Bool.false_eq_true, if_false]
    generalize (if nb = true then ({ st with validBg := true, bg := tc.bg } : HexSrv) else st) = st1
    generalize hnf : (tc.mono && (!st1.validFg || tc.fg != st1.fg)) = nf
    have hfgl : (if nf = true then pixBytes bpp tc.fg else []).length ≤ bpp := by
      split <;> simp [pixBytes_length]
    generalize (if tc.mono = true then (if nf = true then ({ st1 with validFg := true, fg := tc.fg } : HexSrv) else st1)
        else { st1 with validFg := false }) = st2
    cases hse : subrectEncode tw th st2.bg (if tc.mono = true then 2 else bpp + 2) (tw * th * bpp) 1 px.toArray with
    | none =>
      simp only [List.length_append, u8, List.length_cons, List.length_nil, pixelsBytes_length, hlen]
      omega
    | some v =>
      obtain ⟨rs, len⟩ := v
      obtain ⟨_, hl, hlim⟩ := subrectEncode_spec tw th st2.bg _ _ _ px.toArray (by simp [hlen]) rs len hse
      have hsub : (subrectsBytes (if tc.mono = true then fun _ => [] else pixBytes bpp) geomHex rs).length =
          rs.length * ((if tc.mono = true then 0 else bpp) + 2) := by
        apply subrectsBytes_length
        · intro c; cases tc.mono <;> simp [pixBytes_length]
        · intro q; simp [geomHex]
      have hssz : (if tc.mono = true then 2 else bpp + 2) = (if tc.mono = true then 0 else bpp) + 2 := by
        cases tc.mono <;> simp
      rw [hssz] at hl
      simp only [List.length_append, u8, List.length_cons, List.length_nil, hsub]
      rcases Nat.eq_zero_or_pos rs.length with h0 | h0
      · rw [h0]; simp; omega
      · have := hlim h0
        rw [Nat.mul_comm] at hl
        omega

/-- tile loop of `sendHextiles##bpp` on the `updateBuf` model -/
def hexLoopUB (bpp W : Nat) (px : Array Pixel) : List TileRect → HexSrv → UB → UB
  | [], _, u => u
  | t :: ts, st, u =>
    let u0 := if u.ublen + hextileReserve bpp > UBS then u.flush else u
    let r := hextileTile bpp t.w t.h (extractTile px W t) st
    hexLoopUB bpp W px ts r.2 (u0.put r.1)

/-- **Hextile, flush-transparent and within bounds**: the peer receives exactly the tile bytes of
`hextileTiles` (the model `server_hextile_decodes` is about), and `ublen ≤ UPDATE_BUF_SIZE` after
every tile — provided the reserve fits the buffer at all (it does for bpp ≤ 4: 1033 ≤ 32768). -/
theorem hexLoopUB_spec (bpp W : Nat) (px : Array Pixel) (hb : 1 ≤ bpp) (hres : hextileReserve bpp ≤ UBS) :
    ∀ (tiles : List TileRect) (st : HexSrv) (u : UB), u.ublen ≤ UBS →
      (∀ t ∈ tiles, t.w ≤ 16 ∧ t.h ≤ 16) →
      (hexLoopUB bpp W px tiles st u).stream = u.stream ++ hextileTiles bpp W px tiles st ∧
      (hexLoopUB bpp W px tiles st u).ublen ≤ UBS := by
  intro tiles
  induction tiles with
  | nil => intro st u hu _; simp [hexLoopUB, hextileTiles, hu]
  | cons t ts ih =>
    intro st u hu hd
    obtain ⟨h1, h2⟩ := hd t (by simp)
    simp only [hexLoopUB, hextileTiles]
    have hl := hextileTile_length_le bpp t.w t.h (extractTile px W t) st hb h1 h2 (extractTile_length _ _ _)
    have hu0 : (if u.ublen + hextileReserve bpp > UBS then u.flush else u).ublen + hextileReserve bpp ≤ UBS := by
      split
      · simp; exact hres
      · omega
    have hs0 : (if u.ublen + hextileReserve bpp > UBS then u.flush else u).stream = u.stream := by
      split <;> simp
    obtain ⟨e1, e2⟩ := ih (hextileTile bpp t.w t.h (extractTile px W t) st).2
      ((if u.ublen + hextileReserve bpp > UBS then u.flush else u).put
        (hextileTile bpp t.w t.h (extractTile px W t) st).1)
      (by simp only [UB.ublen_put]; omega) (fun q hq => hd q (by simp [hq]))
    refine ⟨?_, e2⟩
    rw [e1, UB.stream_put, hs0, List.append_assoc]

end VncModel.Enc.Server
