import VncModel.Enc.Ref
import VncModel.Gen.C01
/-!
# `cl->updateBuf` / `cl->ublen` flush discipline and the Raw encoder (rfbserver.c)

`UB` = what has already been written to the socket (`sent`) plus the pending part of `updateBuf`
(`buf`, `ublen = buf.length`).  Every encoder only ever *appends* to `buf` or *flushes*
(`rfbSendUpdateBuf`); the client sees `stream = sent ++ buf` once the final flush has happened.
`flush_transparent` lemmas: the stream produced by a sender does not depend on where flushes fall.
-/
namespace VncModel.Enc.Server
open VncModel.Enc VncModel.Enc.Spec

/-- `UPDATE_BUF_SIZE` (regenerated from rfb.h on every run) -/
abbrev UBS : Nat := VncModel.Gen.C01.UPDATE_BUF_SIZE

structure UB where
  sent : Bytes := []
  buf : Bytes := []
deriving Repr, DecidableEq

namespace UB
def ublen (u : UB) : Nat := u.buf.length
/-- `rfbSendUpdateBuf` -/
def flush (u : UB) : UB := ⟨u.sent ++ u.buf, []⟩
/-- `memcpy(&updateBuf[ublen], bs, n); ublen += n` -/
def put (u : UB) (bs : Bytes) : UB := ⟨u.sent, u.buf ++ bs⟩
/-- everything the peer receives once the buffer is finally flushed -/
def stream (u : UB) : Bytes := u.sent ++ u.buf

@[simp] theorem stream_flush (u : UB) : u.flush.stream = u.stream := by simp [flush, stream]
@[simp] theorem stream_put (u : UB) (bs : Bytes) : (u.put bs).stream = u.stream ++ bs := by
  simp [put, stream]
@[simp] theorem ublen_flush (u : UB) : u.flush.ublen = 0 := by simp [flush, ublen]
@[simp] theorem ublen_put (u : UB) (bs : Bytes) : (u.put bs).ublen = u.ublen + bs.length := by
  simp [put, ublen]
end UB

/-- the copy loop every length-prefixed encoder uses for `afterEncBuf` (rre.c, corre.c, zlib.c,
zrle.c, ultra.c): `bytesToCopy = UPDATE_BUF_SIZE - ublen; clip; memcpy; if (ublen == SIZE) flush` -/
def copyLoop : Nat → Bytes → UB → UB
  | 0, _, u => u
  | f + 1, data, u =>
    if data.isEmpty then u else
    let n := min (UBS - u.ublen) data.length
    let u1 := u.put (data.take n)
    let u2 := if u1.ublen = UBS then u1.flush else u1
    copyLoop f (data.drop n) u2

theorem copyLoop_spec : ∀ (f : Nat) (data : Bytes) (u : UB), u.ublen ≤ UBS →
    data.length + (if u.ublen = UBS then 1 else 0) ≤ f →
    (copyLoop f data u).stream = u.stream ++ data ∧ (copyLoop f data u).ublen ≤ UBS := by
  intro f
  induction f with
  | zero =>
    intro data u hu hf
    have : data = [] := by
      cases data with
      | nil => rfl
      | cons a l => simp at hf
    subst this; simp [copyLoop, hu]
  | succ f ih =>
    intro data u hu hf
    simp only [copyLoop]
    by_cases he : data.isEmpty
    · simp only [he, if_true]
      have : data = [] := by simpa using he
      subst this; simp [hu]
    · simp only [he, Bool.false_eq_true, if_false]
      have hne : 0 < data.length := by
        cases data with
        | nil => simp at he
        | cons a l => simp
      generalize hn : min (UBS - u.ublen) data.length = n
      have hnle : n ≤ data.length := by omega
      have hlen1 : (u.put (data.take n)).ublen = u.ublen + n := by
        simp [List.length_take]; omega
      have hpart : data.take n ++ data.drop n = data := List.take_append_drop n data
      by_cases hfull : (u.put (data.take n)).ublen = UBS
      · simp only [hfull, if_true]
        have := ih (data.drop n) (u.put (data.take n)).flush (by simp) (by
          simp only [List.length_drop, UB.ublen_flush]
          have : UBS ≠ 0 := by decide
          simp only [show (0 = UBS) = False from by simp; omega, if_false]
          by_cases h1 : u.ublen = UBS
          · simp [h1] at hf; omega
          · have : 0 < n := by omega
            omega)
        refine ⟨?_, this.2⟩
        rw [this.1]; simp only [UB.stream_flush, UB.stream_put, List.append_assoc, hpart]
      · simp only [hfull, if_false]
        have hn2 : n = data.length := by omega
        have := ih (data.drop n) (u.put (data.take n)) (by omega) (by
          simp only [List.length_drop, hfull, if_false]; omega)
        refine ⟨?_, this.2⟩
        rw [this.1]; simp only [UB.stream_put, List.append_assoc, hpart]

/-! ### Raw: `rfbSendRectEncodingRaw` -/

/-- the `while (TRUE)` loop: `rows` = translated scan lines still to send (each `bpl` bytes),
`nlines` = how many fit.  `none` = "send buffer too small for %d bytes per line", the client is
closed. -/
def rawLoop (bpl : Nat) : Nat → List Bytes → Nat → UB → Option UB
  | 0, _, _, _ => none
  | f + 1, rows, nlines, u =>
    let nl := if nlines > rows.length then rows.length else nlines
    let u1 := u.put (rows.take nl).flatten
    let rest := rows.drop nl
    if rest.isEmpty then some u1
    else
      let u2 := u1.flush
      let nl2 := (UBS - u2.ublen) / bpl
      if nl2 = 0 then none else rawLoop bpl f rest nl2 u2

/-- `rfbSendRectEncodingRaw` for a non-empty rectangle: flush if anything is pending (alignment for
`translateFn`), header, then lines in batches -/
def sendRaw (hdr : Bytes) (bpl : Nat) (rows : List Bytes) (u : UB) : Option UB :=
  let u0 := if u.ublen > 0 then u.flush else u
  let u1 := u0.put hdr
  rawLoop bpl (rows.length + 1) rows ((UBS - u1.ublen) / bpl) u1

theorem rawLoop_spec (bpl : Nat) (hb : 0 < bpl) (hbl : bpl ≤ UBS) :
    ∀ (f : Nat) (rows : List Bytes) (nlines : Nat) (u : UB),
      (∀ r ∈ rows, r.length = bpl) → rows ≠ [] → u.ublen + nlines * bpl ≤ UBS → u.ublen ≤ UBS →
      rows.length + (if nlines = 0 then 1 else 0) ≤ f →
      ∃ u', rawLoop bpl f rows nlines u = some u' ∧ u'.stream = u.stream ++ rows.flatten ∧
        u'.ublen ≤ UBS := by
  intro f
  induction f with
  | zero =>
    intro rows nlines u _ hne _ _ hf
    cases rows with
    | nil => exact absurd rfl hne
    | cons a l => simp at hf
  | succ f ih =>
    intro rows nlines u hrows hne hfit hu hf
    simp only [rawLoop]
    generalize hnl : (if nlines > rows.length then rows.length else nlines) = nl
    have hnl1 : nl ≤ rows.length := by split at hnl <;> omega
    have hnl2 : nl ≤ nlines := by split at hnl <;> omega
    have hflat : ((rows.take nl).flatten).length = nl * bpl := by
      have : ∀ (l : List Bytes), (∀ r ∈ l, r.length = bpl) → l.flatten.length = l.length * bpl := by
        intro l
        induction l with
        | nil => simp
        | cons a l ih2 =>
          intro h
          simp only [List.flatten_cons, List.length_append, List.length_cons]
          rw [h a (by simp), ih2 (fun r hr => h r (by simp [hr])), Nat.succ_mul]; omega
      rw [this _ (fun r hr => hrows r (List.mem_of_mem_take hr)), List.length_take]
      congr 1; omega
    have hmul : nl * bpl ≤ nlines * bpl := Nat.mul_le_mul_right _ hnl2
    have hu1 : (u.put (rows.take nl).flatten).ublen ≤ UBS := by simp [hflat]; omega
    have hsplit : (rows.take nl).flatten ++ (rows.drop nl).flatten = rows.flatten := by
      rw [← List.flatten_append, List.take_append_drop]
    by_cases hrest : (rows.drop nl).isEmpty
    · simp only [hrest, if_true]
      refine ⟨_, rfl, ?_, hu1⟩
      have : rows.drop nl = [] := by simpa using hrest
      rw [← hsplit, this]; simp
    · simp only [hrest, Bool.false_eq_true, if_false, UB.ublen_flush, Nat.sub_zero]
      have hq : 0 < UBS / bpl := Nat.div_pos hbl hb
      have hq0 : UBS / bpl ≠ 0 := by omega
      simp only [hq0, if_false]
      have hdne : rows.drop nl ≠ [] := by simpa using hrest
      have hdl : (rows.drop nl).length = rows.length - nl := by simp
      have hfit2 : (u.put (rows.take nl).flatten).flush.ublen + UBS / bpl * bpl ≤ UBS := by
        simp only [UB.ublen_flush, Nat.zero_add]; exact Nat.div_mul_le_self _ _
      obtain ⟨u', h1, h2, h3⟩ := ih (rows.drop nl) (UBS / bpl) (u.put (rows.take nl).flatten).flush
        (fun r hr => hrows r (List.mem_of_mem_drop hr)) hdne hfit2 (by simp)
        (by
          simp only [hq0, if_false, hdl]
          -- progress: either nl > 0, or this was the one allowed empty batch
          by_cases hz : nlines = 0
          · simp [hz] at hf; omega
          · have : 0 < nl := by
              have : 0 < rows.length := by
                cases rows with
                | nil => exact absurd rfl hne
                | cons a l => simp
              split at hnl <;> omega
            simp [hz] at hf; omega)
      refine ⟨u', h1, ?_, h3⟩
      rw [h2]; simp only [UB.stream_flush, UB.stream_put, List.append_assoc, hsplit]

/-- **Raw, flush-transparent**: whatever is pending in `updateBuf`, the peer receives the rectangle
header followed by all translated lines in order; the buffer never exceeds `UPDATE_BUF_SIZE`.
(The guard `bpl ≤ UPDATE_BUF_SIZE` is real: a wider line makes the server close the client.) -/
theorem sendRaw_spec (hdr : Bytes) (bpl : Nat) (rows : List Bytes) (u : UB)
    (hh : hdr.length = 12) (hb : 0 < bpl) (hbl : bpl ≤ UBS)
    (hrows : ∀ r ∈ rows, r.length = bpl) (hne : rows ≠ []) (hu : u.ublen ≤ UBS) :
    ∃ u', sendRaw hdr bpl rows u = some u' ∧ u'.stream = u.stream ++ hdr ++ rows.flatten ∧
      u'.ublen ≤ UBS := by
  unfold sendRaw
  have h0 : (if u.ublen > 0 then u.flush else u).ublen = 0 := by
    split
    · simp
    · omega
  have hs0 : (if u.ublen > 0 then u.flush else u).stream = u.stream := by split <;> simp
  generalize (if u.ublen > 0 then u.flush else u) = u0 at *
  have hl1 : (u0.put hdr).ublen = 12 := by simp [h0, hh]
  have hU : 12 ≤ UBS := by decide
  obtain ⟨u', h1, h2, h3⟩ := rawLoop_spec bpl hb hbl (rows.length + 1) rows
    ((UBS - (u0.put hdr).ublen) / bpl) (u0.put hdr) hrows hne
    (by rw [hl1]; have := Nat.div_mul_le_self (UBS - 12) bpl; omega) (by omega)
    (by split <;> omega)
  refine ⟨u', h1, ?_, h3⟩
  rw [h2]; simp [hs0]

end VncModel.Enc.Server
