/-!
# RFB rectangle decoders "by the rules of the specification alone"  (C01 specification side)

Stable API, imported by C07 (client decoders) as the reference semantics.  Core Lean only.

## Conventions

* `Bytes = List UInt8`: a byte stream in wire order.
* `Pixel = Nat`: a pixel *in the pixel format the client asked for* is the `bytespp` bytes that
  travel on the wire (client byte order), read **little-endian over the wire order**
  (`pixOfBytes`): first wire byte = least significant digit.  This is a plain bijection between
  byte chunks of length `bytespp` and naturals `< 256^bytespp`; it has nothing to do with the
  client's `bigEndian` flag (for a big-endian client the numeric pixel *value* is the byte-swapped
  number, see `PixFmt.value`).  On a little-endian host it coincides with what the C code reads
  through a `uintN_t*` from its client-format buffers.
* A decoded rectangle is a `List Pixel`, row-major, length `w*h`.
* Every decoder has type `… → Bytes → Option (result × rest)`; `none` = malformed / truncated.
  Decoders are strict: sub-rectangles outside their rectangle/tile, palette indices outside the
  palette, runs longer than the tile, a missing background/foreground are all `none`.
* Compressed containers (Zlib, ZRLE, Ultra, Tight) take the decompressor as a parameter
  (`inflate : Bytes → Option Bytes` for "feed this chunk to the persistent stream, give me what
  comes out"; Tight has four streams, indexed by a `Nat`).  Stream persistence / reset bits are
  the caller's business (`tightResetMask`).
-/
namespace VncModel.Enc.Spec

abbrev Bytes := List UInt8
abbrev Pixel := Nat
abbrev Dec (α : Type) := Bytes → Option (α × Bytes)

structure Geometry where
  w : Nat
  h : Nat
deriving Repr, DecidableEq, Inhabited

def Geometry.area (g : Geometry) : Nat := g.w * g.h

/-! ## bytes, integers, pixels -/

/-- split off exactly `n` bytes -/
def takeN : Nat → Dec Bytes
  | 0, bs => some ([], bs)
  | _ + 1, [] => none
  | n + 1, b :: bs => (takeN n bs).map fun (t, r) => (b :: t, r)

def readU8 : Dec Nat
  | b :: r => some (b.toNat, r)
  | [] => none

/-- big-endian 16 bit -/
def readU16 : Dec Nat
  | a :: b :: r => some (a.toNat * 256 + b.toNat, r)
  | _ => none

/-- big-endian 32 bit -/
def readU32 : Dec Nat
  | a :: b :: c :: d :: r => some (((a.toNat * 256 + b.toNat) * 256 + c.toNat) * 256 + d.toNat, r)
  | _ => none

/-- pixel of `n` wire bytes (little-endian over the wire order, see header) -/
def pixOfBytes : Bytes → Pixel
  | [] => 0
  | b :: bs => b.toNat + 256 * pixOfBytes bs

/-- the `n` wire bytes of a pixel -/
def pixBytes : Nat → Pixel → Bytes
  | 0, _ => []
  | n + 1, p => UInt8.ofNat (p % 256) :: pixBytes n (p / 256)

def readPixel : Nat → Dec Pixel
  | 0, bs => some (0, bs)
  | _ + 1, [] => none
  | n + 1, b :: bs => (readPixel n bs).map fun (p, r) => (b.toNat + 256 * p, r)

/-- `k` consecutive pixels of `bpp` bytes -/
def readPixels (bpp : Nat) : Nat → Dec (List Pixel)
  | 0, bs => some ([], bs)
  | k + 1, bs =>
    match readPixel bpp bs with
    | none => none
    | some (p, bs) => (readPixels bpp k bs).map fun (ps, r) => (p :: ps, r)

/-! ## Raw -/

def decodeRaw (g : Geometry) (bpp : Nat) : Dec (List Pixel) :=
  readPixels bpp (g.w * g.h)

/-! ## CopyRect (payload = source position) -/

def decodeCopyRect : Dec (Nat × Nat) := fun bs =>
  match readU16 bs with
  | none => none
  | some (sx, bs) => (readU16 bs).map fun (sy, r) => ((sx, sy), r)

/-! ## painting: background + sub-rectangles (RRE, CoRRE, Hextile) -/

structure Subrect where
  c : Pixel
  x : Nat
  y : Nat
  w : Nat
  h : Nat
deriving Repr, DecidableEq, Inhabited

/-- set `len` consecutive cells starting at `start` -/
def fillRow (cv : Array Pixel) (start : Nat) : Nat → Pixel → Array Pixel
  | 0, _ => cv
  | n + 1, c => fillRow (cv.setIfInBounds start c) (start + 1) n c

/-- fill the rectangle `x,y,w,h` of a canvas with row length `W` -/
def fillRect (cv : Array Pixel) (W x y w : Nat) : Nat → Pixel → Array Pixel
  | 0, _ => cv
  | k + 1, c => fillRect (fillRow cv (y * W + x) w c) W x (y + 1) w k c

/-- background, then the sub-rectangles in stream order (later ones overwrite earlier ones) -/
def paintRects (W H : Nat) (bg : Pixel) (rs : List Subrect) : Array Pixel :=
  rs.foldl (fun cv r => fillRect cv W r.x r.y r.w r.h r.c) (Array.replicate (W * H) bg)

/-- `n` sub-rectangles; `rc` reads the colour, `rg` reads `x,y,w,h`; a sub-rectangle that leaves
the `W × H` area is malformed -/
def readSubrects (rc : Dec Pixel) (rg : Dec (Nat × Nat × Nat × Nat)) (W H : Nat) :
    Nat → Dec (List Subrect)
  | 0, bs => some ([], bs)
  | n + 1, bs =>
    match rc bs with
    | none => none
    | some (c, bs) =>
      match rg bs with
      | none => none
      | some ((x, y, w, h), bs) =>
        if x + w ≤ W ∧ y + h ≤ H then
          (readSubrects rc rg W H n bs).map fun (rs, r) => (⟨c, x, y, w, h⟩ :: rs, r)
        else none

/-- four big-endian 16-bit numbers (RRE) -/
def readGeom16 : Dec (Nat × Nat × Nat × Nat)
  | a :: b :: c :: d :: e :: f :: g :: h :: r =>
    some ((a.toNat * 256 + b.toNat, c.toNat * 256 + d.toNat, e.toNat * 256 + f.toNat,
           g.toNat * 256 + h.toNat), r)
  | _ => none

/-- four bytes (CoRRE) -/
def readGeom8 : Dec (Nat × Nat × Nat × Nat)
  | a :: b :: c :: d :: r => some ((a.toNat, b.toNat, c.toNat, d.toNat), r)
  | _ => none

/-- Hextile: `xy` byte, `wh` byte (each nibble; w,h stored minus one) -/
def readGeomHex : Dec (Nat × Nat × Nat × Nat)
  | a :: b :: r => some ((a.toNat / 16, a.toNat % 16, b.toNat / 16 + 1, b.toNat % 16 + 1), r)
  | _ => none

/-! ## RRE / CoRRE -/

def decodeRREWith (rg : Dec (Nat × Nat × Nat × Nat)) (g : Geometry) (bpp : Nat) :
    Dec (List Pixel) := fun bs =>
  match readU32 bs with
  | none => none
  | some (n, bs) =>
    match readPixel bpp bs with
    | none => none
    | some (bg, bs) =>
      (readSubrects (readPixel bpp) rg g.w g.h n bs).map fun (rs, r) =>
        ((paintRects g.w g.h bg rs).toList, r)

def decodeRRE : Geometry → Nat → Dec (List Pixel) := decodeRREWith readGeom16
def decodeCoRRE : Geometry → Nat → Dec (List Pixel) := decodeRREWith readGeom8

/-! ## tiling (Hextile 16, ZRLE/TRLE 64) -/

structure TileRect where
  x : Nat
  y : Nat
  w : Nat
  h : Nat
deriving Repr, DecidableEq, Inhabited

/-- tiles of side `T`, left to right, top to bottom; right/bottom tiles are smaller -/
def tileGrid (T : Nat) (g : Geometry) : List TileRect :=
  let tpr := (g.w + T - 1) / T          -- tiles per row
  (List.range (((g.h + T - 1) / T) * tpr)).map fun k =>
    ⟨(k % tpr) * T, (k / tpr) * T, min T (g.w - (k % tpr) * T), min T (g.h - (k / tpr) * T)⟩

/-- put decoded tiles (in `tileGrid` order, each row-major) together -/
def assemble (T : Nat) (g : Geometry) (tiles : List (List Pixel)) : List Pixel :=
  let ta : Array (Array Pixel) := (tiles.map List.toArray).toArray
  (List.range (g.w * g.h)).map fun i =>
    let x := i % g.w
    let y := i / g.w
    (ta.getD ((y / T) * ((g.w + T - 1) / T) + x / T) #[]).getD
      ((y % T) * (min T (g.w - (x / T) * T)) + x % T) 0

/-! ## Hextile -/

/-- background / foreground carried from tile to tile (`none` = never specified so far) -/
structure HexState where
  bg : Option Pixel := none
  fg : Option Pixel := none
deriving Repr, DecidableEq, Inhabited

def optPixel (present : Bool) (bpp : Nat) (old : Option Pixel) : Dec (Option Pixel) := fun bs =>
  if present then (readPixel bpp bs).map fun (p, r) => (some p, r) else some (old, bs)

/-- one tile of `tw × th` pixels -/
def decodeHextileTile (bpp tw th : Nat) (st : HexState) : Dec (List Pixel × HexState)
  | [] => none
  | m :: bs =>
    let m := m.toNat
    if m % 2 = 1 then
      (readPixels bpp (tw * th) bs).map fun (ps, r) => ((ps, st), r)
    else
      match optPixel (m / 2 % 2 = 1) bpp st.bg bs with
      | none => none
      | some (bg?, bs) =>
        match optPixel (m / 4 % 2 = 1) bpp st.fg bs with
        | none => none
        | some (fg?, bs) =>
          match bg? with
          | none => none
          | some bg =>
            let st' : HexState := ⟨some bg, fg?⟩
            if m / 8 % 2 = 1 then
              match readU8 bs with
              | none => none
              | some (n, bs) =>
                if m / 16 % 2 = 1 then
                  (readSubrects (readPixel bpp) readGeomHex tw th n bs).map fun (rs, r) =>
                    (((paintRects tw th bg rs).toList, st'), r)
                else
                  match fg? with
                  | none => none
                  | some fg =>
                    (readSubrects (fun b => some (fg, b)) readGeomHex tw th n bs).map
                      fun (rs, r) => (((paintRects tw th bg rs).toList, st'), r)
            else some (((Array.replicate (tw * th) bg).toList, st'), bs)

def decodeHextileTiles (bpp : Nat) : List TileRect → HexState → Dec (List (List Pixel))
  | [], _, bs => some ([], bs)
  | t :: ts, st, bs =>
    match decodeHextileTile bpp t.w t.h st bs with
    | none => none
    | some ((px, st), bs) =>
      (decodeHextileTiles bpp ts st bs).map fun (rest, r) => (px :: rest, r)

def decodeHextile (g : Geometry) (bpp : Nat) : Dec (List Pixel) := fun bs =>
  (decodeHextileTiles bpp (tileGrid 16 g) {} bs).map fun (tiles, r) => (assemble 16 g tiles, r)

/-! ## ZRLE / TRLE tiles -/

/-- CPIXEL ("compressed pixel"): either the full pixel of `n` bytes, or (32 bpp, depth ≤ 24) only
the first three / the last three of the four wire bytes, the dropped byte being zero -/
inductive CPix where
  | full (n : Nat)
  | lo3
  | hi3
deriving Repr, DecidableEq, Inhabited

def CPix.size : CPix → Nat
  | .full n => n
  | .lo3 => 3
  | .hi3 => 3

def readCPixel : CPix → Dec Pixel
  | .full n => readPixel n
  | .lo3 => readPixel 3
  | .hi3 => fun bs => (readPixel 3 bs).map fun (p, r) => (p * 256, r)

def readCPixels (cp : CPix) : Nat → Dec (List Pixel)
  | 0, bs => some ([], bs)
  | k + 1, bs =>
    match readCPixel cp bs with
    | none => none
    | some (p, bs) => (readCPixels cp k bs).map fun (ps, r) => (p :: ps, r)

/-- bits per packed palette index for a palette of `n` colours (2 ≤ n ≤ 16) -/
def packedBits (n : Nat) : Nat := if n ≤ 2 then 1 else if n ≤ 4 then 2 else 4

/-- the `count` indices of `bits` bits each (most significant first) stored in one padded row -/
def unpackRow (bits count : Nat) (row : Bytes) : List Nat :=
  (List.range count).map fun i =>
    ((row.getD (i * bits / 8) 0).toNat >>> (8 - bits - i * bits % 8)) % 2 ^ bits

def lookupAll (pal : List Pixel) : List Nat → Option (List Pixel)
  | [] => some []
  | i :: is =>
    match pal[i]? with
    | none => none
    | some p => (lookupAll pal is).map (p :: ·)

def decodePackedRows (bits tw : Nat) (pal : List Pixel) : Nat → Dec (List Pixel)
  | 0, bs => some ([], bs)
  | n + 1, bs =>
    match takeN ((tw * bits + 7) / 8) bs with
    | none => none
    | some (row, bs) =>
      match lookupAll pal (unpackRow bits tw row) with
      | none => none
      | some px => (decodePackedRows bits tw pal n bs).map fun (rest, r) => (px ++ rest, r)

/-- run length: bytes are summed until one is not 255; plus one -/
def readRunLen : Dec Nat
  | [] => none
  | b :: bs => if b = 255 then (readRunLen bs).map fun (n, r) => (n + 255, r)
               else some (b.toNat + 1, bs)

/-- plain RLE: (cpixel, run length)* until exactly `rem` pixels are produced -/
def decodePlainRLE (cp : CPix) : Nat → Nat → Dec (List Pixel)
  | _, 0, bs => some ([], bs)
  | 0, _ + 1, _ => none
  | f + 1, rem + 1, bs =>
    match readCPixel cp bs with
    | none => none
    | some (p, bs) =>
      match readRunLen bs with
      | none => none
      | some (len, bs) =>
        if len > rem + 1 then none else
        (decodePlainRLE cp f (rem + 1 - len) bs).map fun (rest, r) =>
          (List.replicate len p ++ rest, r)

/-- palette RLE: index byte < 128 = one pixel; otherwise index-128 followed by a run length -/
def decodePaletteRLE (pal : List Pixel) : Nat → Nat → Dec (List Pixel)
  | _, 0, bs => some ([], bs)
  | 0, _ + 1, _ => none
  | _ + 1, _ + 1, [] => none
  | f + 1, rem + 1, b :: bs =>
    if b.toNat < 128 then
      match pal[b.toNat]? with
      | none => none
      | some p => (decodePaletteRLE pal f rem bs).map fun (rest, r) => (p :: rest, r)
    else
      match pal[b.toNat - 128]? with
      | none => none
      | some p =>
        match readRunLen bs with
        | none => none
        | some (len, bs) =>
          if len > rem + 1 then none else
          (decodePaletteRLE pal f (rem + 1 - len) bs).map fun (rest, r) =>
            (List.replicate len p ++ rest, r)

/-- one ZRLE tile (sub-encodings 0, 1, 2‥16, 128, 130‥255; 17‥127 and 129 are unused in ZRLE) -/
def decodeZRLETile (cp : CPix) (tw th : Nat) : Dec (List Pixel)
  | [] => none
  | m :: bs =>
    let m := m.toNat
    if m = 0 then readCPixels cp (tw * th) bs
    else if m = 1 then (readCPixel cp bs).map fun (p, r) => (List.replicate (tw * th) p, r)
    else if m ≤ 16 then
      match readCPixels cp m bs with
      | none => none
      | some (pal, bs) => decodePackedRows (packedBits m) tw pal th bs
    else if m = 128 then decodePlainRLE cp (tw * th) (tw * th) bs
    else if m ≥ 130 then
      match readCPixels cp (m - 128) bs with
      | none => none
      | some (pal, bs) => decodePaletteRLE pal (tw * th) (tw * th) bs
    else none

/-- TRLE tile: as ZRLE plus "reuse the previous palette" (127 packed, 129 palette RLE).
State = palette of the last palettised tile.  Returns the pixels and the new palette state. -/
def decodeTRLETile (cp : CPix) (tw th : Nat) (prev : List Pixel) : Dec (List Pixel × List Pixel)
  | [] => none
  | m :: bs =>
    let m := m.toNat
    if m = 127 then
      if 2 ≤ prev.length ∧ prev.length ≤ 16 then
        (decodePackedRows (packedBits prev.length) tw prev th bs).map fun (px, r) => ((px, prev), r)
      else none
    else if m = 129 then
      if prev.length ≥ 2 then
        (decodePaletteRLE prev (tw * th) (tw * th) bs).map fun (px, r) => ((px, prev), r)
      else none
    else if 2 ≤ m ∧ m ≤ 16 then
      match readCPixels cp m bs with
      | none => none
      | some (pal, bs) =>
        (decodePackedRows (packedBits m) tw pal th bs).map fun (px, r) => ((px, pal), r)
    else if m ≥ 130 then
      match readCPixels cp (m - 128) bs with
      | none => none
      | some (pal, bs) =>
        (decodePaletteRLE pal (tw * th) (tw * th) bs).map fun (px, r) => ((px, pal), r)
    else (decodeZRLETile cp tw th (UInt8.ofNat m :: bs)).map fun (px, r) => ((px, prev), r)

def decodeZRLETiles (cp : CPix) : List TileRect → Dec (List (List Pixel))
  | [], bs => some ([], bs)
  | t :: ts, bs =>
    match decodeZRLETile cp t.w t.h bs with
    | none => none
    | some (px, bs) => (decodeZRLETiles cp ts bs).map fun (rest, r) => (px :: rest, r)

/-- uncompressed ZRLE tile data of a whole rectangle (64×64 tiles) -/
def decodeZRLEData (g : Geometry) (cp : CPix) : Dec (List Pixel) := fun bs =>
  (decodeZRLETiles cp (tileGrid 64 g) bs).map fun (tiles, r) => (assemble 64 g tiles, r)

def decodeTRLETiles (cp : CPix) : List TileRect → List Pixel → Dec (List (List Pixel))
  | [], _, bs => some ([], bs)
  | t :: ts, prev, bs =>
    match decodeTRLETile cp t.w t.h prev bs with
    | none => none
    | some ((px, pal), bs) => (decodeTRLETiles cp ts pal bs).map fun (rest, r) => (px :: rest, r)

/-- TRLE rectangle: 16×16 tiles, not compressed -/
def decodeTRLE (g : Geometry) (cp : CPix) : Dec (List Pixel) := fun bs =>
  (decodeTRLETiles cp (tileGrid 16 g) [] bs).map fun (tiles, r) => (assemble 16 g tiles, r)

/-! ## length-prefixed compressed containers: Zlib, Ultra, ZRLE -/

/-- `u32 length`, `length` bytes -/
def readChunk32 : Dec Bytes := fun bs =>
  match readU32 bs with
  | none => none
  | some (n, bs) => takeN n bs

/-- Zlib encoding: the inflated chunk is exactly the Raw encoding of the rectangle -/
def decodeZlib (inflate : Bytes → Option Bytes) (g : Geometry) (bpp : Nat) : Dec (List Pixel) :=
  fun bs =>
  match readChunk32 bs with
  | none => none
  | some (z, rest) =>
    match inflate z with
    | none => none
    | some raw =>
      match decodeRaw g bpp raw with
      | some (px, []) => some (px, rest)
      | _ => none

/-- Ultra encoding (LZO1X): same container, stateless decompressor -/
def decodeUltra (unlzo : Bytes → Option Bytes) (g : Geometry) (bpp : Nat) : Dec (List Pixel) :=
  decodeZlib unlzo g bpp

/-- ZRLE encoding: the inflated chunk is exactly the tile data -/
def decodeZRLE (inflate : Bytes → Option Bytes) (g : Geometry) (cp : CPix) : Dec (List Pixel) :=
  fun bs =>
  match readChunk32 bs with
  | none => none
  | some (z, rest) =>
    match inflate z with
    | none => none
    | some data =>
      match decodeZRLEData g cp data with
      | some (px, []) => some (px, rest)
      | _ => none

/-! ## pixel formats; the CPIXEL / TPIXEL rules -/

structure PixFmt where
  bpp : Nat          -- bits per pixel: 8, 16, 32
  depth : Nat
  bigEndian : Bool
  trueColour : Bool
  rMax : Nat
  gMax : Nat
  bMax : Nat
  rShift : Nat
  gShift : Nat
  bShift : Nat
deriving Repr, DecidableEq, Inhabited

def PixFmt.bytespp (f : PixFmt) : Nat := f.bpp / 8

/-- reverse the `n` base-256 digits -/
def bswap (n : Nat) (p : Nat) : Nat := pixOfBytes (pixBytes n p).reverse

/-- numeric pixel value of a `Pixel` (wire chunk) in format `f` -/
def PixFmt.value (f : PixFmt) (p : Pixel) : Nat := if f.bigEndian then bswap f.bytespp p else p
/-- and back -/
def PixFmt.ofValue (f : PixFmt) (v : Nat) : Pixel := if f.bigEndian then bswap f.bytespp v else v

/-- CPIXEL rule of ZRLE/TRLE (RFC 6143 §7.7.5): 3 bytes when bpp = 32, true colour, depth ≤ 24 and
all colour bits are in the least / most significant three bytes of the pixel value.
`lo3` = the first three wire bytes are sent, `hi3` = the last three.  (When both fit, the first
three wire bytes are taken — the RFC is silent, this is what the implementations do.) -/
def PixFmt.cpix (f : PixFmt) : CPix :=
  if f.bpp = 32 ∧ f.trueColour ∧ f.depth ≤ 24 then
    let ls := f.rMax <<< f.rShift < 2 ^ 24 ∧ f.gMax <<< f.gShift < 2 ^ 24 ∧ f.bMax <<< f.bShift < 2 ^ 24
    let ms := f.rShift > 7 ∧ f.gShift > 7 ∧ f.bShift > 7
    if (ls ∧ ¬ f.bigEndian) ∨ (ms ∧ f.bigEndian) then .lo3
    else if (ls ∧ f.bigEndian) ∨ (ms ∧ ¬ f.bigEndian) then .hi3
    else .full 4
  else .full f.bytespp

/-- the CPIXEL rule as implemented by libvncserver, LibVNCClient, TigerVNC and RealVNC's reference
code: the same as `cpix` but WITHOUT the test `depth ≤ 24` (a libvncserver screen announces depth 32
for its 8-8-8 format and still sends 3-byte CPIXELs; known finding `cpixel-depth`) -/
def PixFmt.cpixDeFacto (f : PixFmt) : CPix := ({ f with depth := min f.depth 24 } : PixFmt).cpix

/-- TPIXEL of Tight: the full pixel, or three bytes R,G,B when bpp = 32, depth = 24 and all three
maxima are 255 -/
inductive TPix where
  | full (n : Nat)
  | rgb (f : PixFmt)
deriving Repr, DecidableEq, Inhabited

def PixFmt.tpix (f : PixFmt) : TPix :=
  if f.bpp = 32 ∧ f.depth = 24 ∧ f.rMax = 255 ∧ f.gMax = 255 ∧ f.bMax = 255 then .rgb f
  else .full f.bytespp

def TPix.size : TPix → Nat
  | .full n => n
  | .rgb _ => 3

def readTPixel : TPix → Dec Pixel
  | .full n => readPixel n
  | .rgb f => fun
    | r :: g :: b :: rest =>
      some (f.ofValue ((r.toNat <<< f.rShift) ||| (g.toNat <<< f.gShift) ||| (b.toNat <<< f.bShift)), rest)
    | _ => none

def readTPixels (tp : TPix) : Nat → Dec (List Pixel)
  | 0, bs => some ([], bs)
  | k + 1, bs =>
    match readTPixel tp bs with
    | none => none
    | some (p, bs) => (readTPixels tp k bs).map fun (ps, r) => (p :: ps, r)

/-! ## Tight -/

/-- compact length: 1–3 bytes, 7+7+8 bits, least significant group first -/
def readCompactLen : Dec Nat
  | a :: bs =>
    if a.toNat < 128 then some (a.toNat, bs) else
    match bs with
    | b :: bs =>
      if b.toNat < 128 then some (a.toNat % 128 + b.toNat * 128, bs) else
      match bs with
      | c :: bs => some (a.toNat % 128 + (b.toNat % 128) * 128 + c.toNat * 16384, bs)
      | [] => none
    | [] => none
  | [] => none

/-- low four bits of the compression-control byte: streams the decoder must reset first -/
def tightResetMask : Bytes → Nat
  | [] => 0
  | c :: _ => c.toNat % 16

/-- minimum size from which Tight data is zlib-compressed -/
def tightMinToCompress : Nat := 12

/-- data block of a basic-compression rectangle: `size` bytes, raw when `size < 12`, otherwise
compact length + that many bytes, given to `infl` -/
def readTightData (infl : Bytes → Option Bytes) (size : Nat) : Dec Bytes := fun bs =>
  if size < tightMinToCompress then takeN size bs else
  match readCompactLen bs with
  | none => none
  | some (n, bs) =>
    match takeN n bs with
    | none => none
    | some (z, rest) =>
      match infl z with
      | none => none
      | some d => if d.length = size then some (d, rest) else none

/-- colour components of a pixel value -/
def PixFmt.comps (f : PixFmt) (p : Pixel) : Nat × Nat × Nat :=
  let v := f.value p
  ((v >>> f.rShift) % (f.rMax + 1), (v >>> f.gShift) % (f.gMax + 1), (v >>> f.bShift) % (f.bMax + 1))

def PixFmt.ofComps (f : PixFmt) (c : Nat × Nat × Nat) : Pixel :=
  f.ofValue ((c.1 <<< f.rShift) ||| (c.2.1 <<< f.gShift) ||| (c.2.2 <<< f.bShift))

/-- gradient filter, one component: prediction = clamp(left + up − upleft, 0, max) -/
def gradPredict (mx left up upleft : Nat) : Nat :=
  let s : Int := (left : Int) + up - upleft
  if s < 0 then 0 else if s > mx then mx else s.toNat

/-- undo the gradient filter on one row; `prev` = decoded previous row (components), `diffs` =
transmitted differences; `left`/`upleft` start at 0 -/
def gradRow (mx : Nat × Nat × Nat) :
    List (Nat × Nat × Nat) → List (Nat × Nat × Nat) → (Nat × Nat × Nat) → (Nat × Nat × Nat) →
    List (Nat × Nat × Nat)
  | [], _, _, _ => []
  | d :: ds, prev, left, upleft =>
    let up := prev.headD (0, 0, 0)
    let c : Nat × Nat × Nat :=
      ((d.1 + gradPredict mx.1 left.1 up.1 upleft.1) % (mx.1 + 1),
       (d.2.1 + gradPredict mx.2.1 left.2.1 up.2.1 upleft.2.1) % (mx.2.1 + 1),
       (d.2.2 + gradPredict mx.2.2 left.2.2 up.2.2 upleft.2.2) % (mx.2.2 + 1))
    c :: gradRow mx ds prev.tail c up

def gradRows (mx : Nat × Nat × Nat) (w : Nat) :
    Nat → List (Nat × Nat × Nat) → List (Nat × Nat × Nat) → List (Nat × Nat × Nat)
  | 0, _, _ => []
  | h + 1, diffs, prev =>
    let row := gradRow mx (diffs.take w) prev (0, 0, 0) (0, 0, 0)
    row ++ gradRows mx w h (diffs.drop w) row

/-- external still-image codecs of Tight (JPEG) / TightPng (PNG): parameters -/
structure TightCodecs where
  jpeg : Geometry → Bytes → Option (List Pixel) := fun _ _ => none
  png : Geometry → Bytes → Option (List Pixel) := fun _ _ => none
  /-- accept the TurboVNC "no zlib" extension (control 0xA / 0xE in Tight, data never deflated).
  NOT part of the RFB specification; libvncserver emits it for CompressLevel 0. -/
  allowNoZlib : Bool := false
  /-- TightPng: control 0xA is PNG -/
  isPng : Bool := false

/-- one Tight / TightPng rectangle.  `infl id chunk` feeds `chunk` to zlib stream `id` (0‥3). -/
def decodeTight (cd : TightCodecs) (infl : Nat → Bytes → Option Bytes) (f : PixFmt) (g : Geometry) :
    Dec (List Pixel)
  | [] => none
  | c :: bs =>
    let tp := f.tpix
    let t := c.toNat / 16
    let n := g.w * g.h
    if t = 8 then (readTPixel tp bs).map fun (p, r) => (List.replicate n p, r)
    else if t = 9 then
      match readCompactLen bs with
      | none => none
      | some (len, bs) =>
        match takeN len bs with
        | none => none
        | some (d, rest) => (cd.jpeg g d).map fun px => (px, rest)
    else if t = 10 ∧ cd.isPng then
      match readCompactLen bs with
      | none => none
      | some (len, bs) =>
        match takeN len bs with
        | none => none
        | some (d, rest) => (cd.png g d).map fun px => (px, rest)
    else
      -- basic compression (t < 8), or the "no zlib" extension (t = 10 / 14)
      let nozlib := t = 10 ∨ t = 14
      if t ≥ 8 ∧ ¬ (nozlib ∧ cd.allowNoZlib ∧ ¬ cd.isPng) then none else
      let inflate : Bytes → Option Bytes := if nozlib then some else infl (t % 4)
      let explicit := t / 4 % 2 = 1
      match (if explicit then readU8 bs else some (0, bs)) with
      | none => none
      | some (filter, bs) =>
        if filter = 0 then
          match readTightData inflate (n * tp.size) bs with
          | none => none
          | some (d, rest) =>
            match readTPixels tp n d with
            | some (px, []) => some (px, rest)
            | _ => none
        else if filter = 1 then
          match readU8 bs with
          | none => none
          | some (nc1, bs) =>
            let nc := nc1 + 1
            match readTPixels tp nc bs with
            | none => none
            | some (pal, bs) =>
              if nc = 2 then
                match readTightData inflate ((g.w + 7) / 8 * g.h) bs with
                | none => none
                | some (d, rest) =>
                  match decodePackedRows 1 g.w pal g.h d with
                  | some (px, []) => some (px, rest)
                  | _ => none
              else
                match readTightData inflate n bs with
                | none => none
                | some (d, rest) => (lookupAll pal (d.map (·.toNat))).map fun px => (px, rest)
        else if filter = 2 then
          match readTightData inflate (n * tp.size) bs with
          | none => none
          | some (d, rest) =>
            match readTPixels tp n d with
            | some (dpx, []) =>
              -- differences are transmitted per component in the TPIXEL layout
              let mx := (f.rMax, f.gMax, f.bMax)
              let comps := gradRows mx g.w g.h (dpx.map f.comps) []
              some (comps.map f.ofComps, rest)
            | _ => none
        else none

/-! ## rectangle header and dispatcher -/

structure RectHdr where
  x : Nat
  y : Nat
  w : Nat
  h : Nat
  enc : Nat      -- encoding number as unsigned 32 bit
deriving Repr, DecidableEq, Inhabited

def readRectHdr : Dec RectHdr := fun bs =>
  match readGeom16 bs with
  | none => none
  | some ((x, y, w, h), bs) => (readU32 bs).map fun (e, r) => (⟨x, y, w, h, e⟩, r)

def encRaw : Nat := 0
def encCopyRect : Nat := 1
def encRRE : Nat := 2
def encCoRRE : Nat := 4
def encHextile : Nat := 5
def encZlib : Nat := 6
def encTight : Nat := 7
def encUltra : Nat := 9
def encTRLE : Nat := 15
def encZRLE : Nat := 16
def encZYWRLE : Nat := 17
def encTightPng : Nat := 0xFFFFFEFC
def encLastRect : Nat := 0xFFFFFF20

/-- decompressors a connection needs -/
structure Codecs where
  zlib : Bytes → Option Bytes := some          -- stream of the Zlib encoding
  zrle : Bytes → Option Bytes := some          -- stream of ZRLE
  tight : Nat → Bytes → Option Bytes := fun _ => some
  lzo : Bytes → Option Bytes := some
  still : TightCodecs := {}
  /-- use `PixFmt.cpixDeFacto` instead of the RFC's `PixFmt.cpix` for ZRLE/TRLE -/
  cpixDeFacto : Bool := false

/-- payload of one pixel-data rectangle in the given encoding -/
def decodeRect (cd : Codecs) (f : PixFmt) (enc : Nat) (g : Geometry) : Dec (List Pixel) :=
  if enc = encRaw then decodeRaw g f.bytespp
  else if enc = encRRE then decodeRRE g f.bytespp
  else if enc = encCoRRE then decodeCoRRE g f.bytespp
  else if enc = encHextile then decodeHextile g f.bytespp
  else if enc = encZlib then decodeZlib cd.zlib g f.bytespp
  else if enc = encUltra then decodeUltra cd.lzo g f.bytespp
  else if enc = encZRLE then decodeZRLE cd.zrle g (if cd.cpixDeFacto then f.cpixDeFacto else f.cpix)
  else if enc = encTRLE then decodeTRLE g (if cd.cpixDeFacto then f.cpixDeFacto else f.cpix)
  else if enc = encTight then decodeTight { cd.still with isPng := false } cd.tight f g
  else if enc = encTightPng then decodeTight { cd.still with isPng := true } cd.tight f g
  else fun _ => none

end VncModel.Enc.Spec
