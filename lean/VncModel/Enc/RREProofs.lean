import VncModel.Enc.SubrectProofs
/-! `decode (server RRE / CoRRE output) = input` for the faithful models. -/
namespace VncModel.Enc.Server
open VncModel.Enc VncModel.Enc.Spec

theorem pixOK_zero (bpp : Nat) : PixOK bpp 0 := by
  unfold PixOK; exact Nat.pow_pos (by decide)

theorem getBgColour8_mem (px : List Pixel) : getBgColour8 px = 0 ∨ getBgColour8 px ∈ px := by
  unfold getBgColour8
  suffices H : ∀ (l : List Pixel) (st : Array Nat × Nat × Pixel), (st.2.2 = 0 ∨ st.2.2 ∈ px) →
      (∀ k ∈ l, k ∈ px) →
      ((l.foldl (fun (st : Array Nat × Nat × Pixel) k =>
        let cnt := st.1.getD k 0 + 1
        let counts := st.1.setIfInBounds k cnt
        if cnt > st.2.1 then (counts, cnt, k) else (counts, st.2.1, st.2.2)) st).2.2 = 0 ∨
       (l.foldl (fun (st : Array Nat × Nat × Pixel) k =>
        let cnt := st.1.getD k 0 + 1
        let counts := st.1.setIfInBounds k cnt
        if cnt > st.2.1 then (counts, cnt, k) else (counts, st.2.1, st.2.2)) st).2.2 ∈ px) by
    exact H px _ (Or.inl rfl) (fun k hk => hk)
  intro l
  induction l with
  | nil => intro st h _; exact h
  | cons k l ih =>
    intro st h hl
    simp only [List.foldl_cons]
    apply ih
    · split
      · right; exact hl k (by simp)
      · exact h
    · intro q hq; exact hl q (by simp [hq])

theorem getBgColour_ok (bpp : Nat) (px : List Pixel) (h : ∀ p ∈ px, PixOK bpp p) :
    PixOK bpp (getBgColour bpp px) := by
  unfold getBgColour
  split
  · rcases getBgColour8_mem px with h0 | h0
    · rw [h0]; exact pixOK_zero _
    · exact h _ h0
  · cases px with
    | nil => exact pixOK_zero _
    | cons p ps => exact h p (by simp)

theorem toArray_getD (px : List Pixel) (i : Nat) : px.toArray.getD i 0 = px.getD i 0 := by
  simp [Array.getD_eq_getD_getElem?, List.getD_eq_getElem?_getD]

theorem getD_mem (px : List Pixel) (i : Nat) (h : i < px.length) : px.getD i 0 ∈ px := by
  simp [List.getD_eq_getElem?_getD, h]

/-- the painted sub-rectangles of a successful `subrectEncode` are the input, as a list -/
theorem paint_eq_input (w h : Nat) (bg : Pixel) (px : List Pixel) (rs : List Subrect)
    (hlen : px.length = w * h)
    (post : LoopPost w h bg (fun i => px.toArray.getD i 0) rs) :
    (paintRects w h bg rs).toList = px := by
  apply toList_eq_of_getD
  · rw [size_paintRects, hlen]
  · intro i hi
    rw [post.paint i (by omega), toArray_getD]

/-- sub-rectangles of a successful `subrectEncode` satisfy the reader/writer law for RRE's 16-bit
geometry fields when the rectangle is at most 65535 wide/high -/
theorem subcodec16 (bpp w h : Nat) (bg : Pixel) (px : List Pixel) (rs : List Subrect)
    (hlen : px.length = w * h) (hpx : ∀ p ∈ px, PixOK bpp p) (hw : w < 65536) (hh : h < 65536)
    (post : LoopPost w h bg (fun i => px.toArray.getD i 0) rs) :
    ∀ r ∈ rs, SubCodec (readPixel bpp) readGeom16 (pixBytes bpp) geom16 w h r := by
  intro r hr
  obtain ⟨h1, h2, h3, h4, _, i, hi, hc⟩ := post.wf r hr
  refine ⟨?_, ?_, ⟨h1, h2⟩⟩
  · intro t; apply readPixel_pixBytes
    rw [hc, toArray_getD]; exact hpx _ (getD_mem px i (by omega))
  · intro t; apply readGeom16_geom16; simp only; omega

theorem subcodec8 (bpp w h : Nat) (bg : Pixel) (px : List Pixel) (rs : List Subrect)
    (hlen : px.length = w * h) (hpx : ∀ p ∈ px, PixOK bpp p) (hw : w < 256) (hh : h < 256)
    (post : LoopPost w h bg (fun i => px.toArray.getD i 0) rs) :
    ∀ r ∈ rs, SubCodec (readPixel bpp) readGeom8 (pixBytes bpp) geom8 w h r := by
  intro r hr
  obtain ⟨h1, h2, h3, h4, _, i, hi, hc⟩ := post.wf r hr
  refine ⟨?_, ?_, ⟨h1, h2⟩⟩
  · intro t; apply readPixel_pixBytes
    rw [hc, toArray_getD]; exact hpx _ (getD_mem px i (by omega))
  · intro t; apply readGeom8_geom8; simp only; omega

/-- number of sub-rectangles of a successful encode fits the 32-bit `nSubrects` field -/
theorem rre_count_bound (w h bpp gsz : Nat) (rs : List Subrect) (len : Nat)
    (hw : w < 65536) (hh : h < 65536) (hb : 1 ≤ bpp)
    (hl : len = bpp + (bpp + gsz) * rs.length) (hlim : 0 < rs.length → len ≤ w * h * bpp) :
    rs.length < 4294967296 := by
  rcases Nat.eq_zero_or_pos rs.length with h0 | h0
  · omega
  · have h1 := hlim h0
    have h2 : w * h < 65536 * 65536 := by
      calc w * h ≤ 65535 * h := Nat.mul_le_mul_right _ (by omega)
        _ ≤ 65535 * 65535 := Nat.mul_le_mul_left _ (by omega)
        _ < 65536 * 65536 := by decide
    have h3 : bpp * rs.length ≤ (bpp + gsz) * rs.length := Nat.mul_le_mul_right _ (by omega)
    have h4 : bpp * rs.length ≤ bpp * (w * h) := by rw [Nat.mul_comm bpp (w * h)]; omega
    have := Nat.le_of_mul_le_mul_left h4 hb
    omega

theorem serverRRE_decodes (bpp : Nat) (g : Geometry) (px : List Pixel) (rest bytes : Bytes)
    (hb : 1 ≤ bpp) (hlen : px.length = g.w * g.h) (hpx : ∀ p ∈ px, PixOK bpp p)
    (hw : g.w < 65536) (hh : g.h < 65536)
    (hres : serverRRE bpp g px = some bytes) :
    decodeRRE g bpp (bytes ++ rest) = some (px, rest) := by
  unfold serverRRE rreEncode at hres
  cases hse : subrectEncode g.w g.h (getBgColour bpp px) (bpp + 8) (g.w * g.h * bpp) bpp px.toArray with
  | none => simp [hse] at hres
  | some v =>
    obtain ⟨rs, len⟩ := v
    simp only [hse, Option.map_some, Option.some.injEq] at hres
    subst hres
    obtain ⟨post, hl, hlim⟩ := subrectEncode_spec g.w g.h _ _ _ _ px.toArray (by simp [hlen]) rs len hse
    unfold decodeRRE
    rw [decodeRREWith_serialize g bpp _ rs rest
      (rre_count_bound g.w g.h bpp 8 rs len hw hh hb hl hlim) (getBgColour_ok bpp px hpx)
      (subcodec16 bpp g.w g.h _ px rs hlen hpx hw hh post)]
    rw [paint_eq_input g.w g.h _ px rs hlen post]

theorem serverCoRRE_decodes (bpp : Nat) (g : Geometry) (px : List Pixel) (rest bytes : Bytes)
    (hb : 1 ≤ bpp) (hlen : px.length = g.w * g.h) (hpx : ∀ p ∈ px, PixOK bpp p)
    (hw : g.w < 256) (hh : g.h < 256)
    (hres : serverCoRRE bpp g px = some bytes) :
    decodeCoRRE g bpp (bytes ++ rest) = some (px, rest) := by
  unfold serverCoRRE rreEncode at hres
  cases hse : subrectEncode g.w g.h (getBgColour bpp px) (bpp + 4) (g.w * g.h * bpp) bpp px.toArray with
  | none => simp [hse] at hres
  | some v =>
    obtain ⟨rs, len⟩ := v
    simp only [hse, Option.map_some, Option.some.injEq] at hres
    subst hres
    obtain ⟨post, hl, hlim⟩ := subrectEncode_spec g.w g.h _ _ _ _ px.toArray (by simp [hlen]) rs len hse
    unfold decodeCoRRE
    rw [decodeRREWith_serialize g bpp _ rs rest
      (rre_count_bound g.w g.h bpp 4 rs len (by omega) (by omega) hb hl hlim) (getBgColour_ok bpp px hpx)
      (subcodec8 bpp g.w g.h _ px rs hlen hpx hw hh post)]
    rw [paint_eq_input g.w g.h _ px rs hlen post]


/-- every piece `rfbSendRectEncodingCoRRE` hands to the small-rectangle encoder is at most
`correMaxWidth × correMaxHeight` -/
theorem correSplit_small (mw mh : Nat) : ∀ (f x y w h : Nat),
    ∀ r ∈ correSplit mw mh f x y w h, r.w ≤ mw ∧ r.h ≤ mh := by
  intro f
  induction f with
  | zero => intro x y w h r hr; simp [correSplit] at hr
  | succ f ih =>
    intro x y w h r hr
    simp only [correSplit] at hr
    split at hr
    · rcases List.mem_append.mp hr with e | e
      · exact ih _ _ _ _ r e
      · exact ih _ _ _ _ r e
    · split at hr
      · rcases List.mem_append.mp hr with e | e
        · exact ih _ _ _ _ r e
        · exact ih _ _ _ _ r e
      · simp at hr; subst hr; simp only; omega

end VncModel.Enc.Server
