import VncModel.Enc.Server
/-!
# The pieces of CoRRE / Zlib / Ultra rectangle splitting tile the rectangle exactly

`cover pieces p` counts the pieces that contain the point `p`.  `*_pieces_tile`: it is 1 for every
point of the rectangle and 0 for every other point — i.e. the pieces are inside the rectangle,
pairwise disjoint, and cover it.
-/
namespace VncModel.Enc.Server
open VncModel.Enc VncModel.Enc.Spec

/-- point `(px,py)` lies in the tile -/
def InTile (t : TileRect) (px py : Nat) : Prop :=
  t.x ≤ px ∧ px < t.x + t.w ∧ t.y ≤ py ∧ py < t.y + t.h

instance (t : TileRect) (px py : Nat) : Decidable (InTile t px py) := by unfold InTile; infer_instance

/-- number of pieces that contain the point -/
def cover (ts : List TileRect) (px py : Nat) : Nat := ts.countP fun t => decide (InTile t px py)

theorem cover_append (a b : List TileRect) (px py : Nat) :
    cover (a ++ b) px py = cover a px py + cover b px py := by simp [cover, List.countP_append]

theorem cover_single (t : TileRect) (px py : Nat) :
    cover [t] px py = if InTile t px py then 1 else 0 := by
  simp only [cover, List.countP_cons, List.countP_nil, Nat.zero_add]
  split <;> simp_all

theorem ite_sum (A B C : Prop) [Decidable A] [Decidable B] [Decidable C] (h : C ↔ (A ∨ B))
    (hd : ¬ (A ∧ B)) : ((if A then 1 else 0) + if B then 1 else 0) = if C then 1 else 0 := by
  by_cases hA : A <;> by_cases hB : B <;> by_cases hC : C <;> simp_all

/-- **CoRRE**: `rfbSendRectEncodingCoRRE`'s pieces tile the rectangle (any position, any size, any
positive `correMaxWidth/Height`; the fuel `w + h < f` is what the recursion needs) -/
theorem correSplit_cover (mw mh : Nat) (hmw : 1 ≤ mw) (hmh : 1 ≤ mh) :
    ∀ (f x y w h px py : Nat), w + h < f →
      cover (correSplit mw mh f x y w h) px py = if InTile ⟨x, y, w, h⟩ px py then 1 else 0 := by
  intro f
  induction f with
  | zero => intro x y w h px py hf; omega
  | succ f ih =>
    intro x y w h px py hf
    simp only [correSplit]
    by_cases hh : h > mh
    · simp only [hh, if_true, cover_append]
      rw [ih x y w mh px py (by omega), ih x (y + mh) w (h - mh) px py (by omega)]
      apply ite_sum <;> (unfold InTile; simp only; omega)
    · simp only [hh, if_false]
      by_cases hw : w > mw
      · simp only [hw, if_true, cover_append]
        rw [ih x y mw h px py (by omega), ih (x + mw) y (w - mw) h px py (by omega)]
        apply ite_sum <;> (unfold InTile; simp only; omega)
      · simp only [hw, if_false, cover_single]

/-- `ZLIB_MAX_SIZE(w) / w ≥ 1`: the row loop of zlib.c / ultra.c always makes progress -/
theorem zlibMaxLines_pos (w : Nat) (hw : 0 < w) : 1 ≤ zlibMaxSize w / w := by
  unfold zlibMaxSize
  split
  · apply Nat.le_div_iff_mul_le hw |>.mpr; omega
  · apply Nat.le_div_iff_mul_le hw |>.mpr; omega

/-- **Zlib / Ultra**: the row pieces tile the rectangle -/
theorem zlibSplit_cover (x w maxLines : Nat) (hm : 1 ≤ maxLines) :
    ∀ (f y rem px py : Nat), rem ≤ f →
      cover (zlibSplit x w maxLines f y rem) px py = if InTile ⟨x, y, w, rem⟩ px py then 1 else 0 := by
  intro f
  induction f with
  | zero =>
    intro y rem px py hf
    have : rem = 0 := by omega
    subst this
    have hn : ¬ InTile ⟨x, y, w, 0⟩ px py := by unfold InTile; simp only; omega
    simp [zlibSplit, cover, hn]
  | succ f ih =>
    intro y rem px py hf
    simp only [zlibSplit]
    by_cases h0 : rem = 0
    · subst h0
      have hn : ¬ InTile ⟨x, y, w, 0⟩ px py := by unfold InTile; simp only; omega
      simp [cover, hn]
    · simp only [h0, if_false]
      have hc : cover (⟨x, y, w, if maxLines < rem then maxLines else rem⟩ ::
          zlibSplit x w maxLines f (y + if maxLines < rem then maxLines else rem)
            (rem - if maxLines < rem then maxLines else rem)) px py =
          cover [⟨x, y, w, if maxLines < rem then maxLines else rem⟩] px py +
          cover (zlibSplit x w maxLines f (y + if maxLines < rem then maxLines else rem)
            (rem - if maxLines < rem then maxLines else rem)) px py := by
        rw [← cover_append]; rfl
      rw [hc, cover_single, ih _ _ px py (by split <;> omega)]
      apply ite_sum <;> (unfold InTile; simp only; split <;> omega)

end VncModel.Enc.Server
