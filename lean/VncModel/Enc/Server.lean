import VncModel.Enc.Ref
/-!
# Faithful models of the server encoders (C01)

Models of the code in `/repo/src/libvncserver` — bug for bug, loop for loop.  Pixels are the values
the C code reads through `uintN_t*` from its client-format buffers on a little-endian host
(= `Spec.Pixel`).

* `runLen`, `scanRows`, `findRect`, `subrectLoop`: the `subrectEncode##bpp` functions of `rre.c`,
  `corre.c`, `hextile.c` (they share the search for the two candidate rectangles `hx/hy`, `vx/vy`,
  the tie-break `hw*hh > vw*vh`, the size test and the in-place "mark the subrect as done").
-/
namespace VncModel.Enc.Server
open VncModel.Enc VncModel.Enc.Spec

/-- `i = x; while ((i < w) && (seg[i] == cl)) i += 1;` — number of cells, from column `i` on, of
the row starting at flat index `base` that equal `c` (`fuel` = `w - i`) -/
def runLen (d : Array Pixel) (base : Nat) (c : Pixel) : Nat → Nat → Nat
  | 0, _ => 0
  | f + 1, i => if d.getD (base + i) 0 = c then runLen d base c f (i + 1) + 1 else 0

/-- loop state of the row scan `for (j=y; j<h; j++)`: `hx`, `vx` as in the C code, `hh = hy-y+1`,
`hflag = hyflag`, `rows = j - y` (so `vy = y + rows - 1`, and `j == y` iff `rows = 0`) -/
structure Scan where
  hx : Nat
  vx : Nat
  hh : Nat
  hflag : Bool
  rows : Nat
deriving Repr, DecidableEq

def scanRows (d : Array Pixel) (w x : Nat) (c : Pixel) : Nat → Nat → Scan → Scan
  | 0, _, s => s
  | f + 1, j, s =>
    if d.getD (j * w + x) 0 ≠ c then s else
    let i := x + runLen d (j * w) c (w - x) x - 1
    let hx := if s.rows = 0 then i else s.hx
    let vx0 := if s.rows = 0 then i else s.vx
    let vx := if i < vx0 then i else vx0
    if s.hflag ∧ i ≥ hx then scanRows d w x c f (j + 1) ⟨hx, vx, s.hh + 1, true, s.rows + 1⟩
    else scanRows d w x c f (j + 1) ⟨hx, vx, s.hh, false, s.rows + 1⟩

/-- the sub-rectangle (width, height) chosen at anchor `x,y` whose pixel is `c` -/
def findRect (d : Array Pixel) (w h x y : Nat) (c : Pixel) : Nat × Nat :=
  let s := scanRows d w x c (h - y) y ⟨0, 0, 0, true, 0⟩
  let hw := s.hx - x + 1
  let vw := s.vx - x + 1
  if hw * s.hh > vw * s.rows then (hw, s.hh) else (vw, s.rows)

/-- the double loop `for y, for x` of `subrectEncode`, as one walk over the flat positions.
`ssz` = bytes one sub-rectangle adds, `len` = the length the size test looks at, `limit` = the
size of the raw data; `none` = "encoding was too large, use raw".  Sub-rectangles are accumulated
in reverse. -/
def subrectLoop (w h : Nat) (bg : Pixel) (ssz limit : Nat) :
    Nat → Nat → Array Pixel → List Subrect → Nat → Option (List Subrect × Nat)
  | 0, _, _, acc, len => some (acc.reverse, len)
  | f + 1, p, d, acc, len =>
    let c := d.getD p 0
    if c = bg then subrectLoop w h bg ssz limit f (p + 1) d acc len
    else
      let x := p % w
      let y := p / w
      let r := findRect d w h x y c
      if len + ssz > limit then none
      else subrectLoop w h bg ssz limit f (p + 1) (fillRect d w x y r.1 r.2 bg)
             (⟨c, x, y, r.1, r.2⟩ :: acc) (len + ssz)

/-- `subrectEncode` of rre.c / corre.c / hextile.c on a `w × h` pixel array -/
def subrectEncode (w h : Nat) (bg : Pixel) (ssz limit len0 : Nat) (d : Array Pixel) :
    Option (List Subrect × Nat) :=
  subrectLoop w h bg ssz limit (w * h) 0 d [] len0

/-! ### RRE / CoRRE (`rre.c`, `corre.c`) -/

/-- `getBgColour`: for 8 bpp the first colour (in scan order) whose running count exceeds every
count seen so far; for 16/32 bpp simply the first pixel -/
def getBgColour8 (px : List Pixel) : Pixel :=
  let st := px.foldl (fun (st : Array Nat × Nat × Pixel) k =>
      let cnt := st.1.getD k 0 + 1
      let counts := st.1.setIfInBounds k cnt
      if cnt > st.2.1 then (counts, cnt, k) else (counts, st.2.1, st.2.2))
    (Array.replicate 256 0, 0, 0)
  st.2.2

def getBgColour (bpp : Nat) (px : List Pixel) : Pixel :=
  if bpp = 1 then getBgColour8 px else px.headD 0

/-- `subrectEncode##bpp` of rre.c (gsz = 8) / corre.c (gsz = 4): background and sub-rectangles, or
`none` = "RRE encoding was too large, use raw".  (`afterEncBufSize` ≥ the raw size of the
rectangle because the buffer is sized for the whole screen, so the second half of the C size test
never fires.) -/
def rreEncode (gsz bpp : Nat) (g : Geometry) (px : List Pixel) : Option (Pixel × List Subrect) :=
  let bg := getBgColour bpp px
  match subrectEncode g.w g.h bg (bpp + gsz) (g.w * g.h * bpp) bpp px.toArray with
  | none => none
  | some (rs, _) => some (bg, rs)

/-- payload of an RRE rectangle (`nSubrects`, background, sub-rectangles), `none` = Raw is sent -/
def serverRRE (bpp : Nat) (g : Geometry) (px : List Pixel) : Option Bytes :=
  (rreEncode 8 bpp g px).map fun (bg, rs) => serializeRRE geom16 bpp bg rs

def serverCoRRE (bpp : Nat) (g : Geometry) (px : List Pixel) : Option Bytes :=
  (rreEncode 4 bpp g px).map fun (bg, rs) => serializeRRE geom8 bpp bg rs

/-- `rfbSendRectEncodingCoRRE`: split into pieces of at most `mw × mh` (first by height, the
upper part first, then by width) -/
def correSplit (mw mh : Nat) : Nat → Nat → Nat → Nat → Nat → List TileRect
  | 0, _, _, _, _ => []
  | f + 1, x, y, w, h =>
    if h > mh then correSplit mw mh f x y w mh ++ correSplit mw mh f x (y + mh) w (h - mh)
    else if w > mw then correSplit mw mh f x y mw h ++ correSplit mw mh f (x + mw) y (w - mw) h
    else [⟨x, y, w, h⟩]

/-! ### Hextile (`hextile.c`) -/

/-- the pixels of tile `t` of a row-major image with row length `W` (what `translateFn` delivers
for the tile: the server translates tile by tile) -/
def extractTile (px : Array Pixel) (W : Nat) (t : TileRect) : List Pixel :=
  (List.range (t.w * t.h)).map fun j => px.getD ((t.y + j / t.w) * W + (t.x + j % t.w)) 0

/-- loop of `testColours##bpp`: state `colour1 colour2 n1 n2 solid`; result adds `mono` -/
def testColoursLoop : List Pixel → Pixel → Pixel → Nat → Nat → Bool →
    Pixel × Pixel × Nat × Nat × Bool × Bool
  | [], c1, c2, n1, n2, solid => (c1, c2, n1, n2, solid, true)
  | p :: ps, c1, c2, n1, n2, solid =>
    let c1 := if n1 = 0 then p else c1
    if p = c1 then testColoursLoop ps c1 c2 (n1 + 1) n2 solid
    else
      let solid := if n2 = 0 then false else solid
      let c2 := if n2 = 0 then p else c2
      if p = c2 then testColoursLoop ps c1 c2 n1 (n2 + 1) solid
      else (c1, c2, n1, n2, solid, false)

structure TestColours where
  mono : Bool
  solid : Bool
  bg : Pixel
  fg : Pixel
deriving Repr, DecidableEq

def testColours (px : List Pixel) : TestColours :=
  match testColoursLoop px 0 0 0 0 true with
  | (c1, c2, n1, n2, solid, mono) =>
    if n1 > n2 then ⟨mono, solid, c1, c2⟩ else ⟨mono, solid, c2, c1⟩

/-- `validBg, bg, validFg, fg` of `sendHextiles##bpp` -/
structure HexSrv where
  validBg : Bool := false
  bg : Pixel := 0
  validFg : Bool := false
  fg : Pixel := 0
deriving Repr, DecidableEq

/-- one iteration of the tile loop of `sendHextiles##bpp`: bytes appended to `updateBuf`, new
state -/
def hextileTile (bpp tw th : Nat) (px : List Pixel) (st : HexSrv) : Bytes × HexSrv :=
  let tc := testColours px
  let newBg := !st.validBg || tc.bg != st.bg
  let st1 : HexSrv := if newBg then { st with validBg := true, bg := tc.bg } else st
  let bgBytes := if newBg then pixBytes bpp tc.bg else []
  let f1 := if newBg then 2 else 0
  if tc.solid then (u8 f1 ++ bgBytes, st1)
  else
    let newFg := tc.mono && (!st1.validFg || tc.fg != st1.fg)
    let st2 : HexSrv :=
      if tc.mono then (if newFg then { st1 with validFg := true, fg := tc.fg } else st1)
      else { st1 with validFg := false }
    let fgBytes := if newFg then pixBytes bpp tc.fg else []
    let f2 := if tc.mono then (if newFg then 4 else 0) else 16
    match subrectEncode tw th st2.bg (if tc.mono then 2 else bpp + 2) (tw * th * bpp) 1 px.toArray with
    | some (rs, _) =>
      (u8 (f1 + 8 + f2) ++ bgBytes ++ fgBytes ++ u8 rs.length ++
        subrectsBytes (if tc.mono then fun _ => [] else pixBytes bpp) geomHex rs, st2)
    | none => (u8 1 ++ pixelsBytes bpp px, { st2 with validBg := false, validFg := false })

def hextileTiles (bpp W : Nat) (px : Array Pixel) : List TileRect → HexSrv → Bytes
  | [], _ => []
  | t :: ts, st =>
    let r := hextileTile bpp t.w t.h (extractTile px W t) st
    r.1 ++ hextileTiles bpp W px ts r.2

/-- payload of a Hextile rectangle -/
def serverHextile (bpp : Nat) (g : Geometry) (px : List Pixel) : Bytes :=
  hextileTiles bpp g.w px.toArray (tileGrid 16 g) {}

/-! ### ZRLE (`zrle.c`, `zrleencodetemplate.c`, `zrlepalettehelper.c`) -/

/-- the bytes `zrleOutStreamWRITE_PIXEL` writes: the whole pixel, or (24A) wire bytes 0‥2, or
(24B) wire bytes 1‥3 -/
def cpixBytes : CPix → Pixel → Bytes
  | .full n, p => pixBytes n p
  | .lo3, p => pixBytes 3 p
  | .hi3, p => pixBytes 3 (p / 256)

/-- maximal runs of equal pixels, in order: (pixel, length) -/
def runsOf : List Pixel → List (Pixel × Nat)
  | [] => []
  | p :: ps =>
    match runsOf ps with
    | (q, n) :: rest => if p = q then (q, n + 1) :: rest else (p, 1) :: (q, n) :: rest
    | [] => [(p, 1)]

/-- `zrlePaletteHelperInsert` (the hash table is abstracted to "is it in the palette"): while fewer
than 127 entries a new colour is appended and `size` grows, a known colour changes nothing; from
127 on `size` grows on every call -/
def paletteInsert (st : List Pixel × Nat) (p : Pixel) : List Pixel × Nat :=
  if st.2 < 127 then (if st.1.contains p then st else (st.1 ++ [p], st.2 + 1)) else (st.1, st.2 + 1)

/-- first pass of `ZRLE_ENCODE_TILE`: `runs`, `singlePixels`, palette, `ph->size` -/
def zrleStats (rl : List (Pixel × Nat)) : Nat × Nat × List Pixel × Nat :=
  rl.foldl (fun st r =>
      let ps := paletteInsert (st.2.2.1, st.2.2.2) r.1
      if r.2 = 1 then (st.1, st.2.1 + 1, ps.1, ps.2) else (st.1 + 1, st.2.1, ps.1, ps.2))
    (0, 0, [], 0)

def bitsPerPackedPixel (size : Nat) : Nat :=
  [0, 1, 2, 2, 4, 4, 4, 4, 4, 4, 4, 4, 4, 4, 4, 4].getD (size - 1) 0

/-- `zrlePaletteHelperLookup` -/
def paletteIndex (pal : List Pixel) (p : Pixel) : Nat := pal.idxOf p

/-- run length bytes: `len -= 1; while (len >= 255) { write 255; len -= 255 } write len` -/
def runLenBytes : Nat → Nat → Bytes
  | 0, n => [UInt8.ofNat n]
  | f + 1, n => if n ≥ 255 then 255 :: runLenBytes f (n - 255) else [UInt8.ofNat n]

def zrleRleBytes (cp : CPix) (usePalette : Bool) (pal : List Pixel) : List (Pixel × Nat) → Bytes
  | [] => []
  | (p, len) :: rest =>
    (if len ≤ 2 ∧ usePalette then
      (if len = 2 then [UInt8.ofNat (paletteIndex pal p)] else []) ++ [UInt8.ofNat (paletteIndex pal p)]
    else
      (if usePalette then [UInt8.ofNat (paletteIndex pal p + 128)] else cpixBytes cp p) ++
        runLenBytes (len - 1) (len - 1)) ++
    zrleRleBytes cp usePalette pal rest

/-- packed-pixel row loop: `byte`, `nbits` as in the C code (the byte is not cleared after it is
written; it is 8 bits wide) -/
def packRow (bits : Nat) : List Nat → Nat → Nat → Bytes
  | [], byte, nbits => if nbits > 0 then [UInt8.ofNat ((byte <<< (8 - nbits)) % 256)] else []
  | i :: is, byte, nbits =>
    let byte := ((byte <<< bits) ||| (i % 256)) % 256
    if nbits + bits ≥ 8 then UInt8.ofNat byte :: packRow bits is byte 0
    else packRow bits is byte (nbits + bits)

def packRows (bits tw : Nat) (pal : List Pixel) : Nat → List Pixel → Bytes
  | 0, _ => []
  | h + 1, px => packRow bits ((px.take tw).map (paletteIndex pal)) 0 0 ++ packRows bits tw pal h (px.drop tw)

/-- `ZRLE_ENCODE_TILE` without ZYWRLE (`zywrle_level = 0`) -/
def zrleTile (cp : CPix) (tw th : Nat) (px : List Pixel) : Bytes :=
  let rl := runsOf px
  let (runs, singles, pal, size) := zrleStats rl
  if size = 1 then u8 1 ++ cpixBytes cp (pal.headD 0)
  else
    let bo := cp.size
    let est0 := tw * th * bo
    let plain := (bo + 1) * (runs + singles)
    let useRle0 := decide (plain < est0)
    let est1 := if plain < est0 then plain else est0
    let prle := bo * size + 2 * runs + singles
    let c2 := decide (size < 128 ∧ prle < est1)
    let est2 := if c2 then prle else est1
    let packed := bo * size + tw * th * bitsPerPackedPixel size / 8
    let c3 := decide (size < 17 ∧ packed < est2)
    let useRle := if c3 then false else if c2 then true else useRle0
    let usePalette := c3 || c2
    let psize := if usePalette then size else 0
    let pal' := if usePalette then pal else []
    u8 ((if useRle then 128 else 0) + psize) ++ pal'.flatMap (cpixBytes cp) ++
      (if useRle then zrleRleBytes cp usePalette pal rl
       else if usePalette then packRows (bitsPerPackedPixel size) tw pal th px
       else px.flatMap (cpixBytes cp))

def zrleTiles (cp : CPix) (W : Nat) (px : Array Pixel) : List TileRect → Bytes
  | [] => []
  | t :: ts => zrleTile cp t.w t.h (extractTile px W t) ++ zrleTiles cp W px ts

/-- the bytes handed to zlib for one ZRLE rectangle (= what the client gets after inflating) -/
def serverZRLEData (cp : CPix) (g : Geometry) (px : List Pixel) : Bytes :=
  zrleTiles cp g.w px.toArray (tileGrid 64 g)

/-- CPIXEL choice of `rfbSendRectEncodingZRLE` (no test of `depth`, unlike the RFC) -/
def serverCPix (f : PixFmt) : CPix :=
  if f.bpp = 32 then
    let ls := f.rMax <<< f.rShift < 2 ^ 24 ∧ f.gMax <<< f.gShift < 2 ^ 24 ∧ f.bMax <<< f.bShift < 2 ^ 24
    let ms := f.rShift > 7 ∧ f.gShift > 7 ∧ f.bShift > 7
    if (ls ∧ ¬ f.bigEndian) ∨ (ms ∧ f.bigEndian) then .lo3
    else if (ls ∧ f.bigEndian) ∨ (ms ∧ ¬ f.bigEndian) then .hi3
    else .full 4
  else .full f.bytespp

/-! ### row splitting of zlib.c / ultra.c -/

/-- `ZLIB_MAX_SIZE(min)` = `ULTRA_MAX_SIZE(min)` -/
def zlibMaxSize (w : Nat) : Nat := if w * 2 > 32768 then w * 2 else 32768

/-- `rfbSendRectEncodingZlib` / `…Ultra`: pieces of at most `maxLines = ZLIB_MAX_SIZE(w) / w` lines -/
def zlibSplit (x w : Nat) (maxLines : Nat) : Nat → Nat → Nat → List TileRect
  | 0, _, _ => []
  | f + 1, y, remaining =>
    if remaining = 0 then [] else
    let n := if maxLines < remaining then maxLines else remaining
    ⟨x, y, w, n⟩ :: zlibSplit x w maxLines f (y + n) (remaining - n)

/-- payload the server is predicted to send for a rectangle with the given (client-format)
pixels; `some none` = the encoder falls back to Raw; `none` = no model for this encoding.
For ZRLE the prediction is the *inflated* payload (length + tile data). -/
def modelRect (f : PixFmt) (enc : Nat) (g : Geometry) (px : List Pixel) (_args : List Nat) :
    Option (Option Bytes) :=
  if enc = encRaw then some (some (pixelsBytes f.bytespp px))
  else if enc = encRRE then some (serverRRE f.bytespp g px)
  else if enc = encCoRRE then some (serverCoRRE f.bytespp g px)
  else if enc = encHextile then some (some (serverHextile f.bytespp g px))
  else if enc = encZRLE then
    let d := serverZRLEData (serverCPix f) g px
    some (some (u32be d.length ++ d))
  else if enc = encZlib then
    let d := pixelsBytes f.bytespp px
    some (some (u32be d.length ++ d))
  else none

end VncModel.Enc.Server
