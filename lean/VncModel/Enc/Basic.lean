import VncModel.Enc.Spec
/-! Basic lemmas about the spec-level readers/writers and the painting primitives (C01). -/
namespace VncModel.Enc
open VncModel.Enc.Spec

/-! ### writers (inverse of the readers in `Spec`) -/

def u8 (n : Nat) : Bytes := [UInt8.ofNat n]
def u16be (n : Nat) : Bytes := [UInt8.ofNat (n / 256), UInt8.ofNat n]
def u32be (n : Nat) : Bytes :=
  [UInt8.ofNat (n / 16777216), UInt8.ofNat (n / 65536), UInt8.ofNat (n / 256), UInt8.ofNat n]

/-- a pixel fits in `bpp` bytes -/
def PixOK (bpp : Nat) (p : Pixel) : Prop := p < 256 ^ bpp

theorem toNat_ofNat_lt {n : Nat} (h : n < 256) : (UInt8.ofNat n).toNat = n := by
  simp [UInt8.toNat_ofNat']; omega

theorem toNat_ofNat_mod (n : Nat) : (UInt8.ofNat n).toNat = n % 256 := by
  simp [UInt8.toNat_ofNat']

theorem readU8_u8 {n : Nat} (h : n < 256) (r : Bytes) : readU8 (u8 n ++ r) = some (n, r) := by
  simp [u8, readU8, toNat_ofNat_lt h]

theorem readU16_u16be {n : Nat} (h : n < 65536) (r : Bytes) :
    readU16 (u16be n ++ r) = some (n, r) := by
  simp [u16be, readU16]; omega

theorem readU32_u32be {n : Nat} (h : n < 4294967296) (r : Bytes) :
    readU32 (u32be n ++ r) = some (n, r) := by
  simp [u32be, readU32]; omega

theorem takeN_append (xs r : Bytes) : takeN xs.length (xs ++ r) = some (xs, r) := by
  induction xs with
  | nil => simp [takeN]
  | cons x xs ih => simp [takeN, ih]

theorem takeN_append' {n : Nat} (xs r : Bytes) (h : xs.length = n) :
    takeN n (xs ++ r) = some (xs, r) := by subst h; exact takeN_append xs r

theorem pixBytes_length (n p : Nat) : (pixBytes n p).length = n := by
  induction n generalizing p with
  | zero => rfl
  | succ n ih => simp [pixBytes, ih]

theorem readPixel_pixBytes (n p : Nat) (r : Bytes) (h : PixOK n p) :
    readPixel n (pixBytes n p ++ r) = some (p, r) := by
  unfold PixOK at h
  induction n generalizing p with
  | zero => simp at h; subst h; rfl
  | succ n ih =>
    have h2 : p / 256 < 256 ^ n := by
      apply Nat.div_lt_of_lt_mul
      rw [Nat.pow_succ, Nat.mul_comm] at h; exact h
    simp [pixBytes, readPixel, ih _ h2]
    exact Nat.mod_add_div p 256

/-- serialisation of a pixel list -/
def pixelsBytes (bpp : Nat) (ps : List Pixel) : Bytes := ps.flatMap (pixBytes bpp)

theorem pixelsBytes_length (bpp : Nat) (ps : List Pixel) :
    (pixelsBytes bpp ps).length = ps.length * bpp := by
  induction ps with
  | nil => simp [pixelsBytes]
  | cons p ps ih =>
    simp only [pixelsBytes, List.flatMap_cons, List.length_append, pixBytes_length, List.length_cons] at *
    rw [ih, Nat.succ_mul]; omega

theorem readPixels_pixelsBytes (bpp : Nat) (ps : List Pixel) (r : Bytes)
    (h : ∀ p ∈ ps, PixOK bpp p) :
    readPixels bpp ps.length (pixelsBytes bpp ps ++ r) = some (ps, r) := by
  induction ps with
  | nil => simp [readPixels, pixelsBytes]
  | cons p ps ih =>
    have hp := h p (by simp)
    have hps : ∀ q ∈ ps, PixOK bpp q := fun q hq => h q (by simp [hq])
    simp only [pixelsBytes, List.flatMap_cons, List.length_cons, readPixels, List.append_assoc]
    rw [readPixel_pixBytes bpp p _ hp]
    have := ih hps
    simp only [pixelsBytes] at this
    simp [this]

/-! ### painting -/

theorem getD_setIfInBounds (a : Array Pixel) (i j : Nat) (v d : Pixel) :
    (a.setIfInBounds i v).getD j d = if i = j ∧ j < a.size then v else a.getD j d := by
  simp only [Array.getD_eq_getD_getElem?, Array.getElem?_setIfInBounds]
  by_cases h : i = j <;> by_cases h2 : j < a.size <;> simp [h, h2]

theorem size_fillRow (cv : Array Pixel) (s n : Nat) (c : Pixel) : (fillRow cv s n c).size = cv.size := by
  induction n generalizing cv s with
  | zero => rfl
  | succ n ih => simp [fillRow, ih]

theorem getD_fillRow (cv : Array Pixel) (s n : Nat) (c d : Pixel) (i : Nat) :
    (fillRow cv s n c).getD i d = if s ≤ i ∧ i < s + n ∧ i < cv.size then c else cv.getD i d := by
  induction n generalizing cv s with
  | zero => simp [fillRow]; omega
  | succ n ih =>
    simp only [fillRow, ih, Array.size_setIfInBounds, getD_setIfInBounds]
    by_cases h1 : s = i
    · subst h1; by_cases h2 : s < cv.size <;> simp [h2] <;> omega
    · by_cases h2 : s + 1 ≤ i ∧ i < s + 1 + n ∧ i < cv.size
      · have : s ≤ i ∧ i < s + (n + 1) ∧ i < cv.size := by omega
        simp [h2, this]
      · have : ¬ (s ≤ i ∧ i < s + (n + 1) ∧ i < cv.size) := by omega
        simp [h1, h2, this]

theorem size_fillRect (cv : Array Pixel) (W x y w h : Nat) (c : Pixel) :
    (fillRect cv W x y w h c).size = cv.size := by
  induction h generalizing cv y with
  | zero => rfl
  | succ h ih => simp [fillRect, ih, size_fillRow]

/-- membership of flat index `i` in the rectangle `x,y,w,h` of a canvas of row length `W` -/
def InRect (W x y w h i : Nat) : Prop := y ≤ i / W ∧ i / W < y + h ∧ x ≤ i % W ∧ i % W < x + w

instance (W x y w h i : Nat) : Decidable (InRect W x y w h i) := by unfold InRect; infer_instance

theorem row_index {W x i y : Nat} (hx : x < W) (h : i = y * W + x) : i / W = y ∧ i % W = x := by
  subst h
  have hW : 0 < W := by omega
  constructor
  · rw [Nat.add_comm, Nat.add_mul_div_right _ _ hW, Nat.div_eq_of_lt hx]; simp
  · rw [Nat.add_comm, Nat.add_mul_mod_self_right, Nat.mod_eq_of_lt hx]

theorem fillRect_zero_width (cv : Array Pixel) (W x y h : Nat) (c : Pixel) :
    fillRect cv W x y 0 h c = cv := by
  induction h generalizing cv y with
  | zero => rfl
  | succ h ih => simp [fillRect, fillRow, ih]

theorem getD_fillRect (cv : Array Pixel) (W x y w h : Nat) (c d : Pixel) (i : Nat)
    (hxw : x + w ≤ W) :
    (fillRect cv W x y w h c).getD i d =
      if InRect W x y w h i ∧ i < cv.size then c else cv.getD i d := by
  induction h generalizing cv y with
  | zero => simp [fillRect, InRect]; omega
  | succ h ih =>
    simp only [fillRect, ih, size_fillRow, getD_fillRow]
    by_cases hW : W = 0
    · subst hW
      have hw0 : w = 0 := by omega
      subst hw0
      have hn : ¬ (InRect 0 x y 0 (h + 1) i ∧ i < cv.size) := by unfold InRect; omega
      have hn2 : ¬ (InRect 0 x (y + 1) 0 h i ∧ i < cv.size) := by unfold InRect; omega
      have hn3 : ¬ (y * 0 + x ≤ i ∧ i < y * 0 + x + 0 ∧ i < cv.size) := by omega
      simp [hn, hn2]
      omega
    have hWp : 0 < W := by omega
    have hdm : i = (i / W) * W + i % W := by
      rw [Nat.mul_comm]; exact (Nat.div_add_mod i W).symm
    have hml : i % W < W := Nat.mod_lt _ hWp
    by_cases hin : InRect W x (y + 1) w h i ∧ i < cv.size
    · have : InRect W x y w (h + 1) i ∧ i < cv.size := by
        unfold InRect at *; omega
      simp [hin, this]
    · simp only [hin, if_false]
      by_cases hrow : y * W + x ≤ i ∧ i < y * W + x + w ∧ i < cv.size
      · have hiy : i / W = y := by
          have h1 : y * W ≤ i := by omega
          have h2 : i < (y + 1) * W := by rw [Nat.succ_mul]; omega
          exact Nat.div_eq_of_lt_le h1 h2
        have : InRect W x y w (h + 1) i ∧ i < cv.size := by
          unfold InRect
          rw [hiy] at hdm
          omega
        simp [hrow, this]
      · have : ¬ (InRect W x y w (h + 1) i ∧ i < cv.size) := by
          unfold InRect at *
          intro hh
          apply hrow
          have hy : i / W = y := by omega
          rw [hy] at hdm
          omega
        simp [hrow, this]

end VncModel.Enc
