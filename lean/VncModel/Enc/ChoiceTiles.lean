import VncModel.Enc.Choice
import VncModel.Enc.HextileProofs
import VncModel.Enc.ZRLEProofs
/-!
# `encodeWith` for the tiled encodings (Hextile, ZRLE)

One choice per tile.  A choice that does not describe the tile (or is not representable) is
replaced by the raw tile, so `decode (encodeWith choices P) = P` for ALL choice lists.
-/
namespace VncModel.Enc
open VncModel.Enc.Spec VncModel.Enc.Server

/-! ### Hextile -/

inductive HexChoice where
  | raw
  | solid (bgSpec : Bool) (bg : Pixel)
  | sub (bgSpec fgSpec coloured : Bool) (bg fg : Pixel) (rs : List Subrect)
deriving Repr

def hexSubOK (bpp tw th : Nat) (coloured : Bool) (fg : Pixel) (r : Subrect) : Bool :=
  decide (r.x + r.w ≤ tw ∧ r.y + r.h ≤ th ∧ r.x < 16 ∧ r.y < 16 ∧ 1 ≤ r.w ∧ r.w ≤ 16 ∧ 1 ≤ r.h ∧
    r.h ≤ 16 ∧ (if coloured then r.c < 256 ^ bpp else r.c = fg))

/-- is the choice usable for tile `px` in decoder state `dst`? -/
def HexChoice.ok (bpp tw th : Nat) (dst : HexState) (px : List Pixel) : HexChoice → Bool
  | .raw => false
  | .solid bgSpec bg =>
    (if bgSpec then decide (bg < 256 ^ bpp) else decide (dst.bg = some bg)) &&
      decide (px = List.replicate (tw * th) bg)
  | .sub bgSpec fgSpec coloured bg fg rs =>
    (if bgSpec then decide (bg < 256 ^ bpp) else decide (dst.bg = some bg)) &&
    (if fgSpec then decide (fg < 256 ^ bpp) && !coloured else (coloured || decide (dst.fg = some fg))) &&
    decide (rs.length < 256) && rs.all (hexSubOK bpp tw th coloured fg) &&
    decide ((paintRects tw th bg rs).toList = px)

/-- bytes of one tile and the decoder state afterwards -/
def encodeHexTile (bpp tw th : Nat) (dst : HexState) (c : HexChoice) (px : List Pixel) :
    Bytes × HexState :=
  if c.ok bpp tw th dst px then
    match c with
    | .raw => (u8 1 ++ pixelsBytes bpp px, dst)
    | .solid bgSpec bg =>
      (u8 (if bgSpec then 2 else 0) ++ (if bgSpec then pixBytes bpp bg else []), ⟨some bg, dst.fg⟩)
    | .sub bgSpec fgSpec coloured bg fg rs =>
      (u8 (subFlags bgSpec fgSpec coloured) ++ (if bgSpec then pixBytes bpp bg else []) ++
        (if fgSpec then pixBytes bpp fg else []) ++ u8 rs.length ++
        subrectsBytes (if coloured then pixBytes bpp else fun _ => []) geomHex rs,
       ⟨some bg, if fgSpec then some fg else dst.fg⟩)
  else (u8 1 ++ pixelsBytes bpp px, dst)

theorem encodeHexTile_decodes (bpp tw th : Nat) (dst : HexState) (c : HexChoice) (px : List Pixel)
    (rest : Bytes) (hlen : px.length = tw * th) (hpx : ∀ p ∈ px, PixOK bpp p) :
    decodeHextileTile bpp tw th dst ((encodeHexTile bpp tw th dst c px).1 ++ rest) =
      some ((px, (encodeHexTile bpp tw th dst c px).2), rest) := by
  unfold encodeHexTile
  by_cases hok : c.ok bpp tw th dst px = true
  · simp only [hok, if_true]
    cases c with
    | raw => simp [HexChoice.ok] at hok
    | solid bgSpec bg =>
      simp only [HexChoice.ok, Bool.and_eq_true, decide_eq_true_eq] at hok
      obtain ⟨h1, h2⟩ := hok
      have := decodeHextileTile_solid bpp tw th dst bgSpec bg rest
        (by cases bgSpec <;> simpa [PixOK] using h1)
      rw [h2]; simpa [List.append_assoc] using this
    | sub bgSpec fgSpec coloured bg fg rs =>
      simp only [HexChoice.ok, Bool.and_eq_true, decide_eq_true_eq, List.all_eq_true] at hok
      obtain ⟨⟨⟨⟨h1, h2⟩, h3⟩, h4⟩, h5⟩ := hok
      have := decodeHextileTile_sub bpp tw th dst bgSpec fgSpec coloured bg fg rs rest
        (by cases bgSpec <;> simpa [PixOK] using h1)
        (by
          cases fgSpec with
          | true => simp only [if_true] at h2 ⊢; simpa [PixOK] using h2
          | false =>
            simp only [Bool.false_eq_true, if_false] at h2 ⊢
            intro hc; simpa [hc] using h2)
        h3
        (by
          intro r hr
          have := h4 r hr
          simp only [hexSubOK, decide_eq_true_eq] at this
          obtain ⟨a1, a2, a3, a4, a5, a6, a7, a8, a9⟩ := this
          refine ⟨?_, fun t => readGeomHex_geomHex _ _ (by simp only; omega), ⟨a1, a2⟩⟩
          intro t
          cases coloured with
          | true => simp only [if_true] at a9 ⊢; exact readPixel_pixBytes _ _ _ a9
          | false => simp only [Bool.false_eq_true, if_false] at a9 ⊢; simp [a9])
      rw [h5] at this
      simpa [List.append_assoc] using this
  · simp only [hok, Bool.false_eq_true, if_false]
    simpa [List.append_assoc] using decodeHextileTile_raw bpp tw th dst px rest hlen hpx

/-- all tiles of a rectangle; `cs` = choices, tile by tile (a missing choice = raw) -/
def encodeHexTiles (bpp W : Nat) (px : Array Pixel) : List TileRect → List HexChoice → HexState → Bytes
  | [], _, _ => []
  | t :: ts, cs, dst =>
    let r := encodeHexTile bpp t.w t.h dst (cs.headD .raw) (extractTile px W t)
    r.1 ++ encodeHexTiles bpp W px ts cs.tail r.2

def encodeWithHextile (cs : List HexChoice) (bpp : Nat) (g : Geometry) (px : List Pixel) : Bytes :=
  encodeHexTiles bpp g.w px.toArray (tileGrid 16 g) cs {}

theorem encodeHexTiles_decodes (bpp W : Nat) (px : List Pixel) (hpx : ∀ p ∈ px, PixOK bpp p) :
    ∀ (tiles : List TileRect) (cs : List HexChoice) (dst : HexState) (rest : Bytes),
      decodeHextileTiles bpp tiles dst (encodeHexTiles bpp W px.toArray tiles cs dst ++ rest) =
        some (tiles.map (extractTile px.toArray W), rest) := by
  intro tiles
  induction tiles with
  | nil => intro cs dst rest; simp [decodeHextileTiles, encodeHexTiles]
  | cons t ts ih =>
    intro cs dst rest
    simp only [encodeHexTiles, decodeHextileTiles, List.append_assoc, List.map_cons]
    rw [encodeHexTile_decodes bpp t.w t.h dst (cs.headD .raw) (extractTile px.toArray W t) _
      (extractTile_length _ _ _) (extractTile_ok bpp px W t hpx)]
    simp only
    rw [ih]
    rfl

/-- **`decode (encodeWith choices P) = P` for Hextile**, all choice lists, all pixel arrays -/
theorem decode_encodeWithHextile (cs : List HexChoice) (bpp : Nat) (g : Geometry) (px : List Pixel)
    (rest : Bytes) (hlen : px.length = g.w * g.h) (hpx : ∀ p ∈ px, PixOK bpp p) :
    decodeHextile g bpp (encodeWithHextile cs bpp g px ++ rest) = some (px, rest) := by
  unfold decodeHextile encodeWithHextile
  rw [encodeHexTiles_decodes bpp g.w px hpx]
  simp only [Option.map_some]
  rw [assemble_extract 16 (by decide) g px hlen]

/-! ### ZRLE tiles -/

inductive ZChoice where
  | raw
  | solid (p : Pixel)
  | plain (rl : List (Pixel × Nat))
  | palRLE (pal : List Pixel) (rl : List (Pixel × Nat))
deriving Repr

instance (cp : CPix) (p : Pixel) : Decidable (CPixOK cp p) := by
  cases cp <;> unfold CPixOK <;> (try unfold PixOK) <;> infer_instance

def ZChoice.ok (cp : CPix) (tw th : Nat) (px : List Pixel) : ZChoice → Bool
  | .raw => false
  | .solid p => decide (px = List.replicate (tw * th) p) && decide (0 < tw * th)
  | .plain rl => decide (expand rl = px) && rl.all fun r => decide (1 ≤ r.2)
  | .palRLE pal rl =>
    decide (expand rl = px) && decide (2 ≤ pal.length ∧ pal.length ≤ 127) &&
      (rl.all fun r => decide (1 ≤ r.2) && pal.contains r.1) && pal.all fun q => decide (CPixOK cp q)

def encodeZTile (cp : CPix) (tw th : Nat) (c : ZChoice) (px : List Pixel) : Bytes :=
  if c.ok cp tw th px then
    match c with
    | .raw => u8 0 ++ px.flatMap (cpixBytes cp)
    | .solid p => u8 1 ++ cpixBytes cp p
    | .plain rl => u8 128 ++ zrleRleBytes cp false [] rl
    | .palRLE pal rl => u8 (128 + pal.length) ++ pal.flatMap (cpixBytes cp) ++ zrleRleBytes cp true pal rl
  else u8 0 ++ px.flatMap (cpixBytes cp)

theorem encodeZTile_decodes (cp : CPix) (tw th : Nat) (c : ZChoice) (px : List Pixel) (rest : Bytes)
    (hlen : px.length = tw * th) (hpx : ∀ p ∈ px, CPixOK cp p) :
    decodeZRLETile cp tw th (encodeZTile cp tw th c px ++ rest) = some (px, rest) := by
  have hraw : decodeZRLETile cp tw th (u8 0 ++ px.flatMap (cpixBytes cp) ++ rest) = some (px, rest) := by
    simp only [u8, List.cons_append, List.nil_append, decodeZRLETile]
    have e0 : (UInt8.ofNat 0).toNat = 0 := by decide
    simp only [e0, if_true]
    exact readCPixels_raw cp px (tw * th) rest hlen hpx
  unfold encodeZTile
  by_cases hok : c.ok cp tw th px = true
  · simp only [hok, if_true]
    cases c with
    | raw => simp [ZChoice.ok] at hok
    | solid p =>
      simp only [ZChoice.ok, Bool.and_eq_true, decide_eq_true_eq] at hok
      obtain ⟨hok, h0⟩ := hok
      have hp : CPixOK cp p := by
        apply hpx; rw [hok]; simp; omega
      simp only [u8, List.cons_append, List.nil_append, decodeZRLETile]
      have e1 : (UInt8.ofNat 1).toNat = 1 := by decide
      simp only [e1]
      rw [readCPixel_cpixBytes cp p rest hp]
      simp [hok]
    | plain rl =>
      simp only [ZChoice.ok, Bool.and_eq_true, decide_eq_true_eq, List.all_eq_true] at hok
      obtain ⟨h1, h2⟩ := hok
      simp only [u8, List.cons_append, List.nil_append, decodeZRLETile]
      have e128 : (UInt8.ofNat 128).toNat = 128 := by decide
      simp only [e128]
      have a0 : ¬ ((128 : Nat) = 0) := by decide
      have a1 : ¬ ((128 : Nat) = 1) := by decide
      have a16 : ¬ ((128 : Nat) ≤ 16) := by decide
      simp only [a0, a1, a16, if_false, if_true]
      rw [decodePlainRLE_runs cp [] rl (tw * th) (tw * th) rest
        (fun r hr => ⟨h2 r hr, hpx _ (by
          rw [← h1]; simp only [expand, List.mem_flatMap]
          exact ⟨r, hr, by simp; have := h2 r hr; omega⟩)⟩)
        (by rw [h1]; exact hlen) (Nat.le_refl _), h1]
    | palRLE pal rl =>
      simp only [ZChoice.ok, Bool.and_eq_true, decide_eq_true_eq, List.all_eq_true] at hok
      obtain ⟨⟨⟨h1, h2⟩, h3⟩, h4⟩ := hok
      simp only [List.append_assoc, u8, List.cons_append, List.nil_append, decodeZRLETile]
      rw [toNat_u8 (show 128 + pal.length < 256 by omega)]
      have e0 : ¬ 128 + pal.length = 0 := by omega
      have e1 : ¬ 128 + pal.length = 1 := by omega
      have e16 : ¬ 128 + pal.length ≤ 16 := by omega
      have e128 : ¬ 128 + pal.length = 128 := by omega
      have e130 : 128 + pal.length ≥ 130 := by omega
      simp only [e0, e1, e16, e128, e130, if_false, if_true, Nat.add_sub_cancel_left]
      rw [readCPixels_raw cp pal pal.length _ rfl (fun q hq => h4 q hq)]
      simp only
      rw [decodePaletteRLE_runs cp pal h2.2 rl (tw * th) (tw * th) rest
        (fun r hr => by have := h3 r hr; simp at this; exact ⟨this.1, this.2⟩)
        (by rw [h1]; exact hlen) (Nat.le_refl _), h1]
  · simp only [hok, Bool.false_eq_true, if_false]
    exact hraw


def encodeZTiles (cp : CPix) (W : Nat) (px : Array Pixel) : List TileRect → List ZChoice → Bytes
  | [], _ => []
  | t :: ts, cs => encodeZTile cp t.w t.h (cs.headD .raw) (extractTile px W t) ++ encodeZTiles cp W px ts cs.tail

/-- uncompressed ZRLE tile data of a rectangle, one choice per 64×64 tile -/
def encodeWithZRLEData (cs : List ZChoice) (cp : CPix) (g : Geometry) (px : List Pixel) : Bytes :=
  encodeZTiles cp g.w px.toArray (tileGrid 64 g) cs

theorem encodeZTiles_decodes (cp : CPix) (W : Nat) (px : List Pixel) (hpx : ∀ p ∈ px, CPixOK cp p) :
    ∀ (tiles : List TileRect) (cs : List ZChoice) (rest : Bytes),
      decodeZRLETiles cp tiles (encodeZTiles cp W px.toArray tiles cs ++ rest) =
        some (tiles.map (extractTile px.toArray W), rest) := by
  intro tiles
  induction tiles with
  | nil => intro cs rest; simp [decodeZRLETiles, encodeZTiles]
  | cons t ts ih =>
    intro cs rest
    simp only [encodeZTiles, decodeZRLETiles, List.append_assoc, List.map_cons]
    rw [encodeZTile_decodes cp t.w t.h (cs.headD .raw) (extractTile px.toArray W t) _
      (extractTile_length _ _ _) (extractTile_cpixok cp px W t hpx (cpixok_zero cp))]
    simp only
    rw [ih]
    rfl

/-- **`decode (encodeWith choices P) = P` for ZRLE tile data**, all choice lists -/
theorem decode_encodeWithZRLEData (cs : List ZChoice) (cp : CPix) (g : Geometry) (px : List Pixel)
    (rest : Bytes) (hlen : px.length = g.w * g.h) (hpx : ∀ p ∈ px, CPixOK cp p) :
    decodeZRLEData g cp (encodeWithZRLEData cs cp g px ++ rest) = some (px, rest) := by
  unfold decodeZRLEData encodeWithZRLEData
  rw [encodeZTiles_decodes cp g.w px hpx]
  simp only [Option.map_some]
  rw [assemble_extract 64 (by decide) g px hlen]

end VncModel.Enc
