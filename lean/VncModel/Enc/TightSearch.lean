import VncModel.Enc.TightSplit
/-!
# Faithful model of `SendRectEncodingTight`'s solid-area search (tight.c)

`CheckSolidTile`, `FindBestSolidArea`, `ExtendSolidArea` and the tile loop with its "send the upper
part when the rectangle becomes too large" rule, on the SERVER-format framebuffer (the search compares
raw framebuffer values).  Output: the pieces in the order they are sent.  Compared with the wire on
every run; soundness for every possible outcome of the search is `planPieces_cover` /
`planPieces_fill_solid` (the search is one particular choice).
-/
namespace VncModel.Enc.Server
open VncModel.Enc VncModel.Enc.Spec

/-- `CheckSolidTile##bpp`: the tile is of one colour (and, if `need` is given, of that colour) -/
def checkSolidTile (raw : Nat → Nat → Pixel) (x y w h : Nat) (need : Option Pixel) : Option Pixel :=
  let c := raw x y
  if (match need with | some c' => c != c' | none => false) then none
  else if isSolid raw ⟨x, y, w, h⟩ c then some c else none

/-- inner loop of `FindBestSolidArea`: `for (dx = x + dw; dx < x + w_prev;)` → final `dx` -/
def findRowExtent (raw : Nat → Nat → Pixel) (c : Pixel) (x dy dh wPrev : Nat) : Nat → Nat → Nat
  | 0, dx => dx
  | f + 1, dx =>
    if dx < x + wPrev then
      let dw := if dx + 16 ≤ x + wPrev then 16 else x + wPrev - dx
      match checkSolidTile raw dx dy dw dh (some c) with
      | none => dx
      | some _ => findRowExtent raw c x dy dh wPrev f (dx + dw)
    else dx

/-- `FindBestSolidArea`: outer loop over tile rows; state `w_prev, w_best, h_best` -/
def findBest (raw : Nat → Nat → Pixel) (c : Pixel) (x y w h : Nat) : Nat → Nat → Nat → Nat → Nat → Nat × Nat
  | 0, _, _, wb, hb => (wb, hb)
  | f + 1, dy, wPrev, wb, hb =>
    if dy < y + h then
      let dh := if dy + 16 ≤ y + h then 16 else y + h - dy
      let dw := if wPrev > 16 then 16 else wPrev
      match checkSolidTile raw x dy dw dh (some c) with
      | none => (wb, hb)
      | some _ =>
        let dx := findRowExtent raw c x dy dh wPrev (wPrev + 1) (x + dw)
        let wPrev' := dx - x
        let (wb', hb') := if wPrev' * (dy + dh - y) > wb * hb then (wPrev', dy + dh - y) else (wb, hb)
        findBest raw c x y w h f (dy + 16) wPrev' wb' hb'
    else (wb, hb)

/-- count how far a one-pixel-thick line test succeeds: generic "extend" loop -/
def extendWhile (test : Nat → Bool) : Nat → Nat → Nat
  | 0, n => n
  | f + 1, n => if test n then extendWhile test f (n + 1) else n

/-- `ExtendSolidArea` → (x, y, w, h) of the extended area inside `x,y,w,h` -/
def extendSolid (raw : Nat → Nat → Pixel) (c : Pixel) (x y w h xb yb wb hb : Nat) : Nat × Nat × Nat × Nat :=
  -- upwards: rows yb-1, yb-2, … ≥ y
  let up := extendWhile (fun k => (checkSolidTile raw xb (yb - 1 - k) wb 1 (some c)).isSome && decide (y + k + 1 ≤ yb)) (yb - y) 0
  let yb1 := yb - up
  let hb1 := hb + up
  -- downwards
  let down := extendWhile (fun k => decide (yb1 + hb1 + k < y + h) && (checkSolidTile raw xb (yb1 + hb1 + k) wb 1 (some c)).isSome) (y + h) 0
  let hb2 := hb1 + down
  -- to the left
  let left := extendWhile (fun k => (checkSolidTile raw (xb - 1 - k) yb1 1 hb2 (some c)).isSome && decide (x + k + 1 ≤ xb)) (xb - x) 0
  let xb1 := xb - left
  let wb1 := wb + left
  -- to the right
  let right := extendWhile (fun k => decide (xb1 + wb1 + k < x + w) && (checkSolidTile raw (xb1 + wb1 + k) yb1 1 hb2 (some c)).isSome) (x + w) 0
  (xb1, yb1, wb1 + right, hb2)

/-- result of scanning the tiles of one rectangle -/
inductive Scan2 where
  | none                                         -- no suitable solid area
  | found (y h : Nat) (xb yb wb hb : Nat)        -- current y,h (after chunking) and the extended area
deriving Repr

/-- the `for (dx …)` loop of one tile row: first usable solid area, extended -/
def tightCols (raw : Nat → Nat → Pixel) (x y w h dy dh : Nat) : Nat → Nat → Option (Nat × Nat × Nat × Nat)
  | 0, _ => none
  | k + 1, dx =>
    if dx < x + w then
      let dw := if dx + 16 ≤ x + w then 16 else x + w - dx
      match checkSolidTile raw dx dy dw dh none with
      | some c =>
        let (wbest, hbest) := findBest raw c dx dy (w - (dx - x)) (h - (dy - y)) ((h - (dy - y)) / 16 + 2) dy
          (w - (dx - x)) 0 0
        if wbest * hbest ≠ w * h ∧ wbest * hbest < 2048 then tightCols raw x y w h dy dh k (dx + 16)
        else some (extendSolid raw c x y w h dx dy wbest hbest)
      | none => tightCols raw x y w h dy dh k (dx + 16)
    else none

mutual
/-- `SendRectEncodingTight` with LastRect enabled -/
def tightRect (raw : Nat → Nat → Pixel) : Nat → Nat → Nat → Nat → Nat → List TPiece
  | 0, x, y, w, h => (simpleSplit x y w h).map .sub
  | f + 1, x, y, w, h =>
    if w * h < 4096 then (simpleSplit x y w h).map .sub
    else
      let nMaxRows := tightMaxSize / (if w > tightMaxW then tightMaxW else w)
      tightRows raw f x w nMaxRows (h / 16 + 2) y y h
/-- the `for (dy …)` loop; `y`, `h` change when an upper part is sent early -/
def tightRows (raw : Nat → Nat → Pixel) (f : Nat) (x w nMaxRows : Nat) : Nat → Nat → Nat → Nat → List TPiece
  | 0, _, y, h => (simpleSplit x y w h).map .sub
  | g + 1, dy, y, h =>
    if dy < y + h then
      let early := decide (dy - y ≥ nMaxRows)
      let pre := if early then (simpleSplit x y w nMaxRows).map TPiece.sub else []
      let y' := if early then y + nMaxRows else y
      let h' := if early then h - nMaxRows else h
      let dh := if dy + 16 ≤ y' + h' then 16 else y' + h' - dy
      match tightCols raw x y' w h' dy dh (w / 16 + 2) x with
      | some (xb, yb, wb, hb) =>
        pre ++
        (if yb ≠ y' then (simpleSplit x y' w (yb - y')).map TPiece.sub else []) ++
        (if xb ≠ x then tightRect raw f x yb (xb - x) hb else []) ++
        [TPiece.fill ⟨xb, yb, wb, hb⟩] ++
        (if xb + wb ≠ x + w then tightRect raw f (xb + wb) yb (w - (xb - x) - wb) hb else []) ++
        (if yb + hb ≠ y' + h' then tightRect raw f x (yb + hb) w (h' - (yb - y') - hb) else [])
      | none => pre ++ tightRows raw f x w nMaxRows g (dy + 16) y' h'
    else (simpleSplit x y w h).map .sub
end
end VncModel.Enc.Server
