import VncModel.Enc.TightProofs
/-! `Spec.decodeTight` of the bytes the Tight model emits for one sub-rectangle gives the pixels. -/
namespace VncModel.Enc.Server
open VncModel.Enc VncModel.Enc.Spec

/-- the real wire bytes of one sub-rectangle for a given zlib (state of the stream it uses) -/
def TightOut.wire {σ τ : Type} (Z : ZLaw σ τ) (s : σ) (o : TightOut) : Bytes × σ :=
  if !o.hasData then (o.header, s)
  else if o.data.length < 12 then (o.header ++ o.data, s)
  else if o.zlevel = 0 then (o.header ++ compactLen o.data.length ++ o.data, s)
  else (o.header ++ compactLen (Z.deflate s o.data).1.length ++ (Z.deflate s o.data).1, (Z.deflate s o.data).2)

/-- reader/writer law for TPIXELs of format `f` on the pixels at hand -/
def TPixLaw (f : PixFmt) (p : Pixel) : Prop :=
  (∀ t, readTPixel f.tpix (tpixBytes f p ++ t) = some (p, t)) ∧ (tpixBytes f p).length = f.tpix.size

theorem readTPixels_flatMap (f : PixFmt) (ps : List Pixel) (t : Bytes) (h : ∀ p ∈ ps, TPixLaw f p) :
    readTPixels f.tpix ps.length (ps.flatMap (tpixBytes f) ++ t) = some (ps, t) := by
  induction ps with
  | nil => simp [readTPixels]
  | cons p ps ih =>
    simp only [List.flatMap_cons, List.length_cons, readTPixels, List.append_assoc]
    rw [(h p (by simp)).1]
    simp only
    rw [ih (fun q hq => h q (by simp [hq]))]
    rfl

theorem flatMap_tpix_length (f : PixFmt) (ps : List Pixel) (h : ∀ p ∈ ps, TPixLaw f p) :
    (ps.flatMap (tpixBytes f)).length = ps.length * f.tpix.size := by
  induction ps with
  | nil => simp
  | cons p ps ih =>
    simp only [List.flatMap_cons, List.length_append, List.length_cons]
    rw [(h p (by simp)).2, ih (fun q hq => h q (by simp [hq])), Nat.succ_mul]; omega

/-- data block, short form -/
theorem readTightData_short (infl : Bytes → Option Bytes) (data rest : Bytes) (h : data.length < 12) :
    readTightData infl data.length (data ++ rest) = some (data, rest) := by
  unfold readTightData tightMinToCompress
  simp only [h, if_true]
  exact takeN_append data rest

/-- data block, long form: compact length, chunk, `infl chunk = data` -/
theorem readTightData_long (infl : Bytes → Option Bytes) (data z rest : Bytes) (h : ¬ data.length < 12)
    (hz : z.length < 4194304) (hi : infl z = some data) :
    readTightData infl data.length (compactLen z.length ++ z ++ rest) = some (data, rest) := by
  unfold readTightData tightMinToCompress
  simp only [h, if_false, List.append_assoc]
  rw [readCompactLen_compactLen _ _ hz]
  simp only
  rw [takeN_append z rest]
  simp [hi]

/-- the data block of `TightOut.wire`, whatever branch `CompressData` takes -/
theorem wire_block {σ τ : Type} (Z : ZLaw σ τ) (s : σ) (t : τ) (hs : Z.Sync s t) (o : TightOut)
    (hd : o.hasData = true) (rest : Bytes) (hlen : o.data.length < 4194304)
    (hzl : (Z.deflate s o.data).1.length < 4194304) :
    ∃ blk t', (o.wire Z s).1 = o.header ++ blk ∧
      readTightData (if o.zlevel = 0 then some else fun z => (Z.inflate t z).map (·.1)) o.data.length
        (blk ++ rest) = some (o.data, rest) ∧
      Z.Sync (o.wire Z s).2 t' := by
  unfold TightOut.wire
  simp only [hd, Bool.not_true, Bool.false_eq_true, if_false]
  by_cases h12 : o.data.length < 12
  · simp only [h12, if_true]
    exact ⟨o.data, t, rfl, readTightData_short _ _ _ h12, hs⟩
  · simp only [h12, if_false]
    by_cases hz : o.zlevel = 0
    · simp only [hz, if_true]
      refine ⟨compactLen o.data.length ++ o.data, t, by simp, ?_, hs⟩
      exact readTightData_long some o.data o.data rest h12 hlen rfl
    · simp only [hz, if_false]
      obtain ⟨t', h1, h2⟩ := Z.law s t o.data hs
      refine ⟨compactLen (Z.deflate s o.data).1.length ++ (Z.deflate s o.data).1, t', by simp, ?_, h2⟩
      exact readTightData_long _ o.data _ rest h12 hzl (by simp [h1])

theorem monoIndex_eq (bg fg p : Pixel) (hne : bg ≠ fg) (hp : p = bg ∨ p = fg) :
    (if p = bg then 0 else 1) = paletteIndex [bg, fg] p := by
  unfold paletteIndex
  rcases hp with e | e
  · subst e; simp [List.idxOf_cons]
  · subst e
    have : ¬ (p = bg) := fun e => hne e.symm
    have h2 : (bg == p) = false := by simpa using hne
    simp [List.idxOf_cons, this, h2]

theorem monoData_eq (w : Nat) (bg fg : Pixel) (hne : bg ≠ fg) : ∀ (h : Nat) (px : List Pixel),
    (∀ p ∈ px, p = bg ∨ p = fg) → monoData w bg h px = packRows 1 w [bg, fg] h px := by
  intro h
  induction h with
  | zero => intro px _; rfl
  | succ h ih =>
    intro px hp
    simp only [monoData, packRows]
    rw [ih (px.drop w) (fun p hq => hp p (List.mem_of_mem_drop hq))]
    congr 2
    apply List.map_congr_left
    intro p hq
    exact monoIndex_eq bg fg p hne (hp p (List.mem_of_mem_take hq))

theorem packRows_length (b : Nat) (hb : b = 1 ∨ b = 2 ∨ b = 4) (w : Nat) (pal : List Pixel) :
    ∀ (h : Nat) (px : List Pixel), px.length = w * h →
      (packRows b w pal h px).length = (w * b + 7) / 8 * h := by
  intro h
  induction h with
  | zero => intro px _; simp [packRows]
  | succ h ih =>
    intro px hl
    simp only [packRows, List.length_append]
    have htake : (px.take w).length = w := by rw [List.length_take, hl, Nat.mul_succ]; omega
    rw [pack_length b hb, List.length_map, htake, ih (px.drop w) (by rw [List.length_drop, hl, Nat.mul_succ]; omega),
      Nat.mul_succ]
    omega

end VncModel.Enc.Server

namespace VncModel.Enc.Server
open VncModel.Enc VncModel.Enc.Spec

theorem ceil8_le (w : Nat) (hw : 1 ≤ w) : (w + 7) / 8 ≤ w := by omega

/-! ### decoder side, one lemma per rectangle shape -/

abbrev tightCd : TightCodecs := { allowNoZlib := true }

theorem decodeTight_fill (infl : Nat → Bytes → Option Bytes) (f : PixFmt) (g : Geometry) (p : Pixel)
    (rest : Bytes) (hp : TPixLaw f p) :
    decodeTight tightCd infl f g (u8 0x80 ++ tpixBytes f p ++ rest) =
      some (List.replicate (g.w * g.h) p, rest) := by
  simp only [u8, List.cons_append, List.nil_append, decodeTight]
  have e8 : (UInt8.ofNat 128).toNat / 16 = 8 := by decide
  simp only [e8, if_true]
  rw [hp.1]
  rfl

/-- copy filter (full colour): control 0x00 (zlib stream 0) or 0xA0 ("no zlib") -/
theorem decodeTight_copy (infl : Nat → Bytes → Option Bytes) (f : PixFmt) (g : Geometry)
    (nz : Bool) (blk d rest : Bytes) (px : List Pixel)
    (hrd : readTightData (if nz then some else infl 0) (g.w * g.h * f.tpix.size) (blk ++ rest) = some (d, rest))
    (hpx : readTPixels f.tpix (g.w * g.h) d = some (px, [])) :
    decodeTight tightCd infl f g (u8 (if nz then 0xA0 else 0x00) ++ blk ++ rest) = some (px, rest) := by
  cases nz with
  | true =>
    simp only [if_true, u8, List.cons_append, List.nil_append, List.append_assoc, decodeTight] at hrd ⊢
    have e : (UInt8.ofNat 160).toNat / 16 = 10 := by decide
    simp only [e]
    simp [tightCd, hrd, hpx]
  | false =>
    simp only [Bool.false_eq_true, if_false, u8, List.cons_append, List.nil_append, List.append_assoc,
      decodeTight] at hrd ⊢
    have e : (UInt8.ofNat 0).toNat / 16 = 0 := by decide
    simp only [e]
    simp [tightCd, hrd, hpx]

/-- palette filter with exactly two colours (mono): control 0x50 (stream 1) or 0xE0 -/
theorem decodeTight_mono (infl : Nat → Bytes → Option Bytes) (f : PixFmt) (g : Geometry)
    (nz : Bool) (bg fg : Pixel) (blk d rest : Bytes) (px : List Pixel)
    (hbg : TPixLaw f bg) (hfg : TPixLaw f fg)
    (hrd : readTightData (if nz then some else infl 1) ((g.w + 7) / 8 * g.h) (blk ++ rest) = some (d, rest))
    (hpx : decodePackedRows 1 g.w [bg, fg] g.h d = some (px, [])) :
    decodeTight tightCd infl f g
      (u8 (if nz then 0xE0 else 0x50) ++ u8 1 ++ u8 1 ++ tpixBytes f bg ++ tpixBytes f fg ++ blk ++ rest) =
        some (px, rest) := by
  have hp2 := readTPixels_flatMap f [bg, fg] (blk ++ rest)
    (by intro p hp; simp at hp; rcases hp with e | e
        · rw [e]; exact hbg
        · rw [e]; exact hfg)
  simp only [List.flatMap_cons, List.flatMap_nil, List.append_nil, List.append_assoc, List.length_cons,
    List.length_nil] at hp2
  have e1 : (UInt8.ofNat 1).toNat = 1 := by decide
  cases nz with
  | true =>
    simp only [if_true, u8, List.cons_append, List.nil_append, List.append_assoc, decodeTight, readU8] at hrd ⊢
    have e : (UInt8.ofNat 224).toNat / 16 = 14 := by decide
    simp only [e, e1]
    simp [tightCd, hp2, hrd, hpx]
  | false =>
    simp only [Bool.false_eq_true, if_false, u8, List.cons_append, List.nil_append, List.append_assoc,
      decodeTight, readU8] at hrd ⊢
    have e : (UInt8.ofNat 80).toNat / 16 = 5 := by decide
    simp only [e, e1]
    simp [tightCd, hp2, hrd, hpx]

/-- palette filter with 3..256 colours (indexed): control 0x60 (stream 2) or 0xE0 -/
theorem decodeTight_indexed (infl : Nat → Bytes → Option Bytes) (f : PixFmt) (g : Geometry)
    (nz : Bool) (pal : List Pixel) (blk d rest : Bytes) (px : List Pixel)
    (hpal : ∀ p ∈ pal, TPixLaw f p) (hn3 : 3 ≤ pal.length) (hn256 : pal.length ≤ 256)
    (hrd : readTightData (if nz then some else infl 2) (g.w * g.h) (blk ++ rest) = some (d, rest))
    (hpx : lookupAll pal (d.map (·.toNat)) = some px) :
    decodeTight tightCd infl f g
      (u8 (if nz then 0xE0 else 0x60) ++ u8 1 ++ u8 (pal.length - 1) ++ pal.flatMap (tpixBytes f) ++ blk ++ rest) =
        some (px, rest) := by
  have hp2 := readTPixels_flatMap f pal (blk ++ rest) hpal
  have e1 : (UInt8.ofNat 1).toNat = 1 := by decide
  have ec : (UInt8.ofNat (pal.length - 1)).toNat + 1 = pal.length := by
    rw [toNat_ofNat_lt (by omega)]; omega
  have hne2 : ¬ (pal.length = 2) := by omega
  have em : (pal.length - 1) % 256 = pal.length - 1 := by omega
  have e3 : pal.length - 1 + 1 = pal.length := by omega
  have hne1 : ¬ (pal.length - 1 = 1) := by omega
  cases nz with
  | true =>
    simp only [if_true, u8, List.cons_append, List.nil_append, List.append_assoc, decodeTight, readU8] at hrd ⊢
    have e : (UInt8.ofNat 224).toNat / 16 = 14 := by decide
    simp only [e, e1, ec]
    simp [tightCd, em, e3, hne1, hp2, hrd, hpx, hne2]
  | false =>
    simp only [Bool.false_eq_true, if_false, u8, List.cons_append, List.nil_append, List.append_assoc,
      decodeTight, readU8] at hrd ⊢
    have e : (UInt8.ofNat 96).toNat / 16 = 6 := by decide
    simp only [e, e1, ec]
    simp [tightCd, em, e3, hne1, hp2, hrd, hpx, hne2]


theorem lookupAll_indices (pal : TPal) (px : List Pixel) (h : ∀ p ∈ px, p ∈ tcolours pal)
    (hl : pal.length ≤ 256) :
    lookupAll (tcolours pal) ((px.map fun p => UInt8.ofNat (tpalIndex pal p)).map (·.toNat)) = some px := by
  have : (px.map fun p => UInt8.ofNat (tpalIndex pal p)).map (·.toNat) = px.map (paletteIndex (tcolours pal)) := by
    rw [List.map_map]
    apply List.map_congr_left
    intro p hp
    have hi : List.idxOf p (tcolours pal) < (tcolours pal).length := List.idxOf_lt_length_of_mem (h p hp)
    simp only [Function.comp, tpalIndex, paletteIndex, tcolours] at hi ⊢
    rw [toNat_ofNat_lt]
    simp only [List.length_map] at hi; omega
  rw [this]
  exact lookupAll_map_index (tcolours pal) px h

/-- **one Tight sub-rectangle** (`SendSubrect` without JPEG, `rfbEncodingTight`): the bytes of the
model — control byte, filter, palette, `CompressData` block in any of its three forms — decode by
`Spec.decodeTight` to the pixels, and the zlib stream it used stays in sync.
`TPixLaw` (reader/writer law of the TPIXEL representation) is a hypothesis here; it is discharged for
the formats without `Pack24` by `tpixLaw_plain`. -/
theorem tightSubrect_decodes {σ τ : Type} (Z : ZLaw σ τ) (f : PixFmt) (lvl0 : Bool) (g : Geometry)
    (px : List Pixel) (rest : Bytes) (ss : Nat → σ) (ts : Nat → τ)
    (hsync : ∀ i, Z.Sync (ss i) (ts i))
    (hlen : px.length = g.w * g.h) (hpos : 0 < g.w * g.h) (harea : g.w * g.h ≤ 65536)
    (htp : ∀ p ∈ px, TPixLaw f p) (hts : f.tpix.size ≤ 4)
    (hz : ∀ s d, (Z.deflate s d).1.length < 4194304) :
    ∃ t', decodeTight tightCd (fun i z => (Z.inflate (ts i) z).map (·.1)) f g
        (((tightSubrect f lvl0 g.w g.h px).wire Z (ss (tightSubrect f lvl0 g.w g.h px).stream)).1 ++ rest) =
          some (px, rest) ∧
      Z.Sync ((tightSubrect f lvl0 g.w g.h px).wire Z (ss (tightSubrect f lvl0 g.w g.h px).stream)).2 t' := by
  obtain ⟨hsolid, hmono, hidx⟩ := fillPalette_spec (f.bpp == 8) (tightMaxColors (tightConfOf lvl0) g.w g.h) px
  have hne : px ≠ [] := by intro e; rw [e] at hlen; simp at hlen; omega
  have hw1 : 1 ≤ g.w := by
    rcases Nat.eq_zero_or_pos g.w with e | e
    · rw [e] at hpos; simp at hpos
    · exact e
  cases hk : fillPalette (f.bpp == 8) (tightMaxColors (tightConfOf lvl0) g.w g.h) px with
  | solid =>
    have ho : tightSubrect f lvl0 g.w g.h px = ⟨u8 0x80 ++ tpixBytes f (px.headD 0), [], 0, 0, false⟩ := by
      simp only [tightSubrect, hk]
    have hall := hsolid hk
    have hhead : px.headD 0 ∈ px := by
      cases px with
      | nil => exact absurd rfl hne
      | cons a l => simp
    have hrep : px = List.replicate (g.w * g.h) (px.headD 0) := by
      rw [List.eq_replicate_iff]; exact ⟨hlen, hall⟩
    rw [ho]
    refine ⟨ts 0, ?_, hsync 0⟩
    simp only [TightOut.wire, Bool.not_false, if_true]
    rw [decodeTight_fill _ f g _ rest (htp _ hhead), ← hrep]
  | mono bg fg =>
    obtain ⟨hbf, hall, hbg, hfg⟩ := hmono bg fg hk
    have ho : tightSubrect f lvl0 g.w g.h px =
        ⟨u8 (if lvl0 then 0xE0 else 0x50) ++ u8 1 ++ u8 1 ++ tpixBytes f bg ++ tpixBytes f fg,
          monoData g.w bg g.h px, 1, if lvl0 then 0 else 1, true⟩ := by
      simp only [tightSubrect, hk]
      cases lvl0 <;> simp [tightConfOf]
    have hdata : (monoData g.w bg g.h px).length = (g.w + 7) / 8 * g.h := by
      rw [monoData_eq g.w bg fg hbf g.h px hall, packRows_length 1 (Or.inl rfl) g.w [bg, fg] g.h px hlen,
        Nat.mul_one]
    have hdl : (monoData g.w bg g.h px).length < 4194304 := by
      rw [hdata]
      have := Nat.mul_le_mul_right g.h (ceil8_le g.w hw1)
      omega
    have hdec : decodePackedRows 1 g.w [bg, fg] g.h (monoData g.w bg g.h px) = some (px, []) := by
      have := packLaw 2 g.w g.h [bg, fg] px [] (by decide) (by decide) rfl hlen
        (by intro p hp; rcases hall p hp with e | e <;> simp [e])
      rw [monoData_eq g.w bg fg hbf g.h px hall]
      simpa [packedBits, bitsPerPackedPixel] using this
    rw [ho]
    obtain ⟨blk, t', hw, hrd, hsy⟩ := wire_block Z (ss 1) (ts 1) (hsync 1)
      ⟨u8 (if lvl0 then 0xE0 else 0x50) ++ u8 1 ++ u8 1 ++ tpixBytes f bg ++ tpixBytes f fg,
        monoData g.w bg g.h px, 1, if lvl0 then 0 else 1, true⟩ rfl rest hdl (hz _ _)
    refine ⟨t', ?_, hsy⟩
    simp only at hw hrd ⊢
    rw [hw, hdata] at *
    have := decodeTight_mono (fun i z => (Z.inflate (ts i) z).map (·.1)) f g lvl0 bg fg blk
      (monoData g.w bg g.h px) rest px (htp _ hbg) (htp _ hfg)
      (by cases lvl0 <;> simpa using hrd) hdec
    simpa [List.append_assoc] using this
  | indexed pal =>
    obtain ⟨hl256, hl3, hcol⟩ := hidx pal hk
    have ho : tightSubrect f lvl0 g.w g.h px =
        ⟨u8 (if lvl0 then 0xE0 else 0x60) ++ u8 1 ++ u8 (pal.length - 1) ++ pal.flatMap (fun e => tpixBytes f e.1),
          px.map (fun p => UInt8.ofNat (tpalIndex pal p)), 2, if lvl0 then 0 else 1, true⟩ := by
      simp only [tightSubrect, hk]
      cases lvl0 <;> simp [tightConfOf]
    have hdl : (px.map (fun p => UInt8.ofNat (tpalIndex pal p))).length = g.w * g.h := by simp [hlen]
    rw [ho]
    obtain ⟨blk, t', hw, hrd, hsy⟩ := wire_block Z (ss 2) (ts 2) (hsync 2)
      ⟨u8 (if lvl0 then 0xE0 else 0x60) ++ u8 1 ++ u8 (pal.length - 1) ++ pal.flatMap (fun e => tpixBytes f e.1),
        px.map (fun p => UInt8.ofNat (tpalIndex pal p)), 2, if lvl0 then 0 else 1, true⟩ rfl rest
      (by rw [hdl]; omega) (hz _ _)
    refine ⟨t', ?_, hsy⟩
    simp only at hw hrd ⊢
    rw [hw, hdl] at *
    have hflat : pal.flatMap (fun e => tpixBytes f e.1) = (tcolours pal).flatMap (tpixBytes f) := by
      simp [tcolours, List.flatMap_map]
    have := decodeTight_indexed (fun i z => (Z.inflate (ts i) z).map (·.1)) f g lvl0 (tcolours pal) blk
      (px.map (fun p => UInt8.ofNat (tpalIndex pal p))) rest px
      (fun p hp => htp p ((hcol p).mp hp)) (by simpa [tcolours] using hl3) (by simpa [tcolours] using hl256)
      (by cases lvl0 <;> simpa using hrd)
      (lookupAll_indices pal px (fun p hp => (hcol p).mpr hp) hl256)
    rw [hflat]
    simpa [List.append_assoc, tcolours] using this
  | full =>
    have ho : tightSubrect f lvl0 g.w g.h px =
        ⟨u8 (if lvl0 then 0xA0 else 0x00), px.flatMap (tpixBytes f), 0, if lvl0 then 0 else 1, true⟩ := by
      simp only [tightSubrect, hk]
      cases lvl0 <;> simp [tightConfOf]
    have hdl : (px.flatMap (tpixBytes f)).length = g.w * g.h * f.tpix.size := by
      rw [flatMap_tpix_length f px htp, hlen]
    have hdl2 : (px.flatMap (tpixBytes f)).length < 4194304 := by
      rw [hdl]
      have := Nat.mul_le_mul harea hts
      omega
    rw [ho]
    obtain ⟨blk, t', hw, hrd, hsy⟩ := wire_block Z (ss 0) (ts 0) (hsync 0)
      ⟨u8 (if lvl0 then 0xA0 else 0x00), px.flatMap (tpixBytes f), 0, if lvl0 then 0 else 1, true⟩ rfl rest
      hdl2 (hz _ _)
    refine ⟨t', ?_, hsy⟩
    simp only at hw hrd ⊢
    rw [hw, hdl] at *
    have hpx := readTPixels_flatMap f px [] htp
    rw [hlen, List.append_nil] at hpx
    have := decodeTight_copy (fun i z => (Z.inflate (ts i) z).map (·.1)) f g lvl0 blk
      (px.flatMap (tpixBytes f)) rest px (by cases lvl0 <;> simpa using hrd) hpx
    simpa [List.append_assoc] using this

/-- `TPixLaw` holds outright for every format that does not use `Pack24` (8/16 bpp, 32 bpp with depth
≠ 24 or maxima ≠ 255): the TPIXEL is the plain pixel -/
theorem tpixLaw_plain (f : PixFmt) (p : Pixel) (hno : usePF24 f = false) (hp : PixOK f.bytespp p) :
    TPixLaw f p := by
  have htp : f.tpix = .full f.bytespp := by
    unfold PixFmt.tpix
    have : ¬ (f.bpp = 32 ∧ f.depth = 24 ∧ f.rMax = 255 ∧ f.gMax = 255 ∧ f.bMax = 255) := by
      intro h; simp [usePF24, h.2.1, h.2.2.1, h.2.2.2.1, h.2.2.2.2] at hno
    simp [this]
  unfold TPixLaw tpixBytes
  simp only [hno, Bool.false_eq_true, if_false, htp, readTPixel, TPix.size]
  exact ⟨fun t => readPixel_pixBytes _ _ _ hp, pixBytes_length _ _⟩

end VncModel.Enc.Server
