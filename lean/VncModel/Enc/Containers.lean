import VncModel.Enc.ZRLEProofs
import VncModel.Enc.UpdateBuf
/-!
# Length-prefixed zlib containers (Zlib, ZRLE) and sequences of rectangles on one connection

zlib itself is a parameter: `ZLaw` states the assumed law of a persistent deflate/inflate stream pair
(`deflate(Z_SYNC_FLUSH)` output, fed to the peer's `inflate`, gives back exactly the input and the
two stay in sync).  This is the trusted property of zlib recorded in the evidence.
-/
namespace VncModel.Enc.Server
open VncModel.Enc VncModel.Enc.Spec

structure ZLaw (σ τ : Type) where
  /-- `deflate(…, Z_SYNC_FLUSH)` of one chunk on the persistent compressor -/
  deflate : σ → Bytes → Bytes × σ
  /-- `inflate` of one chunk on the persistent decompressor -/
  inflate : τ → Bytes → Option (Bytes × τ)
  Sync : σ → τ → Prop
  law : ∀ s t x, Sync s t → ∃ t', inflate t (deflate s x).1 = some (x, t') ∧ Sync (deflate s x).2 t'
  small : ∀ s x, (deflate s x).1.length < 4294967296

/-- what zlib.c / zrle.c put on the wire after the rectangle header: `nBytes`, compressed data -/
def chunkPayload {σ τ : Type} (Z : ZLaw σ τ) (s : σ) (data : Bytes) : Bytes × σ :=
  ((u32be (Z.deflate s data).1.length ++ (Z.deflate s data).1), (Z.deflate s data).2)

theorem readChunk32_payload (z rest : Bytes) (h : z.length < 4294967296) :
    readChunk32 (u32be z.length ++ z ++ rest) = some (z, rest) := by
  unfold readChunk32
  rw [List.append_assoc, readU32_u32be h]
  simp only
  exact takeN_append z rest

/-- **Zlib encoding**, one rectangle on a stream pair in sync -/
theorem zlibRect_decodes {σ τ : Type} (Z : ZLaw σ τ) (s : σ) (t : τ) (hs : Z.Sync s t)
    (g : Geometry) (bpp : Nat) (px : List Pixel) (rest : Bytes)
    (hlen : px.length = g.w * g.h) (hpx : ∀ p ∈ px, PixOK bpp p) :
    ∃ t', decodeZlib (fun z => (Z.inflate t z).map (·.1)) g bpp
        ((chunkPayload Z s (pixelsBytes bpp px)).1 ++ rest) = some (px, rest) ∧
      Z.inflate t (Z.deflate s (pixelsBytes bpp px)).1 = some (pixelsBytes bpp px, t') ∧
      Z.Sync (chunkPayload Z s (pixelsBytes bpp px)).2 t' := by
  obtain ⟨t', h1, h2⟩ := Z.law s t (pixelsBytes bpp px) hs
  refine ⟨t', ?_, h1, h2⟩
  unfold decodeZlib chunkPayload
  rw [readChunk32_payload _ _ (Z.small s _)]
  simp only [h1, Option.map_some]
  have := readPixels_pixelsBytes bpp px [] hpx
  rw [hlen, List.append_nil] at this
  unfold decodeRaw
  rw [this]

/-- **ZRLE encoding**, one rectangle (tile data of the faithful model) on a stream pair in sync -/
theorem zrleRect_decodes {σ τ : Type} (hpack : PackLaw) (Z : ZLaw σ τ) (s : σ) (t : τ)
    (hs : Z.Sync s t) (g : Geometry) (cp : CPix) (px : List Pixel) (rest : Bytes)
    (hlen : px.length = g.w * g.h) (hpx : ∀ p ∈ px, CPixOK cp p) :
    ∃ t', decodeZRLE (fun z => (Z.inflate t z).map (·.1)) g cp
        ((chunkPayload Z s (serverZRLEData cp g px)).1 ++ rest) = some (px, rest) ∧
      Z.Sync (chunkPayload Z s (serverZRLEData cp g px)).2 t' := by
  obtain ⟨t', h1, h2⟩ := Z.law s t (serverZRLEData cp g px) hs
  refine ⟨t', ?_, h2⟩
  unfold decodeZRLE chunkPayload
  rw [readChunk32_payload _ _ (Z.small s _)]
  simp only [h1, Option.map_some]
  have := serverZRLEData_decodes hpack cp g px [] hlen hpx
  rw [List.append_nil] at this
  rw [this]

/-! ### Ultra (LZO1X, stateless) -/

/-- assumed law of the LZO codec: decompressing what `lzo1x_1_compress` produced gives the input -/
structure LzoLaw where
  compress : Bytes → Bytes
  decompress : Bytes → Option Bytes
  law : ∀ x, decompress (compress x) = some x
  small : ∀ x, (compress x).length < 4294967296

/-- what `rfbSendOneRectEncodingUltra` puts after the rectangle header -/
def ultraPayload (L : LzoLaw) (bpp : Nat) (px : List Pixel) : Bytes :=
  u32be (L.compress (pixelsBytes bpp px)).length ++ L.compress (pixelsBytes bpp px)

/-- **Ultra encoding**, one rectangle (one piece of the row splitting) -/
theorem ultraRect_decodes (L : LzoLaw) (g : Geometry) (bpp : Nat) (px : List Pixel) (rest : Bytes)
    (hlen : px.length = g.w * g.h) (hpx : ∀ p ∈ px, PixOK bpp p) :
    decodeUltra L.decompress g bpp (ultraPayload L bpp px ++ rest) = some (px, rest) := by
  unfold decodeUltra decodeZlib ultraPayload
  rw [readChunk32_payload _ _ (L.small _)]
  simp only [L.law]
  have := readPixels_pixelsBytes bpp px [] hpx
  rw [hlen, List.append_nil] at this
  unfold decodeRaw
  rw [this]

/-! ### sequences: several rectangles / updates over one connection, stream state persists -/

/-- server side: payloads of a sequence of Zlib rectangles -/
def serverZlibSeq {σ τ : Type} (Z : ZLaw σ τ) (bpp : Nat) : σ → List (Geometry × List Pixel) → List Bytes
  | _, [] => []
  | s, (_, px) :: more =>
    (chunkPayload Z s (pixelsBytes bpp px)).1 ::
      serverZlibSeq Z bpp (chunkPayload Z s (pixelsBytes bpp px)).2 more

/-- client side: decode the payloads one after the other with ONE persistent inflate stream -/
def clientZlibSeq {σ τ : Type} (Z : ZLaw σ τ) (bpp : Nat) : τ → List (Geometry × Bytes) → Option (List (List Pixel))
  | _, [] => some []
  | t, (g, payload) :: more =>
    match decodeZlib (fun z => (Z.inflate t z).map (·.1)) g bpp payload with
    | some (px, []) =>
      -- the stream state after this chunk
      match readChunk32 payload with
      | some (z, _) =>
        match Z.inflate t z with
        | some (_, t') => (clientZlibSeq Z bpp t' more).map (px :: ·)
        | none => none
      | none => none
    | _ => none

/-- **persistent zlib stream**: any number of rectangles (over any number of updates) sent through
one compressor decode, in order, through one decompressor -/
theorem zlibSeq_decodes {σ τ : Type} (Z : ZLaw σ τ) (bpp : Nat) :
    ∀ (rects : List (Geometry × List Pixel)) (s : σ) (t : τ), Z.Sync s t →
      (∀ r ∈ rects, r.2.length = r.1.w * r.1.h ∧ ∀ p ∈ r.2, PixOK bpp p) →
      clientZlibSeq Z bpp t ((rects.map (·.1)).zip (serverZlibSeq Z bpp s rects)) =
        some (rects.map (·.2)) := by
  intro rects
  induction rects with
  | nil => intro s t _ _; simp [clientZlibSeq, serverZlibSeq]
  | cons r more ih =>
    intro s t hs hall
    obtain ⟨g, px⟩ := r
    obtain ⟨hlen, hpx⟩ := hall (g, px) (by simp)
    simp only at hlen hpx
    obtain ⟨t', hdec, hinf, hsync⟩ := zlibRect_decodes Z s t hs g bpp px [] hlen hpx
    rw [List.append_nil] at hdec
    simp only [serverZlibSeq, List.map_cons, List.zip_cons_cons, clientZlibSeq, hdec]
    have hrc : readChunk32 (chunkPayload Z s (pixelsBytes bpp px)).1 =
        some ((Z.deflate s (pixelsBytes bpp px)).1, []) := by
      have := readChunk32_payload (Z.deflate s (pixelsBytes bpp px)).1 [] (Z.small s _)
      rw [List.append_nil] at this
      exact this
    rw [hrc]
    simp only [hinf]
    rw [ih _ t' hsync (fun q hq => hall q (by simp [hq]))]
    rfl

/-! ### a list of rectangles on the wire decodes rectangle by rectangle -/

/-- decode `n` rectangles: header, then payload by `dec` -/
def decodeRectSeq (dec : RectHdr → Dec (List Pixel)) : Nat → Dec (List (RectHdr × List Pixel))
  | 0, bs => some ([], bs)
  | n + 1, bs =>
    match readRectHdr bs with
    | none => none
    | some (h, bs) =>
      match dec h bs with
      | none => none
      | some (px, bs) => (decodeRectSeq dec n bs).map fun (l, r) => ((h, px) :: l, r)

def rectHdrBytes (h : RectHdr) : Bytes := geom16 (h.x, h.y, h.w, h.h) ++ u32be h.enc

theorem readRectHdr_bytes (h : RectHdr) (rest : Bytes)
    (hb : h.x < 65536 ∧ h.y < 65536 ∧ h.w < 65536 ∧ h.h < 65536 ∧ h.enc < 4294967296) :
    readRectHdr (rectHdrBytes h ++ rest) = some (h, rest) := by
  unfold readRectHdr rectHdrBytes
  rw [List.append_assoc, readGeom16_geom16 _ _ (by simp only; omega)]
  simp only
  rw [readU32_u32be hb.2.2.2.2]
  rfl

/-- if every rectangle's payload decodes on its own (whatever follows it), the concatenation of
all rectangles — i.e. the byte stream after the FramebufferUpdate header, wherever `updateBuf` was
flushed — decodes to the list of rectangles -/
theorem decodeRectSeq_concat (dec : RectHdr → Dec (List Pixel)) :
    ∀ (rs : List (RectHdr × Bytes × List Pixel)) (rest : Bytes),
      (∀ r ∈ rs, (r.1.x < 65536 ∧ r.1.y < 65536 ∧ r.1.w < 65536 ∧ r.1.h < 65536 ∧
          r.1.enc < 4294967296) ∧ ∀ t, dec r.1 (r.2.1 ++ t) = some (r.2.2, t)) →
      decodeRectSeq dec rs.length ((rs.flatMap fun r => rectHdrBytes r.1 ++ r.2.1) ++ rest) =
        some (rs.map (fun r => (r.1, r.2.2)), rest) := by
  intro rs
  induction rs with
  | nil => intro rest _; simp [decodeRectSeq]
  | cons r more ih =>
    intro rest h
    obtain ⟨hb, hd⟩ := h r (by simp)
    simp only [List.flatMap_cons, List.length_cons, decodeRectSeq, List.append_assoc, List.map_cons]
    rw [readRectHdr_bytes r.1 _ hb]
    simp only
    rw [hd]
    simp only
    rw [ih rest (fun q hq => h q (by simp [hq]))]
    rfl

end VncModel.Enc.Server
