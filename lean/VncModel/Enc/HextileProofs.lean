import VncModel.Enc.RREProofs
import VncModel.Enc.Tiling
/-! `decodeHextile (serverHextile P) = P` for the faithful model of `sendHextiles##bpp`. -/
namespace VncModel.Enc.Server
open VncModel.Enc VncModel.Enc.Spec

/-! ### `testColours` -/

structure TCPost (ps : List Pixel) (c1 c2 : Pixel) (n1 n2 : Nat)
    (r : Pixel × Pixel × Nat × Nat × Bool × Bool) : Prop where
  n1le : n1 ≤ r.2.2.1
  n2le : n2 ≤ r.2.2.2.1
  c1keep : 0 < n1 → r.1 = c1
  c2keep : 0 < n2 → r.2.1 = c2
  solid_iff : (r.2.2.2.2.1 = true ↔ r.2.2.2.1 = 0)
  solid_all : r.2.2.2.1 = 0 → ∀ p ∈ ps, p = r.1
  mono_all : r.2.2.2.2.2 = true → ∀ p ∈ ps, p = r.1 ∨ p = r.2.1
  c1mem : 0 < r.2.2.1 → 0 < n1 ∨ r.1 ∈ ps
  c2mem : 0 < r.2.2.2.1 → 0 < n2 ∨ r.2.1 ∈ ps
  n1pos : ps ≠ [] → 0 < r.2.2.1

theorem testColoursLoop_post (ps : List Pixel) : ∀ (c1 c2 : Pixel) (n1 n2 : Nat) (solid : Bool),
    (solid = true ↔ n2 = 0) →
    TCPost ps c1 c2 n1 n2 (testColoursLoop ps c1 c2 n1 n2 solid) := by
  induction ps with
  | nil =>
    intro c1 c2 n1 n2 solid hs
    simp only [testColoursLoop]
    exact ⟨Nat.le_refl _, Nat.le_refl _, fun _ => rfl, fun _ => rfl, hs, by simp, by simp,
      fun h => Or.inl h, fun h => Or.inl h, by simp⟩
  | cons p ps ih =>
    intro c1 c2 n1 n2 solid hs
    simp only [testColoursLoop]
    by_cases h1 : p = (if n1 = 0 then p else c1)
    · rw [if_pos h1]
      have := ih (if n1 = 0 then p else c1) c2 (n1 + 1) n2 solid hs
      refine ⟨by have := this.n1le; omega, this.n2le, ?_, this.c2keep, this.solid_iff, ?_, ?_, ?_, ?_,
        fun _ => by have := this.n1le; omega⟩
      · intro hn; rw [this.c1keep (by omega)]; simp; omega
      · intro h0 q hq
        have hc := this.c1keep (by omega)
        rcases List.mem_cons.mp hq with e | e
        · rw [e, hc]; exact h1
        · exact this.solid_all h0 q e
      · intro hm q hq
        have hc := this.c1keep (by omega)
        rcases List.mem_cons.mp hq with e | e
        · left; rw [e, hc]; exact h1
        · exact this.mono_all hm q e
      · intro _
        have hc := this.c1keep (by omega)
        by_cases hn : 0 < n1
        · exact Or.inl hn
        · right; rw [hc]; simp [show n1 = 0 by omega]
      · intro h0
        rcases this.c2mem h0 with e | e
        · exact Or.inl e
        · exact Or.inr (List.mem_cons_of_mem _ e)
    · rw [if_neg h1]
      have hn1 : 0 < n1 := by
        rcases Nat.eq_zero_or_pos n1 with e | e
        · simp [e] at h1
        · exact e
      have hc1 : (if n1 = 0 then p else c1) = c1 := by simp [show n1 ≠ 0 by omega]
      rw [hc1] at h1 ⊢
      by_cases h2 : p = (if n2 = 0 then p else c2)
      · rw [if_pos h2]
        have := ih c1 (if n2 = 0 then p else c2) n1 (n2 + 1) (if n2 = 0 then false else solid)
          (by constructor
              · intro h
                by_cases e : n2 = 0
                · rw [if_pos e] at h; exact absurd h (by decide)
                · rw [if_neg e] at h; exact absurd (hs.mp h) e
              · intro h; omega)
        have hc2 := this.c2keep (by omega)
        refine ⟨this.n1le, by have := this.n2le; omega, this.c1keep, ?_, this.solid_iff, ?_, ?_, ?_, ?_,
          fun _ => by have := this.n1le; omega⟩
        · intro hn; rw [hc2]; simp; omega
        · intro h0; have := this.n2le; omega
        · intro hm q hq
          rcases List.mem_cons.mp hq with e | e
          · right; rw [e, hc2]; exact h2
          · exact this.mono_all hm q e
        · intro h0
          rcases this.c1mem h0 with e | e
          · exact Or.inl e
          · exact Or.inr (List.mem_cons_of_mem _ e)
        · intro _
          by_cases hn : 0 < n2
          · exact Or.inl hn
          · right; rw [hc2]; simp [show n2 = 0 by omega]
      · rw [if_neg h2]
        have hn2 : 0 < n2 := by
          rcases Nat.eq_zero_or_pos n2 with e | e
          · simp [e] at h2
          · exact e
        have hne : n2 ≠ 0 := by omega
        simp only [hne, if_false]
        refine ⟨Nat.le_refl _, Nat.le_refl _, fun _ => rfl, fun _ => rfl, hs, ?_, by simp,
          fun _ => Or.inl hn1, fun _ => Or.inl hn2, fun _ => hn1⟩
        intro h0; simp only at h0; omega

/-- what the tile loop uses about `testColours` -/
theorem testColours_spec (px : List Pixel) :
    ((testColours px).solid = true → ∀ p ∈ px, p = (testColours px).bg) ∧
    ((testColours px).mono = true → ∀ p ∈ px, p = (testColours px).bg ∨ p = (testColours px).fg) ∧
    ((testColours px).solid = false → (testColours px).bg ∈ px ∧ (testColours px).fg ∈ px) := by
  have post := testColoursLoop_post px 0 0 0 0 true (by simp)
  unfold testColours
  generalize testColoursLoop px 0 0 0 0 true = r at post
  obtain ⟨c1, c2, n1, n2, solid, mono⟩ := r
  simp only at post ⊢
  have hsi := post.solid_iff
  simp only at hsi
  by_cases hgt : n1 > n2
  · simp only [hgt, if_true]
    refine ⟨?_, ?_, ?_⟩
    · intro hs; exact post.solid_all (hsi.mp hs)
    · intro hm; exact post.mono_all hm
    · intro hs
      have hn2 : 0 < n2 := by
        rcases Nat.eq_zero_or_pos n2 with e | e
        · have := hsi.mpr e; simp [this] at hs
        · exact e
      constructor
      · rcases post.c1mem (by simp only; omega) with e | e
        · simp at e
        · exact e
      · rcases post.c2mem (by simpa using hn2) with e | e
        · simp at e
        · exact e
  · simp only [hgt, if_false]
    refine ⟨?_, ?_, ?_⟩
    · intro hs
      have h0 : n2 = 0 := hsi.mp hs
      have h10 : n1 = 0 := by omega
      intro p hp
      have : px ≠ [] := by intro e; rw [e] at hp; simp at hp
      have := post.n1pos this
      simp only at this; omega
    · intro hm p hp
      rcases post.mono_all hm p hp with e | e
      · exact Or.inr e
      · exact Or.inl e
    · intro hs
      have hn2 : 0 < n2 := by
        rcases Nat.eq_zero_or_pos n2 with e | e
        · have := hsi.mpr e; simp [this] at hs
        · exact e
      have hne : px ≠ [] := by
        intro e
        have := post.c2mem (by simpa using hn2)
        rw [e] at this; simp at this
      have hn1 := post.n1pos hne
      constructor
      · rcases post.c2mem (by simpa using hn2) with e | e
        · simp at e
        · exact e
      · rcases post.c1mem hn1 with e | e
        · simp at e
        · exact e

/-! ### decoder side: the three tile shapes -/

theorem decodeHextileTile_raw (bpp tw th : Nat) (dst : HexState) (px : List Pixel) (rest : Bytes)
    (hlen : px.length = tw * th) (hpx : ∀ p ∈ px, PixOK bpp p) :
    decodeHextileTile bpp tw th dst (u8 1 ++ pixelsBytes bpp px ++ rest) = some ((px, dst), rest) := by
  simp only [u8, List.cons_append, List.nil_append, decodeHextileTile]
  have : (UInt8.ofNat 1).toNat % 2 = 1 := by decide
  simp only [this, if_true]
  rw [← hlen, readPixels_pixelsBytes bpp px rest hpx]
  rfl

theorem decodeHextileTile_solid (bpp tw th : Nat) (dst : HexState) (bgSpec : Bool) (bg : Pixel)
    (rest : Bytes) (hbg : if bgSpec then PixOK bpp bg else dst.bg = some bg) :
    decodeHextileTile bpp tw th dst
        (u8 (if bgSpec then 2 else 0) ++ (if bgSpec then pixBytes bpp bg else []) ++ rest) =
      some (((List.replicate (tw * th) bg), ⟨some bg, dst.fg⟩), rest) := by
  cases bgSpec with
  | true =>
    simp only [if_true] at hbg ⊢
    simp only [u8, List.cons_append, List.nil_append, decodeHextileTile]
    have e1 : (UInt8.ofNat 2).toNat % 2 = 0 := by decide
    have e2 : (UInt8.ofNat 2).toNat / 2 % 2 = 1 := by decide
    have e3 : (UInt8.ofNat 2).toNat / 4 % 2 = 0 := by decide
    have e4 : (UInt8.ofNat 2).toNat / 8 % 2 = 0 := by decide
    simp [e1, e2, e3, e4, optPixel, readPixel_pixBytes _ _ _ hbg]
  | false =>
    simp only [Bool.false_eq_true, if_false] at hbg ⊢
    simp only [u8, List.cons_append, List.nil_append, decodeHextileTile]
    have e1 : (UInt8.ofNat 0).toNat % 2 = 0 := by decide
    have e2 : (UInt8.ofNat 0).toNat / 2 % 2 = 0 := by decide
    have e3 : (UInt8.ofNat 0).toNat / 4 % 2 = 0 := by decide
    have e4 : (UInt8.ofNat 0).toNat / 8 % 2 = 0 := by decide
    simp [e1, e2, e3, e4, optPixel, hbg]

/-- flag byte of a tile with sub-rectangles -/
def subFlags (bgSpec fgSpec coloured : Bool) : Nat :=
  (if bgSpec then 2 else 0) + 8 + (if coloured then 16 else if fgSpec then 4 else 0)

theorem decodeHextileTile_sub (bpp tw th : Nat) (dst : HexState) (bgSpec fgSpec coloured : Bool)
    (bg fg : Pixel) (rs : List Subrect) (rest : Bytes)
    (hbg : if bgSpec then PixOK bpp bg else dst.bg = some bg)
    (hfg : if fgSpec then PixOK bpp fg ∧ coloured = false else (coloured = false → dst.fg = some fg))
    (hn : rs.length < 256)
    (hcodec : ∀ r ∈ rs, SubCodec (if coloured then readPixel bpp else fun b => some (fg, b))
      readGeomHex (if coloured then pixBytes bpp else fun _ => []) geomHex tw th r) :
    decodeHextileTile bpp tw th dst
        (u8 (subFlags bgSpec fgSpec coloured) ++ (if bgSpec then pixBytes bpp bg else []) ++
          (if fgSpec then pixBytes bpp fg else []) ++ u8 rs.length ++
          subrectsBytes (if coloured then pixBytes bpp else fun _ => []) geomHex rs ++ rest) =
      some (((paintRects tw th bg rs).toList, ⟨some bg, if fgSpec then some fg else dst.fg⟩), rest) := by
  have hcount : ∀ t, readU8 (u8 rs.length ++ t) = some (rs.length, t) := fun t => readU8_u8 hn t
  have hsub := readSubrects_subrectsBytes rs rest hcodec
  cases bgSpec <;> cases fgSpec <;> cases coloured <;>
    simp only [subFlags, if_true, if_false, Bool.false_eq_true, List.nil_append, List.append_nil,
      List.append_assoc, Nat.zero_add, Nat.add_zero] at hbg hfg hsub ⊢ <;>
    simp only [u8, List.cons_append, List.nil_append, decodeHextileTile] <;>
    simp only [u8, List.cons_append, List.nil_append] at hcount
  all_goals first
    | (have e1 : (UInt8.ofNat 8).toNat % 2 = 0 := by decide
       have e2 : (UInt8.ofNat 8).toNat / 2 % 2 = 0 := by decide
       have e3 : (UInt8.ofNat 8).toNat / 4 % 2 = 0 := by decide
       have e4 : (UInt8.ofNat 8).toNat / 8 % 2 = 1 := by decide
       have e5 : (UInt8.ofNat 8).toNat / 16 % 2 = 0 := by decide
       simp only [e1, e2, e3, e4, e5]
       simp [optPixel, hbg, hfg, hcount, hsub]; done)
    | (have e1 : (UInt8.ofNat (8 + 16)).toNat % 2 = 0 := by decide
       have e2 : (UInt8.ofNat (8 + 16)).toNat / 2 % 2 = 0 := by decide
       have e3 : (UInt8.ofNat (8 + 16)).toNat / 4 % 2 = 0 := by decide
       have e4 : (UInt8.ofNat (8 + 16)).toNat / 8 % 2 = 1 := by decide
       have e5 : (UInt8.ofNat (8 + 16)).toNat / 16 % 2 = 1 := by decide
       simp only [e1, e2, e3, e4, e5]
       simp [optPixel, hbg, hcount, hsub]; done)
    | (have e1 : (UInt8.ofNat (8 + 4)).toNat % 2 = 0 := by decide
       have e2 : (UInt8.ofNat (8 + 4)).toNat / 2 % 2 = 0 := by decide
       have e3 : (UInt8.ofNat (8 + 4)).toNat / 4 % 2 = 1 := by decide
       have e4 : (UInt8.ofNat (8 + 4)).toNat / 8 % 2 = 1 := by decide
       have e5 : (UInt8.ofNat (8 + 4)).toNat / 16 % 2 = 0 := by decide
       simp only [e1, e2, e3, e4, e5]
       simp [optPixel, hbg, readPixel_pixBytes _ _ _ hfg.1, hcount, hsub]; done)
    | (have e1 : (UInt8.ofNat (2 + 8)).toNat % 2 = 0 := by decide
       have e2 : (UInt8.ofNat (2 + 8)).toNat / 2 % 2 = 1 := by decide
       have e3 : (UInt8.ofNat (2 + 8)).toNat / 4 % 2 = 0 := by decide
       have e4 : (UInt8.ofNat (2 + 8)).toNat / 8 % 2 = 1 := by decide
       have e5 : (UInt8.ofNat (2 + 8)).toNat / 16 % 2 = 0 := by decide
       simp only [e1, e2, e3, e4, e5]
       simp [optPixel, readPixel_pixBytes _ _ _ hbg, hfg, hcount, hsub]; done)
    | (have e1 : (UInt8.ofNat (2 + 8 + 16)).toNat % 2 = 0 := by decide
       have e2 : (UInt8.ofNat (2 + 8 + 16)).toNat / 2 % 2 = 1 := by decide
       have e3 : (UInt8.ofNat (2 + 8 + 16)).toNat / 4 % 2 = 0 := by decide
       have e4 : (UInt8.ofNat (2 + 8 + 16)).toNat / 8 % 2 = 1 := by decide
       have e5 : (UInt8.ofNat (2 + 8 + 16)).toNat / 16 % 2 = 1 := by decide
       simp only [e1, e2, e3, e4, e5]
       simp [optPixel, readPixel_pixBytes _ _ _ hbg, hcount, hsub]; done)
    | (have e1 : (UInt8.ofNat (2 + 8 + 4)).toNat % 2 = 0 := by decide
       have e2 : (UInt8.ofNat (2 + 8 + 4)).toNat / 2 % 2 = 1 := by decide
       have e3 : (UInt8.ofNat (2 + 8 + 4)).toNat / 4 % 2 = 1 := by decide
       have e4 : (UInt8.ofNat (2 + 8 + 4)).toNat / 8 % 2 = 1 := by decide
       have e5 : (UInt8.ofNat (2 + 8 + 4)).toNat / 16 % 2 = 0 := by decide
       simp only [e1, e2, e3, e4, e5]
       simp [optPixel, readPixel_pixBytes _ _ _ hbg, readPixel_pixBytes _ _ _ hfg.1, hcount, hsub]; done)
    | (exfalso; simp at hfg; done)


/-! ### the tile loop -/

/-- what the decoder has to know about the encoder's `validBg/bg/validFg/fg` -/
def HexRel (st : HexSrv) (dst : HexState) : Prop :=
  (st.validBg = true → dst.bg = some st.bg) ∧ (st.validFg = true → dst.fg = some st.fg)

theorem hextileTile_decodes (bpp tw th : Nat) (px : List Pixel) (st : HexSrv) (dst : HexState)
    (rest : Bytes) (htw : 1 ≤ tw ∧ tw ≤ 16) (hth : 1 ≤ th ∧ th ≤ 16)
    (hlen : px.length = tw * th) (hpx : ∀ p ∈ px, PixOK bpp p) (hrel : HexRel st dst) :
    ∃ dst', decodeHextileTile bpp tw th dst ((hextileTile bpp tw th px st).1 ++ rest) =
        some ((px, dst'), rest) ∧ HexRel (hextileTile bpp tw th px st).2 dst' := by
  obtain ⟨hsolid, hmono, hnsolid⟩ := testColours_spec px
  have harea : 1 ≤ tw * th ∧ tw * th ≤ 256 := by
    constructor
    · exact Nat.mul_le_mul htw.1 hth.1
    · calc tw * th ≤ 16 * 16 := Nat.mul_le_mul htw.2 hth.2
        _ = 256 := by decide
  have hne : px ≠ [] := by intro e; rw [e] at hlen; simp at hlen; omega
  unfold hextileTile
  generalize testColours px = tc at *
  -- background part
  have hbgspec : ∀ nb : Bool, nb = (!st.validBg || tc.bg != st.bg) → PixOK bpp tc.bg →
      (if nb then PixOK bpp tc.bg else dst.bg = some tc.bg) := by
    intro nb hnb hok
    cases nb with
    | true => simpa using hok
    | false =>
      simp only [Bool.false_eq_true, if_false]
      have h' := hnb.symm
      simp only [Bool.or_eq_false_iff, Bool.not_eq_false', bne_eq_false_iff_eq] at h'
      rw [hrel.1 h'.1, h'.2]
  by_cases hs : tc.solid = true
  · -- solid tile
    have hall := hsolid hs
    have hbgok : PixOK bpp tc.bg := by
      cases px with
      | nil => exact absurd rfl hne
      | cons p ps => rw [← hall p (by simp)]; exact hpx p (by simp)
    have hrep : px = List.replicate (tw * th) tc.bg := by
      rw [List.eq_replicate_iff]; exact ⟨hlen, hall⟩
    simp only [hs, if_true]
    generalize hnb : (!st.validBg || tc.bg != st.bg) = nb
    have := decodeHextileTile_solid bpp tw th dst nb tc.bg rest (hbgspec nb hnb.symm hbgok)
    refine ⟨⟨some tc.bg, dst.fg⟩, ?_, ?_⟩
    · rw [hrep] at *
      simpa [List.append_assoc] using this
    · cases nb with
      | true => exact ⟨fun _ => rfl, hrel.2⟩
      | false =>
        simp only [Bool.or_eq_false_iff, Bool.not_eq_false', bne_eq_false_iff_eq] at hnb
        simp only [Bool.false_eq_true, if_false]
        exact ⟨fun _ => by rw [hnb.2], hrel.2⟩
  · have hs' : tc.solid = false := by simpa using hs
    obtain ⟨hbgmem, hfgmem⟩ := hnsolid hs'
    have hbgok := hpx _ hbgmem
    have hfgok := hpx _ hfgmem
    simp only [hs', Bool.false_eq_true, if_false]
    generalize hnb : (!st.validBg || tc.bg != st.bg) = nb
    have hbg := hbgspec nb hnb.symm hbgok
    -- state after the background update
    have hst1bg : (if nb = true then ({ st with validBg := true, bg := tc.bg } : HexSrv) else st).bg = tc.bg := by
      cases nb with
      | true => rfl
      | false =>
        simp only [Bool.or_eq_false_iff, Bool.not_eq_false', bne_eq_false_iff_eq] at hnb
        simp [hnb.2]
    have hst1fg : (if nb = true then ({ st with validBg := true, bg := tc.bg } : HexSrv) else st).fg = st.fg ∧
        (if nb = true then ({ st with validBg := true, bg := tc.bg } : HexSrv) else st).validFg = st.validFg := by
      cases nb <;> simp
    generalize hst1 : (if nb = true then ({ st with validBg := true, bg := tc.bg } : HexSrv) else st) = st1 at *
    generalize hnf : (tc.mono && (!st1.validFg || tc.fg != st1.fg)) = nf
    have hst2bg : (if tc.mono = true then (if nf = true then ({ st1 with validFg := true, fg := tc.fg } : HexSrv) else st1)
        else { st1 with validFg := false }).bg = tc.bg := by
      cases tc.mono <;> cases nf <;> simp [hst1bg]
    generalize hst2 : (if tc.mono = true then (if nf = true then ({ st1 with validFg := true, fg := tc.fg } : HexSrv) else st1)
        else { st1 with validFg := false }) = st2 at *
    rw [hst2bg]
    cases hse : subrectEncode tw th tc.bg (if tc.mono = true then 2 else bpp + 2) (tw * th * bpp) 1 px.toArray with
    | none =>
      refine ⟨dst, ?_, ?_⟩
      · simpa [List.append_assoc] using decodeHextileTile_raw bpp tw th dst px rest hlen hpx
      · exact ⟨by simp, by simp⟩
    | some v =>
      obtain ⟨rs, len⟩ := v
      obtain ⟨post, _, _⟩ := subrectEncode_spec tw th tc.bg _ _ _ px.toArray (by simp [hlen]) rs len hse
      have hcnt : rs.length < 256 := by
        obtain ⟨q, hq⟩ := List.getElem_of_mem hbgmem
        obtain ⟨hq1, hq2⟩ := hq
        have := post.cnt q (by omega) (by
          simp only [toArray_getD, List.getD_eq_getElem?_getD, List.getElem?_eq_getElem hq1]
          simpa using hq2)
        omega
      have hpaint := paint_eq_input tw th tc.bg px rs hlen post
      have hgeom : ∀ r ∈ rs, ∀ t, readGeomHex (geomHex (r.x, r.y, r.w, r.h) ++ t) = some ((r.x, r.y, r.w, r.h), t) := by
        intro r hr t
        obtain ⟨h1, h2, h3, h4, _, _⟩ := post.wf r hr
        apply readGeomHex_geomHex; simp only; omega
      have hcol : ∀ r ∈ rs, PixOK bpp r.c ∧ r.c ≠ tc.bg ∧ r.c ∈ px := by
        intro r hr
        obtain ⟨_, _, _, _, h5, i, hi, hc⟩ := post.wf r hr
        have : r.c ∈ px := by rw [hc, toArray_getD]; exact getD_mem px i (by omega)
        exact ⟨hpx _ this, h5, this⟩
      have key := decodeHextileTile_sub bpp tw th dst nb nf (!tc.mono) tc.bg tc.fg rs rest hbg
        (by
          cases nf with
          | true =>
            simp only [if_true]
            have : tc.mono = true := by
              cases hm : tc.mono with
              | true => rfl
              | false => simp [hm] at hnf
            exact ⟨hfgok, by simp [this]⟩
          | false =>
            simp only [Bool.false_eq_true, if_false]
            intro hm
            have hm' : tc.mono = true := by simpa using hm
            simp only [hm', Bool.true_and, Bool.or_eq_false_iff, Bool.not_eq_false',
              bne_eq_false_iff_eq] at hnf
            rw [hnf.2, hst1fg.1]
            apply hrel.2
            rw [← hst1fg.2]; exact hnf.1)
        hcnt
        (by
          intro r hr
          obtain ⟨h1, h2, _, _, _, _⟩ := post.wf r hr
          obtain ⟨hok, hne', hmem⟩ := hcol r hr
          cases hm : tc.mono with
          | true =>
            simp only [Bool.not_true, Bool.false_eq_true, if_false]
            refine ⟨?_, hgeom r hr, ⟨h1, h2⟩⟩
            intro t
            rcases hmono hm r.c hmem with e | e
            · exact absurd e hne'
            · simp [e]
          | false =>
            simp only [Bool.not_false, if_true]
            exact ⟨fun t => readPixel_pixBytes _ _ _ hok, hgeom r hr, ⟨h1, h2⟩⟩)
      refine ⟨⟨some tc.bg, if nf = true then some tc.fg else dst.fg⟩, ?_, ?_⟩
      · rw [hpaint] at key
        have hflags : (if nb = true then 2 else 0) + 8 + (if tc.mono = true then if nf = true then 4 else 0 else 16) =
            subFlags nb nf (!tc.mono) := by
          unfold subFlags; cases tc.mono <;> simp
        rw [hflags]
        have hmonoeq : (if tc.mono = true then (fun (_ : Pixel) => ([] : Bytes)) else pixBytes bpp) =
            (if (!tc.mono) = true then pixBytes bpp else fun _ => []) := by
          cases tc.mono <;> simp
        rw [hmonoeq]
        simpa [List.append_assoc] using key
      · subst hst2
        constructor
        · intro _; simp only; rw [hst2bg]
        · intro hv
          cases hm : tc.mono with
          | false => simp [hm] at hv
          | true =>
            simp only [hm, if_true] at hv ⊢
            cases nf with
            | true => simp
            | false =>
              simp only [Bool.false_eq_true, if_false] at hv ⊢
              rw [hst1fg.1]; apply hrel.2; rw [← hst1fg.2]; exact hv


theorem hextileTiles_decodes (bpp W : Nat) (px : List Pixel) (hpx : ∀ p ∈ px, PixOK bpp p) :
    ∀ (tiles : List TileRect) (st : HexSrv) (dst : HexState) (rest : Bytes),
      (∀ t ∈ tiles, 1 ≤ t.w ∧ t.w ≤ 16 ∧ 1 ≤ t.h ∧ t.h ≤ 16) → HexRel st dst →
      decodeHextileTiles bpp tiles dst (hextileTiles bpp W px.toArray tiles st ++ rest) =
        some (tiles.map (extractTile px.toArray W), rest) := by
  intro tiles
  induction tiles with
  | nil => intro st dst rest _ _; simp [decodeHextileTiles, hextileTiles]
  | cons t ts ih =>
    intro st dst rest hd hrel
    obtain ⟨h1, h2, h3, h4⟩ := hd t (by simp)
    simp only [hextileTiles, decodeHextileTiles, List.append_assoc, List.map_cons]
    obtain ⟨dst', hdec, hrel'⟩ := hextileTile_decodes bpp t.w t.h (extractTile px.toArray W t) st dst
      (hextileTiles bpp W px.toArray ts (hextileTile bpp t.w t.h (extractTile px.toArray W t) st).2 ++ rest)
      ⟨h1, h2⟩ ⟨h3, h4⟩ (extractTile_length _ _ _) (extractTile_ok bpp px W t hpx) hrel
    rw [hdec]
    simp only
    rw [ih _ dst' rest (fun q hq => hd q (by simp [hq])) hrel']
    rfl

/-- **Hextile**: what the faithful model of `sendHextiles##bpp` emits for a rectangle decodes, by
the Hextile rules alone, to exactly the rectangle's pixels. -/
theorem serverHextile_decodes (bpp : Nat) (g : Geometry) (px : List Pixel) (rest : Bytes)
    (hlen : px.length = g.w * g.h) (hpx : ∀ p ∈ px, PixOK bpp p) :
    decodeHextile g bpp (serverHextile bpp g px ++ rest) = some (px, rest) := by
  unfold decodeHextile serverHextile
  rw [hextileTiles_decodes bpp g.w px hpx (tileGrid 16 g) {} {} rest
    (tileGrid_dims 16 (by decide) g) ⟨by simp, by simp⟩]
  simp only [Option.map_some]
  rw [assemble_extract 16 (by decide) g px hlen]

end VncModel.Enc.Server
