import VncModel.Enc.Containers
/-!
# The zlib streams of a connection persist

* `streams_persist`: several independent streams (Tight has four, Zlib and ZRLE one each): whatever
  the interleaving of chunks on the streams, a decoder that keeps ONE inflate state per stream for the
  whole connection recovers every chunk — i.e. the decoder's state for a stream is determined by all
  bytes sent on that stream so far, and the encoder must never restart a stream on its own.
* `zlibSession`: model of the Zlib encoder's connection-level state in rfbserver.c / zlib.c:
  `compStreamInited`, `compStream`, `zlibCompressLevel`.  SetEncodings only stores the level; the level
  is used when the stream is created lazily by the first non-tiny rectangle and never again.
  `zlib_session_decodes`: for EVERY sequence of SetEncodings (any levels, any other encodings in
  between) and rectangles, one persistent decoder stream decodes every Zlib rectangle.
-/
namespace VncModel.Enc.Server
open VncModel.Enc VncModel.Enc.Spec

def updFn {α : Type} (f : Nat → α) (i : Nat) (v : α) : Nat → α := fun j => if j = i then v else f j

/-- server: chunk `data` goes through stream `i` -/
def srvRun {σ τ : Type} (Z : ZLaw σ τ) : (Nat → σ) → List (Nat × Bytes) → List (Nat × Bytes)
  | _, [] => []
  | ss, (i, d) :: more => (i, (Z.deflate (ss i) d).1) :: srvRun Z (updFn ss i (Z.deflate (ss i) d).2) more

/-- client: one persistent inflate state per stream -/
def cliRun {σ τ : Type} (Z : ZLaw σ τ) : (Nat → τ) → List (Nat × Bytes) → Option (List Bytes)
  | _, [] => some []
  | ts, (i, z) :: more =>
    match Z.inflate (ts i) z with
    | none => none
    | some (d, t') => (cliRun Z (updFn ts i t') more).map (d :: ·)

theorem streams_persist {σ τ : Type} (Z : ZLaw σ τ) : ∀ (evs : List (Nat × Bytes)) (ss : Nat → σ) (ts : Nat → τ),
    (∀ i, Z.Sync (ss i) (ts i)) → cliRun Z ts (srvRun Z ss evs) = some (evs.map (·.2)) := by
  intro evs
  induction evs with
  | nil => intro ss ts _; rfl
  | cons e more ih =>
    intro ss ts h
    obtain ⟨i, d⟩ := e
    obtain ⟨t', h1, h2⟩ := Z.law (ss i) (ts i) d (h i)
    simp only [srvRun, cliRun, h1, List.map_cons]
    rw [ih (updFn ss i (Z.deflate (ss i) d).2) (updFn ts i t') (by
      intro j; unfold updFn; by_cases hj : j = i
      · simp [hj, h2]
      · simp [hj, h j])]
    rfl

/-! ### the Zlib encoder's connection state -/

/-- a compressor that can be created at any level; every fresh compressor is in sync with a fresh
decompressor (the level only influences how well it compresses) -/
structure ZInit (σ τ : Type) extends ZLaw σ τ where
  init : Nat → σ
  tinit : τ
  fresh : ∀ lvl, Sync (init lvl) tinit

structure ZlibConn (σ : Type) where
  stream : Option σ      -- `none` = `compStreamInited == FALSE`
  level : Nat            -- `cl->zlibCompressLevel`

inductive ZlibEv where
  | setLevel (n : Nat)                  -- SetEncodings with a CompressLevel pseudo-encoding
  | other                               -- any other message / rectangles in other encodings
  | rect (g : Geometry) (px : List Pixel)   -- a non-tiny Zlib rectangle

/-- rfbserver.c (SetEncodings) + zlib.c (`rfbSendOneRectEncodingZlib`): output = payloads of the Zlib
rectangles -/
def zlibSession {σ τ : Type} (Z : ZInit σ τ) (bpp : Nat) : ZlibConn σ → List ZlibEv → List (Geometry × Bytes)
  | _, [] => []
  | c, .setLevel n :: more => zlibSession Z bpp { c with level := n } more
  | c, .other :: more => zlibSession Z bpp c more
  | c, .rect g px :: more =>
    let s := match c.stream with
      | some s => s
      | none => Z.init c.level                     -- lazy `deflateInit2(…, zlibCompressLevel, …)`
    let r := chunkPayload Z.toZLaw s (pixelsBytes bpp px)
    (g, r.1) :: zlibSession Z bpp { c with stream := some r.2 } more

def rectsOf : List ZlibEv → List (Geometry × List Pixel)
  | [] => []
  | .rect g px :: more => (g, px) :: rectsOf more
  | _ :: more => rectsOf more

theorem zlibSession_eq_seq {σ τ : Type} (Z : ZInit σ τ) (bpp : Nat) :
    ∀ (evs : List ZlibEv) (s : σ) (lvl : Nat),
      zlibSession Z bpp ⟨some s, lvl⟩ evs =
        ((rectsOf evs).map (·.1)).zip (serverZlibSeq Z.toZLaw bpp s (rectsOf evs)) := by
  intro evs
  induction evs with
  | nil => intro s lvl; rfl
  | cons e more ih =>
    intro s lvl
    cases e with
    | setLevel n => simp only [zlibSession, rectsOf]; exact ih s n
    | other => simp only [zlibSession, rectsOf]; exact ih s lvl
    | rect g px =>
      simp only [zlibSession, rectsOf, List.map_cons, serverZlibSeq, List.zip_cons_cons]
      rw [ih]

/-- **the Zlib stream persists for the connection**: whatever SetEncodings messages (level changes,
other encodings) come between the rectangles, a client with ONE inflate stream decodes every Zlib
rectangle to its pixels -/
theorem zlib_session_decodes {σ τ : Type} (Z : ZInit σ τ) (bpp : Nat) (evs : List ZlibEv) (lvl0 : Nat)
    (h : ∀ r ∈ rectsOf evs, r.2.length = r.1.w * r.1.h ∧ ∀ p ∈ r.2, PixOK bpp p) :
    clientZlibSeq Z.toZLaw bpp Z.tinit (zlibSession Z bpp ⟨none, lvl0⟩ evs) = some ((rectsOf evs).map (·.2)) := by
  -- skip events until the first rectangle creates the stream
  induction evs generalizing lvl0 with
  | nil => rfl
  | cons e more ih =>
    cases e with
    | setLevel n => simp only [zlibSession, rectsOf] at h ⊢; exact ih n h
    | other => simp only [zlibSession, rectsOf] at h ⊢; exact ih lvl0 h
    | rect g px =>
      have key := zlibSeq_decodes Z.toZLaw bpp (rectsOf (.rect g px :: more)) (Z.init lvl0) Z.tinit
        (Z.fresh lvl0) h
      simp only [zlibSession, rectsOf, List.map_cons, serverZlibSeq, List.zip_cons_cons] at key ⊢
      rw [zlibSession_eq_seq]
      exact key

end VncModel.Enc.Server
