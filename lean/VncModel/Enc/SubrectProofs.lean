import VncModel.Enc.Server
import VncModel.Enc.Ref
/-! Correctness of the faithful `subrectEncode` model: the sub-rectangles it emits, painted over
the background, reproduce the input array exactly (for every array, size, background). -/
namespace VncModel.Enc.Server
open VncModel.Enc VncModel.Enc.Spec

theorem runLen_le (d : Array Pixel) (base : Nat) (c : Pixel) (f i : Nat) : runLen d base c f i ≤ f := by
  induction f generalizing i with
  | zero => simp [runLen]
  | succ f ih =>
    simp only [runLen]
    split
    · have := ih (i + 1); omega
    · omega

theorem runLen_spec (d : Array Pixel) (base : Nat) (c : Pixel) (f i k : Nat)
    (hk : k < runLen d base c f i) : d.getD (base + (i + k)) 0 = c := by
  induction f generalizing i k with
  | zero => simp [runLen] at hk
  | succ f ih =>
    simp only [runLen] at hk
    split at hk
    · rename_i h0
      cases k with
      | zero => simpa using h0
      | succ k =>
        have := ih (i + 1) k (by omega)
        have e : base + (i + 1 + k) = base + (i + (k + 1)) := by omega
        rw [e] at this; exact this
    · omega

theorem runLen_pos (d : Array Pixel) (base : Nat) (c : Pixel) (f i : Nat)
    (h : d.getD (base + i) 0 = c) : 0 < runLen d base c (f + 1) i := by
  simp [runLen, h]

/-- rows `y … y+n-1`, columns `x … kx` all hold `c` -/
def RowsOK (d : Array Pixel) (w x y : Nat) (c : Pixel) (n kx : Nat) : Prop :=
  ∀ r k, r < n → x ≤ k → k ≤ kx → d.getD ((y + r) * w + k) 0 = c

structure ScanInv (d : Array Pixel) (w x y : Nat) (c : Pixel) (j : Nat) (s : Scan) : Prop where
  rows_eq : y + s.rows = j
  hh_le : s.hh ≤ s.rows
  flag : s.hflag = true → s.hh = s.rows
  pos : 0 < s.rows → x ≤ s.vx ∧ s.vx ≤ s.hx ∧ s.hx < w
  vOK : RowsOK d w x y c s.rows s.vx
  hOK : RowsOK d w x y c s.hh s.hx

theorem scanRows_inv (d : Array Pixel) (w x y : Nat) (c : Pixel) (hxw : x < w) :
    ∀ (f j : Nat) (s : Scan), ScanInv d w x y c j s →
      ∃ j', ScanInv d w x y c j' (scanRows d w x c f j s) ∧ j' ≤ j + f ∧
        s.rows ≤ (scanRows d w x c f j s).rows := by
  intro f
  induction f with
  | zero => intro j s h; exact ⟨j, by simpa [scanRows] using h, by omega, by simp [scanRows]⟩
  | succ f ih =>
    intro j s h
    simp only [scanRows]
    by_cases hc : d.getD (j * w + x) 0 = c
    · simp only [hc, ne_eq, not_true_eq_false, if_false]
      -- the run in row j
      have hn1 : 0 < runLen d (j * w) c (w - x) x := by
        have : w - x = (w - x - 1) + 1 := by omega
        rw [this]; exact runLen_pos _ _ _ _ _ hc
      have hn2 := runLen_le d (j * w) c (w - x) x
      have hrun : ∀ k, x ≤ k → k ≤ x + runLen d (j * w) c (w - x) x - 1 →
          d.getD (j * w + k) 0 = c := by
        intro k h1 h2
        have := runLen_spec d (j * w) c (w - x) x (k - x) (by omega)
        have e : x + (k - x) = k := by omega
        rw [e] at this; exact this
      generalize hi : x + runLen d (j * w) c (w - x) x - 1 = i at *
      have hix : x ≤ i := by omega
      have hiw : i < w := by omega
      have hj : j = y + s.rows := h.rows_eq.symm
      -- new state components
      have key : ∀ (hh' : Nat) (fl : Bool), (hh' = s.hh + 1 ∧ fl = true ∧ s.hflag = true ∧
            i ≥ (if s.rows = 0 then i else s.hx)) ∨ (hh' = s.hh ∧ fl = false) →
          ScanInv d w x y c (j + 1)
            ⟨if s.rows = 0 then i else s.hx,
             if i < (if s.rows = 0 then i else s.vx) then i else (if s.rows = 0 then i else s.vx),
             hh', fl, s.rows + 1⟩ := by
        intro hh' fl hcase
        by_cases h0 : s.rows = 0
        · -- first row
          have hh0 : s.hh = 0 := by have := h.hh_le; omega
          simp only [h0, if_true, Nat.lt_irrefl, if_false]
          refine ⟨by simp; omega, ?_, ?_, ?_, ?_, ?_⟩
          · rcases hcase with ⟨a, _, _, _⟩ | ⟨a, _⟩ <;> simp [a, hh0]
          · intro hfl
            rcases hcase with ⟨a, _, _, _⟩ | ⟨_, b⟩
            · simp [a, hh0]
            · simp [b] at hfl
          · intro _; exact ⟨hix, Nat.le_refl _, hiw⟩
          · intro r k hr hk1 hk2
            have : r = 0 := by simp at hr; omega
            subst this
            have : y + 0 = j := by omega
            rw [this]; exact hrun k hk1 hk2
          · intro r k hr hk1 hk2
            have : r = 0 := by
              rcases hcase with ⟨a, _, _, _⟩ | ⟨a, _⟩ <;> simp [a, hh0] at hr <;> omega
            subst this
            have : y + 0 = j := by omega
            rw [this]; exact hrun k hk1 hk2
        · have hpos := h.pos (by omega)
          simp only [h0, if_false]
          refine ⟨by simp; omega, ?_, ?_, ?_, ?_, ?_⟩
          · have := h.hh_le
            rcases hcase with ⟨a, _, b, _⟩ | ⟨a, _⟩
            · have := h.flag b; simp [a]; omega
            · simp [a]; omega
          · intro hfl
            rcases hcase with ⟨a, _, b, _⟩ | ⟨_, b⟩
            · have := h.flag b; simp [a]; omega
            · simp [b] at hfl
          · intro _
            simp only
            split <;> omega
          · intro r k hr hk1 hk2
            simp only at hr hk2
            by_cases hrl : r < s.rows
            · apply h.vOK r k hrl hk1
              split at hk2 <;> omega
            · have : r = s.rows := by omega
              subst this
              have : y + s.rows = j := by omega
              rw [this]; apply hrun k hk1
              split at hk2 <;> omega
          · intro r k hr hk1 hk2
            simp only at hr hk2
            rcases hcase with ⟨a, _, b, c2⟩ | ⟨a, _⟩
            · simp only [h0, if_false] at c2
              have hfl := h.flag b
              by_cases hrl : r < s.hh
              · exact h.hOK r k hrl hk1 hk2
              · have : r = s.rows := by omega
                subst this
                have : y + s.rows = j := by omega
                rw [this]; apply hrun k hk1; omega
            · rw [a] at hr; exact h.hOK r k hr hk1 hk2
      by_cases hcond : s.hflag = true ∧ i ≥ (if s.rows = 0 then i else s.hx)
      · rw [if_pos hcond]
        have := key (s.hh + 1) true (Or.inl ⟨rfl, rfl, hcond.1, hcond.2⟩)
        obtain ⟨j', hj', hle, hrows⟩ := ih (j + 1) _ this
        exact ⟨j', hj', by omega, by simp at hrows; omega⟩
      · rw [if_neg hcond]
        have := key s.hh false (Or.inr ⟨rfl, rfl⟩)
        obtain ⟨j', hj', hle, hrows⟩ := ih (j + 1) _ this
        exact ⟨j', hj', by omega, by simp at hrows; omega⟩
    · simp only [hc, ne_eq, not_false_eq_true, if_true]
      exact ⟨j, h, by omega, Nat.le_refl _⟩

/-- what `findRect` guarantees at an anchor whose pixel is `c` -/
theorem findRect_spec (d : Array Pixel) (w h x y : Nat) (c : Pixel) (hxw : x < w) (hyh : y < h)
    (hc : d.getD (y * w + x) 0 = c) :
    1 ≤ (findRect d w h x y c).1 ∧ 1 ≤ (findRect d w h x y c).2 ∧
    x + (findRect d w h x y c).1 ≤ w ∧ y + (findRect d w h x y c).2 ≤ h ∧
    ∀ dy dx, dy < (findRect d w h x y c).2 → dx < (findRect d w h x y c).1 →
      d.getD ((y + dy) * w + (x + dx)) 0 = c := by
  have h0 : ScanInv d w x y c y ⟨0, 0, 0, true, 0⟩ :=
    ⟨by simp, by simp, by simp, by simp, by intro r k hr; simp at hr, by intro r k hr; simp at hr⟩
  -- first step is taken
  have hf : h - y = (h - y - 1) + 1 := by omega
  obtain ⟨j', hinv, hj', hrows⟩ := scanRows_inv d w x y c hxw (h - y) y _ h0
  have hrows1 : 1 ≤ (scanRows d w x c (h - y) y ⟨0, 0, 0, true, 0⟩).rows := by
    rw [hf]
    simp only [scanRows, hc, ne_eq, not_true_eq_false, if_false]
    split
    · rename_i hcond
      obtain ⟨_, _, _, hr⟩ := scanRows_inv d w x y c hxw (h - y - 1) (y + 1)
        ⟨x + runLen d (y * w) c (w - x) x - 1, x + runLen d (y * w) c (w - x) x - 1, 1, true, 1⟩
        (by
          have hn1 : 0 < runLen d (y * w) c (w - x) x := by
            have : w - x = (w - x - 1) + 1 := by omega
            rw [this]; exact runLen_pos _ _ _ _ _ hc
          have hn2 := runLen_le d (y * w) c (w - x) x
          refine ⟨by simp, by simp, by simp, by intro _; simp only; omega, ?_, ?_⟩ <;>
          · intro r k hr hk1 hk2
            have : r = 0 := by simp at hr; omega
            subst this
            have := runLen_spec d (y * w) c (w - x) x (k - x) (by simp only at hk2; omega)
            have e : x + (k - x) = k := by omega
            rw [e] at this; simpa using this)
      simp at hr ⊢
      omega
    · rename_i hcond
      exfalso; apply hcond; simp
  simp only [findRect]
  generalize scanRows d w x c (h - y) y ⟨0, 0, 0, true, 0⟩ = s at *
  have hpos := hinv.pos (by omega)
  have hjr := hinv.rows_eq
  have hhle := hinv.hh_le
  split
  · rename_i hgt
    have hh1 : 1 ≤ s.hh := by
      rcases Nat.eq_zero_or_pos s.hh with h0 | h0
      · rw [h0] at hgt; simp at hgt
      · exact h0
    refine ⟨by simp, hh1, by simp only; omega, by simp only; omega, ?_⟩
    intro dy dx hdy hdx
    exact hinv.hOK dy (x + dx) hdy (by omega) (by simp only at hdx; omega)
  · refine ⟨by simp, by simp only; omega, by simp only; omega, by simp only; omega, ?_⟩
    intro dy dx hdy hdx
    exact hinv.vOK dy (x + dx) hdy (by omega) (by simp only at hdx; omega)


/-- flat index ↔ (row, column) -/
theorem flat_decomp {w : Nat} (hw : 0 < w) (i : Nat) : i = (i / w) * w + i % w := by
  rw [Nat.mul_comm]; exact (Nat.div_add_mod i w).symm

theorem div_lt_of_lt_mul' {i w h : Nat} (hi : i < w * h) : i / w < h := by
  apply Nat.div_lt_of_lt_mul; exact hi

structure LoopInv (w h : Nat) (bg : Pixel) (O : Nat → Pixel) (p : Nat) (d : Array Pixel)
    (acc : List Subrect) : Prop where
  size : d.size = w * h
  keep : ∀ i, i < w * h → d.getD i 0 ≠ bg → d.getD i 0 = O i
  done : ∀ i, i < w * h → d.getD i 0 = bg → (paintRects w h bg acc.reverse).getD i 0 = O i
  before : ∀ i, i < p → i < w * h → d.getD i 0 = bg
  wf : ∀ r ∈ acc, r.x + r.w ≤ w ∧ r.y + r.h ≤ h ∧ 1 ≤ r.w ∧ 1 ≤ r.h ∧ r.c ≠ bg ∧ ∃ i, i < w * h ∧ r.c = O i
  cnt : ∀ q, q < w * h → O q = bg → acc.length + (if q < p then 1 else 0) ≤ p

/-- everything the callers need to know about the result of `subrectLoop` -/
structure LoopPost (w h : Nat) (bg : Pixel) (O : Nat → Pixel) (rs : List Subrect) : Prop where
  paint : ∀ i, i < w * h → (paintRects w h bg rs).getD i 0 = O i
  wf : ∀ r ∈ rs, r.x + r.w ≤ w ∧ r.y + r.h ≤ h ∧ 1 ≤ r.w ∧ 1 ≤ r.h ∧ r.c ≠ bg ∧ ∃ i, i < w * h ∧ r.c = O i
  cnt : ∀ q, q < w * h → O q = bg → rs.length + 1 ≤ w * h

theorem subrectLoop_spec (w h : Nat) (bg : Pixel) (ssz limit : Nat) (O : Nat → Pixel) :
    ∀ (f p : Nat) (d : Array Pixel) (acc : List Subrect) (len : Nat) (rs : List Subrect) (len' : Nat),
      LoopInv w h bg O p d acc → p + f = w * h →
      subrectLoop w h bg ssz limit f p d acc len = some (rs, len') →
      LoopPost w h bg O rs ∧ len' + ssz * acc.length = len + ssz * rs.length ∧
        (acc.length < rs.length → len' ≤ limit) ∧ acc.length ≤ rs.length := by
  intro f
  induction f with
  | zero =>
    intro p d acc len rs len' inv hp hres
    simp only [subrectLoop, Option.some.injEq, Prod.mk.injEq] at hres
    obtain ⟨h1, h2⟩ := hres
    subst h1; subst h2
    refine ⟨⟨?_, ?_, ?_⟩, by simp, by simp, by simp⟩
    · intro i hi
      exact inv.done i hi (inv.before i (by omega) hi)
    · intro r hr; exact inv.wf r (by simpa using hr)
    · intro q hq hO
      have := inv.cnt q hq hO
      have hqp : q < p := by omega
      simp [hqp] at this
      simp; omega
  | succ f ih =>
    intro p d acc len rs len' inv hp hres
    have hpl : p < w * h := by omega
    have hw : 0 < w := by
      rcases Nat.eq_zero_or_pos w with h0 | h0
      · subst h0; simp at hpl
      · exact h0
    simp only [subrectLoop] at hres
    by_cases hc : d.getD p 0 = bg
    · simp only [hc, if_true] at hres
      have inv' : LoopInv w h bg O (p + 1) d acc := by
        refine ⟨inv.size, inv.keep, inv.done, ?_, inv.wf, ?_⟩
        · intro i hi hi2
          by_cases hip : i < p
          · exact inv.before i hip hi2
          · have : i = p := by omega
            subst this; exact hc
        · intro q hq hO
          have := inv.cnt q hq hO
          split <;> split at this <;> omega
      exact ih (p + 1) d acc len rs len' inv' (by omega) hres
    · simp only [hc, if_false] at hres
      by_cases hlen : len + ssz > limit
      · simp [hlen] at hres
      · simp only [hlen, if_false] at hres
        -- the anchor
        have hx : p % w < w := Nat.mod_lt _ hw
        have hy : p / w < h := div_lt_of_lt_mul' hpl
        have hpd := flat_decomp hw p
        have hcp : d.getD (p / w * w + p % w) 0 = d.getD p 0 := by rw [← hpd]
        obtain ⟨hr1, hr2, hr3, hr4, hun⟩ := findRect_spec d w h (p % w) (p / w) (d.getD p 0) hx hy hcp
        generalize hfr : findRect d w h (p % w) (p / w) (d.getD p 0) = fr at *
        obtain ⟨rw, rh⟩ := fr
        simp only at hr1 hr2 hr3 hr4 hun hres
        -- cells of the chosen rectangle
        have hcell : ∀ i, InRect w (p % w) (p / w) rw rh i → d.getD i 0 = d.getD p 0 := by
          intro i hi
          unfold InRect at hi
          have := hun (i / w - p / w) (i % w - p % w) (by omega) (by omega)
          have e1 : p / w + (i / w - p / w) = i / w := by omega
          have e2 : p % w + (i % w - p % w) = i % w := by omega
          rw [e1, e2, ← flat_decomp hw i] at this
          exact this
        have hgd : ∀ i, (fillRect d w (p % w) (p / w) rw rh bg).getD i 0 =
            if InRect w (p % w) (p / w) rw rh i ∧ i < w * h then bg else d.getD i 0 := by
          intro i; rw [getD_fillRect _ _ _ _ _ _ _ _ _ hr3, inv.size]
        have hpin : InRect w (p % w) (p / w) rw rh p := by unfold InRect; omega
        have inv' : LoopInv w h bg O (p + 1) (fillRect d w (p % w) (p / w) rw rh bg)
            (⟨d.getD p 0, p % w, p / w, rw, rh⟩ :: acc) := by
          refine ⟨by rw [size_fillRect]; exact inv.size, ?_, ?_, ?_, ?_, ?_⟩
          · intro i hi hne
            rw [hgd] at hne ⊢
            by_cases hin : InRect w (p % w) (p / w) rw rh i ∧ i < w * h
            · simp [hin] at hne
            · simp only [hin, if_false] at hne ⊢
              exact inv.keep i hi hne
          · intro i hi hbg
            rw [hgd] at hbg
            rw [List.reverse_cons, getD_paintRects_append _ _ _ _ _ _ _ (by simpa using hr3)]
            by_cases hin : InRect w (p % w) (p / w) rw rh i ∧ i < w * h
            · simp only [hin, and_self, if_true]
              have h1 := hcell i hin.1
              have h2 := inv.keep i hi (by rw [h1]; exact hc)
              rw [← h2, h1]
            · simp only [hin, if_false] at hbg ⊢
              exact inv.done i hi hbg
          · intro i hi hi2
            rw [hgd]
            by_cases hin : InRect w (p % w) (p / w) rw rh i ∧ i < w * h
            · simp [hin]
            · simp only [hin, if_false]
              have : i < p := by
                rcases Nat.lt_or_ge i p with h1 | h1
                · exact h1
                · have : i = p := by omega
                  subst this; exact absurd ⟨hpin, hi2⟩ hin
              exact inv.before i this hi2
          · intro r hr
            rcases List.mem_cons.mp hr with h1 | h1
            · subst h1
              exact ⟨hr3, hr4, hr1, hr2, hc, p, hpl, inv.keep p hpl hc⟩
            · exact inv.wf r h1
          · intro q hq hO
            have := inv.cnt q hq hO
            have hqp : q ≠ p := by
              intro e; subst e
              exact hc (by rw [inv.keep q hq hc, hO])
            simp only [List.length_cons]
            split <;> split at this <;> omega
        obtain ⟨post, hl, hlim, hle⟩ := ih (p + 1) _ _ (len + ssz) rs len' inv' (by omega) hres
        simp only [List.length_cons] at hl hlim hle
        refine ⟨post, ?_, ?_, by omega⟩
        · rw [Nat.mul_succ] at hl; omega
        · intro _
          rcases Nat.lt_or_ge (acc.length + 1) rs.length with h1 | h1
          · exact hlim h1
          · have e : rs.length = acc.length + 1 := by omega
            rw [e, Nat.mul_succ] at hl
            omega

/-- **`subrectEncode` is correct**: whenever it succeeds, painting its sub-rectangles over `bg`
gives back the input array; all sub-rectangles are inside the `w × h` area, non-empty, carry a
colour of the input different from `bg`; if `bg` occurs in the input there are fewer than `w*h` of
them; the reported length is `len0 + ssz * count` and passed the size test. -/
theorem subrectEncode_spec (w h : Nat) (bg : Pixel) (ssz limit len0 : Nat) (d : Array Pixel)
    (hs : d.size = w * h) (rs : List Subrect) (len : Nat)
    (hres : subrectEncode w h bg ssz limit len0 d = some (rs, len)) :
    LoopPost w h bg (fun i => d.getD i 0) rs ∧ len = len0 + ssz * rs.length ∧
      (0 < rs.length → len ≤ limit) := by
  have inv0 : LoopInv w h bg (fun i => d.getD i 0) 0 d [] := by
    refine ⟨hs, fun i _ _ => rfl, ?_, by intro i hi; omega, by intro r hr; simp at hr, by intro q _ _; simp⟩
    intro i hi hbg
    simp only [List.reverse_nil]
    rw [getD_paintRects_nil _ _ _ _ _ hi]; exact hbg.symm
  obtain ⟨post, hl, hlim, _⟩ := subrectLoop_spec w h bg ssz limit _ (w * h) 0 d [] len0 rs len inv0 (by simp) hres
  simp only [List.length_nil, Nat.mul_zero, Nat.add_zero] at hl hlim
  exact ⟨post, hl, hlim⟩

end VncModel.Enc.Server
