import VncModel.Enc.PackProofs
/-! `PackLaw` proved: packed-palette rows of the ZRLE model decode to the tile. -/
namespace VncModel.Enc.Server
open VncModel.Enc VncModel.Enc.Spec

theorem bits_table_eq : ∀ s, s < 17 → 2 ≤ s → bitsPerPackedPixel s = packedBits s ∧
    (packedBits s = 1 ∨ packedBits s = 2 ∨ packedBits s = 4) ∧ s ≤ 2 ^ packedBits s := by decide

theorem lookupAll_map_index (pal : List Pixel) (l : List Pixel) (h : ∀ p ∈ l, p ∈ pal) :
    lookupAll pal (l.map (paletteIndex pal)) = some l := by
  induction l with
  | nil => simp [lookupAll]
  | cons p l ih =>
    have hp := h p (by simp)
    have hidx : List.idxOf p pal < pal.length := List.idxOf_lt_length_of_mem hp
    have hget : pal[paletteIndex pal p]? = some p := by
      show pal[List.idxOf p pal]? = some p
      rw [List.getElem?_eq_getElem hidx]; simp
    simp only [List.map_cons, lookupAll, hget]
    rw [ih (fun q hq => h q (by simp [hq]))]
    rfl

theorem packLaw : PackLaw := by
  intro size tw th pal px rest h2 h16 hpl hlen hmem
  obtain ⟨hbits, hb, hsz⟩ := bits_table_eq size (by omega) h2
  rw [hbits]
  generalize packedBits size = b at *
  induction th generalizing px with
  | zero =>
    have : px = [] := by cases px <;> simp_all
    subst this
    simp [decodePackedRows, packRows]
  | succ th ih =>
    simp only [packRows, decodePackedRows, List.append_assoc]
    have htake : (px.take tw).length = tw := by
      rw [List.length_take, hlen, Nat.mul_succ]; omega
    have hidx : ∀ x ∈ (px.take tw).map (paletteIndex pal), x < 2 ^ b := by
      intro x hx
      simp only [List.mem_map] at hx
      obtain ⟨p, hp, rfl⟩ := hx
      have : List.idxOf p pal < pal.length := List.idxOf_lt_length_of_mem (hmem p (List.mem_of_mem_take hp))
      show List.idxOf p pal < 2 ^ b
      omega
    have hrowlen := pack_length b hb ((px.take tw).map (paletteIndex pal)) 0
    rw [List.length_map, htake] at hrowlen
    rw [takeN_append' _ _ hrowlen]
    simp only
    have hun := unpackRow_packRow b hb ((px.take tw).map (paletteIndex pal)) 0 hidx
    rw [List.length_map, htake] at hun
    rw [hun, lookupAll_map_index pal (px.take tw) (fun p hp => hmem p (List.mem_of_mem_take hp))]
    simp only
    rw [ih (px.drop tw) (by rw [List.length_drop, hlen, Nat.mul_succ]; omega)
      (fun p hp => hmem p (List.mem_of_mem_drop hp))]
    simp

end VncModel.Enc.Server
