import VncModel.Enc.Basic
/-! Serialisers (the inverse direction of the spec decoders) and `decode ∘ serialise = id` lemmas:
RRE / CoRRE / Hextile sub-rectangle lists.  Everything here is independent of how an encoder
chooses its sub-rectangles. -/
namespace VncModel.Enc
open VncModel.Enc.Spec

/-! ### painting lemmas -/

theorem size_paintRects (W H : Nat) (bg : Pixel) (rs : List Subrect) :
    (paintRects W H bg rs).size = W * H := by
  unfold paintRects
  generalize hcv : Array.replicate (W * H) bg = cv
  have hs : cv.size = W * H := by subst hcv; simp
  clear hcv
  induction rs generalizing cv with
  | nil => simpa using hs
  | cons r rs ih => simp only [List.foldl_cons]; apply ih; simp [size_fillRect, hs]

theorem paintRects_append (W H : Nat) (bg : Pixel) (rs : List Subrect) (r : Subrect) :
    paintRects W H bg (rs ++ [r]) = fillRect (paintRects W H bg rs) W r.x r.y r.w r.h r.c := by
  simp [paintRects, List.foldl_append]

theorem getD_paintRects_append (W H : Nat) (bg : Pixel) (rs : List Subrect) (r : Subrect) (i : Nat)
    (d : Pixel) (hx : r.x + r.w ≤ W) :
    (paintRects W H bg (rs ++ [r])).getD i d =
      if InRect W r.x r.y r.w r.h i ∧ i < W * H then r.c else (paintRects W H bg rs).getD i d := by
  rw [paintRects_append, getD_fillRect _ _ _ _ _ _ _ _ _ hx, size_paintRects]

theorem getD_paintRects_nil (W H : Nat) (bg d : Pixel) (i : Nat) (h : i < W * H) :
    (paintRects W H bg []).getD i d = bg := by
  simp [paintRects, Array.getD_eq_getD_getElem?, h]

/-- a pixel list equals an array's list when sizes and all cells agree -/
theorem toList_eq_of_getD (a : Array Pixel) (l : List Pixel) (hs : a.size = l.length)
    (h : ∀ i, i < l.length → a.getD i 0 = l.getD i 0) : a.toList = l := by
  apply List.ext_getElem
  · simpa using hs
  · intro i h1 h2
    have := h i h2
    simp only [Array.getD_eq_getD_getElem?, List.getD_eq_getElem?_getD] at this
    have e1 : a[i]? = some a[i] := by simp at h1; simp [h1]
    have e2 : l[i]? = some l[i] := by simp [h2]
    rw [e1, e2] at this
    simpa using this

/-! ### sub-rectangle lists -/

def geom16 (g : Nat × Nat × Nat × Nat) : Bytes :=
  u16be g.1 ++ u16be g.2.1 ++ u16be g.2.2.1 ++ u16be g.2.2.2
def geom8 (g : Nat × Nat × Nat × Nat) : Bytes :=
  [UInt8.ofNat g.1, UInt8.ofNat g.2.1, UInt8.ofNat g.2.2.1, UInt8.ofNat g.2.2.2]
/-- Hextile: `rfbHextilePackXY`, `rfbHextilePackWH` -/
def geomHex (g : Nat × Nat × Nat × Nat) : Bytes :=
  [UInt8.ofNat (g.1 * 16 + g.2.1), UInt8.ofNat ((g.2.2.1 - 1) * 16 + (g.2.2.2 - 1))]

theorem readGeom16_geom16 (g : Nat × Nat × Nat × Nat) (r : Bytes)
    (h : g.1 < 65536 ∧ g.2.1 < 65536 ∧ g.2.2.1 < 65536 ∧ g.2.2.2 < 65536) :
    readGeom16 (geom16 g ++ r) = some (g, r) := by
  obtain ⟨x, y, w, hh⟩ := g
  simp only at h
  simp [geom16, u16be, readGeom16]
  omega

theorem readGeom8_geom8 (g : Nat × Nat × Nat × Nat) (r : Bytes)
    (h : g.1 < 256 ∧ g.2.1 < 256 ∧ g.2.2.1 < 256 ∧ g.2.2.2 < 256) :
    readGeom8 (geom8 g ++ r) = some (g, r) := by
  obtain ⟨x, y, w, hh⟩ := g
  simp only at h
  simp [geom8, readGeom8]
  omega

theorem readGeomHex_geomHex (g : Nat × Nat × Nat × Nat) (r : Bytes)
    (h : g.1 < 16 ∧ g.2.1 < 16 ∧ 1 ≤ g.2.2.1 ∧ g.2.2.1 ≤ 16 ∧ 1 ≤ g.2.2.2 ∧ g.2.2.2 ≤ 16) :
    readGeomHex (geomHex g ++ r) = some (g, r) := by
  obtain ⟨x, y, w, hh⟩ := g
  simp only at h
  simp [geomHex, readGeomHex]
  omega

/-- serialise a sub-rectangle list: colour writer `pc`, geometry writer `gb` -/
def subrectsBytes (pc : Pixel → Bytes) (gb : Nat × Nat × Nat × Nat → Bytes) (rs : List Subrect) : Bytes :=
  rs.flatMap fun r => pc r.c ++ gb (r.x, r.y, r.w, r.h)

/-- reader/writer pair law, restricted to the sub-rectangles at hand -/
structure SubCodec (rc : Dec Pixel) (rg : Dec (Nat × Nat × Nat × Nat)) (pc : Pixel → Bytes)
    (gb : Nat × Nat × Nat × Nat → Bytes) (W H : Nat) (r : Subrect) : Prop where
  colour : ∀ t, rc (pc r.c ++ t) = some (r.c, t)
  geom : ∀ t, rg (gb (r.x, r.y, r.w, r.h) ++ t) = some ((r.x, r.y, r.w, r.h), t)
  inb : r.x + r.w ≤ W ∧ r.y + r.h ≤ H

theorem readSubrects_subrectsBytes {rc : Dec Pixel} {rg : Dec (Nat × Nat × Nat × Nat)}
    {pc : Pixel → Bytes} {gb : Nat × Nat × Nat × Nat → Bytes} {W H : Nat} (rs : List Subrect)
    (rest : Bytes) (h : ∀ r ∈ rs, SubCodec rc rg pc gb W H r) :
    readSubrects rc rg W H rs.length (subrectsBytes pc gb rs ++ rest) = some (rs, rest) := by
  induction rs with
  | nil => simp [readSubrects, subrectsBytes]
  | cons r rs ih =>
    have hr := h r (by simp)
    have hrs : ∀ q ∈ rs, SubCodec rc rg pc gb W H q := fun q hq => h q (by simp [hq])
    have := ih hrs
    simp only [subrectsBytes] at this
    simp only [subrectsBytes, List.flatMap_cons, List.length_cons, readSubrects, List.append_assoc]
    rw [hr.colour]; dsimp only
    rw [hr.geom]; dsimp only
    simp [hr.inb, this]

/-! ### RRE / CoRRE -/

def serializeRRE (gb : Nat × Nat × Nat × Nat → Bytes) (bpp : Nat) (bg : Pixel) (rs : List Subrect) :
    Bytes :=
  u32be rs.length ++ pixBytes bpp bg ++ subrectsBytes (pixBytes bpp) gb rs

theorem decodeRREWith_serialize {rg : Dec (Nat × Nat × Nat × Nat)}
    {gb : Nat × Nat × Nat × Nat → Bytes} (g : Geometry) (bpp : Nat) (bg : Pixel)
    (rs : List Subrect) (rest : Bytes) (hn : rs.length < 4294967296) (hbg : PixOK bpp bg)
    (h : ∀ r ∈ rs, SubCodec (readPixel bpp) rg (pixBytes bpp) gb g.w g.h r) :
    decodeRREWith rg g bpp (serializeRRE gb bpp bg rs ++ rest) =
      some ((paintRects g.w g.h bg rs).toList, rest) := by
  simp only [decodeRREWith, serializeRRE, List.append_assoc]
  rw [readU32_u32be hn]; dsimp only
  rw [readPixel_pixBytes _ _ _ hbg]; dsimp only
  rw [readSubrects_subrectsBytes rs rest h]
  rfl

end VncModel.Enc
