import VncModel.Enc.SplitProofs
/-!
# Tight: how a rectangle is cut into sub-rectangles (`SendRectSimple`, `SendRectEncodingTight`)

* `simpleSplit` = `SendRectSimple`: a grid of pieces at most `TIGHT_MAX_RECT_WIDTH` wide and
  `TIGHT_MAX_RECT_SIZE` pixels big; `simpleSplit_cover`: the pieces tile the rectangle,
  `simpleSplit_small`: each is within the limits `tightSubrect_decodes` needs.
* `TPlan` / `planPieces` = the LastRect path of `SendRectEncodingTight` with the solid-area search
  (`CheckSolidTile`, `FindBestSolidArea`, `ExtendSolidArea`) abstracted to a CHOICE: any tree of
  "send the top n rows now" / "this area is solid: top band, left part, fill, right part, bottom band".
  A declared solid area is checked (`isSolid`); a choice that is not usable falls back to `SendRectSimple`.
  `planPieces_cover`: for EVERY plan the pieces tile the rectangle; `planPieces_fill_solid`: every fill
  piece really is of one colour — so no choice of the search can make the output wrong.
-/
namespace VncModel.Enc.Server
open VncModel.Enc VncModel.Enc.Spec

/-! ### one-dimensional cutting -/

/-- `for (d = 0; d < total; d += step)` with piece length `min step (total - d)`: (offset, length) -/
def segs (step : Nat) : Nat → Nat → Nat → List (Nat × Nat)
  | 0, _, _ => []
  | f + 1, off, rem =>
    if rem = 0 then [] else
    let n := if step < rem then step else rem
    (off, n) :: segs step f (off + n) (rem - n)

def cover1 (l : List (Nat × Nat)) (v : Nat) : Nat := l.countP fun s => decide (s.1 ≤ v ∧ v < s.1 + s.2)

theorem segs_cover (step : Nat) (hs : 1 ≤ step) : ∀ (f off rem v : Nat), rem ≤ f →
    cover1 (segs step f off rem) v = if off ≤ v ∧ v < off + rem then 1 else 0 := by
  intro f
  induction f with
  | zero =>
    intro off rem v h
    have : rem = 0 := by omega
    subst this
    have hn : ¬ (off ≤ v ∧ v < off + 0) := by omega
    simp [segs, cover1, hn]
  | succ f ih =>
    intro off rem v h
    simp only [segs]
    by_cases h0 : rem = 0
    · subst h0
      have hn : ¬ (off ≤ v ∧ v < off + 0) := by omega
      simp [cover1, hn]
    · simp only [h0, if_false]
      generalize hn : (if step < rem then step else rem) = n
      have hn1 : 1 ≤ n ∧ n ≤ rem := by split at hn <;> omega
      have : cover1 ((off, n) :: segs step f (off + n) (rem - n)) v =
          (if off ≤ v ∧ v < off + n then 1 else 0) + cover1 (segs step f (off + n) (rem - n)) v := by
        simp only [cover1, List.countP_cons]
        by_cases hc : off ≤ v ∧ v < off + n <;> simp [hc]
        omega
      rw [this, ih (off + n) (rem - n) v (by omega)]
      apply ite_sum <;> omega

theorem segs_len (step : Nat) (h1s : 1 ≤ step) : ∀ (f off rem : Nat), ∀ s ∈ segs step f off rem, 1 ≤ s.2 ∧ s.2 ≤ step := by
  intro f
  induction f with
  | zero => intro off rem s hs; simp [segs] at hs
  | succ f ih =>
    intro off rem s hs
    simp only [segs] at hs
    split at hs
    · simp at hs
    · rcases List.mem_cons.mp hs with e | e
      · subst e; simp only; split <;> omega
      · exact ih _ _ s e

theorem segs_le_total (step : Nat) : ∀ (f off rem : Nat), ∀ s ∈ segs step f off rem, s.2 ≤ rem := by
  intro f
  induction f with
  | zero => intro off rem s hs; simp [segs] at hs
  | succ f ih =>
    intro off rem s hs
    simp only [segs] at hs
    split at hs
    · simp at hs
    · rcases List.mem_cons.mp hs with e | e
      · subst e; simp only; split <;> omega
      · have := ih _ _ s e; omega

/-! ### grids -/

def grid (cols rows : List (Nat × Nat)) : List TileRect :=
  rows.flatMap fun r => cols.map fun c => ⟨c.1, r.1, c.2, r.2⟩

theorem row_cover (cols : List (Nat × Nat)) (r : Nat × Nat) (px py : Nat) :
    cover (cols.map fun c => (⟨c.1, r.1, c.2, r.2⟩ : TileRect)) px py =
      cover1 cols px * (if r.1 ≤ py ∧ py < r.1 + r.2 then 1 else 0) := by
  induction cols with
  | nil => simp [cover, cover1]
  | cons c cols ihc =>
    simp only [cover, cover1, List.map_cons, List.countP_cons, InTile] at ihc ⊢
    rw [ihc]
    by_cases h1 : c.1 ≤ px ∧ px < c.1 + c.2 <;> by_cases h2 : r.1 ≤ py ∧ py < r.1 + r.2 <;>
      simp [h1, h2, Nat.add_mul] <;> omega

theorem grid_cover (cols rows : List (Nat × Nat)) (px py : Nat) :
    cover (grid cols rows) px py = cover1 cols px * cover1 rows py := by
  induction rows with
  | nil => simp [grid, cover, cover1]
  | cons r rows ih =>
    simp only [grid, List.flatMap_cons] at ih ⊢
    rw [cover_append, row_cover, ih]
    simp only [cover1, List.countP_cons]
    by_cases h2 : r.1 ≤ py ∧ py < r.1 + r.2 <;> simp [h2, Nat.mul_add] <;> omega

/-! ### `SendRectSimple` -/

/-- `TIGHT_MAX_RECT_WIDTH`, `TIGHT_MAX_RECT_SIZE` -/
def tightMaxW : Nat := 2048
def tightMaxSize : Nat := 65536

def simpleSplit (x y w h : Nat) : List TileRect :=
  if w > tightMaxW ∨ w * h > tightMaxSize then
    let mw := if w > tightMaxW then tightMaxW else w
    let mh := tightMaxSize / mw
    grid (segs tightMaxW (w + 1) x w) (segs mh (h + 1) y h)
  else [⟨x, y, w, h⟩]

theorem simpleSplit_cover (x y w h px py : Nat) (hw : 0 < w) (hh : 0 < h) :
    cover (simpleSplit x y w h) px py = if InTile ⟨x, y, w, h⟩ px py then 1 else 0 := by
  unfold simpleSplit
  by_cases hbig : w > tightMaxW ∨ w * h > tightMaxSize
  · simp only [hbig, if_true]
    have hmh : 1 ≤ tightMaxSize / (if w > tightMaxW then tightMaxW else w) := by
      unfold tightMaxSize tightMaxW at *
      split
      · decide
      · apply (Nat.le_div_iff_mul_le (by omega)).mpr; omega
    rw [grid_cover, segs_cover tightMaxW (by decide) _ _ _ _ (by omega),
      segs_cover _ hmh _ _ _ _ (by omega)]
    unfold InTile; simp only
    by_cases a : x ≤ px ∧ px < x + w <;> by_cases b : y ≤ py ∧ py < y + h <;> simp [a, b] <;> omega
  · simp only [hbig, if_false, cover_single]

/-- every piece respects the limits: width ≤ 2048 and area ≤ 65536 (and is non-empty) -/
theorem simpleSplit_small (x y w h : Nat) (hw : 0 < w) (hh : 0 < h) :
    ∀ t ∈ simpleSplit x y w h, 1 ≤ t.w ∧ 1 ≤ t.h ∧ t.w ≤ tightMaxW ∧ t.w * t.h ≤ tightMaxSize := by
  intro t ht
  unfold simpleSplit at ht
  by_cases hbig : w > tightMaxW ∨ w * h > tightMaxSize
  · simp only [hbig, if_true, grid, List.mem_flatMap, List.mem_map] at ht
    obtain ⟨r, hr, c, hc, rfl⟩ := ht
    have hmh : 1 ≤ tightMaxSize / (if w > tightMaxW then tightMaxW else w) := by
      unfold tightMaxSize tightMaxW at *
      split
      · decide
      · apply (Nat.le_div_iff_mul_le (by omega)).mpr; omega
    have h1 := segs_len _ (by decide) _ _ _ c hc
    have h2 := segs_len _ hmh _ _ _ r hr
    simp only
    refine ⟨h1.1, h2.1, h1.2, ?_⟩
    -- c.2 ≤ mw: the column pieces are also at most w wide
    have hcw : c.2 ≤ (if w > tightMaxW then tightMaxW else w) := by
      have := segs_le_total _ _ _ _ c hc
      split <;> omega
    calc c.2 * r.2 ≤ (if w > tightMaxW then tightMaxW else w) * (tightMaxSize / (if w > tightMaxW then tightMaxW else w)) :=
          Nat.mul_le_mul hcw h2.2
      _ ≤ tightMaxSize := Nat.mul_div_le _ _
  · simp only [hbig, if_false, List.mem_singleton] at ht
    subst ht
    simp only
    omega


/-! ### the LastRect path: solid-area search as a choice -/

/-- a choice tree for `SendRectEncodingTight` -/
inductive TPlan where
  | simple
  | chunk (n : Nat) (rest : TPlan)
  | solid (xb yb wb hb : Nat) (left right bottom : TPlan)
deriving Repr

inductive TPiece where
  | sub (r : TileRect)          -- handed to `SendSubrect`
  | fill (r : TileRect)         -- `rfbSendTightHeader` + `SendSolidRect` with the pixel at (r.x, r.y)
deriving Repr, DecidableEq

def TPiece.rect : TPiece → TileRect
  | .sub r => r
  | .fill r => r

/-- all pixels of `r` equal `c` -/
def isSolid (img : Nat → Nat → Pixel) (r : TileRect) (c : Pixel) : Bool :=
  (List.range r.h).all fun dy => (List.range r.w).all fun dx => img (r.x + dx) (r.y + dy) == c

theorem isSolid_spec (img : Nat → Nat → Pixel) (r : TileRect) (c : Pixel) (h : isSolid img r c = true)
    (px py : Nat) (hin : InTile r px py) : img px py = c := by
  unfold InTile at hin
  simp only [isSolid, List.all_eq_true, List.mem_range, beq_iff_eq] at h
  have := h (py - r.y) (by omega) (px - r.x) (by omega)
  have e1 : r.x + (px - r.x) = px := by omega
  have e2 : r.y + (py - r.y) = py := by omega
  rw [e1, e2] at this; exact this

/-- is the declared solid area usable inside the rectangle `x,y,w,h`? -/
def solidOK (img : Nat → Nat → Pixel) (x y w h xb yb wb hb : Nat) : Bool :=
  decide (x ≤ xb ∧ xb + wb ≤ x + w ∧ y ≤ yb ∧ yb + hb ≤ y + h ∧ 0 < wb ∧ 0 < hb) &&
    isSolid img ⟨xb, yb, wb, hb⟩ (img xb yb)

/-- the pieces `SendRectEncodingTight` sends for the rectangle under a given choice tree -/
def planPieces (img : Nat → Nat → Pixel) : TPlan → Nat → Nat → Nat → Nat → List TPiece
  | .simple, x, y, w, h => (simpleSplit x y w h).map .sub
  | .chunk n rest, x, y, w, h =>
    if 0 < n ∧ n < h then (simpleSplit x y w n).map .sub ++ planPieces img rest x (y + n) w (h - n)
    else (simpleSplit x y w h).map .sub
  | .solid xb yb wb hb l r b, x, y, w, h =>
    if solidOK img x y w h xb yb wb hb then
      (if yb ≠ y then (simpleSplit x y w (yb - y)).map .sub else []) ++
      (if xb ≠ x then planPieces img l x yb (xb - x) hb else []) ++
      [.fill ⟨xb, yb, wb, hb⟩] ++
      (if xb + wb ≠ x + w then planPieces img r (xb + wb) yb (x + w - (xb + wb)) hb else []) ++
      (if yb + hb ≠ y + h then planPieces img b x (yb + hb) w (y + h - (yb + hb)) else [])
    else (simpleSplit x y w h).map .sub

def pcover (ps : List TPiece) (px py : Nat) : Nat := cover (ps.map TPiece.rect) px py

theorem pcover_append (a b : List TPiece) (px py : Nat) :
    pcover (a ++ b) px py = pcover a px py + pcover b px py := by
  simp [pcover, cover_append]

theorem pcover_sub (l : List TileRect) (px py : Nat) : pcover (l.map .sub) px py = cover l px py := by
  simp [pcover, List.map_map, Function.comp_def, TPiece.rect]

/-- indicator of a rectangle -/
def ind (x y w h px py : Nat) : Nat := if InTile ⟨x, y, w, h⟩ px py then 1 else 0

theorem ind_empty_w (x y h px py : Nat) : ind x y 0 h px py = 0 := by
  have hn : ¬ InTile ⟨x, y, 0, h⟩ px py := by unfold InTile; simp only; omega
  simp [ind, hn]

theorem ind_empty_h (x y w px py : Nat) : ind x y w 0 px py = 0 := by
  have hn : ¬ InTile ⟨x, y, w, 0⟩ px py := by unfold InTile; simp only; omega
  simp [ind, hn]

theorem ind_vsplit (x y w h n px py : Nat) (hn : n ≤ h) :
    ind x y w n px py + ind x (y + n) w (h - n) px py = ind x y w h px py := by
  unfold ind; apply ite_sum <;> (unfold InTile; simp only; omega)

theorem ind_hsplit (x y w h n px py : Nat) (hn : n ≤ w) :
    ind x y n h px py + ind (x + n) y (w - n) h px py = ind x y w h px py := by
  unfold ind; apply ite_sum <;> (unfold InTile; simp only; omega)

/-- **every choice tiles the rectangle**: whatever the solid-area search decides, the pieces sent
cover every pixel of the rectangle exactly once and nothing else -/
theorem planPieces_cover (img : Nat → Nat → Pixel) : ∀ (p : TPlan) (x y w h px py : Nat),
    0 < w → 0 < h → pcover (planPieces img p x y w h) px py = ind x y w h px py := by
  intro p
  induction p with
  | simple =>
    intro x y w h px py hw hh
    simp only [planPieces, pcover_sub]
    exact simpleSplit_cover x y w h px py hw hh
  | chunk n rest ih =>
    intro x y w h px py hw hh
    simp only [planPieces]
    split
    · rename_i hc
      rw [pcover_append, pcover_sub, simpleSplit_cover x y w n px py hw hc.1, ih x (y + n) w (h - n) px py hw (by omega)]
      exact ind_vsplit x y w h n px py (by omega)
    · rw [pcover_sub]; exact simpleSplit_cover x y w h px py hw hh
  | solid xb yb wb hb l r b ihl ihr ihb =>
    intro x y w h px py hw hh
    simp only [planPieces]
    split
    · rename_i hok
      simp only [solidOK, Bool.and_eq_true, decide_eq_true_eq] at hok
      obtain ⟨⟨h1, h2, h3, h4, h5, h6⟩, _⟩ := hok
      simp only [pcover_append]
      have top : pcover (if yb ≠ y then (simpleSplit x y w (yb - y)).map .sub else []) px py =
          ind x y w (yb - y) px py := by
        split
        · rw [pcover_sub]; exact simpleSplit_cover x y w (yb - y) px py hw (by omega)
        · have : yb - y = 0 := by omega
          rw [this, ind_empty_h]; rfl
      have left : pcover (if xb ≠ x then planPieces img l x yb (xb - x) hb else []) px py =
          ind x yb (xb - x) hb px py := by
        split
        · exact ihl x yb (xb - x) hb px py (by omega) h6
        · have : xb - x = 0 := by omega
          rw [this, ind_empty_w]; rfl
      have right : pcover (if xb + wb ≠ x + w then planPieces img r (xb + wb) yb (x + w - (xb + wb)) hb else []) px py =
          ind (xb + wb) yb (x + w - (xb + wb)) hb px py := by
        split
        · exact ihr (xb + wb) yb (x + w - (xb + wb)) hb px py (by omega) h6
        · have : x + w - (xb + wb) = 0 := by omega
          rw [this, ind_empty_w]; rfl
      have bottom : pcover (if yb + hb ≠ y + h then planPieces img b x (yb + hb) w (y + h - (yb + hb)) else []) px py =
          ind x (yb + hb) w (y + h - (yb + hb)) px py := by
        split
        · exact ihb x (yb + hb) w (y + h - (yb + hb)) px py hw (by omega)
        · have : y + h - (yb + hb) = 0 := by omega
          rw [this, ind_empty_h]; rfl
      have mid : pcover [TPiece.fill ⟨xb, yb, wb, hb⟩] px py = ind xb yb wb hb px py := by
        simp [pcover, TPiece.rect, cover_single, ind]
      rw [top, left, right, bottom, mid]
      -- assemble: rows [y,yb) ∪ [yb,yb+hb) ∪ [yb+hb,y+h); middle band = left ∪ fill ∪ right
      have e1 := ind_vsplit x y w h (yb - y) px py (by omega)
      have e2 := ind_vsplit x yb w (h - (yb - y)) hb px py (by omega)
      have e3 := ind_hsplit x yb w hb (xb - x) px py (by omega)
      have e4 := ind_hsplit xb yb (w - (xb - x)) hb wb px py (by omega)
      have a1 : y + (yb - y) = yb := by omega
      have a2 : x + (xb - x) = xb := by omega
      have a3 : h - (yb - y) - hb = y + h - (yb + hb) := by omega
      have a4 : w - (xb - x) - wb = x + w - (xb + wb) := by omega
      rw [a1] at e1
      rw [a3] at e2
      rw [a2] at e3
      rw [a4] at e4
      omega
    · rw [pcover_sub]; exact simpleSplit_cover x y w h px py hw hh

/-- **every fill piece is of one colour** (the colour of its top-left pixel, which is what
`SendSolidRect` transmits) -/
theorem planPieces_fill_solid (img : Nat → Nat → Pixel) : ∀ (p : TPlan) (x y w h : Nat) (r : TileRect),
    TPiece.fill r ∈ planPieces img p x y w h →
      ∀ px py, InTile r px py → img px py = img r.x r.y := by
  intro p
  induction p with
  | simple => intro x y w h r hr; simp [planPieces] at hr
  | chunk n rest ih =>
    intro x y w h r hr
    simp only [planPieces] at hr
    split at hr
    · rcases List.mem_append.mp hr with e | e
      · simp at e
      · exact ih _ _ _ _ r e
    · simp at hr
  | solid xb yb wb hb l rr b ihl ihr ihb =>
    intro x y w h r hr
    simp only [planPieces] at hr
    split at hr
    · rename_i hok
      simp only [solidOK, Bool.and_eq_true] at hok
      simp only [List.mem_append, List.mem_singleton] at hr
      rcases hr with (((e | e) | e) | e) | e
      · split at e <;> simp at e
      · split at e
        · exact ihl _ _ _ _ r e
        · simp at e
      · simp only [TPiece.fill.injEq] at e
        subst e
        intro px py hin
        exact isSolid_spec img _ _ hok.2 px py hin
      · split at e
        · exact ihr _ _ _ _ r e
        · simp at e
      · split at e
        · exact ihb _ _ _ _ r e
        · simp at e
    · simp at hr

end VncModel.Enc.Server
