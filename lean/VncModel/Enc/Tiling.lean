import VncModel.Enc.Server
/-! Cutting a rectangle into tiles (`extractTile` over `tileGrid`) and putting the tiles together
again (`Spec.assemble`) is the identity — shared by Hextile (16) and ZRLE/TRLE (64/16). -/
namespace VncModel.Enc.Server
open VncModel.Enc VncModel.Enc.Spec

theorem idx_lt {a A b n : Nat} (ha : a < A) (hb : b < n) : a * n + b < A * n := by
  have : (a + 1) * n ≤ A * n := Nat.mul_le_mul_right n ha
  rw [Nat.succ_mul] at this; omega

theorem idx_div {a b n : Nat} (hb : b < n) : (a * n + b) / n = a := by
  have hn : 0 < n := by omega
  rw [Nat.mul_comm, Nat.mul_add_div hn, Nat.div_eq_of_lt hb]; simp

theorem idx_mod {a b n : Nat} (hb : b < n) : (a * n + b) % n = b := by
  rw [Nat.mul_comm, Nat.mul_add_mod, Nat.mod_eq_of_lt hb]

theorem ceil_div_gt {T w x : Nat} (hT : 0 < T) (hx : x < w) : x / T < (w + T - 1) / T := by
  rw [Nat.div_lt_iff_lt_mul hT]
  have := Nat.div_add_mod (w + T - 1) T
  have := Nat.mod_lt (w + T - 1) hT
  rw [Nat.mul_comm]
  omega

theorem mod_lt_tile {T w x : Nat} (hT : 0 < T) (hx : x < w) : x % T < min T (w - (x / T) * T) := by
  have := Nat.div_add_mod x T
  have := Nat.mod_lt x hT
  rw [Nat.mul_comm]
  omega

theorem tileGrid_length (T : Nat) (g : Geometry) :
    (tileGrid T g).length = ((g.h + T - 1) / T) * ((g.w + T - 1) / T) := by
  simp [tileGrid]

theorem extractTile_length (px : Array Pixel) (W : Nat) (t : TileRect) :
    (extractTile px W t).length = t.w * t.h := by simp [extractTile]

theorem assemble_extract (T : Nat) (hT : 0 < T) (g : Geometry) (px : List Pixel)
    (h : px.length = g.w * g.h) :
    assemble T g ((tileGrid T g).map (extractTile px.toArray g.w)) = px := by
  apply List.ext_getElem
  · simp [assemble, h]
  · intro i h1 h2
    have hi : i < g.w * g.h := by rw [← h]; exact h2
    have hw : 0 < g.w := by
      rcases Nat.eq_zero_or_pos g.w with h0 | h0
      · rw [h0] at hi; simp at hi
      · exact h0
    have hx : i % g.w < g.w := Nat.mod_lt _ hw
    have hy : i / g.w < g.h := Nat.div_lt_of_lt_mul hi
    have hk := idx_lt (ceil_div_gt hT hy) (ceil_div_gt (w := g.w) hT hx)
    have hkm := idx_mod (a := i / g.w / T) (ceil_div_gt (w := g.w) hT hx)
    have hkd := idx_div (a := i / g.w / T) (ceil_div_gt (w := g.w) hT hx)
    have hjx := mod_lt_tile hT hx
    have hjy := mod_lt_tile hT hy
    have hj := idx_lt hjy hjx
    have hjm := idx_mod (a := i / g.w % T) hjx
    have hjd := idx_div (a := i / g.w % T) hjx
    simp only [assemble, List.getElem_map, List.getElem_range]
    simp only [Array.getD_eq_getD_getElem?, List.getElem?_toArray, List.getElem?_map, tileGrid,
      List.getElem?_range hk, Option.map_some, Option.getD_some, hkm, hkd, extractTile]
    rw [Nat.mul_comm (min T (g.h - i / g.w / T * T))] at hj
    simp only [List.getElem?_range hj, Option.map_some, Option.getD_some, hjm, hjd]
    have e1 : i / g.w / T * T + i / g.w % T = i / g.w := by
      have := Nat.div_add_mod (i / g.w) T; rw [Nat.mul_comm] at this; exact this
    have e2 : i % g.w / T * T + i % g.w % T = i % g.w := by
      have := Nat.div_add_mod (i % g.w) T; rw [Nat.mul_comm] at this; exact this
    rw [e1, e2, ← flat_decomp' hw i]
    simp [h2]
where
  flat_decomp' {w : Nat} (_hw : 0 < w) (i : Nat) : i = (i / w) * w + i % w := by
    rw [Nat.mul_comm]; exact (Nat.div_add_mod i w).symm


/-- every tile of the grid is non-empty and at most `T × T` -/
theorem tileGrid_dims (T : Nat) (hT : 0 < T) (g : Geometry) :
    ∀ t ∈ tileGrid T g, 1 ≤ t.w ∧ t.w ≤ T ∧ 1 ≤ t.h ∧ t.h ≤ T := by
  intro t ht
  simp only [tileGrid, List.mem_map, List.mem_range] at ht
  obtain ⟨k, hk, rfl⟩ := ht
  have htpr : 0 < (g.w + T - 1) / T := by
    rcases Nat.eq_zero_or_pos ((g.w + T - 1) / T) with e | e
    · rw [e] at hk; simp at hk
    · exact e
  have hkm : k % ((g.w + T - 1) / T) < (g.w + T - 1) / T := Nat.mod_lt _ htpr
  have hkd : k / ((g.w + T - 1) / T) < (g.h + T - 1) / T := by
    apply Nat.div_lt_of_lt_mul; rw [Nat.mul_comm]; exact hk
  have key : ∀ (n a : Nat), a < (n + T - 1) / T → a * T < n := by
    intro n a ha
    have h1 := Nat.div_add_mod (n + T - 1) T
    have h2 := Nat.mod_lt (n + T - 1) hT
    have h3 : (a + 1) * T ≤ ((n + T - 1) / T) * T := Nat.mul_le_mul_right T ha
    rw [Nat.succ_mul, Nat.mul_comm ((n + T - 1) / T)] at h3
    omega
  have h1 := key g.w _ hkm
  have h2 := key g.h _ hkd
  simp only
  omega

theorem extractTile_ok (bpp : Nat) (px : List Pixel) (W : Nat) (t : TileRect)
    (hpx : ∀ p ∈ px, PixOK bpp p) : ∀ p ∈ extractTile px.toArray W t, PixOK bpp p := by
  intro p hp
  simp only [extractTile, List.mem_map, List.mem_range] at hp
  obtain ⟨j, _, rfl⟩ := hp
  simp only [Array.getD_eq_getD_getElem?, List.getElem?_toArray]
  cases h : px[(t.y + j / t.w) * W + (t.x + j % t.w)]? with
  | none => simp; unfold PixOK; exact Nat.pow_pos (by decide)
  | some v => simp; exact hpx v (List.mem_of_getElem? h)

end VncModel.Enc.Server
