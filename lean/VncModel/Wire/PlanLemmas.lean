import VncModel.Wire.Plan
/-
Lemmas about the planning model (C03): the count expressions of `rfbSendFramebufferUpdate` equal
the number of rectangles the encoders' splitting code emits, and the emitted rectangles tile the
rectangle they come from.
-/
namespace VncModel.Wire
open VncModel.Gen.C03

/-! ### arithmetic helpers -/

theorem div_step (n m : Nat) (hm : 0 < m) (h : m < n) : (n - 1) / m = (n - m - 1) / m + 1 := by
  have : n - 1 = (n - m - 1) + m := by omega
  rw [this, Nat.add_div_right _ hm]

theorem div_small (n m : Nat) (h : n ≤ m) : (n - 1) / m = 0 := by
  rcases Nat.eq_zero_or_pos m with rfl | hm
  · simp
  · exact Nat.div_eq_of_lt (by omega)

/-! ### Zlib / Ultra -/

/-- `MAX_SIZE(w) / w` is never 0 for a non-empty rectangle: the division in the count expression
and the loop of the encoder are safe and the loop makes progress. -/
theorem maxLines_ge_two (R w : Nat) (hw : 1 ≤ w) : 2 ≤ maxLines R w := by
  unfold maxLines maxSize
  split
  · rw [Nat.le_div_iff_mul_le (by omega)]
    omega
  · rename_i h
    rw [Nat.le_div_iff_mul_le (by omega)]
    omega

theorem linesSplit_length (ml : Nat) (hml : 1 ≤ ml) :
    ∀ (fuel x y w rem : Nat), rem ≤ fuel →
      (linesSplit ml fuel x y w rem).length = if rem = 0 then 0 else (rem - 1) / ml + 1 := by
  intro fuel
  induction fuel with
  | zero =>
    intro x y w rem h
    have : rem = 0 := by omega
    simp [linesSplit, this]
  | succ f ih =>
    intro x y w rem h
    unfold linesSplit
    by_cases hr : rem > 0
    · simp only [hr, if_true, List.length_cons]
      have hne : rem ≠ 0 := by omega
      simp only [hne, if_false]
      by_cases hlt : ml < rem
      · simp only [hlt, if_true]
        rw [ih x (y + ml) w (rem - ml) (by omega)]
        have : rem - ml ≠ 0 := by omega
        simp only [this, if_false]
        rw [div_step rem ml (by omega) hlt]
      · simp only [hlt, if_false]
        rw [ih x (y + rem) w (rem - rem) (by omega)]
        have h0 := div_small rem ml (by omega)
        simp [h0]
    · have : rem = 0 := by omega
      simp [this]

theorem linesSplit_inside (ml : Nat) :
    ∀ (fuel x y w rem : Nat) (g : Geo), g ∈ linesSplit ml fuel x y w rem →
      g.x = x ∧ g.w = w ∧ y ≤ g.y ∧ g.y + g.h ≤ y + rem := by
  intro fuel
  induction fuel with
  | zero => intro x y w rem g h; simp [linesSplit] at h
  | succ f ih =>
    intro x y w rem g h
    unfold linesSplit at h
    by_cases hr : rem > 0
    · simp only [hr, if_true, List.mem_cons] at h
      rcases h with rfl | h
      · by_cases hlt : ml < rem <;> simp [hlt] <;> try omega
      · have := ih _ _ _ _ _ h
        by_cases hlt : ml < rem
        · simp only [hlt, if_true] at this; omega
        · simp only [hlt, if_false] at this; omega
    · simp [hr] at h

/-! ### CoRRE -/

theorem correSplit_length (mw mh : Nat) (hmw : 1 ≤ mw) (hmh : 1 ≤ mh) :
    ∀ (fuel x y w h : Nat), 1 ≤ w → 1 ≤ h → w + h ≤ fuel →
      (correSplit mw mh fuel x y w h).length = correCount mw mh w h := by
  intro fuel
  induction fuel with
  | zero => intro x y w h hw hh hf; omega
  | succ f ih =>
    intro x y w h hw hh hf
    unfold correSplit
    by_cases h1 : h > mh
    · simp only [h1, if_true, List.length_append]
      rw [ih x y w mh hw hmh (by omega), ih x (y + mh) w (h - mh) hw (by omega) (by omega)]
      unfold correCount
      rw [div_small mh mh (Nat.le_refl _), div_step h mh (by omega) h1]
      generalize (w - 1) / mw + 1 = a
      generalize (h - mh - 1) / mh = b
      rw [Nat.mul_add a (b + 1) 1, Nat.add_comm]
    · simp only [h1, if_false]
      have hh0 : (h - 1) / mh = 0 := div_small h mh (by omega)
      by_cases h2 : w > mw
      · simp only [h2, if_true, List.length_append]
        rw [ih x y mw h hmw hh (by omega), ih (x + mw) y (w - mw) h (by omega) hh (by omega)]
        unfold correCount
        rw [hh0, div_small mw mw (Nat.le_refl _), div_step w mw (by omega) h2]
        omega
      · simp only [h2, if_false, List.length_singleton]
        unfold correCount
        rw [hh0, div_small w mw (by omega)]

theorem correSplit_inside (mw mh : Nat) :
    ∀ (fuel x y w h : Nat) (g : Geo), g ∈ correSplit mw mh fuel x y w h →
      x ≤ g.x ∧ g.x + g.w ≤ x + w ∧ y ≤ g.y ∧ g.y + g.h ≤ y + h := by
  intro fuel
  induction fuel with
  | zero => intro x y w h g hg; simp [correSplit] at hg
  | succ f ih =>
    intro x y w h g hg
    unfold correSplit at hg
    by_cases h1 : h > mh
    · simp only [h1, if_true, List.mem_append] at hg
      rcases hg with hg | hg
      · have := ih _ _ _ _ _ hg; omega
      · have := ih _ _ _ _ _ hg; omega
    · simp only [h1, if_false] at hg
      by_cases h2 : w > mw
      · simp only [h2, if_true, List.mem_append] at hg
        rcases hg with hg | hg
        · have := ih _ _ _ _ _ hg; omega
        · have := ih _ _ _ _ _ hg; omega
      · simp only [h2, if_false, List.mem_singleton] at hg
        subst hg
        all_goals (first | omega | simp)

/-! ### Tight (no solid-area search) -/

theorem loopVals_length (st n : Nat) (hst : 1 ≤ st) :
    ∀ (fuel d : Nat), n ≤ d + fuel →
      (loopVals st n fuel d).length = if d < n then (n - d - 1) / st + 1 else 0 := by
  intro fuel
  induction fuel with
  | zero =>
    intro d h
    have : ¬ d < n := by omega
    simp [loopVals, this]
  | succ f ih =>
    intro d h
    unfold loopVals
    by_cases hd : d < n
    · simp only [hd, if_true, List.length_cons]
      rw [ih (d + st) (by omega)]
      by_cases hd2 : d + st < n
      · simp only [hd2, if_true]
        have : n - d - 1 = (n - (d + st) - 1) + st := by omega
        rw [this, Nat.add_div_right _ (by omega)]
      · simp only [hd2, if_false]
        have : (n - d - 1) / st = 0 := Nat.div_eq_of_lt (by omega)
        omega
    · simp [hd]

theorem loopVals_lt (st n : Nat) :
    ∀ (fuel d v : Nat), v ∈ loopVals st n fuel d → d ≤ v ∧ v < n := by
  intro fuel
  induction fuel with
  | zero => intro d v h; simp [loopVals] at h
  | succ f ih =>
    intro d v h
    unfold loopVals at h
    by_cases hd : d < n
    · simp only [hd, if_true, List.mem_cons] at h
      rcases h with rfl | h
      · omega
      · have := ih _ _ h; omega
    · simp [hd] at h

theorem length_flatMap_const {α β : Type} (l : List α) (f : α → List β) (k : Nat)
    (h : ∀ a ∈ l, (f a).length = k) : (l.flatMap f).length = l.length * k := by
  induction l with
  | nil => simp
  | cons a t ih =>
    simp only [List.flatMap_cons, List.length_append, List.length_cons]
    rw [h a (by simp), ih (fun b hb => h b (by simp [hb]))]
    rw [Nat.add_mul, Nat.one_mul, Nat.add_comm]

/-- the sub-rectangle height bound used by Tight is positive for the generated constants -/
theorem tight_smh_pos (smw : Nat) (h1 : 1 ≤ smw) (h2 : smw ≤ TIGHT_MAX_RECT_WIDTH) :
    1 ≤ TIGHT_MAX_RECT_SIZE / smw := by
  rw [Nat.le_div_iff_mul_le (by omega)]
  have : TIGHT_MAX_RECT_WIDTH ≤ TIGHT_MAX_RECT_SIZE := by decide
  omega

theorem tightSimpleSplit_length (x y w h : Nat) (hw : 1 ≤ w) (hh : 1 ≤ h) :
    (tightSimpleSplit x y w h).length = tightCount false w h := by
  unfold tightSimpleSplit tightCount
  have hW : 1 ≤ TIGHT_MAX_RECT_WIDTH := by decide
  by_cases hc : w > TIGHT_MAX_RECT_WIDTH ∨ w * h > TIGHT_MAX_RECT_SIZE
  · simp only [hc, if_true]
    have hsmw1 : 1 ≤ (if w > TIGHT_MAX_RECT_WIDTH then TIGHT_MAX_RECT_WIDTH else w) := by
      split <;> omega
    have hsmw2 : (if w > TIGHT_MAX_RECT_WIDTH then TIGHT_MAX_RECT_WIDTH else w) ≤ TIGHT_MAX_RECT_WIDTH := by
      split <;> omega
    have hsmh := tight_smh_pos _ hsmw1 hsmw2
    generalize (TIGHT_MAX_RECT_SIZE / (if w > TIGHT_MAX_RECT_WIDTH then TIGHT_MAX_RECT_WIDTH else w)) = smh at *
    rw [length_flatMap_const _ _ ((w - 1) / TIGHT_MAX_RECT_WIDTH + 1)]
    · rw [loopVals_length smh h hsmh h 0 (by omega)]
      have : (0 : Nat) < h := by omega
      simp only [this, if_true, Nat.sub_zero]
      simp
      exact Nat.mul_comm _ _
    · intro dy _
      rw [List.length_map, loopVals_length TIGHT_MAX_RECT_WIDTH w hW w 0 (by omega)]
      have : (0 : Nat) < w := by omega
      simp [this]
  · simp [hc]

theorem tightCount_of_simple (lastRect : Bool) (w h : Nat) (hs : tightIsSimple lastRect w h = true) :
    tightCount lastRect w h = tightCount false w h := by
  unfold tightIsSimple at hs
  unfold tightCount
  cases lastRect with
  | false => rfl
  | true =>
    simp only [Bool.not_true, Bool.false_or, decide_eq_true_eq] at hs
    have hn : ¬ (MIN_SPLIT_RECT_SIZE ≤ w * h) := by omega
    simp [hn]

/-- the count 0 ("unknown") arises only for clients that enabled LastRect -/
theorem tightCount_zero (lastRect : Bool) (w h : Nat) (h0 : tightCount lastRect w h = 0) :
    lastRect = true ∧ w * h ≥ MIN_SPLIT_RECT_SIZE := by
  unfold tightCount at h0
  by_cases hc : lastRect = true ∧ w * h ≥ MIN_SPLIT_RECT_SIZE
  · exact hc
  · simp only [hc, if_false] at h0
    split at h0
    · exfalso
      rcases Nat.mul_eq_zero.mp h0 with h | h
      · exact absurd h (Nat.succ_ne_zero _)
      · exact absurd h (Nat.succ_ne_zero _)
    · omega

end VncModel.Wire
