import VncModel.Wire.Basic
import VncModel.Gen.C03
/-
Server → client messages of the normal protocol phase and their serialisation (C03).

A rectangle is its 12-byte header plus the payload bytes that belong to it; how many bytes belong
to it is the business of the strict parser (`Wire/Parse.lean`).  Padding bytes are kept as fields so
that serialise/parse is an exact bijection on well-formed messages (the FramebufferUpdate padding
byte is *not* initialised by `rfbSendFramebufferUpdate`, it carries whatever `updateBuf[1]` held).
-/
namespace VncModel.Wire
open VncModel.Gen.C03

structure RectHdr where
  x : Nat
  y : Nat
  w : Nat
  h : Nat
  enc : Nat          -- the encoding field as an unsigned 32-bit number
  deriving DecidableEq, Repr, Inhabited

structure Rect where
  hdr : RectHdr
  payload : Bytes
  deriving DecidableEq, Repr, Inhabited

inductive ServerMsg where
  | fbu (pad nRects : Nat) (rects : List Rect)                 -- rfbFramebufferUpdate
  | colourMap (pad first n : Nat) (data : Bytes)               -- rfbSetColourMapEntries
  | bell                                                        -- rfbBell
  | cutText (pad : Bytes) (len : Nat) (data : Bytes)           -- rfbServerCutText (len = field as sent)
  | resizeFB (pad w h : Nat)                                   -- rfbResizeFrameBuffer (UltraVNC SetScale)
  | palmResize (pad1 dw dh bw bh pad2 : Nat)                   -- rfbPalmVNCReSizeFrameBuffer
  | xvp (pad ver code : Nat)                                   -- rfbXvp
  | textChat (pad : Bytes) (len : Nat) (data : Bytes)          -- rfbTextChat
  deriving DecidableEq, Repr, Inhabited

def serHdr (h : RectHdr) : Bytes :=
  be16 h.x ++ be16 h.y ++ be16 h.w ++ be16 h.h ++ be32 h.enc

def serRect (r : Rect) : Bytes := serHdr r.hdr ++ r.payload

def serRects (rs : List Rect) : Bytes := rs.flatMap serRect

def serMsg : ServerMsg → Bytes
  | .fbu pad n rs => [UInt8.ofNat rfbFramebufferUpdate, UInt8.ofNat pad] ++ be16 n ++ serRects rs
  | .colourMap pad first n data =>
      [UInt8.ofNat rfbSetColourMapEntries, UInt8.ofNat pad] ++ be16 first ++ be16 n ++ data
  | .bell => [UInt8.ofNat rfbBell]
  | .cutText pad len data => [UInt8.ofNat rfbServerCutText] ++ pad ++ be32 len ++ data
  | .resizeFB pad w h => [UInt8.ofNat rfbResizeFrameBuffer, UInt8.ofNat pad] ++ be16 w ++ be16 h
  | .palmResize p1 dw dh bw bh p2 =>
      [UInt8.ofNat rfbPalmVNCReSizeFrameBuffer, UInt8.ofNat p1] ++ be16 dw ++ be16 dh ++ be16 bw ++ be16 bh
        ++ be16 p2
  | .xvp pad ver code => [UInt8.ofNat rfbXvp, UInt8.ofNat pad, UInt8.ofNat ver, UInt8.ofNat code]
  | .textChat pad len data => [UInt8.ofNat rfbTextChat] ++ pad ++ be32 len ++ data

def serMsgs (ms : List ServerMsg) : Bytes := ms.flatMap serMsg

/-- number of data bytes that follow a ServerCutText header whose length field is `len`:
a field with the top bit set is the extended-clipboard form carrying `-len` bytes -/
def cutTextDataLen (len : Nat) : Nat := if len < 2147483648 then len else 4294967296 - len

/-- number of text bytes that follow a TextChat header whose length field is `len` -/
def textChatDataLen (len : Nat) : Nat :=
  if len = rfbTextChatOpen ∨ len = rfbTextChatClose ∨ len = rfbTextChatFinished then 0 else len

end VncModel.Wire
