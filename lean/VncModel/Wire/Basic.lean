/-
Byte-level helpers of the wire model (C03): big-endian fields, bounded reads.  Core Lean only.
All multi-byte fields of the RFB protocol are big-endian (`Swap16IfLE` / `Swap32IfLE` on a
little-endian host).
-/
namespace VncModel.Wire

abbrev Bytes := List UInt8

/-- 16-bit big-endian field; values ≥ 2^16 wrap exactly like the C assignment to `uint16_t`. -/
def be16 (n : Nat) : Bytes := [UInt8.ofNat (n / 256), UInt8.ofNat n]

/-- 32-bit big-endian field (wraps mod 2^32 like `uint32_t`). -/
def be32 (n : Nat) : Bytes :=
  [UInt8.ofNat (n / 16777216), UInt8.ofNat (n / 65536), UInt8.ofNat (n / 256), UInt8.ofNat n]

/-! Literal factors are written on the LEFT of every product: `Nat.mul` recurses on its second
argument, and the kernel unfolds `x * 16777216` (x not a literal) sixteen million levels deep. -/

def rd8 : Bytes → Option (Nat × Bytes)
  | b :: r => some (b.toNat, r)
  | [] => none

def rd16 : Bytes → Option (Nat × Bytes)
  | a :: b :: r => some (256 * a.toNat + b.toNat, r)
  | _ => none

def rd32 : Bytes → Option (Nat × Bytes)
  | a :: b :: c :: d :: r =>
    some (16777216 * a.toNat + 65536 * b.toNat + 256 * c.toNat + d.toNat, r)
  | _ => none

/-- exactly `n` bytes or failure (never a short read) -/
def takeN (n : Nat) (bs : Bytes) : Option (Bytes × Bytes) :=
  let a := bs.take n
  if a.length = n then some (a, bs.drop n) else none

/-- skip exactly `n` bytes or fail -/
def dropN (n : Nat) (bs : Bytes) : Option Bytes := (takeN n bs).map (·.2)

theorem rd8_cons (b : UInt8) (r : Bytes) : rd8 (b :: r) = some (b.toNat, r) := rfl

theorem rd16_be16 (n : Nat) (h : n < 65536) (r : Bytes) : rd16 (be16 n ++ r) = some (n, r) := by
  simp only [be16, List.cons_append, List.nil_append, rd16]
  have : 256 * (UInt8.ofNat (n / 256)).toNat + (UInt8.ofNat n).toNat = n := by
    simp; omega
  rw [this]

theorem rd32_be32 (n : Nat) (h : n < 4294967296) (r : Bytes) : rd32 (be32 n ++ r) = some (n, r) := by
  simp only [be32, List.cons_append, List.nil_append, rd32]
  have : 16777216 * (UInt8.ofNat (n / 16777216)).toNat + 65536 * (UInt8.ofNat (n / 65536)).toNat
      + 256 * (UInt8.ofNat (n / 256)).toNat + (UInt8.ofNat n).toNat = n := by
    simp; omega
  rw [this]

theorem be16_length (n : Nat) : (be16 n).length = 2 := rfl
theorem be32_length (n : Nat) : (be32 n).length = 4 := rfl

theorem takeN_append (a r : Bytes) (n : Nat) (h : a.length = n) : takeN n (a ++ r) = some (a, r) := by
  simp [takeN, List.take_left' h, List.drop_left' h, h]

theorem takeN_length {n : Nat} {bs a r : Bytes} (h : takeN n bs = some (a, r)) :
    a.length = n ∧ bs = a ++ r := by
  unfold takeN at h
  simp only at h
  split at h
  · rename_i hl
    simp only [Option.some.injEq, Prod.mk.injEq] at h
    obtain ⟨rfl, rfl⟩ := h
    exact ⟨hl, (List.take_append_drop n bs).symm⟩
  · cases h

theorem takeN_none_of_short {n : Nat} {bs : Bytes} (h : bs.length < n) : takeN n bs = none := by
  unfold takeN
  simp only
  rw [if_neg]
  simp [List.length_take]; omega

end VncModel.Wire
