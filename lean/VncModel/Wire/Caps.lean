import VncModel.Gen.C03
/-
Capability state of one client: the `cl->use*/enable*` flags written by the SetEncodings case of
`rfbProcessClientNormalMessage` (rfbserver.c), transcribed statement by statement (C03).
-/
namespace VncModel.Wire
open VncModel.Gen.C03

/-- screen-level configuration the SetEncodings code consults -/
structure SrvCfg where
  xvpHook : Bool := false             -- cl->screen->xvpHook != NULL
  utf8Hook : Bool := false            -- cl->screen->setXCutTextUTF8 != NULL
  ledHook : Bool := false             -- cl->screen->getKeyboardLedStateHook != NULL
  noRichToX : Bool := false           -- cl->screen->dontConvertRichCursorToXCursor
  deriving Repr, DecidableEq

structure Caps where
  preferred : Option Nat := none      -- cl->preferredEncoding, `none` = -1
  useCopyRect : Bool := false
  useNewFBSize : Bool := false
  useExtDesktopSize : Bool := false
  cursorShape : Bool := false         -- enableCursorShapeUpdates
  richCursor : Bool := false          -- useRichCursorEncoding
  cursorPos : Bool := false           -- enableCursorPosUpdates
  lastRect : Bool := false            -- enableLastRectEncoding
  led : Bool := false                 -- enableKeyboardLedState
  supMsgs : Bool := false             -- enableSupportedMessages   (one-shot, cleared when sent)
  supEncs : Bool := false             -- enableSupportedEncodings  (one-shot)
  identity : Bool := false            -- enableServerIdentity      (one-shot)
  extClip : Bool := false             -- enableExtendedClipboard   (NOT reset by SetEncodings)
  cursorWasChanged : Bool := false
  cursorWasMoved : Bool := false
  deriving Repr, DecidableEq

/-- messages written to the socket while SetEncodings is being processed -/
inductive Immediate where
  | xvpInit           -- rfbSendXvp(cl, 1, rfbXvp_Init)
  | extClipCaps       -- rfbSendExtendedClipboardCapability
  deriving Repr, DecidableEq

def isPixelEncoding (e : Nat) : Bool :=
  e == rfbEncodingRaw || e == rfbEncodingRRE || e == rfbEncodingCoRRE || e == rfbEncodingHextile ||
  e == rfbEncodingUltra || e == rfbEncodingZlib || e == rfbEncodingZRLE || e == rfbEncodingZYWRLE ||
  e == rfbEncodingTight || e == rfbEncodingTightPng

/-- the reset block at the top of the SetEncodings case -/
def resetCaps (c : Caps) : Caps :=
  { c with preferred := none, useCopyRect := false, useNewFBSize := false, useExtDesktopSize := false,
           cursorWasChanged := false, richCursor := false, cursorPos := false, cursorShape := false,
           lastRect := false, led := false, supMsgs := false, supEncs := false, identity := false }

/-- one iteration of the `for (i = 0; i < nEncodings; i++)` loop -/
def applyEnc (g : SrvCfg) (c : Caps) (e : Nat) : Caps × List Immediate :=
  if e = rfbEncodingCopyRect then ({ c with useCopyRect := true }, [])
  else if isPixelEncoding e then
    (if c.preferred.isNone then { c with preferred := some e } else c, [])
  else if e = rfbEncodingXCursor then
    (if !g.noRichToX then { c with cursorShape := true, cursorWasChanged := true } else c, [])
  else if e = rfbEncodingRichCursor then
    ({ c with cursorShape := true, richCursor := true, cursorWasChanged := true }, [])
  else if e = rfbEncodingPointerPos then
    (if !c.cursorPos then { c with cursorPos := true, cursorWasMoved := true } else c, [])
  else if e = rfbEncodingLastRect then ({ c with lastRect := true }, [])
  else if e = rfbEncodingNewFBSize then ({ c with useNewFBSize := true }, [])
  else if e = rfbEncodingExtDesktopSize then
    ({ c with useExtDesktopSize := true, useNewFBSize := true }, [])
  else if e = rfbEncodingKeyboardLedState then ({ c with led := true }, [])
  else if e = rfbEncodingSupportedMessages then ({ c with supMsgs := true }, [])
  else if e = rfbEncodingSupportedEncodings then ({ c with supEncs := true }, [])
  else if e = rfbEncodingServerIdentity then ({ c with identity := true }, [])
  else if e = rfbEncodingXvp then (c, if g.xvpHook then [.xvpInit] else [])
  else if e = rfbEncodingExtendedClipboard then
    if g.utf8Hook then ({ c with extClip := true }, [.extClipCaps]) else (c, [])
  else (c, [])       -- compression / quality levels, unknown numbers: no effect on the wire format

def applyEncs (g : SrvCfg) : Caps → List Nat → List Immediate → Caps × List Immediate
  | c, [], acc => (c, acc)
  | c, e :: es, acc =>
    let (c', im) := applyEnc g c e
    applyEncs g c' es (acc ++ im)

/-- `if (cl->preferredEncoding == -1)` after the loop: fall back to the encoding in use before this
message (`lastPreferredEncoding`), or to Raw if there was none -/
def fallbackPreferred (last : Option Nat) (c : Caps) : Caps :=
  match c.preferred with
  | some _ => c
  | none => { c with preferred := some (last.getD rfbEncodingRaw) }

/-- `if (cl->enableCursorPosUpdates && !cl->enableCursorShapeUpdates)`: position updates are switched
off again for a client that did not ask for cursor shape updates -/
def dropPosWithoutShape (c : Caps) : Caps :=
  if c.cursorPos && !c.cursorShape then { c with cursorPos := false } else c

/-- the whole SetEncodings case -/
def setEncodings (g : SrvCfg) (c : Caps) (encs : List Nat) : Caps × List Immediate :=
  let r := applyEncs g (resetCaps c) encs []
  (dropPosWithoutShape (fallbackPreferred c.preferred r.1), r.2)

/-- everything the client has ever listed in a SetEncodings message -/
abbrev History := List Nat

def advertised (hist : History) (e : Nat) : Bool := hist.contains e

end VncModel.Wire
