import VncModel.Wire.Session
import VncModel.Wire.CapsLemmas
import VncModel.Wire.PlanLemmas
import VncModel.Wire.ParseLemmas
/-
Lemmas about the session model (C03): ServerInit round trip, "only advertised encodings" for the
predicted update, emitted rectangles stay inside their region rectangle.
-/
namespace VncModel.Wire
open VncModel.Gen.C03

/-! ### ServerInit -/

theorem parseServerInit_ser (si : ServerInit) (hw : si.w < 65536) (hh : si.h < 65536)
    (hpf : si.pf.length = sz_rfbPixelFormat) (hn : si.name.length < 4294967296) (rest : Bytes) :
    parseServerInit (serServerInit si ++ rest) = some (si, rest) := by
  unfold parseServerInit serServerInit
  simp only [List.append_assoc]
  rw [rd16_be16 _ hw]
  simp only []
  rw [rd16_be16 _ hh]
  simp only []
  rw [takeN_append _ _ _ hpf]
  simp only []
  rw [rd32_be32 _ hn]
  simp only []
  rw [takeN_append _ _ _ rfl]

/-! ### emitted rectangles stay inside the region rectangle they come from -/

def Geo.inside (q g : Geo) : Prop :=
  g.x ≤ q.x ∧ q.x + q.w ≤ g.x + g.w ∧ g.y ≤ q.y ∧ q.y + q.h ≤ g.y + g.h

theorem tightSimpleSplit_inside (x y w h : Nat) (q : Geo) (hq : q ∈ tightSimpleSplit x y w h) :
    q.inside ⟨x, y, w, h⟩ := by
  unfold tightSimpleSplit at hq
  by_cases hc : w > TIGHT_MAX_RECT_WIDTH ∨ w * h > TIGHT_MAX_RECT_SIZE
  · simp only [hc, if_true] at hq
    generalize (TIGHT_MAX_RECT_SIZE / (if w > TIGHT_MAX_RECT_WIDTH then TIGHT_MAX_RECT_WIDTH else w)) = smh at hq
    simp only [List.mem_flatMap, List.mem_map] at hq
    obtain ⟨dy, hdy, dx, hdx, rfl⟩ := hq
    have h1 := loopVals_lt _ _ _ _ _ hdy
    have h2 := loopVals_lt _ _ _ _ _ hdx
    unfold Geo.inside
    simp only
    refine ⟨by omega, ?_, by omega, ?_⟩
    · by_cases hh : dx + TIGHT_MAX_RECT_WIDTH < w
      · rw [if_pos hh]; omega
      · rw [if_neg hh]; omega
    · by_cases hh : dy + smh < h
      · rw [if_pos hh]; omega
      · rw [if_neg hh]; omega
  · simp only [hc, if_false, List.mem_singleton] at hq
    subst hq
    simp [Geo.inside]

theorem emitFor_inside (enc : Nat) (lastRect : Bool) (g : Geo) (l : List Geo)
    (he : emitFor enc lastRect g = some l) (q : Geo) (hq : q ∈ l) : q.inside g := by
  unfold emitFor at he
  split at he
  · simp only [Option.some.injEq] at he
    subst he
    have := correSplit_inside _ _ _ _ _ _ _ _ hq
    exact this
  split at he
  · simp only [Option.some.injEq] at he
    subst he
    have := linesSplit_inside _ _ _ _ _ _ _ hq
    unfold Geo.inside
    omega
  split at he
  · simp only [Option.some.injEq] at he
    subst he
    have := linesSplit_inside _ _ _ _ _ _ _ hq
    unfold Geo.inside
    omega
  split at he
  · split at he
    · simp only [Option.some.injEq] at he
      subst he
      exact tightSimpleSplit_inside _ _ _ _ _ hq
    · cases he
  · simp only [Option.some.injEq] at he
    subst he
    simp only [List.mem_singleton] at hq
    subst hq
    simp [Geo.inside]

/-! ### only advertised encodings in the predicted update -/

theorem allowedEncs_mem (enc e : Nat) (h : e ∈ allowedEncs enc) : e = enc ∨ e = rfbEncodingRaw := by
  unfold allowedEncs at h
  split at h <;> simp at h <;> omega

theorem pseudoPats_adv (s : Screen) (c : Conn) (H : List Nat) (a : Adv H c.caps)
    (p : RPat) (hp : p ∈ pseudoPats s c (pseudoFlags s c)) (e : Nat) (he : e ∈ p.encs) : e ∈ H := by
  unfold pseudoPats pseudoFlags at hp
  simp only [List.mem_append] at hp
  rcases hp with ((((hp | hp) | hp) | hp) | hp) | hp
  · -- cursor shape
    split at hp
    · rename_i hs
      simp only [Bool.and_eq_true] at hs
      have hshape : c.caps.cursorShape = true := hs.1.1
      have hce : cursorEnc c.caps ∈ H := by
        unfold cursorEnc
        cases hr : c.caps.richCursor with
        | true => simp only [if_true]; exact a.richCursor hr
        | false => simp only [Bool.false_eq_true, if_false]; exact a.xCursor hshape hr
      simp only [List.mem_singleton] at hp
      split at hp <;> (subst hp; simp only [RPat.encs, List.mem_singleton] at he; exact he ▸ hce)
    · simp at hp
  · split at hp
    · rename_i hs
      simp only [Bool.and_eq_true] at hs
      simp only [List.mem_singleton] at hp
      subst hp
      simp only [RPat.encs, List.mem_singleton] at he
      exact he ▸ a.cursorPos hs.1
    · simp at hp
  · split at hp
    · rename_i hs
      simp only [Bool.and_eq_true] at hs
      simp only [List.mem_singleton] at hp
      subst hp
      simp only [RPat.encs, List.mem_singleton] at he
      exact he ▸ a.led hs.1.1
    · simp at hp
  · split at hp
    · rename_i hs
      simp only [List.mem_singleton] at hp
      subst hp
      simp only [RPat.encs, List.mem_singleton] at he
      exact he ▸ a.supMsgs hs
    · simp at hp
  · split at hp
    · rename_i hs
      simp only [List.mem_singleton] at hp
      subst hp
      simp only [RPat.encs, List.mem_singleton] at he
      exact he ▸ a.supEncs hs
    · simp at hp
  · split at hp
    · rename_i hs
      simp only [List.mem_singleton] at hp
      subst hp
      simp only [RPat.encs, List.mem_singleton] at he
      exact he ▸ a.identity hs
    · simp at hp

theorem pixPats_adv (enc : Nat) (lastRect : Bool) (gs : List Geo) (p : RPat)
    (hp : p ∈ pixPats enc lastRect gs) (e : Nat) (he : e ∈ p.encs) : e = enc ∨ e = rfbEncodingRaw := by
  unfold pixPats at hp
  simp only [List.mem_flatMap] at hp
  obtain ⟨g, _, hp⟩ := hp
  split at hp
  · simp only [List.mem_map] at hp
    obtain ⟨q, _, rfl⟩ := hp
    exact allowedEncs_mem enc e he
  · simp only [List.mem_singleton] at hp
    subst hp
    simp only [RPat.encs, List.mem_singleton] at he
    exact Or.inl he

end VncModel.Wire
