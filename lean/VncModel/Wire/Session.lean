import VncModel.Wire.Check
import VncModel.Wire.Plan
/-
Per-connection session model for C03: handshake expectations, capability state, the planning
decisions of `rfbSendFramebufferUpdate` (which pseudo-rectangles are sent, announced count,
predicted rectangle headers) and the comparison of predictions with parsed messages.
Core Lean only (uses `Float` for `rfbScaledCorrection`, which is double arithmetic in C).
-/
namespace VncModel.Wire
open VncModel.Gen.C03

/-! ### `rfbScaledCorrection` / `ScaleX` (scale.c) -/

/-- `(int)` cast of a non-negative double -/
def truncF (v : Float) : Nat := v.toUInt64.toNat

/-- `CEIL(x)` macro of scale.c -/
def ceilF (v : Float) : Nat :=
  let t := truncF v
  if Float.ofNat t == v then t else t + 1

/-- rfbScaledCorrection(from, to, &x, &y, &w, &h): `from`/`to` given by their sizes -/
def scaledCorrection (fw fh tw th : Nat) (g : Geo) : Geo :=
  let scaleW := Float.ofNat tw / Float.ofNat fw
  let scaleH := Float.ofNat th / Float.ofNat fh
  let x1 := Float.ofNat g.x * scaleW
  let y1 := Float.ofNat g.y * scaleH
  let w1 := Float.ofNat g.w * scaleW
  let h1 := Float.ofNat g.h * scaleH
  let x2 := truncF x1
  let y2 := truncF y1
  let w2 := ceilF (w1 + (x1 - Float.ofNat x2))
  let h2 := ceilF (h1 + (y1 - Float.ofNat y2))
  let w3 := if w2 = 0 then 1 else w2
  let h3 := if h2 = 0 then 1 else h2
  -- `if (*x+*w > to->width) *w = to->width - *x;` in C `int` arithmetic (may go negative)
  let w4 : Int := if x2 + w3 > tw then (tw : Int) - x2 else w3
  let h4 : Int := if y2 + h3 > th then (th : Int) - y2 else h3
  ⟨x2, y2, w4.toNat, h4.toNat⟩

/-- `ScaleX(from, to, v)`: `(int)(((int64_t)v * to) / from)` — C division truncates towards zero -/
def scaleInt (fromW toW : Nat) (v : Int) : Int :=
  let a := v.natAbs * toW / fromW
  if v < 0 then -(a : Int) else a

/-! ### session state -/

inductive Phase where
  | secType | auth | init | normal | closed
  deriving Repr, DecidableEq

/-- an expected piece of handshake output -/
inductive HsItem where
  | lit (what : String) (bs : Bytes)
  | any (what : String) (n : Nat)       -- e.g. the random challenge
  | serverInit                          -- checked against the screen's real parameters when seen
  deriving Repr

/-- pattern for one predicted rectangle of a FramebufferUpdate -/
inductive RPat where
  | exact (g : Geo) (encs : List Nat)          -- geometry equal, encoding one of `encs`
  | pseudo (enc : Nat)                         -- only the encoding number is predicted
  | cursor (enc xhot yhot w h : Nat)
  | copy (g : Geo) (sx sy : Nat)
  | tightAny (enc : Nat) (g : Geo)             -- ≥ 1 Tight rectangles inside g (solid-area search)
  deriving Repr

structure Pred where
  nRects : Nat
  pats : List RPat
  deriving Repr

structure Screen where
  cfg : SrvCfg := {}
  w : Nat := 0
  h : Nat := 0
  sbpp : Nat := 4                 -- server bytes per pixel
  pf : Bytes := []                -- the 16 bytes of the server pixel format as ServerInit must carry them
  name : Bytes := []
  led : Int := 0
  passwd : Bool := false
  maxRects : Nat := defaultMaxRectsPerUpdate
  protoMinor : Nat := 8
  curW : Nat := 8                 -- the installed cursor (default: myCursor 8x7, hot spot 3,3)
  curH : Nat := 7
  curXhot : Nat := 3
  curYhot : Nat := 3
  cursorX : Int := 0
  cursorY : Int := 0
  pointerClient : Option Nat := none
  deriving Repr

structure Conn where
  id : Nat
  phase : Phase := .secType
  minor : Nat := 8
  caps : Caps := {}
  hist : History := []
  bpp : Nat := 4
  depth : Nat := 32
  rmax : Nat := 255
  gmax : Nat := 255
  bmax : Nat := 255
  ready : Bool := false           -- readyForSetColourMapEntries
  lastLed : Int := -1
  scaled : Option (Nat × Nat) := none
  palm : Bool := false
  annW : Nat := 0
  annH : Nat := 0
  usedSetScale : Bool := false
  usedXvp : Bool := false
  expectHs : List HsItem := []
  preds : List Pred := []         -- predictions for FramebufferUpdates not yet seen (oldest first)
  buf : Bytes := []
  deriving Repr

def Conn.tight24 (c : Conn) : Bool := c.depth == 24 && c.rmax == 255 && c.gmax == 255 && c.bmax == 255

def Conn.pctx (c : Conn) : PCtx := ⟨c.bpp, c.tight24, c.caps.lastRect⟩

def Conn.octx (c : Conn) : OCtx := ⟨c.hist, c.annW, c.annH, c.usedSetScale, c.usedXvp⟩

/-- size of the screen this client is served from (`cl->scaledScreen`) -/
def Conn.viewSize (s : Screen) (c : Conn) : Nat × Nat := c.scaled.getD (s.w, s.h)

/-! ### handshake (rfbNewClient, rfbProcessClientProtocolVersion, auth.c) -/

def asciiBytes (s : String) : Bytes := s.toList.map fun ch => UInt8.ofNat ch.toNat

def pad3 (n : Nat) : String :=
  let d := toString (n % 1000)
  String.ofList (List.replicate (3 - d.length) '0') ++ d

/-- `sprintf(pv, "RFB %03d.%03d\n", major, minor)` -/
def versionBytes (minor : Nat) : Bytes := asciiBytes ("RFB 003." ++ pad3 minor ++ "\n")

def reasonBytes (s : String) : Bytes := be32 s.length ++ asciiBytes s

/-- what the server writes on accepting a connection whose client version string is already
waiting: its own version, then the reaction to the client's version (rfbAuthNewClient) -/
def onConnect (s : Screen) (minor : Nat) : List HsItem × Phase :=
  let ver := HsItem.lit "ProtocolVersion" (versionBytes s.protoMinor)
  let sec := if s.passwd then rfbSecTypeVncAuth else rfbSecTypeNone
  if minor < 7 then
    if s.passwd then
      ([ver, .lit "SecurityType(3.3)" (be32 sec), .any "challenge" CHALLENGESIZE], .auth)
    else ([ver, .lit "SecurityType(3.3)" (be32 sec)], .init)
  else ([ver, .lit "SecurityTypes" [1, UInt8.ofNat sec]], .secType)

/-- rfbProcessClientSecurityType + the handlers rfbVncAuthNone / rfbVncAuthSendChallenge -/
def onSecType (s : Screen) (c : Conn) (t : Nat) : List HsItem × Phase :=
  let offered := if s.passwd then rfbSecTypeVncAuth else rfbSecTypeNone
  if t ≠ offered then ([], .closed)
  else if t = rfbSecTypeNone then
    if c.minor > 7 ∧ c.minor ≠ 889 then ([.lit "SecurityResult" (be32 rfbVncAuthOK)], .init)
    else if c.minor = 889 then ([.serverInit], .normal)     -- RFB_INITIALISATION_SHARED quirk
    else ([], .init)
  else ([.any "challenge" CHALLENGESIZE], .auth)

/-- rfbAuthProcessClientMessage -/
def onAuth (c : Conn) (good : Bool) : List HsItem × Phase :=
  if good then ([.lit "SecurityResult" (be32 rfbVncAuthOK)], .init)
  else if c.minor > 7 then
    ([.lit "SecurityResult" (be32 rfbVncAuthFailed), .lit "reason" (reasonBytes "password check failed!")],
     .closed)
  else ([.lit "SecurityResult" (be32 rfbVncAuthFailed)], .closed)

/-- the ServerInit message the property demands: real size, real pixel format, real name
(`strncpy(…, 127)`: the name is cut to 127 bytes by the code; accepted and documented) -/
def serverInitBytes (s : Screen) : Bytes :=
  let nm := s.name.take 127
  be16 s.w ++ be16 s.h ++ s.pf ++ be32 nm.length ++ nm

/-! ### planning of one FramebufferUpdate (at the time the pre-encode hook fires) -/

/-- rfbSendCursorShape (with fix C03-cursor-too-big): a cursor whose rectangle does not fit into an
empty update buffer is replaced by the empty cursor -/
def cursorFits (rich : Bool) (bpp w h : Nat) : Bool :=
  let maskBytes := (w + 7) / 8 * h
  let dataBytes := if rich then w * h * bpp else maskBytes
  sz_rfbFramebufferUpdateRectHeader + sz_rfbXCursorColors + maskBytes + dataBytes ≤ UPDATE_BUF_SIZE

structure HookObs where
  dx : Int
  dy : Int
  upd : List Geo          -- updateRegion rectangles, main-screen coordinates, emission order
  cpy : List Geo          -- updateCopyRegion rectangles, emission order
  deriving Repr

def u16 (v : Int) : Nat := (v % 65536).toNat

/-- encodings a rectangle planned for `enc` may legitimately carry (fallbacks to Raw in
rre.c / corre.c / zlib.c) -/
def allowedEncs (enc : Nat) : List Nat :=
  if enc = rfbEncodingRRE ∨ enc = rfbEncodingCoRRE ∨ enc = rfbEncodingZlib then [enc, rfbEncodingRaw] else [enc]

def boolN (b : Bool) : Nat := if b then 1 else 0

/-- the decisions taken at the top of rfbSendFramebufferUpdate plus the announced count and the
predicted rectangle list; returns the updated connection (one-shot flags consumed) -/
def planUpdate (s : Screen) (c : Conn) (o : HookObs) : Conn × Pred :=
  let k := c.caps
  let sendShape := k.cursorShape && k.cursorWasChanged && c.ready
  let sendPos := k.cursorPos && k.cursorWasMoved
  let sendLed := k.led && s.cfg.ledHook && s.led != c.lastLed
  let sendSM := k.supMsgs
  let sendSE := k.supEncs
  let sendID := k.identity
  let enc := k.preferred.getD rfbEncodingRaw     -- `case -1:` is handled like Raw
  let (vw, vh) := c.viewSize s
  let scaledOn := c.scaled.isSome
  let corr := fun (g : Geo) => if scaledOn then scaledCorrection s.w s.h vw vh g else g
  let gs := o.upd.map corr
  let regionN := regionCount enc k.lastRect gs 0
  let pseudoN := boolN sendShape + boolN sendPos + boolN sendLed + boolN sendSM + boolN sendSE + boolN sendID
  let nRects := nRectsField o.cpy.length regionN pseudoN
  let dxs := if scaledOn then scaleInt s.w vw o.dx else o.dx
  let dys := if scaledOn then scaleInt s.w vw o.dy else o.dy      -- ScaleX is used for dy too
  let curEnc := if k.richCursor then rfbEncodingRichCursor else rfbEncodingXCursor
  let pseudo : List RPat :=
    (if sendShape then
      [if cursorFits k.richCursor c.bpp s.curW s.curH then RPat.cursor curEnc s.curXhot s.curYhot s.curW s.curH
       else RPat.cursor curEnc 0 0 0 0] else []) ++
    (if sendPos then [RPat.pseudo rfbEncodingPointerPos] else []) ++
    (if sendLed then [RPat.pseudo rfbEncodingKeyboardLedState] else []) ++
    (if sendSM then [RPat.pseudo rfbEncodingSupportedMessages] else []) ++
    (if sendSE then [RPat.pseudo rfbEncodingSupportedEncodings] else []) ++
    (if sendID then [RPat.pseudo rfbEncodingServerIdentity] else [])
  let copies : List RPat := o.cpy.map fun g0 =>
    let g := if scaledOn then scaledCorrection s.w s.h vw vh g0 else g0   -- always called in C; identity if unscaled
    RPat.copy g (u16 ((g.x : Int) - dxs)) (u16 ((g.y : Int) - dys))
  let pix : List RPat := gs.flatMap fun g =>
    match emitFor enc k.lastRect g with
    | some l => l.map fun q => RPat.exact q (allowedEncs enc)
    | none => [RPat.tightAny enc g]
  let tail : List RPat := if sendsLastRect regionN then [RPat.pseudo rfbEncodingLastRect] else []
  let caps' := { k with cursorWasChanged := if sendShape then false else k.cursorWasChanged,
                        cursorWasMoved := if sendPos then false else k.cursorWasMoved,
                        supMsgs := false, supEncs := false, identity := false }
  let c' := { c with caps := caps', lastLed := if sendLed then s.led else c.lastLed }
  (c', ⟨nRects, pseudo ++ copies ++ pix ++ tail⟩)

/-! ### comparison of a prediction with the parsed rectangles -/

def geoOf (h : RectHdr) : Geo := ⟨h.x, h.y, h.w, h.h⟩

def insideGeo (q g : Geo) : Bool :=
  g.x ≤ q.x && g.y ≤ q.y && q.x + q.w ≤ g.x + g.w && q.y + q.h ≤ g.y + g.h

def showGeo (g : Geo) : String := s!"{g.x},{g.y},{g.w},{g.h}"

def showHdr (h : RectHdr) : String := s!"{h.enc}@{h.x},{h.y},{h.w},{h.h}"

/-- `none` = the rectangles are exactly what was predicted.  A `tightAny` pattern stands for one or
more Tight rectangles inside its region rectangle; scaled region rectangles may overlap, so the
number it stands for is found by trying the shortest run first (`fuel` bounds the search). -/
def matchPats (fuel : Nat) : List RPat → List Rect → Nat → Option String
  | [], [], _ => none
  | [], r :: _, i => some s!"rect {i}: unexpected extra rectangle {showHdr r.hdr}"
  | p :: _, [], i => some s!"rect {i}: missing, predicted {repr p}"
  | .exact g encs :: ps, r :: rs, i =>
    if geoOf r.hdr = g ∧ encs.contains r.hdr.enc then matchPats fuel ps rs (i + 1)
    else some s!"rect {i}: got {showHdr r.hdr}, predicted {showGeo g} enc∈{encs}"
  | .pseudo e :: ps, r :: rs, i =>
    if r.hdr.enc = e then matchPats fuel ps rs (i + 1)
    else some s!"rect {i}: got {showHdr r.hdr}, predicted pseudo-encoding {e}"
  | .cursor e xh yh w h :: ps, r :: rs, i =>
    if r.hdr = ⟨xh, yh, w, h, e⟩ then matchPats fuel ps rs (i + 1)
    else some s!"rect {i}: got {showHdr r.hdr}, predicted cursor {e}@{xh},{yh},{w},{h}"
  | .copy g sx sy :: ps, r :: rs, i =>
    if r.hdr.enc = rfbEncodingCopyRect ∧ geoOf r.hdr = g ∧ copySrc r = some (sx, sy) then
      matchPats fuel ps rs (i + 1)
    else some s!"rect {i}: got {showHdr r.hdr} src {repr (copySrc r)}, predicted CopyRect {showGeo g} from {sx},{sy}"
  | .tightAny e g :: ps, r :: rs, i =>
    if r.hdr.enc = e ∧ insideGeo (geoOf r.hdr) g then
      match fuel with
      | 0 => some s!"rect {i}: search for the end of a Tight run gave up"
      | fuel + 1 =>
        match matchPats fuel ps rs (i + 1) with
        | none => none
        | some err =>
          -- let the run continue with the next rectangle, if it can belong to it
          match rs with
          | q :: _ =>
            if q.hdr.enc = e ∧ insideGeo (geoOf q.hdr) g then
              match matchPats fuel (.tightAny e g :: ps) rs (i + 1) with
              | none => none
              | some _ => some err
            else some err
          | [] => some err
    else some s!"rect {i}: got {showHdr r.hdr}, predicted Tight rectangles inside {showGeo g}"

def checkPred (p : Pred) (nRects : Nat) (rs : List Rect) : Option String :=
  if nRects ≠ p.nRects then some s!"announced nRects {nRects}, predicted {p.nRects}"
  else matchPats (rs.length + 1) p.pats rs 0

end VncModel.Wire
