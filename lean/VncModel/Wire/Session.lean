import VncModel.Wire.Check
import VncModel.Wire.Plan
/-
Per-connection session model for C03: handshake expectations, capability state, the planning
decisions of `rfbSendFramebufferUpdate` (which pseudo-rectangles are sent, announced count,
predicted rectangle headers) and the comparison of predictions with parsed messages.
Core Lean only (uses `Float` for `rfbScaledCorrection`, which is double arithmetic in C).
-/
namespace VncModel.Wire
open VncModel.Gen.C03

/-! ### `rfbScaledCorrection` / `ScaleX` (scale.c) -/

/-- `(int)` cast of a non-negative double -/
def truncF (v : Float) : Nat := v.toUInt64.toNat

/-- `CEIL(x)` macro of scale.c -/
def ceilF (v : Float) : Nat :=
  let t := truncF v
  if Float.ofNat t == v then t else t + 1

/-- rfbScaledCorrection(from, to, &x, &y, &w, &h): `from`/`to` given by their sizes -/
def scaledCorrection (fw fh tw th : Nat) (g : Geo) : Geo :=
  let scaleW := Float.ofNat tw / Float.ofNat fw
  let scaleH := Float.ofNat th / Float.ofNat fh
  let x1 := Float.ofNat g.x * scaleW
  let y1 := Float.ofNat g.y * scaleH
  let w1 := Float.ofNat g.w * scaleW
  let h1 := Float.ofNat g.h * scaleH
  let x2 := truncF x1
  let y2 := truncF y1
  let w2 := ceilF (w1 + (x1 - Float.ofNat x2))
  let h2 := ceilF (h1 + (y1 - Float.ofNat y2))
  let w3 := if w2 = 0 then 1 else w2
  let h3 := if h2 = 0 then 1 else h2
  -- `if (*x+*w > to->width) *w = to->width - *x;` in C `int` arithmetic (may go negative)
  let w4 : Int := if x2 + w3 > tw then (tw : Int) - x2 else w3
  let h4 : Int := if y2 + h3 > th then (th : Int) - y2 else h3
  ⟨x2, y2, w4.toNat, h4.toNat⟩

/-- `ScaleX(from, to, v)`: `(int)(((int64_t)v * to) / from)` — C division truncates towards zero -/
def scaleInt (fromW toW : Nat) (v : Int) : Int :=
  let a := v.natAbs * toW / fromW
  if v < 0 then -(a : Int) else a

/-! ### session state -/

inductive Phase where
  | secType | auth | init | normal | closed
  deriving Repr, DecidableEq

/-- an expected piece of handshake output -/
inductive HsItem where
  | lit (what : String) (bs : Bytes)
  | any (what : String) (n : Nat)       -- e.g. the random challenge
  | serverInit                          -- checked against the screen's real parameters when seen
  deriving Repr

/-- pattern for one predicted rectangle of a FramebufferUpdate -/
inductive RPat where
  | exact (g : Geo) (encs : List Nat)          -- geometry equal, encoding one of `encs`
  | pseudo (enc : Nat)                         -- only the encoding number is predicted
  | cursor (enc xhot yhot w h : Nat)
  | copy (g : Geo) (sx sy : Nat)
  | tightAny (enc : Nat) (g : Geo)             -- ≥ 1 Tight rectangles inside g (solid-area search)
  deriving Repr

structure Pred where
  nRects : Nat
  pats : List RPat
  deriving Repr

structure Screen where
  cfg : SrvCfg := {}
  w : Nat := 0
  h : Nat := 0
  sbpp : Nat := 4                 -- server bytes per pixel
  pf : Bytes := []                -- the 16 bytes of the server pixel format as ServerInit must carry them
  name : Bytes := []
  led : Int := 0
  passwd : Bool := false
  maxRects : Nat := defaultMaxRectsPerUpdate
  protoMinor : Nat := 8
  curW : Nat := 8                 -- the installed cursor (default: myCursor 8x7, hot spot 3,3)
  curH : Nat := 7
  curXhot : Nat := 3
  curYhot : Nat := 3
  curEmpty : Bool := false        -- 1x1 cursor with an empty mask: rfbSendCursorShape treats it as "no cursor"
  cursorX : Int := 0
  cursorY : Int := 0
  pointerClient : Option Nat := none
  extScreens : Option Nat := none -- application's screen-list hook: n screens (none = library default: one screen)
  extFail : Option Nat := none    -- … failing from this index on
  deriving Repr

structure Conn where
  id : Nat
  phase : Phase := .secType
  minor : Nat := 8
  caps : Caps := {}
  hist : History := []
  cur : List Nat := []             -- the last SetEncodings list
  bpp : Nat := 4
  depth : Nat := 32
  rmax : Nat := 255
  gmax : Nat := 255
  bmax : Nat := 255
  ready : Bool := false           -- readyForSetColourMapEntries
  lastLed : Int := -1
  scaled : Option (Nat × Nat) := none
  palm : Bool := false
  annW : Nat := 0
  annH : Nat := 0
  usedSetScale : Bool := false
  usedXvp : Bool := false
  expectHs : List HsItem := []
  preds : List Pred := []         -- predictions for FramebufferUpdates not yet seen (oldest first)
  buf : Bytes := []
  owedExtDS : Bool := false       -- a non-incremental request of an ExtDesktopSize client is answered by that rectangle first
  mute : Bool := false            -- peer closed / stream already reported broken: further bytes are not judged
  deriving Repr

def Conn.tight24 (c : Conn) : Bool := c.depth == 24 && c.rmax == 255 && c.gmax == 255 && c.bmax == 255

def Conn.pctx (c : Conn) : PCtx := ⟨c.bpp, c.tight24, c.caps.lastRect⟩

def Conn.octx (c : Conn) : OCtx := ⟨c.hist, c.cur, c.annW, c.annH, c.usedSetScale, c.usedXvp⟩

/-- size of the screen this client is served from (`cl->scaledScreen`) -/
def Conn.viewSize (s : Screen) (c : Conn) : Nat × Nat := c.scaled.getD (s.w, s.h)

/-! ### handshake (rfbNewClient, rfbProcessClientProtocolVersion, auth.c) -/

def asciiBytes (s : String) : Bytes := s.toList.map fun ch => UInt8.ofNat ch.toNat

def pad3 (n : Nat) : String :=
  let d := toString (n % 1000)
  String.ofList (List.replicate (3 - d.length) '0') ++ d

/-- `sprintf(pv, "RFB %03d.%03d\n", major, minor)` -/
def versionBytes (minor : Nat) : Bytes := asciiBytes ("RFB 003." ++ pad3 minor ++ "\n")

def reasonBytes (s : String) : Bytes := be32 s.length ++ asciiBytes s

/-- what the server writes on accepting a connection whose client version string is already
waiting: its own version, then the reaction to the client's version (rfbAuthNewClient) -/
def onConnect (s : Screen) (minor : Nat) : List HsItem × Phase :=
  let ver := HsItem.lit "ProtocolVersion" (versionBytes s.protoMinor)
  let sec := if s.passwd then rfbSecTypeVncAuth else rfbSecTypeNone
  if minor < 7 then
    if s.passwd then
      ([ver, .lit "SecurityType(3.3)" (be32 sec), .any "challenge" CHALLENGESIZE], .auth)
    else ([ver, .lit "SecurityType(3.3)" (be32 sec)], .init)
  else ([ver, .lit "SecurityTypes" [1, UInt8.ofNat sec]], .secType)

/-- rfbProcessClientSecurityType + the handlers rfbVncAuthNone / rfbVncAuthSendChallenge -/
def onSecType (s : Screen) (c : Conn) (t : Nat) : List HsItem × Phase :=
  let offered := if s.passwd then rfbSecTypeVncAuth else rfbSecTypeNone
  if t ≠ offered then ([], .closed)
  else if t = rfbSecTypeNone then
    if c.minor > 7 ∧ c.minor ≠ 889 then ([.lit "SecurityResult" (be32 rfbVncAuthOK)], .init)
    else if c.minor = 889 then ([.serverInit], .normal)     -- RFB_INITIALISATION_SHARED quirk
    else ([], .init)
  else ([.any "challenge" CHALLENGESIZE], .auth)

/-- rfbAuthProcessClientMessage -/
def onAuth (c : Conn) (good : Bool) : List HsItem × Phase :=
  if good then ([.lit "SecurityResult" (be32 rfbVncAuthOK)], .init)
  else if c.minor > 7 then
    ([.lit "SecurityResult" (be32 rfbVncAuthFailed), .lit "reason" (reasonBytes "password check failed!")],
     .closed)
  else ([.lit "SecurityResult" (be32 rfbVncAuthFailed)], .closed)

structure ServerInit where
  w : Nat
  h : Nat
  pf : Bytes            -- the 16 bytes of rfbPixelFormat
  name : Bytes
  deriving Repr, DecidableEq

def serServerInit (si : ServerInit) : Bytes :=
  be16 si.w ++ (be16 si.h ++ (si.pf ++ (be32 si.name.length ++ si.name)))

/-- strict parse of a ServerInit message: the name is exactly `nameLength` bytes -/
def parseServerInit (bs : Bytes) : Option (ServerInit × Bytes) :=
  match rd16 bs with
  | none => none
  | some (w, r1) =>
    match rd16 r1 with
    | none => none
    | some (h, r2) =>
      match takeN sz_rfbPixelFormat r2 with
      | none => none
      | some (pf, r3) =>
        match rd32 r3 with
        | none => none
        | some (n, r4) =>
          match takeN n r4 with
          | none => none
          | some (name, r5) => some (⟨w, h, pf, name⟩, r5)

/-- the ServerInit message the property demands: real size, real pixel format, real name
(`strncpy(…, 127)`: the name is cut to 127 bytes by the code; accepted and documented) -/
def realServerInit (s : Screen) : ServerInit := ⟨s.w, s.h, s.pf, s.name.take 127⟩

def serverInitBytes (s : Screen) : Bytes := serServerInit (realServerInit s)

/-! ### planning of one FramebufferUpdate (at the time the pre-encode hook fires) -/

/-- rfbSendCursorShape (with fix C03-cursor-too-big): a cursor whose rectangle does not fit into an
empty update buffer is replaced by the empty cursor -/
def cursorFits (rich : Bool) (bpp w h : Nat) : Bool :=
  let maskBytes := (w + 7) / 8 * h
  let dataBytes := if rich then w * h * bpp else maskBytes
  sz_rfbFramebufferUpdateRectHeader + sz_rfbXCursorColors + maskBytes + dataBytes ≤ UPDATE_BUF_SIZE

structure HookObs where
  dx : Int
  dy : Int
  upd : List Geo          -- updateRegion rectangles, main-screen coordinates, emission order
  cpy : List Geo          -- updateCopyRegion rectangles, emission order
  deriving Repr

def u16 (v : Int) : Nat := (v % 65536).toNat

/-- encodings a rectangle planned for `enc` may legitimately carry (fallbacks to Raw in
rre.c / corre.c / zlib.c) -/
def allowedEncs (enc : Nat) : List Nat :=
  if enc = rfbEncodingRRE ∨ enc = rfbEncodingCoRRE ∨ enc = rfbEncodingZlib then [enc, rfbEncodingRaw] else [enc]

def boolN (b : Bool) : Nat := if b then 1 else 0

/-- which pseudo-rectangles this update carries (the booleans at the top of
rfbSendFramebufferUpdate) -/
structure PseudoFlags where
  shape : Bool
  pos : Bool
  led : Bool
  supMsgs : Bool
  supEncs : Bool
  identity : Bool
  deriving Repr, DecidableEq

def PseudoFlags.count (f : PseudoFlags) : Nat :=
  boolN f.shape + boolN f.pos + boolN f.led + boolN f.supMsgs + boolN f.supEncs + boolN f.identity

def pseudoFlags (s : Screen) (c : Conn) : PseudoFlags :=
  let k := c.caps
  { shape := k.cursorShape && k.cursorWasChanged && c.ready,
    pos := k.cursorPos && k.cursorWasMoved,
    led := k.led && s.cfg.ledHook && s.led != c.lastLed,
    supMsgs := k.supMsgs, supEncs := k.supEncs, identity := k.identity }

def cursorEnc (k : Caps) : Nat := if k.richCursor then rfbEncodingRichCursor else rfbEncodingXCursor

/-- the pseudo-rectangles, in the order rfbSendFramebufferUpdate emits them -/
def pseudoPats (s : Screen) (c : Conn) (f : PseudoFlags) : List RPat :=
  (if f.shape then
    [if cursorFits c.caps.richCursor c.bpp s.curW s.curH && !s.curEmpty then
       RPat.cursor (cursorEnc c.caps) s.curXhot s.curYhot s.curW s.curH
     else RPat.cursor (cursorEnc c.caps) 0 0 0 0] else []) ++
  -- rfbSendCursorPos: x / y = screen->cursorX / cursorY (16-bit fields), w = h = 0
  (if f.pos then [RPat.cursor rfbEncodingPointerPos (u16 s.cursorX) (u16 s.cursorY) 0 0] else []) ++
  (if f.led then [RPat.pseudo rfbEncodingKeyboardLedState] else []) ++
  (if f.supMsgs then [RPat.pseudo rfbEncodingSupportedMessages] else []) ++
  (if f.supEncs then [RPat.pseudo rfbEncodingSupportedEncodings] else []) ++
  (if f.identity then [RPat.pseudo rfbEncodingServerIdentity] else [])

/-- payload of the ExtDesktopSize rectangle as rfbSendExtDesktopSize must build it from what the
application's hooks report: number of screens, 3 padding bytes, then id, x, y, width, height, flags of
every screen, all big-endian -/
def extDesktopPayload (s : Screen) (view : Nat × Nat) : Bytes :=
  match s.extScreens with
  | none => [1, 0, 0, 0] ++ be32 1 ++ be16 0 ++ be16 0 ++ be16 view.1 ++ be16 view.2 ++ be32 0
  | some n =>
    [UInt8.ofNat n, 0, 0, 0] ++
      (List.range n).flatMap fun i =>
        be32 (i + 1) ++ be16 (3 * i) ++ be16 0 ++ be16 view.1 ++ be16 view.2 ++ be32 0

/-- region rectangle as the client sees it (rfbScaledCorrection is the identity for unscaled clients) -/
def viewGeo (s : Screen) (c : Conn) (g : Geo) : Geo :=
  match c.scaled with
  | some (vw, vh) => scaledCorrection s.w s.h vw vh g
  | none => g

/-- rfbSendCopyRegion: one CopyRect rectangle per region rectangle -/
def copyPats (s : Screen) (c : Conn) (o : HookObs) : List RPat :=
  let dxs := match c.scaled with
    | some (vw, _) => scaleInt s.w vw o.dx
    | none => o.dx
  let dys := match c.scaled with
    | some (_, vh) => scaleInt s.h vh o.dy      -- ScaleY (fix C03-scaled-copyrect-dy; the old code used ScaleX)
    | none => o.dy
  o.cpy.map fun g0 =>
    let g := viewGeo s c g0
    RPat.copy g (u16 ((g.x : Int) - dxs)) (u16 ((g.y : Int) - dys))

/-- the encoded rectangles of the update region -/
def pixPats (enc : Nat) (lastRect : Bool) (gs : List Geo) : List RPat :=
  gs.flatMap fun g =>
    match emitFor enc lastRect g with
    | some l => l.map fun q => RPat.exact q (allowedEncs enc)
    | none => [RPat.tightAny enc g]

def tailPats (regionN : Nat) : List RPat :=
  if sendsLastRect regionN then [RPat.pseudo rfbEncodingLastRect] else []

/-- `cl->preferredEncoding`; `case -1:` is handled like Raw -/
def Conn.enc (c : Conn) : Nat := c.caps.preferred.getD rfbEncodingRaw

/-- the update region in client coordinates -/
def viewRegion (s : Screen) (c : Conn) (o : HookObs) : List Geo := o.upd.map (viewGeo s c)

/-- the decisions taken at the top of rfbSendFramebufferUpdate plus the announced count and the
predicted rectangle list; returns the updated connection (one-shot flags consumed) -/
def planUpdate (s : Screen) (c : Conn) (o : HookObs) : Conn × Pred :=
  let k := c.caps
  let f := pseudoFlags s c
  let gs := viewRegion s c o
  let regionN := regionCount c.enc k.lastRect gs 0
  let nRects := nRectsField o.cpy.length regionN f.count
  let caps' := { k with cursorWasChanged := if f.shape then false else k.cursorWasChanged,
                        cursorWasMoved := if f.pos then false else k.cursorWasMoved,
                        supMsgs := false, supEncs := false, identity := false }
  let c' := { c with caps := caps', lastLed := if f.led then s.led else c.lastLed }
  (c', ⟨nRects, pseudoPats s c f ++ copyPats s c o ++ pixPats c.enc k.lastRect gs ++ tailPats regionN⟩)

/-- the encoding numbers a predicted rectangle may carry -/
def RPat.encs : RPat → List Nat
  | .exact _ encs => encs
  | .pseudo e => [e]
  | .cursor e .. => [e]
  | .copy .. => [rfbEncodingCopyRect]
  | .tightAny e _ => [e]

/-! ### comparison of a prediction with the parsed rectangles -/

def geoOf (h : RectHdr) : Geo := ⟨h.x, h.y, h.w, h.h⟩

def insideGeo (q g : Geo) : Bool :=
  g.x ≤ q.x && g.y ≤ q.y && q.x + q.w ≤ g.x + g.w && q.y + q.h ≤ g.y + g.h

def showGeo (g : Geo) : String := s!"{g.x},{g.y},{g.w},{g.h}"

def showHdr (h : RectHdr) : String := s!"{h.enc}@{h.x},{h.y},{h.w},{h.h}"

/-- `none` = the rectangles are exactly what was predicted.  A `tightAny` pattern stands for one or
more Tight rectangles inside its region rectangle; scaled region rectangles may overlap, so the
number it stands for is found by trying the shortest run first (`fuel` bounds the search). -/
def matchPats (fuel : Nat) : List RPat → List Rect → Nat → Option String
  | [], [], _ => none
  | [], r :: _, i => some s!"rect {i}: unexpected extra rectangle {showHdr r.hdr}"
  | p :: _, [], i => some s!"rect {i}: missing, predicted {repr p}"
  | .exact g encs :: ps, r :: rs, i =>
    if geoOf r.hdr = g ∧ encs.contains r.hdr.enc then matchPats fuel ps rs (i + 1)
    else some s!"rect {i}: got {showHdr r.hdr}, predicted {showGeo g} enc∈{encs}"
  | .pseudo e :: ps, r :: rs, i =>
    if r.hdr.enc = e then matchPats fuel ps rs (i + 1)
    else some s!"rect {i}: got {showHdr r.hdr}, predicted pseudo-encoding {e}"
  | .cursor e xh yh w h :: ps, r :: rs, i =>
    if r.hdr = ⟨xh, yh, w, h, e⟩ then matchPats fuel ps rs (i + 1)
    else some s!"rect {i}: got {showHdr r.hdr}, predicted cursor {e}@{xh},{yh},{w},{h}"
  | .copy g sx sy :: ps, r :: rs, i =>
    if r.hdr.enc = rfbEncodingCopyRect ∧ geoOf r.hdr = g ∧ copySrc r = some (sx, sy) then
      matchPats fuel ps rs (i + 1)
    else some s!"rect {i}: got {showHdr r.hdr} src {repr (copySrc r)}, predicted CopyRect {showGeo g} from {sx},{sy}"
  | .tightAny e g :: ps, r :: rs, i =>
    if r.hdr.enc = e ∧ insideGeo (geoOf r.hdr) g then
      match fuel with
      | 0 => some s!"rect {i}: search for the end of a Tight run gave up"
      | fuel + 1 =>
        match matchPats fuel ps rs (i + 1) with
        | none => none
        | some err =>
          -- let the run continue with the next rectangle, if it can belong to it
          match rs with
          | q :: _ =>
            if q.hdr.enc = e ∧ insideGeo (geoOf q.hdr) g then
              match matchPats fuel (.tightAny e g :: ps) rs (i + 1) with
              | none => none
              | some _ => some err
            else some err
          | [] => some err
    else some s!"rect {i}: got {showHdr r.hdr}, predicted Tight rectangles inside {showGeo g}"

def checkPred (p : Pred) (nRects : Nat) (rs : List Rect) : Option String :=
  if nRects ≠ p.nRects then some s!"announced nRects {nRects}, predicted {p.nRects}"
  else matchPats (rs.length + 1) p.pats rs 0

end VncModel.Wire
