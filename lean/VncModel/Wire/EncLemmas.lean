import VncModel.Wire.ParseLemmas
/-
Which rectangles are well-formed for the strict parser (C03): for every encoding whose layout is a
fixed function of the header and of counts/length fields, the natural description of the payload
satisfies `RectWF`.  (Hextile's tile walk and Tight's control-byte grammar are covered by the generic
round-trip theorem only: their `RectWF` is the parser's own walk.)
-/
namespace VncModel.Wire
open VncModel.Gen.C03

variable (c : PCtx) (x y w h : Nat)

theorem rectWF_raw (hx : x < 65536) (hy : y < 65536) (hw : w < 65536) (hh : h < 65536) (p : Bytes)
    (hp : p.length = w * h * c.bpp) : RectWF c ⟨⟨x, y, w, h, rfbEncodingRaw⟩, p⟩ :=
  ⟨⟨hx, hy, hw, hh, by dsimp only; decide⟩, fun rest => by simp [payloadLen, hp]⟩

theorem rectWF_copyRect (hx : x < 65536) (hy : y < 65536) (hw : w < 65536) (hh : h < 65536)
    (sx sy : Nat) : RectWF c ⟨⟨x, y, w, h, rfbEncodingCopyRect⟩, be16 sx ++ be16 sy⟩ :=
  ⟨⟨hx, hy, hw, hh, by dsimp only; decide⟩, fun rest => by
    simp [payloadLen, rfbEncodingCopyRect, rfbEncodingRaw, sz_rfbCopyRect, be16]⟩

/-- RRE: `nSubrects`, background pixel, `nSubrects` × (pixel + x y w h as 16-bit) -/
theorem rectWF_rre (hx : x < 65536) (hy : y < 65536) (hw : w < 65536) (hh : h < 65536)
    (n : Nat) (hn : n < 4294967296) (bg subs : Bytes) (hbg : bg.length = c.bpp)
    (hs : subs.length = n * (c.bpp + 8)) :
    RectWF c ⟨⟨x, y, w, h, rfbEncodingRRE⟩, be32 n ++ (bg ++ subs)⟩ :=
  ⟨⟨hx, hy, hw, hh, by dsimp only; decide⟩, fun rest => by
    have e : rfbEncodingRRE ≠ rfbEncodingRaw := by decide
    have e2 : rfbEncodingRRE ≠ rfbEncodingCopyRect := by decide
    simp only [payloadLen, e, e2, if_false, if_true, List.append_assoc]
    rw [rd32_be32 n hn]
    simp [be32, hbg, hs, sz_rfbRREHeader, sz_rfbRectangle]
    omega⟩

/-- CoRRE: like RRE with 8-bit sub-rectangle coordinates -/
theorem rectWF_corre (hx : x < 65536) (hy : y < 65536) (hw : w < 65536) (hh : h < 65536)
    (n : Nat) (hn : n < 4294967296) (bg subs : Bytes) (hbg : bg.length = c.bpp)
    (hs : subs.length = n * (c.bpp + 4)) :
    RectWF c ⟨⟨x, y, w, h, rfbEncodingCoRRE⟩, be32 n ++ (bg ++ subs)⟩ :=
  ⟨⟨hx, hy, hw, hh, by dsimp only; decide⟩, fun rest => by
    have e : rfbEncodingCoRRE ≠ rfbEncodingRaw := by decide
    have e2 : rfbEncodingCoRRE ≠ rfbEncodingCopyRect := by decide
    have e3 : rfbEncodingCoRRE ≠ rfbEncodingRRE := by decide
    simp only [payloadLen, e, e2, e3, if_false, if_true, List.append_assoc]
    rw [rd32_be32 n hn]
    simp [be32, hbg, hs, sz_rfbRREHeader, sz_rfbCoRRERectangle]
    omega⟩

/-- Zlib, ZRLE, ZYWRLE, Ultra: a 32-bit byte count and that many bytes -/
theorem rectWF_lenPrefixed (hx : x < 65536) (hy : y < 65536) (hw : w < 65536) (hh : h < 65536)
    (enc : Nat) (he : enc = rfbEncodingZlib ∨ enc = rfbEncodingZRLE ∨ enc = rfbEncodingZYWRLE ∨
      enc = rfbEncodingUltra) (n : Nat) (hn : n < 4294967296) (d : Bytes) (hd : d.length = n) :
    RectWF c ⟨⟨x, y, w, h, enc⟩, be32 n ++ d⟩ :=
  ⟨⟨hx, hy, hw, hh, by dsimp only; rcases he with rfl | rfl | rfl | rfl <;> decide⟩, fun rest => by
    have key : lenPrefixed (be32 n ++ (d ++ rest)) = some (4 + n) := by
      simp [lenPrefixed, rd32_be32 n hn]
    have hne : enc ≠ rfbEncodingRaw ∧ enc ≠ rfbEncodingCopyRect ∧ enc ≠ rfbEncodingRRE ∧
        enc ≠ rfbEncodingCoRRE ∧ enc ≠ rfbEncodingHextile := by
      rcases he with rfl | rfl | rfl | rfl <;> decide
    simp only [payloadLen, hne.1, hne.2.1, hne.2.2.1, hne.2.2.2.1, hne.2.2.2.2, if_false, he, if_true,
      List.append_assoc, key]
    simp [be32, hd]
    omega⟩

/-- pseudo-rectangles without payload: PointerPos, LastRect, NewFBSize, KeyboardLedState -/
theorem rectWF_empty (hx : x < 65536) (hy : y < 65536) (hw : w < 65536) (hh : h < 65536) (enc : Nat)
    (he : enc = rfbEncodingPointerPos ∨ enc = rfbEncodingLastRect ∨ enc = rfbEncodingNewFBSize ∨
      enc = rfbEncodingKeyboardLedState) : RectWF c ⟨⟨x, y, w, h, enc⟩, []⟩ :=
  ⟨⟨hx, hy, hw, hh, by dsimp only; rcases he with rfl | rfl | rfl | rfl <;> decide⟩, fun rest => by
    rcases he with rfl | rfl | rfl | rfl <;>
      simp [payloadLen, rfbEncodingPointerPos, rfbEncodingLastRect, rfbEncodingNewFBSize,
        rfbEncodingKeyboardLedState, rfbEncodingZlib, rfbEncodingZRLE, rfbEncodingZYWRLE,
        rfbEncodingUltra, rfbEncodingRaw, rfbEncodingCopyRect, rfbEncodingRRE, rfbEncodingCoRRE,
        rfbEncodingHextile, rfbEncodingTight, rfbEncodingTightPng, rfbEncodingXCursor,
        rfbEncodingRichCursor]⟩

/-- RichCursor: `w*h` pixels in the client's format followed by the 1-bit mask -/
theorem rectWF_richCursor (hx : x < 65536) (hy : y < 65536) (hw : w < 65536) (hh : h < 65536)
    (hpos : w * h ≠ 0) (pix mask : Bytes) (hpx : pix.length = w * h * c.bpp)
    (hm : mask.length = (w + 7) / 8 * h) :
    RectWF c ⟨⟨x, y, w, h, rfbEncodingRichCursor⟩, pix ++ mask⟩ :=
  ⟨⟨hx, hy, hw, hh, by dsimp only; decide⟩, fun rest => by
    simp [payloadLen, rfbEncodingRichCursor, rfbEncodingZlib, rfbEncodingZRLE, rfbEncodingZYWRLE,
      rfbEncodingUltra, rfbEncodingRaw, rfbEncodingCopyRect, rfbEncodingRRE, rfbEncodingCoRRE,
      rfbEncodingHextile, rfbEncodingTight, rfbEncodingTightPng, rfbEncodingXCursor, hpos, hpx, hm]⟩

/-- XCursor: two RGB colours, bitmap and mask of `(w+7)/8*h` bytes each -/
theorem rectWF_xCursor (hx : x < 65536) (hy : y < 65536) (hw : w < 65536) (hh : h < 65536)
    (hpos : w * h ≠ 0) (cols bits mask : Bytes) (hc : cols.length = 6)
    (hb : bits.length = (w + 7) / 8 * h) (hm : mask.length = (w + 7) / 8 * h) :
    RectWF c ⟨⟨x, y, w, h, rfbEncodingXCursor⟩, cols ++ (bits ++ mask)⟩ :=
  ⟨⟨hx, hy, hw, hh, by dsimp only; decide⟩, fun rest => by
    simp [payloadLen, rfbEncodingZlib, rfbEncodingZRLE, rfbEncodingZYWRLE,
      rfbEncodingUltra, rfbEncodingRaw, rfbEncodingCopyRect, rfbEncodingRRE, rfbEncodingCoRRE,
      rfbEncodingHextile, rfbEncodingTight, rfbEncodingTightPng, rfbEncodingXCursor, hpos, hc, hb, hm,
      sz_rfbXCursorColors]
    omega⟩

/-- the empty cursor (`w*h = 0`) has no payload in either cursor encoding -/
theorem rectWF_emptyCursor (hx : x < 65536) (hy : y < 65536) (enc : Nat)
    (he : enc = rfbEncodingXCursor ∨ enc = rfbEncodingRichCursor) :
    RectWF c ⟨⟨x, y, 0, 0, enc⟩, []⟩ :=
  ⟨⟨hx, hy, by dsimp only; decide, by dsimp only; decide, by dsimp only; rcases he with rfl | rfl <;> decide⟩, fun rest => by
    rcases he with rfl | rfl <;>
      simp [payloadLen, rfbEncodingRichCursor, rfbEncodingZlib, rfbEncodingZRLE, rfbEncodingZYWRLE,
        rfbEncodingUltra, rfbEncodingRaw, rfbEncodingCopyRect, rfbEncodingRRE, rfbEncodingCoRRE,
        rfbEncodingHextile, rfbEncodingTight, rfbEncodingTightPng, rfbEncodingXCursor]⟩

theorem payloadLen_tight (bs : Bytes) :
    payloadLen c ⟨x, y, w, h, rfbEncodingTight⟩ bs = tightLen c false w h bs := by
  simp [payloadLen, rfbEncodingZlib, rfbEncodingZRLE, rfbEncodingZYWRLE,
    rfbEncodingUltra, rfbEncodingRaw, rfbEncodingCopyRect, rfbEncodingRRE, rfbEncodingCoRRE,
    rfbEncodingHextile, rfbEncodingTight]

/-- Tight "fill" sub-encoding: control byte 0x8_ and one pixel -/
theorem rectWF_tightFill (hx : x < 65536) (hy : y < 65536) (hw : w < 65536) (hh : h < 65536)
    (lo : Nat) (hlo : lo < 16) (pix : Bytes) (hp : pix.length = tightPix c) :
    RectWF c ⟨⟨x, y, w, h, rfbEncodingTight⟩, UInt8.ofNat (rfbTightFill * 16 + lo) :: pix⟩ :=
  ⟨⟨hx, hy, hw, hh, by dsimp only; decide⟩, fun rest => by
    have hctl : (UInt8.ofNat (rfbTightFill * 16 + lo)).toNat / 16 = rfbTightFill := by
      have h8 : rfbTightFill = 8 := rfl
      rw [h8, toNat_ofNat_lt (8 * 16 + lo) (by omega)]
      omega
    rw [payloadLen_tight]
    simp only [List.cons_append, tightLen, hctl, if_true, List.length_cons, hp]
    congr 1
    omega⟩

/-- the strict parser reads back every length the C writer can produce (22 bits) -/
theorem compactLen_encCompact (n : Nat) (hn : n < 4194304) (rest : Bytes) :
    compactLen (encCompact n ++ rest) = some (n, (encCompact n).length) := by
  have t2 : compactTwoFrom = 128 := rfl
  have t3 : compactThreeFrom = 16384 := rfl
  unfold encCompact
  rw [t2, t3]
  by_cases h1 : n < 128
  · rw [if_pos h1]
    have e0 : (UInt8.ofNat (n % 128)).toNat = n := by rw [toNat_ofNat_lt _ (by omega)]; omega
    simp only [List.cons_append, List.nil_append, compactLen, e0, h1, if_true, List.length_cons,
      List.length_nil]
  · rw [if_neg h1]
    have e0 : (UInt8.ofNat (n % 128 + 128)).toNat = n % 128 + 128 := toNat_ofNat_lt _ (by omega)
    have g0 : ¬ (n % 128 + 128 < 128) := by omega
    by_cases h2 : n < 16384
    · rw [if_pos h2]
      have e1 : (UInt8.ofNat (n / 128 % 128)).toNat = n / 128 := by
        rw [toNat_ofNat_lt _ (by omega)]; omega
      have g1 : n / 128 < 128 := by omega
      simp only [List.cons_append, List.nil_append, compactLen, e0, g0, if_false, e1, g1, if_true,
        List.length_cons, List.length_nil]
      congr 2
      omega
    · rw [if_neg h2]
      have e1 : (UInt8.ofNat (n / 128 % 128 + 128)).toNat = n / 128 % 128 + 128 :=
        toNat_ofNat_lt _ (by omega)
      have g1 : ¬ (n / 128 % 128 + 128 < 128) := by omega
      have e2 : (UInt8.ofNat (n / 16384 % 256)).toNat = n / 16384 := by
        rw [toNat_ofNat_lt _ (by omega)]; omega
      simp only [List.cons_append, List.nil_append, compactLen, e0, g0, if_false, e1, g1, e2,
        List.length_cons, List.length_nil]
      congr 2
      omega

end VncModel.Wire
