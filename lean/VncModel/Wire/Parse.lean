import VncModel.Wire.Msg
/-
The STRICT PARSER of the server → client stream: this is the specification of "well-formed" for
C03.  It consumes exactly the bytes of each message; any byte it cannot account for is an error.

What it has to know (and nothing more):
  * the bytes-per-pixel of the client's current pixel format (`cl->format.bitsPerPixel / 8`),
  * whether Tight sends 24-bit packed pixels (`cl->tightUsePixelFormat24`),
  * whether the client enabled LastRect (the only case in which a FramebufferUpdate announcing
    65535 rectangles is open-ended).
For the zlib family (Zlib, ZRLE, ZYWRLE, Ultra, Tight's compressed streams, JPEG, PNG) only the
length prefix is interpreted; the compressed content is C01's business.
-/
namespace VncModel.Wire
open VncModel.Gen.C03

structure PCtx where
  bpp : Nat            -- bytes per pixel of the client's format (1, 2 or 4)
  tight24 : Bool
  lastRect : Bool
  deriving Repr, DecidableEq

def rdHdr (bs : Bytes) : Option (RectHdr × Bytes) := do
  let (x, r) ← rd16 bs
  let (y, r) ← rd16 r
  let (w, r) ← rd16 r
  let (h, r) ← rd16 r
  let (e, r) ← rd32 r
  pure (⟨x, y, w, h, e⟩, r)

/-! ### Hextile -/

/-- bytes used by one hextile tile of `tw × th` pixels -/
def hexTileLen (bpp tw th : Nat) (bs : Bytes) : Option Nat :=
  match bs with
  | [] => none
  | sb :: r =>
    let s := sb.toNat
    if s ≥ 32 then none            -- ZlibHex bits are not part of Hextile
    else if s % 2 = 1 then some (1 + tw * th * bpp)
    else
      let nbg := if s / 2 % 2 = 1 then bpp else 0
      let nfg := if s / 4 % 2 = 1 then bpp else 0
      if s / 8 % 2 = 1 then
        match r.drop (nbg + nfg) with
        | [] => none
        | cnt :: _ =>
          let per := (if s / 16 % 2 = 1 then bpp else 0) + 2
          some (1 + nbg + nfg + 1 + cnt.toNat * per)
      else some (1 + nbg + nfg)

/-- sizes of the tiles of one row band / column band: 16,16,…,remainder -/
def tileSizes : Nat → List Nat
  | 0 => []
  | n + 1 => if n + 1 ≤ 16 then [n + 1] else 16 :: tileSizes (n + 1 - 16)
decreasing_by omega

def hexTiles (w h : Nat) : List (Nat × Nat) :=
  (tileSizes h).flatMap fun th => (tileSizes w).map fun tw => (tw, th)

def hexWalk (bpp : Nat) : List (Nat × Nat) → Bytes → Nat → Option Nat
  | [], _, acc => some acc
  | (tw, th) :: ts, bs, acc =>
    match hexTileLen bpp tw th bs with
    | none => none
    | some n => hexWalk bpp ts (bs.drop n) (acc + n)

/-! ### Tight -/

def tightPix (c : PCtx) : Nat := if c.tight24 then 3 else c.bpp

/-- Tight "compact length" (7 + 7 + 8 bits): (value, number of length bytes) -/
def compactLen : Bytes → Option (Nat × Nat)
  | [] => none
  | b0 :: r =>
    if b0.toNat < 128 then some (b0.toNat, 1) else
    match r with
    | [] => none
    | b1 :: r2 =>
      if b1.toNat < 128 then some (b0.toNat % 128 + 128 * b1.toNat, 2) else
      match r2 with
      | [] => none
      | b2 :: _ => some (b0.toNat % 128 + 128 * (b1.toNat % 128) + 16384 * b2.toNat, 3)

/-- the WRITER of the compact length, `rfbSendCompressedDataTight` (tight.c): `len & 0x7F`, then
`len >> 7 & 0x7F`, then `len >> 14 & 0xFF`, continuation bit 0x80 on the first two; the thresholds from
which the second / third byte is written are read from the C text by T0 -/
def encCompact (n : Nat) : Bytes :=
  if n < compactTwoFrom then [UInt8.ofNat (n % 128)]
  else if n < compactThreeFrom then [UInt8.ofNat (n % 128 + 128), UInt8.ofNat (n / 128 % 128)]
  else [UInt8.ofNat (n % 128 + 128), UInt8.ofNat (n / 128 % 128 + 128), UInt8.ofNat (n / 16384 % 256)]

/-- filter header after the control byte of a basic-compression rectangle:
(bytes of filter id + palette, length of the pixel data before compression) -/
def tightFilter (pix w h : Nat) (explicit : Bool) (r : Bytes) : Option (Nat × Nat) :=
  if explicit then
    match r with
    | [] => none
    | f :: r2 =>
      if f.toNat = rfbTightFilterCopy ∨ f.toNat = rfbTightFilterGradient then some (1, w * h * pix)
      else if f.toNat = rfbTightFilterPalette then
        match r2 with
        | [] => none
        | nc1 :: _ =>
          let nc := nc1.toNat + 1
          some (2 + nc * pix, if nc ≤ 2 then (w + 7) / 8 * h else w * h)
      else none
  else some (0, w * h * pix)

def tightLen (c : PCtx) (png : Bool) (w h : Nat) (bs : Bytes) : Option Nat :=
  match bs with
  | [] => none
  | ctl :: r =>
    let hi := ctl.toNat / 16
    let pix := tightPix c
    if hi = rfbTightFill then some (1 + pix)
    else if hi = rfbTightJpeg ∨ (png = true ∧ hi = rfbTightPng) then
      match compactLen r with
      | none => none
      | some (n, k) => some (1 + k + n)
    else
      let noZlib : Bool := !png && (hi == rfbTightNoZlib || hi == rfbTightNoZlib + rfbTightExplicitFilter)
      if hi ≥ 8 ∧ noZlib = false then none else
      match tightFilter pix w h (hi / 4 % 2 == 1) r with
      | none => none
      | some (hb, dl) =>
        if dl < TIGHT_MIN_TO_COMPRESS then some (1 + hb + dl)
        else
          match compactLen (r.drop hb) with
          | none => none
          | some (n, k) => some (1 + hb + k + n)

/-! ### payload length per encoding -/

def lenPrefixed (bs : Bytes) : Option Nat :=
  match rd32 bs with
  | some (n, _) => some (4 + n)
  | none => none

/-- number of payload bytes that belong to a rectangle with header `h`, looking at the bytes that
follow the header; `none` = not a rectangle the server may send -/
def payloadLen (c : PCtx) (h : RectHdr) (bs : Bytes) : Option Nat :=
  let e := h.enc
  if e = rfbEncodingRaw then some (h.w * h.h * c.bpp)
  else if e = rfbEncodingCopyRect then some sz_rfbCopyRect
  else if e = rfbEncodingRRE then
    match rd32 bs with
    | some (n, _) => some (sz_rfbRREHeader + c.bpp + n * (c.bpp + sz_rfbRectangle))
    | none => none
  else if e = rfbEncodingCoRRE then
    match rd32 bs with
    | some (n, _) => some (sz_rfbRREHeader + c.bpp + n * (c.bpp + sz_rfbCoRRERectangle))
    | none => none
  else if e = rfbEncodingHextile then hexWalk c.bpp (hexTiles h.w h.h) bs 0
  else if e = rfbEncodingZlib ∨ e = rfbEncodingZRLE ∨ e = rfbEncodingZYWRLE ∨ e = rfbEncodingUltra then
    lenPrefixed bs
  else if e = rfbEncodingTight then tightLen c false h.w h.h bs
  else if e = rfbEncodingTightPng then tightLen c true h.w h.h bs
  else if e = rfbEncodingXCursor then
    some (if h.w * h.h = 0 then 0 else sz_rfbXCursorColors + 2 * ((h.w + 7) / 8 * h.h))
  else if e = rfbEncodingRichCursor then
    some (if h.w * h.h = 0 then 0 else h.w * h.h * c.bpp + (h.w + 7) / 8 * h.h)
  else if e = rfbEncodingPointerPos ∨ e = rfbEncodingLastRect ∨ e = rfbEncodingNewFBSize
      ∨ e = rfbEncodingKeyboardLedState then some 0
  else if e = rfbEncodingExtDesktopSize then
    match rd8 bs with
    | some (n, _) => some (sz_rfbExtDesktopSizeMsg + n * sz_rfbExtDesktopScreen)
    | none => none
  else if e = rfbEncodingSupportedMessages then
    if h.w = sz_rfbSupportedMessages then some h.w else none
  else if e = rfbEncodingSupportedEncodings then
    if h.w = 4 * h.h then some h.w else none
  else if e = rfbEncodingServerIdentity then some h.w
  else none

def parseRect (c : PCtx) (bs : Bytes) : Option (Rect × Bytes) := do
  let (h, r1) ← rdHdr bs
  let n ← payloadLen c h r1
  let (p, r2) ← takeN n r1
  pure (⟨h, p⟩, r2)

/-- exactly `n` rectangles, none of them the LastRect marker -/
def parseRectsN (c : PCtx) : Nat → Bytes → Option (List Rect × Bytes)
  | 0, bs => some ([], bs)
  | n + 1, bs =>
    match parseRect c bs with
    | none => none
    | some (r, bs1) =>
      if r.hdr.enc = rfbEncodingLastRect then none else
      match parseRectsN c n bs1 with
      | none => none
      | some (rs, bs2) => some (r :: rs, bs2)

/-- rectangles up to and including the LastRect marker (`fuel` bounds the number of rectangles) -/
def parseRectsUntilLast (c : PCtx) : Nat → Bytes → Option (List Rect × Bytes)
  | 0, _ => none
  | f + 1, bs =>
    match parseRect c bs with
    | none => none
    | some (r, bs1) =>
      if r.hdr.enc = rfbEncodingLastRect then some ([r], bs1) else
      match parseRectsUntilLast c f bs1 with
      | none => none
      | some (rs, bs2) => some (r :: rs, bs2)

/-- one server → client message of the normal phase -/
def parseMsg (c : PCtx) (bs : Bytes) : Option (ServerMsg × Bytes) :=
  match bs with
  | [] => none
  | t :: r0 =>
    let ty := t.toNat
    if ty = rfbFramebufferUpdate then do
      let (pad, r) ← rd8 r0
      let (n, r) ← rd16 r
      if c.lastRect = true ∧ n = nRectsSentinel then
        let (rs, r) ← parseRectsUntilLast c (r.length / sz_rfbFramebufferUpdateRectHeader + 1) r
        pure (.fbu pad n rs, r)
      else
        let (rs, r) ← parseRectsN c n r
        pure (.fbu pad n rs, r)
    else if ty = rfbSetColourMapEntries then do
      let (pad, r) ← rd8 r0
      let (first, r) ← rd16 r
      let (n, r) ← rd16 r
      let (d, r) ← takeN (6 * n) r
      pure (.colourMap pad first n d, r)
    else if ty = rfbBell then some (.bell, r0)
    else if ty = rfbServerCutText then do
      let (pad, r) ← takeN 3 r0
      let (len, r) ← rd32 r
      let (d, r) ← takeN (cutTextDataLen len) r
      pure (.cutText pad len d, r)
    else if ty = rfbResizeFrameBuffer then do
      let (pad, r) ← rd8 r0
      let (w, r) ← rd16 r
      let (h, r) ← rd16 r
      pure (.resizeFB pad w h, r)
    else if ty = rfbPalmVNCReSizeFrameBuffer then do
      let (p1, r) ← rd8 r0
      let (dw, r) ← rd16 r
      let (dh, r) ← rd16 r
      let (bw, r) ← rd16 r
      let (bh, r) ← rd16 r
      let (p2, r) ← rd16 r
      pure (.palmResize p1 dw dh bw bh p2, r)
    else if ty = rfbXvp then do
      let (pad, r) ← rd8 r0
      let (v, r) ← rd8 r
      let (cd, r) ← rd8 r
      pure (.xvp pad v cd, r)
    else if ty = rfbTextChat then do
      let (pad, r) ← takeN 3 r0
      let (len, r) ← rd32 r
      let (d, r) ← takeN (textChatDataLen len) r
      pure (.textChat pad len d, r)
    else none

/-- result of parsing a whole buffer: the messages, or the messages parsed so far together with
the offset at which the stream stops being well-formed -/
inductive ParseResult where
  | ok (ms : List ServerMsg)
  | error (ms : List ServerMsg) (offset : Nat)
  deriving Repr

/-- parse a complete buffer (fuel = number of messages at most; every message has ≥ 1 byte) -/
def parseAllAux (c : PCtx) : Nat → Bytes → Nat → List ServerMsg → ParseResult
  | 0, bs, off, acc => if bs.isEmpty then .ok acc.reverse else .error acc.reverse off
  | f + 1, bs, off, acc =>
    if bs.isEmpty then .ok acc.reverse else
    match parseMsg c bs with
    | none => .error acc.reverse off
    | some (m, r) => parseAllAux c f r (off + (bs.length - r.length)) (m :: acc)

def parseAll (c : PCtx) (bs : Bytes) : ParseResult := parseAllAux c bs.length bs 0 []

/-- the specification function named in the design: all messages or nothing -/
def parseServer (c : PCtx) (bs : Bytes) : Option (List ServerMsg) :=
  match parseAll c bs with
  | .ok ms => some ms
  | .error _ _ => none

end VncModel.Wire
