import VncModel.Wire.Parse
import VncModel.Wire.Caps
/-
The part of the C03 specification that is not about lengths: rectangles inside the size last
announced to the client, only advertised encodings / pseudo-encodings / message types.
These predicates mention neither the planning model nor the C flags: they are the direct oracle.
-/
namespace VncModel.Wire
open VncModel.Gen.C03

/-- what the oracle knows about a client -/
structure OCtx where
  hist : History            -- every number the client has listed in any SetEncodings so far
  cur : List Nat            -- the list of the client's LAST SetEncodings message ([] before the first)
  fbW : Nat                 -- framebuffer size last announced to this client
  fbH : Nat
  usedSetScale : Bool       -- the client has sent SetScale / PalmVNCSetScaleFactor
  usedXvp : Bool            -- the client has sent an xvp message
  deriving Repr

def isPseudoWithGeometryFree (e : Nat) : Bool :=
  e == rfbEncodingXCursor || e == rfbEncodingRichCursor || e == rfbEncodingPointerPos ||
  e == rfbEncodingLastRect || e == rfbEncodingNewFBSize || e == rfbEncodingExtDesktopSize ||
  e == rfbEncodingKeyboardLedState || e == rfbEncodingSupportedMessages ||
  e == rfbEncodingSupportedEncodings || e == rfbEncodingServerIdentity

/-- "advertised" for a pixel encoding: Raw, or named in the current list, or — the one documented
exception — the sticky preferred encoding: the current list names no pixel encoding at all and the
encoding was named by an earlier list (`lastPreferredEncoding` in the SetEncodings handler) -/
def pixelAdvertised (o : OCtx) (e : Nat) : Bool :=
  e == rfbEncodingRaw || o.cur.contains e ||
  (!o.cur.any isPixelEncoding && advertised o.hist e)

/-- "advertised" for everything else: named in the CURRENT list (flags are reset by every
SetEncodings message) -/
def advertisedNow (o : OCtx) (e : Nat) : Bool := o.cur.contains e

/-- source position of a CopyRect rectangle -/
def copySrc (r : Rect) : Option (Nat × Nat) :=
  match rd16 r.payload with
  | some (sx, rest) => match rd16 rest with
    | some (sy, _) => some (sx, sy)
    | none => none
  | none => none

inductive RectFault where
  | unadvertised (enc : Nat)
  | outside (x y w h : Nat)
  | copySrcOutside (sx sy w h : Nat)
  deriving Repr, DecidableEq

/-- direct oracle for one rectangle -/
def rectFault (o : OCtx) (r : Rect) : Option RectFault :=
  let h := r.hdr
  if isPixelEncoding h.enc then
    if !pixelAdvertised o h.enc then some (.unadvertised h.enc)
    else if h.x + h.w > o.fbW ∨ h.y + h.h > o.fbH then some (.outside h.x h.y h.w h.h)
    else none
  else if h.enc = rfbEncodingCopyRect then
    if !advertisedNow o h.enc then some (.unadvertised h.enc)
    else if h.x + h.w > o.fbW ∨ h.y + h.h > o.fbH then some (.outside h.x h.y h.w h.h)
    else match copySrc r with
      | some (sx, sy) =>
        if sx + h.w > o.fbW ∨ sy + h.h > o.fbH then some (.copySrcOutside sx sy h.w h.h) else none
      | none => none
  else if !advertisedNow o h.enc then some (.unadvertised h.enc)
  else none

inductive MsgFault where
  | rect (index : Nat) (f : RectFault)
  | msgType (ty : Nat)
  deriving Repr, DecidableEq

def rectFaults (o : OCtx) : List Rect → Nat → List MsgFault
  | [], _ => []
  | r :: rs, i =>
    match rectFault o r with
    | some f => .rect i f :: rectFaults o rs (i + 1)
    | none => rectFaults o rs (i + 1)

/-- direct oracle for one message -/
def msgFaults (o : OCtx) : ServerMsg → List MsgFault
  | .fbu _ _ rs => rectFaults o rs 0
  | .colourMap .. => []
  | .bell => []
  | .cutText _ len _ =>
    -- second documented exception: `enableExtendedClipboard` is never reset by SetEncodings
    if len ≥ 2147483648 ∧ !advertised o.hist rfbEncodingExtendedClipboard then [.msgType rfbServerCutText]
    else []
  | .resizeFB .. => if o.usedSetScale then [] else [.msgType rfbResizeFrameBuffer]
  | .palmResize .. => if o.usedSetScale then [] else [.msgType rfbPalmVNCReSizeFrameBuffer]
  | .xvp .. => if advertisedNow o rfbEncodingXvp || o.usedXvp then [] else [.msgType rfbXvp]
  | .textChat .. => []      -- application-initiated UltraVNC chat: no negotiation exists

end VncModel.Wire
