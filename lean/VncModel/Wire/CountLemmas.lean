import VncModel.Wire.PlanLemmas
/-
The announced rectangle count of a FramebufferUpdate versus the rectangles that follow (C03).
-/
namespace VncModel.Wire
open VncModel.Gen.C03

/-- region rectangles are never empty (rfbregion.c keeps only non-empty spans; rfbScaledCorrection
bumps a zero width/height to 1) -/
def Geo.pos (g : Geo) : Prop := 1 ≤ g.w ∧ 1 ≤ g.h

theorem tightCount_false_pos (w h : Nat) : 1 ≤ tightCount false w h := by
  unfold tightCount
  simp only [Bool.false_eq_true, false_and, if_false]
  split
  · exact Nat.mul_pos (Nat.succ_pos _) (Nat.succ_pos _)
  · exact Nat.le_refl _

/-- **count = emission** for one region rectangle, every encoding: whenever the split is
determined by the geometry, the number `rfbSendFramebufferUpdate` adds equals the number of
rectangles the encoder emits -/
theorem countFor_eq_emitted (enc : Nat) (lastRect : Bool) (g : Geo) (l : List Geo) (hp : g.pos)
    (he : emitFor enc lastRect g = some l) : l.length = countFor enc lastRect g := by
  obtain ⟨hw, hh⟩ := hp
  unfold emitFor at he
  unfold countFor
  by_cases h1 : enc = rfbEncodingCoRRE
  · rw [if_pos h1] at he ⊢
    simp only [Option.some.injEq] at he
    subst he
    exact correSplit_length _ _ (by decide) (by decide) _ _ _ _ _ hw hh (by unfold correFuel; omega)
  rw [if_neg h1] at he ⊢
  by_cases h2 : enc = rfbEncodingUltra
  · rw [if_pos h2] at he ⊢
    simp only [Option.some.injEq] at he
    subst he
    unfold ultraSplit linesCount
    rw [linesSplit_length _ (by have := maxLines_ge_two ULTRA_MAX_RECT_SIZE g.w hw; omega) _ _ _ _ _
      (Nat.le_refl _)]
    have : g.h ≠ 0 := by omega
    simp [this]
  rw [if_neg h2] at he ⊢
  by_cases h3 : enc = rfbEncodingZlib
  · rw [if_pos h3] at he ⊢
    simp only [Option.some.injEq] at he
    subst he
    unfold zlibSplit linesCount
    rw [linesSplit_length _ (by have := maxLines_ge_two ZLIB_MAX_RECT_SIZE g.w hw; omega) _ _ _ _ _
      (Nat.le_refl _)]
    have : g.h ≠ 0 := by omega
    simp [this]
  rw [if_neg h3] at he ⊢
  by_cases h4 : enc = rfbEncodingTight ∨ enc = rfbEncodingTightPng
  · rw [if_pos h4] at he ⊢
    by_cases h5 : tightIsSimple lastRect g.w g.h = true
    · rw [if_pos h5] at he
      simp only [Option.some.injEq] at he
      subst he
      rw [tightSimpleSplit_length _ _ _ _ hw hh, tightCount_of_simple _ _ _ h5]
    · rw [if_neg h5] at he
      cases he
  · rw [if_neg h4] at he ⊢
    simp only [Option.some.injEq] at he
    subst he
    rfl

/-- a known split never has count 0 -/
theorem countFor_pos_of_emit (enc : Nat) (lastRect : Bool) (g : Geo) (l : List Geo) (hp : g.pos)
    (he : emitFor enc lastRect g = some l) : 1 ≤ countFor enc lastRect g := by
  have hlen := countFor_eq_emitted enc lastRect g l hp he
  obtain ⟨hw, hh⟩ := hp
  unfold emitFor at he
  unfold countFor at hlen ⊢
  by_cases h1 : enc = rfbEncodingCoRRE
  · rw [if_pos h1]
    exact Nat.mul_pos (Nat.succ_pos _) (Nat.succ_pos _)
  rw [if_neg h1] at he hlen ⊢
  by_cases h2 : enc = rfbEncodingUltra
  · rw [if_pos h2]; exact Nat.succ_pos _
  rw [if_neg h2] at he hlen ⊢
  by_cases h3 : enc = rfbEncodingZlib
  · rw [if_pos h3]; exact Nat.succ_pos _
  rw [if_neg h3] at he hlen ⊢
  by_cases h4 : enc = rfbEncodingTight ∨ enc = rfbEncodingTightPng
  · rw [if_pos h4] at he ⊢
    by_cases h5 : tightIsSimple lastRect g.w g.h = true
    · rw [tightCount_of_simple _ _ _ h5]
      exact tightCount_false_pos _ _
    · rw [if_neg h5] at he
      cases he
  · rw [if_neg h4]
    exact Nat.le_refl _

/-- sum of the per-rectangle counts -/
def sumCounts (enc : Nat) (lastRect : Bool) : List Geo → Nat
  | [] => 0
  | g :: gs => countFor enc lastRect g + sumCounts enc lastRect gs

/-- all splits of the region are determined by the geometry -/
def AllKnown (enc : Nat) (lastRect : Bool) (gs : List Geo) : Prop :=
  ∀ g ∈ gs, g.pos ∧ ∃ l, emitFor enc lastRect g = some l

theorem regionCount_known (enc : Nat) (lastRect : Bool) (gs : List Geo)
    (hk : AllKnown enc lastRect gs) :
    ∀ acc, regionCount enc lastRect gs acc = acc + sumCounts enc lastRect gs := by
  induction gs with
  | nil => intro acc; simp [regionCount, sumCounts]
  | cons g t ih =>
    intro acc
    obtain ⟨hp, l, hl⟩ := hk g (by simp)
    have hpos := countFor_pos_of_emit enc lastRect g l hp hl
    unfold regionCount
    have hne : ¬ ((enc = rfbEncodingTight ∨ enc = rfbEncodingTightPng) ∧ countFor enc lastRect g = 0) := by
      omega
    rw [if_neg hne, ih (fun q hq => hk q (by simp [hq]))]
    simp only [sumCounts]
    omega

theorem emittedCount_go_known (enc : Nat) (lastRect : Bool) (gs : List Geo)
    (hk : AllKnown enc lastRect gs) :
    ∀ acc, emittedCount.go enc lastRect gs acc = some (acc + sumCounts enc lastRect gs) := by
  induction gs with
  | nil => intro acc; simp [emittedCount.go, sumCounts]
  | cons g t ih =>
    intro acc
    obtain ⟨hp, l, hl⟩ := hk g (by simp)
    have hlen := countFor_eq_emitted enc lastRect g l hp hl
    simp only [emittedCount.go, hl, sumCounts]
    rw [ih (fun q hq => hk q (by simp [hq])), hlen]
    congr 1
    omega

/-- the Tight planning loop `break`s with 0xFFFF at the first rectangle whose count is unknown -/
theorem regionCount_sentinel (enc : Nat) (lastRect : Bool) (gs : List Geo)
    (ht : enc = rfbEncodingTight ∨ enc = rfbEncodingTightPng)
    (hex : ∃ g ∈ gs, countFor enc lastRect g = 0) :
    ∀ acc, regionCount enc lastRect gs acc = nRectsSentinel := by
  induction gs with
  | nil => obtain ⟨g, hg, _⟩ := hex; simp at hg
  | cons g t ih =>
    intro acc
    unfold regionCount
    by_cases h0 : countFor enc lastRect g = 0
    · rw [if_pos ⟨ht, h0⟩]
    · rw [if_neg (fun h => h0 h.2)]
      obtain ⟨q, hq, hq0⟩ := hex
      simp only [List.mem_cons] at hq
      rcases hq with rfl | hq
      · exact absurd hq0 h0
      · exact ih ⟨q, hq, hq0⟩ _

theorem regionCount_raw (lastRect : Bool) (gs : List Geo) :
    ∀ acc, regionCount rfbEncodingRaw lastRect gs acc = acc + gs.length := by
  induction gs with
  | nil => intro acc; simp [regionCount]
  | cons g t ih =>
    intro acc
    unfold regionCount
    have hne : ¬ ((rfbEncodingRaw = rfbEncodingTight ∨ rfbEncodingRaw = rfbEncodingTightPng) ∧
        countFor rfbEncodingRaw lastRect g = 0) := by
      intro h; rcases h.1 with h | h <;> exact absurd h (by decide)
    rw [if_neg hne, ih]
    have : countFor rfbEncodingRaw lastRect g = 1 := by
      unfold countFor
      simp [rfbEncodingRaw, rfbEncodingCoRRE, rfbEncodingUltra, rfbEncodingZlib, rfbEncodingTight,
        rfbEncodingTightPng]
    simp only [this, List.length_cons]
    omega

end VncModel.Wire
