import VncModel.Wire.Msg
/-
Planning half of `rfbSendFramebufferUpdate` (rfbserver.c) and the emission splitters of the
encoders, transcribed from the C code (C03).

  C                                                   model
  --------------------------------------------------  ---------------------------------------------
  ZLIB_MAX_SIZE(w) / ULTRA_MAX_SIZE(w)  (rfb.h)        `maxSize R w`
  count expr.  ((h-1)/(MAX_SIZE(w)/w))+1               `linesCount R w h`
  rfbSendRectEncodingZlib / …Ultra  while-loop         `linesSplit`
  count expr.  ((w-1)/mw+1)*((h-1)/mh+1)  (CoRRE)      `correCount`
  rfbSendRectEncodingCoRRE recursion (corre.c)         `correSplit`
  rfbNumCodedRectsTight (tight.c)                      `tightCount`
  SendRectSimple's two nested for-loops (tight.c)      `tightSimpleSplit`
  fu->nRects = (uint16_t)(…) / 0xFFFF                  `nRectsField`
  order of emission in rfbSendFramebufferUpdate        `emitUpdate`

Guards of the C code that are *hypotheses* of the theorems (never silently totalised): `w ≥ 1`,
`h ≥ 1` (region rectangles are non-empty; `rfbScaledCorrection` bumps 0 to 1), `correMaxWidth ≥ 1`,
`correMaxHeight ≥ 1` (the C recursion would not terminate otherwise), and no `int` overflow in `w*h`.
Loops are fuelled; the theorems say which fuel suffices (the driver passes exactly that).
-/
namespace VncModel.Wire
open VncModel.Gen.C03

/-- geometry of a rectangle as sent: x y w h -/
structure Geo where
  x : Nat
  y : Nat
  w : Nat
  h : Nat
  deriving DecidableEq, Repr, Inhabited

/-! ### Zlib / Ultra: split by scan lines -/

/-- `ZLIB_MAX_SIZE(min)` / `ULTRA_MAX_SIZE(min)` with `R = *_MAX_RECT_SIZE` (shape checked by T0) -/
def maxSize (R w : Nat) : Nat := if w * 2 > R then w * 2 else R

/-- `maxLines = MAX_SIZE(w) / w` -/
def maxLines (R w : Nat) : Nat := maxSize R w / w

/-- the count expression `(((h-1) / (MAX_SIZE(w) / w)) + 1)` -/
def linesCount (R w h : Nat) : Nat := (h - 1) / maxLines R w + 1

/-- the `while (linesRemaining > 0)` loop of rfbSendRectEncodingZlib / rfbSendRectEncodingUltra -/
def linesSplit (ml : Nat) : Nat → Nat → Nat → Nat → Nat → List Geo
  | 0, _, _, _, _ => []
  | f + 1, x, y, w, rem =>
    if rem > 0 then
      let l := if ml < rem then ml else rem
      ⟨x, y, w, l⟩ :: linesSplit ml f x (y + l) w (rem - l)
    else []

def zlibSplit (x y w h : Nat) : List Geo := linesSplit (maxLines ZLIB_MAX_RECT_SIZE w) h x y w h
def ultraSplit (x y w h : Nat) : List Geo := linesSplit (maxLines ULTRA_MAX_RECT_SIZE w) h x y w h

/-! ### CoRRE -/

def correCount (mw mh w h : Nat) : Nat := ((w - 1) / mw + 1) * ((h - 1) / mh + 1)

/-- rfbSendRectEncodingCoRRE: first cut off bands of `mh` lines, then pieces of `mw` columns -/
def correSplit (mw mh : Nat) : Nat → Nat → Nat → Nat → Nat → List Geo
  | 0, _, _, _, _ => []
  | f + 1, x, y, w, h =>
    if h > mh then correSplit mw mh f x y w mh ++ correSplit mw mh f x (y + mh) w (h - mh)
    else if w > mw then correSplit mw mh f x y mw h ++ correSplit mw mh f (x + mw) y (w - mw) h
    else [⟨x, y, w, h⟩]

/-- fuel that always suffices for `correSplit` -/
def correFuel (w h : Nat) : Nat := w + h + 1

/-! ### Tight -/

/-- rfbNumCodedRectsTight; 0 means "unknown, LastRect will terminate the update" -/
def tightCount (lastRect : Bool) (w h : Nat) : Nat :=
  if lastRect = true ∧ w * h ≥ MIN_SPLIT_RECT_SIZE then 0
  else if w > TIGHT_MAX_RECT_WIDTH ∨ w * h > TIGHT_MAX_RECT_SIZE then
    let smw := if w > TIGHT_MAX_RECT_WIDTH then TIGHT_MAX_RECT_WIDTH else w
    let smh := TIGHT_MAX_RECT_SIZE / smw
    ((w - 1) / TIGHT_MAX_RECT_WIDTH + 1) * ((h - 1) / smh + 1)
  else 1

/-- values taken by `for (d = 0; d < n; d += st)` -/
def loopVals (st n : Nat) : Nat → Nat → List Nat
  | 0, _ => []
  | f + 1, d => if d < n then d :: loopVals st n f (d + st) else []

/-- SendRectSimple: the split used whenever no solid areas are searched -/
def tightSimpleSplit (x y w h : Nat) : List Geo :=
  if w > TIGHT_MAX_RECT_WIDTH ∨ w * h > TIGHT_MAX_RECT_SIZE then
    let smw := if w > TIGHT_MAX_RECT_WIDTH then TIGHT_MAX_RECT_WIDTH else w
    let smh := TIGHT_MAX_RECT_SIZE / smw
    (loopVals smh h h 0).flatMap fun dy =>
      (loopVals TIGHT_MAX_RECT_WIDTH w w 0).map fun dx =>
        ⟨x + dx, y + dy,
         if dx + TIGHT_MAX_RECT_WIDTH < w then TIGHT_MAX_RECT_WIDTH else w - dx,
         if dy + smh < h then smh else h - dy⟩
  else [⟨x, y, w, h⟩]

/-- does SendRectEncodingTight go straight to SendRectSimple? -/
def tightIsSimple (lastRect : Bool) (w h : Nat) : Bool :=
  !lastRect || decide (w * h < MIN_SPLIT_RECT_SIZE)

/-! ### per-encoding count and emission for one (already scaled) region rectangle -/

/-- the number `rfbSendFramebufferUpdate` adds for one rectangle (Tight: 0 = unknown) -/
def countFor (enc : Nat) (lastRect : Bool) (g : Geo) : Nat :=
  if enc = rfbEncodingCoRRE then correCount correMaxWidth correMaxHeight g.w g.h
  else if enc = rfbEncodingUltra then linesCount ULTRA_MAX_RECT_SIZE g.w g.h
  else if enc = rfbEncodingZlib then linesCount ZLIB_MAX_RECT_SIZE g.w g.h
  else if enc = rfbEncodingTight ∨ enc = rfbEncodingTightPng then tightCount lastRect g.w g.h
  else 1

/-- the rectangles the encoder emits for one region rectangle; `none` = Tight with solid-area
search (number and geometry depend on the pixels) -/
def emitFor (enc : Nat) (lastRect : Bool) (g : Geo) : Option (List Geo) :=
  if enc = rfbEncodingCoRRE then
    some (correSplit correMaxWidth correMaxHeight (correFuel g.w g.h) g.x g.y g.w g.h)
  else if enc = rfbEncodingUltra then some (ultraSplit g.x g.y g.w g.h)
  else if enc = rfbEncodingZlib then some (zlibSplit g.x g.y g.w g.h)
  else if enc = rfbEncodingTight ∨ enc = rfbEncodingTightPng then
    if tightIsSimple lastRect g.w g.h then some (tightSimpleSplit g.x g.y g.w g.h) else none
  else some [g]

/-- `nUpdateRegionRects` as computed by the planning loops: the Tight loops `break` with 0xFFFF at
the first rectangle whose count is unknown; everything else is a plain `int` sum -/
def regionCount (enc : Nat) (lastRect : Bool) : List Geo → Nat → Nat
  | [], acc => acc
  | g :: gs, acc =>
    if (enc = rfbEncodingTight ∨ enc = rfbEncodingTightPng) ∧ countFor enc lastRect g = 0 then nRectsSentinel
    else regionCount enc lastRect gs (acc + countFor enc lastRect g)

/-- `fu->nRects`: `(uint16_t)(copy + region + pseudo)` unless region = 0xFFFF -/
def nRectsField (copyN regionN pseudoN : Nat) : Nat :=
  if regionN ≠ nRectsSentinel then (copyN + regionN + pseudoN) % 65536 else nRectsSentinel

/-- is the LastRect marker appended? (`nUpdateRegionRects == 0xFFFF`) -/
def sendsLastRect (regionN : Nat) : Bool := regionN == nRectsSentinel

/-- number of rectangles that follow the header when every region rectangle has a known split:
pseudo-rectangles, CopyRect rectangles, encoded rectangles, optional LastRect marker -/
def emittedCount (enc : Nat) (lastRect : Bool) (copyN pseudoN : Nat) (gs : List Geo) : Option Nat :=
  let rec go : List Geo → Nat → Option Nat
    | [], acc => some acc
    | g :: gs, acc =>
      match emitFor enc lastRect g with
      | none => none
      | some l => go gs (acc + l.length)
  match go gs 0 with
  | none => none
  | some n =>
    some (pseudoN + copyN + n + (if sendsLastRect (regionCount enc lastRect gs 0) then 1 else 0))

end VncModel.Wire
