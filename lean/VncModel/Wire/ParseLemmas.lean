import VncModel.Wire.Parse
/-
parse ∘ serialise = id for the strict parser (C03): every length the parser derives from a
header / count / length field is exactly the number of bytes the serialiser wrote.
-/
namespace VncModel.Wire
open VncModel.Gen.C03

structure HdrWF (hd : RectHdr) : Prop where
  x : hd.x < 65536
  y : hd.y < 65536
  w : hd.w < 65536
  h : hd.h < 65536
  enc : hd.enc < 4294967296

/-- a rectangle whose payload is exactly as long as the length rule of its encoding says,
whatever follows it on the wire -/
structure RectWF (c : PCtx) (r : Rect) : Prop where
  hdr : HdrWF r.hdr
  len : ∀ rest : Bytes, payloadLen c r.hdr (r.payload ++ rest) = some r.payload.length

theorem serHdr_length (h : RectHdr) : (serHdr h).length = 12 := by
  simp [serHdr, be16, be32]

theorem rdHdr_serHdr (h : RectHdr) (wf : HdrWF h) (rest : Bytes) :
    rdHdr (serHdr h ++ rest) = some (h, rest) := by
  unfold rdHdr serHdr
  simp only [List.append_assoc]
  rw [rd16_be16 _ wf.x]
  simp only [Option.bind_eq_bind, Option.bind_some]
  rw [rd16_be16 _ wf.y]
  simp only [Option.bind_some]
  rw [rd16_be16 _ wf.w]
  simp only [Option.bind_some]
  rw [rd16_be16 _ wf.h]
  simp only [Option.bind_some]
  rw [rd32_be32 _ wf.enc]
  simp

theorem parseRect_serRect (c : PCtx) (r : Rect) (wf : RectWF c r) (rest : Bytes) :
    parseRect c (serRect r ++ rest) = some (r, rest) := by
  unfold parseRect serRect
  simp only [List.append_assoc]
  rw [rdHdr_serHdr _ wf.hdr]
  simp only [Option.bind_eq_bind, Option.bind_some]
  rw [wf.len rest]
  simp only [Option.bind_some]
  rw [takeN_append _ _ _ rfl]
  simp

theorem serRects_cons (r : Rect) (rs : List Rect) : serRects (r :: rs) = serRect r ++ serRects rs := by
  simp [serRects]

theorem parseRectsN_ser (c : PCtx) (rs : List Rect)
    (hwf : ∀ r ∈ rs, RectWF c r ∧ r.hdr.enc ≠ rfbEncodingLastRect) (rest : Bytes) :
    parseRectsN c rs.length (serRects rs ++ rest) = some (rs, rest) := by
  induction rs with
  | nil => simp [parseRectsN, serRects]
  | cons r t ih =>
    have hr := hwf r (by simp)
    simp only [List.length_cons, parseRectsN, serRects_cons, List.append_assoc]
    rw [parseRect_serRect c r hr.1]
    simp only [hr.2, if_false]
    rw [ih (fun q hq => hwf q (by simp [hq]))]

theorem parseRectsUntilLast_ser (c : PCtx) (rs : List Rect) (last : Rect)
    (hwf : ∀ r ∈ rs, RectWF c r ∧ r.hdr.enc ≠ rfbEncodingLastRect)
    (hl : RectWF c last) (hle : last.hdr.enc = rfbEncodingLastRect) (rest : Bytes) :
    ∀ fuel, rs.length < fuel →
      parseRectsUntilLast c fuel (serRects (rs ++ [last]) ++ rest) = some (rs ++ [last], rest) := by
  induction rs with
  | nil =>
    intro fuel hf
    cases fuel with
    | zero => omega
    | succ f =>
      have e : serRects ([] ++ [last]) = serRect last := by simp [serRects]
      rw [e]
      rw [parseRectsUntilLast]
      rw [parseRect_serRect c last hl]
      simp only []
      rw [if_pos hle]
      rfl
  | cons r t ih =>
    intro fuel hf
    cases fuel with
    | zero => omega
    | succ f =>
      have hr := hwf r (by simp)
      have e : serRects (r :: t ++ [last]) ++ rest = serRect r ++ (serRects (t ++ [last]) ++ rest) := by
        simp [serRects]
      rw [e]
      rw [parseRectsUntilLast]
      rw [parseRect_serRect c r hr.1]
      simp only []
      rw [if_neg hr.2]
      rw [ih (fun q hq => hwf q (by simp [hq])) f (by simp at hf; omega)]
      rfl

theorem serRect_length_ge (r : Rect) : 12 ≤ (serRect r).length := by
  simp [serRect, serHdr_length]

theorem serRects_length_ge (rs : List Rect) : 12 * rs.length ≤ (serRects rs).length := by
  induction rs with
  | nil => simp [serRects]
  | cons r t ih =>
    rw [serRects_cons, List.length_append, List.length_cons]
    have := serRect_length_ge r
    omega

/-! ### messages -/

/-- well-formed messages: exactly the ones the serialiser/parser pair is a bijection on -/
inductive MsgWF (c : PCtx) : ServerMsg → Prop where
  | fbuCounted (pad n : Nat) (rs : List Rect) (hp : pad < 256) (hn : n < 65536)
      (hlen : rs.length = n) (hopen : ¬ (c.lastRect = true ∧ n = nRectsSentinel))
      (hwf : ∀ r ∈ rs, RectWF c r ∧ r.hdr.enc ≠ rfbEncodingLastRect) : MsgWF c (.fbu pad n rs)
  | fbuOpen (pad : Nat) (rs : List Rect) (last : Rect) (hp : pad < 256) (hl : c.lastRect = true)
      (hwf : ∀ r ∈ rs, RectWF c r ∧ r.hdr.enc ≠ rfbEncodingLastRect)
      (hlast : RectWF c last) (hle : last.hdr.enc = rfbEncodingLastRect) :
      MsgWF c (.fbu pad nRectsSentinel (rs ++ [last]))
  | colourMap (pad first n : Nat) (d : Bytes) (hp : pad < 256) (hf : first < 65536) (hn : n < 65536)
      (hd : d.length = 6 * n) : MsgWF c (.colourMap pad first n d)
  | bell : MsgWF c .bell
  | cutText (pad : Bytes) (len : Nat) (d : Bytes) (hp : pad.length = 3) (hl : len < 4294967296)
      (hd : d.length = cutTextDataLen len) : MsgWF c (.cutText pad len d)
  | resizeFB (pad w h : Nat) (hp : pad < 256) (hw : w < 65536) (hh : h < 65536) : MsgWF c (.resizeFB pad w h)
  | palmResize (p1 dw dh bw bh p2 : Nat) (h1 : p1 < 256) (h2 : dw < 65536) (h3 : dh < 65536)
      (h4 : bw < 65536) (h5 : bh < 65536) (h6 : p2 < 65536) : MsgWF c (.palmResize p1 dw dh bw bh p2)
  | xvp (pad v cd : Nat) (hp : pad < 256) (hv : v < 256) (hc : cd < 256) : MsgWF c (.xvp pad v cd)
  | textChat (pad : Bytes) (len : Nat) (d : Bytes) (hp : pad.length = 3) (hl : len < 4294967296)
      (hd : d.length = textChatDataLen len) : MsgWF c (.textChat pad len d)

theorem toNat_ofNat_lt (n : Nat) (h : n < 256) : (UInt8.ofNat n).toNat = n := by
  simp [UInt8.toNat_ofNat]; omega

theorem rd8_ofNat (n : Nat) (h : n < 256) (r : Bytes) : rd8 (UInt8.ofNat n :: r) = some (n, r) := by
  simp [rd8, toNat_ofNat_lt n h]

theorem parseMsg_serMsg (c : PCtx) (m : ServerMsg) (wf : MsgWF c m) (rest : Bytes) :
    parseMsg c (serMsg m ++ rest) = some (m, rest) := by
  cases wf with
  | fbuCounted pad n rs hp hn hlen hopen hwf =>
    simp only [serMsg, List.cons_append, List.nil_append, List.append_assoc, parseMsg]
    have t0 : (UInt8.ofNat rfbFramebufferUpdate).toNat = rfbFramebufferUpdate := by decide
    simp only [t0, if_true]
    rw [rd8_ofNat pad hp]
    simp only [Option.bind_eq_bind, Option.bind_some]
    rw [rd16_be16 n hn]
    simp only [Option.bind_some, hopen, if_false]
    subst hlen
    rw [parseRectsN_ser c rs hwf]
    simp
  | fbuOpen pad rs last hp hl hwf hlast hle =>
    simp only [serMsg, List.cons_append, List.nil_append, List.append_assoc, parseMsg]
    have t0 : (UInt8.ofNat rfbFramebufferUpdate).toNat = rfbFramebufferUpdate := by decide
    simp only [t0, if_true]
    rw [rd8_ofNat pad hp]
    simp only [Option.bind_eq_bind, Option.bind_some]
    rw [rd16_be16 nRectsSentinel (by decide)]
    simp only [Option.bind_some, hl, true_and, if_true]
    rw [parseRectsUntilLast_ser c rs last hwf hlast hle rest]
    · simp
    · have h1 := serRects_length_ge (rs ++ [last])
      have h2 : sz_rfbFramebufferUpdateRectHeader = 12 := rfl
      rw [h2, List.length_append]
      rw [List.length_append] at h1
      simp only [List.length_cons, List.length_nil] at h1
      have h3 : rs.length + 1 ≤ ((serRects (rs ++ [last])).length + rest.length) / 12 := by
        rw [Nat.le_div_iff_mul_le (by omega)]
        omega
      omega
  | colourMap pad first n d hp hf hn hd =>
    simp only [serMsg, List.cons_append, List.nil_append, List.append_assoc, parseMsg]
    have t0 : (UInt8.ofNat rfbSetColourMapEntries).toNat = rfbSetColourMapEntries := by decide
    have t1 : ¬ (rfbSetColourMapEntries = rfbFramebufferUpdate) := by decide
    simp only [t0, t1, if_false, if_true]
    rw [rd8_ofNat pad hp]
    simp only [Option.bind_eq_bind, Option.bind_some]
    rw [rd16_be16 first hf]
    simp only [Option.bind_some]
    rw [rd16_be16 n hn]
    simp only [Option.bind_some]
    rw [takeN_append d rest _ hd]
    simp
  | bell =>
    simp only [serMsg, List.cons_append, List.nil_append, parseMsg]
    have t0 : (UInt8.ofNat rfbBell).toNat = rfbBell := by decide
    have t1 : ¬ (rfbBell = rfbFramebufferUpdate) := by decide
    have t2 : ¬ (rfbBell = rfbSetColourMapEntries) := by decide
    simp only [t0, t1, t2, if_false, if_true]
  | cutText pad len d hp hl hd =>
    simp only [serMsg, List.cons_append, List.nil_append, List.append_assoc, parseMsg]
    have t0 : (UInt8.ofNat rfbServerCutText).toNat = rfbServerCutText := by decide
    have t1 : ¬ (rfbServerCutText = rfbFramebufferUpdate) := by decide
    have t2 : ¬ (rfbServerCutText = rfbSetColourMapEntries) := by decide
    have t3 : ¬ (rfbServerCutText = rfbBell) := by decide
    simp only [t0, t1, t2, t3, if_false, if_true]
    rw [takeN_append pad _ 3 hp]
    simp only [Option.bind_eq_bind, Option.bind_some]
    rw [rd32_be32 len hl]
    simp only [Option.bind_some]
    rw [takeN_append d rest _ hd]
    simp
  | resizeFB pad w h hp hw hh =>
    simp only [serMsg, List.cons_append, List.nil_append, List.append_assoc, parseMsg]
    have t0 : (UInt8.ofNat rfbResizeFrameBuffer).toNat = rfbResizeFrameBuffer := by decide
    have t1 : ¬ (rfbResizeFrameBuffer = rfbFramebufferUpdate) := by decide
    have t2 : ¬ (rfbResizeFrameBuffer = rfbSetColourMapEntries) := by decide
    have t3 : ¬ (rfbResizeFrameBuffer = rfbBell) := by decide
    have t4 : ¬ (rfbResizeFrameBuffer = rfbServerCutText) := by decide
    simp only [t0, t1, t2, t3, t4, if_false, if_true]
    rw [rd8_ofNat pad hp]
    simp only [Option.bind_eq_bind, Option.bind_some]
    rw [rd16_be16 w hw]
    simp only [Option.bind_some]
    rw [rd16_be16 h hh]
    simp
  | palmResize p1 dw dh bw bh p2 h1 h2 h3 h4 h5 h6 =>
    simp only [serMsg, List.cons_append, List.nil_append, List.append_assoc, parseMsg]
    have t0 : (UInt8.ofNat rfbPalmVNCReSizeFrameBuffer).toNat = rfbPalmVNCReSizeFrameBuffer := by decide
    have t1 : ¬ (rfbPalmVNCReSizeFrameBuffer = rfbFramebufferUpdate) := by decide
    have t2 : ¬ (rfbPalmVNCReSizeFrameBuffer = rfbSetColourMapEntries) := by decide
    have t3 : ¬ (rfbPalmVNCReSizeFrameBuffer = rfbBell) := by decide
    have t4 : ¬ (rfbPalmVNCReSizeFrameBuffer = rfbServerCutText) := by decide
    have t5 : ¬ (rfbPalmVNCReSizeFrameBuffer = rfbResizeFrameBuffer) := by decide
    simp only [t0, t1, t2, t3, t4, t5, if_false, if_true]
    rw [rd8_ofNat p1 h1]
    simp only [Option.bind_eq_bind, Option.bind_some]
    rw [rd16_be16 dw h2]
    simp only [Option.bind_some]
    rw [rd16_be16 dh h3]
    simp only [Option.bind_some]
    rw [rd16_be16 bw h4]
    simp only [Option.bind_some]
    rw [rd16_be16 bh h5]
    simp only [Option.bind_some]
    rw [rd16_be16 p2 h6]
    simp
  | xvp pad v cd hp hv hc =>
    simp only [serMsg, List.cons_append, List.nil_append, parseMsg]
    have t0 : (UInt8.ofNat rfbXvp).toNat = rfbXvp := by decide
    have t1 : ¬ (rfbXvp = rfbFramebufferUpdate) := by decide
    have t2 : ¬ (rfbXvp = rfbSetColourMapEntries) := by decide
    have t3 : ¬ (rfbXvp = rfbBell) := by decide
    have t4 : ¬ (rfbXvp = rfbServerCutText) := by decide
    have t5 : ¬ (rfbXvp = rfbResizeFrameBuffer) := by decide
    have t6 : ¬ (rfbXvp = rfbPalmVNCReSizeFrameBuffer) := by decide
    simp only [t0, t1, t2, t3, t4, t5, t6, if_false, if_true]
    rw [rd8_ofNat pad hp]
    simp only [Option.bind_eq_bind, Option.bind_some]
    rw [rd8_ofNat v hv]
    simp only [Option.bind_some]
    rw [rd8_ofNat cd hc]
    simp
  | textChat pad len d hp hl hd =>
    simp only [serMsg, List.cons_append, List.nil_append, List.append_assoc, parseMsg]
    have t0 : (UInt8.ofNat rfbTextChat).toNat = rfbTextChat := by decide
    have t1 : ¬ (rfbTextChat = rfbFramebufferUpdate) := by decide
    have t2 : ¬ (rfbTextChat = rfbSetColourMapEntries) := by decide
    have t3 : ¬ (rfbTextChat = rfbBell) := by decide
    have t4 : ¬ (rfbTextChat = rfbServerCutText) := by decide
    have t5 : ¬ (rfbTextChat = rfbResizeFrameBuffer) := by decide
    have t6 : ¬ (rfbTextChat = rfbPalmVNCReSizeFrameBuffer) := by decide
    have t7 : ¬ (rfbTextChat = rfbXvp) := by decide
    simp only [t0, t1, t2, t3, t4, t5, t6, t7, if_false, if_true]
    rw [takeN_append pad _ 3 hp]
    simp only [Option.bind_eq_bind, Option.bind_some]
    rw [rd32_be32 len hl]
    simp only [Option.bind_some]
    rw [takeN_append d rest _ hd]
    simp

theorem serMsg_ne_nil (m : ServerMsg) : serMsg m ≠ [] := by
  cases m <;> simp [serMsg]

theorem serMsgs_cons (m : ServerMsg) (ms : List ServerMsg) : serMsgs (m :: ms) = serMsg m ++ serMsgs ms := by
  simp [serMsgs]

theorem serMsgs_length_ge (ms : List ServerMsg) : ms.length ≤ (serMsgs ms).length := by
  induction ms with
  | nil => simp [serMsgs]
  | cons m t ih =>
    rw [serMsgs_cons, List.length_append, List.length_cons]
    have : 1 ≤ (serMsg m).length := by
      cases h : serMsg m with
      | nil => exact absurd h (serMsg_ne_nil m)
      | cons _ _ => simp
    omega

theorem parseAllAux_ser (c : PCtx) (ms : List ServerMsg) (hwf : ∀ m ∈ ms, MsgWF c m) :
    ∀ (fuel off : Nat) (acc : List ServerMsg), ms.length ≤ fuel →
      parseAllAux c fuel (serMsgs ms) off acc = .ok (acc.reverse ++ ms) := by
  induction ms with
  | nil =>
    intro fuel off acc _
    cases fuel <;> simp [parseAllAux, serMsgs]
  | cons m t ih =>
    intro fuel off acc hf
    match fuel, hf with
    | f + 1, hf =>
      have hm := hwf m (by simp)
      have hne : (serMsgs (m :: t)).isEmpty = false := by
        rw [serMsgs_cons]
        cases h : serMsg m with
        | nil => exact absurd h (serMsg_ne_nil m)
        | cons _ _ => simp
      simp only [parseAllAux, hne]
      rw [serMsgs_cons, parseMsg_serMsg c m hm]
      simp only [Bool.false_eq_true, if_false]
      rw [ih (fun q hq => hwf q (by simp [hq])) f _ (m :: acc) (by simp at hf; omega)]
      simp

/-- **parse ∘ serialise = id** on streams of well-formed messages -/
theorem parseServer_serMsgs (c : PCtx) (ms : List ServerMsg) (hwf : ∀ m ∈ ms, MsgWF c m) :
    parseServer c (serMsgs ms) = some ms := by
  unfold parseServer parseAll
  rw [parseAllAux_ser c ms hwf (serMsgs ms).length 0 [] (serMsgs_length_ge ms)]
  simp

end VncModel.Wire
