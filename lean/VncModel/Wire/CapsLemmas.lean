import VncModel.Wire.Caps
/-
Capability invariant (C03): whatever flag the SetEncodings code has set, the corresponding number
occurs in a SetEncodings message the client sent; the preferred encoding is Raw or was listed.
-/
namespace VncModel.Wire
open VncModel.Gen.C03

/-- every capability flag is justified by an encoding number in `H` (the advertisement history) -/
structure Adv (H : List Nat) (k : Caps) : Prop where
  preferred : ∀ e, k.preferred = some e → e = rfbEncodingRaw ∨ e ∈ H
  copyRect : k.useCopyRect = true → rfbEncodingCopyRect ∈ H
  newFBSize : k.useNewFBSize = true → rfbEncodingNewFBSize ∈ H ∨ rfbEncodingExtDesktopSize ∈ H
  extDesktop : k.useExtDesktopSize = true → rfbEncodingExtDesktopSize ∈ H
  cursorShape : k.cursorShape = true → rfbEncodingXCursor ∈ H ∨ rfbEncodingRichCursor ∈ H
  xCursor : k.cursorShape = true → k.richCursor = false → rfbEncodingXCursor ∈ H
  richCursor : k.richCursor = true → rfbEncodingRichCursor ∈ H
  cursorPos : k.cursorPos = true → rfbEncodingPointerPos ∈ H
  lastRect : k.lastRect = true → rfbEncodingLastRect ∈ H
  led : k.led = true → rfbEncodingKeyboardLedState ∈ H
  supMsgs : k.supMsgs = true → rfbEncodingSupportedMessages ∈ H
  supEncs : k.supEncs = true → rfbEncodingSupportedEncodings ∈ H
  identity : k.identity = true → rfbEncodingServerIdentity ∈ H
  extClip : k.extClip = true → rfbEncodingExtendedClipboard ∈ H

theorem Adv.mono {H H' : List Nat} {k : Caps} (a : Adv H k) (hs : ∀ e, e ∈ H → e ∈ H') : Adv H' k where
  preferred := fun e he => (a.preferred e he).imp id (hs _)
  copyRect := fun h => hs _ (a.copyRect h)
  newFBSize := fun h => (a.newFBSize h).imp (hs _) (hs _)
  extDesktop := fun h => hs _ (a.extDesktop h)
  cursorShape := fun h => (a.cursorShape h).imp (hs _) (hs _)
  xCursor := fun h h2 => hs _ (a.xCursor h h2)
  richCursor := fun h => hs _ (a.richCursor h)
  cursorPos := fun h => hs _ (a.cursorPos h)
  lastRect := fun h => hs _ (a.lastRect h)
  led := fun h => hs _ (a.led h)
  supMsgs := fun h => hs _ (a.supMsgs h)
  supEncs := fun h => hs _ (a.supEncs h)
  identity := fun h => hs _ (a.identity h)
  extClip := fun h => hs _ (a.extClip h)

theorem adv_initial (H : List Nat) : Adv H {} := by
  constructor <;> simp

theorem adv_reset {H : List Nat} {k : Caps} (a : Adv H k) : Adv H (resetCaps k) := by
  constructor <;> simp [resetCaps]
  exact a.extClip

/-! one loop iteration: a flag that is set afterwards was set before or is the number just read -/

local macro "close_field" : tactic => `(tactic|
  first
  | exact fun h => Or.inl h
  | exact fun _ => Or.inr ‹_›
  | exact fun _ => Or.inr (Or.inl ‹_›)
  | exact fun _ => Or.inr (Or.inr ‹_›)
  | exact fun h => Or.inr (Option.some.inj h).symm
  | exact fun h1 h2 => Or.inl ⟨h1, h2⟩
  | exact fun _ _ => Or.inr ‹_›
  | exact fun _ h => Bool.noConfusion h)

local macro "branch" : tactic => `(tactic|
  ((try dsimp only); first | close_field | (split <;> (try dsimp only) <;> close_field)))

local macro "case_if" c:term : tactic => `(tactic|
  (by_cases hc : $c
   · rw [if_pos hc]; branch
   rw [if_neg hc]))

/-- walk down the `if e = … then … else …` chain of `applyEnc` (cheap `rw`s, no big `simp`) -/
local macro "apply_enc_tac" e:ident : tactic => `(tactic|
  (unfold applyEnc
   case_if ($e = rfbEncodingCopyRect)
   case_if (isPixelEncoding $e = true)
   case_if ($e = rfbEncodingXCursor)
   case_if ($e = rfbEncodingRichCursor)
   case_if ($e = rfbEncodingPointerPos)
   case_if ($e = rfbEncodingLastRect)
   case_if ($e = rfbEncodingNewFBSize)
   case_if ($e = rfbEncodingExtDesktopSize)
   case_if ($e = rfbEncodingKeyboardLedState)
   case_if ($e = rfbEncodingSupportedMessages)
   case_if ($e = rfbEncodingSupportedEncodings)
   case_if ($e = rfbEncodingServerIdentity)
   case_if ($e = rfbEncodingXvp)
   case_if ($e = rfbEncodingExtendedClipboard)
   branch))

theorem applyEnc_preferred (g : SrvCfg) (k : Caps) (e p : Nat) :
    (applyEnc g k e).1.preferred = some p → k.preferred = some p ∨ p = e := by
  apply_enc_tac e

theorem applyEnc_copyRect (g : SrvCfg) (k : Caps) (e : Nat) :
    (applyEnc g k e).1.useCopyRect = true → k.useCopyRect = true ∨ e = rfbEncodingCopyRect := by
  apply_enc_tac e

theorem applyEnc_newFBSize (g : SrvCfg) (k : Caps) (e : Nat) :
    (applyEnc g k e).1.useNewFBSize = true →
      k.useNewFBSize = true ∨ e = rfbEncodingNewFBSize ∨ e = rfbEncodingExtDesktopSize := by
  apply_enc_tac e

theorem applyEnc_extDesktop (g : SrvCfg) (k : Caps) (e : Nat) :
    (applyEnc g k e).1.useExtDesktopSize = true →
      k.useExtDesktopSize = true ∨ e = rfbEncodingExtDesktopSize := by
  apply_enc_tac e

theorem applyEnc_cursorShape (g : SrvCfg) (k : Caps) (e : Nat) :
    (applyEnc g k e).1.cursorShape = true →
      k.cursorShape = true ∨ e = rfbEncodingXCursor ∨ e = rfbEncodingRichCursor := by
  apply_enc_tac e

theorem applyEnc_xCursor (g : SrvCfg) (k : Caps) (e : Nat) :
    (applyEnc g k e).1.cursorShape = true → (applyEnc g k e).1.richCursor = false →
      (k.cursorShape = true ∧ k.richCursor = false) ∨ e = rfbEncodingXCursor := by
  apply_enc_tac e

theorem applyEnc_richCursor (g : SrvCfg) (k : Caps) (e : Nat) :
    (applyEnc g k e).1.richCursor = true → k.richCursor = true ∨ e = rfbEncodingRichCursor := by
  apply_enc_tac e

theorem applyEnc_cursorPos (g : SrvCfg) (k : Caps) (e : Nat) :
    (applyEnc g k e).1.cursorPos = true → k.cursorPos = true ∨ e = rfbEncodingPointerPos := by
  apply_enc_tac e

theorem applyEnc_lastRect (g : SrvCfg) (k : Caps) (e : Nat) :
    (applyEnc g k e).1.lastRect = true → k.lastRect = true ∨ e = rfbEncodingLastRect := by
  apply_enc_tac e

theorem applyEnc_led (g : SrvCfg) (k : Caps) (e : Nat) :
    (applyEnc g k e).1.led = true → k.led = true ∨ e = rfbEncodingKeyboardLedState := by
  apply_enc_tac e

theorem applyEnc_supMsgs (g : SrvCfg) (k : Caps) (e : Nat) :
    (applyEnc g k e).1.supMsgs = true → k.supMsgs = true ∨ e = rfbEncodingSupportedMessages := by
  apply_enc_tac e

theorem applyEnc_supEncs (g : SrvCfg) (k : Caps) (e : Nat) :
    (applyEnc g k e).1.supEncs = true → k.supEncs = true ∨ e = rfbEncodingSupportedEncodings := by
  apply_enc_tac e

theorem applyEnc_identity (g : SrvCfg) (k : Caps) (e : Nat) :
    (applyEnc g k e).1.identity = true → k.identity = true ∨ e = rfbEncodingServerIdentity := by
  apply_enc_tac e

theorem applyEnc_extClip (g : SrvCfg) (k : Caps) (e : Nat) :
    (applyEnc g k e).1.extClip = true → k.extClip = true ∨ e = rfbEncodingExtendedClipboard := by
  apply_enc_tac e

/-- one loop iteration keeps the invariant when the number being processed is in `H` -/
theorem adv_applyEnc (g : SrvCfg) {H : List Nat} {k : Caps} (a : Adv H k) (e : Nat) (he : e ∈ H) :
    Adv H (applyEnc g k e).1 where
  preferred := fun p hp => by
    rcases applyEnc_preferred g k e p hp with h | rfl
    · exact a.preferred p h
    · exact Or.inr he
  copyRect := fun h => by
    rcases applyEnc_copyRect g k e h with h | rfl
    · exact a.copyRect h
    · exact he
  newFBSize := fun h => by
    rcases applyEnc_newFBSize g k e h with h | rfl | rfl
    · exact a.newFBSize h
    · exact Or.inl he
    · exact Or.inr he
  extDesktop := fun h => by
    rcases applyEnc_extDesktop g k e h with h | rfl
    · exact a.extDesktop h
    · exact he
  cursorShape := fun h => by
    rcases applyEnc_cursorShape g k e h with h | rfl | rfl
    · exact a.cursorShape h
    · exact Or.inl he
    · exact Or.inr he
  xCursor := fun h h2 => by
    rcases applyEnc_xCursor g k e h h2 with ⟨h, h'⟩ | rfl
    · exact a.xCursor h h'
    · exact he
  richCursor := fun h => by
    rcases applyEnc_richCursor g k e h with h | rfl
    · exact a.richCursor h
    · exact he
  cursorPos := fun h => by
    rcases applyEnc_cursorPos g k e h with h | rfl
    · exact a.cursorPos h
    · exact he
  lastRect := fun h => by
    rcases applyEnc_lastRect g k e h with h | rfl
    · exact a.lastRect h
    · exact he
  led := fun h => by
    rcases applyEnc_led g k e h with h | rfl
    · exact a.led h
    · exact he
  supMsgs := fun h => by
    rcases applyEnc_supMsgs g k e h with h | rfl
    · exact a.supMsgs h
    · exact he
  supEncs := fun h => by
    rcases applyEnc_supEncs g k e h with h | rfl
    · exact a.supEncs h
    · exact he
  identity := fun h => by
    rcases applyEnc_identity g k e h with h | rfl
    · exact a.identity h
    · exact he
  extClip := fun h => by
    rcases applyEnc_extClip g k e h with h | rfl
    · exact a.extClip h
    · exact he

theorem adv_applyEncs (g : SrvCfg) {H : List Nat} :
    ∀ (es : List Nat) (k : Caps) (acc : List Immediate), Adv H k → (∀ e ∈ es, e ∈ H) →
      Adv H (applyEncs g k es acc).1 := by
  intro es
  induction es with
  | nil => intro k acc a _; simpa [applyEncs] using a
  | cons e t ih =>
    intro k acc a hs
    simp only [applyEncs]
    exact ih _ _ (adv_applyEnc g a e (hs e (by simp))) (fun q hq => hs q (by simp [hq]))

theorem adv_fallbackPreferred {H : List Nat} {k : Caps} (a : Adv H k) (last : Option Nat)
    (hl : ∀ e, last = some e → e = rfbEncodingRaw ∨ e ∈ H) : Adv H (fallbackPreferred last k) := by
  unfold fallbackPreferred
  split
  · exact a
  · refine { a with preferred := ?_ }
    intro e he
    cases hk : last with
    | none =>
      simp only [hk, Option.getD_none, Option.some.injEq] at he
      exact Or.inl he.symm
    | some v =>
      simp only [hk, Option.getD_some, Option.some.injEq] at he
      exact he ▸ hl v hk

theorem adv_dropPos {H : List Nat} {k : Caps} (a : Adv H k) : Adv H (dropPosWithoutShape k) := by
  unfold dropPosWithoutShape
  split
  · exact { a with cursorPos := fun h => Bool.noConfusion h }
  · exact a

/-- **capability invariant**: processing a SetEncodings message keeps every flag justified by the
history extended with the new list -/
theorem adv_setEncodings (g : SrvCfg) {H : List Nat} {k : Caps} (a : Adv H k) (encs : List Nat) :
    Adv (H ++ encs) (setEncodings g k encs).1 := by
  have a' : Adv (H ++ encs) k := a.mono (fun e he => by simp [he])
  have a1 := adv_applyEncs g encs (resetCaps k) [] (adv_reset a') (fun e he => by simp [he])
  exact adv_dropPos (adv_fallbackPreferred a1 k.preferred a'.preferred)

/-! ### the CURRENT list: every SetEncodings message resets the flags -/

/-- what survives the reset block: `enableExtendedClipboard` (never reset) and the encoding in use
before the message (`lastPreferredEncoding`, used only if the new list names no pixel encoding) -/
def carry (k : Caps) : List Nat :=
  (if k.extClip then [rfbEncodingExtendedClipboard] else []) ++ k.preferred.toList

theorem adv_reset_carry (k : Caps) (encs : List Nat) : Adv (encs ++ carry k) (resetCaps k) := by
  constructor <;> simp [resetCaps, carry]
  intro h
  exact Or.inr (Or.inl h)

/-- after a SetEncodings message every flag is justified by THAT message's list, apart from the two
carried items -/
theorem adv_setEncodings_current (g : SrvCfg) (k : Caps) (encs : List Nat) :
    Adv (encs ++ carry k) (setEncodings g k encs).1 := by
  have a1 := adv_applyEncs g encs (resetCaps k) [] (adv_reset_carry k encs) (fun e he => by simp [he])
  refine adv_dropPos (adv_fallbackPreferred a1 k.preferred ?_)
  intro e he
  right
  simp [carry, he]

local macro "branch_pref" : tactic => `(tactic|
  ((try dsimp only); first
    | rfl
    | (exfalso; simp_all; done)
    | (split <;> (try dsimp only) <;> first | rfl | (exfalso; simp_all; done))))

local macro "case_if_pref" c:term : tactic => `(tactic|
  (by_cases hc : $c
   · rw [if_pos hc]; try branch_pref
   rw [if_neg hc]))

/-- a number that is not a pixel encoding never changes the preferred encoding -/
theorem applyEnc_preferred_unchanged (g : SrvCfg) (k : Caps) (e : Nat)
    (hnp : isPixelEncoding e = false) : (applyEnc g k e).1.preferred = k.preferred := by
  unfold applyEnc
  case_if_pref (e = rfbEncodingCopyRect)
  case_if_pref (isPixelEncoding e = true)
  case_if_pref (e = rfbEncodingXCursor)
  case_if_pref (e = rfbEncodingRichCursor)
  case_if_pref (e = rfbEncodingPointerPos)
  case_if_pref (e = rfbEncodingLastRect)
  case_if_pref (e = rfbEncodingNewFBSize)
  case_if_pref (e = rfbEncodingExtDesktopSize)
  case_if_pref (e = rfbEncodingKeyboardLedState)
  case_if_pref (e = rfbEncodingSupportedMessages)
  case_if_pref (e = rfbEncodingSupportedEncodings)
  case_if_pref (e = rfbEncodingServerIdentity)
  case_if_pref (e = rfbEncodingXvp)
  case_if_pref (e = rfbEncodingExtendedClipboard)
  all_goals (try branch_pref)

/-- the preferred encoding is always a pixel encoding -/
def PrefPixel (k : Caps) : Prop := ∀ p, k.preferred = some p → isPixelEncoding p = true

theorem prefPixel_applyEnc (g : SrvCfg) (k : Caps) (e : Nat) (h : PrefPixel k) :
    PrefPixel (applyEnc g k e).1 := by
  intro p hp
  cases hpx : isPixelEncoding e with
  | true =>
    rcases applyEnc_preferred g k e p hp with h' | rfl
    · exact h p h'
    · exact hpx
  | false =>
    rw [applyEnc_preferred_unchanged g k e hpx] at hp
    exact h p hp

theorem prefPixel_applyEncs (g : SrvCfg) :
    ∀ (es : List Nat) (k : Caps) (acc : List Immediate), PrefPixel k → PrefPixel (applyEncs g k es acc).1 := by
  intro es
  induction es with
  | nil => intro k acc h; simpa [applyEncs] using h
  | cons e t ih => intro k acc h; simp only [applyEncs]; exact ih _ _ (prefPixel_applyEnc g k e h)

theorem prefPixel_setEncodings (g : SrvCfg) (k : Caps) (encs : List Nat) (h : PrefPixel k) :
    PrefPixel (setEncodings g k encs).1 := by
  have h0 : PrefPixel (resetCaps k) := by intro p hp; simp [resetCaps] at hp
  have h1 := prefPixel_applyEncs g encs (resetCaps k) [] h0
  unfold setEncodings
  simp only []
  generalize (applyEncs g (resetCaps k) encs []).1 = c1 at h1
  intro p hp
  unfold dropPosWithoutShape at hp
  have hp' : (fallbackPreferred k.preferred c1).preferred = some p := by
    split at hp <;> exact hp
  unfold fallbackPreferred at hp'
  split at hp'
  · exact h1 p hp'
  · simp only [Option.some.injEq] at hp'
    cases hk : k.preferred with
    | none => simp only [hk, Option.getD_none] at hp'; rw [← hp']; decide
    | some v => simp only [hk, Option.getD_some] at hp'; exact hp' ▸ h v hk

/-- a pseudo-encoding number is not among the carried items -/
theorem not_mem_carry (k : Caps) (h : PrefPixel k) (e : Nat) (h1 : e ≠ rfbEncodingExtendedClipboard)
    (h2 : isPixelEncoding e = false) : e ∉ carry k := by
  unfold carry
  intro hm
  simp only [List.mem_append, Option.mem_toList] at hm
  rcases hm with hm | hm
  · split at hm
    · simp only [List.mem_singleton] at hm; exact h1 hm
    · simp at hm
  · have := h e hm
    rw [h2] at this
    exact Bool.noConfusion this

end VncModel.Wire
