import VncModel.Gen.C20
/-!
# Executable model of `src/libvncserver/httpd.c` (C20)

Core Lean only.  Byte strings are `List UInt8`; the libc functions the C code uses (`strlen`,
`strstr`, `strchr`, `strncmp`, `strcspn`, `sscanf "%s"`, `atoi`, `isalnum`, `isspace`) are modelled
on lists with the C-string convention made explicit by `cstr` (everything up to the first NUL).

Every literal and size comes from `VncModel.Gen.C20`, which is regenerated from the source on every
run (`tools/consts/c20.{c,py}`).

The model follows the code with `fixes/C20-proxy-null.diff` and `fixes/C20-params-uninit.diff`
applied (`fixed := true`).  `fixed := false` is the code as found: the two unchecked `strchr`
results of the proxy branch become the explicit outcome `Outcome.crash`.

Every function that mirrors C code which *writes* into one of the fixed-size buffers returns, next
to its result, the list of write extents (`W`) it performed, so that "no overrun" is a theorem about
all writes on all paths (`Props/C20.lean`, `buffers_in_bounds`).
-/
namespace VncModel.Httpd
open VncModel.Gen.C20

abbrev Bytes := List UInt8

/-! ## libc on C strings -/

/-- the C string stored at the start of a byte array: everything before the first NUL -/
def cstr (b : Bytes) : Bytes := b.takeWhile (· != 0)

/-- `strstr(h, n) != NULL` (for NUL-free `n`, `h` a C string) -/
def hasSub (n : Bytes) : Bytes → Bool
  | [] => n.isEmpty
  | c :: t => n.isPrefixOf (c :: t) || hasSub n t

/-- `strchr(s, c)`: the suffix of `s` that starts at the first `c` (`c ≠ 0`) -/
def strchr (c : UInt8) (s : Bytes) : Option Bytes :=
  match s.dropWhile (· != c) with
  | [] => none
  | r => some r

def isSpace (b : UInt8) : Bool := b == 32 || (9 ≤ b && b ≤ 13)
def isDigit (b : UInt8) : Bool := 48 ≤ b && b ≤ 57
/-- `isalnum` in the "C" locale; bytes ≥ 0x80 (negative `char`) are not alphanumeric -/
def isAlnum (b : UInt8) : Bool := isDigit b || (65 ≤ b && b ≤ 90) || (97 ≤ b && b ≤ 122)
def toLower (b : UInt8) : UInt8 := if 65 ≤ b && b ≤ 90 then b + 32 else b

/-- value of the leading decimal digits -/
def digitsVal (acc : Nat) : Bytes → Nat
  | [] => acc
  | b :: t => if isDigit b then digitsVal (acc * 10 + (b.toNat - 48)) t else acc

/-- conversion `long → int` as gcc/x86-64 performs it -/
def wrap32 (x : Int) : Int := (x + 2147483648) % 4294967296 - 2147483648

/-- glibc `atoi(s)` = `(int) strtol(s, NULL, 10)`: skip `isspace`, optional sign, digits;
`strtol` saturates at `LONG_MIN/LONG_MAX` (64 bit), the cast truncates to 32 bit. -/
def atoi (s : Bytes) : Int :=
  let s := s.dropWhile isSpace
  let (neg, s) := match s with
    | 45 :: t => (true, t)
    | 43 :: t => (false, t)
    | _ => (false, s)
  let v := digitsVal 0 s
  let l : Int :=
    if neg then (if v > 9223372036854775808 then -9223372036854775808 else -(v : Int))
    else (if v ≥ 9223372036854775808 then 9223372036854775807 else (v : Int))
  wrap32 l

/-- decimal digits of a natural number -/
def decNat (n : Nat) : Bytes :=
  if h : n < 10 then [UInt8.ofNat (48 + n)] else decNat (n / 10) ++ [UInt8.ofNat (48 + n % 10)]
termination_by n
decreasing_by omega

/-- `sprintf("%d", x)` -/
def decimal (x : Int) : Bytes :=
  if x < 0 then 45 :: decNat x.natAbs else decNat x.natAbs

/-! ## configuration, outcomes, write extents -/

structure Cfg where
  /-- `screen->httpDir` (a C string: no NUL) -/
  dir : Bytes
  /-- `screen->httpEnableProxyConnect` -/
  proxy : Bool
  /-- `screen->port` -/
  port : Int

inductive CloseWhy
  | dirTooLong | eof | bufferFull | noGet | lineTooLong | scanFail
  deriving DecidableEq, Repr

inductive Outcome
  /-- `read` said EAGAIN before a blank line was seen: return, connection stays, bytes forgotten -/
  | pending
  /-- `httpCloseSock` without any response -/
  | close (why : CloseWhy)
  /-- error response (400 / 404) followed by `httpCloseSock` -/
  | error (code : Nat)
  /-- proxy response, socket handed to `rfbNewClientConnection` -/
  | proxyOk
  /-- `fopen(path, "r")`; `params` = the `params[]` buffer; `subst` = performSubstitutions -/
  | serve (path : Bytes) (params : Bytes) (subst : Bool)
  /-- NULL dereference (only in the code as found, `fixed = false`) -/
  | crash
  deriving DecidableEq, Repr

inductive BufId
  | buf | fullFname | params | paramRequest | paramFormatted | str
  deriving DecidableEq, Repr

/-- a write of bytes `[lo, hi)` of a buffer; only `hi` matters for overruns -/
structure W where
  id : BufId
  hi : Nat
  deriving DecidableEq, Repr

def bufSize : BufId → Nat
  | .buf => sizeofBuf
  | .fullFname => fullFnameSize
  | .params => paramsSize
  | .paramRequest => paramRequestSize
  | .paramFormatted => paramFormattedSize
  | .str => strSize

/-! ## request accumulation (`while (1) { read … strstr … }`) -/

/-- "is there a blank line" on the C string in `buf` -/
def hasTerminator (s : Bytes) : Bool := terminators.any (fun t => hasSub t s)

inductive SockEnd
  /-- nothing more to read right now: `read` = -1/EAGAIN -/
  | eagain
  /-- peer has shut down: `read` = 0 -/
  | eof
  deriving DecidableEq, Repr

inductive AccRes
  /-- a blank line is in the buffer; `rest` = bytes still unread in the socket -/
  | complete (buf : Bytes) (rest : Bytes)
  | pending
  | closed (why : CloseWhy)
  deriving DecidableEq, Repr

/-- bytes `read` may still store: `sizeof(buf) - buf_filled - 1` -/
def room (acc : Bytes) : Nat := sizeofBuf - acc.length - readSlack

/-- One call of `httpProcessInput` reads the socket until a blank line shows up in the
*accumulated* buffer.  `chunks` are the pieces in which the kernel hands out the bytes (each `read`
returns `min(room, |chunk|)` bytes of the current piece), `e` is what follows the last piece.
A `read` with room 0 returns 0, which the code takes for a premature close; a piece longer than the
remaining room fills the buffer, so (no blank line) the next `read` is that room-0 read.
Also returns the writes into `buf` (the received bytes and the terminating NUL). -/
def accumulate (acc : Bytes) : List Bytes → SockEnd → AccRes × List W
  | [], e =>
    if room acc = 0 then (.closed .bufferFull, [])
    else match e with
      | .eagain => (.pending, [])
      | .eof => (.closed .eof, [])
  | c :: cs, e =>
    if room acc = 0 then (.closed .bufferFull, [])
    else if c.isEmpty then accumulate acc cs e
    else
      let got := c.take (room acc)
      let acc' := acc ++ got
      let w : W := ⟨.buf, acc'.length + 1⟩
      if hasTerminator (cstr acc') then (.complete acc' (c.drop (room acc) ++ cs.flatten), [w])
      else if c.length > room acc then (.closed .bufferFull, [w])
      else
        let (r, ws) := accumulate acc' cs e
        (r, w :: ws)

/-! ## query parameters (`parseParams`, `validateString`) -/

/-- `validateString`: `none` = FALSE; accepted strings come back with '+' replaced by ' ' -/
def validate : Bytes → Option Bytes
  | [] => some []
  | b :: t =>
    if isAlnum b || alphaExtra.contains b then (validate t).map (b :: ·)
    else if b.toNat = alphaFrom then (validate t).map (UInt8.ofNat alphaTo :: ·)
    else none

def formatParam (n v : Bytes) : Bytes := paramFmtA ++ n ++ paramFmtB ++ v ++ paramFmtC

/-- `'&'`-separated pieces, as the `strchr(tail, '&')` loop sees them (always at least one) -/
def splitAmp (q : Bytes) : List Bytes :=
  match q with
  | [] => [[]]
  | b :: t =>
    if b = 38 then [] :: splitAmp t
    else match splitAmp t with
      | [] => [[b]]
      | s :: ss => (b :: s) :: ss

/-- one round of the loop body up to `sprintf`: `none` = `return FALSE`.
`seg = []` is refused explicitly only by the fixed code; the code as found runs
`strchr(&param_request[1], '=')` over bytes nobody wrote (see docs/C20.md). -/
def paramStep (seg : Bytes) : Option Bytes × List W :=
  if seg.length ≥ paramRequestSize then (none, [])
  else
    let w1 : W := ⟨.paramRequest, seg.length + 1⟩
    if seg.isEmpty then (none, [w1])
    else match strchr 61 (seg.drop 1) with
      | none => (none, [w1])
      | some r =>
        let name := seg.take (seg.length - r.length)
        let value := r.drop 1
        if value.isEmpty then (none, [w1])
        else match validate name, validate value with
          | some n, some v =>
            let f := formatParam n v
            (some f, [w1, ⟨.paramFormatted, f.length + 1⟩])
          | _, _ => (none, [w1])

/-- the loop: `cur` = `cur_bytes` (= length of `res`) -/
def parseSegs : List Bytes → Bytes → Option Bytes × List W
  | [], res => (some res, [])
  | seg :: rest, res =>
    match paramStep seg with
    | (none, ws) => (none, ws)
    | (some f, ws) =>
      if res.length + f.length + 1 > parseParamsMax then (none, ws)
      else
        let res' := res ++ f
        let w : W := ⟨.params, res'.length + 1⟩
        if rest.isEmpty then (some res', ws ++ [w])
        else
          let (r, ws') := parseSegs rest res'
          (r, ws ++ w :: ws')

/-- `parseParams(q, params, 1024)`: `none` = FALSE (caller then empties `params`) -/
def parseParams (q : Bytes) : Option Bytes × List W :=
  let (r, ws) := parseSegs (splitAmp q) []
  (r, ⟨.params, 1⟩ :: ws)

/-! ## the request decision -/

/-- `sscanf(line, "GET %s HTTP/1.", fname) == 1` for a line that starts with "GET " and contains
no line end: white space, then a non-empty run of non-white-space bytes (what follows does not
influence the return value once `%s` has been assigned). -/
def scanGet (line : Bytes) : Option Bytes :=
  let r := (line.drop 3).dropWhile isSpace
  let tok := r.takeWhile (fun b => !isSpace b)
  if tok.isEmpty then none else some tok

def firstLine (s : Bytes) : Bytes := s.takeWhile (fun b => !lineEnds.contains b)

/-- `maxFnameLen` -/
def maxFnameLen (cfg : Cfg) : Nat := fnameMaxBase - cfg.dir.length

def endsWith (suf s : Bytes) : Bool := suf.length ≤ s.length && s.drop (s.length - suf.length) == suf

/-- the proxy branch; `none` = fall through to the ordinary GET handling -/
def proxyBranch (fixed : Bool) (cfg : Cfg) (s : Bytes) : Option Outcome :=
  if litConnect.isPrefixOf s then
    match strchr 58 s with
    | none => some (if fixed then .error 400 else .crash)
    | some r => if atoi (r.drop 1) ≠ cfg.port then some (.error 400) else some .proxyOk
  else if litGet.isPrefixOf s then
    match strchr 47 s with
    | none => if fixed then none else some .crash
    | some r => if litProxied.isPrefixOf r then some .proxyOk else none
  else none

/-- `params[0] = 0; ptr = strchr(fname,'?'); if (ptr) { *ptr = 0; if (!parseParams(..)) params[0] = 0; }` -/
def queryParams (tok : Bytes) : Bytes × List W :=
  match strchr 63 tok with
  | none => ([], [⟨.params, 1⟩])
  | some q => ((parseParams (q.drop 1)).1.getD [], ⟨.params, 1⟩ :: (parseParams (q.drop 1)).2 ++ [⟨.params, 1⟩])

/-- `if (strcmp(fname, "/") == 0) strcpy(fname, "/index.vnc")` -/
def indexRule (cfg : Cfg) (f : Bytes) : Bytes × List W :=
  if f = litRoot then (litIndex, [⟨.fullFname, cfg.dir.length + litIndex.length + 1⟩]) else (f, [])

/-- everything after the proxy branch, for the C string `s` in `buf` -/
def getBranch (cfg : Cfg) (s : Bytes) : Outcome × List W :=
  if !litGet.isPrefixOf s then (.close .noGet, [])
  else
    let line := firstLine s
    let w0 : W := ⟨.buf, line.length + 1⟩
    if line.length > maxFnameLen cfg then (.close .lineTooLong, [w0])
    else match scanGet line with
      | none => (.close .scanFail, [w0])
      | some tok =>
        let w1 : W := ⟨.fullFname, cfg.dir.length + tok.length + 1⟩
        if tok.head? ≠ some 47 then (.error 404, [w0, w1])
        else
          let f := tok.takeWhile (· != 63)
          let pw := queryParams tok
          if hasSub litDotDot f then (.error 404, [w0, w1] ++ pw.2)
          else
            let fi := indexRule cfg f
            (.serve (cfg.dir ++ fi.1) pw.1 (endsWith litSubstExt fi.1), [w0, w1] ++ pw.2 ++ fi.2)

/-- "Process the request": the decision for the bytes in `buf` -/
def decideW (fixed : Bool) (cfg : Cfg) (b : Bytes) : Outcome × List W :=
  let s := cstr b
  match (if cfg.proxy then proxyBranch fixed cfg s else none) with
  | some o => (o, [])
  | none => getBranch cfg s

def decideV (fixed : Bool) (cfg : Cfg) (b : Bytes) : Outcome := (decideW fixed cfg b).1
/-- the model of the (fixed) code -/
def decideReq (cfg : Cfg) (b : Bytes) : Outcome := decideV true cfg b

/-- one whole call of `httpProcessInput`: directory guard, accumulation, decision.
Result: outcome, bytes left unread in the socket, all writes. -/
def processCallW (fixed : Bool) (cfg : Cfg) (chunks : List Bytes) (e : SockEnd) :
    Outcome × Bytes × List W :=
  if cfg.dir.length > dirMax then (.close .dirTooLong, chunks.flatten, [])
  else
    let w0 : W := ⟨.fullFname, cfg.dir.length + 1⟩
    match accumulate [] chunks e with
    | (.pending, ws) => (.pending, [], w0 :: ws)
    | (.closed why, ws) => (.close why, [], w0 :: ws)
    | (.complete b rest, ws) =>
      let (o, ws') := decideW fixed cfg b
      (o, rest, w0 :: ws ++ ws')

def processCall (cfg : Cfg) (chunks : List Bytes) (e : SockEnd) : Outcome :=
  (processCallW true cfg chunks e).1

/-! ## the response -/

/-- what `fopen(path,"r")` + `fread` find (external: kernel + file system) -/
inductive FsRes
  | absent
  /-- `fopen` of a directory succeeds on Linux, `fread` then delivers nothing -/
  | isDir
  | file (content : Bytes)
  deriving DecidableEq, Repr

structure Env where
  width : Int
  height : Int
  desktop : Bytes
  thisHost : Bytes
  user : Option Bytes

/-- the values of the nine variables, in the order of `substVars` -/
def varValues (env : Env) (cfg : Cfg) (params : Bytes) : List Bytes :=
  [decimal env.width, decimal env.height, decimal env.width,
   decimal (env.height + appletHeightExtra), decimal cfg.port, env.desktop,
   env.thisHost ++ [58] ++ decimal (cfg.port - displayBase),
   env.user.getD [63], params]

/-- the `if (compareAndSkip …) else if …` chain at a '$': (bytes written, bytes skipped) -/
def matchVar (vals : List Bytes) (s : Bytes) : Bytes × Nat :=
  let rec go : List Bytes → List Bytes → Bytes × Nat
    | v :: vs, x :: xs => if v.isPrefixOf s then (x, v.length) else go vs xs
    | [v], [] => if v.isPrefixOf s then ([36], v.length) else ([36], 1)   -- "$$", else `ptr++`
    | _, _ => ([36], 1)
  go substVars vals

/-- the `while ((dollar = strchr(ptr,'$')))` loop on a C string -/
def substGo (vals : List Bytes) : Nat → Bytes → Bytes
  | _, [] => []
  | k + 1, _ :: t => substGo vals k t
  | 0, c :: t =>
    if c = 36 then
      let (out, skip) := matchVar vals (c :: t)
      out ++ substGo vals (skip - 1) t
    else c :: substGo vals 0 t

/-- one `fread` chunk: substitution works on the C string at its start (`buf[n] = 0`), the final
`rfbWriteExact(ptr, &buf[n] - ptr)` sends the rest unchanged (NUL and everything after it) -/
def substChunk (vals : List Bytes) (chunk : Bytes) : Bytes :=
  substGo vals 0 (cstr chunk) ++ chunk.drop (cstr chunk).length

/-- pieces of `BUF_SIZE - 1` bytes, as `fread` delivers a regular file (fuel = length) -/
def chunksOf (n : Nat) : Nat → Bytes → List Bytes
  | 0, _ => []
  | fuel + 1, b => if b.isEmpty then [] else b.take n :: chunksOf n fuel (b.drop n)

def body (env : Env) (cfg : Cfg) (params : Bytes) (subst : Bool) (content : Bytes) : Bytes :=
  if subst then
    ((chunksOf (BUF_SIZE - freadSlack) content.length content).map
      (substChunk (varValues env cfg params))).flatten
  else content

/-- `strrchr(fname, '.')` then the `strcasecmp` chain -/
def contentType (f : Bytes) : Bytes :=
  let rec lastDot : Bytes → Option Bytes → Option Bytes
    | [], r => r
    | c :: t, r => lastDot t (if c = 46 then some (c :: t) else r)
  match lastDot f none with
  | none => []
  | some ext =>
    match contentTypes.find? (fun p => ext.map toLower == p.1.map toLower) with
    | some p => p.2
    | none => []

/-- bytes sent on the HTTP socket for an outcome (before a possible hand-over to RFB) -/
def respond (env : Env) (cfg : Cfg) (fs : Bytes → FsRes) : Outcome → Bytes
  | .pending => []
  | .close _ => []
  | .crash => []
  | .error 400 => invalidRequestStr
  | .error _ => notFoundStr
  | .proxyOk => proxyOkStr
  | .serve path params subst =>
    match fs path with
    | .absent => notFoundStr
    | .isDir => okStr ++ contentType (path.drop cfg.dir.length) ++ [13, 10]
    | .file c => okStr ++ contentType (path.drop cfg.dir.length) ++ [13, 10] ++ body env cfg params subst c

/-- the path handed to `fopen`, if any: only `serve` touches the file system -/
def opened : Outcome → Option Bytes
  | .serve path _ _ => some path
  | _ => none

/-- writes into `str[]` by the substitution loop (`sprintf`) for one environment -/
def strWrites (env : Env) (cfg : Cfg) : List W :=
  [⟨.str, (decimal env.width).length + 1⟩, ⟨.str, (decimal env.height).length + 1⟩,
   ⟨.str, (decimal (env.height + appletHeightExtra)).length + 1⟩,
   ⟨.str, (decimal cfg.port).length + 1⟩,
   ⟨.str, (env.thisHost ++ [58] ++ decimal (cfg.port - displayBase)).length + 1⟩]

/-! ## lexical path resolution (for the confinement statement; the kernel does this, not httpd.c) -/

/-- components of a path: the pieces between '/' -/
def splitSlash (f : Bytes) : List Bytes :=
  match f with
  | [] => [[]]
  | b :: t =>
    if b = 47 then [] :: splitSlash t
    else match splitSlash t with
      | [] => [[b]]
      | s :: ss => (b :: s) :: ss

/-- walk the components below a root: `st` = directories entered so far (innermost first);
"" and "." stay, ".." goes up and *fails* (`none`) when it would leave the root. -/
def resolve : List Bytes → List Bytes → Option (List Bytes)
  | st, [] => some st
  | st, c :: cs =>
    if c = [] ∨ c = [46] then resolve st cs
    else if c = [46, 46] then
      match st with
      | [] => none
      | _ :: st' => resolve st' cs
    else resolve (c :: st) cs

end VncModel.Httpd
