import VncModel.Httpd.Model
/-! Helper lemmas for C20 (list/libc facts, accumulation, parameters, decision). Core Lean only. -/
namespace VncModel.Httpd
open VncModel.Gen.C20

/-! ### lists -/

theorem mem_takeWhile {α} (p : α → Bool) : ∀ (l : List α) (x : α), x ∈ l.takeWhile p → x ∈ l
  | [], _, h => by simp at h
  | a :: t, x, h => by
    simp only [List.takeWhile] at h
    split at h
    · rcases List.mem_cons.1 h with h | h
      · exact h ▸ List.mem_cons_self
      · exact List.mem_cons_of_mem _ (mem_takeWhile p t x h)
    · simp at h

theorem mem_dropWhile {α} (p : α → Bool) : ∀ (l : List α) (x : α), x ∈ l.dropWhile p → x ∈ l
  | [], _, h => by simp at h
  | a :: t, x, h => by
    simp only [List.dropWhile] at h
    split at h
    · exact List.mem_cons_of_mem _ (mem_dropWhile p t x h)
    · exact h

theorem length_takeWhile_le {α} (p : α → Bool) : ∀ l : List α, (l.takeWhile p).length ≤ l.length
  | [] => by simp
  | a :: t => by
    simp only [List.takeWhile]
    split
    · simp only [List.length_cons]; have := length_takeWhile_le p t; omega
    · simp

theorem length_dropWhile_le {α} (p : α → Bool) : ∀ l : List α, (l.dropWhile p).length ≤ l.length
  | [] => by simp
  | a :: t => by
    simp only [List.dropWhile]
    split
    · simp only [List.length_cons]; have := length_dropWhile_le p t; omega
    · simp

theorem takeWhile_all {α} (p : α → Bool) : ∀ (l : List α) (x : α), x ∈ l.takeWhile p → p x = true
  | [], _, h => by simp at h
  | a :: t, x, h => by
    simp only [List.takeWhile] at h
    split at h
    · rcases List.mem_cons.1 h with h' | h'
      · subst h'; assumption
      · exact takeWhile_all p t x h'
    · simp at h

/-- a prefix whose elements all pass the test is a prefix of the `takeWhile` as well -/
theorem isPrefixOf_takeWhile (q : UInt8 → Bool) :
    ∀ (p s : Bytes), (∀ x ∈ p, q x = true) → p.isPrefixOf (s.takeWhile q) = p.isPrefixOf s
  | [], s, _ => by simp
  | a :: p, [], _ => by simp
  | a :: p, b :: s, h => by
    by_cases hb : q b = true
    · simp only [List.takeWhile, hb, List.isPrefixOf]
      rw [isPrefixOf_takeWhile q p s (fun x hx => h x (List.mem_cons_of_mem _ hx))]
    · have hab : (a == b) = false := by
        have ha := h a List.mem_cons_self
        cases hab : a == b
        · rfl
        · have : a = b := by simpa using hab
          subst this; exact absurd ha hb
      simp [List.takeWhile, hb, List.isPrefixOf, hab]

/-! ### C strings -/

theorem cstr_no_nul (b : Bytes) : ∀ x ∈ cstr b, x ≠ 0 := by
  intro x hx
  have := takeWhile_all (· != 0) b x hx
  simpa using this

theorem cstr_length_le (b : Bytes) : (cstr b).length ≤ b.length := length_takeWhile_le _ _

theorem cstr_append_of_no_nul : ∀ (a b : Bytes), (∀ x ∈ a, x ≠ 0) → cstr (a ++ b) = a ++ cstr b
  | [], b, _ => rfl
  | x :: a, b, h => by
    have hx : (x != 0) = true := by simpa using h x List.mem_cons_self
    simp only [cstr, List.cons_append, List.takeWhile, hx]
    have := cstr_append_of_no_nul a b (fun y hy => h y (List.mem_cons_of_mem _ hy))
    simp only [cstr] at this
    rw [this]

/-- the C string of an extension extends the C string -/
theorem cstr_append (a b : Bytes) : ∃ r, cstr (a ++ b) = cstr a ++ r := by
  induction a with
  | nil => exact ⟨cstr b, rfl⟩
  | cons x a ih =>
    by_cases hx : (x != 0) = true
    · obtain ⟨r, hr⟩ := ih
      refine ⟨r, ?_⟩
      simp only [cstr, List.cons_append, List.takeWhile, hx] at hr ⊢
      rw [hr]
    · refine ⟨[], ?_⟩
      simp [cstr, List.takeWhile, hx]

/-! ### `strstr` -/

theorem isPrefixOf_append_right (n a r : Bytes) (h : n.isPrefixOf a = true) : n.isPrefixOf (a ++ r) = true := by
  induction n generalizing a with
  | nil => simp
  | cons x n ih =>
    cases a with
    | nil => simp at h
    | cons y a =>
      simp only [List.isPrefixOf, Bool.and_eq_true] at h
      simp only [List.cons_append, List.isPrefixOf, Bool.and_eq_true]
      exact ⟨h.1, ih a h.2⟩

theorem hasSub_append_right (n : Bytes) (hn : n ≠ []) : ∀ (a r : Bytes), hasSub n a = true → hasSub n (a ++ r) = true
  | [], r, h => by
    simp only [hasSub] at h
    cases n with
    | nil => exact absurd rfl hn
    | cons _ _ => simp at h
  | c :: t, r, h => by
    simp only [hasSub, Bool.or_eq_true] at h
    simp only [List.cons_append, hasSub, Bool.or_eq_true]
    rcases h with h | h
    · left
      have := isPrefixOf_append_right n (c :: t) r h
      simpa using this
    · right; exact hasSub_append_right n hn t r h

theorem hasSub_cons_false (n : Bytes) (c : UInt8) (t : Bytes) (h : hasSub n (c :: t) = false) :
    n.isPrefixOf (c :: t) = false ∧ hasSub n t = false := by
  simpa [hasSub] using h

theorem terminators_ne_nil : ∀ t ∈ terminators, t ≠ [] := by decide

theorem hasTerminator_append (a r : Bytes) (h : hasTerminator a = true) : hasTerminator (a ++ r) = true := by
  simp only [hasTerminator, List.any_eq_true] at h ⊢
  obtain ⟨t, ht, hs⟩ := h
  exact ⟨t, ht, hasSub_append_right t (terminators_ne_nil t ht) a r hs⟩

/-! ### first line -/

theorem takeWhile_append_of_stop {α} (q : α → Bool) :
    ∀ (a r : List α), (∃ x ∈ a, q x = false) → (a ++ r).takeWhile q = a.takeWhile q
  | [], _, h => by obtain ⟨x, hx, _⟩ := h; simp at hx
  | y :: a, r, h => by
    by_cases hy : q y = true
    · simp only [List.cons_append, List.takeWhile, hy]
      obtain ⟨x, hx, hq⟩ := h
      rcases List.mem_cons.1 hx with hx | hx
      · subst hx; rw [hy] at hq; cases hq
      · rw [takeWhile_append_of_stop q a r ⟨x, hx, hq⟩]
    · simp [List.takeWhile, hy]

theorem hasSub_head_mem (n : Bytes) (x : UInt8) (hx : n.head? = some x) :
    ∀ s : Bytes, hasSub n s = true → x ∈ s
  | [], h => by
    cases n with
    | nil => simp at hx
    | cons _ _ => simp [hasSub] at h
  | c :: t, h => by
    simp only [hasSub, Bool.or_eq_true] at h
    rcases h with h | h
    · cases n with
      | nil => simp at hx
      | cons y n =>
        simp only [List.head?_cons, Option.some.injEq] at hx
        simp only [List.isPrefixOf, Bool.and_eq_true, beq_iff_eq] at h
        rw [← hx, h.1]; exact List.mem_cons_self
    · exact List.mem_cons_of_mem _ (hasSub_head_mem n x hx t h)

theorem terminators_head_lineEnd : ∀ t ∈ terminators, ∃ x, t.head? = some x ∧ lineEnds.contains x = true := by
  decide

theorem hasTerminator_lineEnd (s : Bytes) (h : hasTerminator s = true) :
    ∃ x ∈ s, (!lineEnds.contains x) = false := by
  simp only [hasTerminator, List.any_eq_true] at h
  obtain ⟨t, ht, hs⟩ := h
  obtain ⟨x, hx, hl⟩ := terminators_head_lineEnd t ht
  exact ⟨x, hasSub_head_mem t x hx s hs, by rw [hl]; rfl⟩

/-- once a blank line is in the buffer, later bytes do not change the first line -/
theorem firstLine_append (a r : Bytes) (h : hasTerminator a = true) : firstLine (a ++ r) = firstLine a :=
  takeWhile_append_of_stop _ a r (hasTerminator_lineEnd a h)

theorem litGet_no_lineEnd : ∀ x ∈ litGet, (!lineEnds.contains x) = true := by decide

theorem litGet_prefix_firstLine (s : Bytes) : litGet.isPrefixOf (firstLine s) = litGet.isPrefixOf s :=
  isPrefixOf_takeWhile _ litGet s litGet_no_lineEnd

/-! ### accumulation -/

theorem readSlack_pos : 1 ≤ readSlack := by decide

theorem write_hi_ok (acc c : Bytes) (hr : ¬ room acc = 0) :
    (acc ++ c.take (room acc)).length + 1 ≤ sizeofBuf := by
  have hs := readSlack_pos
  simp only [room, List.length_append, List.length_take] at hr ⊢
  omega

theorem accumulate_bounds : ∀ (chunks : List Bytes) (acc : Bytes) (e : SockEnd),
    ∀ w ∈ (accumulate acc chunks e).2, w.id = .buf ∧ w.hi ≤ sizeofBuf
  | [], acc, e => by
    intro w hw
    simp only [accumulate] at hw
    split at hw
    · simp at hw
    · split at hw <;> simp at hw
  | c :: cs, acc, e => by
    intro w hw
    simp only [accumulate] at hw
    split at hw
    · simp at hw
    · rename_i hr
      split at hw
      · exact accumulate_bounds cs acc e w hw
      · split at hw
        · simp only [List.mem_singleton] at hw; subst hw; exact ⟨rfl, write_hi_ok acc c hr⟩
        · split at hw
          · simp only [List.mem_singleton] at hw; subst hw; exact ⟨rfl, write_hi_ok acc c hr⟩
          · simp only [List.mem_cons] at hw
            rcases hw with hw | hw
            · subst hw; exact ⟨rfl, write_hi_ok acc c hr⟩
            · exact accumulate_bounds cs _ e w hw

/-- what a completed accumulation guarantees -/
theorem accumulate_complete : ∀ (chunks : List Bytes) (acc : Bytes) (e : SockEnd) (b rest : Bytes),
    (accumulate acc chunks e).1 = .complete b rest →
    hasTerminator (cstr b) = true ∧ b ++ rest = acc ++ chunks.flatten ∧
      b.length + 1 ≤ sizeofBuf ∧ ∃ x, b = acc ++ x
  | [], acc, e, b, rest => by
    intro h
    simp only [accumulate] at h
    split at h
    · simp at h
    · split at h <;> simp at h
  | c :: cs, acc, e, b, rest => by
    intro h
    simp only [accumulate] at h
    split at h
    · simp at h
    · rename_i hr
      split at h
      · rename_i hc
        have hc' : c = [] := by simpa using hc
        have := accumulate_complete cs acc e b rest h
        simpa [hc'] using this
      · split at h
        · rename_i ht
          simp only [AccRes.complete.injEq] at h
          obtain ⟨h1, h2⟩ := h
          subst h1 h2
          refine ⟨ht, ?_, write_hi_ok acc c hr, _, rfl⟩
          simp only [List.append_assoc, List.flatten_cons]
          rw [← List.append_assoc (List.take _ c), List.take_append_drop]
        · split at h
          · simp at h
          · rename_i hlen
            obtain ⟨h1, h2, h3, x, hx⟩ := accumulate_complete cs _ e b rest h
            refine ⟨h1, ?_, h3, c.take (room acc) ++ x, by rw [hx, List.append_assoc]⟩
            have : c.take (room acc) = c := List.take_of_length_le (by omega)
            rw [h2, this]; simp

/-! ### query parameters -/

/-- the "harmless alphabet": what `validateString` lets through, after its '+' → ' ' rewrite -/
def harmless (b : UInt8) : Bool := isAlnum b || alphaExtra.contains b || b.toNat == alphaTo

theorem alphaTo_toNat : (UInt8.ofNat alphaTo).toNat = alphaTo := by decide

theorem harmless_alphaTo : harmless (UInt8.ofNat alphaTo) = true := by decide

theorem dropWhile_head_not {α} (p : α → Bool) : ∀ (l : List α) (y : α) (ys : List α),
    l.dropWhile p = y :: ys → p y = false
  | [], _, _, h => by simp at h
  | a :: t, y, ys, h => by
    simp only [List.dropWhile] at h
    split at h
    · exact dropWhile_head_not p t y ys h
    · rename_i hp
      simp only [List.cons.injEq] at h
      rw [← h.1]; simpa using hp

theorem dropWhile_nil_all {α} (p : α → Bool) : ∀ (l : List α), l.dropWhile p = [] → ∀ x ∈ l, p x = true
  | [], _, x, hx => by simp at hx
  | a :: t, h, x, hx => by
    simp only [List.dropWhile] at h
    split at h
    · rename_i hp
      rcases List.mem_cons.1 hx with hx | hx
      · subst hx; exact hp
      · exact dropWhile_nil_all p t h x hx
    · simp at h

theorem validate_spec : ∀ (s r : Bytes), validate s = some r → r.length = s.length ∧ ∀ b ∈ r, harmless b = true
  | [], r, h => by
    simp only [validate, Option.some.injEq] at h
    subst h; simp
  | b :: t, r, h => by
    simp only [validate] at h
    split at h
    · rename_i hb
      cases hv : validate t with
      | none => simp [hv] at h
      | some r' =>
        simp only [hv, Option.map_some, Option.some.injEq] at h
        subst h
        obtain ⟨h1, h2⟩ := validate_spec t r' hv
        refine ⟨by simp [h1], ?_⟩
        intro x hx
        rcases List.mem_cons.1 hx with hx | hx
        · subst hx
          simp only [harmless, Bool.or_eq_true] at hb ⊢
          rcases hb with hb | hb
          · exact Or.inl (Or.inl hb)
          · exact Or.inl (Or.inr hb)
        · exact h2 x hx
    · split at h
      · cases hv : validate t with
        | none => simp [hv] at h
        | some r' =>
          simp only [hv, Option.map_some, Option.some.injEq] at h
          subst h
          obtain ⟨h1, h2⟩ := validate_spec t r' hv
          refine ⟨by simp [h1], ?_⟩
          intro x hx
          rcases List.mem_cons.1 hx with hx | hx
          · subst hx
            exact harmless_alphaTo
          · exact h2 x hx
      · simp at h

theorem strchr_spec (c : UInt8) (s r : Bytes) (h : strchr c s = some r) :
    r ≠ [] ∧ r.length ≤ s.length ∧ r.head? = some c ∧ s = s.takeWhile (· != c) ++ r := by
  unfold strchr at h
  cases hd : s.dropWhile (· != c) with
  | nil => simp [hd] at h
  | cons y ys =>
    simp only [hd, Option.some.injEq] at h
    subst h
    refine ⟨by simp, ?_, ?_, ?_⟩
    · rw [← hd]; exact length_dropWhile_le _ _
    · have := dropWhile_head_not _ s y ys hd
      simp only [List.head?_cons, Option.some.injEq]
      simpa using this
    · rw [← hd]; exact (List.takeWhile_append_dropWhile).symm

theorem strchr_none (c : UInt8) (s : Bytes) (h : strchr c s = none) : c ∉ s := by
  unfold strchr at h
  cases hd : s.dropWhile (· != c) with
  | nil =>
    intro hc
    have := dropWhile_nil_all _ s hd c hc
    simp at this
  | cons y ys => simp [hd] at h

/-- language of the `params[]` buffer: formatted name/value pairs over the harmless alphabet -/
inductive ParamLang : Bytes → Prop
  | nil : ParamLang []
  | snoc (r n v : Bytes) : ParamLang r → (∀ b ∈ n, harmless b = true) → (∀ b ∈ v, harmless b = true) →
      v ≠ [] → ParamLang (r ++ formatParam n v)

theorem fmt_fits :
    paramFmtA.length + paramFmtB.length + paramFmtC.length + (paramRequestSize - 2) + 1 ≤ paramFormattedSize := by
  decide

theorem paramStep_spec (seg f : Bytes) (ws : List W) (h : paramStep seg = (some f, ws)) :
    ∃ n v, f = formatParam n v ∧ (∀ b ∈ n, harmless b = true) ∧ (∀ b ∈ v, harmless b = true) ∧ v ≠ [] ∧
      n.length + v.length + 1 ≤ seg.length ∧ seg.length < paramRequestSize ∧
      ws = [⟨.paramRequest, seg.length + 1⟩, ⟨.paramFormatted, f.length + 1⟩] := by
  unfold paramStep at h
  split at h
  · simp at h
  · rename_i hlen
    simp only [] at h
    split at h
    · simp at h
    · split at h
      · simp at h
      · rename_i r hr
        split at h
        · simp at h
        · rename_i hv
          split at h
          · rename_i n v hn hvv
            simp only [Prod.mk.injEq, Option.some.injEq] at h
            obtain ⟨hr1, hr2, hr3, _⟩ := strchr_spec _ _ _ hr
            obtain ⟨hn1, hn2⟩ := validate_spec _ _ hn
            obtain ⟨hv1, hv2⟩ := validate_spec _ _ hvv
            refine ⟨n, v, h.1.symm, hn2, hv2, ?_, ?_, by omega, by rw [← h.2, h.1]⟩
            · intro hv0
              rw [hv0] at hv1
              have : (List.drop 1 r) = [] := List.eq_nil_of_length_eq_zero hv1.symm
              simp [this] at hv
            · have hr0 : 0 < r.length := List.length_pos_iff.2 hr1
              simp only [List.length_drop] at hr2
              rw [hn1, hv1]
              simp only [List.length_take, List.length_drop]
              omega
          · simp at h

theorem paramStep_none (seg : Bytes) (ws : List W) (h : paramStep seg = (none, ws)) :
    ws = [] ∨ (ws = [⟨.paramRequest, seg.length + 1⟩] ∧ seg.length < paramRequestSize) := by
  unfold paramStep at h
  split at h
  · simp only [Prod.mk.injEq, true_and] at h; exact Or.inl h.symm
  · rename_i hlen
    simp only [] at h
    have one : ∀ o', (o', [(⟨.paramRequest, seg.length + 1⟩ : W)]) = ((none : Option Bytes), ws) →
        ws = [] ∨ (ws = [⟨.paramRequest, seg.length + 1⟩] ∧ seg.length < paramRequestSize) := by
      intro o' h
      simp only [Prod.mk.injEq] at h
      exact Or.inr ⟨h.2.symm, by omega⟩
    split at h
    · exact one _ h
    · split at h
      · exact one _ h
      · split at h
        · exact one _ h
        · split at h
          · simp at h
          · exact one _ h

theorem formatParam_length (n v : Bytes) :
    (formatParam n v).length = paramFmtA.length + n.length + paramFmtB.length + v.length + paramFmtC.length := by
  simp only [formatParam, List.length_append]

theorem paramStep_bounds (seg : Bytes) : ∀ w ∈ (paramStep seg).2, w.hi ≤ bufSize w.id := by
  intro w hw
  have hfit := fmt_fits
  cases hp : paramStep seg with
  | mk o ws =>
    rw [hp] at hw
    simp only at hw
    cases o with
    | none =>
      rcases paramStep_none seg ws hp with h | ⟨h, hl⟩
      · subst h; simp at hw
      · subst h
        simp only [List.mem_singleton] at hw
        subst hw; simp only [bufSize]; omega
    | some f =>
      obtain ⟨n, v, hf, _, _, _, hlen, hl, hws⟩ := paramStep_spec seg f ws hp
      subst hws
      simp only [List.mem_cons, List.not_mem_nil, or_false] at hw
      rcases hw with hw | hw
      · subst hw; simp only [bufSize]; omega
      · subst hw
        simp only [bufSize, hf, formatParam_length]
        omega

theorem parseSegs_spec : ∀ (segs : List Bytes) (res r : Bytes) (ws : List W),
    parseSegs segs res = (some r, ws) → ParamLang res → res.length + 1 ≤ parseParamsMax →
      ParamLang r ∧ r.length + 1 ≤ parseParamsMax
  | [], res, r, ws, h, hl, hb => by
    simp only [parseSegs, Prod.mk.injEq, Option.some.injEq] at h
    rw [← h.1]; exact ⟨hl, hb⟩
  | seg :: rest, res, r, ws, h, hl, hb => by
    simp only [parseSegs] at h
    split at h
    · simp at h
    · rename_i f ws1 hp
      obtain ⟨n, v, hf, hn, hv, hv0, _, _, _⟩ := paramStep_spec seg f ws1 hp
      split at h
      · simp at h
      · rename_i hfit
        have hl' : ParamLang (res ++ f) := by rw [hf]; exact ParamLang.snoc res n v hl hn hv hv0
        have hb' : (res ++ f).length + 1 ≤ parseParamsMax := by
          simp only [List.length_append]; omega
        split at h
        · simp only [Prod.mk.injEq, Option.some.injEq] at h
          rw [← h.1]; exact ⟨hl', hb'⟩
        · cases hrec : parseSegs rest (res ++ f) with
          | mk r' ws' =>
            simp only [hrec, Prod.mk.injEq] at h
            rw [h.1] at hrec
            exact parseSegs_spec rest (res ++ f) r ws' hrec hl' hb'

theorem parseSegs_bounds : ∀ (segs : List Bytes) (res : Bytes), parseParamsMax ≤ paramsSize →
    ∀ w ∈ (parseSegs segs res).2, w.hi ≤ bufSize w.id
  | [], res, _, w, hw => by simp [parseSegs] at hw
  | seg :: rest, res, hmax, w, hw => by
    have hstep := paramStep_bounds seg
    simp only [parseSegs] at hw
    split at hw
    · rename_i ws1 hp
      rw [hp] at hstep; exact hstep w hw
    · rename_i f ws1 hp
      rw [hp] at hstep
      split at hw
      · exact hstep w hw
      · rename_i hfit
        have hnew : (⟨.params, (res ++ f).length + 1⟩ : W).hi ≤ bufSize .params := by
          simp only [bufSize, List.length_append]; omega
        split at hw
        · simp only [List.mem_append, List.mem_singleton] at hw
          rcases hw with hw | hw
          · exact hstep w hw
          · subst hw; exact hnew
        · simp only [List.mem_append, List.mem_cons] at hw
          rcases hw with hw | hw | hw
          · exact hstep w hw
          · subst hw; exact hnew
          · exact parseSegs_bounds rest (res ++ f) hmax w hw

theorem parseParamsMax_le : parseParamsMax ≤ paramsSize := by decide
theorem parseParamsMax_pos : 0 + 1 ≤ parseParamsMax := by decide

theorem parseParams_spec (q r : Bytes) (ws : List W) (h : parseParams q = (some r, ws)) :
    ParamLang r ∧ r.length + 1 ≤ paramsSize := by
  unfold parseParams at h
  cases hs : parseSegs (splitAmp q) [] with
  | mk r' ws' =>
    simp only [hs, Prod.mk.injEq] at h
    rw [h.1] at hs
    have := parseSegs_spec _ _ _ _ hs ParamLang.nil parseParamsMax_pos
    exact ⟨this.1, Nat.le_trans this.2 parseParamsMax_le⟩

theorem paramsSize_pos : 1 ≤ paramsSize := by decide

theorem parseParams_bounds (q : Bytes) : ∀ w ∈ (parseParams q).2, w.hi ≤ bufSize w.id := by
  intro w hw
  unfold parseParams at hw
  simp only [List.mem_cons] at hw
  rcases hw with hw | hw
  · subst hw; exact paramsSize_pos
  · exact parseSegs_bounds _ _ parseParamsMax_le w hw

/-! ### the GET branch -/

theorem queryParams_spec (tok : Bytes) :
    ((queryParams tok).1 = [] ∨ ParamLang (queryParams tok).1) ∧ (queryParams tok).1.length + 1 ≤ paramsSize := by
  have hp := paramsSize_pos
  unfold queryParams
  split
  · exact ⟨Or.inl rfl, by simpa using hp⟩
  · rename_i q hq
    cases hpp : parseParams (q.drop 1) with
    | mk r ws =>
      cases r with
      | none => exact ⟨Or.inl rfl, by simpa using hp⟩
      | some r =>
        obtain ⟨h1, h2⟩ := parseParams_spec _ r ws hpp
        exact ⟨Or.inr h1, h2⟩

theorem queryParams_bounds (tok : Bytes) : ∀ w ∈ (queryParams tok).2, w.hi ≤ bufSize w.id := by
  have hp := paramsSize_pos
  intro w hw
  unfold queryParams at hw
  split at hw
  · simp only [List.mem_singleton] at hw; subst hw; exact hp
  · simp only [List.mem_cons, List.mem_append, List.not_mem_nil, or_false] at hw
    rcases hw with (hw | hw) | hw
    · subst hw; exact hp
    · exact parseParams_bounds _ w hw
    · subst hw; exact hp

theorem scanGet_spec (line tok : Bytes) (h : scanGet line = some tok) :
    tok ≠ [] ∧ tok.length + 3 ≤ line.length ∧ (∀ x ∈ tok, x ∈ line) ∧ (∀ x ∈ tok, isSpace x = false) := by
  unfold scanGet at h
  simp only [] at h
  split at h
  · simp at h
  · rename_i hne
    simp only [Option.some.injEq] at h
    subst h
    refine ⟨by simpa using hne, ?_, ?_, ?_⟩
    · have h1 := length_takeWhile_le (fun b => !isSpace b) ((line.drop 3).dropWhile isSpace)
      have h2 := length_dropWhile_le isSpace (line.drop 3)
      have h3 : 0 < (List.takeWhile (fun b => !isSpace b) ((line.drop 3).dropWhile isSpace)).length := by
        apply List.length_pos_iff.2; simpa using hne
      simp only [List.length_drop] at h2
      omega
    · intro x hx
      exact List.mem_of_mem_drop (mem_dropWhile _ _ x (mem_takeWhile _ _ x hx))
    · intro x hx
      have := takeWhile_all _ _ x hx
      simpa using this

theorem firstLine_length_le (s : Bytes) : (firstLine s).length ≤ s.length := length_takeWhile_le _ _

theorem litIndex_facts : litIndex.head? = some 47 ∧ hasSub litDotDot litIndex = false ∧ (∀ x ∈ litIndex, x ≠ 0) ∧
    dirMax + litIndex.length + 1 ≤ fullFnameSize ∧ litRoot = [47] := by decide

theorem fname_fits : fnameMaxBase + 1 ≤ fullFnameSize ∧ dirMax ≤ fnameMaxBase ∧ dirMax + 1 ≤ fullFnameSize := by decide

/-- the served name: starts with '/', no "..", no NUL, fits `fullFname` -/
structure GoodName (cfg : Cfg) (f : Bytes) : Prop where
  head : f.head? = some 47
  nodd : hasSub litDotDot f = false
  nonul : ∀ x ∈ f, x ≠ 0
  fits : cfg.dir.length + f.length + 1 ≤ fullFnameSize

theorem getBranch_serve (cfg : Cfg) (s path params : Bytes) (subst : Bool) (hs : ∀ x ∈ s, x ≠ 0)
    (hd : cfg.dir.length ≤ dirMax) (h : (getBranch cfg s).1 = .serve path params subst) :
    ∃ tok f, litGet.isPrefixOf s = true ∧ (firstLine s).length ≤ maxFnameLen cfg ∧
      scanGet (firstLine s) = some tok ∧ tok.head? = some 47 ∧
      hasSub litDotDot (tok.takeWhile (· != 63)) = false ∧
      f = (indexRule cfg (tok.takeWhile (· != 63))).1 ∧ path = cfg.dir ++ f ∧ GoodName cfg f ∧
      subst = endsWith litSubstExt f ∧ params = (queryParams tok).1 := by
  obtain ⟨li1, li2, li3, li4, li5⟩ := litIndex_facts
  obtain ⟨ff1, ff2, ff3⟩ := fname_fits
  unfold getBranch at h
  split at h
  · simp at h
  · rename_i hget
    simp only [] at h
    split at h
    · simp at h
    · rename_i hlen
      split at h
      · simp at h
      · rename_i tok htok
        split at h
        · simp at h
        · rename_i hhead
          split at h
          · simp at h
          · rename_i hdd
            simp only [Outcome.serve.injEq] at h
            obtain ⟨hp, hpar, hsub⟩ := h
            obtain ⟨t1, t2, t3, t4⟩ := scanGet_spec _ _ htok
            have hhead' : tok.head? = some 47 := by simpa using hhead
            refine ⟨tok, _, by simpa using hget, by omega, htok, hhead', by simpa using hdd, rfl, hp.symm, ?_,
              hsub.symm, hpar.symm⟩
            unfold indexRule
            split
            · refine ⟨li1, li2, li3, ?_⟩
              simp only []; omega
            · refine ⟨?_, by simpa using hdd, ?_, ?_⟩
              · cases tok with
                | nil => simp at hhead'
                | cons a t =>
                  simp only [List.head?_cons, Option.some.injEq] at hhead'
                  subst hhead'
                  simp [List.takeWhile]
              · intro x hx
                have h1 := t3 x (mem_takeWhile _ _ x hx)
                exact hs x (mem_takeWhile _ _ x h1)
              · have h1 := length_takeWhile_le (· != 63) tok
                simp only [maxFnameLen] at hlen
                simp only []
                omega

theorem indexRule_bounds (cfg : Cfg) (f : Bytes) (hd : cfg.dir.length ≤ dirMax) :
    ∀ w ∈ (indexRule cfg f).2, w.hi ≤ bufSize w.id := by
  obtain ⟨_, _, _, li4, _⟩ := litIndex_facts
  intro w hw
  unfold indexRule at hw
  split at hw
  · simp only [List.mem_singleton] at hw; subst hw; simp only [bufSize]; omega
  · simp at hw

theorem getBranch_bounds (cfg : Cfg) (s : Bytes) (hd : cfg.dir.length ≤ dirMax) (hsl : s.length + 1 ≤ sizeofBuf) :
    ∀ w ∈ (getBranch cfg s).2, w.hi ≤ bufSize w.id := by
  obtain ⟨ff1, ff2, ff3⟩ := fname_fits
  intro w hw
  have hl := firstLine_length_le s
  have h0 : (⟨.buf, (firstLine s).length + 1⟩ : W).hi ≤ bufSize .buf := by simp only [bufSize]; omega
  unfold getBranch at hw
  split at hw
  · simp at hw
  · simp only [] at hw
    split at hw
    · simp only [List.mem_singleton] at hw; subst hw; exact h0
    · rename_i hlen
      split at hw
      · simp only [List.mem_singleton] at hw; subst hw; exact h0
      · rename_i tok htok
        obtain ⟨t1, t2, t3, t4⟩ := scanGet_spec _ _ htok
        have h1 : (⟨.fullFname, cfg.dir.length + tok.length + 1⟩ : W).hi ≤ bufSize .fullFname := by
          simp only [bufSize, maxFnameLen] at hlen ⊢; omega
        split at hw
        · simp only [List.mem_cons, List.not_mem_nil, or_false] at hw
          rcases hw with hw | hw <;> subst hw
          · exact h0
          · exact h1
        · split at hw
          · simp only [List.mem_append, List.mem_cons, List.not_mem_nil, or_false] at hw
            rcases hw with (hw | hw) | hw
            · subst hw; exact h0
            · subst hw; exact h1
            · exact queryParams_bounds tok w hw
          · simp only [List.mem_append, List.mem_cons, List.not_mem_nil, or_false] at hw
            rcases hw with ((hw | hw) | hw) | hw
            · subst hw; exact h0
            · subst hw; exact h1
            · exact queryParams_bounds tok w hw
            · exact indexRule_bounds cfg _ hd w hw

/-- the GET branch looks at nothing but the first line -/
theorem getBranch_firstLine (cfg : Cfg) (s s' : Bytes) (h : firstLine s = firstLine s') :
    (getBranch cfg s).1 = (getBranch cfg s').1 := by
  have h1 := litGet_prefix_firstLine s
  have h2 := litGet_prefix_firstLine s'
  rw [h] at h1
  unfold getBranch
  rw [← h1, h2, h]

/-! ### the proxy branch and the whole decision -/

theorem proxyBranch_cases (fixed : Bool) (cfg : Cfg) (s : Bytes) (o : Outcome)
    (h : proxyBranch fixed cfg s = some o) :
    o = .error 400 ∨ o = .proxyOk ∨ (fixed = false ∧ o = .crash) := by
  unfold proxyBranch at h
  split at h
  · split at h
    · cases fixed <;> simp at h <;> simp [← h]
    · split at h <;> simp at h <;> simp [← h]
  · split at h
    · split at h
      · cases fixed <;> simp at h; simp [← h]
      · split at h <;> simp at h; simp [← h]
    · simp at h

theorem proxyBranch_fixed_no_crash (cfg : Cfg) (s : Bytes) : proxyBranch true cfg s ≠ some .crash := by
  intro h
  rcases proxyBranch_cases true cfg s _ h with h | h | h <;> simp at h

/-! ### segmentation: merging two adjacent pieces does not change what the call decides on -/

theorem acc_nil (acc : Bytes) (e : SockEnd) :
    (accumulate acc [] e).1 = if room acc = 0 then .closed .bufferFull else
      match e with
      | .eagain => .pending
      | .eof => .closed .eof := by
  simp only [accumulate]
  split
  · rfl
  · cases e <;> rfl

theorem acc_cons (acc c : Bytes) (cs : List Bytes) (e : SockEnd) :
    (accumulate acc (c :: cs) e).1 =
      if room acc = 0 then .closed .bufferFull
      else if c.isEmpty then (accumulate acc cs e).1
      else if hasTerminator (cstr (acc ++ c.take (room acc))) then
        .complete (acc ++ c.take (room acc)) (c.drop (room acc) ++ cs.flatten)
      else if c.length > room acc then .closed .bufferFull
      else (accumulate (acc ++ c.take (room acc)) cs e).1 := by
  simp only [accumulate]
  split
  · rfl
  · split
    · rfl
    · split
      · rfl
      · split <;> rfl

theorem acc_full (acc : Bytes) (h : room acc = 0) : ∀ (cs : List Bytes) (e : SockEnd),
    (accumulate acc cs e).1 = .closed .bufferFull
  | [], e => by rw [acc_nil]; simp [h]
  | c :: cs, e => by rw [acc_cons]; simp [h]

/-- same decision basis: both pending, both closed for the same reason, or both complete with the
same first line (the longer buffer only adds bytes after a blank line) -/
def AccEquiv : AccRes → AccRes → Prop
  | .complete b _, .complete b' _ =>
    hasTerminator (cstr b) = true ∧ hasTerminator (cstr b') = true ∧ (∃ x, b' = b ++ x) ∧
      firstLine (cstr b) = firstLine (cstr b')
  | .pending, .pending => True
  | .closed w, .closed w' => w = w'
  | _, _ => False

theorem AccEquiv.refl_acc (acc : Bytes) (cs : List Bytes) (e : SockEnd) :
    AccEquiv (accumulate acc cs e).1 (accumulate acc cs e).1 := by
  cases h : (accumulate acc cs e).1 with
  | complete b rest =>
    have := (accumulate_complete cs acc e b rest h).1
    exact ⟨this, this, ⟨[], by simp⟩, rfl⟩
  | pending => trivial
  | closed w => rfl

theorem AccEquiv.trans {a b c : AccRes} (h1 : AccEquiv a b) (h2 : AccEquiv b c) : AccEquiv a c := by
  cases a <;> cases b <;> cases c <;> simp only [AccEquiv] at h1 h2 ⊢ <;> try contradiction
  · obtain ⟨t1, t2, ⟨x, hx⟩, f1⟩ := h1
    obtain ⟨_, t3, ⟨y, hy⟩, f2⟩ := h2
    exact ⟨t1, t3, ⟨x ++ y, by rw [hy, hx, List.append_assoc]⟩, f1.trans f2⟩
  · exact h1.trans h2

theorem complete_prefix_equiv (b x r r' : Bytes) (h : hasTerminator (cstr b) = true) :
    AccEquiv (.complete b r) (.complete (b ++ x) r') := by
  obtain ⟨y, hy⟩ := cstr_append b x
  refine ⟨h, ?_, ⟨x, rfl⟩, ?_⟩
  · rw [hy]; exact hasTerminator_append _ _ h
  · rw [hy, firstLine_append _ _ h]

theorem room_append (acc c : Bytes) : room (acc ++ c) = room acc - c.length := by
  simp only [room, List.length_append]; omega

theorem accumulate_merge (acc c1 c2 : Bytes) (cs : List Bytes) (e : SockEnd) :
    AccEquiv (accumulate acc (c1 :: c2 :: cs) e).1 (accumulate acc ((c1 ++ c2) :: cs) e).1 := by
  by_cases hr : room acc = 0
  · rw [acc_full acc hr, acc_full acc hr]; rfl
  by_cases h1 : c1 = []
  · subst h1
    rw [acc_cons acc []]
    simp only [hr, ↓reduceIte, List.isEmpty_nil, List.nil_append]
    exact AccEquiv.refl_acc _ _ _
  rw [acc_cons acc c1, acc_cons acc (c1 ++ c2)]
  have h1' : c1.isEmpty = false := by simpa using h1
  have h12 : (c1 ++ c2).isEmpty = false := by simp [h1]
  simp only [hr, ↓reduceIte, h1', h12, Bool.false_eq_true]
  by_cases hlen : c1.length > room acc
  · -- the first piece alone fills the buffer
    have htake : (c1 ++ c2).take (room acc) = c1.take (room acc) := by
      rw [List.take_append_of_le_length (by omega)]
    rw [htake]
    by_cases ht : hasTerminator (cstr (acc ++ c1.take (room acc))) = true
    · simp only [ht, ↓reduceIte]
      exact ⟨ht, ht, ⟨[], by simp⟩, rfl⟩
    · have hlen2 : (c1 ++ c2).length > room acc := by simp only [List.length_append]; omega
      simp only [ht, hlen, hlen2, ↓reduceIte, Bool.false_eq_true]
      rfl
  · have hc1 : c1.take (room acc) = c1 := List.take_of_length_le (by omega)
    have htake : (c1 ++ c2).take (room acc) = c1 ++ c2.take (room acc - c1.length) := by
      rw [List.take_append]; rw [hc1]
    rw [hc1, htake]
    by_cases ht : hasTerminator (cstr (acc ++ c1)) = true
    · -- blank line already in the first piece: the merged read only adds bytes after it
      have ht2 : hasTerminator (cstr (acc ++ (c1 ++ c2.take (room acc - c1.length)))) = true := by
        rw [← List.append_assoc]
        obtain ⟨y, hy⟩ := cstr_append (acc ++ c1) (c2.take (room acc - c1.length))
        rw [hy]; exact hasTerminator_append _ _ ht
      simp only [ht, ht2, ↓reduceIte]
      have := complete_prefix_equiv (acc ++ c1) (c2.take (room acc - c1.length))
        (c1.drop (room acc) ++ (c2 :: cs).flatten)
        ((c1 ++ c2).drop (room acc) ++ cs.flatten) ht
      rw [List.append_assoc] at this
      exact this
    · simp only [ht, hlen, ↓reduceIte, Bool.false_eq_true]
      -- second read of the unmerged run
      rw [acc_cons (acc ++ c1) c2, room_append]
      by_cases hr' : room acc - c1.length = 0
      · simp only [hr', ↓reduceIte, List.take_zero, List.append_nil]
        simp only [ht, ↓reduceIte, Bool.false_eq_true]
        by_cases h2 : c2 = []
        · subst h2
          have : ¬ (c1 ++ []).length > room acc := by simpa using hlen
          simp only [this, ↓reduceIte]
          rw [acc_full (acc ++ c1) (by rw [room_append]; exact hr')]
          rfl
        · have : (c1 ++ c2).length > room acc := by
            have : 0 < c2.length := List.length_pos_iff.2 h2
            simp only [List.length_append]; omega
          simp only [this, ↓reduceIte]; rfl
      · simp only [hr', ↓reduceIte]
        by_cases h2 : c2 = []
        · subst h2
          simp only [List.isEmpty_nil, ↓reduceIte, List.take_nil, List.append_nil, ht, Bool.false_eq_true]
          have : ¬ c1.length > room acc := hlen
          simp only [this, ↓reduceIte]
          exact AccEquiv.refl_acc _ _ _
        · have h2' : c2.isEmpty = false := by simpa using h2
          simp only [h2', Bool.false_eq_true, ↓reduceIte, ← List.append_assoc]
          by_cases ht3 : hasTerminator (cstr (acc ++ c1 ++ c2.take (room acc - c1.length))) = true
          · simp only [ht3, ↓reduceIte]
            exact ⟨ht3, ht3, ⟨[], by simp⟩, rfl⟩
          · simp only [ht3, ↓reduceIte, Bool.false_eq_true]
            have hiff : (c2.length > room acc - c1.length) ↔ ((c1 ++ c2).length > room acc) := by
              simp only [List.length_append]; omega
            by_cases hl2 : c2.length > room acc - c1.length
            · have := hiff.1 hl2
              simp only [hl2, this, ↓reduceIte]; rfl
            · have : ¬ (c1 ++ c2).length > room acc := fun h => hl2 (hiff.2 h)
              simp only [hl2, this, ↓reduceIte]
              exact AccEquiv.refl_acc _ _ _

/-- any segmentation of the same bytes is equivalent to handing them over in one piece -/
theorem accumulate_flatten : ∀ (chunks : List Bytes) (acc : Bytes) (e : SockEnd),
    AccEquiv (accumulate acc chunks e).1 (accumulate acc [chunks.flatten] e).1
  | [], acc, e => by
    have : (accumulate acc [[]] e).1 = (accumulate acc [] e).1 := by
      rw [acc_cons, acc_nil]
      by_cases hr : room acc = 0 <;> simp [hr]
    simp only [List.flatten_nil]
    rw [this]
    exact AccEquiv.refl_acc _ _ _
  | [c], acc, e => by
    simp only [List.flatten_cons, List.flatten_nil, List.append_nil]
    exact AccEquiv.refl_acc _ _ _
  | c1 :: c2 :: cs, acc, e => by
    have h1 := accumulate_merge acc c1 c2 cs e
    have h2 := accumulate_flatten ((c1 ++ c2) :: cs) acc e
    have : ((c1 ++ c2) :: cs).flatten = (c1 :: c2 :: cs).flatten := by simp
    rw [this] at h2
    exact h1.trans h2
termination_by chunks => chunks.length

/-! ### lexical confinement -/

theorem splitSlash_ne_nil : ∀ f : Bytes, splitSlash f ≠ []
  | [] => by simp [splitSlash]
  | b :: t => by
    simp only [splitSlash]
    split
    · simp
    · split <;> simp

/-- the first component is a prefix of the path, followed by nothing or by a '/' -/
theorem splitSlash_head : ∀ (f s : Bytes) (ss : List Bytes), splitSlash f = s :: ss →
    ∃ r, f = s ++ r ∧ (r = [] ∨ r.head? = some 47)
  | [], s, ss, h => by
    simp only [splitSlash, List.cons.injEq] at h
    exact ⟨[], by simp [← h.1], Or.inl rfl⟩
  | b :: t, s, ss, h => by
    simp only [splitSlash] at h
    split at h
    · rename_i hb
      simp only [List.cons.injEq] at h
      exact ⟨b :: t, by simp [← h.1], Or.inr (by simp [hb])⟩
    · split at h
      · rename_i hn; exact absurd hn (splitSlash_ne_nil t)
      · rename_i s' ss' hs'
        simp only [List.cons.injEq] at h
        obtain ⟨r, hr, hr2⟩ := splitSlash_head t s' ss' hs'
        exact ⟨r, by rw [← h.1, hr]; simp, hr2⟩

theorem isPrefixOf_dotdot (r : Bytes) : ([46, 46] : Bytes).isPrefixOf (46 :: 46 :: r) = true := by
  simp [List.isPrefixOf]

/-- a name without the substring ".." has no ".." component -/
theorem no_dotdot_component : ∀ (f : Bytes), hasSub [46, 46] f = false → ∀ c ∈ splitSlash f, c ≠ [46, 46]
  | [], _, c, hc => by
    simp only [splitSlash, List.mem_singleton] at hc
    subst hc; simp
  | b :: t, h, c, hc => by
    obtain ⟨hp, ht⟩ := hasSub_cons_false _ _ _ h
    simp only [splitSlash] at hc
    split at hc
    · rcases List.mem_cons.1 hc with hc | hc
      · subst hc; simp
      · exact no_dotdot_component t ht c hc
    · split at hc
      · rename_i hn; exact absurd hn (splitSlash_ne_nil t)
      · rename_i s ss hs
        rcases List.mem_cons.1 hc with hc | hc
        · subst hc
          intro heq
          simp only [List.cons.injEq] at heq
          obtain ⟨r, hr, _⟩ := splitSlash_head t s ss hs
          rw [heq.1, hr, heq.2] at hp
          simp [List.isPrefixOf] at hp
        · exact no_dotdot_component t ht c (by rw [hs]; exact List.mem_cons_of_mem _ hc)

/-- without ".." components the walk never goes up: it succeeds and keeps every directory it
started below (the starting stack is a suffix of the final one) -/
theorem resolve_no_dotdot : ∀ (cs st : List Bytes), (∀ c ∈ cs, c ≠ [46, 46]) →
    ∃ st', resolve st cs = some st' ∧ ∃ pre, st' = pre ++ st
  | [], st, _ => ⟨st, rfl, [], rfl⟩
  | c :: cs, st, h => by
    have hc := h c List.mem_cons_self
    have hcs : ∀ c ∈ cs, c ≠ [46, 46] := fun x hx => h x (List.mem_cons_of_mem _ hx)
    simp only [resolve]
    split
    · exact resolve_no_dotdot cs st hcs
    · obtain ⟨st', h1, pre, h2⟩ := resolve_no_dotdot cs (c :: st) hcs
      exact ⟨st', h1, pre ++ [c], by rw [h2]; simp⟩

/-! ### decimal numbers, `str[]` -/

theorem decNat_length : ∀ (k n : Nat), n < 10 ^ (k + 1) → (decNat n).length ≤ k + 1
  | 0, n, h => by
    unfold decNat
    have : n < 10 := by simpa using h
    simp [this]
  | k + 1, n, h => by
    unfold decNat
    split
    · simp
    · have : n / 10 < 10 ^ (k + 1) := by
        have : 10 ^ (k + 1 + 1) = 10 * 10 ^ (k + 1) := by rw [Nat.pow_succ, Nat.mul_comm]
        omega
      have := decNat_length k (n / 10) this
      simp only [List.length_append, List.length_singleton]
      omega

theorem decimal_length (x : Int) (h : x.natAbs < 10 ^ 10) : (decimal x).length ≤ 11 := by
  have := decNat_length 9 x.natAbs h
  unfold decimal
  split
  · simp only [List.length_cons]; omega
  · omega

/-! ### substitution -/

theorem substGo_id (vals : List Bytes) : ∀ (s : Bytes), (36 : UInt8) ∉ s → substGo vals 0 s = s
  | [], _ => rfl
  | c :: t, h => by
    have hc : c ≠ 36 := fun hc => h (hc ▸ List.mem_cons_self)
    simp only [substGo, hc, ↓reduceIte]
    rw [substGo_id vals t (fun ht => h (List.mem_cons_of_mem _ ht))]

theorem cstr_append_drop : ∀ (b : Bytes), cstr b ++ b.drop (cstr b).length = b
  | [] => rfl
  | x :: t => by
    by_cases hx : (x != 0) = true
    · have := cstr_append_drop t
      simp only [cstr, List.takeWhile, hx, List.length_cons, List.drop_succ_cons, List.cons_append] at this ⊢
      rw [this]
    · simp [cstr, List.takeWhile, hx]

theorem substChunk_id (vals : List Bytes) (chunk : Bytes) (h : (36 : UInt8) ∉ chunk) : substChunk vals chunk = chunk := by
  have h' : (36 : UInt8) ∉ cstr chunk := fun hc => h (mem_takeWhile _ _ _ hc)
  unfold substChunk
  rw [substGo_id vals (cstr chunk) h']
  exact cstr_append_drop chunk

theorem chunksOf_length (n : Nat) : ∀ (fuel : Nat) (b : Bytes), ∀ c ∈ chunksOf n fuel b, c.length ≤ n
  | 0, _, c, hc => by simp [chunksOf] at hc
  | fuel + 1, b, c, hc => by
    simp only [chunksOf] at hc
    split at hc
    · simp at hc
    · rcases List.mem_cons.1 hc with hc | hc
      · subst hc; simp [List.length_take]; omega
      · exact chunksOf_length n fuel _ c hc

theorem chunksOf_flatten (n : Nat) (hn : 0 < n) : ∀ (fuel : Nat) (b : Bytes), b.length ≤ fuel →
    (chunksOf n fuel b).flatten = b
  | 0, b, h => by
    have : b = [] := List.eq_nil_of_length_eq_zero (by omega)
    simp [chunksOf, this]
  | fuel + 1, b, h => by
    simp only [chunksOf]
    split
    · rename_i hb; simp at hb; simp [hb]
    · rename_i hb
      have hpos : 0 < b.length := by
        apply List.length_pos_iff.2; simpa using hb
      simp only [List.flatten_cons]
      rw [chunksOf_flatten n hn fuel (b.drop n) (by simp only [List.length_drop]; omega)]
      exact List.take_append_drop n b

/-! ### the whole call -/

theorem processCallW_fst (fixed : Bool) (cfg : Cfg) (chunks : List Bytes) (e : SockEnd) :
    (processCallW fixed cfg chunks e).1 =
      if cfg.dir.length > dirMax then .close .dirTooLong
      else match (accumulate [] chunks e).1 with
        | .pending => .pending
        | .closed why => .close why
        | .complete b _ => (decideW fixed cfg b).1 := by
  unfold processCallW
  split
  · rfl
  · cases ha : accumulate [] chunks e with
    | mk r ws => cases r <;> rfl

theorem processCallW_writes (fixed : Bool) (cfg : Cfg) (chunks : List Bytes) (e : SockEnd) (w : W)
    (hw : w ∈ (processCallW fixed cfg chunks e).2.2) :
    cfg.dir.length ≤ dirMax ∧
      (w = ⟨.fullFname, cfg.dir.length + 1⟩ ∨ w ∈ (accumulate [] chunks e).2 ∨
        ∃ b rest, (accumulate [] chunks e).1 = .complete b rest ∧ w ∈ (decideW fixed cfg b).2) := by
  unfold processCallW at hw
  split at hw
  · simp at hw
  · rename_i hd
    refine ⟨by omega, ?_⟩
    cases ha : accumulate [] chunks e with
    | mk r ws =>
      rw [ha] at hw
      cases r with
      | pending =>
        simp only [List.mem_cons] at hw
        rcases hw with hw | hw
        · exact Or.inl hw
        · exact Or.inr (Or.inl hw)
      | closed why =>
        simp only [List.mem_cons] at hw
        rcases hw with hw | hw
        · exact Or.inl hw
        · exact Or.inr (Or.inl hw)
      | complete b rest =>
        change w ∈ _ :: (ws ++ (decideW fixed cfg b).2) at hw
        simp only [List.mem_cons, List.mem_append] at hw
        rcases hw with hw | hw | hw
        · exact Or.inl hw
        · exact Or.inr (Or.inl hw)
        · exact Or.inr (Or.inr ⟨b, rest, rfl, hw⟩)

theorem decideW_fst (fixed : Bool) (cfg : Cfg) (b : Bytes) :
    (decideW fixed cfg b).1 =
      match (if cfg.proxy then proxyBranch fixed cfg (cstr b) else none) with
      | some o => o
      | none => (getBranch cfg (cstr b)).1 := by
  unfold decideW
  simp only []
  split <;> simp_all

theorem decideW_snd (fixed : Bool) (cfg : Cfg) (b : Bytes) (w : W) (hw : w ∈ (decideW fixed cfg b).2) :
    w ∈ (getBranch cfg (cstr b)).2 := by
  unfold decideW at hw
  simp only [] at hw
  split at hw
  · simp at hw
  · exact hw

theorem decideW_noproxy (fixed : Bool) (cfg : Cfg) (b : Bytes) (hp : cfg.proxy = false) :
    (decideW fixed cfg b).1 = (getBranch cfg (cstr b)).1 := by
  rw [decideW_fst]; simp [hp]
/-! ### the harmless alphabet, as a table over all byte values -/

def harmlessOk (n : Nat) : Bool :=
  !harmless (UInt8.ofNat n) ||
    (decide (32 ≤ n) && decide (n < 127) && n != 34 && n != 39 && n != 60 && n != 62 && n != 38 && n != 92 && n != 96)

set_option maxRecDepth 8000 in
theorem harmless_table_all : (List.range 256).all harmlessOk = true := by decide

theorem harmless_table (n : Nat) (hn : n < 256) (h : harmless (UInt8.ofNat n) = true) :
    (32 ≤ n ∧ n < 127 ∧ n ≠ 34 ∧ n ≠ 39 ∧ n ≠ 60 ∧ n ≠ 62 ∧ n ≠ 38 ∧ n ≠ 92 ∧ n ≠ 96) := by
  have := List.all_eq_true.1 harmless_table_all n (List.mem_range.2 hn)
  simp only [harmlessOk, h, Bool.not_true, Bool.false_or, Bool.and_eq_true, bne_iff_ne, ne_eq,
    decide_eq_true_eq] at this
  obtain ⟨⟨⟨⟨⟨⟨⟨⟨h1, h2⟩, h3⟩, h4⟩, h5⟩, h6⟩, h7⟩, h8⟩, h9⟩ := this
  exact ⟨h1, h2, h3, h4, h5, h6, h7, h8, h9⟩

theorem litDotDot_eq : litDotDot = [46, 46] := by decide

theorem getBranch_no_crash_no_pending (cfg : Cfg) (s : Bytes) :
    (getBranch cfg s).1 ≠ .crash ∧ (getBranch cfg s).1 ≠ .pending ∧ (getBranch cfg s).1 ≠ .proxyOk ∧
      ∀ code, (getBranch cfg s).1 = .error code → code = 404 := by
  unfold getBranch
  simp only []
  repeat' split
  all_goals simp

/-! ### round 2: over-long requests, split requests, substitution across `fread` chunks -/

theorem room_nil : room [] = sizeofBuf - readSlack := by simp [room]
theorem room_nil_pos : room [] ≠ 0 := by decide

theorem AccEquiv_closed_right {x : AccRes} {w : CloseWhy} (h : AccEquiv x (.closed w)) : x = .closed w := by
  cases x <;> simp only [AccEquiv] at h
  rw [h]

theorem AccEquiv_pending_right {x : AccRes} (h : AccEquiv x .pending) : x = .pending := by
  cases x <;> simp only [AccEquiv] at h
  rfl

/-- one piece that fills the window without a blank line: closed as "buffer full" -/
theorem single_overlong (b : Bytes) (e : SockEnd) (hlen : b.length ≥ room [])
    (hnt : hasTerminator (cstr (b.take (room []))) = false) :
    (accumulate [] [b] e).1 = .closed .bufferFull := by
  have hr := room_nil_pos
  have hb : b.isEmpty = false := by
    cases b with
    | nil => simp at hlen; exact absurd hlen hr
    | cons _ _ => rfl
  rw [acc_cons]
  simp only [hr, ↓reduceIte, hb, Bool.false_eq_true, List.nil_append, hnt]
  by_cases hgt : b.length > room []
  · simp [hgt]
  · simp only [hgt, ↓reduceIte]
    apply acc_full
    have : (b.take (room [])).length = room [] := by rw [List.length_take]; omega
    simp only [room]
    simp only [room, List.length_nil] at *
    omega

/-- one piece without a blank line that does not fill the window, peer still there: nothing happens -/
theorem single_pending (b : Bytes) (hne : b ≠ []) (hlen : b.length < room [])
    (hnt : hasTerminator (cstr b) = false) : (accumulate [] [b] .eagain).1 = .pending := by
  have hr := room_nil_pos
  have hb : b.isEmpty = false := by simpa using hne
  have ht : b.take (room []) = b := List.take_of_length_le (by omega)
  rw [acc_cons]
  simp only [hr, ↓reduceIte, hb, Bool.false_eq_true, List.nil_append, ht, hnt]
  have : ¬ b.length > room [] := by omega
  simp only [this, ↓reduceIte]
  rw [acc_nil]
  have : room b ≠ 0 := by
    simp only [room, List.length_nil] at hlen ⊢; omega
  simp [this]

/-! substitution -/

theorem take_append_length {α} : ∀ (l s : List α) (j : Nat), (l ++ s).take (l.length + j) = l ++ s.take j
  | [], s, j => by simp
  | a :: l, s, j => by
    have : (a :: l).length + j = (l.length + j) + 1 := by simp only [List.length_cons]; omega
    rw [this]
    simp only [List.cons_append, List.take_succ_cons]
    rw [take_append_length l s j]

theorem drop_append_length {α} : ∀ (l s : List α) (j : Nat), (l ++ s).drop (l.length + j) = s.drop j
  | [], s, j => by simp
  | a :: l, s, j => by
    have : (a :: l).length + j = (l.length + j) + 1 := by simp only [List.length_cons]; omega
    rw [this]
    simp only [List.cons_append, List.drop_succ_cons]
    exact drop_append_length l s j

theorem substGo_plain_prefix (vals : List Bytes) : ∀ (p t : Bytes), (36 : UInt8) ∉ p →
    substGo vals 0 (p ++ t) = p ++ substGo vals 0 t
  | [], t, _ => rfl
  | c :: p, t, h => by
    have hc : c ≠ 36 := fun hc => h (hc ▸ List.mem_cons_self)
    simp only [List.cons_append, substGo, hc, ↓reduceIte]
    rw [substGo_plain_prefix vals p t (fun hp => h (List.mem_cons_of_mem _ hp))]

theorem cstr_of_no_nul (b : Bytes) (h : ∀ x ∈ b, x ≠ 0) : cstr b = b := by
  have := cstr_append_of_no_nul b [] h
  simpa [cstr] using this

theorem substChunk_no_nul (vals : List Bytes) (b : Bytes) (h : ∀ x ∈ b, x ≠ 0) :
    substChunk vals b = substGo vals 0 b := by
  unfold substChunk
  rw [cstr_of_no_nul b h]
  simp

end VncModel.Httpd
