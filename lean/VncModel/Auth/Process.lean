import VncModel.Auth.Lemmas
/-
Process level: the invariant over all interleaved traces, frame lemmas for the events of other
connections, what one `recv`/`proc` does to the connection it addresses, and the characterisation of
the password checkers.
-/
namespace VncModel.Auth

/-- every connection that has to authenticate satisfies the invariant -/
def AllInv (env : Env) (screens : List Screen) (s : Proc) : Prop :=
  ∀ c ∈ s.conns, ∀ scr, screens[c.screen]? = some scr → NeedsAuth scr c → Inv env scr c

theorem inv_initial (env : Env) (screens : List Screen) : AllInv env screens {} := by
  intro c hc
  simp at hc

theorem find_some_mem {α} {p : α → Bool} {l : List α} {a : α} (h : l.find? p = some a) :
    a ∈ l ∧ p a = true := ⟨List.mem_of_find?_eq_some h, List.find?_some h⟩

theorem step_inv (env : Env) (happ : AppOk env) (screens : List Screen) (s : Proc) (e : Ev)
    (h : AllInv env screens s) : AllInv env screens (step true env screens s e) := by
  cases e with
  | connect cid sid rev =>
    simp only [step]
    split
    · exact h
    · split
      · exact h
      · intro c hc scr hscr hn
        simp only [List.mem_cons] at hc
        rcases hc with rfl | hc
        · right
          refine ⟨⟨by simp, by simp⟩, rfl, Or.inl rfl, by simp⟩
        · exact h c hc scr hscr hn
  | recv cid bytes =>
    simp only [step]
    intro c hc scr hscr hn
    simp only [List.mem_map] at hc
    obtain ⟨d, hd, rfl⟩ := hc
    by_cases hcond : (d.id == cid && !d.peerClosed) = true
    · rw [if_pos hcond] at hscr hn ⊢
      exact h d hd scr hscr hn
    · rw [if_neg hcond] at hscr hn ⊢
      exact h d hd scr hscr hn
  | peerClose cid =>
    simp only [step]
    intro c hc scr hscr hn
    simp only [List.mem_map] at hc
    obtain ⟨d, hd, rfl⟩ := hc
    by_cases hcond : (d.id == cid) = true
    · rw [if_pos hcond] at hscr hn ⊢
      exact h d hd scr hscr hn
    · rw [if_neg hcond] at hscr hn ⊢
      exact h d hd scr hscr hn
  | setRand r =>
    simp only [step]
    exact h
  | reverseFailed sid =>
    simp only [step]
    exact h
  | register hd =>
    simp only [step]
    exact h
  | unregister hd =>
    simp only [step]
    exact h
  | proc cid =>
    simp only [step]
    cases hg : getConn s cid with
    | none => exact h
    | some c0 =>
      simp only
      cases hs0 : screens[c0.screen]? with
      | none => exact h
      | some scr0 =>
        simp only
        have hmem : c0 ∈ s.conns := (find_some_mem hg).1
        have hsame := procConn_same true env scr0 s.handlers s.legacy s.rand c0
        intro c hc scr hscr hn
        simp only [List.mem_map] at hc
        obtain ⟨d, hd, rfl⟩ := hc
        by_cases hcond : (d.id == cid) = true
        · rw [if_pos hcond] at hscr hn ⊢
          obtain ⟨_, h2, h3, _, _⟩ := hsame
          rw [h2] at hscr
          have hscr0 : scr = scr0 := by rw [hs0] at hscr; exact (Option.some.inj hscr).symm
          subst hscr0
          have hn0 : NeedsAuth scr c0 := ⟨hn.1, by rw [← h3]; exact hn.2⟩
          exact procConn_inv env happ scr s.handlers s.legacy s.rand hn0 (h c0 hmem scr hs0 hn0)
        · rw [if_neg hcond] at hscr hn ⊢
          exact h d hd scr hscr hn

theorem run_inv (env : Env) (happ : AppOk env) (screens : List Screen) (evs : List Ev) (s : Proc)
    (h : AllInv env screens s) : AllInv env screens (run true env screens s evs) := by
  induction evs generalizing s with
  | nil => exact h
  | cons e es ih => exact ih _ (step_inv env happ screens s e h)

/-! ### who is exempt from authentication -/

/-- the flag the authentication code reads agrees with how the client record came into being -/
def ExemptOk (c : Conn) : Prop := (c.reverse = true ↔ c.origin = .reverse)

def AllExemptOk (s : Proc) : Prop := ∀ c ∈ s.conns, ExemptOk c

theorem step_exempt (fixed : Bool) (env : Env) (screens : List Screen) (s : Proc) (e : Ev)
    (h : AllExemptOk s) : AllExemptOk (step fixed env screens s e) := by
  cases e with
  | connect cid sid rev =>
    simp only [step]
    split
    · exact h
    · split
      · exact h
      · intro c hc
        simp only [List.mem_cons] at hc
        rcases hc with rfl | hc
        · cases rev <;> simp [ExemptOk]
        · exact h c hc
  | recv cid bytes =>
    simp only [step]
    intro c hc
    simp only [List.mem_map] at hc
    obtain ⟨d, hd, rfl⟩ := hc
    have := h d hd
    split <;> simpa [ExemptOk] using this
  | peerClose cid =>
    simp only [step]
    intro c hc
    simp only [List.mem_map] at hc
    obtain ⟨d, hd, rfl⟩ := hc
    have := h d hd
    split <;> simpa [ExemptOk] using this
  | setRand r => exact h
  | reverseFailed sid => exact h
  | register hd => exact h
  | unregister hd => exact h
  | proc cid =>
    simp only [step]
    cases hg : getConn s cid with
    | none => exact h
    | some c0 =>
      simp only
      cases hs0 : screens[c0.screen]? with
      | none => exact h
      | some scr0 =>
        simp only
        have hmem : c0 ∈ s.conns := (find_some_mem hg).1
        obtain ⟨_, _, h3, _, h5⟩ := procConn_same fixed env scr0 s.handlers s.legacy s.rand c0
        intro c hc
        simp only [List.mem_map] at hc
        obtain ⟨d, hd, rfl⟩ := hc
        split
        · have := h c0 hmem
          unfold ExemptOk at this ⊢
          rw [h3, h5]; exact this
        · exact h d hd

theorem run_exempt (fixed : Bool) (env : Env) (screens : List Screen) (evs : List Ev) (s : Proc)
    (h : AllExemptOk s) : AllExemptOk (run fixed env screens s evs) := by
  induction evs generalizing s with
  | nil => exact h
  | cons e es ih => exact ih _ (step_exempt fixed env screens s e h)

/-! ### the registered handlers are exactly those registered and not unregistered since -/

/-- what the history says about handler `h`: the last `register h` / `unregister h` event decides -/
def regAfter (b : Bool) (h : Handler) : List Ev → Bool
  | [] => b
  | .register h' :: es => regAfter (if h' = h then true else b) h es
  | .unregister h' :: es => regAfter (if h' = h then false else b) h es
  | _ :: es => regAfter b h es

theorem step_handlers (fixed : Bool) (env : Env) (screens : List Screen) (s : Proc) (e : Ev) :
    (step fixed env screens s e).handlers =
      match e with
      | .register h => if h ∈ s.handlers then s.handlers else h :: s.handlers
      | .unregister h => s.handlers.erase h
      | _ => s.handlers := by
  cases e with
  | connect cid sid rev => simp only [step]; split <;> (try split) <;> rfl
  | recv cid bytes => rfl
  | proc cid => simp only [step]; split <;> (try split) <;> rfl
  | peerClose cid => rfl
  | setRand r => rfl
  | reverseFailed sid => rfl
  | register h => rfl
  | unregister h => rfl

/-- In every reachable state the list of registered handlers has no duplicates and holds exactly the
handlers whose last (un)registration in the history is a registration — whatever connections did in
between, in whatever order handlers were registered, registered again, or unregistered (head, middle
or tail of the list, or not in it at all). -/
theorem handlers_follow_history (fixed : Bool) (env : Env) (screens : List Screen) (evs : List Ev)
    (s : Proc) (hnd : s.handlers.Nodup) :
    (run fixed env screens s evs).handlers.Nodup ∧
    ∀ h, h ∈ (run fixed env screens s evs).handlers ↔ regAfter (decide (h ∈ s.handlers)) h evs = true := by
  induction evs generalizing s with
  | nil => exact ⟨hnd, fun h => by simp [run, regAfter]⟩
  | cons e es ih =>
    have hstep := step_handlers fixed env screens s e
    have hnd' : (step fixed env screens s e).handlers.Nodup := by
      rw [hstep]
      cases e <;> simp only <;> try exact hnd
      · split
        · exact hnd
        · rename_i hn; exact List.nodup_cons.mpr ⟨hn, hnd⟩
      · exact hnd.erase _
    obtain ⟨ih1, ih2⟩ := ih (step fixed env screens s e) hnd'
    refine ⟨ih1, fun h => ?_⟩
    rw [show run fixed env screens s (e :: es) = run fixed env screens (step fixed env screens s e) es from rfl]
    rw [ih2 h, hstep]
    cases e with
    | register h' =>
      simp only [regAfter]
      by_cases heq : h' = h
      · subst heq
        by_cases hm : h' ∈ s.handlers <;> simp [hm]
      · by_cases hm : h' ∈ s.handlers
        · simp [hm, heq]
        · have : (h ∈ h' :: s.handlers) ↔ h ∈ s.handlers := by
            simp [List.mem_cons, Ne.symm heq]
          simp [hm, heq, this]
    | unregister h' =>
      simp only [regAfter]
      by_cases heq : h' = h
      · subst heq
        have : h' ∉ s.handlers.erase h' := fun hm => by
          have := (List.Nodup.mem_erase_iff hnd).mp hm
          exact this.1 rfl
        simp [this]
      · have : (h ∈ s.handlers.erase h') ↔ h ∈ s.handlers := by
          rw [List.Nodup.mem_erase_iff hnd]
          simp [Ne.symm heq]
        simp [heq, this]
    | connect cid sid rev => simp [regAfter]
    | recv cid bytes => simp [regAfter]
    | proc cid => simp [regAfter]
    | peerClose cid => simp [regAfter]
    | setRand r => simp [regAfter]
    | reverseFailed sid => simp [regAfter]

/-! ### the password checkers -/

theorem checkList_some_iff (enc : List UInt8 → List UInt8 → List UInt8) (chal resp : List UInt8)
    (fvo : Int) (pws : List (List UInt8)) (k : Nat) (vo : Bool) :
    checkList enc chal resp fvo pws k = some vo ↔
      ∃ i, ∃ h : i < pws.length, enc pws[i] chal = resp ∧
        (∀ j, ∀ hj : j < pws.length, j < i → enc pws[j] chal ≠ resp) ∧ vo = decide (fvo ≤ ((k + i : Nat) : Int)) := by
  induction pws generalizing k with
  | nil => simp [checkList]
  | cons pw rest ih =>
    simp only [checkList]
    by_cases hm : enc pw chal = resp
    · rw [if_pos hm]
      constructor
      · intro h
        refine ⟨0, by simp, hm, by intro j _ hj; omega, ?_⟩
        simpa [eq_comm] using h
      · rintro ⟨i, hi, he, hfirst, hvo⟩
        cases i with
        | zero => simpa [eq_comm] using hvo
        | succ i =>
          exact absurd hm (hfirst 0 (by simp) (by omega))
    · rw [if_neg hm, ih (k + 1)]
      constructor
      · rintro ⟨i, hi, he, hfirst, hvo⟩
        refine ⟨i + 1, by simpa using hi, he, ?_, ?_⟩
        · intro j hj hji
          cases j with
          | zero => exact hm
          | succ j => exact hfirst j (by simpa using hj) (by omega)
        · rw [hvo]; congr 2; omega
      · rintro ⟨i, hi, he, hfirst, hvo⟩
        cases i with
        | zero => exact absurd he hm
        | succ i =>
          refine ⟨i, by simpa using hi, he, ?_, ?_⟩
          · intro j hj hji
            exact hfirst (j + 1) (by simpa using hj) (by omega)
          · rw [hvo]; congr 2; omega

/-! ### what events do to the connection they address, and that they leave the others alone -/

/-- events that do not address connection `cid` -/
def Ev.foreign (cid : Nat) : Ev → Bool
  | .connect c _ _ => c != cid
  | .recv c _ => c != cid
  | .proc c => c != cid
  | .peerClose c => c != cid
  | .setRand _ => true
  | .reverseFailed _ => true
  | .register _ => true
  | .unregister _ => true

theorem find_map_other {p : Conn → Bool} {f : Conn → Conn} (l : List Conn)
    (h1 : ∀ d, p (f d) = p d) (h2 : ∀ d, p d = true → f d = d) :
    (l.map f).find? p = l.find? p := by
  induction l with
  | nil => rfl
  | cons a l ih =>
    simp only [List.map_cons, List.find?_cons, h1]
    by_cases hp : p a = true
    · simp [hp, h2 a hp]
    · simp [hp, ih]

theorem find_map_self {p : Conn → Bool} {f : Conn → Conn} (l : List Conn)
    (h1 : ∀ d, p (f d) = p d) : (l.map f).find? p = (l.find? p).map f := by
  induction l with
  | nil => rfl
  | cons a l ih =>
    simp only [List.map_cons, List.find?_cons, h1]
    by_cases hp : p a = true
    · simp [hp]
    · simp [hp, ih]

/-- an event of another connection (or of the environment) does not change this connection, whatever
it does to the process-global state -/
theorem getConn_foreign (fixed : Bool) (env : Env) (screens : List Screen) (s : Proc) (e : Ev) (cid : Nat)
    (hf : e.foreign cid = true) : getConn (step fixed env screens s e) cid = getConn s cid := by
  cases e with
  | connect c sid rev =>
    simp only [Ev.foreign, bne_iff_ne, ne_eq] at hf
    simp only [step]
    split
    · rfl
    · split
      · rfl
      · simp only [getConn, List.find?_cons]
        have : (c == cid) = false := by simpa using hf
        simp [this]
  | recv c bytes =>
    simp only [Ev.foreign, bne_iff_ne, ne_eq] at hf
    simp only [step, getConn]
    apply find_map_other
    · intro d; split <;> rfl
    · intro d hd
      have : d.id = cid := by simpa using hd
      have hne : (d.id == c) = false := by simp [this]; exact fun h => hf h.symm
      simp [hne]
  | peerClose c =>
    simp only [Ev.foreign, bne_iff_ne, ne_eq] at hf
    simp only [step, getConn]
    apply find_map_other
    · intro d; split <;> rfl
    · intro d hd
      have : d.id = cid := by simpa using hd
      have hne : (d.id == c) = false := by simp [this]; exact fun h => hf h.symm
      simp [hne]
  | setRand r => rfl
  | reverseFailed sid => rfl
  | register hd => rfl
  | unregister hd => rfl
  | proc c =>
    simp only [Ev.foreign, bne_iff_ne, ne_eq] at hf
    simp only [step]
    cases hg : getConn s c with
    | none => rfl
    | some c0 =>
      simp only
      cases hs0 : screens[c0.screen]? with
      | none => rfl
      | some scr0 =>
        simp only [getConn]
        have hid : c0.id = c := by simpa using (find_some_mem hg).2
        have hsame := (procConn_same fixed env scr0 s.handlers s.legacy s.rand c0).1
        apply find_map_other
        · intro d
          by_cases hd : (d.id == c) = true
          · rw [if_pos hd]
            have : d.id = c := by simpa using hd
            simp [hsame, hid, this]
          · rw [if_neg hd]
        · intro d hd
          have : d.id = cid := by simpa using hd
          have hne : (d.id == c) = false := by simp [this]; exact fun h => hf h.symm
          simp [hne]

theorem getConn_run_foreign (fixed : Bool) (env : Env) (screens : List Screen) (evs : List Ev) (s : Proc)
    (cid : Nat) (hf : ∀ e ∈ evs, e.foreign cid = true) :
    getConn (run fixed env screens s evs) cid = getConn s cid := by
  induction evs generalizing s with
  | nil => rfl
  | cons e es ih =>
    simp only [run, List.foldl_cons]
    have := ih (step fixed env screens s e) (fun e' he' => hf e' (List.mem_cons_of_mem _ he'))
    simp only [run] at this
    rw [this]
    exact getConn_foreign fixed env screens s e cid (hf e List.mem_cons_self)

theorem run_nil (fixed : Bool) (env : Env) (screens : List Screen) (s : Proc) :
    run fixed env screens s [] = s := rfl

theorem run_cons (fixed : Bool) (env : Env) (screens : List Screen) (s : Proc) (e : Ev) (es : List Ev) :
    run fixed env screens s (e :: es) = run fixed env screens (step fixed env screens s e) es := rfl

theorem run_append (fixed : Bool) (env : Env) (screens : List Screen) (s : Proc) (a b : List Ev) :
    run fixed env screens s (a ++ b) = run fixed env screens (run fixed env screens s a) b := by
  simp [run, List.foldl_append]

theorem getConn_recv (fixed : Bool) (env : Env) (screens : List Screen) (s : Proc) (cid : Nat)
    (bytes : List UInt8) (c : Conn) (hg : getConn s cid = some c) (hp : c.peerClosed = false) :
    getConn (step fixed env screens s (.recv cid bytes)) cid = some { c with inbuf := c.inbuf ++ bytes } := by
  simp only [step, getConn]
  rw [find_map_self]
  · simp only [getConn] at hg
    rw [hg]
    have hid : c.id = cid := by simpa using (find_some_mem hg).2
    simp [hid, hp]
  · intro d; split <;> rfl

theorem getConn_proc (fixed : Bool) (env : Env) (screens : List Screen) (s : Proc) (cid : Nat)
    (c : Conn) (scr : Screen) (hg : getConn s cid = some c) (hs : screens[c.screen]? = some scr) :
    getConn (step fixed env screens s (.proc cid)) cid =
      some (procConn fixed env scr s.handlers s.legacy s.rand c).1 := by
  have hid : c.id = cid := by simpa using (find_some_mem hg).2
  simp only [step]
  rw [hg]
  dsimp only
  rw [hs]
  dsimp only [getConn]
  have hsame := (procConn_same fixed env scr s.handlers s.legacy s.rand c).1
  rw [find_map_self]
  · simp only [getConn] at hg
    rw [hg]
    simp [hid]
  · intro d
    by_cases hd : (d.id == cid) = true
    · rw [if_pos hd]
      have : d.id = cid := by simpa using hd
      simp [hsame, hid, this]
    · rw [if_neg hd]

end VncModel.Auth
