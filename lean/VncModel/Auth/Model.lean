import VncModel.Gen.C05
/-
Model of the RFB handshake and VNC authentication of libvncserver for a whole *process*: several
screens, any number of connections, the process-global list of registered security handlers of
auth.c, application-registered handlers and the TightVNC file-transfer extension's security type 16.

C ↔ model (src/libvncserver unless noted)
  rfbNewTCPOrUDPClient (version string, state)            ↔ `Ev.connect cid sid rev`: `rev = false` an inbound
    viewer (cl->reverseConnection = FALSE), `rev = true` the client record made by a successful
    rfbReverseConnection (flag set right after rfbNewClient, before any message is processed)
  rfbReverseConnection whose rfbConnect fails              ↔ `Ev.reverseFailed` (no effect at all)
  bytes arriving on the socket                             ↔ `Ev.recv` (appended to `inbuf`)
  one call of rfbProcessClientMessage                      ↔ `Ev.proc`  → `procConn`
  rfbRegisterSecurityHandler / rfbUnregisterSecurityHandler (application) ↔ `Ev.register` / `Ev.unregister`
  rfbProcessClientProtocolVersion                          ↔ `processVersion`
  rfbAuthNewClient / rfbSendSecurityType / …TypeList       ↔ `authNewClient`, `sendSecurityType`, `sendSecurityTypeList`
  rfbProcessClientSecurityType                             ↔ `processSecurityType`
  rfbVncAuthSendChallenge / rfbVncAuthNone                 ↔ `sendChallenge`, `vncAuthNone`
  rfbAuthProcessClientMessage                              ↔ `processAuth`
  rfbCheckPasswordByList / rfbDefaultPasswordCheck (main.c) ↔ `checkList`, `checkFile`, `passwordCheck`
  rfbProcessClientInitMessage (up to `cl->state = RFB_NORMAL`, incl. the extension's init hook)
                                                           ↔ `processClientInit`
  tightvnc-filetransfer/rfbtightserver.c: rfbHandleSecTypeTight → rfbSendTunnelingCaps →
    rfbSendAuthCaps → rfbProcessClientAuthType → rfbVncAuthSendChallenge (its own copy) →
    rfbAuthProcessClientMessage, all inside ONE call of rfbProcessClientMessage, reading
    synchronously from the socket                          ↔ `tightHandler`
  static securityHandlers (auth.c:40)                      ↔ `Proc.handlers` (registered handlers, head first)
  rfbRandomBytes                                           ↔ `Proc.rand` (environment: `Ev.setRand`)
  rfbWriteExact failing because the peer is gone           ↔ the `peerClosed` test before every `wr`
  rfbReadExact running into the timeout / EOF              ↔ a short `inbuf`: close

External functions are parameters (`Env`): `enc` = rfbEncryptBytes, `decFile` =
rfbDecryptPasswdFromFile on the file's content, `parseVer` = `sscanf(pv, "RFB %03d.%03d\n", …) == 2`,
`app t` = the handler function of an application-registered security handler of type `t`
(application code: the theorems assume of it only what `AppOk` in Lemmas.lean says).

`fixed = true` is the code after fixes/C05-global-security-handlers.diff (454e4a4: the built-in type
is decided from the client's own screen), fixes/C05-security-type-list-no-global-swap.diff (the
built-in handlers are no longer kept in the shared list: a connection never changes it) and
fixes/C05-unregister-single-handler.diff (unregister removes the given node only).  `fixed = false`
is the ORIGINAL code (lookup in a process-global list in which every connection swaps the built-in
handlers; `Proc.legacy`), kept without registered handlers to document the defect
(`auth_bypass_witness_unfixed`).

Not modelled (docs/C05.md): the shared-flag policy after ClientInit (C14; the harness uses
alwaysShared); messages in state NORMAL; `rfbDefaultPasswordCheck` overwriting the dead
`cl->authChallenge` buffer; WebSockets/TLS; the content of the TightVNC interaction capability lists
(only that they are written after ServerInit).

Constants (message sizes, security-type numbers, reason strings, MAX_SECURITY_TYPES, the TightVNC
capability record) come from the T0 probe `VncModel.Gen.C05`, regenerated from /repo on every run.
-/
namespace VncModel.Auth
open VncModel.Gen

inductive St where
  | ver | sec | auth | init | initShared | normal
  deriving DecidableEq, Repr

/-- messages the server writes during the handshake -/
inductive Msg where
  | version                          -- "RFB 003.008\n"
  | secTypes (l : List Nat)          -- count byte + types (3.7+)
  | secType33 (t : Nat)              -- 32-bit type (3.3)
  | challenge (c : List UInt8)
  | secResult (ok : Bool)            -- rfbVncAuthOK = 0 / rfbVncAuthFailed = 1
  | reason (s : List UInt8)          -- rfbClientSendString: 32-bit length + text
  | serverInit
  | tightTunnelCaps                  -- rfbSendTunnelingCaps: nTunnelTypes = 0
  | tightAuthCaps (n : Nat)          -- rfbSendAuthCaps: nAuthTypes (+ the VNC-auth capability if 1)
  | tightInteractionCaps             -- rfbSendInteractionCaps after ServerInit
  | appMarker                        -- what the harness' application handler writes
  deriving DecidableEq, Repr

inductive PwCfg where
  | none                                                   -- authPasswdData == NULL
  | list (pws : List (List UInt8)) (firstViewOnly : Int)    -- rfbCheckPasswordByList
  | file (content : Option (List UInt8))                    -- rfbDefaultPasswordCheck; `none`: fopen fails
  deriving DecidableEq, Repr

structure Screen where
  pw : PwCfg
  serverInit : List UInt8 := []      -- wire bytes of ServerInit (driver only)
  deriving DecidableEq, Repr

/-- a registered security handler -/
inductive Handler where
  | tight                 -- tightVncSecurityHandler (type 16)
  | app (t : Nat)         -- registered by the application, type `t`
  deriving DecidableEq, Repr

def Handler.type : Handler → Nat
  | .tight => C05.rfbSecTypeTight
  | .app t => t

/-- how a client record came into being -/
inductive Origin where
  | inbound      -- a viewer connected to the server (rfbNewClient on an accepted socket)
  | reverse      -- rfbReverseConnection whose outgoing connect succeeded
  deriving DecidableEq, Repr

structure Conn where
  id : Nat
  screen : Nat
  reverse : Bool                     -- cl->reverseConnection: what the authentication code reads
  origin : Origin := .inbound        -- history: set at creation, never read by the code
  st : St := .ver
  isOpen : Bool := true
  peerClosed : Bool := false
  minor : Int := 0
  challenge : List UInt8 := []
  viewOnly : Bool := false
  inbuf : List UInt8 := []
  sent : List Msg := []              -- newest first
  resp : Option (List UInt8) := none -- the 16 bytes rfbAuthProcessClientMessage read
  tight : Bool := false              -- TightVNC extension enabled for this client (rfbEnableExtension)
  deriving DecidableEq, Repr

structure Env where
  enc : List UInt8 → List UInt8 → List UInt8
  decFile : List UInt8 → Option (List UInt8)
  parseVer : List UInt8 → Option (Int × Int)
  app : Nat → Conn → Conn

structure Proc where
  handlers : List Handler := []      -- registered handlers (fixed code: never touched by connections)
  legacy : List Nat := []            -- ORIGINAL code only: the global list with the built-in handlers
  rand : List UInt8 := []
  conns : List Conn := []
  deriving DecidableEq, Repr

def secNone : Nat := C05.rfbSecTypeNone
def secVncAuth : Nat := C05.rfbSecTypeVncAuth

def reasonNoAuthMode : List UInt8 := C05.reasonNoAuthMode
def reasonPwFailed : List UInt8 := C05.reasonPwFailed

/-! ## primitives -/

def close (c : Conn) : Conn := { c with isOpen := false }

/-- a successful rfbWriteExact.  Writing fails exactly when the peer has closed its end
(`c.peerClosed`); every caller tests that first, as the C code tests the return value. -/
def wr (c : Conn) (m : Msg) : Conn := { c with sent := m :: c.sent }

/-- rfbClientSendString: write (failure only logged), then rfbCloseClient -/
def sendString (c : Conn) (s : List UInt8) : Conn :=
  if c.peerClosed then close c else close (wr c (.reason s))

/-- the application handler of the harness: writes a marker and closes the connection -/
def appClose (c : Conn) : Conn :=
  if c.peerClosed then close c else close (wr c .appMarker)

/-! ## password checks (main.c) -/

/-- rfbCheckPasswordByList: first entry whose encryption of the challenge equals the response;
`some vo`: accepted, `vo` = `i >= authPasswdFirstViewOnly` -/
def checkList (enc : List UInt8 → List UInt8 → List UInt8) (chal resp : List UInt8) (fvo : Int) :
    List (List UInt8) → Nat → Option Bool
  | [], _ => none
  | pw :: rest, i =>
    if enc pw chal = resp then some (decide (fvo ≤ (i : Int))) else checkList enc chal resp fvo rest (i + 1)

/-- rfbDefaultPasswordCheck: password from the file; never sets viewOnly -/
def checkFile (env : Env) (chal resp : List UInt8) (content : Option (List UInt8)) : Option Bool :=
  match content with
  | none => none
  | some bytes =>
    match env.decFile bytes with
    | none => none
    | some pw => if env.enc pw chal = resp then some false else none

def passwordCheck (env : Env) (pw : PwCfg) (chal resp : List UInt8) : Option Bool :=
  match pw with
  | .none => none      -- unreachable: a challenge is only sent on password screens
  | .list pws fvo => checkList env.enc chal resp fvo pws 0
  | .file content => checkFile env chal resp content

/-! ## auth.c -/

/-- the condition of rfbAuthNewClient / rfbBuiltinSecurityHandler:
`!cl->screen->authPasswdData || cl->reverseConnection` -/
def builtinType (scr : Screen) (c : Conn) : Nat :=
  if scr.pw = .none || c.reverse then secNone else secVncAuth

/-- rfbVncAuthSendChallenge -/
def sendChallenge (rand : List UInt8) (c : Conn) : Conn :=
  let c := { c with challenge := rand }
  if c.peerClosed then close c else { wr c (.challenge rand) with st := .auth }

/-- rfbProcessClientInitMessage after the ClientInit byte has been read (or in
RFB_INITIALISATION_SHARED): ServerInit, the init hook of the TightVNC extension if it is enabled
(rfbSendInteractionCaps), RFB_NORMAL -/
def processClientInit (c : Conn) : Conn :=
  let c := { c with st := .init }
  if c.peerClosed then close c
  else if c.tight then { wr (wr c .serverInit) .tightInteractionCaps with st := .normal }
  else { wr c .serverInit with st := .normal }

/-- rfbVncAuthNone after the optional SecurityResult -/
def vncAuthNoneTail (c : Conn) : Conn :=
  if c.minor = 889 then processClientInit { c with st := .initShared } else { c with st := .init }

/-- rfbVncAuthNone -/
def vncAuthNone (c : Conn) : Conn :=
  if c.minor > 7 ∧ c.minor ≠ 889 then
    if c.peerClosed then close c else vncAuthNoneTail (wr c (.secResult true))
  else vncAuthNoneTail c

/-- rfbSendSecurityType (3.3) -/
def sendSecurityType (rand : List UInt8) (c : Conn) (t : Nat) : Conn :=
  if c.peerClosed then close c
  else if t = secNone then { wr c (.secType33 t) with st := .init }
  else sendChallenge rand (wr c (.secType33 t))

def register (t : Nat) (hs : List Nat) : List Nat := if t ∈ hs then hs else t :: hs
def unregister (t : Nat) (hs : List Nat) : List Nat := hs.erase t

/-- ORIGINAL code: the switch at the top of rfbSendSecurityTypeList swaps the built-in handlers in
the process-global list -/
def newHandlers (hs : List Nat) (t : Nat) : List Nat :=
  if t = secNone then register secNone (unregister secVncAuth hs)
  else register secVncAuth (unregister secNone hs)

/-- the types written to the client (`size < MAX_SECURITY_TYPES`).  fixed: the built-in type of
this client first, then the registered handlers; original: the global list after the swap -/
def offered (fixed : Bool) (hs : List Handler) (legacy : List Nat) (t : Nat) : List Nat :=
  if fixed then (t :: hs.map Handler.type).take (C05.MAX_SECURITY_TYPES - 1)
  else (newHandlers legacy t).take (C05.MAX_SECURITY_TYPES - 1)

/-- rfbSendSecurityTypeList: sends the list; returns the new legacy list (changed by the original
code only) -/
def sendSecurityTypeList (fixed : Bool) (hs : List Handler) (legacy : List Nat) (c : Conn) (t : Nat) :
    Conn × List Nat :=
  let legacy' := if fixed then legacy else newHandlers legacy t
  if c.peerClosed then (close c, legacy')
  else if offered fixed hs legacy t = [] then
    (sendString (wr c (.secTypes (offered fixed hs legacy t))) reasonNoAuthMode, legacy')
  else ({ wr c (.secTypes (offered fixed hs legacy t)) with st := .sec }, legacy')

/-- rfbAuthNewClient -/
def authNewClient (fixed : Bool) (scr : Screen) (hs : List Handler) (legacy : List Nat)
    (rand : List UInt8) (c : Conn) : Conn × List Nat :=
  let t := builtinType scr c
  if c.minor < 7 then (sendSecurityType rand c t, legacy) else sendSecurityTypeList fixed hs legacy c t

/-- rfbProcessClientProtocolVersion on the 12 bytes read -/
def processVersion (fixed : Bool) (env : Env) (scr : Screen) (hs : List Handler) (legacy : List Nat)
    (rand : List UInt8) (c : Conn) (pv : List UInt8) : Conn × List Nat :=
  match env.parseVer pv with
  | none => (close c, legacy)
  | some (major, minor) =>
    if major ≠ 3 then (close c, legacy)
    else authNewClient fixed scr hs legacy rand { c with minor := minor }

/-- the handler of a built-in security type -/
def runHandler (rand : List UInt8) (c : Conn) (t : Nat) : Conn :=
  if t = secNone then vncAuthNone c else sendChallenge rand c

/-- rfbAuthProcessClientMessage, check failed: rfbVncAuthFailed (a failed write is only logged), then
the reason string for 3.8 clients (rfbClientSendString closes) or rfbCloseClient.  With the peer
gone both writes fail and the connection is just closed. -/
def authFail (c : Conn) : Conn :=
  if c.peerClosed then close c
  else if c.minor > 7 then sendString (wr c (.secResult false)) reasonPwFailed
  else close (wr c (.secResult false))

/-- rfbAuthProcessClientMessage, check passed (`vo`: the checker set cl->viewOnly) -/
def authOk (c : Conn) (vo : Bool) : Conn :=
  if c.peerClosed then close { c with viewOnly := c.viewOnly || vo }
  else { wr { c with viewOnly := c.viewOnly || vo } (.secResult true) with st := .init }

/-- rfbAuthProcessClientMessage on the 16 bytes read -/
def processAuth (env : Env) (scr : Screen) (c : Conn) (resp : List UInt8) : Conn :=
  match passwordCheck env scr.pw c.challenge resp with
  | none => authFail { c with resp := some resp }
  | some vo => authOk { c with resp := some resp } vo

/-! ## tightvnc-filetransfer/rfbtightserver.c: security type 16 -/

/-- big-endian 32-bit value of the first four bytes -/
def be32val (l : List UInt8) : Nat :=
  (l.take 4).foldl (fun a b => 256 * a + b.toNat) 0

/-- rfbSendAuthCaps on a connection that needs no authentication: no auth types, SecurityResult OK
for 3.8+ (SECTYPE_TIGHT_FOR_RFB_3_8: `minor > 7`, also 889), RFB_INITIALISATION -/
def tightNoAuth (c : Conn) : Conn :=
  let c1 := wr c (.tightAuthCaps 0)
  { (if c.minor > 7 then wr c1 (.secResult true) else c1) with st := .init }

/-- rfbSendAuthCaps on a connection that needs authentication: one auth type (VNC); then, in the
same call, rfbProcessClientAuthType reads the client's choice (4 bytes), the extension's own
rfbVncAuthSendChallenge writes the challenge and calls rfbAuthProcessClientMessage, which reads the
16-byte response.  `cl->state` stays RFB_SECURITY_TYPE until the check has passed. -/
def tightAuth (env : Env) (scr : Screen) (rand : List UInt8) (c : Conn) : Conn :=
  let c1 := wr c (.tightAuthCaps 1)
  if c1.inbuf.length < C05.sz_rfbAuthenticationCapsMsg then close { c1 with inbuf := [] }   -- read times out
  else if be32val c1.inbuf ≠ C05.rfbAuthVNC then close { c1 with inbuf := c1.inbuf.drop 4 }   -- not in authCaps
  else
    let c2 := wr { c1 with inbuf := c1.inbuf.drop 4, challenge := rand } (.challenge rand)
    if c2.inbuf.length < C05.CHALLENGESIZE then close { c2 with inbuf := [] }
    else processAuth env scr { c2 with inbuf := c2.inbuf.drop C05.CHALLENGESIZE }
           (c2.inbuf.take C05.CHALLENGESIZE)

/-- rfbHandleSecTypeTight: enable the extension for this client, tunnelling caps (none), auth caps -/
def tightHandler (env : Env) (scr : Screen) (rand : List UInt8) (c : Conn) : Conn :=
  let c := { c with tight := true }
  if c.peerClosed then close c
  else if scr.pw ≠ .none ∧ c.reverse = false then tightAuth env scr rand (wr c .tightTunnelCaps)
  else tightNoAuth (wr c .tightTunnelCaps)

/-- an application handler works on the client record; identity, screen, direction and the peer's
end of the socket are not its to change -/
def appRun (env : Env) (t : Nat) (c : Conn) : Conn :=
  { env.app t c with id := c.id, screen := c.screen, reverse := c.reverse, origin := c.origin,
                     peerClosed := c.peerClosed }

def runRegistered (env : Env) (scr : Screen) (rand : List UInt8) (c : Conn) : Handler → Conn
  | .tight => tightHandler env scr rand c
  | .app t => appRun env t c

/-- rfbProcessClientSecurityType on the byte read.
fixed: the built-in type that applies to this client, else the first registered handler of that
type.  original: whatever the global list of built-in handlers holds now. -/
def processSecurityType (fixed : Bool) (env : Env) (scr : Screen) (hs : List Handler) (legacy : List Nat)
    (rand : List UInt8) (c : Conn) (t : UInt8) : Conn :=
  if fixed then
    if t.toNat = builtinType scr c then runHandler rand c t.toNat
    else match hs.find? (fun h => h.type == t.toNat) with
      | some h => runRegistered env scr rand c h
      | none => close c
  else
    if t.toNat ∈ legacy then runHandler rand c t.toNat else close c

/-! ## rfbProcessClientMessage -/

/-- bytes the handler of a state reads first -/
def need : St → Nat
  | .ver => C05.sz_rfbProtocolVersionMsg | .sec => 1 | .auth => C05.CHALLENGESIZE
  | .init => C05.sz_rfbClientInitMsg | .initShared => 0 | .normal => 0

/-- the switch of rfbProcessClientMessage, on the message `msg` already read -/
def dispatch (fixed : Bool) (env : Env) (scr : Screen) (hs : List Handler) (legacy : List Nat)
    (rand : List UInt8) : St → Conn → List UInt8 → Conn × List Nat
  | .ver, c, msg => processVersion fixed env scr hs legacy rand c msg
  | .sec, c, msg => (processSecurityType fixed env scr hs legacy rand c (msg.headD 0), legacy)
  | .auth, c, msg => (processAuth env scr c msg, legacy)
  | .init, c, _ => (processClientInit c, legacy)
  | .initShared, c, _ => (processClientInit c, legacy)
  | .normal, c, _ => (c, legacy)

/-- one call of rfbProcessClientMessage for connection `c` (returns the new legacy list) -/
def procConn (fixed : Bool) (env : Env) (scr : Screen) (hs : List Handler) (legacy : List Nat)
    (rand : List UInt8) (c : Conn) : Conn × List Nat :=
  if !c.isOpen then (c, legacy)
  else if c.st = .normal then (c, legacy)        -- rfbProcessClientNormalMessage: outside this model
  else if c.inbuf.length < need c.st then (close { c with inbuf := [] }, legacy)   -- timeout / EOF
  else dispatch fixed env scr hs legacy rand c.st { c with inbuf := c.inbuf.drop (need c.st) }
         (c.inbuf.take (need c.st))

/-! ## the process -/

inductive Ev where
  | connect (cid sid : Nat) (rev : Bool)
  | recv (cid : Nat) (bytes : List UInt8)
  | proc (cid : Nat)
  | peerClose (cid : Nat)
  | setRand (r : List UInt8)
  | reverseFailed (sid : Nat)        -- rfbReverseConnection on screen `sid` whose connect fails: returns NULL
  | register (h : Handler)           -- the application calls rfbRegisterSecurityHandler
  | unregister (h : Handler)         -- … rfbUnregisterSecurityHandler
  deriving DecidableEq, Repr

def getConn (s : Proc) (cid : Nat) : Option Conn := s.conns.find? (fun c => c.id == cid)

def step (fixed : Bool) (env : Env) (screens : List Screen) (s : Proc) : Ev → Proc
  | .connect cid sid rev =>
    if s.conns.any (fun c => c.id == cid) then s
    else match screens[sid]? with
      | none => s
      | some _ =>
        { s with conns := { id := cid, screen := sid, reverse := rev,
                             origin := if rev then .reverse else .inbound, sent := [.version] } :: s.conns }
  | .recv cid bytes =>
    { s with conns := s.conns.map (fun c =>
        if c.id == cid && !c.peerClosed then { c with inbuf := c.inbuf ++ bytes } else c) }
  | .peerClose cid =>
    { s with conns := s.conns.map (fun c => if c.id == cid then { c with peerClosed := true } else c) }
  | .setRand r => { s with rand := r }
  | .reverseFailed _ => s            -- rfbConnect < 0: no client record, no other effect
  | .register h => { s with handlers := if h ∈ s.handlers then s.handlers else h :: s.handlers }
  | .unregister h => { s with handlers := s.handlers.erase h }
  | .proc cid =>
    match getConn s cid with
    | none => s
    | some c =>
      match screens[c.screen]? with
      | none => s
      | some scr =>
        let r := procConn fixed env scr s.handlers s.legacy s.rand c
        { s with legacy := r.2,
                 conns := s.conns.map (fun d => if d.id == cid then r.1 else d) }

def run (fixed : Bool) (env : Env) (screens : List Screen) (s : Proc) (evs : List Ev) : Proc :=
  evs.foldl (step fixed env screens) s

/-! ## `sscanf(pv, "RFB %03d.%03d\n", &major, &minor) == 2` (glibc, C locale) -/

def isSpace (b : UInt8) : Bool := b == 32 || (9 ≤ b && b ≤ 13)
def isDigit (b : UInt8) : Bool := 48 ≤ b && b ≤ 57

def decVal (ds : List UInt8) : Nat := ds.foldl (fun a d => 10 * a + (d.toNat - 48)) 0

/-- `%03d`: skip white space, optional sign (counts towards the width of 3), at least one digit -/
def scanInt3 (s : List UInt8) : Option (Int × List UInt8) :=
  let s := s.dropWhile isSpace
  let (neg, s, w) := match s with
    | 45 :: r => (true, r, 2)
    | 43 :: r => (false, r, 2)
    | _ => (false, s, 3)
  let ds := (s.take w).takeWhile isDigit
  if ds.isEmpty then none
  else some ((if neg then - (decVal ds : Int) else (decVal ds : Int)), s.drop ds.length)

def parseVersion (pv : List UInt8) : Option (Int × Int) :=
  match pv.takeWhile (· ≠ 0) with        -- pv[12] = 0; an embedded NUL ends the string earlier
  | 82 :: 70 :: 66 :: rest =>            -- "RFB", then ' ' = any amount of white space
    match scanInt3 (rest.dropWhile isSpace) with
    | none => none
    | some (major, rest) =>
      match rest with
      | 46 :: rest =>                    -- '.'
        match scanInt3 rest with
        | none => none
        | some (minor, _) => some (major, minor)
      | _ => none
  | _ => none

end VncModel.Auth
