import VncModel.Auth.Process
/-
What one call of rfbProcessClientMessage does for a well-behaved client of a password screen (fixed
code), independent of the process-global handler list: the ingredients of `auth_complete` and
`reach_authentication` in Props/C05.lean.
-/
namespace VncModel.Auth
open VncModel.Gen

theorem need_auth : need .auth = 16 := by decide
theorem need_ver : need .ver = 12 := by decide
theorem need_sec : need .sec = 1 := by decide
theorem need_init : need .init = 1 := by decide

theorem offered_ne_nil (hs : List Handler) (legacy : List Nat) (t : Nat) : offered true hs legacy t ≠ [] := by
  unfold offered
  have h0 : C05.MAX_SECURITY_TYPES - 1 = 253 + 1 := by decide
  simp [h0]

/-- the correct response in state AUTHENTICATION: SecurityResult OK, state INITIALISATION, viewOnly as
the checker says -/
theorem procConn_auth_ok (env : Env) (scr : Screen) (hs : List Handler) (legacy : List Nat)
    (rand : List UInt8) (c : Conn)
    (resp : List UInt8) (vo : Bool) (ho : c.isOpen = true) (hp : c.peerClosed = false)
    (hst : c.st = .auth) (hbuf : c.inbuf = resp) (hlen : resp.length = 16) (hv : c.viewOnly = false)
    (hchk : passwordCheck env scr.pw c.challenge resp = some vo) :
    (procConn true env scr hs legacy rand c).1 =
      { c with inbuf := [], resp := some resp, viewOnly := vo, sent := .secResult true :: c.sent,
               st := .init } := by
  unfold procConn
  have h1 : ¬ (!c.isOpen) = true := by simp [ho]
  have h2 : ¬ c.st = .normal := by simp [hst]
  have h3 : ¬ c.inbuf.length < need c.st := by rw [hst, need_auth, hbuf, hlen]; omega
  rw [if_neg h1, if_neg h2, if_neg h3, hst]
  simp only [dispatch, need_auth, hbuf]
  have ht : resp.take 16 = resp := by rw [← hlen]; exact List.take_length
  have hd : resp.drop 16 = [] := by rw [← hlen]; exact List.drop_length
  rw [ht, hd]
  unfold processAuth
  simp only [hchk]
  unfold authOk
  simp [hp, hv, wr]

/-- the ClientInit byte in state INITIALISATION: ServerInit, state NORMAL -/
theorem procConn_init (fixed : Bool) (env : Env) (scr : Screen) (hs : List Handler) (legacy : List Nat)
    (rand : List UInt8)
    (c : Conn) (b : UInt8) (ho : c.isOpen = true) (hp : c.peerClosed = false) (hst : c.st = .init)
    (hbuf : c.inbuf = [b]) :
    (procConn fixed env scr hs legacy rand c).1 =
      { c with inbuf := [], st := .normal,
               sent := if c.tight then .tightInteractionCaps :: .serverInit :: c.sent
                       else .serverInit :: c.sent } := by
  unfold procConn
  have h1 : ¬ (!c.isOpen) = true := by simp [ho]
  have h2 : ¬ c.st = .normal := by simp [hst]
  have h3 : ¬ c.inbuf.length < need c.st := by rw [hst, need_init, hbuf]; simp
  rw [if_neg h1, if_neg h2, if_neg h3, hst]
  simp only [dispatch, need_init, hbuf]
  unfold processClientInit
  by_cases ht : c.tight <;> simp [hp, ht, wr]

/-- a 3.7+ version message on a connection that has to authenticate: exactly the list that contains
VNC authentication, state SECURITY_TYPE -/
theorem procConn_version_list (env : Env) (scr : Screen) (hs : List Handler) (legacy : List Nat)
    (rand : List UInt8)
    (c : Conn) (pv : List UInt8) (minor : Int) (hn : NeedsAuth scr c) (ho : c.isOpen = true)
    (hp : c.peerClosed = false) (hst : c.st = .ver) (hbuf : c.inbuf = pv) (hlen : pv.length = 12)
    (hparse : env.parseVer pv = some (3, minor)) (hm : ¬ minor < 7) :
    (procConn true env scr hs legacy rand c).1 =
      { c with inbuf := [], minor := minor, sent := .secTypes (offered true hs legacy secVncAuth) :: c.sent,
               st := .sec } := by
  unfold procConn
  have h1 : ¬ (!c.isOpen) = true := by simp [ho]
  have h2 : ¬ c.st = .normal := by simp [hst]
  have h3 : ¬ c.inbuf.length < need c.st := by rw [hst, need_ver, hbuf, hlen]; omega
  rw [if_neg h1, if_neg h2, if_neg h3, hst]
  simp only [dispatch, need_ver, hbuf]
  have ht : pv.take 12 = pv := by rw [← hlen]; exact List.take_length
  have hd : pv.drop 12 = [] := by rw [← hlen]; exact List.drop_length
  rw [ht, hd]
  unfold processVersion
  simp only [hparse]
  have hb : ∀ d : Conn, d.reverse = c.reverse → builtinType scr d = secVncAuth :=
    fun d hd => builtinType_needsAuth ⟨hn.1, by rw [hd]; exact hn.2⟩
  unfold authNewClient
  simp only [hm, ne_eq, not_true_eq_false, if_false]
  unfold sendSecurityTypeList
  simp [hb, hp, offered_ne_nil, wr]

/-- a 3.3 version message on a connection that has to authenticate: type 2 and the challenge -/
theorem procConn_version_33 (fixed : Bool) (env : Env) (scr : Screen) (hs : List Handler)
    (legacy : List Nat) (rand : List UInt8)
    (c : Conn) (pv : List UInt8) (minor : Int) (hn : NeedsAuth scr c) (ho : c.isOpen = true)
    (hp : c.peerClosed = false) (hst : c.st = .ver) (hbuf : c.inbuf = pv) (hlen : pv.length = 12)
    (hparse : env.parseVer pv = some (3, minor)) (hm : minor < 7) :
    (procConn fixed env scr hs legacy rand c).1 =
      { c with inbuf := [], minor := minor, challenge := rand,
               sent := .challenge rand :: .secType33 secVncAuth :: c.sent, st := .auth } := by
  unfold procConn
  have h1 : ¬ (!c.isOpen) = true := by simp [ho]
  have h2 : ¬ c.st = .normal := by simp [hst]
  have h3 : ¬ c.inbuf.length < need c.st := by rw [hst, need_ver, hbuf, hlen]; omega
  rw [if_neg h1, if_neg h2, if_neg h3, hst]
  simp only [dispatch, need_ver, hbuf]
  have ht : pv.take 12 = pv := by rw [← hlen]; exact List.take_length
  have hd : pv.drop 12 = [] := by rw [← hlen]; exact List.drop_length
  rw [ht, hd]
  unfold processVersion
  simp only [hparse]
  have hb : ∀ d : Conn, d.reverse = c.reverse → builtinType scr d = secVncAuth :=
    fun d hd => builtinType_needsAuth ⟨hn.1, by rw [hd]; exact hn.2⟩
  unfold authNewClient
  simp only [hm, ne_eq, not_true_eq_false, if_false, if_true]
  unfold sendSecurityType sendChallenge
  simp [hb, hp, secVncAuth_ne_secNone, wr]

/-- choosing VNC authentication in state SECURITY_TYPE (fixed code): the challenge, whatever the
process-global handler list holds by now -/
theorem procConn_choose_vncAuth (env : Env) (scr : Screen) (hs : List Handler) (legacy : List Nat)
    (rand : List UInt8)
    (c : Conn) (hn : NeedsAuth scr c) (ho : c.isOpen = true) (hp : c.peerClosed = false)
    (hst : c.st = .sec) (hbuf : c.inbuf = [2]) :
    (procConn true env scr hs legacy rand c).1 =
      { c with inbuf := [], challenge := rand, sent := .challenge rand :: c.sent, st := .auth } := by
  unfold procConn
  have h1 : ¬ (!c.isOpen) = true := by simp [ho]
  have h2 : ¬ c.st = .normal := by simp [hst]
  have h3 : ¬ c.inbuf.length < need c.st := by rw [hst, need_sec, hbuf]; simp
  rw [if_neg h1, if_neg h2, if_neg h3, hst]
  simp only [dispatch, need_sec, hbuf]
  unfold processSecurityType
  have hb : ∀ d : Conn, d.reverse = c.reverse → builtinType scr d = secVncAuth :=
    fun d hd => builtinType_needsAuth ⟨hn.1, by rw [hd]; exact hn.2⟩
  have h22 : (2 : UInt8).toNat = secVncAuth := by decide
  simp only [if_true, List.take, List.headD, h22]
  unfold runHandler sendChallenge
  simp [hb, hp, secVncAuth_ne_secNone, wr]

/-- choosing the TightVNC security type 16 on a connection that has to authenticate, with the auth
type "VNC" and a response that passes the check all in the input: tunnelling caps, auth caps,
challenge, SecurityResult OK, state INITIALISATION — in one call -/
theorem procConn_choose_tight (env : Env) (scr : Screen) (hs : List Handler) (legacy : List Nat)
    (rand : List UInt8) (c : Conn) (resp : List UInt8) (vo : Bool) (hn : NeedsAuth scr c)
    (ho : c.isOpen = true) (hp : c.peerClosed = false) (hst : c.st = .sec) (hv : c.viewOnly = false)
    (hbuf : c.inbuf = 16 :: 0 :: 0 :: 0 :: 2 :: resp) (hlen : resp.length = 16)
    (hreg : hs.find? (fun h => h.type == 16) = some .tight)
    (hchk : passwordCheck env scr.pw rand resp = some vo) :
    (procConn true env scr hs legacy rand c).1 =
      { c with inbuf := [], tight := true, challenge := rand, resp := some resp, viewOnly := vo,
               st := .init,
               sent := .secResult true :: .challenge rand :: .tightAuthCaps 1 :: .tightTunnelCaps :: c.sent } := by
  unfold procConn
  have h1 : ¬ (!c.isOpen) = true := by simp [ho]
  have h2 : ¬ c.st = .normal := by simp [hst]
  have h3 : ¬ c.inbuf.length < need c.st := by rw [hst, need_sec, hbuf]; simp
  rw [if_neg h1, if_neg h2, if_neg h3, hst]
  simp only [dispatch, need_sec, hbuf]
  have hb : ∀ d : Conn, d.reverse = c.reverse → builtinType scr d = 2 :=
    fun d hd => by
      have : builtinType scr d = secVncAuth := builtinType_needsAuth ⟨hn.1, by rw [hd]; exact hn.2⟩
      rw [this]; decide
  have h16' : (16 : UInt8).toNat = 16 := by decide
  have hcond : scr.pw ≠ PwCfg.none ∧ c.reverse = false := ⟨hn.1, hn.2⟩
  have e4 : C05.sz_rfbAuthenticationCapsMsg = 4 := by decide
  have e2 : C05.rfbAuthVNC = 2 := by decide
  have e16 : C05.CHALLENGESIZE = 16 := by decide
  have hbe : be32val (0 :: 0 :: 0 :: 2 :: resp) = 2 := by simp [be32val]
  have ht : resp.take 16 = resp := by rw [← hlen]; exact List.take_length
  have hd : resp.drop 16 = [] := by rw [← hlen]; exact List.drop_length
  simp [processSecurityType, hb, h16', hreg, runRegistered, tightHandler, hp, hcond.1, hcond.2, tightAuth, wr,
    e4, e2, e16, hbe, hlen, ht, hd, processAuth, hchk, authOk, hv]

/-- `recv` then `proc` on connection `cid`, in terms of `procConn` -/
theorem getConn_recv_proc (fixed : Bool) (env : Env) (screens : List Screen) (s : Proc) (cid : Nat)
    (bytes : List UInt8) (c c' : Conn) (scr : Screen)
    (hg : getConn s cid = some c)
    (hp : c.peerClosed = false) (hs : screens[c.screen]? = some scr)
    (h : (procConn fixed env scr s.handlers s.legacy s.rand { c with inbuf := c.inbuf ++ bytes }).1 = c') :
    getConn (step fixed env screens (step fixed env screens s (.recv cid bytes)) (.proc cid)) cid =
      some c' := by
  have e1 := getConn_recv fixed env screens s cid bytes c hg hp
  rw [getConn_proc fixed env screens _ cid _ scr e1 hs, ← h]
  rfl

end VncModel.Auth
